(* Order independence (C10) of the quota family: QuotaDistributor.evaluate, _subtract_overaward and
   LargestRemainder.evaluate return the same DICTIONARY whatever the insertion order of the votes, of the
   previous gains and of the caps.  The result lists of the two runs are related by [ok_rel]: the plain
   (candidate-keyed) parts are permutations of each other with distinct keys, the tie keys correspond one to
   one with permuted member lists and equal seat counts.  The proof is a simulation through every branch of
   the model (scan, the over-award subtraction, the remainder stage). *)
From Coq Require Import ZArith QArith Qround List Bool Lia Lqa Permutation Arith.
From VL Require Import Prelude.PyDict Model.GetNBest Model.Quota Model.QuotaDistributor
     Proofs.Dict_proofs Proofs.GetNBest_proofs Proofs.QOrd Proofs.QD_proofs Proofs.QD2_proofs Proofs.Order_proofs
     Proofs.HA_proofs Proofs.HAPerm_proofs Proofs.LRScale_proofs.
Import ListNotations.
Open Scope Z_scope.

(* ---------------------------------------------------------------- dictionaries up to insertion order *)
Section DictOrder.
  Context {X : Type}.
  Notation dict := (list (C * X)).

  Lemma dget_dset (d : dict) k v c : dget (dset d k v) c = if ceqb c k then Some v else dget d c.
  Proof.
    induction d as [|[k' v'] t IH]; simpl.
    - destruct (ceqb c k); reflexivity.
    - destruct (ceqb k k') eqn:E; simpl.
      + apply ceqb_eq in E. subst k'. destruct (ceqb c k); reflexivity.
      + rewrite IH. destruct (ceqb c k') eqn:E2; [|reflexivity].
        apply ceqb_eq in E2. subst k'. destruct (ceqb c k) eqn:E3; [|reflexivity].
        apply ceqb_eq in E3. subst k. rewrite ceqb_refl in E. discriminate.
  Qed.

  Lemma dset_keys_in (d : dict) k v c : In c (map fst (dset d k v)) <-> c = k \/ In c (map fst d).
  Proof.
    induction d as [|[k' v'] t IH]; simpl.
    - intuition.
    - destruct (ceqb k k') eqn:E; simpl.
      + apply ceqb_eq in E. subst k'. intuition.
      + rewrite IH. intuition.
  Qed.

  Lemma dset_nodup (d : dict) k v : NoDup (map fst d) -> NoDup (map fst (dset d k v)).
  Proof.
    induction d as [|[k' v'] t IH]; simpl; intros H.
    - constructor; [intros []|constructor].
    - inversion H as [|? ? Hk Hn]; subst. destruct (ceqb k k') eqn:E; simpl.
      + constructor; assumption.
      + constructor; [|apply IH, Hn]. rewrite dset_keys_in. intros [->|Hi]; [|tauto].
        rewrite ceqb_refl in E. discriminate.
  Qed.

  Lemma dset_fresh (d : dict) k v : ~ In k (map fst d) -> dset d k v = d ++ [(k, v)].
  Proof.
    induction d as [|[k' v'] t IH]; simpl; intros H; [reflexivity|].
    destruct (ceqb k k') eqn:E; [apply ceqb_eq in E; subst; tauto|].
    rewrite IH by tauto. reflexivity.
  Qed.

  Lemma dget_none_notin (d : dict) c : dget d c = None <-> ~ In c (map fst d).
  Proof.
    induction d as [|[k v] t IH]; simpl; [tauto|].
    destruct (ceqb c k) eqn:E.
    - apply ceqb_eq in E. subst. split; [discriminate|tauto].
    - apply ceqb_neq in E. rewrite IH. intuition congruence.
  Qed.

  (* two dictionaries with distinct keys and the same lookups are permutations of each other *)
  Lemma dict_ext_perm (d d' : dict) : NoDup (map fst d) -> NoDup (map fst d') ->
    (forall c, dget d c = dget d' c) -> Permutation d d'.
  Proof.
    intros Hn Hn' He. apply NoDup_Permutation.
    - eapply NoDup_map_inv; exact Hn.
    - eapply NoDup_map_inv; exact Hn'.
    - intros [c v]. split; intros H.
      + apply dget_In. rewrite <- He. apply In_dget; assumption.
      + apply dget_In. rewrite He. apply In_dget; assumption.
  Qed.

  Lemma perm_nodup_keys (d d' : dict) : NoDup (map fst d) -> Permutation d d' -> NoDup (map fst d').
  Proof. intros H Hp. eapply Permutation_NoDup; [apply Permutation_map, Hp|exact H]. Qed.

  Lemma dget_or_perm (d d' : dict) c x : NoDup (map fst d) -> Permutation d d' -> dget_or d c x = dget_or d' c x.
  Proof. intros H Hp. unfold dget_or. rewrite (dget_perm d d' c H Hp). reflexivity. Qed.
End DictOrder.

Lemma cmem_In c l : cmem c l = true <-> In c l.
Proof.
  induction l as [|x t IH]; simpl; [split; [discriminate|tauto]|].
  rewrite orb_true_iff, IH, ceqb_eq. intuition.
Qed.

Lemma cmem_perm c l l' : Permutation l l' -> cmem c l = cmem c l'.
Proof.
  intros Hp. destruct (cmem c l') eqn:E.
  - apply cmem_In. apply cmem_In in E. apply (Permutation_in _ (Permutation_sym Hp)). exact E.
  - apply not_true_iff_false. intros H. apply cmem_In in H. apply (Permutation_in _ Hp) in H.
    apply cmem_In in H. congruence.
Qed.

Lemma perm_filter {A} (f : A -> bool) l l' : Permutation l l' -> Permutation (filter f l) (filter f l').
Proof.
  induction 1 as [|x l l' _ IH|x y l|l l' l'' _ IH1 _ IH2]; simpl.
  - constructor.
  - destruct (f x); [constructor|]; exact IH.
  - destruct (f x), (f y); try apply Permutation_refl. apply perm_swap.
  - eapply Permutation_trans; eassumption.
Qed.

Lemma filter_keys_nodup {A B} (f : A * B -> bool) (l : list (A * B)) : NoDup (map fst l) -> NoDup (map fst (filter f l)).
Proof.
  induction l as [|x t IH]; simpl; intros H; [constructor|].
  inversion H as [|? ? Hx Hn]; subst. destruct (f x); simpl; [|apply IH, Hn].
  constructor; [|apply IH, Hn]. intros Hi. apply Hx. apply in_map_iff in Hi. destruct Hi as (y & Hy & Hi).
  apply filter_In in Hi. apply in_map_iff. exists y. tauto.
Qed.

(* sums *)
Definition lsumZ (l : list Z) : Z := fold_right Z.add 0 l.
Lemma fold_add_acc l : forall a, fold_left Z.add l a = a + lsumZ l.
Proof. induction l as [|x t IH]; intros a; simpl; [lia|]. rewrite IH. lia. Qed.
Lemma lsumZ_perm l l' : Permutation l l' -> lsumZ l = lsumZ l'.
Proof. induction 1; simpl; lia. Qed.
Lemma lsumZ_app a b : lsumZ (a ++ b) = lsumZ a + lsumZ b.
Proof. induction a; simpl; lia. Qed.
Lemma zsumv_perm l l' : Permutation l l' -> zsumv l = zsumv l'.
Proof.
  intros Hp. unfold zsumv. rewrite !fold_add_acc. f_equal. apply lsumZ_perm, Permutation_map, Hp.
Qed.

Lemma qsumv_perm l l' : Permutation l l' -> (qsumv l == qsumv l')%Q.
Proof.
  intros Hp. unfold qsumv.
  assert (H : forall (l : list Q) a, (fold_left Qplus l a == a + fold_right Qplus 0 l)%Q).
  { induction l0 as [|x t IH]; intros a; simpl; [ring|]. rewrite IH. ring. }
  rewrite !H. apply Qplus_comp; [reflexivity|].
  assert (Hm : Permutation (map snd l) (map snd l')) by (apply Permutation_map, Hp).
  clear -Hm. induction Hm; simpl; try ring.
  - rewrite IHHm. reflexivity.
  - rewrite IHHm1. exact IHHm2.
Qed.

(* ---------------------------------------------------------------- get_n_best: shape, and shape under a permutation *)
Section GnbShape.
  Context {K : Type}.
  Notation gnb := (@get_n_best K Q Qle_bool).

  Lemma nodup_keys_app3 (a b c : list (K * Q)) : NoDup (map fst (a ++ b ++ c)) -> NoDup (map fst a) /\ NoDup (map fst b) /\ NoDup (map fst (a ++ b)).
  Proof.
    intros H. rewrite app_assoc, map_app in H. apply nodup_app_l in H.
    split; [|split; [|exact H]]; rewrite map_app in H.
    - apply nodup_app_l in H. exact H.
    - apply nodup_app_inv in H. tauto.
  Qed.

  Lemma gnb_shape (votes : list (K * Q)) n : (1 <= n)%nat -> NoDup (map fst votes) ->
    exists cs T k, gnb votes n = map Cand cs ++ repeat (TieR T) k /\ NoDup cs /\ NoDup T /\
      (length cs + k = Nat.min n (length votes))%nat.
  Proof.
    intros Hn Hnd.
    destruct (get_n_best_spec Qle_bool Qle_bool_total Qle_bool_trans votes n Hn) as [Hsmall Hbig].
    assert (Hmap : forall l : list (K * Q), map (@cand_of K Q) l = map Cand (map fst l)).
    { intros l. rewrite map_map. reflexivity. }
    destruct (Nat.le_gt_cases (length votes) n) as [Hle|Hgt].
    - destruct (Hsmall Hle) as (s & Hp & _ & Hr). exists (map fst s), [], 0%nat. rewrite Hr, Hmap. simpl. rewrite app_nil_r.
      split; [reflexivity|]. split; [eapply Permutation_NoDup; [apply Permutation_map, Permutation_sym, Hp|exact Hnd]|].
      split; [constructor|]. rewrite map_length, (Permutation_length Hp). lia.
    - destruct (Hbig Hgt) as (above & level & below & thr & Hp & _ & _ & _ & _ & Hpos & Heq & Htie).
      assert (Hnd3 : NoDup (map fst (above ++ level ++ below))).
      { eapply Permutation_NoDup; [apply Permutation_map, Permutation_sym, Hp|exact Hnd]. }
      destruct (nodup_keys_app3 _ _ _ Hnd3) as (Na & Nl & Nal).
      destruct (Nat.eq_dec (length above + length level) n) as [He|Hne].
      + exists (map fst (above ++ level)), [], 0%nat. rewrite (Heq He), Hmap. simpl. rewrite app_nil_r.
        split; [reflexivity|]. split; [exact Nal|]. split; [constructor|]. rewrite map_length, app_length. lia.
      + exists (map fst above), (map fst level), (n - length above)%nat. rewrite (Htie ltac:(lia)), Hmap.
        split; [reflexivity|]. split; [exact Na|]. split; [exact Nl|]. rewrite map_length. lia.
  Qed.

  Lemma in_cand_app (cs : list K) T k c : In (Cand c) (map Cand cs ++ repeat (TieR T) k) <-> In c cs.
  Proof.
    rewrite in_app_iff. split.
    - intros [H|H]; [apply in_map_iff in H; destruct H as (x & Hx & Hi); injection Hx as ->; exact Hi|].
      apply repeat_spec in H. discriminate.
    - intros H. left. apply in_map. exact H.
  Qed.
  Lemma in_tie_app (cs : list K) T k T0 : In (TieR T0) (map Cand cs ++ repeat (TieR T) k) <-> (T0 = T /\ (1 <= k)%nat).
  Proof.
    rewrite in_app_iff. split.
    - intros [H|H]; [apply in_map_iff in H; destruct H as (x & Hx & _); discriminate|].
      pose proof (repeat_spec _ _ _ H) as E. injection E as ->. split; [reflexivity|]. destruct k; [destruct H|lia].
    - intros [-> Hk]. right. destruct k; [lia|]. left. reflexivity.
  Qed.

  (* the two outcomes on permuted inputs: same elected set, same number of tie seats, same tie members *)
  Theorem gnb_perm_shape (votes votes' : list (K * Q)) n : (1 <= n)%nat -> NoDup (map fst votes) -> Permutation votes votes' ->
    exists cs cs' T T' k, gnb votes n = map Cand cs ++ repeat (TieR T) k /\ gnb votes' n = map Cand cs' ++ repeat (TieR T') k /\
      Permutation cs cs' /\ NoDup cs /\ ((1 <= k)%nat -> Permutation T T').
  Proof.
    intros Hn Hnd Hp.
    assert (Hnd' : NoDup (map fst votes')) by (eapply Permutation_NoDup; [apply Permutation_map, Hp|exact Hnd]).
    destruct (gnb_shape votes n Hn Hnd) as (cs & T & k & E & Ncs & NT & Hlen).
    destruct (gnb_shape votes' n Hn Hnd') as (cs' & T' & k' & E' & Ncs' & NT' & Hlen').
    (* members of the outcomes are keys of the input *)
    assert (Hkey : forall c, In c cs \/ ((1 <= k)%nat /\ In c T) -> exists v, In (c, v) votes).
    { intros c Hc.
      destruct (get_n_best_spec Qle_bool Qle_bool_total Qle_bool_trans votes n Hn) as [Hsmall Hbig].
      assert (Hin : forall l : list (K * Q), In c (map fst l) -> (forall x, In x l -> In x votes) -> exists v, In (c, v) votes).
      { intros l Hi Hs. apply in_map_iff in Hi. destruct Hi as ([c0 v0] & Hc0 & Hi). simpl in Hc0. subst c0. exists v0. apply Hs, Hi. }
      destruct (Nat.le_gt_cases (length votes) n) as [Hle|Hgt].
      - destruct (Hsmall Hle) as (s & Hps & _ & Hr). rewrite E in Hr.
        destruct Hc as [Hc|[Hk Hc]].
        + assert (H1 : In (Cand c) (map (@cand_of K Q) s)) by (rewrite <- Hr; apply in_cand_app; exact Hc).
          apply in_map_iff in H1. destruct H1 as ([c0 v0] & Hx & Hi). injection Hx as ->. exists v0. apply (Permutation_in _ Hps Hi).
        + assert (H1 : In (TieR T) (map (@cand_of K Q) s)) by (rewrite <- Hr; apply in_tie_app; split; [reflexivity|exact Hk]).
          apply in_map_iff in H1. destruct H1 as (x & Hx & _). discriminate.
      - destruct (Hbig Hgt) as (above & level & below & thr & Hps & _ & _ & _ & _ & Hpos & Heq & Htie).
        assert (Hsub : forall x, In x (above ++ level) -> In x votes).
        { intros x Hx. apply (Permutation_in _ Hps). rewrite app_assoc. apply in_or_app. left. exact Hx. }
        destruct (Nat.eq_dec (length above + length level) n) as [He|Hne].
        + rewrite (Heq He) in E.
          destruct Hc as [Hc|[Hk Hc]].
          * assert (H1 : In (Cand c) (map (@cand_of K Q) (above ++ level))) by (rewrite E; apply in_cand_app; exact Hc).
            apply in_map_iff in H1. destruct H1 as ([c0 v0] & Hx & Hi). injection Hx as ->. exists v0. apply Hsub, Hi.
          * assert (H1 : In (TieR T) (map (@cand_of K Q) (above ++ level))) by (rewrite E; apply in_tie_app; split; [reflexivity|exact Hk]).
            apply in_map_iff in H1. destruct H1 as (x & Hx & _). discriminate.
        + rewrite (Htie ltac:(lia)) in E.
          destruct Hc as [Hc|[Hk Hc]].
          * assert (H1 : In (Cand c) (map (@cand_of K Q) above ++ repeat (TieR (map fst level)) (n - length above))) by (rewrite E; apply in_cand_app; exact Hc).
            apply in_app_or in H1. destruct H1 as [H1|H1]; [|apply repeat_spec in H1; discriminate].
            apply in_map_iff in H1. destruct H1 as ([c0 v0] & Hx & Hi). injection Hx as ->. exists v0. apply Hsub, in_or_app. left. exact Hi.
          * assert (H1 : In (TieR T) (map (@cand_of K Q) above ++ repeat (TieR (map fst level)) (n - length above))) by (rewrite E; apply in_tie_app; split; [reflexivity|exact Hk]).
            apply in_app_or in H1. destruct H1 as [H1|H1]; [apply in_map_iff in H1; destruct H1 as (x & Hx & _); discriminate|].
            apply repeat_spec in H1. injection H1 as ->. apply (Hin level Hc). intros x Hx. apply Hsub, in_or_app. right. exact Hx. }
    assert (Hcs : forall c, In c cs <-> In c cs').
    { intros c. split; intros H.
      - destruct (Hkey c (or_introl H)) as (v & Hv). destruct (gnb_perm votes votes' n c v Hn Hnd Hp Hv) as [A _].
        rewrite E, E', !in_cand_app in A. apply A, H.
      - assert (Hc : In (Cand c) (gnb votes' n)) by (rewrite E'; apply in_cand_app; exact H).
        (* keys of the second outcome are keys of votes' hence of votes *)
        assert (Hv : exists v, In (c, v) votes).
        { destruct (get_n_best_spec Qle_bool Qle_bool_total Qle_bool_trans votes' n Hn) as [Hsmall Hbig].
          destruct (Nat.le_gt_cases (length votes') n) as [Hle|Hgt].
          - destruct (Hsmall Hle) as (s & Hps & _ & Hr). rewrite Hr in Hc. apply in_map_iff in Hc.
            destruct Hc as ([c0 v0] & Hx & Hi). injection Hx as ->. exists v0.
            apply (Permutation_in _ (Permutation_sym Hp)), (Permutation_in _ Hps Hi).
          - destruct (Hbig Hgt) as (above & level & below & thr & Hps & _ & _ & _ & _ & Hpos & Heq & Htie).
            assert (Hsub : forall x, In x (above ++ level) -> In x votes).
            { intros x Hx. apply (Permutation_in _ (Permutation_sym Hp)), (Permutation_in _ Hps). rewrite app_assoc. apply in_or_app. left. exact Hx. }
            destruct (Nat.eq_dec (length above + length level) n) as [He|Hne].
            + rewrite (Heq He) in Hc. apply in_map_iff in Hc. destruct Hc as ([c0 v0] & Hx & Hi). injection Hx as ->. exists v0. apply Hsub, Hi.
            + rewrite (Htie ltac:(lia)) in Hc. apply in_app_or in Hc. destruct Hc as [Hc|Hc]; [|apply repeat_spec in Hc; discriminate].
              apply in_map_iff in Hc. destruct Hc as ([c0 v0] & Hx & Hi). injection Hx as ->. exists v0. apply Hsub, in_or_app. left. exact Hi. }
        destruct Hv as (v & Hv). destruct (gnb_perm votes votes' n c v Hn Hnd Hp Hv) as [A _].
        rewrite E, E', !in_cand_app in A. apply A, H. }
    assert (Pcs : Permutation cs cs') by (apply NoDup_Permutation; assumption).
    assert (Hk : k = k').
    { pose proof (Permutation_length Pcs). pose proof (Permutation_length Hp). lia. }
    subst k'. exists cs, cs', T, T', k. split; [exact E|]. split; [exact E'|]. split; [exact Pcs|]. split; [exact Ncs|].
    intros Hk. apply NoDup_Permutation; [exact NT|exact NT'|].
    assert (Htm : forall c v, In (c, v) votes -> (In c T <-> In c T')).
    { intros c v Hv. destruct (gnb_perm votes votes' n c v Hn Hnd Hp Hv) as [_ B]. rewrite E, E' in B. split; intros H.
      - destruct (proj1 B) as (T0 & HT0 & Hc0); [exists T; split; [apply in_tie_app; tauto|exact H]|].
        apply in_tie_app in HT0. destruct HT0 as [-> _]. exact Hc0.
      - destruct (proj2 B) as (T0 & HT0 & Hc0); [exists T'; split; [apply in_tie_app; tauto|exact H]|].
        apply in_tie_app in HT0. destruct HT0 as [-> _]. exact Hc0. }
    intros c. split; intros H.
    - destruct (Hkey c (or_intror (conj Hk H))) as (v & Hv). apply (Htm c v Hv), H.
    - (* symmetric: use the theorem with the roles exchanged *)
      assert (Hv : exists v, In (c, v) votes).
      { destruct (get_n_best_tie_members Qle_bool Qle_bool_trans votes' n T') as (thr & HT & _).
        { rewrite E'. apply in_tie_app. tauto. }
        rewrite HT in H. apply in_map_iff in H. destruct H as ([c0 v0] & Hx & Hi). simpl in Hx. subst c0. apply filter_In in Hi.
        exists v0. apply (Permutation_in _ (Permutation_sym Hp)), (proj1 Hi). }
      destruct Hv as (v & Hv). apply (Htm c v Hv), H.
  Qed.
End GnbShape.

(* ---------------------------------------------------------------- dictionary operations of the model *)
Notation zdict := (list (C * Z)).
Definition keysnd (d : zdict) : Prop := NoDup (map fst d).

(* folding a key-indexed update over a permuted key list *)
Lemma fold_op_perm (op : zdict -> C -> zdict) :
  (forall d c, keysnd d -> keysnd (op d c)) ->
  (forall d d' c, keysnd d -> Permutation d d' -> Permutation (op d c) (op d' c)) ->
  (forall d x y, keysnd d -> Permutation (op (op d x) y) (op (op d y) x)) ->
  forall l l', Permutation l l' -> forall d d', keysnd d -> Permutation d d' ->
  Permutation (fold_left op l d) (fold_left op l' d').
Proof.
  intros Hnd Hpres Hcomm.
  assert (Hsame : forall l d d', keysnd d -> Permutation d d' -> Permutation (fold_left op l d) (fold_left op l d')).
  { induction l as [|x l IH]; intros d d' Hd Hp; simpl; [exact Hp|]. apply IH; [apply Hnd, Hd|apply Hpres; assumption]. }
  induction 1 as [|x l l' _ IH|x y l|l l' l'' _ IH1 _ IH2]; intros d d' Hd Hp; simpl.
  - exact Hp.
  - apply IH; [apply Hnd, Hd|apply Hpres; assumption].
  - apply Hsame; [apply Hnd, Hnd, Hd|].
    eapply Permutation_trans; [apply Hcomm, Hd|]. apply Hpres; [apply Hnd, Hd|]. apply Hpres; assumption.
  - eapply Permutation_trans; [apply IH1; [exact Hd|apply Permutation_refl]|]. apply IH2; assumption.
Qed.

Lemma fold_op_nodup (op : zdict -> C -> zdict) : (forall d c, keysnd d -> keysnd (op d c)) ->
  forall l d, keysnd d -> keysnd (fold_left op l d).
Proof. intros H. induction l as [|x l IH]; intros d Hd; simpl; [exact Hd|]. apply IH, H, Hd. Qed.

(* incr_t *)
Lemma dget_incr_t (d : zdict) c c' : dget (incr_t d c) c' = if ceqb c' c then Some (dget_or d c 0 + 1) else dget d c'.
Proof. unfold incr_t. apply dget_dset. Qed.
Lemma incr_t_nodup (d : zdict) c : keysnd d -> keysnd (incr_t d c).
Proof. apply dset_nodup. Qed.
Lemma incr_t_perm (d d' : zdict) c : keysnd d -> Permutation d d' -> Permutation (incr_t d c) (incr_t d' c).
Proof.
  intros Hd Hp. pose proof (perm_nodup_keys _ _ Hd Hp) as Hd'.
  apply dict_ext_perm; [apply incr_t_nodup, Hd|apply incr_t_nodup, Hd'|].
  intros k. rewrite !dget_incr_t, (dget_or_perm d d' c 0 Hd Hp), (dget_perm d d' k Hd Hp). reflexivity.
Qed.
Lemma incr_t_comm (d : zdict) x y : keysnd d -> Permutation (incr_t (incr_t d x) y) (incr_t (incr_t d y) x).
Proof.
  intros Hd. apply dict_ext_perm; [apply incr_t_nodup, incr_t_nodup, Hd|apply incr_t_nodup, incr_t_nodup, Hd|].
  intros k. rewrite !dget_incr_t. unfold dget_or. rewrite !dget_incr_t.
  destruct (ceqb k y) eqn:Ey, (ceqb k x) eqn:Ex; try reflexivity.
  - apply ceqb_eq in Ey, Ex. subst. rewrite ceqb_refl. reflexivity.
  - apply ceqb_eq in Ey. subst k. rewrite Ex. reflexivity.
  - apply ceqb_eq in Ex. subst k. rewrite Ey. reflexivity.
Qed.

(* dec_key *)
Lemma dec_key_keys (d : zdict) c x : In x (map fst (dec_key d c)) -> In x (map fst d).
Proof.
  induction d as [|[k s] t IH]; simpl; [tauto|].
  destruct (ceqb c k); [destruct (s =? 1); simpl; tauto|]. simpl. intros [H|H]; [left; exact H|right; apply IH, H].
Qed.
Lemma dec_key_nodup (d : zdict) c : keysnd d -> keysnd (dec_key d c).
Proof.
  unfold keysnd. induction d as [|[k s] t IH]; simpl; intros H; [constructor|].
  inversion H as [|? ? Hk Hn]; subst.
  destruct (ceqb c k); [destruct (s =? 1); [exact Hn|simpl; constructor; assumption]|].
  simpl. constructor; [|apply IH, Hn]. intros Hi. apply Hk. eapply dec_key_keys, Hi.
Qed.
Definition dec_val (o : option Z) : option Z :=
  match o with Some s => if s =? 1 then None else Some (s - 1) | None => None end.
Lemma dget_dec_key (d : zdict) c c' : keysnd d ->
  dget (dec_key d c) c' = if ceqb c' c then dec_val (dget d c) else dget d c'.
Proof.
  unfold keysnd. induction d as [|[k s] t IH]; simpl; intros H.
  - destruct (ceqb c' c); reflexivity.
  - inversion H as [|? ? Hk Hn]; subst. destruct (ceqb c k) eqn:E.
    + apply ceqb_eq in E. subst k. destruct (ceqb c' c) eqn:E2.
      * apply ceqb_eq in E2. subst c'. simpl. destruct (s =? 1); simpl; [|rewrite ceqb_refl; reflexivity].
        apply dget_none_notin. exact Hk.
      * destruct (s =? 1); simpl; [reflexivity|]. rewrite E2. reflexivity.
    + simpl. rewrite (IH Hn). destruct (ceqb c' k) eqn:E3; [|reflexivity].
      apply ceqb_eq in E3. subst k. destruct (ceqb c' c) eqn:E4; [|reflexivity].
      apply ceqb_eq in E4. subst c'. rewrite ceqb_refl in E. discriminate.
Qed.
Lemma dec_key_perm (d d' : zdict) c : keysnd d -> Permutation d d' -> Permutation (dec_key d c) (dec_key d' c).
Proof.
  intros Hd Hp. pose proof (perm_nodup_keys _ _ Hd Hp) as Hd'.
  apply dict_ext_perm; [apply dec_key_nodup, Hd|apply dec_key_nodup, Hd'|].
  intros k. rewrite !dget_dec_key by assumption. rewrite (dget_perm d d' c Hd Hp), (dget_perm d d' k Hd Hp). reflexivity.
Qed.
Lemma dec_key_comm (d : zdict) x y : keysnd d -> Permutation (dec_key (dec_key d x) y) (dec_key (dec_key d y) x).
Proof.
  intros Hd. destruct (Pos.eq_dec x y) as [->|Hne]; [apply Permutation_refl|].
  apply dict_ext_perm; [apply dec_key_nodup, dec_key_nodup, Hd|apply dec_key_nodup, dec_key_nodup, Hd|].
  intros k. rewrite !dget_dec_key by (try apply dec_key_nodup; exact Hd).
  assert (Exy : ceqb x y = false) by (apply ceqb_neq; exact Hne).
  assert (Eyx : ceqb y x = false) by (apply ceqb_neq; congruence).
  rewrite Exy, Eyx.
  destruct (ceqb k y) eqn:Ey, (ceqb k x) eqn:Ex; try reflexivity.
  apply ceqb_eq in Ey, Ex. congruence.
Qed.

(* add_dict *)
Lemma add_dict_nodup (d1 d2 : zdict) : keysnd d1 -> keysnd (add_dict d1 d2).
Proof.
  unfold add_dict. revert d1. induction d2 as [|[k x] t IH]; intros d1 H; simpl; [exact H|].
  apply IH. apply dset_nodup, H.
Qed.
Lemma dget_add_dict (d2 : zdict) : forall d1 c, keysnd d2 ->
  dget (add_dict d1 d2) c = match dget d2 c with Some x => Some (dget_or d1 c 0 + x) | None => dget d1 c end.
Proof.
  unfold add_dict, keysnd. induction d2 as [|[k x] t IH]; intros d1 c H; simpl; [reflexivity|].
  inversion H as [|? ? Hk Hn]; subst. rewrite (IH _ c Hn). unfold dget_or. rewrite !dget_dset.
  destruct (ceqb c k) eqn:E.
  - apply ceqb_eq in E. subst c. apply dget_none_notin in Hk. rewrite Hk. reflexivity.
  - reflexivity.
Qed.
Lemma add_dict_perm (d1 d1' d2 d2' : zdict) : keysnd d1 -> Permutation d1 d1' -> keysnd d2 -> Permutation d2 d2' ->
  Permutation (add_dict d1 d2) (add_dict d1' d2').
Proof.
  intros H1 P1 H2 P2. pose proof (perm_nodup_keys _ _ H1 P1) as H1'. pose proof (perm_nodup_keys _ _ H2 P2) as H2'.
  apply dict_ext_perm; [apply add_dict_nodup, H1|apply add_dict_nodup, H1'|].
  intros c. rewrite !dget_add_dict by assumption.
  rewrite (dget_perm d2 d2' c H2 P2), (dget_or_perm d1 d1' c 0 H1 P1), (dget_perm d1 d1' c H1 P1). reflexivity.
Qed.

(* ---------------------------------------------------------------- results compared as dictionaries *)
Definition plain_of (s : list (key * Z)) : zdict :=
  flat_map (fun kv : key * Z => match fst kv with K c => [(c, snd kv)] | KT _ => [] end) s.
Definition ties_of (s : list (key * Z)) : list (list C * Z) :=
  flat_map (fun kv : key * Z => match fst kv with KT l => [(l, snd kv)] | K _ => [] end) s.
Definition has_tie (s : list (key * Z)) : bool :=
  existsb (fun kv : key * Z => match fst kv with KT _ => true | _ => false end) s.
Definition tie_rel (a b : list C * Z) : Prop := Permutation (fst a) (fst b) /\ snd a = snd b.

(* same candidate-keyed entries (distinct keys, any order), tie keys in one-to-one correspondence with the same
   members and the same seats *)
Definition ok_rel (s s' : list (key * Z)) : Prop :=
  keysnd (plain_of s) /\ Permutation (plain_of s) (plain_of s') /\ Forall2 tie_rel (ties_of s) (ties_of s').

Definition qd_rel (r r' : qd_result) : Prop :=
  match r, r' with
  | QD_ok s, QD_ok s' => ok_rel s s'
  | QD_vse, QD_vse | QD_zerodiv, QD_zerodiv | QD_index, QD_index | QD_unmodelled, QD_unmodelled | QD_fuel, QD_fuel => True
  | _, _ => False
  end.

Definition kplain (sel : zdict) : list (key * Z) := map (fun kv : C * Z => (K (fst kv), snd kv)) sel.
Lemma plain_of_kplain sel : plain_of (kplain sel) = sel.
Proof. unfold plain_of, kplain. induction sel as [|[c s] t IH]; simpl; [reflexivity|]. rewrite IH. reflexivity. Qed.
Lemma ties_of_kplain sel : ties_of (kplain sel) = [].
Proof. unfold ties_of, kplain. induction sel as [|[c s] t IH]; simpl; [reflexivity|exact IH]. Qed.
Lemma plain_of_app a b : plain_of (a ++ b) = plain_of a ++ plain_of b.
Proof. apply flat_map_app. Qed.
Lemma ties_of_app a b : ties_of (a ++ b) = ties_of a ++ ties_of b.
Proof. apply flat_map_app. Qed.

Lemma has_tie_ties s : has_tie s = match ties_of s with [] => false | _ => true end.
Proof.
  unfold has_tie, ties_of. induction s as [|[[c|l] z] t IH]; simpl; [reflexivity|exact IH|reflexivity].
Qed.
Lemma ok_rel_has_tie s s' : ok_rel s s' -> has_tie s = has_tie s'.
Proof. intros (_ & _ & H). rewrite !has_tie_ties. destruct H; reflexivity. Qed.

Lemma ok_rel_kplain sel sel' : keysnd sel -> Permutation sel sel' -> ok_rel (kplain sel) (kplain sel').
Proof.
  intros H P. unfold ok_rel. rewrite !plain_of_kplain, !ties_of_kplain. split; [exact H|]. split; [exact P|constructor].
Qed.

(* the order-free observation: every candidate's seats, and the tie keys *)
Lemma kdget_plain_of s c : keysnd (plain_of s) -> kdget s c = dget_or (plain_of s) c 0.
Proof.
  unfold kdget.
  assert (H : forall a, keysnd (plain_of s) ->
     fold_left (fun (acc : Z) (kv : key * Z) => match fst kv with K c' => if ceqb c c' then snd kv else acc | KT _ => acc end) s a
     = match dget (plain_of s) c with Some v => v | None => a end).
  { induction s as [|[[c'|l] z] t IH]; intros a Hn; simpl; [reflexivity| |apply IH, Hn].
    unfold keysnd in Hn. simpl in Hn. inversion Hn as [|? ? Hk Hn']; subst.
    rewrite (IH _ Hn'). destruct (ceqb c c') eqn:E; [|reflexivity].
    apply ceqb_eq in E. subst c'. apply dget_none_notin in Hk. fold (plain_of t). rewrite Hk. reflexivity. }
  intros Hn. rewrite (H 0 Hn). reflexivity.
Qed.

Theorem ok_rel_obs s s' : ok_rel s s' ->
  (forall c, kdget s c = kdget s' c) /\ Forall2 tie_rel (ties_of s) (ties_of s').
Proof.
  intros (Hn & Hp & Ht). split; [|exact Ht]. intros c.
  rewrite !kdget_plain_of; [apply dget_or_perm; assumption| |exact Hn].
  eapply perm_nodup_keys; eassumption.
Qed.

(* ---------------------------------------------------------------- rationals up to == *)
Lemma Qle_bool_ext a a' b b' : (a == a')%Q -> (b == b')%Q -> Qle_bool a b = Qle_bool a' b'.
Proof. intros Ha Hb. apply Qle_bool_Qeq; assumption. Qed.
Lemma Qeq_bool_ext a a' b b' : (a == a')%Q -> (b == b')%Q -> Qeq_bool a b = Qeq_bool a' b'.
Proof. intros Ha Hb. apply Qeq_bool_Qeq; assumption. Qed.

Lemma existsb_perm {A} (f : A -> bool) l l' : Permutation l l' -> existsb f l = existsb f l'.
Proof.
  induction 1 as [|x l l' _ IH|x y l|l l' l'' _ IH1 _ IH2]; simpl; try congruence.
  destruct (f x), (f y); reflexivity.
Qed.
Lemma existsb_ext' {A} (f g : A -> bool) l : (forall x, f x = g x) -> existsb f l = existsb g l.
Proof. intros H. induction l as [|x l IH]; simpl; [reflexivity|]. rewrite H, IH. reflexivity. Qed.

(* ---------------------------------------------------------------- the scan as a per-party function *)
Section Scan.
  Variable accept_equal : bool.
  Notation fulfills := (fulfills accept_equal).

  (* None: nothing awarded; Some s: s seats (whole quotas cut at the cap, less the previous gains) *)
  Definition scan_item (q : Q) (prev caps : zdict) (cv : C * Q) : option Z :=
    let n_prev := dget_or prev (fst cv) 0 in
    if fulfills (snd cv) q then
      let add := cap_whole caps (fst cv) (py_trunc (snd cv / q)%Q) - n_prev in
      if 0 <? add then Some add else None
    else None.

  Definition isel q prev caps (cv : C * Q) : zdict :=
    match scan_item q prev caps cv with Some s => [(fst cv, s)] | None => [] end.

  Lemma isel_keys q prev caps votes c : In c (map fst (flat_map (isel q prev caps) votes)) -> In c (map fst votes).
  Proof.
    intros H. apply in_map_iff in H. destruct H as ([c0 s] & Hc & Hi). simpl in Hc. subst c0.
    apply in_flat_map in Hi. destruct Hi as (cv & Hcv & Hi). apply in_map_iff. exists cv. split; [|exact Hcv].
    unfold isel in Hi. destruct (scan_item q prev caps cv) as [s0|]; [|destruct Hi].
    destruct Hi as [Hi|[]]. injection Hi as <- _. reflexivity.
  Qed.

  Lemma isel_nodup q prev caps votes : NoDup (map fst votes) -> keysnd (flat_map (isel q prev caps) votes).
  Proof.
    unfold keysnd. induction votes as [|cv t IH]; simpl; intros H; [constructor|].
    inversion H as [|? ? Hk Hn]; subst. rewrite map_app. unfold isel at 1.
    destruct (scan_item q prev caps cv) as [s|]; simpl; [|apply IH, Hn].
    constructor; [|apply IH, Hn]. intros Hi. apply Hk. eapply isel_keys, Hi.
  Qed.

  Lemma scan_char q prev caps votes : forall sel, NoDup (map fst votes) ->
    (forall c, In c (map fst votes) -> ~ In c (map fst sel)) ->
    scan accept_equal votes q prev caps sel = sel ++ flat_map (isel q prev caps) votes.
  Proof.
    induction votes as [|[c v] t IH]; intros sel Hnd Hfresh.
    - simpl. rewrite app_nil_r. reflexivity.
    - inversion Hnd as [|? ? Hk Hn]; subst.
      assert (Hc : ~ In c (map fst sel)) by (apply Hfresh; left; reflexivity).
      cbn [scan flat_map]. unfold isel at 1, scan_item. cbn [fst snd].
      assert (Hskip : scan accept_equal t q prev caps sel = sel ++ [] ++ flat_map (isel q prev caps) t).
      { rewrite IH; [|exact Hn|intros; apply Hfresh; right; assumption]. reflexivity. }
      destruct (fulfills v q); [|exact Hskip].
      destruct (0 <? cap_whole caps c (py_trunc (v / q)) - dget_or prev c 0); [|exact Hskip]. clear Hskip.
      assert (Hfresh' : forall x, forall c0, In c0 (map fst t) -> ~ In c0 (map fst (dset sel c x))).
      { intros x c0 Hc0. rewrite dset_keys_in. intros [->|Hi]; [tauto|]. revert Hi. apply Hfresh. right. exact Hc0. }
      rewrite IH; [|exact Hn|apply Hfresh']. rewrite (dset_fresh sel c _ Hc), <- !app_assoc. reflexivity.
  Qed.

  Lemma scan_item_ext q q' prev prev' caps caps' cv : (q' == q)%Q ->
    (forall c, dget_or prev' c 0 = dget_or prev c 0) -> (forall c, dget caps' c = dget caps c) ->
    scan_item q' prev' caps' cv = scan_item q prev caps cv.
  Proof.
    intros Hq Hp Hc. unfold scan_item, QuotaDistributor.fulfills, cap_whole.
    assert (E1 : Qle_bool (snd cv) q' = Qle_bool (snd cv) q) by (apply Qle_bool_ext; [reflexivity|exact Hq]).
    assert (E2 : Qeq_bool (snd cv) q' = Qeq_bool (snd cv) q) by (apply Qeq_bool_ext; [reflexivity|exact Hq]).
    assert (E3 : py_trunc (snd cv / q') = py_trunc (snd cv / q)) by (apply py_trunc_Qeq; rewrite Hq; reflexivity).
    rewrite E1, E2, E3, Hp, Hc. reflexivity.
  Qed.
End Scan.

(* ---------------------------------------------------------------- dictionaries keyed by candidates and ties *)
Definition tset_eqb (l m : list C) : bool := forallb (fun c => cmem c m) l && forallb (fun c => cmem c l) m.
Lemma forallb_perm {A} (f : A -> bool) l l' : Permutation l l' -> forallb f l = forallb f l'.
Proof.
  induction 1 as [|x l l' _ IH|x y l|l l' l'' _ IH1 _ IH2]; simpl; try congruence.
  destruct (f x), (f y); reflexivity.
Qed.
Lemma forallb_ext' {A} (f g : A -> bool) l : (forall x, f x = g x) -> forallb f l = forallb g l.
Proof. intros H. induction l as [|x l IH]; simpl; [reflexivity|]. rewrite H, IH. reflexivity. Qed.

Lemma tset_eqb_perm l l' m m' : Permutation l l' -> Permutation m m' -> tset_eqb l m = tset_eqb l' m'.
Proof.
  intros Hl Hm. unfold tset_eqb. f_equal.
  - rewrite (forallb_perm _ _ _ Hl). apply forallb_ext'. intros c. apply cmem_perm, Hm.
  - rewrite (forallb_perm _ _ _ Hm). apply forallb_ext'. intros c. apply cmem_perm, Hl.
Qed.


Lemma tset_eqb_refl l : tset_eqb l l = true.
Proof. unfold tset_eqb. assert (H : forallb (fun c => cmem c l) l = true) by (apply forallb_forall; intros c Hc; apply cmem_In, Hc). rewrite H. reflexivity. Qed.
Lemma tset_eqb_sym l m : tset_eqb l m = tset_eqb m l.
Proof. unfold tset_eqb. apply andb_comm. Qed.

Definition tkeys (T : list (list C * Z)) : list (key * Z) := map (fun lz : list C * Z => (KT (fst lz), snd lz)) T.
(* the shape of `selected` all along _subtract_overaward: the candidates, then the tie keys in order of appearance *)
Definition nf (P : zdict) (T : list (list C * Z)) : list (key * Z) := kplain P ++ tkeys T.

Lemma plain_of_tkeys T : plain_of (tkeys T) = [].
Proof. unfold plain_of, tkeys. induction T as [|[l z] T IH]; simpl; [reflexivity|exact IH]. Qed.
Lemma ties_of_tkeys T : ties_of (tkeys T) = T.
Proof. unfold ties_of, tkeys. induction T as [|[l z] T IH]; simpl; [reflexivity|]. rewrite IH. reflexivity. Qed.
Lemma ok_rel_nf P P' T T' : keysnd P -> Permutation P P' -> Forall2 tie_rel T T' -> ok_rel (nf P T) (nf P' T').
Proof.
  intros HP HPP HT. unfold ok_rel, nf.
  rewrite !plain_of_app, !ties_of_app, !plain_of_kplain, !ties_of_kplain, !plain_of_tkeys, !ties_of_tkeys, !app_nil_r. simpl. tauto.
Qed.

Fixpoint tdec (T : list (list C * Z)) (l : list C) : list (list C * Z) :=
  match T with
  | [] => []
  | (l0, z) :: r => if tset_eqb l l0 then (if z =? 1 then r else (l0, z - 1) :: r) else (l0, z) :: tdec r l
  end.
Fixpoint tdist (T : list (list C * Z)) : Prop :=
  match T with
  | [] => True
  | (l0, _) :: r => (forall x, In x r -> tset_eqb l0 (fst x) = false) /\ tdist r
  end.

Lemma kdec_tkeys_K T c : kdec (tkeys T) (K c) = tkeys T.
Proof. unfold tkeys. induction T as [|[l z] T IH]; simpl; [reflexivity|]. rewrite IH. reflexivity. Qed.
Lemma kdec_nf_K P T c : kdec (nf P T) (K c) = nf (dec_key P c) T.
Proof.
  unfold nf, kplain. induction P as [|[c' s] P IH]; simpl; [apply kdec_tkeys_K|].
  destruct (ceqb c c'); [destruct (s =? 1); reflexivity|]. simpl. rewrite IH. reflexivity.
Qed.
Lemma kdec_tkeys_T T l : kdec (tkeys T) (KT l) = tkeys (tdec T l).
Proof.
  unfold tkeys. induction T as [|[l0 z] T IH]; simpl; [reflexivity|]. fold (tset_eqb l l0).
  destruct (tset_eqb l l0); [destruct (z =? 1); reflexivity|]. simpl. rewrite IH. reflexivity.
Qed.
Lemma kdec_nf_T P T l : kdec (nf P T) (KT l) = nf P (tdec T l).
Proof.
  unfold nf, kplain. induction P as [|[c' s] P IH]; simpl; [apply kdec_tkeys_T|]. rewrite IH. reflexivity.
Qed.
Lemma fold_kdec_nf l : forall P T, fold_left kdec (map K l) (nf P T) = nf (fold_left dec_key l P) T.
Proof. induction l as [|c l IH]; intros P T; simpl; [reflexivity|]. rewrite kdec_nf_K. apply IH. Qed.
Lemma kmem_nf P T l : kmem (nf P T) (KT l) = existsb (fun lz : list C * Z => tset_eqb l (fst lz)) T.
Proof.
  unfold kmem, nf, kplain, tkeys. rewrite existsb_app.
  assert (E1 : existsb (fun kv : key * Z => key_eqb (KT l) (fst kv)) (map (fun kv : C * Z => (K (fst kv), snd kv)) P) = false).
  { induction P as [|x P IH]; simpl; [reflexivity|exact IH]. }
  rewrite E1. simpl. induction T as [|[l0 z] T IH]; simpl; [reflexivity|]. rewrite IH. reflexivity.
Qed.
Lemma nf_snoc P T l z : nf P T ++ [(KT l, z)] = nf P (T ++ [(l, z)]).
Proof. unfold nf, tkeys. rewrite map_app, app_assoc. reflexivity. Qed.

Lemma tdec_rel T T' l l' : Forall2 tie_rel T T' -> Permutation l l' -> Forall2 tie_rel (tdec T l) (tdec T' l').
Proof.
  intros H Hl. induction H as [|[l0 z] [l0' z'] T T' [Hp Hz] Hrest IH]; simpl; [constructor|].
  simpl in Hp, Hz. subst z'. rewrite (tset_eqb_perm _ _ _ _ Hl Hp).
  destruct (tset_eqb l' l0'); [destruct (z =? 1); [exact Hrest|constructor; [split; simpl; auto|exact Hrest]]|].
  constructor; [split; simpl; auto|exact IH].
Qed.
Lemma tdec_incl T l x : In x (tdec T l) -> exists y, In y T /\ fst y = fst x.
Proof.
  induction T as [|[l0 z] T IH]; simpl; [tauto|].
  destruct (tset_eqb l l0).
  - destruct (z =? 1); [intros H; exists x; auto|]. intros [<-|H]; [exists (l0, z); auto|exists x; auto].
  - intros [<-|H]; [exists (l0, z); auto|]. destruct (IH H) as (y & Hy & E). exists y. auto.
Qed.
Lemma tdist_tdec T l : tdist T -> tdist (tdec T l).
Proof.
  induction T as [|[l0 z] T IH]; simpl; [tauto|]. intros [H1 H2].
  destruct (tset_eqb l l0).
  - destruct (z =? 1); [exact H2|]. simpl. split; assumption.
  - simpl. split; [|apply IH, H2]. intros x Hx. destruct (tdec_incl _ _ _ Hx) as (y & Hy & E). rewrite <- E. apply H1, Hy.
Qed.
Lemma tdist_snoc T l z : tdist T -> existsb (fun lz : list C * Z => tset_eqb l (fst lz)) T = false -> tdist (T ++ [(l, z)]).
Proof.
  induction T as [|[l0 z0] T IH]; simpl; intros HD HE; [split; [intros x []|exact I]|].
  destruct HD as [H1 H2]. apply orb_false_iff in HE. destruct HE as [E1 E2]. split; [|apply IH; assumption].
  intros x Hx. apply in_app_or in Hx. destruct Hx as [Hx|[<-|[]]]; [apply H1, Hx|]. simpl. rewrite tset_eqb_sym. exact E1.
Qed.
Lemma tdist_rel T T' : Forall2 tie_rel T T' -> tdist T -> tdist T'.
Proof.
  intros H. induction H as [|[l0 z] [l0' z'] T T' [Hp _] Hrest IH]; simpl; [tauto|]. simpl in Hp.
  intros [H1 H2]. split; [|apply IH, H2]. intros x' Hx'.
  assert (Hex : exists x, In x T /\ Permutation (fst x) (fst x')).
  { clear -Hrest Hx'. induction Hrest as [|a b T T' [Hab _] _ IHr]; [destruct Hx'|]. destruct Hx' as [<-|Hx'].
    - exists a. split; [left; reflexivity|exact Hab].
    - destruct (IHr Hx') as (x & Hx & E). exists x. split; [right; exact Hx|exact E]. }
  destruct Hex as (x & Hx & E). rewrite <- (tset_eqb_perm _ _ _ _ Hp E). apply H1, Hx.
Qed.
Lemma texists_rel T T' l l' : Forall2 tie_rel T T' -> Permutation l l' ->
  existsb (fun lz : list C * Z => tset_eqb l (fst lz)) T = existsb (fun lz : list C * Z => tset_eqb l' (fst lz)) T'.
Proof.
  intros H Hl. induction H as [|x y T T' [Hp _] _ IH]; simpl; [reflexivity|]. rewrite IH, (tset_eqb_perm _ _ _ _ Hl Hp). reflexivity.
Qed.

(* the tie key of the second run that corresponds to a tie key of the first *)
Definition tfind (T' : list (list C * Z)) (l : list C) : list C :=
  match find (fun lz : list C * Z => tset_eqb l (fst lz)) T' with Some lz => fst lz | None => l end.
Definition kf (T' : list (list C * Z)) (k : key) : key := match k with K c => K c | KT l => KT (tfind T' l) end.

Lemma tfind_head T' l l' z' : Permutation l l' -> tfind ((l', z') :: T') l = l'.
Proof. intros Hp. unfold tfind. simpl. rewrite <- (tset_eqb_perm l l l l' (Permutation_refl l) Hp), tset_eqb_refl. reflexivity. Qed.
Lemma tfind_skip T' l l0' z' : tset_eqb l l0' = false -> tfind ((l0', z') :: T') l = tfind T' l.
Proof. intros E. unfold tfind. simpl. rewrite E. reflexivity. Qed.

Lemma tfind_map T T' : Forall2 tie_rel T T' -> tdist T -> map (fun lz : list C * Z => (tfind T' (fst lz), snd lz)) T = T'.
Proof.
  intros H. induction H as [|[l0 z] [l0' z'] T T' [Hp Hz] Hrest IH]; simpl; [reflexivity|]. simpl in Hp, Hz. subst z'.
  intros [H1 H2]. rewrite (tfind_head T' l0 l0' z Hp). f_equal. etransitivity; [|exact (IH H2)]. apply map_ext_in.
  intros x Hx. rewrite tfind_skip; [reflexivity|].
  rewrite <- (tset_eqb_perm (fst x) (fst x) l0 l0' (Permutation_refl _) Hp), tset_eqb_sym. apply H1, Hx.
Qed.
Lemma tfind_perm T T' l : Forall2 tie_rel T T' -> tdist T -> In l (map fst T) -> Permutation l (tfind T' l).
Proof.
  intros H. induction H as [|[l0 z] [l0' z'] T T' [Hp Hz] Hrest IH]; simpl; [tauto|]. simpl in Hp.
  intros [H1 H2] [<-|Hin]; [rewrite (tfind_head T' l0 l0' z' Hp); exact Hp|].
  rewrite tfind_skip; [apply IH; assumption|]. apply in_map_iff in Hin. destruct Hin as (x & <- & Hx).
  rewrite <- (tset_eqb_perm (fst x) (fst x) l0 l0' (Permutation_refl _) Hp), tset_eqb_sym. apply H1, Hx.
Qed.

Lemma nodup_app_intro {A} (a b : list A) : NoDup a -> NoDup b -> (forall x, In x a -> ~ In x b) -> NoDup (a ++ b).
Proof.
  intros Ha Hb Hd. induction Ha as [|x a Hx _ IH]; simpl; [exact Hb|].
  constructor; [|apply IH; intros y Hy; apply Hd; right; exact Hy].
  intros Hi. apply in_app_or in Hi. destruct Hi as [Hi|Hi]; [tauto|]. apply (Hd x (or_introl eq_refl) Hi).
Qed.
Lemma tdist_nodup T : tdist T -> NoDup (map fst T).
Proof.
  induction T as [|[l0 z] T IH]; simpl; [constructor|]. intros [H1 H2]. constructor; [|apply IH, H2].
  intros Hi. apply in_map_iff in Hi. destruct Hi as (x & Hx & Hin). specialize (H1 x Hin). rewrite Hx, tset_eqb_refl in H1. discriminate.
Qed.
Lemma nf_keys_nodup P T : keysnd P -> tdist T -> NoDup (map fst (nf P T)).
Proof.
  intros HP HD. unfold nf, kplain, tkeys. rewrite map_app, !map_map. simpl.
  apply nodup_app_intro.
  - rewrite <- (map_map fst K). apply FinFun.Injective_map_NoDup; [intros a b [= E]; exact E|exact HP].
  - rewrite <- (map_map fst KT). apply FinFun.Injective_map_NoDup; [intros a b [= E]; exact E|apply tdist_nodup, HD].
  - intros x Hx Hy. apply in_map_iff in Hx. apply in_map_iff in Hy. destruct Hx as (a & <- & _), Hy as (b & Hb & _). discriminate.
Qed.

Lemma gnb_len1 {X} (l : list (X * Q)) : NoDup (map fst l) -> (length (get_n_best Qle_bool l 1) <= 1)%nat.
Proof.
  intros Hn. destruct (gnb_shape l 1%nat (le_n 1) Hn) as (cs & T & k & E & _ & _ & Hlen).
  rewrite E, app_length, map_length, repeat_length. lia.
Qed.

Lemma all_plain_none X : all_plain X = None <-> exists l, In (KT l) X.
Proof.
  induction X as [|[c|l] X IH]; simpl.
  - split; [discriminate|intros (l & [])].
  - destruct (all_plain X) as [l0|].
    + split; [discriminate|]. intros (l & [H|H]); [discriminate|]. assert (Hn : @None (list C) = None) by reflexivity.
      destruct IH as [_ IH]. specialize (IH (ex_intro _ l H)). discriminate.
    + split; [|reflexivity]. intros _. destruct (proj1 IH eq_refl) as (l & Hl). exists l. right. exact Hl.
  - split; [|reflexivity]. intros _. exists l. left. reflexivity.
Qed.

(* ---------------------------------------------------------------- the simulation *)
Definition quota_ext (quota : Q -> Z -> Q) : Prop := forall a b n, (a == b)%Q -> (quota a n == quota b n)%Q.

Lemma qrel_sym_emb : forall a a' b b' : Q, (a == a')%Q -> (b == b')%Q -> Qle_bool a' b' = Qle_bool a b.
Proof. intros a a' b b' Ha Hb. apply Qle_bool_Qeq; symmetry; assumption. Qed.

Section Sim.
  Variable quota : Q -> Z -> Q.
  Variable accept_equal : bool.
  Variable pol : policy.
  Hypothesis Hquota : quota_ext quota.

  Notation subtract := QuotaDistributor.subtract.

  Section Fixed.
    Variables votes votes' : list (C * Q).
    Variables prev prev' : zdict.
    Variables q q' : Q.
    Hypothesis Hvnd : NoDup (map fst votes).
    Hypothesis Hvp : Permutation votes votes'.
    Hypothesis Hpnd : keysnd prev.
    Hypothesis Hpp : Permutation prev prev'.
    Hypothesis Hq : (q' == q)%Q.

    Definition krems (vs : list (C * Q)) (qq : Q) (pv : zdict) (sel : list (key * Z)) : list (key * Q) :=
      map (fun ks : key * Z => (fst ks, krem vs qq pv ks)) sel.

    Lemma krems_keys vs qq pv sel : map fst (krems vs qq pv sel) = map fst sel.
    Proof. unfold krems. rewrite map_map. reflexivity. Qed.

    Lemma krems_rel sel : lrel (K := key) Qeq (krems votes q prev sel) (krems votes' q' prev' sel).
    Proof.
      unfold krems. induction sel as [|[[c|l] s] t IH]; simpl; constructor; try exact IH; (split; [reflexivity|]); unfold krem; cbn [fst snd].
      - rewrite (dget_or_perm votes votes' c 0%Q Hvnd Hvp), (dget_or_perm prev prev' c 0 Hpnd Hpp), Hq. reflexivity.
      - rewrite Hq. reflexivity.
    Qed.

    (* the head of get_n_best(remainders, 1) in the two runs *)
    Lemma kgnb P P' T T' : keysnd P -> Permutation P P' -> Forall2 tie_rel T T' -> tdist T ->
      match get_n_best Qle_bool (krems votes q prev (nf P T)) 1 with
      | [] => get_n_best Qle_bool (krems votes' q' prev' (nf P' T')) 1 = []
      | Cand k :: _ => (exists rest', get_n_best Qle_bool (krems votes' q' prev' (nf P' T')) 1 = Cand (kf T' k) :: rest') /\
                       In k (map fst (nf P T))
      | TieR X :: _ => exists X' rest', get_n_best Qle_bool (krems votes' q' prev' (nf P' T')) 1 = TieR X' :: rest' /\
                       Permutation (map (kf T') X) X'
      end.
    Proof.
      intros HP HPP HT HD.
      set (r := krems votes q prev (nf P T)). set (r' := krems votes' q' prev' (nf P' T')).
      set (r2 := krems votes' q' prev' (nf P T)).
      assert (Hnd : NoDup (map fst r)) by (unfold r; rewrite krems_keys; apply nf_keys_nodup; assumption).
      assert (E2 : get_n_best Qle_bool r2 1 = get_n_best Qle_bool r 1).
      { apply (get_n_best_rel Qle_bool Qle_bool Qeq qrel_sym_emb). apply krems_rel. }
      set (rr := map (gk (kf T')) r2).
      assert (Err : get_n_best Qle_bool rr 1 = map (res_map (kf T')) (get_n_best Qle_bool r 1)).
      { unfold rr. rewrite (get_n_best_gk Qle_bool (kf T')), E2. reflexivity. }
      assert (Hrr : rr = krems votes' q' prev' (nf P (map (fun lz : list C * Z => (tfind T' (fst lz), snd lz)) T))).
      { unfold rr, r2, krems, nf, kplain, tkeys. rewrite !map_app, !map_map. f_equal; apply map_ext; intros [a b]; reflexivity. }
      assert (Hmap : map (fun lz : list C * Z => (tfind T' (fst lz), snd lz)) T = T') by (apply tfind_map; assumption).
      rewrite Hmap in Hrr.
      assert (Hperm : Permutation rr r').
      { rewrite Hrr. unfold r', krems, nf. rewrite !map_app. apply Permutation_app_tail. apply Permutation_map, Permutation_map, HPP. }
      assert (Hndrr : NoDup (map fst rr)).
      { rewrite Hrr, krems_keys. apply nf_keys_nodup; [exact HP|]. eapply tdist_rel; eassumption. }
      destruct (gnb_perm_shape rr r' 1%nat (le_n 1) Hndrr Hperm) as (cs & cs' & X2 & X2' & k & E & E' & Pcs & _ & PX).
      pose proof (gnb_len1 r Hnd) as Hlen.
      pose proof (gnb1_head r Hnd) as Hhead.
      rewrite Err in E. fold r'. rewrite E'.
      destruct (get_n_best Qle_bool r 1) as [|[k0|X] rest].
      - simpl in E. destruct cs as [|c0 cs]; [|discriminate]. destruct k as [|k]; [|discriminate].
        apply Permutation_nil in Pcs. subst cs'. reflexivity.
      - destruct rest; [|simpl in Hlen; lia]. simpl in E. split.
        + destruct cs as [|c0 [|c1 cs]]; simpl in E.
          * destruct k; discriminate.
          * injection E as <- E. destruct k; [|discriminate]. apply Permutation_length_1_inv in Pcs. subst cs'. exists []. reflexivity.
          * discriminate.
        + destruct Hhead as (v & Hv & _). unfold r in Hv. rewrite <- (krems_keys votes q prev). apply in_map_iff. exists (k0, v). auto.
      - destruct rest; [|simpl in Hlen; lia]. simpl in E.
        destruct cs as [|c0 cs]; [|discriminate]. apply Permutation_nil in Pcs. subst cs'.
        destruct k as [|[|k]]; simpl in E; try discriminate. injection E as <-.
        exists X2', []. split; [reflexivity|]. apply PX. lia.
    Qed.

    Lemma ksubtract_perm : forall fuel P P' T T' over, keysnd P -> Permutation P P' -> Forall2 tie_rel T T' -> tdist T ->
      qd_rel (ksubtract fuel votes q prev (nf P T) over) (ksubtract fuel votes' q' prev' (nf P' T') over).
    Proof.
      induction fuel as [|f IH]; intros P P' T T' over HP HPP HT HD.
      - simpl. destruct (over <=? 0); [|exact I]. apply ok_rel_nf; assumption.
      - cbn [ksubtract]. destruct (over <=? 0); [apply ok_rel_nf; assumption|].
        fold (krems votes q prev (nf P T)) (krems votes' q' prev' (nf P' T')).
        pose proof (kgnb P P' T T' HP HPP HT HD) as Hg.
        destruct (get_n_best Qle_bool (krems votes q prev (nf P T)) 1) as [|[k0|X] rest].
        + rewrite Hg. exact I.
        + destruct Hg as [(rest' & E') Hin]. rewrite E'. destruct k0 as [c|l]; cbn [kf].
          * rewrite !kdec_nf_K. apply IH; [apply dec_key_nodup, HP|apply dec_key_perm; assumption|exact HT|exact HD].
          * rewrite !kdec_nf_T. apply IH; [exact HP|exact HPP| |apply tdist_tdec, HD].
            apply tdec_rel; [exact HT|]. apply (tfind_perm T T' l HT HD).
            unfold nf, kplain, tkeys in Hin. rewrite map_app, !map_map in Hin. apply in_app_or in Hin. destruct Hin as [Hin|Hin].
            -- apply in_map_iff in Hin. destruct Hin as (x & Hx & _). discriminate.
            -- apply in_map_iff in Hin. destruct Hin as (x & Hx & Hi). simpl in Hx. injection Hx as <-. apply in_map, Hi.
        + destruct Hg as (X' & rest' & E' & HX). rewrite E'.
          destruct (all_plain X) as [l|] eqn:EA.
          * apply all_plain_some in EA. subst X.
            rewrite map_map in HX. cbn [kf] in HX. apply Permutation_sym, Permutation_map_inv in HX. destruct HX as (l' & -> & Hl).
            rewrite all_plain_map, !kmem_nf, <- (texists_rel T T' l l' HT Hl).
            destruct (existsb (fun lz : list C * Z => tset_eqb l (fst lz)) T) eqn:EM.
            -- rewrite !kdec_nf_T. apply IH; [exact HP|exact HPP|apply tdec_rel; assumption|apply tdist_tdec, HD].
            -- rewrite !fold_kdec_nf, !nf_snoc. apply IH.
               ++ apply fold_op_nodup; [apply dec_key_nodup|exact HP].
               ++ apply fold_op_perm; try assumption; [apply dec_key_nodup|apply dec_key_perm|apply dec_key_comm].
               ++ apply Forall2_app; [exact HT|]. constructor; [|constructor]. split; simpl; [exact Hl|]. rewrite (Permutation_length Hl). reflexivity.
               ++ apply tdist_snoc; assumption.
          * assert (EA' : all_plain X' = None).
            { apply all_plain_none. apply all_plain_none in EA. destruct EA as (l & Hl).
              exists (tfind T' l). apply (Permutation_in _ HX). apply in_map_iff. exists (KT l). split; [reflexivity|exact Hl]. }
            rewrite EA'. exact I.
    Qed.

    Lemma subtract_perm : forall fuel sel sel' over, keysnd sel -> Permutation sel sel' ->
      qd_rel (subtract fuel votes q prev sel over) (subtract fuel votes' q' prev' sel' over).
    Proof.
      intros fuel sel sel' over Hs Hp. rewrite !subtract_is_ksubtract.
      change (plain sel) with (kplain sel). change (plain sel') with (kplain sel').
      rewrite <- (app_nil_r (kplain sel)), <- (app_nil_r (kplain sel')).
      apply (ksubtract_perm fuel sel sel' [] [] over Hs Hp); constructor.
    Qed.
  End Fixed.

  (* the part of evaluate after the loop over the votes *)
  Definition qd_tail (votes : list (C * Q)) (q : Q) (n : Z) (prev sel : zdict) : qd_result :=
    let total := zsumv sel + zsumv prev in
    if n <? total then
      match pol with
      | PIgnore => QD_ok (kplain sel)
      | PError => QD_vse
      | PSubtract => subtract (Z.to_nat (total - n)) votes q prev sel (total - n)
      end
    else QD_ok (kplain sel).

  Lemma qd_tail_perm votes votes' q q' n prev prev' sel sel' :
    NoDup (map fst votes) -> Permutation votes votes' -> keysnd prev -> Permutation prev prev' -> (q' == q)%Q ->
    keysnd sel -> Permutation sel sel' ->
    qd_rel (qd_tail votes q n prev sel) (qd_tail votes' q' n prev' sel').
  Proof.
    intros Hvnd Hvp Hpnd Hpp Hq Hs Hsp. unfold qd_tail.
    rewrite <- (zsumv_perm _ _ Hsp), <- (zsumv_perm _ _ Hpp).
    destruct (n <? _); [|apply ok_rel_kplain; assumption].
    destruct pol; [apply ok_rel_kplain; assumption|exact I|].
    apply subtract_perm; assumption.
  Qed.

  Theorem qd_evaluate_perm votes votes' n prev prev' caps caps' :
    NoDup (map fst votes) -> Permutation votes votes' -> keysnd prev -> Permutation prev prev' ->
    (forall c, dget caps' c = dget caps c) ->
    qd_rel (qd_evaluate quota accept_equal pol votes n prev caps) (qd_evaluate quota accept_equal pol votes' n prev' caps').
  Proof.
    intros Hvnd Hvp Hpnd Hpp Hc. unfold qd_evaluate.
    assert (Hvnd' : NoDup (map fst votes')) by (eapply perm_nodup_keys; eassumption).
    assert (Hq : (quota (qsumv votes') n == quota (qsumv votes) n)%Q) by (apply Hquota; symmetry; apply qsumv_perm, Hvp).
    set (q := quota (qsumv votes) n) in *. set (q' := quota (qsumv votes') n) in *.
    assert (Hz : Qeq_bool q' 0 = Qeq_bool q 0) by (apply Qeq_bool_ext; [exact Hq|reflexivity]).
    assert (Hex : existsb (fun cv : C * Q => fulfills accept_equal (snd cv) q') votes' = existsb (fun cv : C * Q => fulfills accept_equal (snd cv) q) votes).
    { rewrite <- (existsb_perm _ _ _ Hvp). apply existsb_ext'. intros cv. unfold fulfills.
      rewrite (Qle_bool_ext (snd cv) (snd cv) q' q), (Qeq_bool_ext (snd cv) (snd cv) q' q); try reflexivity; exact Hq. }
    rewrite Hz, Hex. destruct (Qeq_bool q 0 && _); [exact I|].
    rewrite !scan_char; try assumption; try (intros ? ? []).
    cbn [app].
    assert (Hpd : forall c, dget_or prev' c 0 = dget_or prev c 0) by (intros c; symmetry; apply dget_or_perm; assumption).
    assert (Hit : forall cv, scan_item accept_equal q' prev' caps' cv = scan_item accept_equal q prev caps cv).
    { intros cv. apply scan_item_ext; assumption. }
    assert (Esel : flat_map (isel accept_equal q' prev' caps') votes' = flat_map (isel accept_equal q prev caps) votes').
    { apply flat_map_ext. intros cv. unfold isel. rewrite Hit. reflexivity. }
    rewrite Esel. clear Esel.
    set (sel := flat_map (isel accept_equal q prev caps) votes).
    set (sel' := flat_map (isel accept_equal q prev caps) votes').
    assert (Hs : keysnd sel) by (apply isel_nodup, Hvnd).
    assert (Hsp : Permutation sel sel') by (apply Permutation_flat_map, Hvp).
    apply (qd_tail_perm votes votes' q q' n prev prev' sel sel'); assumption.
  Qed.

  (* ------------------------------------------------------------ LargestRemainder *)
  Definition lr_rel (r r' : lr_result) : Prop :=
    match r, r' with
    | LR_ok s, LR_ok s' => ok_rel s s'
    | LR_err e, LR_err e' => qd_rel e e'
    | LR_index, LR_index => True
    | _, _ => False
    end.

  Fixpoint tincr (t : list (list C * Z)) (l : list C) : list (list C * Z) :=
    match t with
    | [] => [(l, 1)]
    | (l0, z) :: r => if tset_eqb l l0 then (l0, z + 1) :: r else (l0, z) :: tincr r l
    end.

  Lemma tincr_rel t t' l l' : Forall2 tie_rel t t' -> Permutation l l' -> Forall2 tie_rel (tincr t l) (tincr t' l').
  Proof.
    intros H Hl. induction H as [|[l0 z] [l0' z'] t t' [Hp Hz] Hrest IH]; simpl.
    - constructor; [split; [exact Hl|reflexivity]|constructor].
    - simpl in Hp, Hz. subst z'. rewrite (tset_eqb_perm _ _ _ _ Hl Hp).
      destruct (tset_eqb l' l0'); constructor; try assumption; split; simpl; auto.
  Qed.

  Lemma plain_kincr_K d c : plain_of (kincr d (K c)) = incr_t (plain_of d) c.
  Proof.
    unfold incr_t. induction d as [|[[c'|l] s] t IH]; simpl; [reflexivity| |exact IH].
    unfold dget_or. simpl. destruct (ceqb c c') eqn:E; simpl; [reflexivity|].
    fold (plain_of t). fold (plain_of (kincr t (K c))). rewrite IH. reflexivity.
  Qed.
  Lemma ties_kincr_K d c : ties_of (kincr d (K c)) = ties_of d.
  Proof.
    induction d as [|[[c'|l] s] t IH]; simpl; [reflexivity| |].
    - destruct (ceqb c c'); simpl; [reflexivity|exact IH].
    - fold (ties_of t). fold (ties_of (kincr t (K c))). rewrite IH. reflexivity.
  Qed.
  Lemma plain_kincr_T d l : plain_of (kincr d (KT l)) = plain_of d.
  Proof.
    induction d as [|[[c'|l0] s] t IH]; simpl; [reflexivity| |].
    - fold (plain_of t). fold (plain_of (kincr t (KT l))). rewrite IH. reflexivity.
    - destruct (_ && _); simpl; [reflexivity|exact IH].
  Qed.
  Lemma ties_kincr_T d l : ties_of (kincr d (KT l)) = tincr (ties_of d) l.
  Proof.
    induction d as [|[[c'|l0] s] t IH]; simpl; [reflexivity|exact IH|].
    fold (tset_eqb l l0). destruct (tset_eqb l l0); simpl; [reflexivity|].
    fold (ties_of t). fold (ties_of (kincr t (KT l))). rewrite IH. reflexivity.
  Qed.

  Notation seatf := (fun (d : list (key * Z)) (r : res C) => match r with Cand c => kincr d (K c) | TieR l => kincr d (KT l) end).

  Lemma seat_cands cs : forall d, plain_of (fold_left seatf (map Cand cs) d) = fold_left incr_t cs (plain_of d) /\
    ties_of (fold_left seatf (map Cand cs) d) = ties_of d.
  Proof.
    induction cs as [|c cs IH]; intros d; simpl; [split; reflexivity|].
    destruct (IH (kincr d (K c))) as [A B]. rewrite A, B, plain_kincr_K, ties_kincr_K. split; reflexivity.
  Qed.

  Lemma seat_cands_rel cs cs' d d' : Permutation cs cs' -> ok_rel d d' ->
    ok_rel (fold_left seatf (map Cand cs) d) (fold_left seatf (map Cand cs') d').
  Proof.
    intros Hp (Hn & Hpl & Ht). destruct (seat_cands cs d) as [A B]. destruct (seat_cands cs' d') as [A' B'].
    unfold ok_rel. rewrite A, B, A', B'. split; [|split; [|exact Ht]].
    - apply fold_op_nodup; [apply incr_t_nodup|exact Hn].
    - apply fold_op_perm; try assumption; [apply incr_t_nodup|apply incr_t_perm|apply incr_t_comm].
  Qed.

  Lemma seat_ties_rel T T' k : Permutation T T' -> forall d d', ok_rel d d' ->
    ok_rel (fold_left seatf (repeat (TieR T) k) d) (fold_left seatf (repeat (TieR T') k) d').
  Proof.
    intros HT. induction k as [|k IH]; intros d d' H; simpl; [exact H|].
    apply IH. destruct H as (Hn & Hpl & Ht). unfold ok_rel. rewrite !plain_kincr_T, !ties_kincr_T.
    split; [exact Hn|]. split; [exact Hpl|]. apply tincr_rel; assumption.
  Qed.

  Lemma remainders_rel votes q q' gained gained' caps caps' : (q' == q)%Q ->
    (forall c, dget_or gained' c 0 = dget_or gained c 0) -> (forall c, dget caps' c = dget caps c) ->
    lrel (K := C) Qeq (remainders votes q gained caps) (remainders votes q' gained' caps').
  Proof.
    intros Hq Hg Hc. unfold remainders. induction votes as [|[c v] t IH]; simpl; [constructor|].
    rewrite Hc, Hg.
    assert (Hp : prel (K := C) Qeq (c, (v / q - inject_Z (dget_or gained c 0%Z))%Q) (c, (v / q' - inject_Z (dget_or gained c 0%Z))%Q)).
    { split; [reflexivity|]. simpl. rewrite Hq. reflexivity. }
    destruct (dget caps c) as [m|].
    - destruct (_ <? m); [|exact IH]. apply Forall2_app; [|exact IH]. constructor; [exact Hp|constructor].
    - apply Forall2_app; [|exact IH]. constructor; [exact Hp|constructor].
  Qed.

  Theorem lr_evaluate_perm votes votes' n prev prev' caps caps' :
    NoDup (map fst votes) -> Permutation votes votes' -> keysnd prev -> Permutation prev prev' ->
    (forall c, dget caps' c = dget caps c) ->
    lr_rel (lr_evaluate quota accept_equal pol votes n prev caps) (lr_evaluate quota accept_equal pol votes' n prev' caps').
  Proof.
    intros Hvnd Hvp Hpnd Hpp Hc. unfold lr_evaluate.
    pose proof (qd_evaluate_perm votes votes' n prev prev' caps caps' Hvnd Hvp Hpnd Hpp Hc) as Hqd.
    destruct (qd_evaluate quota accept_equal pol votes n prev caps) as [qe| | | | |];
    destruct (qd_evaluate quota accept_equal pol votes' n prev' caps') as [qe'| | | | |]; try exact Hqd; try contradiction.
    cbn [qd_rel] in Hqd. fold (has_tie qe) (has_tie qe') (plain_of qe) (plain_of qe').
    rewrite <- (ok_rel_has_tie _ _ Hqd). destruct (has_tie qe); [exact I|].
    assert (Hq : (quota (qsumv votes') n == quota (qsumv votes) n)%Q) by (apply Hquota; symmetry; apply qsumv_perm, Hvp).
    set (q := quota (qsumv votes) n) in *. set (q' := quota (qsumv votes') n) in *.
    pose proof Hqd as (Hen & Hep & _).
    assert (Hgn : keysnd (add_dict (plain_of qe) prev)) by (apply add_dict_nodup, Hen).
    assert (Hgp : Permutation (add_dict (plain_of qe) prev) (add_dict (plain_of qe') prev')) by (apply add_dict_perm; assumption).
    set (gained := add_dict (plain_of qe) prev) in *. set (gained' := add_dict (plain_of qe') prev') in *.
    rewrite <- (zsumv_perm _ _ Hgp).
    assert (Hz : Qeq_bool q' 0 = Qeq_bool q 0) by (apply Qeq_bool_ext; [exact Hq|reflexivity]).
    rewrite Hz. destruct (Qeq_bool q 0); [exact I|].
    destruct (n - zsumv gained <=? 0) eqn:En; [exact Hqd|].
    fold (remainders votes q gained caps) (remainders votes' q' gained' caps').
    assert (Hg : forall c, dget_or gained' c 0 = dget_or gained c 0) by (intros c; symmetry; apply dget_or_perm; assumption).
    rewrite <- (get_n_best_rel Qle_bool Qle_bool Qeq qrel_sym_emb _ _ _ (remainders_rel votes q q' gained gained' caps caps' Hq Hg Hc)).
    assert (Hn1 : (1 <= Z.to_nat (n - zsumv gained))%nat) by (apply Z.leb_gt in En; lia).
    assert (Hnd2 : NoDup (map fst (remainders votes q' gained' caps'))) by (apply remainders_nodup, Hvnd).
    assert (Hp2 : Permutation (remainders votes q' gained' caps') (remainders votes' q' gained' caps')).
    { unfold remainders. apply Permutation_flat_map, Hvp. }
    destruct (gnb_perm_shape _ _ _ Hn1 Hnd2 Hp2) as (cs & cs' & T & T' & k & E & E' & Pcs & Ncs & PT).
    rewrite E, E', !fold_left_app. cbn [lr_rel].
    destruct k as [|k].
    - simpl. apply seat_cands_rel; assumption.
    - apply seat_ties_rel; [apply PT; lia|]. apply seat_cands_rel; assumption.
  Qed.
End Sim.

(* the library's quota functions do not distinguish equal rationals *)
Lemma quota_fn_ext qs : quota_ext (quota_fn qs).
Proof.
  intros a b n H. destruct qs as [i|qc]; [|reflexivity]. unfold quota_fn.
  assert (F : forall x y, (x == y)%Q -> (qfloor x == qfloor y)%Q) by (intros x y E; unfold qfloor; rewrite (Qfloor_comp _ _ E); reflexivity).
  assert (G : forall x y, (x == y)%Q -> (qceil x == qceil y)%Q) by (intros x y E; unfold qceil; rewrite (Qceiling_comp _ _ E); reflexivity).
  assert (R : forall x y, (x == y)%Q -> (round_half_up x == round_half_up y)%Q) by (intros x y E; unfold round_half_up; apply F; rewrite E; reflexivity).
  destruct (i =? 1); [unfold hare; rewrite H; reflexivity|].
  destruct (i =? 2); [unfold hare_rounded; apply R; rewrite H; reflexivity|].
  destruct (i =? 3); [unfold droop; apply Qplus_comp; [apply F; rewrite H|]; reflexivity|].
  destruct (i =? 4); [unfold hagenbach_bischoff; rewrite H; reflexivity|].
  destruct (i =? 5); [unfold hagenbach_bischoff_ceil; apply G; rewrite H; reflexivity|].
  destruct (i =? 6); [unfold hagenbach_bischoff_rounded; apply R; rewrite H; reflexivity|].
  unfold imperiali. rewrite H. reflexivity.
Qed.

(* ---------------------------------------------------------------- the statements in order-free observations *)
(* every candidate has the same seats; tie keys correspond one to one with the same members and seats *)
Definition dict_obs_eq (s s' : list (key * Z)) : Prop :=
  (forall c, kdget s c = kdget s' c) /\ Forall2 tie_rel (ties_of s) (ties_of s') /\
  Permutation (plain_of s) (plain_of s') /\ NoDup (map fst (plain_of s)).
Definition qd_obs (r r' : qd_result) : Prop :=
  match r, r' with QD_ok s, QD_ok s' => dict_obs_eq s s' | _, _ => r = r' end.
Definition lr_obs (r r' : lr_result) : Prop :=
  match r, r' with
  | LR_ok s, LR_ok s' => dict_obs_eq s s'
  | LR_err e, LR_err e' => qd_obs e e'
  | LR_index, LR_index => True
  | _, _ => False
  end.

Lemma ok_rel_dict_obs s s' : ok_rel s s' -> dict_obs_eq s s'.
Proof.
  intros H. destruct (ok_rel_obs _ _ H) as [A B]. destruct H as (N & P & _).
  split; [exact A|]. split; [exact B|]. split; [exact P|exact N].
Qed.
Lemma qd_rel_obs r r' : qd_rel r r' -> qd_obs r r'.
Proof. destruct r, r'; simpl; intros H; try reflexivity; try contradiction. apply ok_rel_dict_obs, H. Qed.
Lemma lr_rel_obs r r' : lr_rel r r' -> lr_obs r r'.
Proof. destruct r, r'; simpl; intros H; try exact H; [apply ok_rel_dict_obs, H|apply qd_rel_obs, H]. Qed.
