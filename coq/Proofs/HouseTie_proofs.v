(* House monotonicity of the highest-averages model WITH the reported tie (C17): the exact relation between the run for
   n seats and the run for n + 1 seats.  Same simulation as Proofs/Mono_proofs.v [loop_sim] (while the smaller run still
   has seats to give, both runs are in the same state except for the number of open seats), with the tie carried along:

     - the smaller run ends WITHOUT a tie: nobody's sure seats drop in the larger house;
     - the smaller run ends with Tie(T, r) (r seats open for the members of T, r < |T|): the larger run has the same
       sure seats and reports Tie(T, r + 1), or - when r + 1 = |T| - gives every member of T one more sure seat and
       reports no tie.

   So neither the sure seats nor "sure seats + the possible tie seat" of any party ever drop.  No hypothesis on the
   divisor or the votes; previous gains non-negative (as in [house_monotone]). *)
From Coq Require Import ZArith QArith List Bool Lia.
From VL Require Import Prelude.PyDict Model.GetNBest Model.HighestAverages Proofs.Dict_proofs Proofs.Mono_proofs.
Import ListNotations.
Open Scope Z_scope.

(* the seat a party may still get out of the reported tie *)
Definition tie_seat (s : state) (c : C) : Z :=
  match st_tie s with Some (T, _) => if cmem c T then 1 else 0 | None => 0 end.

Lemma cmem_In c l : cmem c l = true <-> In c l.
Proof.
  induction l as [|x l IH]; simpl; [split; [discriminate|tauto]|].
  rewrite orb_true_iff, IH, ceqb_eq. split; intros [H|H]; auto.
Qed.

Lemma count_pos_in c l : In c l -> 1 <= count c l.
Proof.
  induction l as [|x l IH]; intros Hin; [destruct Hin|]. simpl.
  destruct (ceqb c x) eqn:E.
  - pose proof (count_nonneg c l). lia.
  - destruct Hin as [->|Hin]; [rewrite ceqb_refl in E; discriminate|apply IH, Hin].
Qed.

Section HouseTie.
  Variable d : Z -> Q.
  Variable votes : list (C * Q).
  Variable caps : list (C * Z).

  (* what the two final states have to do with each other *)
  Definition house_rel (sa sb : state) : Prop :=
    (st_tie sa = None /\ forall c, tot_s sa c <= tot_s sb c) \/
    (exists T r, st_tie sa = Some (T, r) /\
       ((st_tie sb = Some (T, r + 1) /\ st_totals sb = st_totals sa) \/
        (st_tie sb = None /\ Z.of_nat (length T) = r + 1 /\ forall c, tot_s sb c = tot_s sa c + count c T))).

  Definition Rt (n : Z) (sa sb : state) : Prop := R n sa sb /\ st_tie sa = None.

  Lemma loop_sim_tie n : forall f sa sb, Rt n sa sb -> st_rem sa <= Z.of_nat f ->
    house_rel (loop d votes caps n f sa) (loop d votes caps (n + 1) (S f) sb).
  Proof.
    induction f as [|f IH]; intros sa sb [(Ht & Hr & Hq & HJ) Htie] Hf.
    - (* the smaller run has stopped *)
      change (loop d votes caps n 0 sa) with sa. left. split; [exact Htie|]. intros c.
      etransitivity; [|apply loop_tot_mono]. unfold tot_s. rewrite Ht. lia.
    - change (loop d votes caps n (S f) sa) with
        (if (0 <? st_rem sa) && negb match st_qs sa with [] => true | _ => false end
         then loop d votes caps n f (step d votes caps n sa) else sa).
      change (loop d votes caps (n + 1) (S (S f)) sb) with
        (if (0 <? st_rem sb) && negb match st_qs sb with [] => true | _ => false end
         then loop d votes caps (n + 1) (S f) (step d votes caps (n + 1) sb) else sb).
      destruct ((0 <? st_rem sa) && negb match st_qs sa with [] => true | _ => false end) eqn:Eg.
      2:{ left. split; [exact Htie|]. intros c.
          destruct ((0 <? st_rem sb) && negb match st_qs sb with [] => true | _ => false end).
          - etransitivity; [|apply loop_tot_mono]. etransitivity; [|apply (step_tot_mono d votes caps (n + 1))]. unfold tot_s. rewrite Ht. lia.
          - unfold tot_s. rewrite Ht. lia. }
      apply andb_true_iff in Eg. destruct Eg as [Era Eqa]. apply Z.ltb_lt in Era.
      specialize (Hq Era).
      assert (Egb : (0 <? st_rem sb) && negb match st_qs sb with [] => true | _ => false end = true).
      { rewrite <- Hq, Eqa, andb_true_r. apply Z.ltb_lt. lia. }
      rewrite Egb.
      destruct (st_qs sa) as [|[c0 m] qs'] eqn:Eqs; [discriminate|].
      set (k := run_length m (@cons qitem (c0, m) qs')).
      destruct (Z.of_nat k <=? st_rem sa) eqn:Eka.
      + (* both runs award the batch *)
        pose proof Eka as Eka'. apply Z.leb_le in Eka.
        assert (Ekb : Z.of_nat k <=? st_rem sb = true) by (apply Z.leb_le; lia).
        apply IH.
        * pose proof (step_J d votes caps n sa HJ) as HJ'.
          unfold step in *. rewrite <- Hq, Eqs in *. cbv zeta in *. fold k in HJ' |- *.
          rewrite Eka' in HJ'. rewrite Eka', Ekb. unfold Rt, R. cbn [st_totals st_rem st_qs st_tie] in *.
          rewrite <- Ht. split; [|reflexivity]. split; [reflexivity|]. split; [lia|]. split; [|exact HJ'].
          intros Hpos. apply pop_reinsert_agree. intros c'.
          destruct HJ' as [_ Hb]. specialize (Hb c'). unfold tot_s in Hb. cbn [st_totals st_rem] in Hb. lia.
        * assert (Hne : st_qs sa <> []) by (rewrite Eqs; discriminate).
          pose proof (step_rem_dec d votes caps n sa Era Hne). lia.
      + (* the smaller run reports a tie and stops *)
        apply Z.leb_gt in Eka. right.
        set (T := map fst (rev (firstn k (@cons qitem (c0, m) qs')))).
        assert (Hsa : st_rem (step d votes caps n sa) = 0 /\ st_totals (step d votes caps n sa) = st_totals sa /\
                      st_tie (step d votes caps n sa) = Some (T, st_rem sa)).
        { unfold step. rewrite Eqs. cbv zeta. fold k.
          assert (Z.of_nat k <=? st_rem sa = false) as -> by (apply Z.leb_gt; exact Eka).
          repeat split. }
        destruct Hsa as (H0 & Hsame & Hta).
        rewrite (loop_stopped d votes caps n f _) by lia.
        exists T, (st_rem sa). split; [exact Hta|].
        destruct (Z.of_nat k <=? st_rem sb) eqn:Ekb.
        * (* one more seat is exactly what the tie needed *)
          right. apply Z.leb_le in Ekb.
          assert (Hsb : st_rem (step d votes caps (n + 1) sb) = 0 /\ st_tie (step d votes caps (n + 1) sb) = None /\
                        st_totals (step d votes caps (n + 1) sb) = fold_left incr T (st_totals sb)).
          { unfold step. rewrite <- Hq. cbv zeta. fold k.
            assert (Z.of_nat k <=? st_rem sb = true) as -> by (apply Z.leb_le; exact Ekb).
            cbn [st_rem st_tie st_totals]. repeat split. lia. }
          destruct Hsb as (Hb0 & Htb & Htotb).
          rewrite (loop_stopped d votes caps (n + 1) (S f) _) by lia.
          split; [exact Htb|]. split.
          { unfold T. rewrite map_length, rev_length, firstn_length.
            assert (Hkl : (k <= length (@cons qitem (c0, m) qs'))%nat).
            { unfold k. clear. generalize (@cons qitem (c0, m) qs'). intros l. induction l as [|y l IHl]; simpl; [lia|].
              destruct (Qeq_bool (snd y) m); simpl; lia. }
            lia. }
          intros c. unfold tot_s. rewrite Htotb, Hsame, <- Ht. unfold incr. apply dget_or_fold_incr.
        * (* the tie stays, with one more seat open *)
          left. apply Z.leb_gt in Ekb.
          assert (Hsb : st_rem (step d votes caps (n + 1) sb) = 0 /\ st_tie (step d votes caps (n + 1) sb) = Some (T, st_rem sb) /\
                        st_totals (step d votes caps (n + 1) sb) = st_totals sb).
          { unfold step. rewrite <- Hq. cbv zeta. fold k.
            assert (Z.of_nat k <=? st_rem sb = false) as -> by (apply Z.leb_gt; exact Ekb).
            repeat split. }
          destruct Hsb as (Hb0 & Htb & Htotb).
          rewrite (loop_stopped d votes caps (n + 1) (S f) _) by lia.
          rewrite Htb, Htotb, Hsame, Hr, Ht. split; reflexivity.
  Qed.

  Theorem house_exact n prev : Forall (fun cv => 0 <= snd cv) prev ->
    house_rel (final_state d votes n prev caps) (final_state d votes (n + 1) prev caps).
  Proof.
    intros Hp. unfold final_state.
    set (ra := n - zsum (map snd prev)).
    assert (Hrb : st_rem (init_state d votes (n + 1) prev caps) = ra + 1) by (unfold init_state, ra; cbn [st_rem]; lia).
    assert (Hra : st_rem (init_state d votes n prev caps) = ra) by reflexivity.
    rewrite Hrb, Hra.
    destruct (Z.lt_ge_cases ra 0) as [Hneg|Hge].
    - (* no seat open in the smaller house: it keeps the previous gains *)
      assert (Z.to_nat ra = 0%nat) as -> by lia. cbn [loop]. left. split; [reflexivity|]. intros c.
      etransitivity; [|apply loop_tot_mono]. unfold tot_s, init_state. cbn [st_totals]. lia.
    - replace (Z.to_nat (ra + 1)) with (S (Z.to_nat ra)) by lia.
      apply loop_sim_tie; [|rewrite Hra; lia].
      split; [|reflexivity].
      unfold R, init_state. cbn [st_totals st_rem st_qs]. split; [reflexivity|]. split; [lia|].
      assert (Hb : forall c', dget_or prev c' 0 + ra <= n).
      { intros c'. pose proof (dget_or_le_zsum prev c' Hp). unfold ra. lia. }
      split.
      + fold ra. intros Hpos. apply initial_quotients_agree. intros c'. specialize (Hb c'). lia.
      + unfold J, tot_s. cbn [st_totals st_rem]. fold ra. split; [exact Hge|exact Hb].
  Qed.

  (* sure seats + the possible tie seat never drop either *)
  Theorem house_tie_monotone n prev : Forall (fun cv => 0 <= snd cv) prev -> forall c,
    tot_s (final_state d votes n prev caps) c + tie_seat (final_state d votes n prev caps) c <=
    tot_s (final_state d votes (n + 1) prev caps) c + tie_seat (final_state d votes (n + 1) prev caps) c.
  Proof.
    intros Hp c. destruct (house_exact n prev Hp) as [[Hta Hle]|(T & r & Hta & [[Htb Htot]|(Htb & _ & Htot)])].
    - specialize (Hle c).
      assert (0 <= tie_seat (final_state d votes (n + 1) prev caps) c).
      { unfold tie_seat. destruct (st_tie (final_state d votes (n + 1) prev caps)) as [[T r]|]; [destruct (cmem c T)|]; lia. }
      unfold tie_seat at 1. rewrite Hta. lia.
    - unfold tie_seat, tot_s. rewrite Hta, Htb, Htot. lia.
    - unfold tie_seat. rewrite Hta, Htb, (Htot c). destruct (cmem c T) eqn:E; [|pose proof (count_nonneg c T); lia].
      apply cmem_In in E. pose proof (count_pos_in c T E). lia.
  Qed.
End HouseTie.
