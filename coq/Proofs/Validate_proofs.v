(* Validators (Model/Validate.v): acceptance is exactly the declarative rule. *)
From Coq Require Import ZArith QArith List Bool Lia.
From VL Require Import Model.Validate.
Import ListNotations.
Open Scope Z_scope.

Lemma andthen_ok a b : andthen a b = VOk <-> a = VOk /\ b = VOk.
Proof.
  destruct a; simpl; split; intros H.
  - split; [reflexivity|exact H].
  - destruct H as [_ H]. exact H.
  - discriminate.
  - destruct H as [H _]. discriminate.
  - discriminate.
  - destruct H as [H _]. discriminate.
  - discriminate.
  - destruct H as [H _]. discriminate.
Qed.

Lemma check_ok b e : e <> VOk -> (check b e = VOk <-> b = true).
Proof.
  intros He. unfold check. destruct b; split; intros H.
  - reflexivity.
  - reflexivity.
  - congruence.
  - discriminate.
Qed.

Lemma all_checks_ok {X} (f : X -> vresult) l : all_checks f l = VOk <-> Forall (fun x => f x = VOk) l.
Proof.
  induction l as [|x t IH]; simpl; [split; [constructor|reflexivity]|].
  rewrite andthen_ok, IH. split; [intros [H1 H2]; constructor; assumption|intros H; inversion H; tauto].
Qed.

Lemma vote_ne : VVoteError <> VOk. Proof. discriminate. Qed.
Lemma cand_ne : VCandError <> VOk. Proof. discriminate. Qed.

(* ---- simple and approval *)
Theorem simple_iff nm v : validate_simple nm v = VOk <-> nominate nm v = true.
Proof. unfold validate_simple. apply check_ok, cand_ne. Qed.

Theorem approval_iff nm cnt v : validate_approval nm cnt v = VOk <->
  exists l, v = OFrozen l /\ Forall (fun o => nominate nm o = true) l /\ in_bounds cnt (qnat (length l)) = true.
Proof.
  unfold validate_approval. destruct v; try (split; [discriminate|intros (l0 & H & _); discriminate]).
  rewrite andthen_ok, all_checks_ok, (check_ok _ _ vote_ne). split.
  - intros [H1 H2]. exists l. split; [reflexivity|]. split; [|exact H2].
    eapply Forall_impl; [|exact H1]. intros o Ho. apply (check_ok _ _ cand_ne). exact Ho.
  - intros (l0 & [= <-] & H1 & H2). split; [|exact H2].
    eapply Forall_impl; [|exact H1]. intros o Ho. apply (check_ok _ _ cand_ne). exact Ho.
Qed.

(* ---- ranked *)
Definition flat_item (o : pyobj) : list pyobj := match o with OFrozen l => l | _ => [o] end.
Definition flatten (items : list pyobj) : list pyobj := flat_map flat_item items.
Definition distinct (l : list pyobj) : list pyobj := fold_left (fun s o => add_set o s) l [].
Definition not_list (o : pyobj) : Prop := match o with OList _ => False | _ => True end.

(* rank bounds: the i-th item (1-based from [start]) if it is a shared rank *)
Fixpoint ranks_ok (ranks : keyed_bounds) (rank_i : Z) (items : list pyobj) : Prop :=
  match items with
  | [] => True
  | o :: t => (match o with
               | OFrozen l => in_bounds (kb_get ranks (rank_i + 1)) (qnat (length l)) = true
               | _ => hashable o = true        (* no list, no tuple holding a list: set.add raises TypeError on those *)
               end) /\ ranks_ok ranks (rank_i + 1) t
  end.

Lemma ranked_scan_spec ranks items : forall rank_i total cands,
  (ranks_ok ranks rank_i items ->
   ranked_scan ranks rank_i items total cands =
     (VOk, (total + length (flatten items))%nat, fold_left (fun s o => add_set o s) (flatten items) cands)) /\
  (forall t' c', ranked_scan ranks rank_i items total cands = (VOk, t', c') -> ranks_ok ranks rank_i items).
Proof.
  induction items as [|o t IH]; intros rank_i total cands.
  - simpl. split; [intros _; rewrite Nat.add_0_r; reflexivity|intros; exact I].
  - assert (Hgen : forall o0, (match o0 with OFrozen _ => False | _ => True end) ->
        ranked_scan ranks rank_i (o0 :: t) total cands =
        if hashable o0 then ranked_scan ranks (rank_i + 1) t (total + 1) (add_set o0 cands) else (VCrash, total, cands)).
    { intros o0 H0. destruct o0; try reflexivity. destruct H0. }
    destruct o as [k i|n d| |lt|lf|ll].
    1,2,3,4,6: (match goal with |- context [ranked_scan _ _ (?x :: _) _ _] =>
      rewrite Hgen by exact I;
      destruct (IH (rank_i + 1) (total + 1)%nat (add_set x cands)) as [IH1 IH2];
      destruct (hashable x) eqn:Eh end;
      [split; [intros [_ H]; rewrite (IH1 H); simpl; f_equal; f_equal; lia
              |intros t' c' H; split; [exact Eh|eapply IH2; exact H]]
      |split; [intros [H _]; congruence|intros t' c' H; discriminate]]).
    + (* OFrozen *)
      simpl. destruct (in_bounds (kb_get ranks (rank_i + 1)) (qnat (length lf))) eqn:E.
      * destruct (IH (rank_i + 1) (total + length lf)%nat (fold_left (fun s o => add_set o s) lf cands)) as [IH1 IH2].
        split.
        -- intros [_ H]. rewrite (IH1 H). rewrite app_length, fold_left_app. f_equal. f_equal. lia.
        -- intros t' c' H. split; [reflexivity|eapply IH2; exact H].
      * split; [intros [H _]; discriminate|intros t' c' H; discriminate].
Qed.

Theorem ranked_iff nm tot ranks v : validate_ranked nm tot ranks v = VOk <->
  exists items, v = OTuple items /\ ranks_ok ranks 0 items /\
    in_bounds tot (qnat (length (flatten items))) = true /\
    length (distinct (flatten items)) = length (flatten items) /\
    Forall (fun o => nominate nm o = true) (distinct (flatten items)).
Proof.
  unfold validate_ranked. destruct v; try (split; [discriminate|intros (l0 & H & _); discriminate]).
  destruct (ranked_scan_spec ranks l 0 0%nat []) as [S1 S2].
  split.
  - destruct (ranked_scan ranks 0 l 0 []) as [[r total] cands] eqn:E.
    destruct r; try discriminate. intros H.
    pose proof (S2 total cands eq_refl) as Hr. pose proof (S1 Hr) as E2. injection E2 as Ht Hc. subst total cands.
    rewrite !andthen_ok, !(check_ok _ _ vote_ne), all_checks_ok in H. destruct H as (H1 & H2 & H3).
    exists l. split; [reflexivity|]. split; [exact Hr|]. simpl in *. split; [exact H1|]. split.
    + apply negb_true_iff, Nat.ltb_ge in H2. unfold distinct.
      assert (Hle : forall (xs s : list pyobj), (length (fold_left (fun s o => add_set o s) xs s) <= length s + length xs)%nat).
      { induction xs as [|x xs IHx]; intros s; simpl; [lia|]. specialize (IHx (add_set x s)).
        unfold add_set in *. destruct (existsb (obj_eqb x) s); [lia|rewrite app_length in IHx; simpl in IHx; lia]. }
      specialize (Hle (flatten l) []). simpl in Hle. lia.
    + eapply Forall_impl; [|exact H3]. intros o Ho. apply (check_ok _ _ cand_ne). exact Ho.
  - intros (items & [= <-] & Hr & H1 & H2 & H3). rewrite (S1 Hr). simpl.
    rewrite !andthen_ok, !(check_ok _ _ vote_ne), all_checks_ok. split; [exact H1|]. split.
    + apply negb_true_iff, Nat.ltb_ge. unfold distinct in H2. lia.
    + eapply Forall_impl; [|exact H3]. intros o Ho. apply (check_ok _ _ cand_ne). exact Ho.
Qed.

(* ---- score *)
Definition scores_numeric (l : list pyobj) : Prop := Forall (fun o => num_of (score_of o) <> None) l.

Lemma sum_scores_some l : scores_numeric l -> exists s, sum_scores l = Some s.
Proof.
  induction 1 as [|o t Ho _ IH]; simpl; [exists 0%Q; reflexivity|].
  destruct (num_of (score_of o)) as [x|]; [|congruence]. destruct IH as [s ->]. exists (x + s)%Q. reflexivity.
Qed.

Definition rule_ok (rule : score_rule) (o : pyobj) : Prop :=
  match rule with
  | SEnum levels => existsb (obj_eqb (score_of o)) levels = true
  | SRange b => match num_of (score_of o) with Some x => in_bounds b x = true | None => active b = false end
  end.

Theorem score_iff nm nsc sums rule v : validate_score nm nsc sums rule v = VOk <->
  exists l, v = OFrozen l /\
    in_bounds nsc (qnat (length l)) = true /\
    Forall (fun o => exists c s, o = OTuple [c; s] /\ nominate nm c = true) l /\
    length (distinct (map scored_cand l)) = length l /\
    (let sb := kb_get sums (Z.of_nat (length l)) in
     active sb = true -> exists s, sum_scores l = Some s /\ in_bounds sb s = true) /\
    Forall (rule_ok rule) l.
Proof.
  unfold validate_score. destruct v; try (split; [discriminate|intros (l0 & H & _); discriminate]).
  rewrite !andthen_ok, !(check_ok _ _ vote_ne), all_checks_ok.
  assert (Hitem : forall o, score_item_check nm o = VOk <-> exists c s, o = OTuple [c; s] /\ nominate nm c = true).
  { intros o. unfold score_item_check. destruct o as [| | |lo| |]; try (split; [discriminate|intros (c & s & H & _); discriminate]).
    destruct lo as [|c [|s [|x t]]]; try (split; [discriminate|intros (c0 & s0 & H & _); discriminate]).
    rewrite (check_ok _ _ cand_ne). split; [intros H; exists c, s; tauto|intros (c0 & s0 & [= -> ->] & H); exact H]. }
  assert (Hnd : nodup_objs (map scored_cand l) = true <-> length (distinct (map scored_cand l)) = length l).
  { unfold nodup_objs, distinct. rewrite Nat.eqb_eq, map_length. tauto. }
  assert (Hrule : (match rule with
                   | SEnum levels => all_checks (fun o => check (existsb (obj_eqb (score_of o)) levels) VVoteError) l
                   | SRange b => all_checks (fun o => match num_of (score_of o) with
                                                      | Some x => check (in_bounds b x) VVoteError
                                                      | None => if active b then VCrash else VOk end) l
                   end) = VOk <-> Forall (rule_ok rule) l).
  { destruct rule; rewrite all_checks_ok; split; intros H; (eapply Forall_impl; [|exact H]); intros o Ho; unfold rule_ok in *.
    - apply (check_ok _ _ vote_ne). exact Ho.
    - apply (check_ok _ _ vote_ne). exact Ho.
    - destruct (num_of (score_of o)); [apply (check_ok _ _ vote_ne); exact Ho|]. destruct (active b); [discriminate|reflexivity].
    - destruct (num_of (score_of o)); [apply (check_ok _ _ vote_ne); exact Ho|]. rewrite Ho. reflexivity. }
  rewrite Hrule.
  assert (Hsum : (let sb := kb_get sums (Z.of_nat (length l)) in
                  if active sb then match sum_scores l with
                                    | Some s => check (in_bounds sb s) VVoteError | None => VCrash end
                  else VOk) = VOk <->
                 (let sb := kb_get sums (Z.of_nat (length l)) in
                  active sb = true -> exists s, sum_scores l = Some s /\ in_bounds sb s = true)).
  { cbv zeta. destruct (active (kb_get sums (Z.of_nat (length l)))); [|split; [intros _ H; discriminate|reflexivity]].
    destruct (sum_scores l) as [s|].
    - rewrite (check_ok _ _ vote_ne). split; [intros H _; exists s; tauto|intros H; destruct (H eq_refl) as (s0 & [= <-] & H0); exact H0].
    - split; [discriminate|intros H; destruct (H eq_refl) as (s0 & H0 & _); discriminate]. }
  rewrite Hsum. split.
  - intros (H1 & H2 & H3 & H4 & H5). exists l. split; [reflexivity|]. split; [exact H1|]. split.
    + eapply Forall_impl; [|exact H2]. intros o. apply Hitem.
    + split; [apply Hnd, H3|]. split; assumption.
  - intros (l0 & [= <-] & H1 & H2 & H3 & H4 & H5). split; [exact H1|]. split.
    + eapply Forall_impl; [|exact H2]. intros o. apply Hitem.
    + split; [apply Hnd, H3|]. split; assumption.
Qed.

(* ---- errors: a rejection of a ballot with numeric scores and hashable ranks is a vote or candidate error *)
Theorem simple_no_crash nm v : validate_simple nm v <> VCrash.
Proof. unfold validate_simple, check. destruct (nominate nm v); discriminate. Qed.

Lemma all_checks_no_crash {X} (f : X -> vresult) l : (forall x, In x l -> f x <> VCrash) -> all_checks f l <> VCrash.
Proof.
  induction l as [|x t IH]; simpl; intros H; [discriminate|].
  pose proof (H x (or_introl eq_refl)) as Hx. destruct (f x); simpl; try discriminate; try congruence.
  apply IH. intros y Hy. apply H. right. exact Hy.
Qed.

Theorem approval_no_crash nm cnt v : validate_approval nm cnt v <> VCrash.
Proof.
  unfold validate_approval. destruct v; try discriminate.
  assert (H : all_checks (fun o => check (nominate nm o) VCandError) l <> VCrash).
  { apply all_checks_no_crash. intros x _. unfold check. destruct (nominate nm x); discriminate. }
  destruct (all_checks _ l); simpl; try discriminate; try congruence.
  unfold check. destruct (in_bounds _ _); discriminate.
Qed.

(* ---- the invalid-vote filter *)
Theorem eliminate_spec validate votes kept : eliminate validate votes = EOk kept ->
  kept = filter (fun bn => match validate (fst bn) with VOk => true | _ => false end) votes /\
  Forall (fun bn => validate (fst bn) = VOk \/ validate (fst bn) = VVoteError) votes.
Proof.
  revert kept. induction votes as [|[b n] t IH]; intros kept; simpl.
  - intros [= <-]. split; [reflexivity|constructor].
  - destruct (validate b) eqn:E; try discriminate.
    + destruct (eliminate validate t) as [k| |]; try discriminate. intros [= <-].
      destruct (IH k eq_refl) as [-> H]. split; [reflexivity|]. constructor; [left; exact E|exact H].
    + destruct (eliminate validate t) as [k| |]; try discriminate. intros [= <-].
      destruct (IH k eq_refl) as [-> H]. split; [reflexivity|]. constructor; [right; exact E|exact H].
Qed.

Theorem eliminate_total validate votes :
  Forall (fun bn => validate (fst bn) = VOk \/ validate (fst bn) = VVoteError) votes ->
  exists kept, eliminate validate votes = EOk kept.
Proof.
  induction 1 as [|[b n] t Hb _ IH]; simpl; [exists []; reflexivity|].
  destruct IH as [k ->]. simpl in Hb. destruct Hb as [-> | ->]; eexists; reflexivity.
Qed.
