(* Proportionality for solid coalitions in the transferable-vote count (C04), Model/STV.v.

   A ballot is solid for a candidate set SS when its first |SS| ranks are plain (unshared) ranks naming exactly
   the members of SS.  In the selector form (every cap = 1, accept_quota_equal, one elimination at a time) with a
   positive quota q such that (n+1) q exceeds the votes cast, a coalition whose solid ballots weigh k quotas gets
   min(k, |SS|) of its members elected by every count that ends normally.

   The proof carries an invariant through [run]:
     - the solid ballots resting on continuing members of SS, plus one quota per elected member of SS, weigh at
       least k quotas as long as a member of SS continues  (cwa a + j q >= k q);
     - elected + continuing members of SS number at least min(k, |SS|);
     - every solid ballot resting on a member c of SS names only non-continuing candidates before c (so that it
       moves to another member of SS whenever one continues);
   together with conservation and non-negativity (Proofs/STV_proofs.v). *)
From Coq Require Import ZArith QArith Qround Qreduction Setoid List Bool Arith Lia Lqa Permutation.
From VL Require Import Prelude.PyDict Model.GetNBest Model.Convert Model.STV Model.Quota Proofs.Dict_proofs
     Proofs.GetNBest_proofs Proofs.STV_proofs Proofs.STV_elim_proofs Proofs.STV_majority_proofs.
From VL Require Proofs.Threshold_proofs.
Import ListNotations.
Open Scope Q_scope.

(* ---- solid ballots (ballots whose top ranks are unshared and name exactly the coalition) *)
Definition solid_b (S : list C) (b : ballot) : bool :=
  let top := firstn (length S) b in
  Nat.eqb (length top) (length S) &&
  forallb (fun it => match it with IP c => cmem c S | IS _ => false end) top &&
  forallb (fun c => existsb (fun it => match it with IP c' => ceqb c c' | IS _ => false end) top) S.
Definition coalition_weight (S : list C) (votes : list (ballot * Q)) : Q :=
  fold_right (fun bw acc => Qplus (if solid_b S (fst bw) then snd bw else 0%Q) acc) 0%Q votes.

Lemma cmem_In c l : cmem c l = true <-> In c l.
Proof. apply Threshold_proofs.cmem_In. Qed.
Lemma cmem_nIn c l : cmem c l = false <-> ~ In c l.
Proof. rewrite <- cmem_In. destruct (cmem c l); split; congruence. Qed.

(* item_eqb-equal ballots agree on every item predicate that only looks at plain ranks *)
Lemma ballot_eqb_firstn n : forall a b, ballot_eqb a b = true -> ballot_eqb (firstn n a) (firstn n b) = true.
Proof.
  induction n as [|n IH]; intros [|x a] [|y b]; simpl; try reflexivity; try discriminate.
  intros H. apply andb_true_iff in H. destruct H as [H1 H2]. rewrite H1. simpl. apply IH, H2.
Qed.
Lemma ballot_eqb_pred (f : item -> bool) : (forall x y, item_eqb x y = true -> f x = f y) ->
  forall a b, ballot_eqb a b = true -> length a = length b /\ forallb f a = forallb f b /\ existsb f a = existsb f b.
Proof.
  intros Hf. induction a as [|x a IH]; intros [|y b]; simpl; try discriminate; [intros _; auto|].
  intros H. apply andb_true_iff in H. destruct H as [H1 H2]. destruct (IH b H2) as (L & F & E).
  rewrite (Hf x y H1), L, F, E. auto.
Qed.
Lemma forallb_ext' {X} (f g : X -> bool) l : (forall x, f x = g x) -> forallb f l = forallb g l.
Proof. intros H. induction l as [|x l IH]; simpl; [reflexivity|]. rewrite H, IH. reflexivity. Qed.
Lemma solid_b_eqb S a b : ballot_eqb a b = true -> solid_b S a = solid_b S b.
Proof.
  intros H. unfold solid_b. pose proof (ballot_eqb_firstn (length S) a b H) as Ht.
  assert (P1 : forall x y, item_eqb x y = true ->
     match x with IP c => cmem c S | IS _ => false end = match y with IP c => cmem c S | IS _ => false end).
  { intros [x|x] [y|y]; simpl; try discriminate; [|reflexivity]. intros E. apply ceqb_eq in E. subst. reflexivity. }
  destruct (ballot_eqb_pred _ P1 _ _ Ht) as (L & F & _). rewrite L, F. f_equal.
  apply forallb_ext'. intros c.
  assert (P2 : forall x y, item_eqb x y = true ->
     match x with IP c' => ceqb c c' | IS _ => false end = match y with IP c' => ceqb c c' | IS _ => false end).
  { intros [x|x] [y|y]; simpl; try discriminate; [|reflexivity]. intros E. apply ceqb_eq in E. subst. reflexivity. }
  destruct (ballot_eqb_pred _ P2 _ _ Ht) as (_ & _ & E). exact E.
Qed.

(* a solid ballot is a list of plain ranks covering exactly the coalition, followed by anything *)
Lemma solid_b_shape S b : solid_b S b = true ->
  exists top rest, b = map IP top ++ rest /\ (forall x, In x top -> In x S) /\ (forall x, In x S -> In x top).
Proof.
  unfold solid_b. set (t := firstn (length S) b). intros H.
  apply andb_true_iff in H. destruct H as [H H3]. apply andb_true_iff in H. destruct H as [_ H2].
  set (ips := flat_map (fun it => match it with IP c => [c] | IS _ => [] end) t).
  assert (Ht : t = map IP ips).
  { unfold ips. clear -H2. induction t as [|[c|l] t IH]; simpl in *; [reflexivity| |discriminate].
    apply andb_true_iff in H2. destruct H2 as [_ H2]. rewrite <- IH by exact H2. reflexivity. }
  exists ips, (skipn (length S) b). split; [rewrite <- Ht; unfold t; symmetry; apply firstn_skipn|]. split.
  - intros x Hx. unfold ips in Hx. apply in_flat_map in Hx. destruct Hx as ([c|l] & Hin & Hx); [|destruct Hx].
    destruct Hx as [<-|[]]. rewrite forallb_forall in H2. apply cmem_In. exact (H2 _ Hin).
  - intros x Hx. rewrite forallb_forall in H3. specialize (H3 x Hx). apply existsb_exists in H3.
    destruct H3 as ([c|l] & Hin & E); [|discriminate]. apply ceqb_eq in E. subst c.
    unfold ips. apply in_flat_map. exists (IP x). split; [exact Hin|left; reflexivity].
Qed.

Lemma solid_b_first S b : S <> [] -> solid_b S b = true -> exists c t, b = IP c :: t /\ In c S.
Proof.
  intros Hne H. destruct (solid_b_shape S b H) as (top & rest & -> & H1 & H2).
  destruct S as [|s S']; [congruence|]. destruct top as [|c top]; [destruct (H2 s (or_introl eq_refl))|].
  exists c, (map IP top ++ rest). split; [reflexivity|apply H1; left; reflexivity].
Qed.

(* ---- where a ballot rests: [rests_ok K c b] = c occurs among the leading plain ranks of b and every candidate
   named before it is outside K *)
Fixpoint rests_ok (K : list C) (c : C) (b : ballot) : bool :=
  match b with
  | IP x :: t => if ceqb c x then true else negb (cmem x K) && rests_ok K c t
  | _ => false
  end.

Lemma rests_ok_mono K K' c b : incl K' K -> rests_ok K c b = true -> rests_ok K' c b = true.
Proof.
  intros Hi. induction b as [|[x|l] t IH]; simpl; try discriminate. destruct (ceqb c x); [reflexivity|].
  intros H. apply andb_true_iff in H. destruct H as [H1 H2]. rewrite (IH H2), andb_true_r.
  apply negb_true_iff. apply negb_true_iff in H1. apply cmem_nIn. apply cmem_nIn in H1. intros H. apply H1, Hi, H.
Qed.

Lemma next_after_top cont rest d' : forall t, In d' t -> In d' cont ->
  exists d, next_after (map IP t ++ rest) cont = [d] /\ In d t /\ In d cont /\ rests_ok cont d (map IP t ++ rest) = true.
Proof.
  induction t as [|y t IH]; intros Hin Hc; [destruct Hin|]. simpl.
  destruct (cmem y cont) eqn:E.
  - exists y. split; [reflexivity|]. split; [left; reflexivity|]. split; [apply cmem_In, E|]. rewrite ceqb_refl. reflexivity.
  - assert (Hne : d' <> y) by (intros ->; apply cmem_nIn in E; exact (E Hc)).
    destruct Hin as [->|Hin]; [congruence|]. destruct (IH Hin Hc) as (d & H1 & H2 & H3 & H4).
    exists d. split; [exact H1|]. split; [right; exact H2|]. split; [exact H3|].
    assert (ceqb d y = false) as -> by (apply ceqb_neq; intros ->; apply cmem_nIn in E; exact (E H3)).
    rewrite H4. reflexivity.
Qed.

Lemma ranked_next_top K cont c rest d' : incl cont K -> ~ In c cont -> In d' cont ->
  forall t, In d' t -> rests_ok K c (map IP t ++ rest) = true ->
  exists d, ranked_next (map IP t ++ rest) c cont = [d] /\ In d t /\ In d cont /\ rests_ok cont d (map IP t ++ rest) = true.
Proof.
  intros Hi Hc Hd'. induction t as [|x t IH]; intros Hin Hr; [destruct Hin|]. simpl in *.
  destruct (ceqb c x) eqn:E.
  - apply ceqb_eq in E. subst x.
    destruct Hin as [->|Hin]; [exfalso; exact (Hc Hd')|].
    destruct (next_after_top cont rest d' t Hin Hd') as (d & H1 & H2 & H3 & H4).
    exists d. split; [exact H1|]. split; [right; exact H2|]. split; [exact H3|].
    assert (ceqb d c = false) as -> by (apply ceqb_neq; intros ->; exact (Hc H3)).
    rewrite H4, andb_true_r. apply negb_true_iff, cmem_nIn, Hc.
  - apply andb_true_iff in Hr. destruct Hr as [Hx Hr]. apply negb_true_iff in Hx. apply cmem_nIn in Hx.
    destruct Hin as [->|Hin]; [exfalso; exact (Hx (Hi _ Hd'))|].
    destruct (IH Hin Hr) as (d & H1 & H2 & H3 & H4).
    exists d. split; [exact H1|]. split; [right; exact H2|]. split; [exact H3|].
    assert (ceqb d x = false) as -> by (apply ceqb_neq; intros ->; exact (Hx (Hi _ H3))).
    rewrite H4, andb_true_r. apply negb_true_iff, cmem_nIn. intros H. exact (Hx (Hi _ H)).
Qed.

(* every candidate named on a ballot is a candidate of the count *)
Lemma addall_incl l : forall acc x, In x acc -> In x (fold_left (fun acc c => if cmem c acc then acc else acc ++ [c]) l acc).
Proof.
  induction l as [|c l IH]; intros acc x H; simpl; [exact H|]. apply IH. destruct (cmem c acc); [exact H|apply in_or_app; left; exact H].
Qed.
Lemma addall_in l : forall acc x, In x l -> In x (fold_left (fun acc c => if cmem c acc then acc else acc ++ [c]) l acc).
Proof.
  induction l as [|c l IH]; intros acc x H; simpl; [destruct H|]. destruct H as [->|H]; [|apply IH, H].
  apply addall_incl. destruct (cmem x acc) eqn:E; [apply cmem_In, E|apply in_or_app; right; left; reflexivity].
Qed.

Lemma all_ranked_in (votes : list (ballot * Q)) b w it x :
  In (b, w) votes -> In it b -> In x (members it) -> In x (all_ranked_candidates votes).
Proof.
  intros Hv Hit Hx. unfold all_ranked_candidates.
  set (inner := fun (i : nat) (acc : list C) =>
     fold_left (fun acc (bw : ballot * Q) => match nth_error (fst bw) i with
                 | Some it => fold_left (fun acc c => if cmem c acc then acc else acc ++ [c]) (members it) acc
                 | None => acc end) votes acc).
  assert (Hinc : forall i (vs : list (ballot * Q)) acc y, In y acc ->
            In y (fold_left (fun acc (bw : ballot * Q) => match nth_error (fst bw) i with
                 | Some it => fold_left (fun acc c => if cmem c acc then acc else acc ++ [c]) (members it) acc
                 | None => acc end) vs acc)).
  { intros i. induction vs as [|bw vs IH]; intros acc y H; simpl; [exact H|]. apply IH.
    destruct (nth_error (fst bw) i); [apply addall_incl, H|exact H]. }
  assert (Hin : forall i (vs : list (ballot * Q)) acc, In (b, w) vs -> nth_error b i = Some it ->
            In x (fold_left (fun acc (bw : ballot * Q) => match nth_error (fst bw) i with
                 | Some it => fold_left (fun acc c => if cmem c acc then acc else acc ++ [c]) (members it) acc
                 | None => acc end) vs acc)).
  { intros i. induction vs as [|bw vs IH]; intros acc H Hn; [destruct H|]. simpl. destruct H as [->|H]; [|apply IH; assumption].
    apply Hinc. cbn [fst]. rewrite Hn. apply addall_in, Hx. }
  destruct (In_nth_error b it Hit) as (i & Hi).
  assert (Hlen : (i < length b)%nat) by (apply nth_error_Some; congruence).
  assert (Hmax : forall (vs : list (ballot * Q)) m0,
            (m0 <= fold_left (fun m (bw : ballot * Q) => Nat.max m (length (fst bw))) vs m0)%nat /\
            (In (b, w) vs -> (length b <= fold_left (fun m (bw : ballot * Q) => Nat.max m (length (fst bw))) vs m0)%nat)).
  { induction vs as [|bw vs IH]; intros m0; cbn [fold_left]; [split; [lia|intros []]|].
    destruct (IH (Nat.max m0 (length (fst bw)))) as [H1 H2]. split; [lia|]. intros [->|H]; [cbn [fst] in *; lia|exact (H2 H)]. }
  match goal with |- In _ (fold_left _ (seq 0 ?m) _) => set (mx := m) end.
  assert (Hm : (length b <= mx)%nat) by (unfold mx; exact (proj2 (Hmax votes 0%nat) Hv)).
  assert (Hseq : In i (seq 0 mx)) by (apply in_seq; lia).
  revert Hseq. generalize (seq 0 mx). intros is Hseq.
  assert (Houter : forall (is : list nat) acc,
            (forall y, In y acc -> In y (fold_left (fun acc i => inner i acc) is acc)) /\
            (In i is -> In x (fold_left (fun acc i => inner i acc) is acc))).
  { induction is0 as [|j is0 IH]; intros acc; simpl; [split; [tauto|intros []]|].
    destruct (IH (inner j acc)) as [H1 H2]. split.
    - intros y Hy. apply H1. unfold inner. apply Hinc, Hy.
    - intros [->|H]; [|exact (H2 H)]. apply H1. unfold inner. apply Hin; assumption. }
  exact (proj2 (Houter is []) Hseq).
Qed.


(* ================================================================ the coalition's weight in an allocation *)
Section PSC.
  Variable SS : list C.

  Definition sw (b : ballot) (w : Q) : Q := if solid_b SS b then w else 0.
  Definition cwp (p : pile) : Q := fold_right (fun bw acc => sw (fst bw) (snd bw) + acc) 0 p.
  Definition inS (k : option C) : bool := match k with Some c => cmem c SS | None => false end.
  (* weight of the solid ballots resting on members of SS *)
  Definition cwa (a : alloc) : Q := fold_right (fun kp acc => (if inS (fst kp) then cwp (snd kp) else 0) + acc) 0 a.

  Lemma sw_bounds b w : 0 <= w -> 0 <= sw b w /\ sw b w <= w.
  Proof. intros H. unfold sw. destruct (solid_b SS b); split; lra. Qed.

  Lemma cwp_bounds p : pile_nonneg p -> 0 <= cwp p /\ cwp p <= wsum p.
  Proof.
    induction 1 as [|[b w] p Hw _ IH]; simpl; [split; lra|]. simpl in Hw.
    destruct (sw_bounds b w Hw). destruct IH. split; lra.
  Qed.

  Lemma cwp_pile_add p b w : cwp (pile_add p b w) == cwp p + sw b w.
  Proof.
    induction p as [|[b' w'] p IH]; simpl; [ring|].
    destruct (ballot_eqb b b') eqn:E; simpl.
    - unfold sw. rewrite (solid_b_eqb SS b b' E). destruct (solid_b SS b'); [|ring].
      pose proof (Qred_correct (w' + w)) as Hr. rewrite Hr. ring.
    - rewrite IH. ring.
  Qed.

  Lemma cwa_alloc_add a k b w : cwa (alloc_add a k b w) == cwa a + (if inS k then sw b w else 0).
  Proof.
    induction a as [|[k' p] a IH]; simpl.
    - destruct (inS k); simpl; ring.
    - destruct (okey_eqb k k') eqn:E; simpl.
      + apply okey_eqb_eq in E. subst k'. destruct (inS k); [rewrite cwp_pile_add|]; ring.
      + rewrite IH. ring.
  Qed.

  Lemma cwa_fold_add targets b share : 0 <= share -> forall a,
    cwa a <= cwa (fold_left (fun a t => alloc_add a (Some t) b share) targets a).
  Proof.
    intros Hs. induction targets as [|t ts IH]; intros a; simpl; [lra|].
    eapply Qle_trans; [|apply IH]. rewrite cwa_alloc_add. destruct (sw_bounds b share Hs). destruct (inS (Some t)); lra.
  Qed.

  Lemma cwa_move_ge a targets b w : 0 <= w -> cwa a <= cwa (move_ballot a targets b w).
  Proof.
    intros Hw. unfold move_ballot. destruct targets as [|t ts].
    - rewrite cwa_alloc_add. simpl. lra.
    - apply cwa_fold_add. pose proof (Qred_correct (w / inject_Z (Z.of_nat (length (t :: ts))))) as Hr. rewrite Hr.
      apply Qle_shift_div_l; [|lra]. rewrite <- (Zlt_Qlt 0). simpl length. lia.
  Qed.

  Lemma cwa_move_single a d b w : In d SS -> cwa (move_ballot a [d] b w) == cwa a + sw b w.
  Proof.
    intros Hd. unfold move_ballot. cbn [fold_left length]. rewrite cwa_alloc_add.
    unfold inS. apply cmem_In in Hd. rewrite Hd. unfold sw. destruct (solid_b SS b); [|ring].
    pose proof (Qred_correct (w / inject_Z (Z.of_nat 1))) as Hr. rewrite Hr. change (inject_Z (Z.of_nat 1)) with 1. field.
  Qed.

  Lemma cwa_alloc_del a k p : NoDup (akeys a) -> alloc_get a k = Some p ->
    cwa (alloc_del a k) == cwa a - (if inS k then cwp p else 0).
  Proof.
    unfold akeys, alloc_del. induction a as [|[k' q] a IH]; simpl; intros Hnd Hg; [discriminate|].
    inversion Hnd as [|? ? Hk Hn]; subst.
    destruct (okey_eqb k k') eqn:E; simpl.
    - apply okey_eqb_eq in E. subst k'. injection Hg as ->.
      assert (Hsame : filter (fun kp : option C * pile => negb (okey_eqb k (fst kp))) a = a).
      { clear -Hk. induction a as [|[k0 q0] a IHa]; simpl; [reflexivity|].
        destruct (okey_eqb k k0) eqn:E; simpl.
        - apply okey_eqb_eq in E. subst. exfalso. apply Hk. left. reflexivity.
        - f_equal. apply IHa. intros H. apply Hk. right. exact H. }
      rewrite Hsame. ring.
    - fold (cwa (filter (fun kp : option C * pile => negb (okey_eqb k (fst kp))) a)). rewrite (IH Hn Hg). fold (cwa a). ring.
  Qed.

  Lemma cwa_replace a c p p' : NoDup (akeys a) -> alloc_get a (Some c) = Some p ->
    cwa (map (fun kp : option C * pile => if okey_eqb (Some c) (fst kp) then (fst kp, p') else kp) a)
    == cwa a - (if cmem c SS then cwp p else 0) + (if cmem c SS then cwp p' else 0).
  Proof.
    unfold akeys. induction a as [|[k q] a IH]; cbn -[okey_eqb]; intros Hnd Hg; [discriminate|].
    inversion Hnd as [|? ? Hk Hn]; subst.
    revert Hg. destruct (okey_eqb (Some c) k) eqn:E; cbn -[okey_eqb]; intros Hg.
    - apply okey_eqb_eq in E. subst k. injection Hg as ->.
      assert (Hsame : map (fun kp : option C * pile => if okey_eqb (Some c) (fst kp) then (fst kp, p') else kp) a = a).
      { clear -Hk. induction a as [|[k0 q0] a IHa]; cbn -[okey_eqb]; [reflexivity|].
        destruct (okey_eqb (Some c) k0) eqn:E; cbn -[okey_eqb].
        - apply okey_eqb_eq in E. subst. exfalso. apply Hk. left. reflexivity.
        - f_equal. apply IHa. intros H. apply Hk. right. exact H. }
      rewrite Hsame. fold (cwa a). unfold cwp, inS. destruct (cmem c SS); ring.
    - fold (cwa (map (fun kp : option C * pile => if okey_eqb (Some c) (fst kp) then (fst kp, p') else kp) a)).
      rewrite (IH Hn Hg). fold (cwa a). ring.
  Qed.

  Lemma cwp_map_scale (p : pile) (f : Q) :
    cwp (map (fun bw : ballot * Q => (fst bw, Qred (snd bw * f))) p) == cwp p * f.
  Proof.
    induction p as [|[b w] p IH]; simpl; [ring|]. rewrite IH. unfold sw. destruct (solid_b SS b); [|ring].
    pose proof (Qred_correct (w * f)) as Hr. rewrite Hr. ring.
  Qed.

  (* an elected member's pile loses at most the amount subtracted *)
  Lemma cwp_gregory p amt p' : pile_nonneg p -> 0 <= amt -> amt <= wsum p ->
    gregory_subtract p amt = Some p' -> cwp p - amt <= cwp p'.
  Proof.
    intros Hp H0 Hle. unfold gregory_subtract. pose proof (pile_sum_wsum p) as Hs.
    destruct (cwp_bounds p Hp) as [C0 C1].
    destruct (Qeq_bool (pile_sum p) 0) eqn:E0; [discriminate|].
    destruct (Qle_bool (pile_sum p) amt) eqn:E1.
    - intros [= <-]. apply Qle_bool_iff in E1. simpl. lra.
    - intros Hq. assert (Hp' : p' = map (fun bw : ballot * Q => (fst bw, Qred (snd bw * ((pile_sum p - amt) / pile_sum p)))) p) by congruence.
      rewrite Hp'. clear Hq Hp'.
      assert (Hlt : amt < pile_sum p).
      { apply Qnot_le_lt. intros H. apply Qle_bool_iff in H. congruence. }
      rewrite cwp_map_scale. set (s := pile_sum p) in *. set (x := cwp p) in *.
      assert (Hs0 : 0 < s) by lra.
      assert (Hd : x * ((s - amt) / s) - (x - amt) == amt * (s - x) / s) by (field; lra).
      assert (Hn : 0 <= amt * (s - x) / s).
      { apply Qle_shift_div_l; [exact Hs0|]. rewrite Qmult_0_l. apply Qmult_le_0_compat; lra. }
      lra.
  Qed.

  (* ================================================================ where solid ballots rest *)
  (* a solid ballot on a member c of SS names only candidates outside K before c; a solid ballot on a
     non-member witnesses that no member of SS is in K *)
  Definition okb (K : list C) (c : C) (b : ballot) : bool :=
    if cmem c SS then rests_ok K c b else forallb (fun x => negb (cmem x K)) SS.
  Definition BB (K : list C) (a : alloc) : Prop :=
    forall c p b w, In (Some c, p) a -> In (b, w) p -> solid_b SS b = true -> okb K c b = true.

  Lemma okb_mono K K' c b : incl K' K -> okb K c b = true -> okb K' c b = true.
  Proof.
    intros Hi. unfold okb. destruct (cmem c SS); [apply rests_ok_mono, Hi|].
    rewrite !forallb_forall. intros H x Hx. specialize (H x Hx). apply negb_true_iff. apply negb_true_iff in H.
    apply cmem_nIn. apply cmem_nIn in H. intros H1. apply H, Hi, H1.
  Qed.
  Lemma BB_mono K K' a : incl K' K -> BB K a -> BB K' a.
  Proof. intros Hi H c p b w H1 H2 H3. apply (okb_mono K K' c b Hi). exact (H c p b w H1 H2 H3). Qed.

  Lemma pile_add_in p b w b0 w0 : In (b0, w0) (pile_add p b w) -> b0 = b \/ exists w1, In (b0, w1) p.
  Proof.
    induction p as [|[b' w'] p IH]; simpl; [intros [H|[]]; left; congruence|].
    destruct (ballot_eqb b b').
    - intros [H|H]; right; [injection H as <- _; exists w'; left; reflexivity|exists w0; right; exact H].
    - intros [H|H]; [right; exists w0; left; exact H|]. destruct (IH H) as [->|(w1 & H1)]; [left; reflexivity|right; exists w1; right; exact H1].
  Qed.

  Lemma BB_alloc_add K a k b w : BB K a ->
    (forall c, k = Some c -> solid_b SS b = true -> okb K c b = true) -> BB K (alloc_add a k b w).
  Proof.
    intros HB Hnew. induction a as [|[k' p'] a IH]; simpl.
    - intros c p b0 w0 [H|[]] Hin Hs. injection H as -> <-. destruct Hin as [H|[]]. injection H as <- _. exact (Hnew c eq_refl Hs).
    - assert (HBt : BB K a) by (intros c p b0 w0 H1; apply (HB c p b0 w0); right; exact H1).
      destruct (okey_eqb k k') eqn:E.
      + apply okey_eqb_eq in E. subst k'. intros c p b0 w0 [H|H] Hin Hs.
        * injection H as -> <-. destruct (pile_add_in p' b w b0 w0 Hin) as [->|(w1 & H1)]; [exact (Hnew c eq_refl Hs)|].
          apply (HB c p' b0 w1); [left; reflexivity|exact H1|exact Hs].
        * apply (HB c p b0 w0); [right; exact H|exact Hin|exact Hs].
      + intros c p b0 w0 [H|H] Hin Hs.
        * apply (HB c p b0 w0); [left; exact H|exact Hin|exact Hs].
        * apply (IH HBt c p b0 w0 H Hin Hs).
  Qed.

  Lemma BB_move K a targets b w : BB K a ->
    (forall t, In t targets -> solid_b SS b = true -> okb K t b = true) -> BB K (move_ballot a targets b w).
  Proof.
    intros HB Ht. unfold move_ballot. destruct targets as [|t ts]; [apply BB_alloc_add; [exact HB|discriminate]|].
    generalize (Qred (w / inject_Z (Z.of_nat (length (t :: ts))))). intros sh.
    revert a HB. induction (t :: ts) as [|x xs IH]; intros a HB; simpl; [exact HB|].
    apply IH; [intros y Hy; apply Ht; right; exact Hy|].
    apply BB_alloc_add; [exact HB|]. intros c [= <-]. apply Ht. left. reflexivity.
  Qed.

  Lemma BB_alloc_del K a k : BB K a -> BB K (alloc_del a k).
  Proof. intros HB c p b w H. apply (HB c p b w). unfold alloc_del in H. apply filter_In in H. tauto. Qed.

  (* where a solid ballot goes when the candidate it rests on leaves *)
  Lemma okb_targets K cont c b : solid_b SS b = true -> okb K c b = true -> incl cont K -> ~ In c cont ->
    (forall t, In t (ranked_next b c cont) -> okb cont t b = true) /\
    (cmem c SS = true -> (exists d', In d' SS /\ In d' cont) -> exists d, ranked_next b c cont = [d] /\ In d SS).
  Proof.
    intros Hs Hok Hi Hc. destruct (solid_b_shape SS b Hs) as (top & rest & -> & H1 & H2).
    unfold okb in Hok. destruct (cmem c SS) eqn:Ec.
    - destruct (existsb (fun x => cmem x cont) SS) eqn:Ex.
      + apply existsb_exists in Ex. destruct Ex as (d' & Hd1 & Hd2). apply cmem_In in Hd2.
        destruct (ranked_next_top K cont c rest d' Hi Hc Hd2 top (H2 _ Hd1) Hok) as (d & R1 & R2 & R3 & R4).
        split.
        * intros t Ht. rewrite R1 in Ht. destruct Ht as [<-|[]]. unfold okb.
          assert (cmem d SS = true) as -> by (apply cmem_In, H1, R2). exact R4.
        * intros _ _. exists d. split; [exact R1|apply H1, R2].
      + assert (Hno : forall x, In x SS -> ~ In x cont).
        { intros x Hx Hxc. apply not_true_iff_false in Ex. apply Ex. apply existsb_exists. exists x. split; [exact Hx|apply cmem_In, Hxc]. }
        split.
        * intros t Ht. apply ranked_next_allowed in Ht. unfold okb.
          assert (cmem t SS = false) as -> by (apply cmem_nIn; intros H; exact (Hno t H Ht)).
          apply forallb_forall. intros x Hx. apply negb_true_iff, cmem_nIn, Hno, Hx.
        * intros _ (d' & Hd1 & Hd2). exfalso. exact (Hno d' Hd1 Hd2).
    - split; [|discriminate]. intros t Ht. apply ranked_next_allowed in Ht. unfold okb.
      rewrite forallb_forall in Hok.
      assert (cmem t SS = false) as ->.
      { apply cmem_nIn. intros H. specialize (Hok t H). apply negb_true_iff, cmem_nIn in Hok. apply Hok, Hi, Ht. }
      apply forallb_forall. intros x Hx. specialize (Hok x Hx). apply negb_true_iff, cmem_nIn.
      apply negb_true_iff, cmem_nIn in Hok. intros H. apply Hok, Hi, H.
  Qed.

  (* ---- the continuing candidates of an allocation *)
  Lemma keys_some_akeys a c : In c (keys_some a) <-> In (Some c) (akeys a).
  Proof.
    unfold keys_some, akeys. induction a as [|[k p] a IH]; simpl; [tauto|]. rewrite in_app_iff, IH.
    destruct k as [x|]; simpl; split; intros H; try tauto.
    - destruct H as [[->|[]]|H]; auto.
    - destruct H as [[= ->]|H]; auto.
    - destruct H as [H|H]; [discriminate|auto].
  Qed.

  Lemma keys_some_add_some a t b w : In t (keys_some a) -> keys_some (alloc_add a (Some t) b w) = keys_some a.
  Proof.
    unfold keys_some. induction a as [|[k p] a IH]; simpl; [tauto|].
    destruct k as [x|]; simpl.
    - destruct (ceqb t x) eqn:E; simpl; [reflexivity|]. intros [->|H]; [rewrite ceqb_refl in E; discriminate|].
      rewrite (IH H). reflexivity.
    - intros H. exact (IH H).
  Qed.
  Lemma keys_some_add_none a b w : keys_some (alloc_add a None b w) = keys_some a.
  Proof.
    unfold keys_some. induction a as [|[k p] a IH]; simpl; [reflexivity|].
    destruct k as [x|]; simpl; [rewrite IH; reflexivity|reflexivity].
  Qed.
  Lemma keys_some_move a targets b w : incl targets (keys_some a) -> keys_some (move_ballot a targets b w) = keys_some a.
  Proof.
    intros Hi. unfold move_ballot. destruct targets as [|t ts]; [apply keys_some_add_none|].
    generalize (Qred (w / inject_Z (Z.of_nat (length (t :: ts))))). intros sh.
    revert a Hi. induction (t :: ts) as [|x xs IH]; intros a Hi; simpl; [reflexivity|].
    assert (Hx : keys_some (alloc_add a (Some x) b sh) = keys_some a) by (apply keys_some_add_some, Hi; left; reflexivity).
    rewrite IH; [exact Hx|]. rewrite Hx. intros y Hy. apply Hi. right. exact Hy.
  Qed.
  Lemma keys_some_del a c : keys_some (alloc_del a (Some c)) = filter (fun x => negb (ceqb c x)) (keys_some a).
  Proof.
    unfold keys_some, alloc_del. induction a as [|[k p] a IH]; [reflexivity|].
    cbn [filter fst]. destruct k as [x|]; cbn [okey_eqb].
    - cbn [flat_map fst app filter]. destruct (ceqb c x); cbn [negb flat_map fst app]; [exact IH|f_equal; exact IH].
    - cbn [negb flat_map fst app]. exact IH.
  Qed.

  Lemma alloc_get_in a k p : alloc_get a k = Some p -> In (k, p) a.
  Proof.
    induction a as [|[k' q] a IH]; simpl; [discriminate|]. destruct (okey_eqb k k') eqn:E.
    - apply okey_eqb_eq in E. subst. intros [= ->]. left. reflexivity.
    - intros H. right. exact (IH H).
  Qed.
  Lemma alloc_get_none_key a c : alloc_get a (Some c) = None -> ~ In c (keys_some a).
  Proof.
    unfold keys_some. induction a as [|[k q] a IH]; simpl; [tauto|]. destruct k as [x|]; simpl.
    - destruct (ceqb c x) eqn:E; [discriminate|]. intros H [->|H1]; [rewrite ceqb_refl in E; discriminate|exact (IH H H1)].
    - exact IH.
  Qed.

  (* ---- pouring the pile of a leaving candidate over the continuing ones *)
  Definition pour (cont : list C) (c : C) (p : pile) (a : alloc) : alloc :=
    fold_left (fun a bw => move_ballot a (ranked_next (fst bw) c cont) (fst bw) (snd bw)) p a.
  Definition tstep (cont : list C) (a : alloc) (c : C) : alloc :=
    alloc_del (pour cont c (match alloc_get a (Some c) with Some p => p | None => [] end) a) (Some c).
  Lemma transfer_unfold a elim :
    transfer a elim = fold_left (tstep (filter (fun c => negb (cmem c elim)) (keys_some a)))
                                (filter (fun c => cmem c elim) (keys_some a)) a.
  Proof. reflexivity. Qed.

  Lemma pour_psc cont c : ~ In c cont -> forall p a0,
    NoDup (akeys a0) -> alloc_nonneg a0 -> pile_nonneg p -> BB cont a0 -> incl cont (keys_some a0) ->
    (forall b w, In (b, w) p -> solid_b SS b = true -> okb cont c b = true) ->
    let r := pour cont c p a0 in
    NoDup (akeys r) /\ alloc_nonneg r /\ BB cont r /\ keys_some r = keys_some a0 /\
    alloc_get r (Some c) = alloc_get a0 (Some c) /\ cwa a0 <= cwa r /\
    (cmem c SS = true -> (exists d', In d' SS /\ In d' cont) -> cwa a0 + cwp p <= cwa r).
  Proof.
    intros Hc. induction p as [|[b w] p IH]; intros a0 Hnd Hnn Hp HB Hk Hok; cbv zeta.
    - change (pour cont c [] a0) with a0. repeat split; try assumption; try reflexivity; [lra|]. intros _ _. simpl. lra.
    - change (pour cont c ((b, w) :: p) a0) with (pour cont c p (move_ballot a0 (ranked_next b c cont) b w)).
      set (tg := ranked_next b c cont). set (a1 := move_ballot a0 tg b w).
      inversion Hp as [|? ? Hw Hp']; subst. simpl in Hw.
      assert (Htg : incl tg cont) by apply ranked_next_allowed.
      assert (Hnc : ~ In c tg) by (intros H; apply Hc, Htg, H).
      destruct (move_ballot_keep a0 tg b w c Hnc Hnd) as [G1 N1].
      assert (K1 : keys_some a1 = keys_some a0) by (apply keys_some_move; intros x Hx; apply Hk, Htg, Hx).
      assert (B1 : BB cont a1).
      { apply BB_move; [exact HB|]. intros t Ht Hs.
        apply (proj1 (okb_targets cont cont c b Hs (Hok b w (or_introl eq_refl) Hs) (incl_refl _) Hc)). exact Ht. }
      destruct (IH a1 N1 (move_ballot_nonneg a0 tg b w Hnn Hw) Hp' B1) as (R1 & R2 & R3 & R4 & R5 & R6 & R7).
      { rewrite K1. exact Hk. }
      { intros b0 w0 Hin. apply (Hok b0 w0). right. exact Hin. }
      split; [exact R1|]. split; [exact R2|]. split; [exact R3|]. split; [rewrite R4; exact K1|].
      split; [rewrite R5; exact G1|].
      pose proof (cwa_move_ge a0 tg b w Hw) as M1. fold a1 in M1.
      split; [lra|]. intros Ec Hex. specialize (R7 Ec Hex). cbn [cwp fold_right fst snd].
      fold (cwp p).
      assert (M2 : cwa a0 + sw b w <= cwa a1).
      { unfold sw. destruct (solid_b SS b) eqn:Hs; [|lra].
        destruct (proj2 (okb_targets cont cont c b Hs (Hok b w (or_introl eq_refl) Hs) (incl_refl _) Hc) Ec Hex) as (d & Hd1 & Hd2).
        unfold a1, tg. rewrite Hd1, (cwa_move_single a0 d b w Hd2). unfold sw. rewrite Hs. lra. }
      lra.
  Qed.

  Lemma alloc_del_nonneg a k : alloc_nonneg a -> alloc_nonneg (alloc_del a k).
  Proof.
    unfold alloc_nonneg, alloc_del. rewrite !Forall_forall. intros H x Hx. apply filter_In in Hx. apply H. tauto.
  Qed.

  Lemma tstep_psc cont a c : ~ In c cont -> NoDup (akeys a) -> alloc_nonneg a -> BB cont a -> incl cont (keys_some a) ->
    let r := tstep cont a c in
    NoDup (akeys r) /\ alloc_nonneg r /\ BB cont r /\
    keys_some r = filter (fun x => negb (ceqb c x)) (keys_some a) /\
    ((exists d', In d' SS /\ In d' cont) -> cwa a <= cwa r).
  Proof.
    intros Hc Hnd Hnn HB Hk. unfold tstep.
    set (p := match alloc_get a (Some c) with Some p => p | None => [] end).
    assert (Hp : pile_nonneg p).
    { unfold p. destruct (alloc_get a (Some c)) eqn:E; [eapply alloc_get_nonneg; eassumption|constructor]. }
    assert (Hok : forall b w, In (b, w) p -> solid_b SS b = true -> okb cont c b = true).
    { unfold p. destruct (alloc_get a (Some c)) as [p0|] eqn:E; [|intros b w []].
      intros b w Hin Hs. apply (HB c p0 b w); [apply alloc_get_in, E|exact Hin|exact Hs]. }
    destruct (pour_psc cont c Hc p a Hnd Hnn Hp HB Hk Hok) as (R1 & R2 & R3 & R4 & R5 & R6 & R7).
    set (r0 := pour cont c p a) in *. cbv zeta.
    split.
    { destruct (alloc_get r0 (Some c)) as [p0|] eqn:E.
      - exact (proj2 (alloc_del_sum r0 (Some c) p0 R1 E)).
      - rewrite (alloc_del_none r0 _ E). exact R1. }
    split; [apply alloc_del_nonneg, R2|]. split; [apply BB_alloc_del, R3|].
    split; [rewrite keys_some_del, R4; reflexivity|].
    intros Hex. destruct (alloc_get a (Some c)) as [p0|] eqn:E.
    - rewrite (cwa_alloc_del r0 (Some c) p0 R1) by (rewrite R5; reflexivity). cbn [inS].
      destruct (cmem c SS) eqn:Ec; [specialize (R7 eq_refl Hex); unfold p in R7; lra|lra].
    - rewrite (alloc_del_none r0 (Some c)) by (rewrite R5; reflexivity). exact R6.
  Qed.

  Lemma filter_filter {X} (f g : X -> bool) l : filter f (filter g l) = filter (fun x => g x && f x) l.
  Proof. induction l as [|x l IH]; simpl; [reflexivity|]. destruct (g x); simpl; [destruct (f x)|]; rewrite IH; reflexivity. Qed.

  Theorem transfer_psc a elim : NoDup (akeys a) -> alloc_nonneg a -> BB (keys_some a) a ->
    let cont := filter (fun c => negb (cmem c elim)) (keys_some a) in
    let r := transfer a elim in
    NoDup (akeys r) /\ alloc_nonneg r /\ BB cont r /\ keys_some r = cont /\
    ((exists d', In d' SS /\ In d' cont) -> cwa a <= cwa r).
  Proof.
    intros Hnd Hnn HB cont r. subst r. rewrite transfer_unfold. fold cont.
    set (rem := filter (fun c => cmem c elim) (keys_some a)).
    assert (Hrem : forall c, In c rem -> ~ In c cont).
    { intros c Hc Hin. apply filter_In in Hc. apply filter_In in Hin. destruct Hc as [_ H1], Hin as [_ H2].
      rewrite H1 in H2. discriminate. }
    assert (Hcont : incl cont (keys_some a)) by (intros x Hx; apply filter_In in Hx; tauto).
    assert (Hgen : forall rem a0, (forall c, In c rem -> ~ In c cont) ->
              NoDup (akeys a0) -> alloc_nonneg a0 -> BB cont a0 -> incl cont (keys_some a0) ->
              let r := fold_left (tstep cont) rem a0 in
              NoDup (akeys r) /\ alloc_nonneg r /\ BB cont r /\
              keys_some r = filter (fun x => negb (cmem x rem)) (keys_some a0) /\
              ((exists d', In d' SS /\ In d' cont) -> cwa a0 <= cwa r)).
    { clear. induction rem as [|c rem IH]; intros a0 Hr Hnd Hnn HB Hk; cbn [fold_left].
      - repeat split; try assumption; [|intros _; lra].
        cbn [cmem negb]. clear. induction (keys_some a0) as [|x l IHl]; simpl; [reflexivity|]. rewrite <- IHl. reflexivity.
      - destruct (tstep_psc cont a0 c (Hr c (or_introl eq_refl)) Hnd Hnn HB Hk) as (T1 & T2 & T3 & T4 & T5).
        destruct (IH (tstep cont a0 c) (fun x Hx => Hr x (or_intror Hx)) T1 T2 T3) as (R1 & R2 & R3 & R4 & R5).
        { rewrite T4. intros x Hx. apply filter_In. split; [apply Hk, Hx|].
          apply negb_true_iff, ceqb_neq. intros ->. exact (Hr x (or_introl eq_refl) Hx). }
        split; [exact R1|]. split; [exact R2|]. split; [exact R3|]. split.
        + rewrite R4, T4, filter_filter. apply filter_ext. intros x. cbn [cmem]. unfold ceqb. rewrite (Pos.eqb_sym x c).
          rewrite negb_orb. reflexivity.
        + intros Hex. specialize (T5 Hex). specialize (R5 Hex). lra. }
    destruct (Hgen rem a Hrem Hnd Hnn (BB_mono _ _ a Hcont HB) Hcont) as (R1 & R2 & R3 & R4 & R5).
    split; [exact R1|]. split; [exact R2|]. split; [exact R3|]. split; [|exact R5].
    rewrite R4. unfold cont. apply filter_ext_in. intros x Hx. f_equal.
    unfold rem. destruct (cmem x elim) eqn:E.
    - apply cmem_In. apply filter_In. split; [exact Hx|exact E].
    - apply cmem_nIn. intros H. apply filter_In in H. destruct H as [_ H]. congruence.
  Qed.

  (* ================================================================ subtracting the quotas of the elected *)
  Definition sumS (el : list (C * Q)) : Q :=
    fold_right (fun ca acc => (if cmem (fst ca) SS then snd ca else 0) + acc) 0 el.

  Lemma gregory_subtract_in p amt p' b w : gregory_subtract p amt = Some p' -> In (b, w) p' -> exists w1, In (b, w1) p.
  Proof.
    unfold gregory_subtract. destruct (Qeq_bool (pile_sum p) 0); [discriminate|].
    destruct (Qle_bool (pile_sum p) amt); [intros [= <-] []|].
    intros [= <-] Hin. apply in_map_iff in Hin. destruct Hin as ([b1 w1] & Heq & Hin). injection Heq as -> _.
    exists w1. exact Hin.
  Qed.

  Lemma replace_get_other (a : alloc) c p' c0 : c0 <> c ->
    alloc_get (map (fun kp : option C * pile => if okey_eqb (Some c) (fst kp) then (fst kp, p') else kp) a) (Some c0)
    = alloc_get a (Some c0).
  Proof.
    intros Hne. induction a as [|[k q] a IHa]; cbn -[okey_eqb]; [reflexivity|].
    destruct (okey_eqb (Some c) k) eqn:E; cbn -[okey_eqb].
    - apply okey_eqb_eq in E. subst k.
      assert (okey_eqb (Some c0) (Some c) = false) as -> by (apply not_true_iff_false; rewrite okey_eqb_eq; congruence).
      exact IHa.
    - destruct (okey_eqb (Some c0) k); [reflexivity|exact IHa].
  Qed.

  Lemma replace_nonneg (a : alloc) c p' : alloc_nonneg a -> pile_nonneg p' ->
    alloc_nonneg (map (fun kp : option C * pile => if okey_eqb (Some c) (fst kp) then (fst kp, p') else kp) a).
  Proof.
    unfold alloc_nonneg. intros Ha Hp'. induction Ha as [|[k q0] a Hq Ha IHa]; cbn -[okey_eqb]; [constructor|].
    constructor; [|exact IHa]. destruct (okey_eqb (Some c) k); simpl; assumption.
  Qed.

  Theorem subtract_psc K elected : forall a a', NoDup (akeys a) -> alloc_nonneg a ->
    (forall c amt, In (c, amt) elected -> 0 <= amt) ->
    NoDup (map fst elected) ->
    (forall c amt p, In (c, amt) elected -> alloc_get a (Some c) = Some p -> amt <= wsum p) ->
    BB K a ->
    subtract a elected = Some a' ->
    cwa a - sumS elected <= cwa a' /\ BB K a'.
  Proof.
    induction elected as [|[c amt] t IH]; intros a a' Hnd Hnn Hpos Hd Hle HB; simpl.
    - intros [= <-]. split; [lra|exact HB].
    - destruct (alloc_get a (Some c)) as [p|] eqn:Eg; [|discriminate].
      destruct (gregory_subtract p amt) as [p'|] eqn:Es; [|discriminate]. intros Hsub.
      destruct (replace_pile_sum a c p p' Hnd Eg) as [_ H2].
      pose proof (cwa_replace a c p p' Hnd Eg) as H1.
      set (a1 := map (fun kp : option C * pile => if okey_eqb (Some c) (fst kp) then (fst kp, p') else kp) a) in *.
      inversion Hd as [|? ? Hc Hd']; subst.
      pose proof (alloc_get_nonneg a _ p Hnn Eg) as Hp.
      pose proof (gregory_subtract_nonneg p amt p' Hp (Hpos c amt (or_introl eq_refl)) Es) as Hp'.
      destruct (IH a1 a') as [H3 H4].
      + unfold akeys in *. rewrite H2. exact Hnd.
      + apply replace_nonneg; assumption.
      + intros c0 amt0 Hin. apply (Hpos c0). right. exact Hin.
      + exact Hd'.
      + intros c0 amt0 p0 Hin Hg0. apply (Hle c0 amt0 p0); [right; exact Hin|].
        unfold a1 in Hg0. rewrite replace_get_other in Hg0; [exact Hg0|].
        intros ->. apply Hc. apply in_map_iff. exists (c, amt0). split; [reflexivity|exact Hin].
      + intros c0 p0 b w Hin Hb Hs. unfold a1 in Hin. apply in_map_iff in Hin. destruct Hin as ([k pk] & Heq & Hin).
        cbn -[okey_eqb] in Heq. destruct (okey_eqb (Some c) k) eqn:E.
        * apply okey_eqb_eq in E. subst k. injection Heq as <- <-.
          destruct (gregory_subtract_in p amt p' b w Es Hb) as (w1 & Hw1).
          apply (HB c p b w1); [apply alloc_get_in, Eg|exact Hw1|exact Hs].
        * injection Heq as -> ->. apply (HB c0 p0 b w Hin Hb Hs).
      + exact Hsub.
      + split; [|exact H4].
        pose proof (cwp_gregory p amt p' Hp (Hpos c amt (or_introl eq_refl)) (Hle c amt p (or_introl eq_refl) Eg) Es) as Hg.
        cbn [fst snd]. destruct (cmem c SS); lra.
  Qed.

  (* ================================================================ counting members of SS *)
  Definition cnt (l : list C) : nat := length (filter (fun c => cmem c SS) l).

  Lemma cnt_app l1 l2 : cnt (l1 ++ l2) = (cnt l1 + cnt l2)%nat.
  Proof. unfold cnt. rewrite filter_app, app_length. reflexivity. Qed.

  Lemma filter_partition_length {X} (f : X -> bool) (l : list X) :
    (length (filter f l) + length (filter (fun c => negb (f c)) l) = length l)%nat.
  Proof. induction l as [|x l IH]; simpl; [reflexivity|]. destruct (f x); simpl; lia. Qed.

  Lemma cnt_split l e : NoDup l -> NoDup e -> incl e l ->
    (cnt (filter (fun c => negb (cmem c e)) l) + cnt e = cnt l)%nat.
  Proof.
    intros Hl He Hi. unfold cnt.
    pose proof (filter_partition_length (fun c => cmem c e) (filter (fun c => cmem c SS) l)) as G1.
    cbv beta in G1.
    assert (G2 : length (filter (fun c => cmem c e) (filter (fun c => cmem c SS) l)) = length (filter (fun c => cmem c SS) e)).
    { apply Nat.le_antisymm; apply NoDup_incl_length.
      - apply NoDup_filter_c, NoDup_filter_c, Hl.
      - intros x Hx. apply filter_In in Hx. destruct Hx as [Hx H1]. apply filter_In in Hx. destruct Hx as [_ H2].
        apply filter_In. split; [apply cmem_In, H1|exact H2].
      - apply NoDup_filter_c, He.
      - intros x Hx. apply filter_In in Hx. destruct Hx as [H1 H2]. apply filter_In. split; [|apply cmem_In, H1].
        apply filter_In. split; [apply Hi, H1|exact H2]. }
    rewrite (filter_filter (fun c => cmem c SS) (fun c => negb (cmem c e)) l).
    rewrite (filter_filter (fun c => negb (cmem c e)) (fun c => cmem c SS) l) in G1.
    rewrite (filter_ext (fun x => negb (cmem x e) && cmem x SS) (fun x => cmem x SS && negb (cmem x e))) by (intros x; apply andb_comm).
    lia.
  Qed.

  (* ---- seats *)
  Lemma dset_new_keys (d : list (C * Z)) c v : ~ In c (map fst d) -> map fst (dset d c v) = map fst d ++ [c].
  Proof.
    induction d as [|[k x] d IH]; simpl; [reflexivity|]. intros H.
    destruct (ceqb c k) eqn:E; [apply ceqb_eq in E; subst; exfalso; apply H; left; reflexivity|].
    simpl. rewrite IH; [reflexivity|]. intros H1. apply H. right. exact H1.
  Qed.

  Lemma add_seats_keys el : forall seats, NoDup (map fst el) ->
    (forall c, In c (map fst el) -> ~ In c (map fst seats)) ->
    map fst (add_seats seats el) = map fst seats ++ map fst el.
  Proof.
    unfold add_seats. induction el as [|[c s] el IH]; intros seats Hnd Hd; simpl; [rewrite app_nil_r; reflexivity|].
    inversion Hnd as [|? ? Hc Hnd']; subst.
    assert (Hk : map fst (dset seats c (dget_or seats c 0 + s)%Z) = map fst seats ++ [c]).
    { apply dset_new_keys. apply Hd. left. reflexivity. }
    rewrite IH; [rewrite Hk, <- app_assoc; reflexivity|exact Hnd'|].
    intros x Hx. rewrite Hk. intros Hin. apply in_app_or in Hin. destruct Hin as [Hin|[<-|[]]].
    - apply (Hd x); [right; exact Hx|exact Hin].
    - exact (Hc Hx).
  Qed.

  Lemma dget_or_notin (seats : list (C * Z)) c : ~ In c (map fst seats) -> dget_or seats c 0%Z = 0%Z.
  Proof.
    unfold dget_or. induction seats as [|[k v] t IH]; simpl; [reflexivity|]. intros H.
    destruct (ceqb c k) eqn:E; [apply ceqb_eq in E; subst; exfalso; apply H; left; reflexivity|].
    apply IH. intros H1. apply H. right. exact H1.
  Qed.

  Lemma dset_new (d : list (C * Z)) c v : ~ In c (map fst d) -> dset d c v = d ++ [(c, v)].
  Proof.
    induction d as [|[k x] d IH]; simpl; [reflexivity|]. intros H.
    destruct (ceqb c k) eqn:E; [apply ceqb_eq in E; subst; exfalso; apply H; left; reflexivity|].
    rewrite IH; [reflexivity|]. intros H1. apply H. right. exact H1.
  Qed.

  (* new seats of new candidates are appended *)
  Lemma add_seats_app el : forall seats, NoDup (map fst el) ->
    (forall c, In c (map fst el) -> ~ In c (map fst seats)) ->
    add_seats seats el = seats ++ el.
  Proof.
    unfold add_seats. induction el as [|[c s] el IH]; intros seats Hnd Hd; simpl; [rewrite app_nil_r; reflexivity|].
    inversion Hnd as [|? ? Hc Hnd']; subst.
    assert (Hn : ~ In c (map fst seats)) by (apply Hd; left; reflexivity).
    rewrite (dset_new seats c _ Hn), (dget_or_notin seats c Hn). change (0 + s)%Z with s.
    rewrite IH; [rewrite <- app_assoc; reflexivity|exact Hnd'|].
    intros x Hx. rewrite map_app. intros Hin. apply in_app_or in Hin. destruct Hin as [Hin|[<-|[]]].
    - apply (Hd x); [right; exact Hx|exact Hin].
    - exact (Hc Hx).
  Qed.

  (* ---- when nobody holds a quota, the coalition's resting weight is below one quota per continuing member *)
  Lemma cnt_cons c l : cnt (c :: l) = if cmem c SS then S (cnt l) else cnt l.
  Proof. unfold cnt. cbn [filter]. destruct (cmem c SS); reflexivity. Qed.

  Lemma inject_succ_mul (m : nat) (q : Q) : inject_Z (Z.of_nat (S m)) * q == inject_Z (Z.of_nat m) * q + q.
  Proof. rewrite Nat2Z.inj_succ. unfold Z.succ. rewrite inject_Z_plus. change (inject_Z 1) with 1. ring. Qed.

  Lemma cwa_lt_quota a q : alloc_nonneg a -> 0 < q -> (forall c p, In (Some c, p) a -> wsum p < q) ->
    cwa a <= inject_Z (Z.of_nat (cnt (keys_some a))) * q /\
    ((0 < cnt (keys_some a))%nat -> cwa a < inject_Z (Z.of_nat (cnt (keys_some a))) * q).
  Proof.
    intros Hnn Hq. induction a as [|[k p] a IH]; intros Hlt.
    - change (cnt (keys_some [])) with 0%nat. change (inject_Z (Z.of_nat 0)) with 0. cbn [cwa fold_right].
      split; [lra|intros H; inversion H].
    - inversion Hnn as [|? ? Hp Hnn']; subst. simpl in Hp.
      destruct (IH Hnn') as [I1 I2]; [intros c0 p0 H; apply (Hlt c0 p0); right; exact H|].
      cbn [cwa fold_right fst snd]. fold (cwa a).
      destruct k as [c|]; cbn [inS].
      + change (keys_some ((Some c, p) :: a)) with (c :: keys_some a). rewrite cnt_cons.
        destruct (cmem c SS) eqn:Ec.
        * rewrite inject_succ_mul.
          destruct (cwp_bounds p Hp) as [C0 C1]. pose proof (Hlt c p (or_introl eq_refl)) as Hw.
          split; [lra|intros _; lra].
        * split; [lra|]. intros H. specialize (I2 H). lra.
      + change (keys_some ((None, p) :: a)) with (keys_some a). split; [lra|]. intros H. specialize (I2 H). lra.
  Qed.

  Lemma sumS_amounts (el : list (C * Z)) (q : Q) : (forall c s, In (c, s) el -> s = 1%Z) ->
    sumS (map (fun cs : C * Z => (fst cs, inject_Z (snd cs) * q)) el) == inject_Z (Z.of_nat (cnt (map fst el))) * q.
  Proof.
    induction el as [|[c s] el IH]; intros H1; simpl; [ring|].
    rewrite IH by (intros c0 s0 H; apply (H1 c0 s0); right; exact H).
    rewrite (H1 c s (or_introl eq_refl)). cbn [fst]. rewrite cnt_cons. destruct (cmem c SS); [|ring].
    rewrite inject_succ_mul. change (inject_Z 1) with 1. ring.
  Qed.

  (* ================================================================ the election rule in the selector form *)
  Lemma flat_map_nil {X Y} (f : X -> list Y) l : flat_map f l = [] -> forall x, In x l -> f x = [].
  Proof.
    induction l as [|y l IH]; simpl; [intros _ x []|]. intros H x [->|Hx].
    - destruct (f x); [reflexivity|discriminate].
    - apply IH; [|exact Hx]. destruct (f y); [exact H|discriminate].
  Qed.

  Lemma totals_key_some a c t : In (Some c, t) (totals a) -> In c (keys_some a).
  Proof.
    intros H. apply keys_some_akeys. rewrite <- totals_keys. apply in_map_iff. exists (Some c, t). split; [reflexivity|exact H].
  Qed.

  (* nobody elected: every continuing candidate holds less than the quota *)
  Lemma ebq_none cf q a n_rem prev caps : c_accept_equal cf = true -> 0 < q ->
    (forall c, In c (keys_some a) -> dget caps c = Some 1%Z /\ dget_or prev c 0%Z = 0%Z) ->
    elect_by_quota cf (totals a) (Some q) n_rem prev caps = inl None ->
    forall c t, In (Some c, t) (totals a) -> t < q.
  Proof.
    intros Hae Hq Hcap. unfold elect_by_quota.
    set (items := sort_desc Qle_bool (map (fun kt : option C * Q => (fst kt, snd kt)) (totals a))).
    assert (Hitems : Permutation items (totals a)).
    { unfold items. rewrite map_ext with (g := fun x => x) by (intros [x y]; reflexivity). rewrite map_id.
      apply sort_desc_perm. }
    match goal with |- context [flat_map ?f items] => set (f0 := f) end.
    destruct (flat_map f0 items) as [|s0 sel'] eqn:Esel.
    - intros _ c t Hin. apply (Permutation_in _ (Permutation_sym Hitems)) in Hin.
      pose proof (flat_map_nil f0 items Esel _ Hin) as Hf. unfold f0 in Hf. cbn [fst snd] in Hf.
      destruct (Hcap c (totals_key_some a c t (Permutation_in _ Hitems Hin))) as [Hc1 Hc2].
      rewrite Hae, Hc1, Hc2 in Hf. cbn [orb] in Hf.
      destruct (Qlt_le_dec t q) as [Hlt|Hle]; [exact Hlt|exfalso].
      pose proof (qfloor_div_big t q Hq Hle) as Hm.
      rewrite Z.min_r in Hf by lia. cbn in Hf. discriminate.
    - match goal with |- context [if ?c then _ else _] => destruct c end; [|discriminate].
      match goal with |- context [if ?c then _ else _] => destruct c end; discriminate.
  Qed.

  (* whoever is elected gets exactly one seat *)
  Lemma ebq_cap1 cf q a n_rem prev caps el : (forall c, In c (keys_some a) -> dget caps c = Some 1%Z) ->
    (forall c, (0 <= dget_or prev c 0)%Z) ->
    elect_by_quota cf (totals a) (Some q) n_rem prev caps = inl (Some el) ->
    forall c s, In (c, s) el -> (s <= 1)%Z.
  Proof.
    intros Hcap Hprev. unfold elect_by_quota.
    set (items := sort_desc Qle_bool (map (fun kt : option C * Q => (fst kt, snd kt)) (totals a))).
    assert (Hitems : Permutation items (totals a)).
    { unfold items. rewrite map_ext with (g := fun x => x) by (intros [x y]; reflexivity). rewrite map_id.
      apply sort_desc_perm. }
    match goal with |- context [flat_map ?f items] => set (f0 := f) end.
    set (sel := flat_map f0 items).
    assert (Hsel : forall c act ov, In (c, act, ov) sel -> (act <= 1)%Z).
    { intros c act ov Hin. unfold sel in Hin. apply in_flat_map in Hin. destruct Hin as ([k t] & Hk & Hin).
      unfold f0 in Hin. cbn [fst snd] in Hin. destruct k as [c0|]; [|destruct Hin].
      destruct (c_accept_equal cf || negb (Qeq_bool _ 0)); [|destruct Hin].
      rewrite (Hcap c0 (totals_key_some a c0 t (Permutation_in _ Hitems Hk))) in Hin.
      destruct (0 <? _)%Z; [|destruct Hin]. destruct Hin as [Hin|[]]. injection Hin as <- <- _.
      pose proof (Hprev c0). lia. }
    destruct sel as [|s0 sel'] eqn:Esel; [discriminate|]. rewrite <- Esel in *. clear Esel s0 sel'.
    set (awarded := map (fun x : C * Z * Q => (fst (fst x), snd (fst x))) sel).
    assert (Haw : forall c s, In (c, s) awarded -> (s <= 1)%Z).
    { intros c s Hin. unfold awarded in Hin. apply in_map_iff in Hin. destruct Hin as ([[c0 s0] ov] & Heq & Hin).
      simpl in Heq. injection Heq as -> ->. exact (Hsel _ _ _ Hin). }
    destruct (n_rem <? zsum (map snd awarded))%Z.
    - destruct (existsb _ _); [discriminate|]. intros [= <-] c s Hin.
      apply in_flat_map in Hin. destruct Hin as ([c0 s0] & Hin0 & Hin). cbn [fst snd] in Hin.
      pose proof (Haw c0 s0 Hin0). destruct (cmem c0 _).
      + destruct Hin as [Heq|[]]. injection Heq as <- <-. assumption.
      + destruct (1 <? s0)%Z; [|destruct Hin]. destruct Hin as [Heq|[]]. injection Heq as <- <-. lia.
    - intros [= <-]. exact Haw.
  Qed.

  Lemma keys_some_of_akeys a b : akeys a = akeys b -> keys_some a = keys_some b.
  Proof.
    unfold akeys, keys_some. revert b. induction a as [|[k p] a IH]; intros [|[k' p'] b]; simpl; try discriminate; [reflexivity|].
    intros [= -> H]. rewrite (IH b H). reflexivity.
  Qed.

  Lemma keys_some_nodup a : NoDup (akeys a) -> NoDup (keys_some a).
  Proof.
    induction a as [|[k p] a IH]; intros H; [constructor|]. unfold akeys in H. simpl in H. inversion H as [|? ? Hk Hn]; subst.
    destruct k as [c|].
    - change (keys_some ((Some c, p) :: a)) with (c :: keys_some a). constructor; [|apply IH, Hn].
      intros Hin. apply Hk. apply keys_some_akeys in Hin. exact Hin.
    - change (keys_some ((None, p) :: a)) with (keys_some a). apply IH, Hn.
  Qed.

  Lemma cnt_le_length l : (cnt l <= length l)%nat.
  Proof. unfold cnt. induction l as [|x l IH]; simpl; [lia|]. destruct (cmem x SS); simpl; lia. Qed.

  Lemma cnt_pos_ex l : (0 < cnt l)%nat -> exists e, In e l /\ In e SS.
  Proof.
    unfold cnt. destruct (filter (fun c => cmem c SS) l) as [|e t] eqn:E; simpl; [lia|]. intros _.
    assert (H : In e (filter (fun c => cmem c SS) l)) by (rewrite E; left; reflexivity).
    apply filter_In in H. exists e. split; [tauto|apply cmem_In; tauto].
  Qed.

  Lemma ex_cnt_pos l e : In e l -> In e SS -> (0 < cnt l)%nat.
  Proof.
    intros H1 H2. unfold cnt. assert (H : In e (filter (fun c => cmem c SS) l)) by (apply filter_In; split; [exact H1|apply cmem_In, H2]).
    destruct (filter (fun c => cmem c SS) l); [destruct H|simpl; lia].
  Qed.

  (* ================================================================ the invariant of the count loop *)
  Section RUNPSC.
    Variable cf : cfg.
    Hypothesis Hae : c_accept_equal cf = true.
    Hypothesis Hstep : c_step cf = (-1)%Z.
    Variable qf : Q -> Z -> Q.
    Hypothesis Hqf : c_quota cf = Some qf.
    Variable n : Z.
    Variable total : Q.
    Hypothesis Htot : Qeq_bool total 0 = false.
    Hypothesis Hn0 : (n =? 0)%Z = false.
    Let q := qf total n.
    Hypothesis Hq : 0 < q.
    Variable caps : list (C * Z).
    Variable k : nat.

    Record Inv (a : alloc) (seats : list (C * Z)) : Prop := {
      i_nd : NoDup (akeys a);
      i_nn : alloc_nonneg a;
      i_caps : forall c, In c (keys_some a) -> dget caps c = Some 1%Z;
      i_disj : forall c, In c (keys_some a) -> ~ In c (map fst seats);
      i_sn : forall c, (0 <= dget_or seats c 0)%Z;
      i_one : forall c s, In (c, s) seats -> s = 1%Z;
      i_ndk : NoDup (map fst seats);
      i_cons : asum a + inject_Z (zsum (map snd seats)) * q <= total;
      i_B : BB (keys_some a) a;
      i_C : (exists c, In c SS /\ In c (keys_some a)) ->
            inject_Z (Z.of_nat k) * q <= cwa a + inject_Z (Z.of_nat (cnt (map fst seats))) * q;
      i_I2 : (Nat.min k (length SS) <= cnt (map fst seats) + cnt (keys_some a))%nat
    }.

    Lemma quota_is : quota_of cf total n = Some q.
    Proof. unfold quota_of. rewrite Hqf, Htot, Hn0. reflexivity. Qed.

    (* a count that elects: the elected (one seat each) are removed, their surplus transferred *)
    Lemma step_elect a seats el0 a1 : Inv a seats ->
      (forall c s, In (c, s) el0 -> s = 1%Z /\ exists p, alloc_get a (Some c) = Some p /\ inject_Z s * q <= wsum p) ->
      NoDup (map fst el0) ->
      subtract a (map (fun cs : C * Z => (fst cs, inject_Z (snd cs) * q)) el0) = Some a1 ->
      asum (transfer a1 (map fst el0)) + inject_Z (seats_sum el0) * q == asum a ->
      Inv (transfer a1 (map fst el0)) (add_seats seats el0).
    Proof.
      intros I Hel Hnd Hsub Hcons. destruct I as [I1 I2 I3 I4 I5 Io Ik I6 I7 I8 I9].
      set (amts := map (fun cs : C * Z => (fst cs, inject_Z (snd cs) * q)) el0) in *.
      assert (Hamt : forall c amt, In (c, amt) amts -> exists s, In (c, s) el0 /\ amt = inject_Z s * q).
      { intros c amt Hin. unfold amts in Hin. apply in_map_iff in Hin. destruct Hin as ([c0 s0] & Heq & Hin).
        injection Heq as <- <-. exists s0. split; [exact Hin|reflexivity]. }
      assert (Hpos : forall c amt, In (c, amt) amts -> 0 <= amt).
      { intros c amt Hin. destruct (Hamt c amt Hin) as (s & Hs & ->). destruct (Hel c s Hs) as [-> _].
        change (inject_Z 1) with 1. lra. }
      assert (Hndk : NoDup (map fst amts)) by (unfold amts; rewrite map_map; exact Hnd).
      assert (Hle : forall c amt p, In (c, amt) amts -> alloc_get a (Some c) = Some p -> amt <= wsum p).
      { intros c amt p Hin Hg. destruct (Hamt c amt Hin) as (s & Hs & ->). destruct (Hel c s Hs) as (_ & p0 & Hg0 & Hw).
        rewrite Hg in Hg0. injection Hg0 as <-. exact Hw. }
      destruct (subtract_psc (keys_some a) amts a a1 I1 I2 Hpos Hndk Hle I7 Hsub) as [S1 S2].
      destruct (subtract_conserves amts a a1 I1 Hpos Hndk Hle Hsub) as [_ S3].
      pose proof (subtract_nonneg amts a a1 I2 Hpos Hsub) as S4.
      pose proof (keys_some_of_akeys a1 a S3) as S5.
      assert (S6 : NoDup (akeys a1)) by (rewrite S3; exact I1).
      assert (HsumS : sumS amts == inject_Z (Z.of_nat (cnt (map fst el0))) * q).
      { apply sumS_amounts. intros c s Hin. apply (Hel c s Hin). }
      set (E := map fst el0) in *.
      assert (HE : incl E (keys_some a)).
      { intros c Hc. unfold E in Hc. apply in_map_iff in Hc. destruct Hc as ([c0 s0] & <- & Hin).
        destruct (Hel c0 s0 Hin) as (_ & p & Hg & _). apply keys_some_akeys. unfold akeys. apply in_map_iff.
        exists (Some c0, p). split; [reflexivity|apply alloc_get_in, Hg]. }
      assert (S7 : BB (keys_some a1) a1) by (rewrite S5; exact S2).
      destruct (transfer_psc a1 E S6 S4 S7) as (R1 & R2 & R3 & R4 & R5).
      rewrite S5 in R3, R4, R5. set (cont := filter (fun c => negb (cmem c E)) (keys_some a)) in *.
      set (a' := transfer a1 E) in *.
      assert (Hcont : incl cont (keys_some a)) by (intros x Hx; apply filter_In in Hx; tauto).
      assert (Hkeys : map fst (add_seats seats el0) = map fst seats ++ E).
      { apply add_seats_keys; [exact Hnd|]. intros c Hc. apply I4, HE, Hc. }
      constructor.
      - exact R1.
      - exact R2.
      - intros c Hc. rewrite R4 in Hc. apply I3, Hcont, Hc.
      - intros c Hc. rewrite R4 in Hc. rewrite Hkeys. intros Hin. apply in_app_or in Hin. destruct Hin as [Hin|Hin].
        + exact (I4 c (Hcont c Hc) Hin).
        + apply filter_In in Hc. destruct Hc as [_ Hc]. apply negb_true_iff, cmem_nIn in Hc. exact (Hc Hin).
      - apply add_seats_nonneg; [exact I5|]. intros c s Hin. destruct (Hel c s Hin) as [-> _]. lia.
      - intros c s Hin. rewrite add_seats_app in Hin; [|exact Hnd|intros c0 Hc0; apply I4, HE, Hc0].
        apply in_app_or in Hin. destruct Hin as [Hin|Hin]; [exact (Io c s Hin)|exact (proj1 (Hel c s Hin))].
      - rewrite Hkeys. apply Threshold_proofs.nodup_app_intro; [exact Ik|exact Hnd|].
        intros x Hx Hxe. exact (I4 x (HE x Hxe) Hx).
      - rewrite add_seats_sum, inject_Z_plus. lra.
      - rewrite R4. exact R3.
      - rewrite R4. intros (c & Hc1 & Hc2). rewrite Hkeys, cnt_app, Nat2Z.inj_add, inject_Z_plus.
        assert (Hex : exists c, In c SS /\ In c (keys_some a)) by (exists c; split; [exact Hc1|apply Hcont, Hc2]).
        specialize (I8 Hex). assert (Hex' : exists d', In d' SS /\ In d' cont) by (exists c; tauto).
        specialize (R5 Hex'). lra.
      - rewrite R4, Hkeys, cnt_app.
        pose proof (cnt_split (keys_some a) E (keys_some_nodup a I1) Hnd HE) as Hs. fold cont in Hs. lia.
    Qed.

    (* a count that eliminates (at most one candidate, nobody holding a quota) *)
    Lemma step_elim a seats elim : Inv a seats ->
      (forall c p, In (Some c, p) a -> wsum p < q) ->
      incl elim (keys_some a) -> NoDup elim -> (length elim <= 1)%nat ->
      Inv (transfer a elim) seats.
    Proof.
      intros I Hlt HE Hnd Hlen. destruct I as [I1 I2 I3 I4 I5 Io Ik I6 I7 I8 I9].
      destruct (transfer_psc a elim I1 I2 I7) as (R1 & R2 & R3 & R4 & R5).
      destruct (transfer_conserves a elim I1) as [T1 _].
      set (cont := filter (fun c => negb (cmem c elim)) (keys_some a)) in *.
      assert (Hcont : incl cont (keys_some a)) by (intros x Hx; apply filter_In in Hx; tauto).
      pose proof (cnt_split (keys_some a) elim (keys_some_nodup a I1) Hnd HE) as Hs. fold cont in Hs.
      constructor.
      - exact R1.
      - exact R2.
      - intros c Hc. rewrite R4 in Hc. apply I3, Hcont, Hc.
      - intros c Hc. rewrite R4 in Hc. apply I4, Hcont, Hc.
      - exact I5.
      - exact Io.
      - exact Ik.
      - rewrite T1. exact I6.
      - rewrite R4. exact R3.
      - rewrite R4. intros (c & Hc1 & Hc2).
        assert (Hex : exists c, In c SS /\ In c (keys_some a)) by (exists c; split; [exact Hc1|apply Hcont, Hc2]).
        specialize (I8 Hex). assert (Hex' : exists d', In d' SS /\ In d' cont) by (exists c; tauto).
        specialize (R5 Hex'). lra.
      - rewrite R4. pose proof (cnt_le_length elim) as Hc.
        destruct (Nat.eq_dec (cnt elim) 0) as [H0|H0]; [lia|].
        (* a member of SS is eliminated: the coalition holds less than one quota per continuing member *)
        assert (Hpos : (0 < cnt elim)%nat) by lia.
        destruct (cnt_pos_ex elim Hpos) as (e & He1 & He2).
        assert (Hm : (0 < cnt (keys_some a))%nat) by (apply (ex_cnt_pos _ e); [apply HE, He1|exact He2]).
        assert (Hex : exists c, In c SS /\ In c (keys_some a)) by (exists e; split; [exact He2|apply HE, He1]).
        specialize (I8 Hex).
        destruct (cwa_lt_quota a q I2 Hq Hlt) as [_ Hc2]. specialize (Hc2 Hm).
        assert (Hk : (k < cnt (keys_some a) + cnt (map fst seats))%nat).
        { destruct (le_lt_dec (cnt (keys_some a) + cnt (map fst seats)) k) as [Hge|Hl]; [exfalso|exact Hl].
          assert (Hz : (Z.of_nat (cnt (keys_some a)) + Z.of_nat (cnt (map fst seats)) <= Z.of_nat k)%Z) by lia.
          rewrite Zle_Qle, inject_Z_plus in Hz.
          assert (Hmul : (inject_Z (Z.of_nat (cnt (keys_some a))) + inject_Z (Z.of_nat (cnt (map fst seats)))) * q
                         <= inject_Z (Z.of_nat k) * q) by (apply Qmult_le_compat_r; [exact Hz|lra]).
          lra. }
        lia.
    Qed.

    Lemma elim_map_fst seats (el0 : list (C * Z)) :
      (forall c s, In (c, s) el0 -> dget caps c = Some 1%Z /\ (1 <= s)%Z /\ (0 <= dget_or seats c 0)%Z) ->
      flat_map (fun cs : C * Z => match dget caps (fst cs) with
                                  | Some m => if (m <=? snd cs + dget_or seats (fst cs) 0)%Z then [fst cs] else []
                                  | None => [] end) el0 = map fst el0.
    Proof.
      induction el0 as [|[c s] el0 IH]; intros H; [reflexivity|]. cbn [flat_map map fst snd].
      destruct (H c s (or_introl eq_refl)) as (H1 & H2 & H3). rewrite H1.
      assert ((1 <=? s + dget_or seats c 0)%Z = true) as -> by (apply Z.leb_le; lia).
      cbn [app]. f_equal. apply IH. intros c0 s0 Hin. apply H. right. exact Hin.
    Qed.

    Lemma in_play_keys a : map fst (in_play a) = keys_some a.
    Proof.
      unfold in_play, some_totals, totals, keys_some. induction a as [|[k0 p] a IH]; [reflexivity|].
      cbn [map flat_map fst snd]. rewrite map_app, IH. destruct k0; reflexivity.
    Qed.

    Lemma totals_of_pile a c p : In (Some c, p) a -> In (Some c, pile_sum p) (totals a).
    Proof. intros H. unfold totals. apply in_map_iff. exists (Some c, p). split; [reflexivity|exact H]. Qed.

    (* the invariant survives every count *)
    Theorem next_count_psc a seats a' el : Inv a seats ->
      next_count cf a n total seats caps = CR_next a' el -> Inv a' (add_seats seats el).
    Proof.
      intros I Hn.
      destruct (next_count_conserves cf a n total seats caps a' el (i_nd _ _ I) (i_sn _ _ I)) as (N1 & N2 & N3);
        [intros qv Hqv; rewrite quota_is in Hqv; injection Hqv as <-; exact Hq|exact Hn|].
      rewrite quota_is in N3. revert Hn. unfold next_count. cbv zeta.
      destruct (negb _ && _ && _); [discriminate|].
      rewrite Hqf, Htot, Hn0. cbn [orb]. fold q.
      destruct (elect_by_quota cf (totals a) (Some q) _ seats caps) as [[el0|]|s] eqn:Ee; [| |discriminate].
      - destruct (subtract a _) as [a1|] eqn:Es; [|discriminate].
        destruct (elect_by_quota_sound cf q Hq a _ seats caps el0 (i_nd _ _ I) (i_sn _ _ I) Ee) as [Hk Hs].
        pose proof (ebq_cap1 cf q a _ seats caps el0 (i_caps _ _ I) (i_sn _ _ I) Ee) as Hc1.
        assert (Hel : forall c s, In (c, s) el0 -> s = 1%Z /\ exists p, alloc_get a (Some c) = Some p /\ inject_Z s * q <= wsum p).
        { intros c s Hin. destruct (Hs c s Hin) as [Hp Hex]. pose proof (Hc1 c s Hin). split; [lia|exact Hex]. }
        rewrite (elim_map_fst seats el0).
        2:{ intros c s Hin. destruct (Hel c s Hin) as (-> & p & Hg & _). split; [|split; [lia|apply (i_sn _ _ I)]].
            apply (i_caps _ _ I). apply keys_some_akeys. unfold akeys. apply in_map_iff. exists (Some c, p).
            split; [reflexivity|apply alloc_get_in, Hg]. }
        destruct el0 as [|e0 r0].
        + cbn [map]. cbn [subtract map] in Es. injection Es as <-. intros [= <- <-]. exact I.
        + cbn [map]. intros [= <- <-]. apply (step_elect a seats (e0 :: r0) a1 I Hel Hk Es). exact N3.
      - destruct (existsb _ _) eqn:Etie; [discriminate|].
        match goal with |- context [transfer a ?e] => set (elim := e) end.
        assert (Hdef : elim = eliminated cf a) by reflexivity.
        assert (Hlt : forall c p, In (Some c, p) a -> wsum p < q).
        { intros c p Hin. rewrite <- pile_sum_wsum.
          apply (ebq_none cf q a (n - zsum (map snd seats))%Z seats caps Hae Hq) with (c := c); [|exact Ee|apply totals_of_pile, Hin].
          intros c0 Hc0. split; [apply (i_caps _ _ I), Hc0|apply dget_or_notin, (i_disj _ _ I), Hc0]. }
        assert (HE : incl elim (keys_some a)).
        { rewrite Hdef. unfold eliminated. rewrite in_play_keys. intros x Hx. apply filter_In in Hx. tauto. }
        assert (Hnde : NoDup elim).
        { rewrite Hdef. unfold eliminated. rewrite in_play_keys. apply NoDup_filter_c, keys_some_nodup, (i_nd _ _ I). }
        assert (Hlen : (length elim <= 1)%nat).
        { rewrite Hdef. destruct (in_play a) as [|x0 l0] eqn:Eip.
          - unfold eliminated. rewrite Eip. simpl. lia.
          - assert (Hm : (1 <= length (in_play a))%nat) by (rewrite Eip; simpl; lia).
            assert (Hneg : (c_step cf < 0)%Z) by (rewrite Hstep; lia).
            destruct (retained_count_neg cf (length (in_play a)) Hneg Hm) as [Hrc Hd].
            rewrite (eliminated_count cf a); [| |exact Etie|exact Hrc].
            + rewrite Hd. rewrite Hstep. change (Z.to_nat (- -1)) with 1%nat. lia.
            + rewrite in_play_keys. apply keys_some_nodup, (i_nd _ _ I). }
        destruct elim as [|e es] eqn:Eel.
        + intros [= <- <-]. exact I.
        + intros [= <- <-]. apply (step_elim a seats (e :: es) I Hlt HE Hnde Hlen).
    Qed.

    Lemma cnt_perm l l' : Permutation l l' -> cnt l = cnt l'.
    Proof.
      induction 1 as [|x l l' _ IH|x y l|l l' l'' _ IH1 _ IH2]; [reflexivity| | |congruence].
      - rewrite !cnt_cons, IH. reflexivity.
      - rewrite !cnt_cons. destruct (cmem x SS), (cmem y SS); reflexivity.
    Qed.

    Lemma cwa_le_asum a : alloc_nonneg a -> cwa a <= asum a.
    Proof.
      induction 1 as [|[k0 p] a Hp _ IH]; simpl; [lra|]. simpl in Hp. destruct (cwp_bounds p Hp). destruct (inS k0); lra.
    Qed.

    Lemma totals_keys_some a :
      flat_map (fun kt : option C * Q => match fst kt with Some c => [c] | None => [] end) (totals a) = keys_some a.
    Proof.
      unfold totals, keys_some. induction a as [|[k0 p] a0 IH]; [reflexivity|]. cbn [map flat_map fst]. rewrite IH. reflexivity.
    Qed.

    (* the elect-all-remaining shortcut seats every continuing member of SS *)
    Lemma all_psc a seats el : Inv a seats -> next_count cf a n total seats caps = CR_all el ->
      (Nat.min k (length SS) <= cnt (map fst (add_seats seats el)))%nat /\
      (forall c s, In (c, s) (add_seats seats el) -> s = 1%Z) /\ NoDup (map fst (add_seats seats el)).
    Proof.
      intros I. unfold next_count. cbv zeta.
      match goal with |- context [if ?c then CR_all ?av else _] => destruct c; [set (avail := av)|] end.
      - intros [= <-].
        assert (Hk : Permutation (map fst avail) (keys_some a)).
        { unfold avail. set (l := sort_desc Qle_bool (totals a)).
          assert (Hp : Permutation l (totals a)) by apply sort_desc_perm.
          assert (H1 : forall l0 : list (option C * Q),
                    map fst (flat_map (fun kt : option C * Q => match fst kt with
                                        | Some c => [(c, (dget_or caps c 0 - dget_or seats c 0)%Z)]
                                        | None => [] end) l0)
                    = flat_map (fun kt : option C * Q => match fst kt with Some c => [c] | None => [] end) l0).
          { induction l0 as [|[k0 t] l0 IH]; [reflexivity|]. cbn [flat_map fst]. rewrite map_app, IH. destruct k0; reflexivity. }
          rewrite H1.
          rewrite <- (totals_keys_some a). apply Permutation_flat_map, Hp. }
        assert (Hnda : NoDup (map fst avail)) by (apply (Permutation_NoDup (Permutation_sym Hk)), keys_some_nodup, (i_nd _ _ I)).
        assert (Hdis : forall c, In c (map fst avail) -> ~ In c (map fst seats))
          by (intros c Hc; apply (i_disj _ _ I); apply (Permutation_in _ Hk), Hc).
        split; [|split].
        + rewrite add_seats_keys; [|exact Hnda|exact Hdis].
          rewrite cnt_app, (cnt_perm _ _ Hk). exact (i_I2 _ _ I).
        + intros c s Hin. rewrite (add_seats_app avail seats Hnda Hdis) in Hin. apply in_app_or in Hin.
          destruct Hin as [Hin|Hin]; [exact (i_one _ _ I c s Hin)|].
          assert (Hck : In c (keys_some a)) by (apply (Permutation_in _ Hk); apply in_map_iff; exists (c, s); split; [reflexivity|exact Hin]).
          unfold avail in Hin. apply in_flat_map in Hin. destruct Hin as ([k0 t0] & _ & Hin). cbn [fst] in Hin.
          destruct k0 as [c0|]; [|destruct Hin]. destruct Hin as [Hin|[]]. injection Hin as -> <-.
          unfold dget_or at 1. rewrite (i_caps _ _ I c Hck). rewrite (dget_or_notin seats c (i_disj _ _ I c Hck)). reflexivity.
        + rewrite add_seats_keys; [|exact Hnda|exact Hdis].
          apply Threshold_proofs.nodup_app_intro; [exact (i_ndk _ _ I)|exact Hnda|].
          intros x Hx Hxa. exact (Hdis x Hxa Hx).
      - intros H. exfalso. revert H.
        repeat (match goal with |- context [match ?x with _ => _ end] => destruct x end); discriminate.
    Qed.

    (* all seats filled: no quota's worth of votes can be left on the coalition's continuing members *)
    Lemma done_psc a seats : Inv a seats -> zsum (map snd seats) = n -> total < inject_Z (n + 1) * q ->
      (Nat.min k (length SS) <= cnt (map fst seats))%nat.
    Proof.
      intros I Hz Hdroop. destruct I as [I1 I2 I3 I4 I5 Io Ik I6 I7 I8 I9].
      destruct (Nat.eq_dec (cnt (keys_some a)) 0) as [H0|H0]; [lia|].
      assert (Hpos : (0 < cnt (keys_some a))%nat) by lia.
      destruct (cnt_pos_ex _ Hpos) as (e & He1 & He2).
      assert (Hex : exists c, In c SS /\ In c (keys_some a)) by (exists e; tauto).
      specialize (I8 Hex). pose proof (cwa_le_asum a I2) as Hc. rewrite Hz in I6.
      rewrite inject_Z_plus in Hdroop. change (inject_Z 1) with 1 in Hdroop.
      assert (Hk : (k <= cnt (map fst seats))%nat).
      { destruct (le_lt_dec k (cnt (map fst seats))) as [Hl|Hg]; [exact Hl|exfalso].
        assert (Hzz : (Z.of_nat (cnt (map fst seats)) + 1 <= Z.of_nat k)%Z) by lia.
        rewrite Zle_Qle, inject_Z_plus in Hzz. change (inject_Z 1) with 1 in Hzz.
        assert (Hmul : (inject_Z (Z.of_nat (cnt (map fst seats))) + 1) * q <= inject_Z (Z.of_nat k) * q)
          by (apply Qmult_le_compat_r; [exact Hzz|lra]).
        assert (Hexp : (inject_Z (Z.of_nat (cnt (map fst seats))) + 1) * q == inject_Z (Z.of_nat (cnt (map fst seats))) * q + q) by ring.
        assert (Hexp2 : (inject_Z n + 1) * q == inject_Z n * q + q) by ring.
        lra. }
      lia.
    Qed.

    Theorem run_psc fuel : forall a seats acc, Inv a seats -> total < inject_Z (n + 1) * q ->
      t_stop (run cf fuel a n total seats caps acc) = None ->
      (Nat.min k (length SS) <= cnt (map fst (t_seats (run cf fuel a n total seats caps acc))))%nat /\
      (forall c s, In (c, s) (t_seats (run cf fuel a n total seats caps acc)) -> s = 1%Z) /\
      NoDup (map fst (t_seats (run cf fuel a n total seats caps acc))).
    Proof.
      induction fuel as [|f IH]; intros a seats acc I Hd; cbn [run].
      - destruct (zsum (map snd seats) =? n)%Z eqn:E; cbn [t_stop t_seats]; [|discriminate].
        intros _. split; [apply (done_psc a seats I); [apply Z.eqb_eq, E|exact Hd]|split; [exact (i_one _ _ I)|exact (i_ndk _ _ I)]].
      - destruct (zsum (map snd seats) =? n)%Z eqn:E; cbn [t_stop t_seats].
        { intros _. split; [apply (done_psc a seats I); [apply Z.eqb_eq, E|exact Hd]|split; [exact (i_one _ _ I)|exact (i_ndk _ _ I)]]. }
        destruct (next_count cf a n total seats caps) as [el|a' el|s] eqn:En; cbn [t_stop t_seats]; [| |discriminate].
        + intros _. exact (all_psc a seats el I En).
        + pose proof (next_count_psc a seats a' el I En) as I'. destruct el as [|e el'].
          * destruct (alloc_eqb a' a); cbn [t_stop]; [discriminate|]. apply IH; assumption.
          * apply IH; assumption.
    Qed.
  End RUNPSC.

  (* ================================================================ the initial allocation *)
  Lemma cwa_move_nonsolid a tg b w : solid_b SS b = false -> cwa (move_ballot a tg b w) == cwa a.
  Proof.
    intros Hs. assert (H0 : forall x, sw b x = 0) by (intros x; unfold sw; rewrite Hs; reflexivity).
    unfold move_ballot. destruct tg as [|t ts].
    - rewrite cwa_alloc_add. simpl. ring.
    - generalize (Qred (w / inject_Z (Z.of_nat (length (t :: ts))))). intros sh.
      revert a. induction (t :: ts) as [|x xs IH]; intros a; simpl; [reflexivity|].
      rewrite IH, cwa_alloc_add, H0. destruct (inS (Some x)); ring.
  Qed.

  Lemma solid_not_shared l t : SS <> [] -> solid_b SS (IS l :: t) = false.
  Proof.
    intros Hne. destruct (solid_b SS (IS l :: t)) eqn:E; [|reflexivity].
    destruct (solid_b_first SS _ Hne E) as (c & t' & Heq & _). discriminate.
  Qed.
  Lemma solid_not_empty : SS <> [] -> solid_b SS [] = false.
  Proof.
    intros Hne. destruct (solid_b SS []) eqn:E; [|reflexivity].
    destruct (solid_b_first SS _ Hne E) as (c & t' & Heq & _). discriminate.
  Qed.

  Theorem initial_psc (votes : list (ballot * Q)) (K : list C) : SS <> [] ->
    (forall b w, In (b, w) votes -> 0 <= w) ->
    let a0 := initial_allocation votes in
    alloc_nonneg a0 /\ BB K a0 /\ keys_some a0 = all_ranked_candidates votes /\
    cwa a0 == coalition_weight SS votes.
  Proof.
    intros Hne Hw. unfold initial_allocation. set (cands := all_ranked_candidates votes).
    set (base := map (fun c => (Some c, @nil (ballot * Q))) cands).
    assert (Hb : alloc_nonneg base /\ BB K base /\ keys_some base = cands /\ cwa base == 0).
    { unfold base. clear. induction cands as [|c l IH]; [repeat split; [constructor|intros c p b w []]|].
      destruct IH as (I1 & I2 & I3 & I4). cbn [map]. repeat split.
      - constructor; [constructor|exact I1].
      - intros c0 p b w [H|H] Hb; [injection H as _ <-; destruct Hb|exact (I2 c0 p b w H Hb)].
      - change (keys_some ((Some c, []) :: map (fun c0 : C => (Some c0, [])) l)) with (c :: keys_some (map (fun c0 : C => (Some c0, @nil (ballot * Q))) l)).
        rewrite I3. reflexivity.
      - cbn [cwa fold_right fst snd]. fold (cwa (map (fun c0 : C => (Some c0, @nil (ballot * Q))) l)). rewrite I4.
        destruct (inS (Some c)); simpl; ring. }
    assert (Hd : forall (vs : list (ballot * Q)) a0, incl vs votes -> alloc_nonneg a0 -> BB K a0 -> keys_some a0 = cands ->
       let r := fold_left (fun a bw => match fst bw with IP c :: _ => alloc_add a (Some c) (fst bw) (snd bw) | _ => a end) vs a0 in
       alloc_nonneg r /\ BB K r /\ keys_some r = cands /\ cwa r == cwa a0 + coalition_weight SS vs).
    { induction vs as [|[b w] vs IH]; intros a0 Hi Hnn HB Hk; cbv zeta; [simpl; repeat split; try assumption; ring|].
      assert (Hi' : incl vs votes) by (intros x Hx; apply Hi; right; exact Hx).
      assert (Hbw : In (b, w) votes) by (apply Hi; left; reflexivity).
      cbn [fold_left fst snd coalition_weight fold_right]. fold (coalition_weight SS vs).
      destruct b as [|[c|l] t].
      - destruct (IH a0 Hi' Hnn HB Hk) as (R1 & R2 & R3 & R4). repeat split; try assumption.
        rewrite R4, (solid_not_empty Hne). ring.
      - assert (Hc : In c (keys_some a0)).
        { rewrite Hk. apply (all_ranked_in votes (IP c :: t) w (IP c) c Hbw); left; reflexivity. }
        destruct (IH (alloc_add a0 (Some c) (IP c :: t) w) Hi') as (R1 & R2 & R3 & R4).
        + apply alloc_add_nonneg; [exact Hnn|apply (Hw _ _ Hbw)].
        + apply BB_alloc_add; [exact HB|]. intros c0 [= <-] Hs. unfold okb.
          destruct (solid_b_first SS _ Hne Hs) as (c1 & t1 & Heq & Hc1). injection Heq as <- _.
          apply cmem_In in Hc1. rewrite Hc1. cbn [rests_ok]. rewrite ceqb_refl. reflexivity.
        + rewrite keys_some_add_some; assumption.
        + repeat split; try assumption. rewrite R4, cwa_alloc_add. cbn [inS]. unfold sw.
          destruct (solid_b SS (IP c :: t)) eqn:Hs; [|destruct (cmem c SS); ring].
          destruct (solid_b_first SS _ Hne Hs) as (c1 & t1 & Heq & Hc1). injection Heq as <- _.
          apply cmem_In in Hc1. rewrite Hc1. ring.
      - destruct (IH a0 Hi' Hnn HB Hk) as (R1 & R2 & R3 & R4). repeat split; try assumption.
        rewrite R4, (solid_not_shared l t Hne). ring. }
    assert (Hs : forall (vs : list (ballot * Q)) a0, incl vs votes -> alloc_nonneg a0 -> BB K a0 -> keys_some a0 = cands ->
       let r := fold_left (fun a bw => match fst bw with IS _ :: _ => move_ballot a (next_after (fst bw) cands) (fst bw) (snd bw) | _ => a end) vs a0 in
       alloc_nonneg r /\ BB K r /\ keys_some r = cands /\ cwa r == cwa a0).
    { induction vs as [|[b w] vs IH]; intros a0 Hi Hnn HB Hk; cbv zeta; [simpl; repeat split; try assumption; ring|].
      assert (Hi' : incl vs votes) by (intros x Hx; apply Hi; right; exact Hx).
      assert (Hbw : In (b, w) votes) by (apply Hi; left; reflexivity).
      cbn [fold_left fst snd].
      destruct b as [|[c|l] t]; [exact (IH a0 Hi' Hnn HB Hk)|exact (IH a0 Hi' Hnn HB Hk)|].
      destruct (IH (move_ballot a0 (next_after (IS l :: t) cands) (IS l :: t) w) Hi') as (R1 & R2 & R3 & R4).
      + apply move_ballot_nonneg; [exact Hnn|apply (Hw _ _ Hbw)].
      + apply BB_move; [exact HB|]. intros t0 _ Hsol. rewrite (solid_not_shared l t Hne) in Hsol. discriminate.
      + rewrite keys_some_move; [exact Hk|]. rewrite Hk. apply next_after_allowed.
      + repeat split; try assumption. rewrite R4. apply cwa_move_nonsolid, solid_not_shared, Hne. }
    destruct Hb as (B1 & B2 & B3 & B4).
    destruct (Hd votes base (incl_refl _) B1 B2 B3) as (D1 & D2 & D3 & D4).
    destruct (Hs votes _ (incl_refl _) D1 D2 D3) as (S1 & S2 & S3 & S4).
    repeat split; try assumption. rewrite S4, D4, B4. ring.
  Qed.
End PSC.

(* ================================================================ the theorem *)
Definition vsum (votes : list (ballot * Q)) : Q := fold_right (fun bw acc => snd bw + acc) 0 votes.

Lemma total_vsum votes : Qred (fold_left Qplus (map snd votes) 0) == vsum votes.
Proof.
  eapply Qeq_trans; [apply Qred_correct|]. rewrite fold_left_Qplus.
  induction votes as [|[b w] vs IH]; simpl; [ring|]. simpl in IH. rewrite <- IH. ring.
Qed.

Lemma cast_le_vsum votes : (forall b w, In (b, w) votes -> 0 <= w) -> cast votes <= vsum votes.
Proof.
  induction votes as [|[b w] vs IH]; intros Hw; simpl; [lra|].
  assert (H0 : 0 <= w) by (apply (Hw b w); left; reflexivity).
  assert (IH' : cast vs <= vsum vs) by (apply IH; intros b0 w0 H; apply (Hw b0 w0); right; exact H).
  unfold cast, vsum in *. cbn [fold_right fst snd]. destruct b; lra.
Qed.

Lemma cw_le_vsum SS votes : (forall b w, In (b, w) votes -> 0 <= w) -> coalition_weight SS votes <= vsum votes.
Proof.
  induction votes as [|[b w] vs IH]; intros Hw; simpl; [lra|].
  assert (H0 : 0 <= w) by (apply (Hw b w); left; reflexivity).
  assert (IH' : coalition_weight SS vs <= vsum vs) by (apply IH; intros b0 w0 H; apply (Hw b0 w0); right; exact H).
  unfold coalition_weight, vsum in *. cbn [fold_right fst snd]. destruct (solid_b SS b); lra.
Qed.

Lemma cw_pos_solid SS votes : 0 < coalition_weight SS votes -> exists b w, In (b, w) votes /\ solid_b SS b = true.
Proof.
  induction votes as [|[b w] vs IH]; simpl; [intros H; lra|]. destruct (solid_b SS b) eqn:E.
  - intros _. exists b, w. split; [left; reflexivity|exact E].
  - intros H. destruct IH as (b0 & w0 & H1 & H2); [lra|]. exists b0, w0. split; [right; exact H1|exact H2].
Qed.

Theorem psc_strong (cf : cfg) (qf : Q -> Z -> Q) (votes : list (ballot * Q)) (n : Z) (caps : list (C * Z)) (SS : list C) (k : nat) :
  c_accept_equal cf = true -> c_step cf = (-1)%Z -> c_quota cf = Some qf ->
  (forall c, In c (all_ranked_candidates votes) -> dget caps c = Some 1%Z) ->
  NoDup SS -> SS <> [] ->
  (forall b w, In (b, w) votes -> 0 <= w) ->
  let total := Qred (fold_left Qplus (map snd votes) 0) in
  let q := qf total n in
  0 < q -> total < inject_Z (n + 1) * q ->
  let t := stv cf votes n [] caps in
  t_stop t = None ->
  inject_Z (Z.of_nat k) * q <= coalition_weight SS votes -> (1 <= k)%nat ->
  (Nat.min k (length SS) <= length (filter (fun c => cmem c SS) (map fst (t_seats t))))%nat /\
  (forall c s, In (c, s) (t_seats t) -> s = 1%Z) /\ NoDup (map fst (t_seats t)).
Proof.
  intros Hae Hstep Hqf Hcaps Hnd Hne Hw total q Hq Hdroop t Hstop Hk Hk1.
  destruct k as [|k']; [lia|]. revert Hstop.
  pose proof (total_vsum votes) as Htv. fold total in Htv.
  pose proof (cw_le_vsum SS votes Hw) as Hcv.
  pose proof (cast_le_vsum votes Hw) as Hcast.
  assert (Hkq : q <= inject_Z (Z.of_nat (S k')) * q).
  { assert (H1 : 1 <= inject_Z (Z.of_nat (S k'))) by (change 1 with (inject_Z 1); rewrite <- Zle_Qle; lia).
    assert (H2 : 1 * q <= inject_Z (Z.of_nat (S k')) * q) by (apply Qmult_le_compat_r; [exact H1|lra]). lra. }
  assert (Htot : Qeq_bool total 0 = false).
  { apply not_true_iff_false. intros H. apply Qeq_bool_iff in H. lra. }
  assert (Hn0 : (n =? 0)%Z = false).
  { apply Z.eqb_neq. intros ->. change (inject_Z (0 + 1)) with 1 in Hdroop. lra. }
  destruct (initial_psc SS votes (keys_some (initial_allocation votes)) Hne Hw) as (P1 & P2 & P3 & P4).
  destruct (initial_allocation_conserves votes) as [C1 C2].
  assert (Hinv : Inv SS qf n total caps (S k') (initial_allocation votes) []).
  { constructor.
    - exact C1.
    - exact P1.
    - intros c Hc. rewrite P3 in Hc. exact (Hcaps c Hc).
    - intros c _ [].
    - intros c. unfold dget_or. simpl. lia.
    - intros c s [].
    - constructor.
    - change (zsum (map snd (@nil (C * Z)))) with 0%Z. change (inject_Z 0) with 0. fold q. rewrite C2. lra.
    - exact P2.
    - intros _. change (cnt SS (map fst (@nil (C * Z)))) with 0%nat. change (inject_Z (Z.of_nat 0)) with 0. fold q. rewrite P4. lra.
    - change (cnt SS (map fst (@nil (C * Z)))) with 0%nat. rewrite P3.
      destruct (cw_pos_solid SS votes) as (b & w & Hb1 & Hb2); [lra|].
      destruct (solid_b_shape SS b Hb2) as (top & rest & -> & _ & Htop).
      assert (Hlen : (length SS <= cnt SS (all_ranked_candidates votes))%nat).
      { unfold cnt. apply NoDup_incl_length; [exact Hnd|]. intros x Hx. apply filter_In. split; [|apply cmem_In, Hx].
        apply (all_ranked_in votes (map IP top ++ rest) w (IP x) x Hb1); [|left; reflexivity].
        apply in_or_app. left. apply in_map, Htop, Hx. }
      lia. }
  unfold t, stv. fold total. intros Hstop.
  exact (run_psc SS cf Hae Hstep qf Hqf n total Htot Hn0 Hq caps (S k') _ _ _ _ Hinv Hdroop Hstop).
Qed.

(* the clause as stated: min(k, |SS|) members of SS are among the elected *)
Theorem psc_main (cf : cfg) (qf : Q -> Z -> Q) (votes : list (ballot * Q)) (n : Z) (caps : list (C * Z)) (SS : list C) (k : nat) :
  c_accept_equal cf = true -> c_step cf = (-1)%Z -> c_quota cf = Some qf ->
  (forall c, In c (all_ranked_candidates votes) -> dget caps c = Some 1%Z) ->
  NoDup SS -> SS <> [] ->
  (forall b w, In (b, w) votes -> 0 <= w) ->
  let total := Qred (fold_left Qplus (map snd votes) 0) in
  let q := qf total n in
  0 < q -> total < inject_Z (n + 1) * q ->
  let t := stv cf votes n [] caps in
  t_stop t = None ->
  inject_Z (Z.of_nat k) * q <= coalition_weight SS votes ->
  (Nat.min k (length SS) <= length (filter (fun c => cmem c SS) (map fst (t_seats t))))%nat.
Proof.
  intros Hae Hstep Hqf Hcaps Hnd Hne Hw total q Hq Hdroop t Hstop Hk.
  destruct k as [|k']; [simpl; lia|].
  exact (proj1 (psc_strong cf qf votes n caps SS (S k') Hae Hstep Hqf Hcaps Hnd Hne Hw Hq Hdroop Hstop Hk ltac:(lia))).
Qed.

(* declarative form: a set W of distinct members of SS, each holding exactly one seat, with |W| >= min(k, |SS|) *)
Theorem psc_winners (cf : cfg) (qf : Q -> Z -> Q) (votes : list (ballot * Q)) (n : Z) (caps : list (C * Z)) (SS : list C) (k : nat) :
  c_accept_equal cf = true -> c_step cf = (-1)%Z -> c_quota cf = Some qf ->
  (forall c, In c (all_ranked_candidates votes) -> dget caps c = Some 1%Z) ->
  NoDup SS -> SS <> [] ->
  (forall b w, In (b, w) votes -> 0 <= w) ->
  let total := Qred (fold_left Qplus (map snd votes) 0) in
  let q := qf total n in
  0 < q -> total < inject_Z (n + 1) * q ->
  let t := stv cf votes n [] caps in
  t_stop t = None ->
  inject_Z (Z.of_nat k) * q <= coalition_weight SS votes ->
  exists W : list C, NoDup W /\ incl W SS /\ (forall c, In c W -> In (c, 1%Z) (t_seats t)) /\
                     (Nat.min k (length SS) <= length W)%nat.
Proof.
  intros Hae Hstep Hqf Hcaps Hnd Hne Hw total q Hq Hdroop t Hstop Hk.
  destruct k as [|k']; [exists []; repeat split; [constructor|intros x []|intros c []|simpl; lia]|].
  destruct (psc_strong cf qf votes n caps SS (S k') Hae Hstep Hqf Hcaps Hnd Hne Hw Hq Hdroop Hstop Hk ltac:(lia)) as (P1 & P2 & P3).
  fold t in P1, P2, P3.
  exists (filter (fun c => cmem c SS) (map fst (t_seats t))). split; [apply NoDup_filter_c, P3|]. split; [|split; [|exact P1]].
  - intros x Hx. apply filter_In in Hx. apply cmem_In. tauto.
  - intros c Hc. apply filter_In in Hc. destruct Hc as [Hc _]. apply in_map_iff in Hc. destruct Hc as ([c0 s0] & Heq & Hin).
    simpl in Heq. subst c0. rewrite <- (P2 c s0 Hin). exact Hin.
Qed.


(* ---- the quotas of the library satisfy the hypotheses *)
Lemma droop_ok (v : Q) (n : Z) : 0 <= v -> (0 <= n)%Z -> 0 < droop v n /\ v < inject_Z (n + 1) * droop v n.
Proof.
  intros Hv Hn. unfold droop, qfloor.
  assert (Hd : 0 < inject_Z (n + 1)) by (change 0 with (inject_Z 0); rewrite <- Zlt_Qlt; lia).
  assert (H0 : 0 <= v / inject_Z (n + 1)) by (apply Qle_shift_div_l; [exact Hd|lra]).
  assert (H2 : v / inject_Z (n + 1) * inject_Z (n + 1) == v) by (field; lra).
  set (d := v / inject_Z (n + 1)) in *.
  pose proof (Qlt_floor d) as F2. rewrite inject_Z_plus in F2. change (inject_Z 1) with 1 in F2.
  split; [lra|].
  set (f := inject_Z (Qfloor d) + 1) in *.
  assert (H1 : d * inject_Z (n + 1) < f * inject_Z (n + 1)) by (apply Qmult_lt_compat_r; assumption).
  rewrite H2 in H1. rewrite Qmult_comm. exact H1.
Qed.

Lemma hare_ok (v : Q) (n : Z) : 0 < v -> (1 <= n)%Z -> 0 < hare v n /\ v < inject_Z (n + 1) * hare v n.
Proof.
  intros Hv Hn. unfold hare.
  assert (Hd : 0 < inject_Z n) by (change 0 with (inject_Z 0); rewrite <- Zlt_Qlt; lia).
  assert (H0 : 0 < v / inject_Z n) by (apply Qlt_shift_div_l; [exact Hd|lra]).
  split; [exact H0|]. rewrite inject_Z_plus. change (inject_Z 1) with 1.
  assert (H2 : (inject_Z n + 1) * (v / inject_Z n) == v + v / inject_Z n) by (field; lra).
  rewrite H2. lra.
Qed.
