(* C04, the count of the seated (Model/STV.v), for every configuration:
   1. the seats handed out by [run] / [stv] form a dictionary without repeated candidates, every listed
      candidate stands, holds at least one seat and never more than its cap (selector form: exactly one);
   2. the majority clause on the ballots themselves: a candidate who is the plain first choice on ballots
      weighing more than half of all votes wins the single seat (Droop: at the first count; any quota of at
      least half the votes, Hare included: whenever the count ends without a refusal). *)
From Coq Require Import ZArith QArith Qround Qreduction Setoid List Bool Arith Lia Lqa Permutation.
From VL Require Import Prelude.PyDict Model.GetNBest Model.Convert Model.STV Model.Quota Proofs.Dict_proofs
     Proofs.GetNBest_proofs Proofs.QOrd Proofs.STV_proofs Proofs.STV_elim_proofs Proofs.STV_majority_proofs
     Proofs.STV_psc_proofs.
From VL Require Proofs.Threshold_proofs.
Import ListNotations.
Open Scope Q_scope.

(* ================================================================ dictionaries of seats *)
Lemma dset_keys_in (d : list (C * Z)) c v x : In x (map fst (dset d c v)) <-> In x (map fst d) \/ x = c.
Proof.
  induction d as [|[k v0] d IH]; simpl.
  - split; [intros [H|[]]; right; congruence|intros [[]|H]; left; congruence].
  - destruct (ceqb c k) eqn:E; simpl.
    + apply ceqb_eq in E. subst. split; [tauto|]. intros [H|H]; [exact H|left; congruence].
    + rewrite IH. tauto.
Qed.

Lemma dset_keys_nodup (d : list (C * Z)) c v : NoDup (map fst d) -> NoDup (map fst (dset d c v)).
Proof.
  induction d as [|[k v0] d IH]; simpl; intros H.
  - constructor; [intros []|constructor].
  - inversion H as [|? ? Hk Hd]; subst. destruct (ceqb c k) eqn:E; simpl.
    + constructor; assumption.
    + constructor; [|apply IH, Hd]. rewrite dset_keys_in. intros [H1|H1]; [exact (Hk H1)|].
      subst. rewrite ceqb_refl in E. discriminate.
Qed.

Lemma dget_or_cons (c0 : C) (s0 : Z) el c :
  dget_or ((c0, s0) :: el) c 0%Z = if ceqb c c0 then s0 else dget_or el c 0%Z.
Proof. unfold dget_or. simpl. destruct (ceqb c c0); reflexivity. Qed.

Lemma add_seats_get el : forall seats, NoDup (map fst el) ->
  forall c, dget_or (add_seats seats el) c 0%Z = (dget_or seats c 0 + dget_or el c 0)%Z.
Proof.
  unfold add_seats. induction el as [|[c0 s0] el IH]; intros seats Hnd c; cbn [fold_left fst snd].
  - change (dget_or (@nil (C * Z)) c 0%Z) with 0%Z. lia.
  - simpl in Hnd. inversion Hnd as [|? ? Hc0 Hnd']; subst. rewrite (IH _ Hnd'), dget_or_dset, dget_or_cons.
    destruct (ceqb c c0) eqn:E.
    + apply ceqb_eq in E. subst. rewrite (dget_or_notin el c0 Hc0). lia.
    + lia.
Qed.

Lemma add_seats_keys_in el : forall seats x,
  In x (map fst (add_seats seats el)) <-> In x (map fst seats) \/ In x (map fst el).
Proof.
  unfold add_seats. induction el as [|[c0 s0] el IH]; intros seats x; cbn [fold_left fst snd map].
  - simpl. tauto.
  - rewrite IH, dset_keys_in. simpl. split; [intros [[H|H]|H]|intros [H|[H|H]]]; auto.
Qed.

Lemma add_seats_keys_nodup el : forall seats, NoDup (map fst seats) -> NoDup (map fst (add_seats seats el)).
Proof.
  unfold add_seats. induction el as [|[c0 s0] el IH]; intros seats H; cbn [fold_left]; [exact H|].
  apply IH, dset_keys_nodup, H.
Qed.

Lemma dget_or_in (d : list (C * Z)) c s : NoDup (map fst d) -> In (c, s) d -> dget_or d c 0%Z = s.
Proof. intros Hn Hi. unfold dget_or. rewrite (In_dget d c s Hn Hi). reflexivity. Qed.

Lemma in_keys_ex (d : list (C * Z)) c : In c (map fst d) -> exists s, In (c, s) d.
Proof. intros H. apply in_map_iff in H. destruct H as ([k s] & <- & H). exists s. exact H. Qed.

(* ================================================================ the keys of an allocation *)
Lemma pour_keys cont c : forall p a0, incl cont (keys_some a0) -> keys_some (pour cont c p a0) = keys_some a0.
Proof.
  unfold pour. induction p as [|[b w] p IH]; intros a0 H; cbn [fold_left fst snd]; [reflexivity|].
  assert (E : keys_some (move_ballot a0 (ranked_next b c cont) b w) = keys_some a0).
  { apply keys_some_move. intros x Hx. apply H, (ranked_next_allowed b c cont x Hx). }
  rewrite IH; [exact E|rewrite E; exact H].
Qed.

Lemma tstep_keys cont a c : incl cont (keys_some a) ->
  keys_some (tstep cont a c) = filter (fun x => negb (ceqb c x)) (keys_some a).
Proof. intros H. unfold tstep. rewrite keys_some_del, pour_keys; auto. Qed.

Lemma fold_tstep_keys cont : forall rem a0, (forall c, In c rem -> ~ In c cont) -> incl cont (keys_some a0) ->
  forall x, In x (keys_some (fold_left (tstep cont) rem a0)) <-> In x (keys_some a0) /\ ~ In x rem.
Proof.
  induction rem as [|c rem IH]; intros a0 Hr Hc x; cbn [fold_left].
  - simpl. tauto.
  - rewrite IH.
    + rewrite (tstep_keys cont a0 c Hc), filter_In, negb_true_iff, ceqb_neq. simpl. split.
      * intros [[H1 H2] H3]. split; [exact H1|]. intros [H|H]; [exact (H2 H)|exact (H3 H)].
      * intros [H1 H2]. split; [split; [exact H1|]|]; intros H; apply H2; [left|right]; exact H.
    + intros y Hy. apply Hr. right. exact Hy.
    + rewrite (tstep_keys cont a0 c Hc). intros y Hy. apply filter_In. split; [apply Hc, Hy|].
      apply negb_true_iff, ceqb_neq. intros ->. exact (Hr y (or_introl eq_refl) Hy).
Qed.

Lemma transfer_keys a elim x :
  In x (keys_some (transfer a elim)) <-> In x (keys_some a) /\ ~ In x elim.
Proof.
  rewrite transfer_unfold, fold_tstep_keys.
  - rewrite filter_In. split.
    + intros [H1 H2]. split; [exact H1|]. intros H. apply H2. split; [exact H1|apply cmem_In, H].
    + intros [H1 H2]. split; [exact H1|]. intros [_ H]. apply H2, cmem_In, H.
  - intros c Hc Hin. apply filter_In in Hc. apply filter_In in Hin. destruct Hc as [_ H1], Hin as [_ H2].
    rewrite H1 in H2. discriminate.
  - intros y Hy. apply filter_In in Hy. tauto.
Qed.

Lemma subtract_keys el : forall a a', subtract a el = Some a' -> akeys a' = akeys a.
Proof.
  induction el as [|[c amt] el IH]; intros a a'; cbn [subtract]; [intros [= ->]; reflexivity|].
  destruct (alloc_get a (Some c)) as [p|]; [|discriminate].
  destruct (gregory_subtract p amt) as [p'|]; [|discriminate].
  intros H. rewrite (IH _ _ H). unfold akeys. rewrite map_map. apply map_ext.
  intros [k p0]. cbn [fst]. destruct (okey_eqb (Some c) k); reflexivity.
Qed.

Lemma initial_keys votes : keys_some (initial_allocation votes) = all_ranked_candidates votes.
Proof.
  unfold initial_allocation. set (cands := all_ranked_candidates votes).
  set (base := map (fun c => (Some c, @nil (ballot * Q))) cands).
  assert (Hb : keys_some base = cands).
  { unfold base. clear. induction cands as [|c l IH]; [reflexivity|]. cbn [map].
    change (keys_some ((Some c, []) :: map (fun c0 : C => (Some c0, [])) l))
      with (c :: keys_some (map (fun c0 : C => (Some c0, @nil (ballot * Q))) l)).
    rewrite IH. reflexivity. }
  assert (Hd : forall (vs : list (ballot * Q)) a0, incl vs votes -> keys_some a0 = cands ->
     keys_some (fold_left (fun a bw => match fst bw with IP c :: _ => alloc_add a (Some c) (fst bw) (snd bw) | _ => a end) vs a0) = cands).
  { induction vs as [|[b w] vs IH]; intros a0 Hi Ha; cbn [fold_left fst snd]; [exact Ha|].
    apply IH; [intros y Hy; apply Hi; right; exact Hy|].
    destruct b as [|[c|l] rest]; try exact Ha.
    rewrite keys_some_add_some; [exact Ha|]. rewrite Ha.
    apply (all_ranked_in votes (IP c :: rest) w (IP c) c); [apply Hi; left; reflexivity|left; reflexivity|left; reflexivity]. }
  assert (Hs : forall (vs : list (ballot * Q)) a0, keys_some a0 = cands ->
     keys_some (fold_left (fun a bw => match fst bw with
                         | IS _ :: _ => move_ballot a (next_after (fst bw) cands) (fst bw) (snd bw)
                         | _ => a end) vs a0) = cands).
  { induction vs as [|[b w] vs IH]; intros a0 Ha; cbn [fold_left fst snd]; [exact Ha|].
    apply IH. destruct b as [|[c|l] rest]; try exact Ha.
    rewrite keys_some_move; [exact Ha|]. rewrite Ha. apply next_after_allowed. }
  apply Hs, Hd; [apply incl_refl|exact Hb].
Qed.

(* ================================================================ what _elect_by_quota hands back, no hypothesis on the quota *)
Lemma flat_map_keys_nodup {X} (f0 : option C * Q -> list X) (key : X -> C) (items : list (option C * Q)) :
  (forall kt x, In x (f0 kt) -> fst kt = Some (key x)) ->
  (forall kt, (length (f0 kt) <= 1)%nat) ->
  NoDup (map fst items) -> NoDup (map key (flat_map f0 items)).
Proof.
  intros Hk Hl. induction items as [|kt items IH]; intros Hn; simpl; [constructor|].
  simpl in Hn. inversion Hn as [|? ? Hh Hn']; subst. rewrite map_app.
  assert (Hrest : forall y, In y (flat_map f0 items) -> In (Some (key y)) (map fst items)).
  { intros y Hy. apply in_flat_map in Hy. destruct Hy as (kt' & H1 & H2). rewrite <- (Hk kt' y H2).
    apply in_map, H1. }
  specialize (Hl kt). destruct (f0 kt) as [|x [|x' r]] eqn:E; simpl in *; [apply IH, Hn'| |lia].
  constructor; [|apply IH, Hn']. intros Hin. apply in_map_iff in Hin. destruct Hin as (y & Hy1 & Hy2).
  apply Hh. rewrite (Hk kt x) by (rewrite E; left; reflexivity). rewrite <- Hy1. apply Hrest, Hy2.
Qed.

Lemma ebq_caps cf q a n_rem prev caps el : NoDup (akeys a) ->
  elect_by_quota cf (totals a) (Some q) n_rem prev caps = inl (Some el) ->
  NoDup (map fst el) /\
  forall c s, In (c, s) el -> (0 < s)%Z /\ In c (keys_some a) /\
     forall m, dget caps c = Some m -> (s + dget_or prev c 0 <= m)%Z.
Proof.
  intros Hnd. unfold elect_by_quota.
  set (items := sort_desc Qle_bool (map (fun kt : option C * Q => (fst kt, snd kt)) (totals a))).
  assert (Hitems : Permutation items (totals a)).
  { unfold items. rewrite map_ext with (g := fun x => x) by (intros [x y]; reflexivity). rewrite map_id.
    apply sort_desc_perm. }
  match goal with |- context [flat_map ?f items] => set (f0 := f) end.
  set (sel := flat_map f0 items).
  assert (Hsel : forall c act ov, In (c, act, ov) sel ->
            (0 < act)%Z /\ In c (keys_some a) /\ forall m, dget caps c = Some m -> (act + dget_or prev c 0 <= m)%Z).
  { intros c act ov Hin. unfold sel in Hin. apply in_flat_map in Hin. destruct Hin as ([k t] & Hk & Hin).
    unfold f0 in Hin. cbn [fst snd] in Hin. destruct k as [c0|]; [|destruct Hin].
    destruct (c_accept_equal cf || negb (Qeq_bool _ 0)); [|destruct Hin].
    destruct (0 <? _)%Z eqn:E; [|destruct Hin]. destruct Hin as [Hin|[]]. injection Hin as <- <- _.
    apply Z.ltb_lt in E. split; [exact E|]. split; [apply (totals_key_some a c0 t), (Permutation_in _ Hitems Hk)|].
    intros m Hm. rewrite Hm. lia. }
  assert (Hkeys : NoDup (map (fun x : C * Z * Q => fst (fst x)) sel)).
  { unfold sel. apply flat_map_keys_nodup.
    - intros [k t] x Hx. unfold f0 in Hx. cbn [fst snd] in Hx. destruct k as [c0|]; [|destruct Hx].
      destruct (c_accept_equal cf || negb (Qeq_bool _ 0)); [|destruct Hx].
      destruct (0 <? _)%Z; [|destruct Hx]. destruct Hx as [<-|[]]. reflexivity.
    - intros [k t]. unfold f0. cbn [fst snd]. destruct k as [c0|]; [|simpl; lia].
      destruct (c_accept_equal cf || negb (Qeq_bool _ 0)); [|simpl; lia].
      destruct (0 <? _)%Z; simpl; lia.
    - eapply Permutation_NoDup; [apply Permutation_map, Permutation_sym, Hitems|]. rewrite totals_keys. exact Hnd. }
  destruct sel as [|s0 sel'] eqn:Esel; [discriminate|]. rewrite <- Esel in *. clear Esel s0 sel'.
  set (awarded := map (fun x : C * Z * Q => (fst (fst x), snd (fst x))) sel).
  assert (Haw : forall c s, In (c, s) awarded -> exists ov, In (c, s, ov) sel).
  { intros c s Hin. unfold awarded in Hin. apply in_map_iff in Hin. destruct Hin as ([[c0 s0] ov] & Heq & Hin).
    simpl in Heq. injection Heq as -> ->. exists ov. exact Hin. }
  assert (Hawk : map fst awarded = map (fun x : C * Z * Q => fst (fst x)) sel).
  { unfold awarded. rewrite map_map. reflexivity. }
  assert (Hfinal : forall c s, (exists s0, In (c, s0) awarded /\ (0 < s <= s0)%Z) ->
            (0 < s)%Z /\ In c (keys_some a) /\ forall m, dget caps c = Some m -> (s + dget_or prev c 0 <= m)%Z).
  { intros c s (s0 & Hin & Hs). destruct (Haw c s0 Hin) as (ov & Hsel0).
    destruct (Hsel c s0 ov Hsel0) as (_ & Hk & Hm). split; [lia|]. split; [exact Hk|].
    intros m Hc. specialize (Hm m Hc). lia. }
  destruct (n_rem <? zsum (map snd awarded))%Z.
  - destruct (existsb _ _); [discriminate|]. intros [= <-]. split.
    + assert (Hsubk : forall (l : list (C * Z)) keptc, NoDup (map fst l) ->
               NoDup (map fst (flat_map (fun cs : C * Z => if cmem (fst cs) keptc then [cs]
                        else if (1 <? snd cs)%Z then [(fst cs, (snd cs - 1)%Z)] else []) l))).
      { induction l as [|[c s] l IHl]; intros keptc Hn; simpl; [constructor|].
        inversion Hn as [|? ? Hc Hn']; subst. specialize (IHl keptc Hn'). rewrite map_app.
        assert (Hin' : forall x, In x (map fst (flat_map (fun cs : C * Z => if cmem (fst cs) keptc then [cs]
                        else if (1 <? snd cs)%Z then [(fst cs, (snd cs - 1)%Z)] else []) l)) -> In x (map fst l)).
        { intros x Hx. apply in_map_iff in Hx. destruct Hx as (y & <- & Hy). apply in_flat_map in Hy.
          destruct Hy as ([c1 s1] & H1 & Hy). simpl in Hy. apply in_map_iff. exists (c1, s1). split; [|exact H1].
          destruct (cmem c1 keptc); [destruct Hy as [<-|[]]; reflexivity|].
          destruct (1 <? s1)%Z; [destruct Hy as [<-|[]]; reflexivity|destruct Hy]. }
        destruct (cmem c keptc); simpl; [constructor; [intros H; apply Hc, Hin', H|exact IHl]|].
        destruct (1 <? s)%Z; simpl; [constructor; [intros H; apply Hc, Hin', H|exact IHl]|exact IHl]. }
      apply Hsubk. rewrite Hawk. exact Hkeys.
    + intros c s Hin. apply in_flat_map in Hin. destruct Hin as ([c0 s0] & Hin0 & Hin). simpl in Hin.
      apply Hfinal.
      destruct (cmem c0 _).
      * destruct Hin as [Heq|[]]. injection Heq as <- <-. exists s0. split; [exact Hin0|].
        destruct (Haw c0 s0 Hin0) as (ov & Hs0). destruct (Hsel c0 s0 ov Hs0) as [Hp _]. lia.
      * destruct (1 <? s0)%Z eqn:E1; [|destruct Hin]. destruct Hin as [Heq|[]]. injection Heq as <- <-.
        apply Z.ltb_lt in E1. exists s0. split; [exact Hin0|lia].
  - intros [= <-]. split; [rewrite Hawk; exact Hkeys|].
    intros c s Hin. apply Hfinal. exists s. split; [exact Hin|].
    destruct (Haw c s Hin) as (ov & Hs0). destruct (Hsel c s ov Hs0) as [Hp _]. lia.
Qed.

(* ================================================================ the invariant of the count loop *)
Section CAPS.
  Variable cf : cfg.
  Variable n : Z.
  Variable total : Q.
  Variable caps : list (C * Z).
  Variable K : list C.                 (* the candidates standing *)

  (* the seats handed out so far *)
  Record seats_ok (seats : list (C * Z)) : Prop := {
    s_ndk : NoDup (map fst seats);
    s_K : incl (map fst seats) K;
    s_pos : forall c, In c (map fst seats) -> (0 < dget_or seats c 0)%Z;
    s_cap : forall c m, In c (map fst seats) -> dget caps c = Some m -> (dget_or seats c 0 <= m)%Z
  }.

  Record Jinv (a : alloc) (seats : list (C * Z)) : Prop := {
    j_nd : NoDup (akeys a);
    j_K : incl (keys_some a) K;
    j_ok : seats_ok seats;
    (* a continuing candidate still has room under its cap *)
    j_open : forall c m, In c (keys_some a) -> dget caps c = Some m -> (dget_or seats c 0 < m)%Z
  }.

  Lemma seats_nonneg seats : seats_ok seats -> forall c, (0 <= dget_or seats c 0)%Z.
  Proof.
    intros H c. destruct (in_dec Pos.eq_dec c (map fst seats)) as [Hi|Hi].
    - pose proof (s_pos _ H c Hi). lia.
    - rewrite (dget_or_notin seats c Hi). lia.
  Qed.

  Lemma add_seats_ok seats el : seats_ok seats -> NoDup (map fst el) ->
    (forall c s, In (c, s) el -> (0 < s)%Z /\ In c K /\ forall m, dget caps c = Some m -> (s + dget_or seats c 0 <= m)%Z) ->
    seats_ok (add_seats seats el).
  Proof.
    intros H Hn Hel. pose proof (seats_nonneg seats H) as Hnn. constructor.
    - apply add_seats_keys_nodup, (s_ndk _ H).
    - intros c Hc. apply add_seats_keys_in in Hc. destruct Hc as [Hc|Hc]; [apply (s_K _ H), Hc|].
      destruct (in_keys_ex el c Hc) as [s Hs]. apply (Hel c s Hs).
    - intros c Hc. rewrite (add_seats_get el seats Hn c).
      destruct (in_dec Pos.eq_dec c (map fst el)) as [Hi|Hi].
      + destruct (in_keys_ex el c Hi) as [s Hs]. rewrite (dget_or_in el c s Hn Hs).
        destruct (Hel c s Hs) as [Hp _]. specialize (Hnn c). lia.
      + rewrite (dget_or_notin el c Hi). apply add_seats_keys_in in Hc. destruct Hc as [Hc|Hc]; [|contradiction].
        pose proof (s_pos _ H c Hc). lia.
    - intros c m Hc Hm. rewrite (add_seats_get el seats Hn c).
      destruct (in_dec Pos.eq_dec c (map fst el)) as [Hi|Hi].
      + destruct (in_keys_ex el c Hi) as [s Hs]. rewrite (dget_or_in el c s Hn Hs).
        destruct (Hel c s Hs) as (_ & _ & Hb). specialize (Hb m Hm). lia.
      + rewrite (dget_or_notin el c Hi). apply add_seats_keys_in in Hc. destruct Hc as [Hc|Hc]; [|contradiction].
        pose proof (s_cap _ H c m Hc Hm). lia.
  Qed.

  (* every count that goes on keeps the invariant *)
  Theorem next_count_J a seats a' el : Jinv a seats ->
    next_count cf a n total seats caps = CR_next a' el -> Jinv a' (add_seats seats el).
  Proof.
    intros [J1 J2 J3 J4]. unfold next_count. cbv zeta.
    destruct (negb _ && _ && _); [discriminate|].
    match goal with |- context [elect_by_quota cf (totals a) ?qq _ seats caps] => set (quota := qq) end.
    destruct (elect_by_quota cf (totals a) quota _ seats caps) as [[el0|]|s] eqn:Ee; [| |discriminate].
    - destruct quota as [q|] eqn:Eq; [|discriminate].
      destruct (subtract a _) as [a1|] eqn:Es; [|discriminate].
      destruct (ebq_caps cf q a _ seats caps el0 J1 Ee) as [Hk Hs].
      match goal with |- context [flat_map ?f el0] => set (elim := flat_map f el0) end.
      intros Heq.
      assert (Ha' : a' = match elim with [] => a1 | _ :: _ => transfer a1 elim end /\ el = el0)
        by (injection Heq as <- <-; split; reflexivity).
      destruct Ha' as [Ha' ->]. clear Heq.
      pose proof (subtract_keys _ _ _ Es) as Hk1.
      pose proof (keys_some_of_akeys a1 a Hk1) as Hk2.
      assert (Hn1 : NoDup (akeys a1)) by (rewrite Hk1; exact J1).
      assert (Hin' : forall x, In x (keys_some a') -> In x (keys_some a) /\ ~ In x elim).
      { intros x Hx. rewrite Ha' in Hx. destruct elim as [|e es] eqn:Eel.
        - rewrite Hk2 in Hx. split; [exact Hx|intros []].
        - apply transfer_keys in Hx. rewrite Hk2 in Hx. exact Hx. }
      assert (Helim : forall x s m, In (x, s) el0 -> dget caps x = Some m -> ~ In x elim -> (s + dget_or seats x 0 < m)%Z).
      { intros x s m Hx Hm Hne. destruct (Z_lt_le_dec (s + dget_or seats x 0%Z) m) as [Hl|Hg]; [exact Hl|].
        exfalso. apply Hne. unfold elim. apply in_flat_map. exists (x, s). split; [exact Hx|].
        cbn [fst snd]. rewrite Hm. assert ((m <=? s + dget_or seats x 0)%Z = true) as -> by (apply Z.leb_le; lia).
        left. reflexivity. }
      constructor.
      + rewrite Ha'. destruct elim; [exact Hn1|]. apply (transfer_conserves a1 _ Hn1).
      + intros x Hx. apply J2, (Hin' x Hx).
      + apply add_seats_ok; [exact J3|exact Hk|]. intros c s Hc. destruct (Hs c s Hc) as (H1 & H2 & H3).
        split; [exact H1|]. split; [apply J2, H2|exact H3].
      + intros c m Hc Hm. destruct (Hin' c Hc) as [Hc1 Hc2]. rewrite (add_seats_get el0 seats Hk c).
        destruct (in_dec Pos.eq_dec c (map fst el0)) as [Hi|Hi].
        * destruct (in_keys_ex el0 c Hi) as [s Hs0]. rewrite (dget_or_in el0 c s Hk Hs0).
          pose proof (Helim c s m Hs0 Hm Hc2). lia.
        * rewrite (dget_or_notin el0 c Hi). pose proof (J4 c m Hc1 Hm). lia.
    - destruct (existsb _ _); [discriminate|].
      match goal with |- context [transfer a ?e] => set (elim := e) end.
      intros Heq.
      assert (Ha' : a' = match elim with [] => a | _ :: _ => transfer a elim end /\ el = [])
        by (injection Heq as <- <-; split; reflexivity).
      destruct Ha' as [Ha' ->]. clear Heq. change (add_seats seats []) with seats.
      assert (Hin' : forall x, In x (keys_some a') -> In x (keys_some a)).
      { intros x Hx. rewrite Ha' in Hx. destruct elim; [exact Hx|]. apply transfer_keys in Hx. tauto. }
      constructor.
      + rewrite Ha'. destruct elim; [exact J1|]. apply (transfer_conserves a _ J1).
      + intros x Hx. apply J2, Hin', Hx.
      + exact J3.
      + intros c m Hc Hm. apply (J4 c m (Hin' c Hc) Hm).
  Qed.

  (* the elect-all-remaining shortcut fills every continuing candidate up to its cap *)
  Theorem all_J a seats el : Jinv a seats ->
    next_count cf a n total seats caps = CR_all el -> seats_ok (add_seats seats el).
  Proof.
    intros [J1 J2 J3 J4]. unfold next_count. cbv zeta.
    match goal with |- context [if ?c then CR_all ?av else _] => destruct c eqn:Ec; [set (avail := av)|] end.
    - intros [= <-].
      apply andb_true_iff in Ec. destruct Ec as [Ec _]. apply andb_true_iff in Ec. destruct Ec as [Eu _].
      apply negb_true_iff in Eu.
      set (l := sort_desc Qle_bool (totals a)) in *.
      assert (Hp : Permutation l (totals a)) by apply sort_desc_perm.
      assert (Hbound : forall c t, In (Some c, t) l -> exists m, dget caps c = Some m).
      { intros c t Hin. destruct (dget caps c) as [m|] eqn:E; [exists m; reflexivity|exfalso].
        assert (Hex : existsb (fun kt : option C * Q => match fst kt with Some c => negb (dmem caps c) | None => false end) l = true).
        { apply existsb_exists. exists (Some c, t). split; [exact Hin|]. cbn [fst]. unfold dmem. rewrite E. reflexivity. }
        rewrite Hex in Eu. discriminate. }
      assert (Hnda : NoDup (map fst avail)).
      { unfold avail. apply flat_map_keys_nodup.
        - intros [k t] x Hx. cbn [fst] in Hx. destruct k as [c0|]; [|destruct Hx]. destruct Hx as [<-|[]]. reflexivity.
        - intros [k t]. cbn [fst]. destruct k; simpl; lia.
        - eapply Permutation_NoDup; [apply Permutation_map, Permutation_sym, Hp|]. rewrite totals_keys. exact J1. }
      assert (Hav : forall c s, In (c, s) avail -> In c (keys_some a) /\ exists m, dget caps c = Some m /\ s = (m - dget_or seats c 0)%Z).
      { intros c s Hin. unfold avail in Hin. apply in_flat_map in Hin. destruct Hin as ([k t] & Hkt & Hin).
        cbn [fst] in Hin. destruct k as [c0|]; [|destruct Hin]. destruct Hin as [Hin|[]]. injection Hin as <- <-.
        split; [apply (totals_key_some a c0 t), (Permutation_in _ Hp Hkt)|].
        destruct (Hbound c0 t Hkt) as [m Hm]. exists m. split; [exact Hm|]. unfold dget_or at 1. rewrite Hm. reflexivity. }
      apply add_seats_ok; [exact J3|exact Hnda|].
      intros c s Hin. destruct (Hav c s Hin) as (Hc & m & Hm & ->).
      pose proof (J4 c m Hc Hm). split; [lia|]. split; [apply J2, Hc|].
      intros m' Hm'. rewrite Hm in Hm'. injection Hm' as <-. lia.
    - intros H. exfalso. revert H.
      repeat (match goal with |- context [match ?x with _ => _ end] => destruct x end); discriminate.
  Qed.

  Theorem run_J fuel : forall a seats acc, Jinv a seats ->
    seats_ok (t_seats (run cf fuel a n total seats caps acc)).
  Proof.
    induction fuel as [|f IH]; intros a seats acc J; cbn [run].
    - destruct (zsum (map snd seats) =? n)%Z; cbn [t_seats]; exact (j_ok _ _ J).
    - destruct (zsum (map snd seats) =? n)%Z; cbn [t_seats]; [exact (j_ok _ _ J)|].
      destruct (next_count cf a n total seats caps) as [el|a' el|s] eqn:En; cbn [t_seats].
      + exact (all_J a seats el J En).
      + pose proof (next_count_J a seats a' el J En) as J'. destruct el as [|e el'].
        * destruct (alloc_eqb a' a); cbn [t_seats]; [exact (j_ok _ _ J)|]. apply IH. exact J'.
        * apply IH. exact J'.
      + exact (j_ok _ _ J).
  Qed.
End CAPS.

(* the seats of a whole count: no candidate listed twice, everybody listed stands, holds at least one seat and
   at most its cap.  Every configuration (quota function, accept_equal, mandatory quota, elimination step), every
   profile, finished or refused counts alike; caps of standing candidates are positive. *)
Theorem stv_seats_ok cf votes n caps :
  (forall c m, In c (all_ranked_candidates votes) -> dget caps c = Some m -> (0 < m)%Z) ->
  let t := stv cf votes n [] caps in
  NoDup (map fst (t_seats t)) /\
  forall c s, In (c, s) (t_seats t) ->
    In c (all_ranked_candidates votes) /\ (1 <= s)%Z /\ forall m, dget caps c = Some m -> (s <= m)%Z.
Proof.
  intros Hcap t. unfold t, stv.
  set (K := all_ranked_candidates votes).
  assert (J : Jinv caps K (initial_allocation votes) []).
  { constructor.
    - apply (initial_allocation_conserves votes).
    - rewrite initial_keys. apply incl_refl.
    - constructor; [constructor|intros x []|intros c []|intros c m []].
    - intros c m Hc Hm. rewrite initial_keys in Hc. unfold dget_or. simpl. exact (Hcap c m Hc Hm). }
  pose proof (run_J cf n (Qred (fold_left Qplus (map snd votes) 0)) caps K (4 * length K + 8) _ [] [] J) as [S1 S2 S3 S4].
  split; [exact S1|]. intros c s Hin.
  assert (Hk : In c (map fst (t_seats (run cf (4 * length K + 8) (initial_allocation votes) n
                 (Qred (fold_left Qplus (map snd votes) 0)) [] caps []))))
    by (apply in_map_iff; exists (c, s); split; [reflexivity|exact Hin]).
  pose proof (dget_or_in _ c s S1 Hin) as Hg.
  split; [apply S2, Hk|]. split; [pose proof (S3 c Hk); lia|].
  intros m Hm. pose proof (S4 c m Hk Hm). lia.
Qed.

Lemma zsum_all_ones (l : list (C * Z)) : (forall c s, In (c, s) l -> s = 1%Z) -> zsum (map snd l) = Z.of_nat (length l).
Proof.
  intros H. rewrite <- (map_length snd l). apply zsum_ones. apply Forall_forall. intros x Hx.
  apply in_map_iff in Hx. destruct Hx as ([c s] & <- & Hin). exact (H c s Hin).
Qed.

(* selector form: a finished count seats exactly n distinct standing candidates, one seat each *)
Theorem stv_selector_count cf votes n caps :
  (forall c, In c (all_ranked_candidates votes) -> dget caps c = Some 1%Z) ->
  let t := stv cf votes n [] caps in
  t_stop t = None ->
  Z.of_nat (length (t_seats t)) = n /\ NoDup (map fst (t_seats t)) /\
  forall c s, In (c, s) (t_seats t) -> s = 1%Z /\ In c (all_ranked_candidates votes).
Proof.
  intros Hcap t Hstop.
  destruct (stv_seats_ok cf votes n caps) as [H1 H2].
  { intros c m Hc Hm. rewrite (Hcap c Hc) in Hm. injection Hm as <-. lia. }
  fold t in H1, H2.
  assert (Hone : forall c s, In (c, s) (t_seats t) -> s = 1%Z).
  { intros c s Hin. destruct (H2 c s Hin) as (Hc & Hs & Hm). specialize (Hm 1%Z (Hcap c Hc)). lia. }
  split; [|split; [exact H1|]].
  - rewrite <- (zsum_all_ones _ Hone). unfold t, stv in *. apply run_complete, Hstop.
  - intros c s Hin. split; [exact (Hone c s Hin)|apply (H2 c s Hin)].
Qed.

(* ================================================================ the majority clause, on the ballots *)
Lemma cwa_none (c : C) a : ~ In (Some c) (akeys a) -> cwa [c] a == 0.
Proof.
  induction a as [|[k p] a IH]; intros H; simpl; [reflexivity|].
  simpl in H. rewrite IH by tauto.
  destruct k as [x|]; simpl; [|ring].
  destruct (ceqb x c) eqn:E; simpl; [|ring].
  apply ceqb_eq in E. subst. exfalso. apply H. left. reflexivity.
Qed.

(* the first-choice ballots resting on c are part of c's pile *)
Lemma cwa_le_pile (c : C) a p : NoDup (akeys a) -> alloc_nonneg a -> In (Some c, p) a -> cwa [c] a <= wsum p.
Proof.
  induction a as [|[k p0] a IH]; intros Hn Hnn Hin; [destruct Hin|].
  unfold akeys in Hn. simpl in Hn. inversion Hn as [|? ? Hk Hn']; subst.
  inversion Hnn as [|? ? Hp0 Hnn']; subst. simpl in Hp0.
  destruct Hin as [Hin|Hin].
  - injection Hin as -> ->. simpl. unfold ceqb. rewrite Pos.eqb_refl. simpl.
    rewrite (cwa_none c a Hk). destruct (cwp_bounds [c] p Hp0). lra.
  - simpl. destruct k as [x|]; simpl.
    + destruct (ceqb x c) eqn:E; simpl.
      * apply ceqb_eq in E. subst. exfalso. apply Hk. apply in_map_iff. exists (Some c, p). auto.
      * specialize (IH Hn' Hnn' Hin). lra.
    + specialize (IH Hn' Hnn' Hin). lra.
Qed.

(* ... and every other pile fits into what is left *)
Lemma others_small (c : C) a k p : alloc_nonneg a -> In (k, p) a -> k <> Some c -> cwa [c] a + wsum p <= asum a.
Proof.
  induction a as [|[k0 p0] a IH]; intros Hnn Hin Hk; [destruct Hin|].
  inversion Hnn as [|? ? Hp0 Hnn']; subst. simpl in Hp0.
  destruct (cwp_bounds [c] p0 Hp0) as [B1 B2].
  destruct Hin as [Hin|Hin].
  - injection Hin as -> ->. pose proof (cwa_le_asum [c] a Hnn') as Hle. simpl.
    assert (inS [c] k = false) as ->.
    { destruct k as [x|]; simpl; [|reflexivity]. destruct (ceqb x c) eqn:E; [|reflexivity].
      apply ceqb_eq in E. subst. congruence. }
    lra.
  - specialize (IH Hnn' Hin Hk). simpl. destruct (inS [c] k0); lra.
Qed.

Lemma in_play_pile a x v : In (x, v) (in_play a) -> exists p, In (Some x, p) a /\ v = pile_sum p.
Proof.
  unfold in_play, some_totals, totals. intros H. apply in_flat_map in H. destruct H as ([o t] & Hin & H).
  destruct o as [c'|]; [|destruct H]. destruct H as [H|[]]. injection H as -> ->.
  apply in_map_iff in Hin. destruct Hin as ([o p] & Hf & Hin). simpl in Hf. injection Hf as -> <-. exists p. auto.
Qed.

Lemma totals_in a k x : In (k, x) (totals a) -> exists p, In (k, p) a /\ x = pile_sum p.
Proof.
  unfold totals. intros H. apply in_map_iff in H. destruct H as ([k0 p] & Heq & Hin). injection Heq as -> <-.
  exists p. auto.
Qed.

Section MAJ.
  Variable cf : cfg.
  Hypothesis Hstep : (c_step cf < 0)%Z.
  Variable qf : Q -> Z -> Q.
  Hypothesis Hqf : c_quota cf = Some qf.
  Variable total : Q.
  Hypothesis Htot : Qeq_bool total 0 = false.
  Let q := qf total 1%Z.
  Hypothesis Hq : 0 < q.
  Hypothesis Hhalf : total <= 2 * q.
  Variable caps : list (C * Z).
  Variable c : C.

  Record MInv (a : alloc) : Prop := {
    m_nd : NoDup (akeys a);
    m_nn : alloc_nonneg a;
    m_caps : forall x, In x (keys_some a) -> dget caps x = Some 1%Z;
    m_cons : asum a <= total;
    m_B : BB [c] (keys_some a) a;
    m_c : In c (keys_some a);
    m_maj : total < 2 * cwa [c] a
  }.

  (* nobody but c can hold a quota *)
  Lemma winner_only a x p : MInv a -> alloc_get a (Some x) = Some p -> q <= wsum p -> x = c.
  Proof.
    intros I Hg Hw. destruct (Pos.eq_dec x c) as [e|e]; [exact e|exfalso].
    assert (Hk : Some x <> Some c) by congruence.
    pose proof (others_small c a (Some x) p (m_nn _ I) (alloc_get_in _ _ _ Hg) Hk) as Ho.
    pose proof (m_cons _ I). pose proof (m_maj _ I). lra.
  Qed.

  Lemma c_pile a : MInv a -> exists p, In (Some c, p) a /\ total < 2 * wsum p.
  Proof.
    intros I. pose proof (m_c _ I) as Hc. apply keys_some_akeys in Hc. unfold akeys in Hc.
    apply in_map_iff in Hc. destruct Hc as ([k p] & Hk & Hin). simpl in Hk. subst k.
    exists p. split; [exact Hin|]. pose proof (cwa_le_pile c a p (m_nd _ I) (m_nn _ I) Hin). pose proof (m_maj _ I). lra.
  Qed.

  (* one count: nothing is elected and the invariant goes on, or c alone is elected *)
  Theorem next_count_maj a a' el : MInv a ->
    next_count cf a 1 total [] caps = CR_next a' el -> (el = [] /\ MInv a') \/ el = [(c, 1%Z)].
  Proof.
    intros I. unfold next_count. cbv zeta.
    destruct (negb _ && _ && _); [discriminate|].
    rewrite Hqf, Htot. cbn [orb Z.eqb]. fold q.
    assert (Hprev : forall x : C, (0 <= dget_or (@nil (C * Z)) x 0)%Z) by (intros x; unfold dget_or; simpl; lia).
    destruct (elect_by_quota cf (totals a) (Some q) _ [] caps) as [[el0|]|s] eqn:Ee; [| |discriminate].
    - destruct (subtract a _) as [a1|] eqn:Es; [|discriminate].
      destruct (elect_by_quota_sound cf q Hq a _ [] caps el0 (m_nd _ I) Hprev Ee) as [Hk Hs].
      pose proof (ebq_cap1 cf q a _ [] caps el0 (m_caps _ I) Hprev Ee) as Hc1.
      assert (Hel : forall x s, In (x, s) el0 -> x = c /\ s = 1%Z).
      { intros x s Hin. destruct (Hs x s Hin) as (Hp & p & Hg & Hw). pose proof (Hc1 x s Hin).
        assert (s = 1%Z) by lia. subst s. split; [|reflexivity].
        apply (winner_only a x p I Hg). change (inject_Z 1) with 1 in Hw. lra. }
      destruct el0 as [|[x s] [|[x' s'] r]].
      + cbn [map subtract] in Es. injection Es as <-. cbn [flat_map]. intros [= <- <-]. left. split; [reflexivity|exact I].
      + destruct (Hel x s (or_introl eq_refl)) as [-> ->]. intros [= _ <-]. right. reflexivity.
      + exfalso. destruct (Hel x s (or_introl eq_refl)) as [-> _].
        destruct (Hel x' s' (or_intror (or_introl eq_refl))) as [-> _].
        simpl in Hk. inversion Hk as [|? ? Hh _]; subst. apply Hh. left. reflexivity.
    - destruct (existsb _ _) eqn:Etie; [discriminate|].
      match goal with |- context [transfer a ?e] => set (elim := e) end.
      assert (Hdef : elim = eliminated cf a) by reflexivity.
      assert (Hndp : NoDup (map fst (in_play a))) by (rewrite in_play_keys; apply keys_some_nodup, (m_nd _ I)).
      assert (Hm : (1 <= length (in_play a))%nat).
      { rewrite <- (map_length fst), in_play_keys. pose proof (m_c _ I) as Hc. destruct (keys_some a); [destruct Hc|simpl; lia]. }
      destruct (retained_count_neg cf (length (in_play a)) Hstep Hm) as [Hrc _].
      assert (Hce : ~ In c elim).
      { intros Hin. rewrite Hdef in Hin.
        destruct (retained_plain cf a Hndp Etie Hrc) as (kept & Hr & Hlen & _ & Hincl).
        destruct kept as [|d kept']; [simpl in Hlen; lia|].
        assert (Hd : In (Cand d) (retained cf a)) by (rewrite Hr; left; reflexivity).
        assert (Hdc : d <> c).
        { intros ->. unfold eliminated in Hin. apply filter_In in Hin. destruct Hin as [_ Hin].
          apply negb_true_iff, cmem_nIn in Hin. apply Hin. rewrite Hr. unfold kept_of. simpl. left. reflexivity. }
        assert (Hdk : In d (map fst (in_play a))) by (apply Hincl; left; reflexivity).
        apply in_map_iff in Hdk. destruct Hdk as ([d0 vd] & Hd0 & Hdin). simpl in Hd0. subst d0.
        assert (Hck : In c (map fst (in_play a))) by (unfold eliminated in Hin; apply filter_In in Hin; tauto).
        apply in_map_iff in Hck. destruct Hck as ([c0 vc] & Hc0 & Hcin). simpl in Hc0. subst c0.
        pose proof (eliminated_lowest cf a Hndp Hrc c vc d vd Hin Hcin Hd Hdin) as Hle.
        destruct (in_play_pile a d vd Hdin) as (pd & Hpd & ->).
        destruct (in_play_pile a c vc Hcin) as (pc & Hpc & ->).
        rewrite !pile_sum_wsum in Hle.
        assert (Hk : Some d <> Some c) by congruence.
        pose proof (others_small c a (Some d) pd (m_nn _ I) Hpd Hk).
        pose proof (cwa_le_pile c a pc (m_nd _ I) (m_nn _ I) Hpc).
        pose proof (m_cons _ I). pose proof (m_maj _ I). lra. }
      destruct elim as [|e es] eqn:Eel.
      + intros [= <- <-]. left. split; [reflexivity|exact I].
      + intros [= <- <-]. left. split; [reflexivity|]. rewrite <- Eel in *. clear Eel e es.
        destruct (transfer_psc [c] a elim (m_nd _ I) (m_nn _ I) (m_B _ I)) as (R1 & R2 & R3 & R4 & R5).
        destruct (transfer_conserves a elim (m_nd _ I)) as [T1 _].
        assert (Hcc : In c (filter (fun x => negb (cmem x elim)) (keys_some a))).
        { apply filter_In. split; [exact (m_c _ I)|]. apply negb_true_iff, cmem_nIn, Hce. }
        constructor.
        * exact R1.
        * exact R2.
        * intros x Hx. rewrite R4 in Hx. apply filter_In in Hx. apply (m_caps _ I), Hx.
        * rewrite T1. exact (m_cons _ I).
        * rewrite R4. exact R3.
        * rewrite R4. exact Hcc.
        * assert (Hex : exists d', In d' [c] /\ In d' (filter (fun x => negb (cmem x elim)) (keys_some a)))
            by (exists c; split; [left; reflexivity|exact Hcc]).
          specialize (R5 Hex). pose proof (m_maj _ I). lra.
  Qed.

  (* the elect-all-remaining shortcut: c is the only one left *)
  Lemma all_maj a el : MInv a -> next_count cf a 1 total [] caps = CR_all el -> add_seats [] el = [(c, 1%Z)].
  Proof.
    intros I. unfold next_count. cbv zeta.
    match goal with |- context [if ?cc then CR_all ?av else _] => destruct cc eqn:Ec; [set (avail := av) in *|] end.
    - intros [= <-].
      apply andb_true_iff in Ec. destruct Ec as [Ec _]. apply andb_true_iff in Ec. destruct Ec as [_ Ez].
      apply Z.eqb_eq in Ez. change (1 - zsum (map snd (@nil (C * Z))))%Z with 1%Z in Ez.
      set (l := sort_desc Qle_bool (totals a)) in *.
      assert (Hp : Permutation l (totals a)) by apply sort_desc_perm.
      assert (Hone : forall x s, In (x, s) avail -> s = 1%Z).
      { intros x s Hin. unfold avail in Hin. apply in_flat_map in Hin. destruct Hin as ([k t] & Hkt & Hin).
        cbn [fst] in Hin. destruct k as [x0|]; [|destruct Hin]. destruct Hin as [Hin|[]]. injection Hin as <- <-.
        unfold dget_or. rewrite (m_caps _ I x0 (totals_key_some a x0 t (Permutation_in _ Hp Hkt))). reflexivity. }
      assert (Hcin : In (c, 1%Z) avail).
      { destruct (c_pile a I) as (p & Hpin & _).
        unfold avail. apply in_flat_map. exists (Some c, pile_sum p).
        split; [apply (Permutation_in _ (Permutation_sym Hp)), totals_of_pile, Hpin|].
        cbn [fst]. unfold dget_or. rewrite (m_caps _ I c (m_c _ I)). left. reflexivity. }
      rewrite (zsum_all_ones avail Hone) in Ez.
      destruct avail as [|[x s] [|y r]]; simpl in Ez; try lia.
      destruct Hcin as [Hcin|[]]. injection Hcin as -> ->. reflexivity.
    - intros H. exfalso. revert H.
      repeat (match goal with |- context [match ?x with _ => _ end] => destruct x end); discriminate.
  Qed.

  Theorem run_maj fuel : forall a acc, MInv a ->
    t_stop (run cf fuel a 1 total [] caps acc) = None ->
    t_seats (run cf fuel a 1 total [] caps acc) = [(c, 1%Z)].
  Proof.
    induction fuel as [|f IH]; intros a acc I; cbn [run]; change (zsum (map snd (@nil (C * Z))) =? 1)%Z with false;
      cbn [t_stop t_seats]; [discriminate|].
    destruct (next_count cf a 1 total [] caps) as [el|a' el|s] eqn:En; cbn [t_stop t_seats]; [| |discriminate].
    - intros _. exact (all_maj a el I En).
    - destruct (next_count_maj a a' el I En) as [[-> I']| ->].
      + destruct (alloc_eqb a' a); cbn [t_stop]; [discriminate|]. apply IH. exact I'.
      + change (add_seats [] [(c, 1%Z)]) with [(c, 1%Z)].
        intros _. destruct f; cbn [run]; change (zsum (map snd [(c, 1%Z)]) =? 1)%Z with true; reflexivity.
  Qed.
End MAJ.

Lemma vsum_nonneg votes : (forall b w, In (b, w) votes -> 0 <= w) -> 0 <= vsum votes.
Proof.
  induction votes as [|[b w] vs IH]; intros H; simpl; [lra|].
  assert (0 <= w) by (apply (H b w); left; reflexivity).
  assert (0 <= vsum vs) by (apply IH; intros b0 w0 Hb0; apply (H b0 w0); right; exact Hb0). lra.
Qed.

(* the initial allocation of a profile in which c is the plain first choice of a majority *)
Lemma initial_maj (votes : list (ballot * Q)) (caps : list (C * Z)) (c : C) :
  (forall x, In x (all_ranked_candidates votes) -> dget caps x = Some 1%Z) ->
  (forall b w, In (b, w) votes -> 0 <= w) ->
  let total := Qred (fold_left Qplus (map snd votes) 0) in
  total < 2 * coalition_weight [c] votes ->
  MInv total caps c (initial_allocation votes) /\ 0 < total.
Proof.
  intros Hcaps Hw total Hmaj.
  pose proof (total_vsum votes) as Htv. fold total in Htv.
  pose proof (cw_le_vsum [c] votes Hw) as Hcv.
  pose proof (cast_le_vsum votes Hw) as Hcast.
  assert (Hne : [c] <> []) by discriminate.
  destruct (initial_psc [c] votes (keys_some (initial_allocation votes)) Hne Hw) as (P1 & P2 & P3 & P4).
  destruct (initial_allocation_conserves votes) as [C1 C2].
  assert (Hpos : 0 < total) by lra.
  split; [|exact Hpos]. constructor.
  - exact C1.
  - exact P1.
  - intros x Hx. rewrite P3 in Hx. exact (Hcaps x Hx).
  - rewrite C2. lra.
  - exact P2.
  - rewrite P3. destruct (cw_pos_solid [c] votes) as (b & w & Hb1 & Hb2); [lra|].
    destruct (solid_b_first [c] b Hne Hb2) as (c' & t & -> & [<-|[]]).
    apply (all_ranked_in votes (IP c :: t) w (IP c) c Hb1); left; reflexivity.
  - rewrite P4. exact Hmaj.
Qed.

(* majority, any quota of at least half the votes (Droop, Hare, ...): whenever the single-seat count ends
   without a refusal, the candidate who is the plain first choice on more than half of the votes holds the seat.  eliminate_step negative
   (the default -1 eliminates one candidate at a time) *)
Theorem majority_ballots cf qf (votes : list (ballot * Q)) (caps : list (C * Z)) (c : C) :
  (c_step cf < 0)%Z -> c_quota cf = Some qf ->
  (forall x, In x (all_ranked_candidates votes) -> dget caps x = Some 1%Z) ->
  (forall b w, In (b, w) votes -> 0 <= w) ->
  let total := Qred (fold_left Qplus (map snd votes) 0) in
  0 < qf total 1%Z -> total <= 2 * qf total 1%Z ->
  total < 2 * coalition_weight [c] votes ->
  let t := stv cf votes 1 [] caps in
  t_stop t = None -> t_seats t = [(c, 1%Z)].
Proof.
  intros Hstep Hqf Hcaps Hw total Hq Hhalf Hmaj t Hstop.
  destruct (initial_maj votes caps c Hcaps Hw Hmaj) as [I Hpos]. fold total in I, Hpos.
  assert (Htot : Qeq_bool total 0 = false).
  { apply not_true_iff_false. intros H. apply Qeq_bool_iff in H. lra. }
  unfold t, stv in *. fold total in Hstop |- *.
  exact (run_maj cf Hstep qf Hqf total Htot Hq Hhalf caps c _ _ _ I Hstop).
Qed.

(* Droop quota, whole numbers of first-choice votes: c is elected at the first count, no condition on how
   the count ends (a second candidate stands - otherwise the shortcut seats c) *)
Theorem majority_ballots_droop cf (votes : list (ballot * Q)) (caps : list (C * Z)) (c c2 : C) (z : Z) :
  c_accept_equal cf = true -> c_quota cf = Some droop ->
  (forall x, In x (all_ranked_candidates votes) -> dget caps x = Some 1%Z) ->
  (forall b w, In (b, w) votes -> 0 <= w) ->
  let total := Qred (fold_left Qplus (map snd votes) 0) in
  coalition_weight [c] votes == inject_Z z -> total < 2 * inject_Z z ->
  In c2 (all_ranked_candidates votes) -> c2 <> c ->
  let t := stv cf votes 1 [] caps in
  t_seats t = [(c, 1%Z)] /\ t_stop t = None.
Proof.
  intros Hae Hqf Hcaps Hw total Hint Hmaj Hc2 Hne t.
  assert (Hmaj' : total < 2 * coalition_weight [c] votes) by (rewrite Hint; exact Hmaj).
  destruct (initial_maj votes caps c Hcaps Hw Hmaj') as [I Hpos]. fold total in I, Hpos.
  assert (Htot : Qeq_bool total 0 = false).
  { apply not_true_iff_false. intros H. apply Qeq_bool_iff in H. lra. }
  pose proof (droop_one_gt_half total) as Hgt.
  pose proof (droop_one_le_majority total z Hmaj) as Hle.
  assert (Hq : 0 < droop total 1) by lra.
  set (a0 := initial_allocation votes) in *.
  pose proof (m_c _ _ _ _ I) as Hc. apply keys_some_akeys in Hc. unfold akeys in Hc.
  apply in_map_iff in Hc. destruct Hc as ([k p] & Hk & Hpin). simpl in Hk. subst k.
  pose proof (cwa_le_pile c a0 p (m_nd _ _ _ _ I) (m_nn _ _ _ _ I) Hpin) as Hcp.
  assert (Hcwa : inject_Z z <= cwa [c] a0).
  { destruct (initial_psc [c] votes (keys_some a0)) as (_ & _ & _ & P4); [discriminate|exact Hw|].
    fold a0 in P4. rewrite P4, Hint. lra. }
  unfold t, stv. fold total. fold a0.
  replace (4 * length (all_ranked_candidates votes) + 8)%nat with (S (4 * length (all_ranked_candidates votes) + 7)) by lia.
  apply (single_seat_run cf Hae droop Hqf a0 (m_nd _ _ _ _ I) total Htot Hq c (pile_sum p)) with (c2 := c2).
  - apply totals_of_pile, Hpin.
  - rewrite pile_sum_wsum. lra.
  - intros k x Hin Hk. destruct (totals_in a0 k x Hin) as (p' & Hp' & ->). rewrite pile_sum_wsum.
    pose proof (others_small c a0 k p' (m_nn _ _ _ _ I) Hp' Hk) as Ho.
    pose proof (m_cons _ _ _ _ I) as Hcons.
    assert (Hnn : pile_nonneg p').
    { pose proof (m_nn _ _ _ _ I) as Hall. unfold alloc_nonneg in Hall. rewrite Forall_forall in Hall. exact (Hall (k, p') Hp'). }
    destruct (cwp_bounds [c] p' Hnn) as [B1 B2]. split; [lra|lra].
  - intros k Hk. apply (m_caps _ _ _ _ I). apply keys_some_akeys, Hk.
  - split; [|exact Hne]. apply keys_some_akeys. unfold a0. rewrite initial_keys. exact Hc2.
Qed.
