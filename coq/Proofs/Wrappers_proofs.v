(* Lemmas about Model/Wrappers.v: nested induction over wrapper trees, extensionality of the
   result monad, the binding facts of each core.py signature, the composition theorem. *)
From Coq Require Import ZArith List Bool Lia.
From VL Require Import Model.Wrappers Proofs.WrapParts_proofs.
Import ListNotations.
Open Scope Z_scope.

(* ------------------------------------------------------------------ induction over trees *)
Section EvInd.
  Variable P : ev -> Prop.
  Hypothesis HLeaf : forall l k, P (Leaf l k).
  Hypothesis HPre : forall c e, P e -> P (PreConv c e).
  Hypothesis HPost : forall e c, P e -> P (PostConv e c).
  Hypothesis HFixed : forall e n, P e -> P (Fixed e n).
  Hypothesis HCond : forall el e d, P el -> P e -> P (Cond el e d).
  Hypothesis HByCons : forall e a, P e -> P (ByCons e a).
  Hypothesis HByConsD : forall e ae, P e -> P ae -> P (ByConsD e ae).
  Hypothesis HPreApp : forall e a, P e -> P (PreApp e a).
  Hypothesis HPreAppD : forall e ae, P e -> P ae -> P (PreAppD e ae).
  Hypothesis HRemApp : forall e, P e -> P (RemApp e).
  Hypothesis HByParty : forall ov al, P ov -> P al -> P (ByParty ov al).
  Hypothesis HByPartyS : forall ov, P ov -> P (ByPartyS ov).
  Hypothesis HMulti : forall rs d, Forall P rs -> P (Multi rs d).
  Hypothesis HTieBr : forall m b, P m -> P b -> P (TieBr m b).
  Hypothesis HPListC : forall p, P p -> P (PListC p).
  Hypothesis HPListO : forall p le c, P p -> P le -> P (PListO p le c).
  Hypothesis HVSys : forall e, P e -> P (VSys e).
  Hypothesis HUnused : forall rs qs d, Forall P rs -> P (Unused rs qs d).
  Hypothesis HAdjLeaf : forall c e, P e -> P (AdjLeaf c e).
  Hypothesis HAdjAllow : forall pe e, P pe -> P e -> P (AdjAllow pe e).
  Hypothesis HAdjLevel : forall pe e f, P pe -> P e -> P (AdjLevel pe e f).
  Hypothesis HByConsP : forall e a pre, P e -> P pre -> P (ByConsP e a pre).
  Hypothesis HAdjLevelC : forall ce oe e f, P ce -> P oe -> P e -> P (AdjLevelC ce oe e f).
  Hypothesis HAdjLevelC0 : forall ce e f, P ce -> P e -> P (AdjLevelC0 ce e f).

  Fixpoint ev_ind' (t : ev) : P t :=
    match t with
    | Leaf l k => HLeaf l k
    | PreConv c e => HPre c e (ev_ind' e)
    | PostConv e c => HPost e c (ev_ind' e)
    | Fixed e n => HFixed e n (ev_ind' e)
    | Cond el e d => HCond el e d (ev_ind' el) (ev_ind' e)
    | ByCons e a => HByCons e a (ev_ind' e)
    | ByConsD e ae => HByConsD e ae (ev_ind' e) (ev_ind' ae)
    | PreApp e a => HPreApp e a (ev_ind' e)
    | PreAppD e ae => HPreAppD e ae (ev_ind' e) (ev_ind' ae)
    | RemApp e => HRemApp e (ev_ind' e)
    | ByParty ov al => HByParty ov al (ev_ind' ov) (ev_ind' al)
    | ByPartyS ov => HByPartyS ov (ev_ind' ov)
    | Multi rs d =>
        HMulti rs d ((fix go (l : list ev) : Forall P l :=
                        match l with
                        | [] => Forall_nil P
                        | s :: r => Forall_cons s (ev_ind' s) (go r)
                        end) rs)
    | TieBr m b => HTieBr m b (ev_ind' m) (ev_ind' b)
    | PListC p => HPListC p (ev_ind' p)
    | PListO p le c => HPListO p le c (ev_ind' p) (ev_ind' le)
    | VSys e => HVSys e (ev_ind' e)
    | Unused rs qs d =>
        HUnused rs qs d ((fix go (l : list ev) : Forall P l :=
                            match l with
                            | [] => Forall_nil P
                            | s :: r => Forall_cons s (ev_ind' s) (go r)
                            end) rs)
    | AdjLeaf c e => HAdjLeaf c e (ev_ind' e)
    | AdjAllow pe e => HAdjAllow pe e (ev_ind' pe) (ev_ind' e)
    | AdjLevel pe e f => HAdjLevel pe e f (ev_ind' pe) (ev_ind' e)
    | ByConsP e a pre => HByConsP e a pre (ev_ind' e) (ev_ind' pre)
    | AdjLevelC ce oe e f => HAdjLevelC ce oe e f (ev_ind' ce) (ev_ind' oe) (ev_ind' e)
    | AdjLevelC0 ce e f => HAdjLevelC0 ce e f (ev_ind' ce) (ev_ind' e)
    end.
End EvInd.

(* ------------------------------------------------------------------ extensionality *)
Lemma rbind_ext : forall {X Y} (m : res X) (f g : X -> res Y),
  (forall x, f x = g x) -> m >>= f = m >>= g.
Proof. intros X Y [x|e] f g H; simpl; auto. Qed.

Lemma map_res_ext : forall {X Y} (f g : X -> res Y) l,
  (forall x, f x = g x) -> map_res f l = map_res g l.
Proof.
  intros X Y f g l H. induction l as [|x t IH]; simpl; [reflexivity|].
  rewrite H, IH. reflexivity.
Qed.

Lemma fold_left_ext : forall {A B} (f g : A -> B -> A) l a,
  (forall a b, f a b = g a b) -> fold_left f l a = fold_left g l a.
Proof.
  intros A B f g l. induction l as [|x t IH]; intros a H; simpl; [reflexivity|].
  rewrite H. apply IH. exact H.
Qed.

Lemma break_ties_g_ext : forall s1 s2 f g votes main,
  (forall v x, s1 v x = s2 v x) -> (forall sub n, f sub n = g sub n) ->
  break_ties_g s1 f votes main = break_ties_g s2 g votes main.
Proof.
  intros s1 s2 f g votes main Hs H. unfold break_ties_g.
  destruct main as [| | |l|d|]; try reflexivity.
  - destruct (existsb _ l); [|reflexivity].
    apply rbind_ext. intro ties. f_equal. apply fold_left_ext. intros a b.
    apply rbind_ext. intro cur. rewrite Hs. apply rbind_ext. intro sub. rewrite H. reflexivity.
  - destruct (existsb _ d); [|reflexivity].
    apply rbind_ext. intro ties. f_equal. apply fold_left_ext. intros a b.
    apply rbind_ext. intro cur. rewrite Hs. apply rbind_ext. intro sub. rewrite H. reflexivity.
Qed.

Lemma break_ties_ext : forall f g votes main,
  (forall sub n, f sub n = g sub n) -> break_ties f votes main = break_ties g votes main.
Proof. intros f g votes main H. unfold break_ties. apply break_ties_g_ext; [reflexivity|exact H]. Qed.

(* ------------------------------------------------------------------ the declarative parts of the spec side = the code-shaped parts *)
Lemma break_ties_s : forall f g votes main,
  (forall sub n, f sub n = g sub n) -> break_ties f votes main = break_ties_g subset_s g votes main.
Proof.
  intros f g votes main H. unfold break_ties. apply break_ties_g_ext; [|exact H].
  intros v x. symmetry. apply subset_s_eq.
Qed.

Lemma sum_party_s : forall d v, sum_party_g totals_s d v = sum_party d v.
Proof.
  unfold sum_party. induction d as [|d IH]; intro v; cbn [sum_party_g]; [reflexivity|].
  apply rbind_ext. intro dd.
  rewrite (map_res_ext _ (fun kv => sum_party_g vote_totals d (snd kv) >>= fun x => Ok (fst kv, x)))
    by (intro kv; rewrite IH; reflexivity).
  apply rbind_ext. intro dd'. apply totals_s_eq.
Qed.

Lemma party_votes_s : forall d p, party_votes_g subset_s d p = party_votes d p.
Proof.
  intros d p. unfold party_votes, party_votes_g. f_equal. apply map_res_ext. intro kv.
  rewrite subset_s_eq. reflexivity.
Qed.

(* ------------------------------------------------------------------ Conditioned: restriction at depth *)
Lemma elim_party_map_depth : forall d v ne,
  elim_party d v ne = map_depth d (fun x => subset_s x ne) v.
Proof.
  induction d as [|d IH]; intros v ne; simpl; [symmetry; apply subset_s_eq|].
  apply rbind_ext. intro dd. f_equal. apply map_res_ext. intro kv. rewrite IH. reflexivity.
Qed.

(* ------------------------------------------------------------------ binding facts *)
Definition odef (o : option val) (d : val) : val := match o with Some v => v | None => d end.

Lemma mk_call_allkw : forall sa, mk_call AllKw sa = PA [] sa.
Proof. intro sa. unfold mk_call. reflexivity. Qed.

Lemma mk_call_noseats : forall st sa, k_seats sa = None -> mk_call st sa = PA [] sa.
Proof. intros st sa H. unfold mk_call. rewrite H. destruct st; reflexivity. Qed.

Ltac kw_cases := intros st [s p m pl lv cl]; destruct st, s, p, m, pl, lv, cl; reflexivity.

Lemma bind_style_constit : forall st sa, bind sig_constit (mk_call st sa) = accept sig_constit sa.
Proof. kw_cases. Qed.
Lemma bind_style_distr : forall st sa, bind sig_distr (mk_call st sa) = accept sig_distr sa.
Proof. kw_cases. Qed.
Lemma bind_style_cond : forall st sa, bind sig_cond (mk_call st sa) = accept sig_cond sa.
Proof. kw_cases. Qed.
Lemma bind_style_plist : forall st sa, bind sig_plist (mk_call st sa) = accept sig_plist sa.
Proof. kw_cases. Qed.

Lemma bind_style_adj : forall st sa, bind sig_adj (mk_call st sa) = accept sig_adj sa.
Proof. kw_cases. Qed.

Lemma accept_adj : forall s p m pl lv cl,
  accept sig_adj (KW s p m pl lv cl) =
  match s, p, pl, lv, cl with
  | Some n, Some g, None, None, None =>
      Ok (BD (KW (Some n) (Some g) (Some (odef m (VDict []))) None None None) [] kw_none)
  | _, _, _, _, _ => raise E_TYPE
  end.
Proof. intros s p m pl lv cl. destruct s, p, m, pl, lv, cl; reflexivity. Qed.

Lemma accept_constit : forall s p m pl lv cl,
  accept sig_constit (KW s p m pl lv cl) =
  match pl, lv, cl with
  | None, None, None =>
      Ok (BD (KW (Some (odef s VNone)) (Some (odef p (VDict []))) (Some (odef m (VDict []))) None None None) [] kw_none)
  | _, _, _ => raise E_TYPE
  end.
Proof. intros s p m pl lv cl. destruct s, p, m, pl, lv, cl; reflexivity. Qed.

Lemma accept_distr : forall s p m pl lv cl,
  accept sig_distr (KW s p m pl lv cl) =
  match s, pl, lv, cl with
  | Some n, None, None, None =>
      Ok (BD (KW (Some n) (Some (odef p (VDict []))) (Some (odef m (VDict []))) None None None) [] kw_none)
  | _, _, _, _ => raise E_TYPE
  end.
Proof. intros s p m pl lv cl. destruct s, p, m, pl, lv, cl; reflexivity. Qed.

Lemma accept_cond : forall s p m pl lv cl,
  accept sig_cond (KW s p m pl lv cl) =
  Ok (BD (KW (Some (odef s VNone)) (Some (odef p (VDict []))) None None None None) [] (KW None None m pl lv cl)).
Proof. intros s p m pl lv cl. destruct s, p, m, pl, lv, cl; reflexivity. Qed.

Lemma accept_plist : forall s p m pl lv cl,
  accept sig_plist (KW s p m pl lv cl) =
  match s, pl with
  | Some n, Some l =>
      Ok (BD (KW (Some n) None None (Some l) (Some (odef lv VNone)) None) [] (KW None p m None None cl))
  | _, _ => raise E_TYPE
  end.
Proof. intros s p m pl lv cl. destruct s, p, m, pl, lv, cl; reflexivity. Qed.

Lemma bind_fixed_noseats : forall p m pl lv cl,
  bind sig_fixed (PA [] (KW None p m pl lv cl)) = Ok (BD kw_none [] (KW None p m pl lv cl)).
Proof. intros p m pl lv cl. destruct p, m, pl, lv, cl; reflexivity. Qed.

(* a leaf: positional seat count and keyword seat count bind alike when the leaf takes seats *)
Lemma bind_leaf_style : forall k st sa l,
  fits (Leaf l k) sa = true -> bind (lsig k) (mk_call st sa) = accept (lsig k) sa.
Proof.
  intros k st [s p m pl lv cl] l H.
  destruct st; [|rewrite mk_call_allkw; reflexivity].
  destruct s as [n|]; [|reflexivity].
  destruct k; try (unfold fits in H; simpl in H; discriminate H);
    destruct p, m, pl, lv, cl; reflexivity.
Qed.

(* ------------------------------------------------------------------ fits *)
Lemma opt_takes : forall (o : option val) b,
  (match o with Some _ => b | None => true end) = true <-> (o = None \/ b = true).
Proof.
  intros o b. destruct o, b; simpl; split; intro H; auto; try discriminate H;
    destruct H as [H|H]; discriminate H.
Qed.

Lemma fits_split : forall t s p m pl lv cl,
  fits t (KW s p m pl lv cl) = true <->
  (s = None \/ takes t KSeats = true) /\ (p = None \/ takes t KPrev = true) /\ (m = None \/ takes t KMax = true) /\
  (pl = None \/ takes t KPl = true) /\ (lv = None \/ takes t KLv = true) /\ (cl = None \/ takes t KCl = true).
Proof.
  intros t s p m pl lv cl. unfold fits. simpl.
  rewrite !andb_true_iff, !opt_takes. tauto.
Qed.

(* ------------------------------------------------------------------ seat counts *)
Lemma seat_any_ok : forall t, seat_any t = true -> forall v, seat_ok t v = true.
Proof.
  induction t using ev_ind'; cbn [seat_any seat_ok]; intros Ha v; auto.
  - destruct (takes t2 KSeats && negb (is_none v)); auto.
  - rewrite Ha. destruct v; reflexivity.
  - rewrite Ha. destruct v; reflexivity.
  - rewrite Ha. apply orb_true_r.
  - rewrite forallb_forall in *. rewrite Forall_forall in H. intros x Hx. apply H; auto.
  - destruct (takes t2 KSeats && negb (is_none v)); auto.
Qed.

Lemma seated_seat_any : forall t, seated t = true -> seat_any t = true.
Proof.
  induction t using ev_ind'; cbn [seated seat_any]; intros Hs; auto;
    repeat rewrite andb_true_iff in Hs; try tauto.
  rewrite forallb_forall in *. rewrite Forall_forall in H. intros x Hx. apply H; auto.
Qed.

(* ------------------------------------------------------------------ the seat count adjusters depend on their evaluator only through its answers *)
Lemma calc_allow_ext : forall E F n prev mx, (forall a b, E a b = F a b) -> calc_allow E n prev mx = calc_allow F n prev mx.
Proof. intros E F n prev mx H. unfold calc_allow. rewrite H. reflexivity. Qed.

Lemma level_loop_ext : forall fuel E F mx pmins adj prop, (forall a b, E a b = F a b) ->
  level_loop fuel E mx pmins adj prop = level_loop fuel F mx pmins adj prop.
Proof.
  induction fuel as [|f IH]; intros E F mx pmins adj prop H; cbn [level_loop]; [reflexivity|].
  apply rbind_ext. intros [|]; [|reflexivity].
  apply rbind_ext. intro adj'. rewrite H. apply rbind_ext. intro prop'. apply IH. exact H.
Qed.

Lemma calc_level_ext : forall fuel E F n prev mx, (forall a b, E a b = F a b) ->
  calc_level fuel E n prev mx = calc_level fuel F n prev mx.
Proof.
  intros fuel E F n prev mx H. unfold calc_level. rewrite H.
  apply rbind_ext; intro prop. apply rbind_ext; intro propd. apply rbind_ext; intro lowest.
  apply rbind_ext; intro pd. apply rbind_ext; intro drop. apply rbind_ext; intro adj0.
  rewrite (level_loop_ext fuel E F mx lowest adj0 prop H). reflexivity.
Qed.

Lemma calc_level_byc_ext : forall fuel CE CE' PV PV' OE OE' n prev mx,
  (forall a b, CE a b = CE' a b) -> PV = PV' -> (forall pv a b, OE pv a b = OE' pv a b) ->
  calc_level_byc fuel CE PV OE n prev mx = calc_level_byc fuel CE' PV' OE' n prev mx.
Proof.
  intros fuel CE CE' PV PV' OE OE' n prev mx H1 H2 H3. subst PV'. unfold calc_level_byc. rewrite H1.
  apply rbind_ext; intro cr. apply rbind_ext; intro crd. apply rbind_ext; intro minima.
  apply rbind_ext; intro lowest0. apply rbind_ext; intro pd. apply rbind_ext; intro lowest.
  apply rbind_ext; intro drop. apply rbind_ext; intro adj0. apply rbind_ext; intro pv.
  rewrite H3. apply rbind_ext; intro prop.
  rewrite (level_loop_ext fuel (OE pv) (OE' pv) mx lowest adj0 prop (H3 pv)). reflexivity.
Qed.

(* ------------------------------------------------------------------ the composition theorem *)
Ltac kw_simpl' :=
  cbn [nget sa_get kget kset b_named b_args b_kwargs k_seats k_prev k_max k_pl k_lv k_cl kw_none odef
       only sa_npm call_npm call_n call0 fst snd].
Ltac kw_simpl :=
  cbn [rbind nget sa_get kget kset b_named b_args b_kwargs k_seats k_prev k_max k_pl k_lv k_cl kw_none odef
       only sa_npm call_npm call_n call0 fst snd].

Section Compose.
  Variable leaf : positive -> val -> list (option val) -> res val.
  Variable conv : positive -> val -> res val.
  Notation RI := (run_impl leaf conv).
  Notation RS := (run_spec leaf conv).

  Definition agree (t : ev) : Prop :=
    forall st sa votes, fits t sa = true -> seat_fits t sa = true -> RI t votes (mk_call st sa) = RS t votes sa.

  Lemma agree_npm : forall e v n p m, agree e -> takes e KSeats = true -> takes e KPrev = true -> takes e KMax = true ->
    seat_ok e n = true -> RI e v (call_npm n p m) = RS e v (sa_npm n p m).
  Proof.
    intros e v n p m H Hs Hp Hm Hn. apply (H PosSeats (sa_npm n p m) v); [|exact Hn].
    apply fits_split. repeat split; auto.
  Qed.
  Lemma agree_n : forall e v n, agree e -> takes e KSeats = true -> seat_ok e n = true ->
    RI e v (call_n n) = RS e v (only KSeats n).
  Proof.
    intros e v n H Hs Hn. apply (H PosSeats (only KSeats n) v); [|exact Hn].
    apply fits_split. repeat split; auto.
  Qed.
  Lemma agree_0 : forall e v, agree e -> seat_ok e VNone = true -> RI e v call0 = RS e v kw_none.
  Proof. intros e v H Hn. apply (H AllKw kw_none v); [|exact Hn]. apply fits_split. repeat split; auto. Qed.
  Lemma agree_kw : forall e v sa, agree e -> fits e sa = true -> seat_fits e sa = true -> RI e v (PA [] sa) = RS e v sa.
  Proof. intros e v sa H Hf Hn. rewrite <- mk_call_allkw. apply H; assumption. Qed.
  Lemma agree_kw_npm : forall e v n p m, agree e -> takes e KSeats = true -> takes e KPrev = true -> takes e KMax = true ->
    seat_ok e n = true ->
    RI e v (PA [] (KW (Some n) (Some p) (Some m) None None None)) = RS e v (sa_npm n p m).
  Proof.
    intros e v n p m H Hs Hp Hm Hn. apply agree_kw; [exact H| |exact Hn].
    apply fits_split. repeat split; auto.
  Qed.

  Lemma case_leaf : forall l k, agree (Leaf l k).
  Proof.
    intros l k st sa votes Hf _. cbn [run_impl run_spec].
    rewrite (bind_leaf_style k st sa l Hf). reflexivity.
  Qed.

  Lemma case_pre : forall c e, agree e -> agree (PreConv c e).
  Proof.
    intros c e IH st sa votes Hf Hn. cbn [run_impl run_spec].
    apply rbind_ext. intro v. apply IH; [exact Hf|exact Hn].
  Qed.

  Lemma case_post : forall e c, agree e -> agree (PostConv e c).
  Proof.
    intros e c IH st sa votes Hf Hn. cbn [run_impl run_spec].
    rewrite (IH st sa votes Hf Hn). reflexivity.
  Qed.

  Lemma case_vsys : forall e, agree e -> agree (VSys e).
  Proof. intros e IH st sa votes Hf Hn. cbn [run_impl run_spec]. apply IH; [exact Hf|exact Hn]. Qed.

  Lemma case_fixed : forall e n, agree e -> takes e KSeats = true -> seat_ok e n = true -> agree (Fixed e n).
  Proof.
    intros e n IH Hs Hn st [s p m pl lv cl] votes Hf _.
    apply fits_split in Hf. destruct Hf as [Hf1 [Hf2 [Hf3 [Hf4 [Hf5 Hf6]]]]].
    cbn [takes] in *.
    destruct Hf1 as [Hf1|Hf1]; [subst s|cbn [kw_eqb negb andb] in Hf1; discriminate Hf1].
    rewrite mk_call_noseats by reflexivity.
    cbn [run_impl run_spec k_seats]. rewrite bind_fixed_noseats. kw_simpl.
    apply (IH PosSeats (KW (Some n) p m pl lv cl) votes); [|exact Hn].
    apply fits_split. cbn [kw_eqb negb andb] in *. repeat split; auto.
  Qed.

  Ltac district_loop IH Hs Hpm Hip Hany :=
    apply rbind_ext; intro apportionment; apply rbind_ext; intro dvs; f_equal;
    apply map_res_ext; intro kv;
    apply rbind_ext; intro ad; apply rbind_ext; intro pd; apply rbind_ext; intro md;
    match goal with |- context [is_zero ?x] => destruct (is_zero x) end; [reflexivity|];
    f_equal; rewrite Hip;
    match goal with |- context [takes ?e KPrev] => destruct (takes e KPrev) eqn:Hp end;
    [apply agree_npm; auto | apply agree_n; auto].

  Lemma case_bycons : forall e a, agree e -> takes e KSeats = true -> (takes e KPrev = true -> takes e KMax = true) ->
    acc_prev e = takes e KPrev -> (forall v, seat_ok e v = true) -> agree (ByCons e a).
  Proof.
    intros e a IH Hs Hpm Hip Hany st [s p m pl lv cl] votes Hf _.
    cbn [run_impl run_spec]. rewrite bind_style_constit, accept_constit.
    destruct pl, lv, cl; try reflexivity. cbn [rbind]. kw_simpl'.
    destruct a as [|n|d]; [destruct s as [[| | | | |]|]|..]; kw_simpl'; district_loop IH Hs Hpm Hip Hany.
  Qed.

  (* ByConstituency with a preselector: the national totals through the preselector, every constituency on its votes
     restricted to the preselected candidates *)
  Ltac district_loop_p IH Hs Hpm Hip Hany :=
    apply rbind_ext; intro dvs; f_equal;
    apply map_res_ext; intro kv;
    apply rbind_ext; intro ad; apply rbind_ext; intro pd; apply rbind_ext; intro md;
    match goal with |- context [is_zero ?x] => destruct (is_zero x) end; [reflexivity|];
    rewrite subset_s_eq; apply rbind_ext; intro sv;
    f_equal; rewrite Hip;
    match goal with |- context [takes ?e KPrev] => destruct (takes e KPrev) eqn:Hp end;
    [apply agree_npm; auto | apply agree_n; auto].

  Lemma case_byconsp : forall e a pre, agree e -> agree pre -> takes e KSeats = true ->
    (takes e KPrev = true -> takes e KMax = true) -> acc_prev e = takes e KPrev -> acc_seats pre = takes pre KSeats ->
    (forall v, seat_ok e v = true) -> agree (ByConsP e a pre).
  Proof.
    intros e a pre IH IHp Hs Hpm Hip Hips Hany st [s p m pl lv cl] votes Hf Hsf.
    cbn [run_impl run_spec]. rewrite bind_style_constit, accept_constit.
    destruct pl, lv, cl; try reflexivity. cbn [rbind]. kw_simpl'.
    unfold seat_fits, seat_of in Hsf; cbn [seat_ok k_seats] in Hsf.
    change (match s with Some v => v | None => VNone end) with (odef s VNone) in Hsf.
    assert (Hpre : forall nat_votes,
              (if acc_seats pre && negb (is_none (odef s VNone)) then RI pre nat_votes (call_n (odef s VNone))
               else RI pre nat_votes call0)
              = RS pre nat_votes (kset kw_none KSeats (if takes pre KSeats then given (odef s VNone) else None))).
    { intro nv. rewrite Hips. unfold given.
      destruct (takes pre KSeats) eqn:Hts, (is_none (odef s VNone)) eqn:Hn; cbn [andb negb] in *; kw_simpl';
        first [apply agree_n; auto | apply agree_0; auto]. }
    destruct a as [|n|d]; [destruct s as [[| | | | |]|]|..]; kw_simpl';
      apply rbind_ext; intro apportionment; rewrite totals_s_eq; apply rbind_ext; intro nat_votes;
      cbn [odef] in Hpre; rewrite Hpre; apply rbind_ext; intro preselected;
      district_loop_p IH Hs Hpm Hip Hany.
  Qed.

  Ltac first_part tac :=
    match goal with |- ?a >>= ?f = ?b >>= ?g => let Hab := fresh "Hab" in
      assert (Hab : a = b); [tac | try rewrite Hab; clear Hab] end.

  (* the apportioner may be seatless: a seat NUMBER reaches it only when it takes one ([seat_fits]) *)
  Lemma case_byconsd : forall e ae, agree e -> agree ae -> takes e KSeats = true ->
    (takes e KPrev = true -> takes e KMax = true) -> acc_prev e = takes e KPrev ->
    (forall v, seat_ok e v = true) -> (forall v, seat_ok ae v = true) -> agree (ByConsD e ae).
  Proof.
    intros e ae IH IHa Hs Hpm Hip Hany Hanya st [s p m pl lv cl] votes Hf Hsf.
    cbn [run_impl run_spec]. rewrite bind_style_constit, accept_constit.
    destruct pl, lv, cl; try reflexivity. cbn [rbind]. kw_simpl'.
    destruct s as [[| | | | |]|]; unfold seat_fits, seat_of in Hsf; cbn [seat_ok k_seats] in Hsf; kw_simpl';
      first_part ltac:(try reflexivity; apply rbind_ext; intro cv; first [apply agree_n; auto | apply agree_0; auto | reflexivity]);
      district_loop IH Hs Hpm Hip Hany.
  Qed.

  Lemma case_preapp : forall e a, agree e -> takes_spm e = true -> (forall v, seat_ok e v = true) -> agree (PreApp e a).
  Proof.
    intros e a IH Hspm Hany st [s p m pl lv cl] votes Hf _.
    unfold takes_spm in Hspm. rewrite !andb_true_iff in Hspm. destruct Hspm as [[Hs Hp] Hm].
    cbn [run_impl run_spec]. rewrite bind_style_constit, accept_constit.
    destruct pl, lv, cl; try reflexivity. cbn [rbind]. kw_simpl'.
    destruct a as [|n|d]; [destruct s as [[| | | | |]|]|..]; kw_simpl';
      apply rbind_ext; intro app; apply agree_kw_npm; auto.
  Qed.

  Lemma case_preappd : forall e ae, agree e -> agree ae -> takes_spm e = true ->
    (forall v, seat_ok e v = true) -> (forall v, seat_ok ae v = true) -> agree (PreAppD e ae).
  Proof.
    intros e ae IH IHa Hspm Hany Hanya st [s p m pl lv cl] votes Hf Hsf.
    unfold takes_spm in Hspm. rewrite !andb_true_iff in Hspm. destruct Hspm as [[Hs Hp] Hm].
    cbn [run_impl run_spec]. rewrite bind_style_constit, accept_constit.
    destruct pl, lv, cl; try reflexivity. cbn [rbind]. kw_simpl'.
    destruct s as [[| | | | |]|]; unfold seat_fits, seat_of in Hsf; cbn [seat_ok k_seats] in Hsf; kw_simpl';
      first_part ltac:(try reflexivity; apply rbind_ext; intro cv; first [apply agree_n; auto | apply agree_0; auto | reflexivity]);
      apply rbind_ext; intro app; apply agree_kw_npm; auto.
  Qed.

  Lemma case_remapp : forall e, agree e -> takes_spm e = true -> (forall v, seat_ok e v = true) -> agree (RemApp e).
  Proof.
    intros e IH Hspm Hany st [s p m pl lv cl] votes Hf _.
    unfold takes_spm in Hspm. rewrite !andb_true_iff in Hspm. destruct Hspm as [[Hs Hp] Hm].
    cbn [run_impl run_spec]. rewrite bind_style_constit, accept_constit.
    destruct pl, lv, cl; try reflexivity. cbn [rbind]. kw_simpl'.
    apply rbind_ext; intro total. apply agree_kw_npm; auto.
  Qed.

  Lemma case_tiebr : forall m b, agree m -> agree b -> takes b KSeats = true -> (forall v, seat_ok b v = true) ->
    agree (TieBr m b).
  Proof.
    intros m b IHm IHb Hb Hany st sa votes Hf Hsf. cbn [run_impl run_spec].
    rewrite (IHm st sa votes Hf Hsf). apply rbind_ext. intro main.
    apply break_ties_s. intros sub n. apply agree_n; auto.
  Qed.

  Lemma case_multi : forall rs d, Forall (fun s => agree s /\ takes_spm s = true) rs -> agree (Multi rs d).
  Proof.
    intros rs d HF st [s p m pl lv cl] votes Hf Hsf.
    cbn [run_impl run_spec]. rewrite bind_style_distr, accept_distr.
    destruct s as [n|], pl, lv, cl; try reflexivity. cbn [rbind]. kw_simpl'.
    apply rbind_ext; intro el0. apply rbind_ext; intro svs. f_equal.
    unfold seat_fits, seat_of in Hsf; cbn [seat_ok k_seats] in Hsf.
    clear Hf. revert svs el0. induction HF as [|x rs' [Hx Hspm] HF IH]; intros svs el0; [reflexivity|].
    destruct svs as [|sv svs']; [reflexivity|].
    cbn [forallb] in Hsf. apply andb_true_iff in Hsf. destruct Hsf as [Hx1 Hsf].
    unfold takes_spm in Hspm. rewrite !andb_true_iff in Hspm. destruct Hspm as [[Hs Hp] Hm].
    cbn [length]. rewrite (agree_npm x sv n (VDict el0) (odef m (VDict [])) Hx Hs Hp Hm Hx1).
    apply rbind_ext; intro stage_res. apply rbind_ext; intro el1. apply IH. exact Hsf.
  Qed.

  (* UnusedVotesDistributor: every stage is handed the seats still to be given, nothing else *)
  Lemma case_unused : forall rs qs d,
    Forall (fun s => agree s /\ takes s KSeats = true /\ forall v, seat_ok s v = true) rs -> agree (Unused rs qs d).
  Proof.
    intros rs qs d HF st [s p m pl lv cl] votes Hf _.
    cbn [run_impl run_spec]. rewrite bind_style_distr, accept_distr.
    destruct s as [n|], pl, lv, cl; try reflexivity. cbn [rbind]. kw_simpl'.
    apply rbind_ext; intro el0.
    destruct (truthy (odef m (VDict []))); [reflexivity|]. f_equal.
    clear Hf. generalize (map Some qs ++ [None]). intro oqs. revert oqs votes n el0.
    induction HF as [|x rs' [Hx [Hs Hany]] HF IH]; intros oqs votes n el0; [reflexivity|].
    destruct oqs as [|q oqs']; [reflexivity|].
    rewrite (agree_n x votes n Hx Hs (Hany n)).
    apply rbind_ext; intro stage_res. apply rbind_ext; intro srd. apply rbind_ext; intro el1.
    destruct q as [qf|]; [|apply IH].
    apply rbind_ext; intro votes'. apply rbind_ext; intro n'. apply IH.
  Qed.

  Lemma case_cond : forall el e d, agree el -> agree e -> acc_prev el = takes el KPrev ->
    acc_seats e = takes e KSeats -> acc_prev e = takes e KPrev -> seat_ok el VNone = true -> agree (Cond el e d).
  Proof.
    intros el e d IHel IHe H1 H2 H3 Hel st [s p m pl lv cl] votes Hf Hsf.
    apply fits_split in Hf. cbn [takes kw_eqb orb] in Hf. destruct Hf as [_ [_ [Hm [Hpl [Hlv Hcl]]]]].
    cbn [run_impl run_spec]. rewrite bind_style_cond, accept_cond. cbn [rbind]. kw_simpl'.
    rewrite !sum_party_s.
    apply rbind_ext; intro sv. apply rbind_ext; intro sp.
    rewrite H1, H2, H3.
    first_part ltac:(destruct (takes el KPrev) eqn:Hp;
                     [apply agree_kw; auto; apply fits_split; kw_simpl'; repeat split; auto | apply agree_0; auto]).
    apply rbind_ext; intro ne. rewrite elim_party_map_depth. apply rbind_ext; intro restricted.
    unfold given.
    unfold seat_fits, seat_of in Hsf; cbn [seat_ok k_seats] in Hsf.
    change (match s with Some v => v | None => VNone end) with (odef s VNone) in Hsf.
    destruct (takes e KSeats) eqn:Hts, (takes e KPrev) eqn:Htp, (is_none (odef s VNone)) eqn:Hn;
      cbn [andb negb] in *; kw_simpl';
      match goal with |- _ = run_spec _ _ e ?r ?sa =>
        let Hfit := fresh "Hfit" in
        assert (Hfit : fits e sa = true);
        [ apply fits_split; kw_simpl'; repeat split; auto
        | first [ exact (IHe PosSeats sa r Hfit Hsf) | exact (IHe AllKw sa r Hfit Hsf) ] ] end.
  Qed.

  Ltac party_loop Hip :=
    apply rbind_ext; intro ores; apply rbind_ext; intro dvs; f_equal;
    apply fold_left_ext; intros acc ps;
    apply rbind_ext; intro results; rewrite party_votes_s; apply rbind_ext; intro pv;
    f_equal; f_equal; rewrite Hip;
    match goal with |- context [takes ?e KPrev] => destruct (takes e KPrev) eqn:Hp end;
    [ apply rbind_ext; intro pp; apply rbind_ext; intro pm; apply agree_npm; auto
    | apply agree_n; auto ].

  (* the overall evaluator may be seatless: it is handed a seat count only when one is given, and then it must take one *)
  Lemma case_byparty : forall ov al, agree ov -> agree al -> takes al KSeats = true ->
    (takes al KPrev = true -> takes al KMax = true) -> acc_prev al = takes al KPrev ->
    (forall v, seat_ok ov v = true) -> (forall v, seat_ok al v = true) -> agree (ByParty ov al).
  Proof.
    intros ov al IHo IHa Hs Hpm Hip Hanyo Hany st [s p m pl lv cl] votes Hf Hsf.
    cbn [run_impl run_spec]. rewrite bind_style_constit, accept_constit.
    destruct pl, lv, cl; try reflexivity. cbn [rbind]. kw_simpl'.
    rewrite totals_s_eq. apply rbind_ext; intro ovotes. unfold given.
    unfold seat_fits, seat_of in Hsf; cbn [seat_ok k_seats] in Hsf.
    change (match s with Some v => v | None => VNone end) with (odef s VNone) in Hsf.
    destruct (is_none (odef s VNone)) eqn:Hn; cbn [orb] in Hsf; kw_simpl';
      [rewrite (agree_0 ov ovotes IHo (Hanyo VNone))
      | rewrite (agree_n ov ovotes (odef s VNone) IHo Hsf (Hanyo _))]; kw_simpl';
      party_loop Hip.
  Qed.

  Lemma case_bypartys : forall ov, agree ov -> takes ov KSeats = true ->
    (takes ov KPrev = true -> takes ov KMax = true) -> acc_prev ov = takes ov KPrev ->
    (forall v, seat_ok ov v = true) -> agree (ByPartyS ov).
  Proof.
    intros ov IHo Hs Hpm Hip Hany st [s p m pl lv cl] votes Hf _.
    cbn [run_impl run_spec]. rewrite bind_style_constit, accept_constit.
    destruct pl, lv, cl; try reflexivity. cbn [rbind]. kw_simpl'.
    rewrite totals_s_eq. apply rbind_ext; intro ovotes. unfold given.
    destruct (is_none (odef s VNone)) eqn:Hn; kw_simpl';
      [rewrite (agree_0 ov ovotes IHo (Hany VNone)) | rewrite (agree_n ov ovotes (odef s VNone) IHo Hs (Hany _))]; kw_simpl';
      party_loop Hip.
  Qed.

  Lemma plist_party_call : forall p, agree p -> takes p KSeats = true ->
    forall n pg m l lv cl votes,
    fits (PListC p) (KW (Some n) pg m (Some l) lv cl) = true -> seat_ok p n = true ->
    RI p votes (PA [n] (KW None pg m None None cl)) = RS p votes (KW (Some n) pg m None None cl).
  Proof.
    intros p IH Hs n pg m l lv cl votes Hf Hn.
    apply fits_split in Hf. cbn [takes kw_eqb orb] in Hf. destruct Hf as [_ [Hp [Hm [_ [_ Hcl]]]]].
    apply (IH PosSeats (KW (Some n) pg m None None cl) votes); [|exact Hn].
    apply fits_split. repeat split; auto.
  Qed.

  Lemma case_plistc : forall p, agree p -> takes p KSeats = true -> agree (PListC p).
  Proof.
    intros p IH Hs st [s pg m pl lv cl] votes Hf Hsf.
    cbn [run_impl run_spec]. rewrite bind_style_plist, accept_plist.
    destruct s as [n|], pl as [l|]; try reflexivity. cbn [rbind]. kw_simpl'.
    rewrite (plist_party_call p IH Hs n pg m l lv cl votes Hf Hsf). reflexivity.
  Qed.

  Lemma case_plisto : forall p l c, agree p -> takes p KSeats = true -> agree (PListO p (Leaf l LOpen) c).
  Proof.
    intros p lf c IH Hs st [s pg m pl lv cl] votes Hf Hsf.
    cbn [run_impl run_spec]. rewrite bind_style_plist, accept_plist.
    destruct s as [n|], pl as [l|]; try reflexivity. cbn [rbind]. kw_simpl'.
    rewrite (plist_party_call p IH Hs n pg m l lv cl votes Hf Hsf). reflexivity.
  Qed.

  (* AdjustedSeatCount: the evaluator is run with the seat count the calculator adds, the gains and caps unchanged *)
  Lemma case_adjleaf : forall c e, agree e -> takes_spm e = true -> (forall v, seat_ok e v = true) -> agree (AdjLeaf c e).
  Proof.
    intros c e IH Hspm Hany st [s p m pl lv cl] votes Hf _.
    unfold takes_spm in Hspm. rewrite !andb_true_iff in Hspm. destruct Hspm as [[Hs Hp] Hm].
    cbn [run_impl run_spec]. rewrite bind_style_adj, accept_adj.
    destruct s as [n|], p as [g|], pl, lv, cl; try reflexivity. cbn [rbind]. kw_simpl'.
    apply rbind_ext; intro adj. apply rbind_ext; intro n'. apply agree_npm; auto.
  Qed.

  Lemma calc_call : forall pe votes n mx, agree pe -> takes pe KSeats = true -> takes pe KMax = true ->
    (forall v, seat_ok pe v = true) ->
    RI pe votes (PA [n] (only KMax mx)) = RS pe votes (KW (Some n) None (Some mx) None None None).
  Proof.
    intros pe votes n mx IH Hs Hm Hany.
    apply (IH PosSeats (KW (Some n) None (Some mx) None None None) votes); [|apply Hany].
    apply fits_split. repeat split; auto.
  Qed.

  Lemma case_adjallow : forall pe e, agree pe -> agree e -> takes pe KSeats = true -> takes pe KMax = true ->
    (forall v, seat_ok pe v = true) -> takes_spm e = true -> (forall v, seat_ok e v = true) -> agree (AdjAllow pe e).
  Proof.
    intros pe e IHp IH Hps Hpm Hanyp Hspm Hany st [s p m pl lv cl] votes Hf _.
    unfold takes_spm in Hspm. rewrite !andb_true_iff in Hspm. destruct Hspm as [[Hs Hp] Hm].
    cbn [run_impl run_spec]. rewrite bind_style_adj, accept_adj.
    destruct s as [n|], p as [g|], pl, lv, cl; try reflexivity. cbn [rbind]. kw_simpl'.
    rewrite (calc_allow_ext _ (fun n0 mx => RS pe votes (KW (Some n0) None (Some mx) None None None)))
      by (intros a b; apply calc_call; auto).
    apply rbind_ext; intro adj. apply rbind_ext; intro n'. apply agree_npm; auto.
  Qed.

  Lemma case_adjlevel : forall pe e f, agree pe -> agree e -> takes pe KSeats = true -> takes pe KMax = true ->
    (forall v, seat_ok pe v = true) -> takes_spm e = true -> (forall v, seat_ok e v = true) -> agree (AdjLevel pe e f).
  Proof.
    intros pe e f IHp IH Hps Hpm Hanyp Hspm Hany st [s p m pl lv cl] votes Hf _.
    unfold takes_spm in Hspm. rewrite !andb_true_iff in Hspm. destruct Hspm as [[Hs Hp] Hm].
    cbn [run_impl run_spec]. rewrite bind_style_adj, accept_adj.
    destruct s as [n|], p as [g|], pl, lv, cl; try reflexivity. cbn [rbind]. kw_simpl'.
    rewrite (calc_level_ext f _ (fun n0 mx => RS pe votes (KW (Some n0) None (Some mx) None None None)))
      by (intros a b; apply calc_call; auto).
    apply rbind_ext; intro adj. apply rbind_ext; intro n'. apply agree_npm; auto.
  Qed.

  Lemma case_adjlevelc : forall ce oe e f, agree ce -> agree oe -> agree e ->
    takes ce KSeats = true -> takes ce KMax = true -> (forall v, seat_ok ce v = true) ->
    takes oe KSeats = true -> takes oe KMax = true -> (forall v, seat_ok oe v = true) ->
    takes_spm e = true -> (forall v, seat_ok e v = true) -> agree (AdjLevelC ce oe e f).
  Proof.
    intros ce oe e f IHc IHo IH Hcs Hcm Hanyc Hos Hom Hanyo Hspm Hany st [s p m pl lv cl] votes Hf _.
    unfold takes_spm in Hspm. rewrite !andb_true_iff in Hspm. destruct Hspm as [[Hs Hp] Hm].
    cbn [run_impl run_spec]. rewrite bind_style_adj, accept_adj.
    destruct s as [n|], p as [g|], pl, lv, cl; try reflexivity. cbn [rbind]. kw_simpl'.
    rewrite (calc_level_byc_ext f _ (fun n0 mx => RS ce votes (KW (Some n0) None (Some mx) None None None))
               _ (totals_s votes) _ (fun pv h mx => RS oe pv (KW (Some h) None (Some mx) None None None)));
      [|intros a b; apply calc_call; auto|symmetry; apply totals_s_eq|intros pv a b; apply calc_call; auto].
    apply rbind_ext; intro adj. apply rbind_ext; intro n'. apply agree_npm; auto.
  Qed.

  Lemma case_adjlevelc0 : forall ce e f, agree ce -> agree e ->
    takes ce KSeats = true -> takes ce KMax = true -> (forall v, seat_ok ce v = true) ->
    takes_spm e = true -> (forall v, seat_ok e v = true) -> agree (AdjLevelC0 ce e f).
  Proof.
    intros ce e f IHc IH Hcs Hcm Hanyc Hspm Hany st [s p m pl lv cl] votes Hf _.
    unfold takes_spm in Hspm. rewrite !andb_true_iff in Hspm. destruct Hspm as [[Hs Hp] Hm].
    cbn [run_impl run_spec]. rewrite bind_style_adj, accept_adj.
    destruct s as [n|], p as [g|], pl, lv, cl; try reflexivity. cbn [rbind]. kw_simpl'.
    rewrite (calc_level_byc_ext f _ (fun n0 mx => RS ce votes (KW (Some n0) None (Some mx) None None None))
               _ (Ok votes) _ (fun pv h mx => RS ce pv (KW (Some h) None (Some mx) None None None) >>= merged_distr));
      [|intros a b; apply calc_call; auto|reflexivity|intros pv a b; cbv beta; apply (f_equal (fun r => r >>= merged_distr)); apply calc_call; auto].
    apply rbind_ext; intro adj. apply rbind_ext; intro n'. apply agree_npm; auto.
  Qed.

  (* C14_compose: for every well-typed, faithful tree of ANY depth, every call style, every
     admissible set of supplied arguments and every vote value, the code-shaped semantics equals
     the by-hand composition. *)
  Theorem compose : forall t, wt t = true -> faithful t = true -> agree t.
  Proof.
    induction t using ev_ind'; cbn [wt faithful]; intros Hw Hfa;
      unfold insp_seats, insp_prev, prev_implies_max in *;
      repeat rewrite andb_true_iff in *.
    - apply case_leaf.
    - apply case_pre; auto.
    - apply case_post; auto.
    - destruct Hw as [[? ?] ?]. apply case_fixed; auto.
    - destruct Hw as [[? ?] ?]. destruct Hfa as [[[[Q1 Q2] Q3] ?] ?].
      apply eqb_prop in Q1, Q2, Q3. apply case_cond; auto.
    - destruct Hw as [[[? Hpm] Ha] ?]. destruct Hfa as [Q1 ?]. apply eqb_prop in Q1.
      apply case_bycons; auto; [intro Hp; rewrite Hp in Hpm; exact Hpm|apply seat_any_ok; exact Ha].
    - destruct Hw as [[[[[? Hpm] Ha] ?] Hb] ?]. destruct Hfa as [[Q1 ?] ?]. apply eqb_prop in Q1.
      apply case_byconsd; auto; [intro Hp; rewrite Hp in Hpm; exact Hpm|apply seat_any_ok; exact Ha|apply seat_any_ok; exact Hb].
    - destruct Hw as [[? Ha] ?]. apply case_preapp; auto. apply seat_any_ok; exact Ha.
    - destruct Hw as [[[[? Ha] ?] Hb] ?]. destruct Hfa. apply case_preappd; auto; apply seat_any_ok; assumption.
    - destruct Hw as [[? Ha] ?]. apply case_remapp; auto. apply seat_any_ok; exact Ha.
    - destruct Hw as [[[[[Ha ?] ?] Hpm] Hb] ?]. destruct Hfa as [[Q1 ?] ?]. apply eqb_prop in Q1.
      apply case_byparty; auto; [intro Hp; rewrite Hp in Hpm; exact Hpm|apply seat_any_ok; exact Ha|apply seat_any_ok; exact Hb].
    - destruct Hw as [[[? ?] Hpm] Ha]. destruct Hfa as [Q1 ?]. apply eqb_prop in Q1.
      apply case_bypartys; auto; [intro Hp; rewrite Hp in Hpm; exact Hpm|apply seat_any_ok; exact Ha].
    - apply case_multi. rewrite forallb_forall in Hw, Hfa. rewrite Forall_forall in *.
      intros x Hx. specialize (Hw x Hx). apply andb_true_iff in Hw. destruct Hw as [? ?].
      split; auto.
    - destruct Hw as [[[? ?] Ha] ?]. destruct Hfa. apply case_tiebr; auto. apply seat_any_ok; exact Ha.
    - destruct Hw. apply case_plistc; auto.
    - destruct Hw as [[? ?] Hle]. destruct Hfa.
      destruct t2 as [l k| | | | | | | | | | | | | | | | | | | | | | |]; try discriminate Hle.
      destruct k; try discriminate Hle. apply case_plisto; auto.
    - apply case_vsys; auto.
    - apply case_unused. rewrite forallb_forall in Hw, Hfa. rewrite Forall_forall in *.
      intros x Hx. specialize (Hw x Hx). rewrite !andb_true_iff in Hw. destruct Hw as [[? Ha] ?].
      split; [auto|]. split; [assumption|]. apply seat_any_ok; exact Ha.
    - destruct Hw as [[? Ha] ?]. apply case_adjleaf; auto. apply seat_any_ok; exact Ha.
    - destruct Hw as [[[[[[? ?] Ha] ?] ?] Hb] ?]. destruct Hfa.
      apply case_adjallow; auto; apply seat_any_ok; assumption.
    - destruct Hw as [[[[[[? ?] Ha] ?] ?] Hb] ?]. destruct Hfa.
      apply case_adjlevel; auto; apply seat_any_ok; assumption.
    - destruct Hw as [[[[? Hpm] Ha] ?] ?]. destruct Hfa as [[[Q1 Q2] ?] ?]. apply eqb_prop in Q1, Q2.
      apply case_byconsp; auto; [intro Hp; rewrite Hp in Hpm; exact Hpm|apply seat_any_ok; exact Ha].
    - destruct Hw as [[[[[[[[[[? ?] Ha] ?] ?] ?] Hb] ?] ?] Hc] ?]. destruct Hfa as [[? ?] ?].
      apply case_adjlevelc; auto; apply seat_any_ok; assumption.
    - destruct Hw as [[[[[[? ?] Ha] ?] ?] Hb] ?]. destruct Hfa.
      apply case_adjlevelc0; auto; apply seat_any_ok; assumption.
  Qed.

  (* trees in which every apportioner and overall evaluator takes a seat count need no condition on the seat argument *)
  Corollary compose_seated : forall t, wt t = true -> seated t = true -> faithful t = true ->
    forall st sa votes, fits t sa = true -> RI t votes (mk_call st sa) = RS t votes sa.
  Proof.
    intros t Hw Hs Hf st sa votes Hfit. apply compose; auto.
    unfold seat_fits. apply seat_any_ok. apply seated_seat_any. exact Hs.
  Qed.
End Compose.
