(* The shared parts of Model/Wrappers.v, code-shaped vs declarative:
     vote_totals  (convert.VoteTotals: nested add_dict_to_dict)  = totals_s  (every candidate in first-appearance order
                                                                              with the sum of its counts)
     subset_votes (convert.SubsettedVotes(SimpleSubsetter))      = subset_s  (the votes filtered to the subset)
   on EVERY value: on well-formed values (integer counts ...) the code-shaped definition computes the declarative answer
   (totals_declarative, subset_declarative), on all others the declarative side is defined as the code's answer.
   Plus: what UnusedVotesDistributor subtracts (gained seats of a stage result). *)
From Coq Require Import ZArith List Bool Lia.
From VL Require Import Model.Wrappers Proofs.TieBreak_proofs.
Import ListNotations.
Open Scope Z_scope.

Lemma key_eqb_sym : forall a b, key_eqb a b = key_eqb b a.
Proof.
  intros a b. destruct (key_eqb a b) eqn:H1, (key_eqb b a) eqn:H2; try reflexivity.
  - apply key_eqb_eq in H1. subst. rewrite key_eqb_refl in H2. discriminate H2.
  - apply key_eqb_eq in H2. subst. rewrite key_eqb_refl in H1. discriminate H1.
Qed.

(* ------------------------------------------------------------------ dictionaries *)
Lemma dmem_false_dget : forall d k, dmem d k = false -> dget d k = None.
Proof. intros d k H. unfold dmem in H. destruct (dget d k); [discriminate H|reflexivity]. Qed.

Lemma dset_notin : forall d k v, dmem d k = false -> dset d k v = d ++ [(k, v)].
Proof.
  induction d as [|[k0 v0] d IH]; intros k v H; [reflexivity|].
  unfold dmem in H. simpl in H. simpl. destruct (key_eqb k0 k); [discriminate H|].
  rewrite IH; [reflexivity|]. unfold dmem. exact H.
Qed.

Lemma dmem_app : forall a b k, dmem (a ++ b) k = dmem a k || dmem b k.
Proof.
  induction a as [|[k0 v0] a IH]; intros b k; [reflexivity|].
  unfold dmem in *. simpl. destruct (key_eqb k0 k); [reflexivity|]. apply IH.
Qed.

Lemma dmem_false_in : forall d k kv, dmem d k = false -> In kv d -> key_eqb (fst kv) k = false.
Proof.
  induction d as [|[k0 v0] d IH]; intros k kv H Hin; [destruct Hin|].
  unfold dmem in H. simpl in H. destruct (key_eqb k0 k) eqn:H0; [discriminate H|].
  destruct Hin as [Hin|Hin]; [subst kv; exact H0|]. apply IH; [unfold dmem; exact H|exact Hin].
Qed.

Lemma int_dict_dget_or : forall a k, int_dict a = true -> is_int (dget_or a k (VInt 0)) = true.
Proof.
  induction a as [|[k0 v0] a IH]; intros k H; [reflexivity|].
  unfold int_dict in H. simpl in H. apply andb_true_iff in H. destruct H as [H1 H2].
  unfold dget_or. simpl. destruct (key_eqb k0 k); [exact H1|]. apply IH. exact H2.
Qed.

Lemma int_dict_dset : forall a k z, int_dict a = true -> int_dict (dset a k (VInt z)) = true.
Proof.
  induction a as [|[k0 v0] a IH]; intros k z H; [reflexivity|].
  unfold int_dict in *. simpl in *. apply andb_true_iff in H. destruct H as [H1 H2].
  destruct (key_eqb k0 k); simpl; [exact H2|]. rewrite H1. apply IH. exact H2.
Qed.

(* ------------------------------------------------------------------ SubsettedVotes = a filter *)
Lemma mem_subset_kind : forall s k, subset_kind s = true -> mem_subset s k = Ok (mem_b s k).
Proof. intros [| |[c|t]|l|d|q] k H; try discriminate H; reflexivity. Qed.

Lemma subset_fold : forall s d acc, subset_kind s = true -> int_dict d = true -> nodup_keys d = true ->
  (forall kv, In kv d -> dmem acc (fst kv) = false) ->
  fold_left (subset_step s) d (Ok acc) = Ok (acc ++ filter (fun kv => mem_b s (fst kv)) d).
Proof.
  intros s d. induction d as [|[k v] d IH]; intros acc Hs Hi Hn Hd.
  - simpl. rewrite app_nil_r. reflexivity.
  - unfold int_dict in Hi. simpl in Hi. apply andb_true_iff in Hi. destruct Hi as [Hv Hi].
    simpl in Hn. apply andb_true_iff in Hn. destruct Hn as [Hk Hn]. apply negb_true_iff in Hk.
    destruct v as [|z| | | |]; try discriminate Hv.
    cbn [fold_left filter fst]. unfold subset_step at 2. cbn [rbind fst snd].
    rewrite (mem_subset_kind s k Hs). cbn [rbind].
    destruct (mem_b s k) eqn:Hm.
    + assert (Hk0 : dmem acc k = false) by (apply (Hd (k, VInt z)); left; reflexivity).
      unfold dget_or. rewrite (dmem_false_dget acc k Hk0). cbn [add_val rbind].
      rewrite (dset_notin acc k (VInt (0 + z)) Hk0). rewrite Z.add_0_l.
      rewrite IH; auto.
      * rewrite <- app_assoc. reflexivity.
      * intros kv Hin. rewrite dmem_app. rewrite (Hd kv (or_intror Hin)). cbn [orb].
        unfold dmem. simpl. rewrite key_eqb_sym. rewrite (dmem_false_in d k kv Hk Hin). reflexivity.
    + apply IH; auto. intros kv Hin. apply Hd. right. exact Hin.
Qed.

Theorem subset_declarative : forall d s, int_dict d = true -> nodup_keys d = true -> subset_kind s = true ->
  subset_votes (VDict d) s = Ok (VDict (filter (fun kv => mem_b s (fst kv)) d)).
Proof.
  intros d s Hi Hn Hs. unfold subset_votes. cbn [as_dict rbind].
  change (fold_left _ d (Ok [])) with (fold_left (subset_step s) d (Ok [])).
  pose proof (subset_fold s d [] Hs Hi Hn (fun kv _ => eq_refl)) as H. cbn [app] in H.
  unfold dict in *. rewrite H. reflexivity.
Qed.

Theorem subset_s_eq : forall v s, subset_s v s = subset_votes v s.
Proof.
  intros v s. unfold subset_s. destruct v as [| | | |d|]; try reflexivity.
  destruct (int_dict d && nodup_keys d && subset_kind s) eqn:H; [|reflexivity].
  rewrite !andb_true_iff in H. destruct H as [[Hi Hn] Hs].
  symmetry. apply subset_declarative; assumption.
Qed.

(* ------------------------------------------------------------------ VoteTotals = sums in first-appearance order *)
Definition bump (a : dict) (kv : key * val) : dict :=
  dset a (fst kv) (VInt (getz (dget_or a (fst kv) (VInt 0)) + getz (snd kv))).
Definition tot_step (acc : res dict) (kv : key * val) : res dict :=
  acc >>= fun d => add_val (dget_or d (fst kv) (VInt 0)) (snd kv) >>= fun s => Ok (dset d (fst kv) s).

Lemma add_dict_fold : forall d1 d2, add_dict d1 d2 = fold_left tot_step d2 (Ok d1).
Proof. reflexivity. Qed.

Lemma tot_step_int : forall a kv, int_dict a = true -> is_int (snd kv) = true ->
  tot_step (Ok a) kv = Ok (bump a kv) /\ int_dict (bump a kv) = true.
Proof.
  intros a [k v] Ha Hv. unfold tot_step, bump. cbn [rbind fst snd].
  pose proof (int_dict_dget_or a k Ha) as Hg.
  destruct (dget_or a k (VInt 0)) as [|x| | | |]; try discriminate Hg.
  destruct v as [|z| | | |]; try discriminate Hv.
  cbn [add_val rbind getz]. split; [reflexivity|]. apply int_dict_dset. exact Ha.
Qed.

Lemma add_dict_int : forall dv a, int_dict a = true -> int_dict dv = true ->
  add_dict a dv = Ok (fold_left bump dv a) /\ int_dict (fold_left bump dv a) = true.
Proof.
  intros dv. rewrite <- (rev_involutive dv). generalize (rev dv). clear dv. intros l a Ha.
  induction l as [|kv l IH]; intro Hd.
  - simpl. split; [reflexivity|exact Ha].
  - simpl in *. unfold int_dict in Hd. rewrite forallb_app in Hd. apply andb_true_iff in Hd. destruct Hd as [Hd Hkv].
    simpl in Hkv. rewrite andb_true_r in Hkv.
    destruct (IH Hd) as [H1 H2]. rewrite add_dict_fold in *. rewrite !fold_left_app. simpl.
    rewrite H1. apply tot_step_int; assumption.
Qed.

Lemma totals_fold : forall d a, nested_int d = true -> int_dict a = true ->
  fold_left (fun acc kv => acc >>= fun a0 => as_dict (snd kv) >>= fun dv => add_dict a0 dv) d (Ok a)
  = Ok (fold_left bump (entries d) a).
Proof.
  induction d as [|[k v] d IH]; intros a Hn Ha; [reflexivity|].
  unfold nested_int in Hn. simpl in Hn. apply andb_true_iff in Hn. destruct Hn as [Hv Hn].
  destruct v as [| | | |dv|]; try discriminate Hv.
  cbn [fold_left rbind snd as_dict]. unfold entries. cbn [flat_map snd]. rewrite fold_left_app.
  destruct (add_dict_int dv a Ha Hv) as [H1 H2]. rewrite H1. apply IH; assumption.
Qed.

Lemma keys_first_snoc : forall es e,
  keys_first (es ++ [e]) = if memk (fst e) (keys_first es) then keys_first es else keys_first es ++ [fst e].
Proof. intros es e. unfold keys_first. rewrite fold_left_app. reflexivity. Qed.

Lemma total_of_snoc : forall es e k,
  total_of (es ++ [e]) k = if key_eqb (fst e) k then total_of es k + getz (snd e) else total_of es k.
Proof. intros es e k. unfold total_of. rewrite fold_left_app. reflexivity. Qed.

Lemma dget_map_keys : forall (f : key -> val) ks k,
  dget (map (fun k' => (k', f k')) ks) k = if memk k ks then Some (f k) else None.
Proof.
  intros f ks k. induction ks as [|k0 ks IH]; [reflexivity|].
  simpl. rewrite (key_eqb_sym k k0). destruct (key_eqb k0 k) eqn:H0; simpl.
  - apply key_eqb_eq in H0. subst. reflexivity.
  - exact IH.
Qed.

Lemma memk_false_notin : forall k ks, memk k ks = false -> ~ In k ks.
Proof.
  intros k ks H Hin. unfold memk in H. assert (existsb (key_eqb k) ks = true); [|congruence].
  apply existsb_exists. exists k. split; [exact Hin|apply key_eqb_refl].
Qed.

Lemma memk_false_neq : forall k ks k', memk k ks = false -> In k' ks -> key_eqb k' k = false.
Proof.
  intros k ks k' H Hin. destruct (key_eqb k' k) eqn:H0; [|reflexivity].
  apply key_eqb_eq in H0. subst k'. exfalso. exact (memk_false_notin k ks H Hin).
Qed.

Lemma dset_map_in : forall (f : key -> val) ks k x, NoDup ks -> memk k ks = true ->
  dset (map (fun k' => (k', f k')) ks) k x = map (fun k' => (k', if key_eqb k' k then x else f k')) ks.
Proof.
  intros f ks k x Hnd. induction Hnd as [|k0 ks Hk0 Hnd IH]; intro Hm; [discriminate Hm|].
  simpl. simpl in Hm. rewrite (key_eqb_sym k k0) in Hm. destruct (key_eqb k0 k) eqn:H0.
  - f_equal. apply map_ext_in. intros k' Hin.
    destruct (key_eqb k' k) eqn:H1; [|reflexivity].
    apply key_eqb_eq in H0, H1. subst. contradiction.
  - simpl in Hm. rewrite IH by exact Hm. reflexivity.
Qed.

Lemma nodup_snoc : forall (k : key) ks, NoDup ks -> ~ In k ks -> NoDup (ks ++ [k]).
Proof.
  intros k ks Hnd. induction Hnd as [|k0 ks Hk0 Hnd IH]; intro Hk; simpl.
  - constructor; [intros []|constructor].
  - constructor.
    + intro Hin. apply in_app_or in Hin. destruct Hin as [Hin|[Hin|[]]]; [contradiction|].
      apply Hk. left. symmetry. exact Hin.
    + apply IH. intro Hin. apply Hk. right. exact Hin.
Qed.

Lemma totals_table_fold : forall es,
  fold_left bump es [] = totals_table es /\ NoDup (keys_first es) /\
  (forall k, memk k (keys_first es) = false -> total_of es k = 0).
Proof.
  intro es. induction es as [|e es IH] using rev_ind.
  - split; [reflexivity|]. split; [constructor|]. intros k _. reflexivity.
  - destruct IH as [I1 [I2 I3]]. destruct e as [k v].
    rewrite fold_left_app. cbn [fold_left]. rewrite I1.
    unfold totals_table. rewrite keys_first_snoc. cbn [fst].
    unfold bump. cbn [fst snd]. unfold dget_or.
    rewrite (dget_map_keys (fun k0 => VInt (total_of es k0))).
    destruct (memk k (keys_first es)) eqn:Hm.
    + split; [|split; [exact I2|]].
      * cbn [getz]. rewrite (dset_map_in (fun k0 => VInt (total_of es k0)) _ k _ I2 Hm).
        apply map_ext_in. intros k' Hin. rewrite total_of_snoc. cbn [fst snd].
        rewrite (key_eqb_sym k k'). destruct (key_eqb k' k) eqn:H1; [|reflexivity].
        apply key_eqb_eq in H1. subst k'. reflexivity.
      * intros k' Hk'. rewrite total_of_snoc. cbn [fst snd].
        destruct (key_eqb k k') eqn:H1; [|apply I3; exact Hk'].
        apply key_eqb_eq in H1. subst k'. rewrite Hm in Hk'. discriminate Hk'.
    + split; [|split].
      * cbn [getz]. rewrite Z.add_0_l.
        assert (Hd : dmem (map (fun k0 : key => (k0, VInt (total_of es k0))) (keys_first es)) k = false).
        { unfold dmem. rewrite (dget_map_keys (fun k0 => VInt (total_of es k0))), Hm. reflexivity. }
        rewrite (dset_notin _ k _ Hd). rewrite map_app. cbn [map].
        f_equal.
        -- apply map_ext_in. intros k' Hin. rewrite total_of_snoc. cbn [fst snd].
           rewrite (key_eqb_sym k k'). rewrite (memk_false_neq k _ k' Hm Hin). reflexivity.
        -- rewrite total_of_snoc. cbn [fst snd]. rewrite key_eqb_refl. rewrite (I3 k Hm). reflexivity.
      * apply nodup_snoc; [exact I2|apply memk_false_notin; exact Hm].
      * intros k' Hk'. unfold memk in Hk'. rewrite existsb_app in Hk'. apply orb_false_iff in Hk'.
        destruct Hk' as [Hk1 Hk2]. simpl in Hk2. rewrite orb_false_r in Hk2.
        rewrite total_of_snoc. cbn [fst snd]. rewrite (key_eqb_sym k k'), Hk2. apply I3. exact Hk1.
Qed.

Theorem totals_declarative : forall d, nested_int d = true ->
  vote_totals (VDict d) = Ok (VDict (totals_table (entries d))).
Proof.
  intros d H. unfold vote_totals. cbn [as_dict rbind].
  pose proof (totals_fold d [] H eq_refl) as H0.
  destruct (totals_table_fold (entries d)) as [H1 _]. rewrite H1 in H0.
  unfold dict in *. rewrite H0. reflexivity.
Qed.

Theorem totals_s_eq : forall v, totals_s v = vote_totals v.
Proof.
  intro v. unfold totals_s. destruct v as [| | | |d|]; try reflexivity.
  destruct (nested_int d) eqn:H; [|reflexivity]. symmetry. apply totals_declarative. exact H.
Qed.

(* what the declarative table says: a candidate's entry is the sum of its counts; the candidates are those that occur *)
Lemma totals_table_lookup : forall es k,
  dget (totals_table es) k = if memk k (keys_first es) then Some (VInt (total_of es k)) else None.
Proof. intros es k. unfold totals_table. apply dget_map_keys. Qed.

(* ------------------------------------------------------------------ UnusedVotesDistributor: the seats a stage gave *)
Definition sumz (d : dict) : Z := fold_left (fun a kv => a + getz (snd kv)) d 0.

Lemma sum_values_int_from : forall d a, int_dict d = true ->
  fold_left (fun acc kv => acc >>= fun x => add_val x (snd kv)) d (Ok (VInt a))
  = Ok (VInt (fold_left (fun a kv => a + getz (snd kv)) d a)).
Proof.
  induction d as [|[k v] d IH]; intros a H; [reflexivity|].
  unfold int_dict in H. simpl in H. apply andb_true_iff in H. destruct H as [Hv H].
  destruct v as [|z| | | |]; try discriminate Hv.
  cbn [fold_left rbind snd add_val getz]. apply IH. exact H.
Qed.

(* depth 1: the seats still to give after a stage are the seats before minus the seats THIS stage gave - previous gains
   and the running total do not enter *)
Theorem seats_left_after_stage : forall n res, int_dict res = true ->
  sub_gained 0 (VInt n) (VDict res) = Ok (VInt (n - sumz res)).
Proof.
  intros n res H. cbn [sub_gained gained as_dict rbind]. unfold sum_values.
  rewrite (sum_values_int_from res 0 H). reflexivity.
Qed.
