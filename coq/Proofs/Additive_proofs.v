(* Monotonicity of additive rules (C17, second sentence): a rule that converts every ballot to
   per-candidate coefficients, adds them up ([conv image], Prelude/GDict.v) and elects by
   [get_n_best] keeps a sole winner sole when ONE ballot is replaced by a ballot whose image gives
   the winner at least as much and everybody else at most as much.  Holds for every image. *)
From Coq Require Import ZArith QArith List Bool Lia Lqa Permutation Pnat.
From VL Require Import Prelude.Sx Prelude.GDict Model.GetNBest Proofs.GetNBest_proofs Proofs.QOrd
     Proofs.Convert_proofs.
Import ListNotations.

Lemma qltb_iff a b : ltb Qle_bool a b = true <-> (a < b)%Q.
Proof.
  unfold ltb. rewrite negb_true_iff. split; intros H.
  - apply Qnot_le_lt. intros Hle. apply Qle_bool_iff in Hle. congruence.
  - apply not_true_iff_false. intros Hle. apply Qle_bool_iff in Hle. lra.
Qed.

Section ADDM.
  Context {K : Type}.
  Variable keqb : K -> K -> bool.
  Hypothesis keqb_spec : forall a b, keqb a b = true <-> a = b.

  Notation gget := (gget keqb).
  Notation gadd := (gadd keqb).
  Notation conv := (conv keqb).

  Lemma Kdec : forall a b : K, {a = b} + {a <> b}.
  Proof.
    intros a b. destruct (keqb a b) eqn:E; [left; apply keqb_spec; exact E|].
    right. intros H. apply keqb_spec in H. congruence.
  Qed.

  Lemma gadd_keys d k x k' : In k' (map fst (gadd d k x)) <-> k' = k \/ In k' (map fst d).
  Proof.
    induction d as [|[k0 v] d IH]; simpl; [intuition (subst; auto)|].
    destruct (keqb k k0) eqn:E; simpl.
    - apply keqb_spec in E. subst k0. intuition (subst; auto).
    - rewrite IH. tauto.
  Qed.

  Lemma gadd_nodup d k x : NoDup (map fst d) -> NoDup (map fst (gadd d k x)).
  Proof.
    induction d as [|[k0 v] d IH]; simpl; intros H.
    - constructor; [intros []|constructor].
    - inversion H as [|? ? Hk Hd]; subst. destruct (keqb k k0) eqn:E; simpl.
      + constructor; assumption.
      + constructor; [|apply IH, Hd]. rewrite gadd_keys. intros [->|Hin]; [|tauto].
        assert (keqb k k = true) by (apply keqb_spec; reflexivity). congruence.
  Qed.

  Lemma gget_in d k v : NoDup (map fst d) -> In (k, v) d -> gget d k = v.
  Proof.
    induction d as [|[k0 v0] d IH]; simpl; [tauto|]. intros Hnd [H|H].
    - injection H as -> ->. assert (keqb k k = true) as -> by (apply keqb_spec; reflexivity). reflexivity.
    - inversion Hnd as [|? ? Hk Hd]; subst. destruct (keqb k k0) eqn:E.
      + apply keqb_spec in E. subst k0. exfalso. apply Hk. apply in_map_iff. exists (k, v). auto.
      + apply IH; assumption.
  Qed.

  Section CONV.
    Context {B : Type}.
    Variable image : B -> list (K * Q).

    Definition conv_step (acc : list (K * Q)) (bw : B * Q) : list (K * Q) :=
      fold_left (fun acc kc => gadd acc (fst kc) (snd kc * snd bw)) (image (fst bw)) acc.

    Lemma image_keys img w : forall d k,
      In k (map fst (fold_left (fun acc (kc : K * Q) => gadd acc (fst kc) (snd kc * w)) img d))
      <-> In k (map fst d) \/ In k (map fst img).
    Proof.
      induction img as [|[k0 c] img IH]; intros d k; simpl; [tauto|].
      rewrite IH, gadd_keys. simpl. split; [intros [[H|H]|H]|intros [H|[H|H]]]; auto.
    Qed.

    Lemma image_nodup img w : forall d, NoDup (map fst d) ->
      NoDup (map fst (fold_left (fun acc (kc : K * Q) => gadd acc (fst kc) (snd kc * w)) img d)).
    Proof. induction img as [|[k0 c] img IH]; intros d H; simpl; [exact H|]. apply IH, gadd_nodup, H. Qed.

    Lemma conv_keys_from votes : forall d k,
      In k (map fst (fold_left conv_step votes d))
      <-> In k (map fst d) \/ exists bw, In bw votes /\ In k (map fst (image (fst bw))).
    Proof.
      induction votes as [|bw votes IH]; intros d k; simpl.
      - split; [auto|intros [H|(x & [] & _)]; exact H].
      - rewrite IH. unfold conv_step. rewrite image_keys. split.
        + intros [[H|H]|(x & Hx & Hk)]; [left; exact H|right; exists bw; auto|right; exists x; auto].
        + intros [H|(x & [->|Hx] & Hk)]; [auto|auto|right; exists x; auto].
    Qed.

    Lemma conv_keys votes k :
      In k (map fst (conv image votes)) <-> exists bw, In bw votes /\ In k (map fst (image (fst bw))).
    Proof.
      unfold GDict.conv. change (fold_left _ votes []) with (fold_left conv_step votes []).
      rewrite conv_keys_from. simpl. tauto.
    Qed.

    Lemma conv_nodup votes : NoDup (map fst (conv image votes)).
    Proof.
      unfold GDict.conv. change (fold_left _ votes []) with (fold_left conv_step votes []).
      assert (H : forall d, NoDup (map fst d) -> NoDup (map fst (fold_left conv_step votes d))).
      { induction votes as [|bw votes IH]; intros d Hd; simpl; [exact Hd|]. apply IH. apply image_nodup, Hd. }
      apply H. constructor.
    Qed.

    Lemma total_mid pre x post k :
      total keqb image (pre ++ x :: post) k ==
      total keqb image pre k + (snd x * coef keqb (image (fst x)) k + total keqb image post k).
    Proof. rewrite (total_app keqb image). simpl. reflexivity. Qed.

    (* ---- the theorem *)
    Theorem additive_sole_winner pre post (b b' : B) (w : Q) (kw : K) :
      0 <= w ->
      (forall k, In k (map fst (image b')) -> k = kw \/ In k (map fst (image b))) ->
      In kw (map fst (image b')) ->
      coef keqb (image b) kw <= coef keqb (image b') kw ->
      (forall k, k <> kw -> coef keqb (image b') k <= coef keqb (image b) k) ->
      get_n_best Qle_bool (conv image (pre ++ (b, w) :: post)) 1 = [Cand kw] ->
      get_n_best Qle_bool (conv image (pre ++ (b', w) :: post)) 1 = [Cand kw].
    Proof.
      intros Hw Hkeys Hkw Hup Hdown Hwin.
      set (D := conv image (pre ++ (b, w) :: post)) in *.
      set (D' := conv image (pre ++ (b', w) :: post)).
      pose proof (conv_nodup (pre ++ (b, w) :: post)) as HndD. fold D in HndD.
      pose proof (conv_nodup (pre ++ (b', w) :: post)) as HndD'. fold D' in HndD'.
      destruct (get_n_best_1_cand Qle_bool Qle_bool_total Qle_bool_trans D kw [] HndD Hwin)
        as (_ & v & Hin & Hmax).
      assert (Hkw' : In kw (map fst D')).
      { apply conv_keys. exists (b', w). split; [apply in_or_app; right; left; reflexivity|exact Hkw]. }
      apply in_map_iff in Hkw'. destruct Hkw' as ([kw' v2] & Hf & Hin2). simpl in Hf. subst kw'.
      apply (get_n_best_unique_max Qle_bool Qle_bool_total Qle_bool_trans Kdec D' kw v2 HndD' Hin2).
      intros c' v' Hin' Hne.
      (* c' already was a key before the change *)
      assert (HcD : In c' (map fst D)).
      { assert (Hk : In c' (map fst D')) by (apply in_map_iff; exists (c', v'); auto).
        apply conv_keys in Hk. destruct Hk as (bw & Hbw & Hk). apply conv_keys.
        apply in_app_or in Hbw. destruct Hbw as [Hbw|[<-|Hbw]].
        - exists bw. split; [apply in_or_app; left; exact Hbw|exact Hk].
        - simpl in Hk. destruct (Hkeys c' Hk) as [->|Hk2]; [congruence|].
          exists (b, w). split; [apply in_or_app; right; left; reflexivity|exact Hk2].
        - exists bw. split; [apply in_or_app; right; right; exact Hbw|exact Hk]. }
      apply in_map_iff in HcD. destruct HcD as ([c'' vold] & Hf & Hinold). simpl in Hf. subst c''.
      pose proof (Hmax c' vold Hinold Hne) as Hlt. apply qltb_iff in Hlt. apply qltb_iff.
      (* values are the weighted sums *)
      pose proof (gget_in D c' vold HndD Hinold) as E1. pose proof (gget_in D' c' v' HndD' Hin') as E2.
      pose proof (gget_in D kw v HndD Hin) as E3. pose proof (gget_in D' kw v2 HndD' Hin2) as E4.
      pose proof (conv_value keqb keqb_spec image (pre ++ (b, w) :: post) c') as V1.
      pose proof (conv_value keqb keqb_spec image (pre ++ (b', w) :: post) c') as V2.
      pose proof (conv_value keqb keqb_spec image (pre ++ (b, w) :: post) kw) as V3.
      pose proof (conv_value keqb keqb_spec image (pre ++ (b', w) :: post) kw) as V4.
      fold D in V1, V3. fold D' in V2, V4. rewrite E1 in V1. rewrite E2 in V2. rewrite E3 in V3. rewrite E4 in V4.
      rewrite total_mid in V1, V2, V3, V4. simpl in V1, V2, V3, V4.
      specialize (Hdown c' Hne).
      assert (M1 : w * coef keqb (image b') c' <= w * coef keqb (image b) c').
      { rewrite !(Qmult_comm w). apply Qmult_le_compat_r; assumption. }
      assert (M2 : w * coef keqb (image b) kw <= w * coef keqb (image b') kw).
      { rewrite !(Qmult_comm w). apply Qmult_le_compat_r; assumption. }
      lra.
    Qed.
  End CONV.
End ADDM.

(* ---- instances over the converter images of Model/Convert.v *)
From VL Require Import Prelude.PyDict Model.Convert Proofs.Dict_proofs.

Lemma kc_inj a b : kc a = kc b -> a = b.
Proof. unfold kc. intros H. injection H as H. exact H. Qed.

Lemma coef_absent (img : list (sx * Q)) k : ~ In k (map fst img) -> coef sx_eqb img k = 0%Q.
Proof.
  induction img as [|[k0 c] img IH]; simpl; intros H; [reflexivity|].
  destruct (sx_eqb k k0) eqn:E.
  - apply sx_eqb_spec in E. subst. tauto.
  - rewrite IH by tauto. reflexivity.
Qed.

Lemma coef_nonneg (img : list (sx * Q)) k : Forall (fun kq => (0 <= snd kq)%Q) img -> (0 <= coef sx_eqb img k)%Q.
Proof.
  induction 1 as [|[k0 c] img Hc _ IH]; simpl; [lra|]. simpl in Hc. destruct (sx_eqb k k0); lra.
Qed.

Lemma approval_instance pre post (b : list C) (w : Q) (c : C) :
  (0 <= w)%Q -> ~ In c b ->
  get_n_best Qle_bool (dconv (img_approval_simple false) (pre ++ (b, w) :: post)) 1 = [Cand (kc c)] ->
  get_n_best Qle_bool (dconv (img_approval_simple false) (pre ++ (c :: b, w) :: post)) 1 = [Cand (kc c)].
Proof.
  intros Hw Hc. apply (additive_sole_winner sx_eqb sx_eqb_spec (img_approval_simple false)); [exact Hw| | | |].
  - intros k Hk. unfold img_approval_simple in *. rewrite map_map in *. simpl in Hk. destruct Hk as [<-|Hk]; [left; reflexivity|right; exact Hk].
  - unfold img_approval_simple. simpl. left. reflexivity.
  - rewrite (coef_absent (img_approval_simple false b)).
    + apply coef_nonneg. unfold img_approval_simple. apply Forall_forall. intros x Hx. apply in_map_iff in Hx.
      destruct Hx as (y & <- & _). simpl. lra.
    + unfold img_approval_simple. rewrite map_map. simpl. intros Hin. apply in_map_iff in Hin.
      destruct Hin as (y & Hy & Hin). apply kc_inj in Hy. subst. tauto.
  - intros k Hk. unfold img_approval_simple, coef. cbn [map fold_right fst snd].
    destruct (sx_eqb k (kc c)) eqn:E; [apply sx_eqb_spec in E; congruence|]. lra.
Qed.

Lemma plurality_instance pre post (x c : C) (rest : ranked) (w : Q) :
  (0 <= w)%Q -> x <> c ->
  get_n_best Qle_bool (dconv img_first (pre ++ (IP x :: IP c :: rest, w) :: post)) 1 = [Cand (kc c)] ->
  get_n_best Qle_bool (dconv img_first (pre ++ (IP c :: IP x :: rest, w) :: post)) 1 = [Cand (kc c)].
Proof.
  intros Hw Hx. apply (additive_sole_winner sx_eqb sx_eqb_spec img_first); [exact Hw| | | |].
  - simpl. intros k [<-|[]]. left. reflexivity.
  - simpl. left. reflexivity.
  - unfold img_first, coef. cbn [fold_right fst snd kitem]. rewrite sx_eqb_refl.
    destruct (sx_eqb (kc c) (kc x)) eqn:E; [apply sx_eqb_spec, kc_inj in E; congruence|]. lra.
  - intros k Hk. unfold img_first, coef. cbn [fold_right fst snd kitem].
    destruct (sx_eqb k (kc c)) eqn:E; [apply sx_eqb_spec in E; congruence|].
    destruct (sx_eqb k (kc x)); lra.
Qed.

(* ---- positional rules: moving the winner one place up on a ballot of plain ranks, for any rank
   scorer whose score at the higher of the two places is at least the score at the lower one *)
Lemma coef_app (a b : list (sx * Q)) k : (coef sx_eqb (a ++ b) k == coef sx_eqb a k + coef sx_eqb b k)%Q.
Proof. induction a as [|[k0 c] a IH]; simpl; [ring|]. rewrite IH. ring. Qed.

Lemma coef_cons k0 c (l : list (sx * Q)) k : coef sx_eqb ((k0, c) :: l) k = ((if sx_eqb k k0 then c else 0) + coef sx_eqb l k)%Q.
Proof. reflexivity. Qed.

Definition plain_ballot (cs : list C) : ranked := map IP cs.

Lemma pos_image (cs : list C) (sc : list Q) :
  flat_map (fun isc : item * Q => map (fun c => (kc c, snd isc)) (members (fst isc))) (combine (plain_ballot cs) sc)
  = map (fun cq : C * Q => (kc (fst cq), snd cq)) (combine cs sc).
Proof.
  revert sc. induction cs as [|c cs IH]; intros sc; simpl; [reflexivity|].
  destruct sc as [|q sc]; simpl; [reflexivity|]. rewrite IH. reflexivity.
Qed.

Lemma combine_app_eq {X Y} (a : list X) (b : list Y) a' b' : length a = length b ->
  combine (a ++ a') (b ++ b') = combine a b ++ combine a' b'.
Proof.
  revert b. induction a as [|x a IH]; intros [|y b] H; simpl in *; try discriminate; [reflexivity|].
  rewrite IH by lia. reflexivity.
Qed.

Definition pos_img (s : scorer) (n_cands : nat) (r : ranked) : list (sx * Q) :=
  match img_positional s n_cands r with Some l => l | None => [] end.

Theorem positional_instance (s : scorer) (n_cands : nat) pre_b post_b (pre post : list C) (x w : C) (wgt : Q)
    (s_pre s_post : list Q) (a b : Q) :
  (0 <= wgt)%Q -> x <> w ->
  rank_scores s n_cands (length (pre ++ x :: w :: post)) = Some (s_pre ++ a :: b :: s_post) ->
  length s_pre = length pre -> (b <= a)%Q ->
  get_n_best Qle_bool (dconv (pos_img s n_cands) (pre_b ++ (plain_ballot (pre ++ x :: w :: post), wgt) :: post_b)) 1 = [Cand (kc w)] ->
  get_n_best Qle_bool (dconv (pos_img s n_cands) (pre_b ++ (plain_ballot (pre ++ w :: x :: post), wgt) :: post_b)) 1 = [Cand (kc w)].
Proof.
  intros Hw Hxw Hsc Hlen Hba.
  assert (Hl : length (pre ++ w :: x :: post) = length (pre ++ x :: w :: post)) by (rewrite !app_length; simpl; lia).
  assert (I1 : pos_img s n_cands (plain_ballot (pre ++ x :: w :: post))
               = map (fun cq : C * Q => (kc (fst cq), snd cq)) (combine pre s_pre) ++ (kc x, a) :: (kc w, b) ::
                 map (fun cq : C * Q => (kc (fst cq), snd cq)) (combine post s_post)).
  { unfold pos_img, img_positional. unfold plain_ballot at 1. rewrite map_length, Hsc. fold (plain_ballot (pre ++ x :: w :: post)).
    rewrite pos_image, (combine_app_eq pre s_pre) by (symmetry; exact Hlen). rewrite map_app. reflexivity. }
  assert (I2 : pos_img s n_cands (plain_ballot (pre ++ w :: x :: post))
               = map (fun cq : C * Q => (kc (fst cq), snd cq)) (combine pre s_pre) ++ (kc w, a) :: (kc x, b) ::
                 map (fun cq : C * Q => (kc (fst cq), snd cq)) (combine post s_post)).
  { unfold pos_img, img_positional. unfold plain_ballot at 1. rewrite map_length, Hl, Hsc. fold (plain_ballot (pre ++ w :: x :: post)).
    rewrite pos_image, (combine_app_eq pre s_pre) by (symmetry; exact Hlen). rewrite map_app. reflexivity. }
  apply (additive_sole_winner sx_eqb sx_eqb_spec (pos_img s n_cands)); [exact Hw| | | |].
  - intros k. rewrite I1, I2, !map_app. simpl. rewrite !in_app_iff. simpl. intros [H|[H|[H|H]]]; right; tauto.
  - rewrite I2, map_app. simpl. apply in_or_app. right. left. reflexivity.
  - rewrite I1, I2, !coef_app, !coef_cons, sx_eqb_refl.
    destruct (sx_eqb (kc w) (kc x)) eqn:E; [apply sx_eqb_spec, kc_inj in E; congruence|]. lra.
  - intros k Hk. rewrite I1, I2, !coef_app, !coef_cons.
    destruct (sx_eqb k (kc w)) eqn:E; [apply sx_eqb_spec in E; congruence|].
    destruct (sx_eqb k (kc x)); lra.
Qed.

(* the built-in scorers Dowdall, ModifiedBorda and FixedTop are non-increasing along a ballot *)
Lemma map_seq_split {X} (f : nat -> X) n s_pre a b s_post :
  map f (seq 0 n) = s_pre ++ a :: b :: s_post -> a = f (length s_pre) /\ b = f (S (length s_pre)).
Proof.
  intros H.
  assert (Hn : (S (length s_pre) < n)%nat).
  { apply (f_equal (@length X)) in H. rewrite map_length, seq_length, app_length in H. simpl in H. lia. }
  assert (Ha : nth_error (map f (seq 0 n)) (length s_pre) = Some a).
  { rewrite H, nth_error_app2 by lia. rewrite Nat.sub_diag. reflexivity. }
  assert (Hb : nth_error (map f (seq 0 n)) (S (length s_pre)) = Some b).
  { rewrite H, nth_error_app2 by lia. replace (S (length s_pre) - length s_pre)%nat with 1%nat by lia. reflexivity. }
  rewrite nth_error_map in Ha, Hb.
  assert (Hs : forall i, (i < n)%nat -> nth_error (seq 0 n) i = Some i).
  { intros i Hi. rewrite (nth_error_nth' _ 0%nat) by (rewrite seq_length; exact Hi). rewrite seq_nth by exact Hi. reflexivity. }
  rewrite Hs in Ha by lia. rewrite Hs in Hb by lia. simpl in Ha, Hb. split; congruence.
Qed.

Lemma of_nat_S_le l : (Pos.of_nat (S l) <= Pos.of_nat (S (S l)))%positive.
Proof. rewrite (Nat2Pos.inj_succ (S l)) by lia. apply Pos.lt_le_incl, Pos.lt_succ_diag_r. Qed.

Lemma dowdall_nonincreasing n_cands k s_pre a b s_post :
  rank_scores Dowdall n_cands k = Some (s_pre ++ a :: b :: s_post) -> (b <= a)%Q.
Proof.
  unfold rank_scores. intros [= H]. destruct (map_seq_split _ _ _ _ _ _ H) as [-> ->].
  unfold Qle. cbn [Qnum Qden]. rewrite !Z.mul_1_l. apply Pos2Z.pos_le_pos.
  apply (of_nat_S_le (length s_pre)).
Qed.

Lemma modified_borda_nonincreasing n_cands k s_pre a b s_post :
  rank_scores ModifiedBorda n_cands k = Some (s_pre ++ a :: b :: s_post) -> (b <= a)%Q.
Proof.
  unfold rank_scores. intros [= H]. destruct (map_seq_split _ _ _ _ _ _ H) as [-> ->].
  rewrite <- Zle_Qle. lia.
Qed.

Lemma fixed_top_nonincreasing top n_cands k s_pre a b s_post :
  rank_scores (FixedTop top) n_cands k = Some (s_pre ++ a :: b :: s_post) -> (b <= a)%Q.
Proof.
  unfold rank_scores. intros [= H]. destruct (map_seq_split _ _ _ _ _ _ H) as [-> ->].
  rewrite <- Zle_Qle. lia.
Qed.
