(* Vote monotonicity (C17) of LargestRemainder with the exact Hare quota, over the model
   Model/QuotaDistributor.v (lr_evaluate): a party that gains votes, everything else equal, does not lose
   seats it holds for certain - nor its "possible" seats (certain seats + membership in the tie object).

   Plan: (1) who gets a remainder seat from get_n_best, read as a counting condition on the remainders;
   (2) an explicit description of the run of lr_evaluate under the Hare quota (no over-award, the whole-quota
   stage gives the floors of the ideal shares, the open seats are n - sum of the floors);
   (3) the counting argument comparing the two runs; (4) transfer to any insertion order of the second
   profile through the order-independence theorem of Proofs/QDOrder_proofs.v. *)
From Coq Require Import ZArith QArith Qround List Bool Lia Lqa Permutation Arith.
From VL Require Import Prelude.PyDict Model.GetNBest Model.Quota Model.QuotaDistributor
     Proofs.Dict_proofs Proofs.GetNBest_proofs Proofs.QOrd Proofs.QD_proofs Proofs.QD2_proofs
     Proofs.HAPerm_proofs Proofs.LRScale_proofs Proofs.QDOrder_proofs.
Import ListNotations.
Open Scope Z_scope.

(* ---------------------------------------------------------------- counting *)
Definition cnt {A} (f : A -> bool) (l : list A) : nat := length (filter f l).

Lemma cnt_app {A} (f : A -> bool) a b : cnt f (a ++ b) = (cnt f a + cnt f b)%nat.
Proof. unfold cnt. rewrite filter_app, app_length. reflexivity. Qed.

Lemma cnt_perm {A} (f : A -> bool) l l' : Permutation l l' -> cnt f l = cnt f l'.
Proof. intros H. unfold cnt. apply Permutation_length, perm_filter, H. Qed.

Lemma cnt_le_length {A} (f : A -> bool) l : (cnt f l <= length l)%nat.
Proof. unfold cnt. induction l as [|x t IH]; simpl; [lia|]. destruct (f x); simpl; lia. Qed.

Lemma cnt_all {A} (f : A -> bool) l : Forall (fun x => f x = true) l -> cnt f l = length l.
Proof. intros H. unfold cnt. rewrite filter_all by exact H. reflexivity. Qed.

Lemma cnt_none {A} (f : A -> bool) l : Forall (fun x => f x = false) l -> cnt f l = 0%nat.
Proof. intros H. unfold cnt. rewrite filter_none by exact H. reflexivity. Qed.

Lemma cnt_map {A B} (f : B -> bool) (g : A -> B) l : cnt f (map g l) = cnt (fun x => f (g x)) l.
Proof. unfold cnt. induction l as [|x t IH]; simpl; [reflexivity|]. destruct (f (g x)); simpl; rewrite IH; reflexivity. Qed.

Lemma cnt_le_sum {A} (f g h : A -> bool) l :
  (forall x, In x l -> f x = true -> g x = true \/ h x = true) -> (cnt f l <= cnt g l + cnt h l)%nat.
Proof.
  unfold cnt. induction l as [|x t IH]; intros H; simpl; [lia|].
  assert (IH' : (length (filter f t) <= length (filter g t) + length (filter h t))%nat).
  { apply IH. intros y Hy. apply H. right. exact Hy. }
  destruct (f x) eqn:Ef.
  - destruct (H x (or_introl eq_refl) Ef) as [E|E]; rewrite E; destruct (g x), (h x); simpl; lia.
  - destruct (g x), (h x); simpl; lia.
Qed.

Lemma cnt_pos {A} (f : A -> bool) l x : In x l -> f x = true -> (1 <= cnt f l)%nat.
Proof.
  intros Hin Hf. unfold cnt. assert (H : In x (filter f l)) by (apply filter_In; split; assumption).
  destruct (filter f l); [destruct H|simpl; lia].
Qed.

(* ---------------------------------------------------------------- the order on Q used by get_n_best *)
Lemma ltb_Qlt a b : ltb Qle_bool a b = true <-> (a < b)%Q.
Proof.
  unfold ltb. rewrite negb_true_iff. split; intros H.
  - destruct (Qlt_le_dec a b) as [Hl|Hg]; [exact Hl|]. apply Qle_bool_iff in Hg. congruence.
  - apply not_true_iff_false. intros Hc. apply Qle_bool_iff in Hc. apply (Qlt_not_le _ _ H Hc).
Qed.

Lemma eqv_Qeq a b : eqv Qle_bool a b = true <-> (a == b)%Q.
Proof.
  unfold eqv. rewrite andb_true_iff, !Qle_bool_iff. split.
  - intros [H1 H2]. apply Qle_antisym; assumption.
  - intros H. rewrite H. split; apply Qle_refl.
Qed.

Definition ge_f (x : Q) (it : C * Q) : bool := Qle_bool x (snd it).      (* at or above x *)
Definition gt_f (x : Q) (it : C * Q) : bool := negb (Qle_bool (snd it) x). (* strictly above x *)

Lemma gt_f_Qlt x it : gt_f x it = true <-> (x < snd it)%Q.
Proof. apply (ltb_Qlt x (snd it)). Qed.

Lemma key_val_unique {X} (l : list (C * X)) c v w : NoDup (map fst l) -> In (c, v) l -> In (c, w) l -> v = w.
Proof.
  intros Hnd H1 H2. pose proof (In_dget l c v Hnd H1) as E1. pose proof (In_dget l c w Hnd H2) as E2. congruence.
Qed.

Lemma in_cand_of (l : list (C * Q)) p : In (Cand p) (map (@cand_of C Q) l) <-> exists v, In (p, v) l.
Proof.
  rewrite in_map_iff. split.
  - intros ([c v] & Hc & Hin). unfold cand_of in Hc. simpl in Hc. injection Hc as ->. exists v. exact Hin.
  - intros (v & Hin). exists (p, v). split; [reflexivity|exact Hin].
Qed.

Section Gnb.
  Variable rems : list (C * Q).
  Variable k : nat.
  Hypothesis Hk : (1 <= k)%nat.
  Hypothesis Hnd : NoDup (map fst rems).
  Variables (p : C) (x : Q).
  Hypothesis Hin : In (p, x) rems.

  Let best := get_n_best Qle_bool rems k.

  (* the split of get_n_best_spec, with the value of p located *)
  Lemma gnb_cases :
    ((length rems <= k)%nat /\ In (Cand p) best /\ forall T, ~ In (TieR T) best) \/
    exists above level below thr,
      Permutation (above ++ level ++ below) rems /\
      Forall (fun it => (thr < snd it)%Q) above /\
      Forall (fun it => (snd it == thr)%Q) level /\
      Forall (fun it => (snd it < thr)%Q) below /\
      (length above < k <= length above + length level)%nat /\
      ((length above + length level = k)%nat -> best = map (@cand_of C Q) (above ++ level)) /\
      ((k < length above + length level)%nat ->
          best = map (@cand_of C Q) above ++ repeat (TieR (map fst level)) (k - length above)).
  Proof.
    destruct (get_n_best_spec Qle_bool Qle_bool_total Qle_bool_trans rems k Hk) as [Hsmall Hbig].
    destruct (Nat.le_gt_cases (length rems) k) as [Hle|Hgt].
    - left. destruct (Hsmall Hle) as (s & Hp & _ & Hr). fold best in Hr. split; [exact Hle|]. split.
      + rewrite Hr. apply in_cand_of. exists x. apply (Permutation_in _ (Permutation_sym Hp)). exact Hin.
      + intros T HT. rewrite Hr in HT. apply in_map_iff in HT. destruct HT as (? & HT & _). discriminate.
    - right. destruct (Hbig Hgt) as (above & level & below & thr & Hp & _ & Ha & Hl & Hb & Hpos & Heq & Htie).
      exists above, level, below, thr. split; [exact Hp|].
      split; [eapply Forall_impl; [|exact Ha]; intros it Hit; apply ltb_Qlt; exact Hit|].
      split; [eapply Forall_impl; [|exact Hl]; intros it Hit; apply eqv_Qeq; exact Hit|].
      split; [eapply Forall_impl; [|exact Hb]; intros it Hit; apply ltb_Qlt; exact Hit|].
      split; [exact Hpos|]. split; [exact Heq|exact Htie].
  Qed.

  Lemma val_of l l' v : Permutation l rems -> incl l' l -> In (p, v) l' -> v = x.
  Proof.
    intros Hp Hi Hv. apply (key_val_unique rems p v x Hnd); [|exact Hin].
    apply (Permutation_in _ Hp). apply Hi. exact Hv.
  Qed.

  (* a certain remainder seat: at most k items at or above the own value *)
  Lemma gnb_sure_count : In (Cand p) best -> (cnt (ge_f x) rems <= k)%nat.
  Proof.
    intros Hc. destruct gnb_cases as [(Hle & _)|(above & level & below & thr & Hp & Ha & Hl & Hb & Hpos & Heq & Htie)].
    - pose proof (cnt_le_length (ge_f x) rems). lia.
    - rewrite <- (cnt_perm _ _ _ Hp), !cnt_app.
      assert (Hbelow : (thr <= x)%Q -> cnt (ge_f x) below = 0%nat).
      { intros Hx. apply cnt_none. eapply Forall_impl; [|exact Hb]. intros it Hit; cbv beta in Hit. unfold ge_f.
        apply not_true_iff_false. intros H. apply Qle_bool_iff in H. lra. }
      assert (Hlevel : (thr < x)%Q -> cnt (ge_f x) level = 0%nat).
      { intros Hx. apply cnt_none. eapply Forall_impl; [|exact Hl]. intros it Hit; cbv beta in Hit. unfold ge_f.
        apply not_true_iff_false. intros H. apply Qle_bool_iff in H. lra. }
      assert (Hina : forall v, In (p, v) above -> (thr < x)%Q).
      { intros v Hv. assert (v = x) as <-.
        { apply (val_of _ above v Hp); [apply incl_appl, incl_refl|exact Hv]. }
        rewrite Forall_forall in Ha. apply (Ha _ Hv). }
      assert (Hinl : forall v, In (p, v) level -> (x == thr)%Q).
      { intros v Hv. assert (v = x) as <-.
        { apply (val_of _ level v Hp); [apply incl_appr, incl_appl, incl_refl|exact Hv]. }
        rewrite Forall_forall in Hl. apply (Hl _ Hv). }
      pose proof (cnt_le_length (ge_f x) above). pose proof (cnt_le_length (ge_f x) level).
      destruct (Nat.eq_dec (length above + length level) k) as [He|Hne].
      + rewrite (Heq He) in Hc. apply in_cand_of in Hc. destruct Hc as (v & Hv). apply in_app_or in Hv.
        destruct Hv as [Hv|Hv].
        * pose proof (Hina v Hv) as Hx. rewrite Hlevel, Hbelow by lra. lia.
        * pose proof (Hinl v Hv) as Hx. rewrite Hbelow by lra. lia.
      + rewrite Htie in Hc by lia. apply in_app_or in Hc. destruct Hc as [Hc|Hc].
        * apply in_cand_of in Hc. destruct Hc as (v & Hv).
          pose proof (Hina v Hv) as Hx. rewrite Hlevel, Hbelow by lra. lia.
        * apply repeat_spec in Hc. discriminate.
  Qed.

  Lemma p_located above level below : Permutation (above ++ level ++ below) rems ->
    In (p, x) above \/ In (p, x) level \/ In (p, x) below.
  Proof.
    intros Hp. pose proof (Permutation_in _ (Permutation_sym Hp) Hin) as H.
    apply in_app_or in H. destruct H as [H|H]; [left; exact H|]. apply in_app_or in H. tauto.
  Qed.

  Lemma gnb_count_sure : (cnt (ge_f x) rems <= k)%nat -> In (Cand p) best.
  Proof.
    intros Hc. destruct gnb_cases as [(_ & H & _)|(above & level & below & thr & Hp & Ha & Hl & Hb & Hpos & Heq & Htie)]; [exact H|].
    rewrite <- (cnt_perm _ _ _ Hp), !cnt_app in Hc.
    assert (Habove : (x <= thr)%Q -> cnt (ge_f x) above = length above).
    { intros Hx. apply cnt_all. eapply Forall_impl; [|exact Ha]. intros it Hit; cbv beta in Hit. unfold ge_f. apply Qle_bool_iff. lra. }
    assert (Hlevel : (x <= thr)%Q -> cnt (ge_f x) level = length level).
    { intros Hx. apply cnt_all. eapply Forall_impl; [|exact Hl]. intros it Hit; cbv beta in Hit. unfold ge_f. apply Qle_bool_iff. lra. }
    assert (Hself : forall l, In (p, x) l -> (1 <= cnt (ge_f x) l)%nat).
    { intros l Hl0. apply (cnt_pos _ _ (p, x) Hl0). unfold ge_f. apply Qle_bool_iff. simpl. apply Qle_refl. }
    destruct (p_located above level below Hp) as [H|[H|H]].
    - destruct (Nat.eq_dec (length above + length level) k) as [He|Hne].
      + rewrite (Heq He). apply in_cand_of. exists x. apply in_or_app. left. exact H.
      + rewrite Htie by lia. apply in_or_app. left. apply in_cand_of. exists x. exact H.
    - assert (Hx : (x == thr)%Q) by (rewrite Forall_forall in Hl; apply (Hl _ H)).
      rewrite Habove, Hlevel in Hc by lra.
      assert (He : (length above + length level = k)%nat) by lia.
      rewrite (Heq He). apply in_cand_of. exists x. apply in_or_app. right. exact H.
    - assert (Hx : (x < thr)%Q) by (rewrite Forall_forall in Hb; apply (Hb _ H)).
      rewrite Habove, Hlevel in Hc by lra. pose proof (Hself below H). lia.
  Qed.

  (* a possible remainder seat (certain, or as a member of the tie): fewer than k items strictly above *)
  Definition in_tie (c : C) (b : list (res C)) : Prop := exists T, In (TieR T) b /\ In c T.

  Lemma gnb_poss_count : In (Cand p) best \/ in_tie p best -> (cnt (gt_f x) rems < k)%nat.
  Proof.
    intros Hc. destruct gnb_cases as [(Hle & _ & Hnt)|(above & level & below & thr & Hp & Ha & Hl & Hb & Hpos & Heq & Htie)].
    - assert (Hself : gt_f x (p, x) = false).
      { unfold gt_f. simpl. apply negb_false_iff, Qle_bool_iff, Qle_refl. }
      (* p itself is not strictly above its own value *)
      assert (H : (cnt (gt_f x) rems + 1 <= length rems)%nat).
      { clear - Hin Hself. unfold cnt. induction rems as [|y t IH]; [destruct Hin|]. simpl.
        destruct Hin as [->|Hi].
        - rewrite Hself. pose proof (cnt_le_length (gt_f x) t). unfold cnt in H. lia.
        - specialize (IH Hi). destruct (gt_f x y); simpl; lia. }
      lia.
    - rewrite <- (cnt_perm _ _ _ Hp), !cnt_app.
      assert (Hbelow : (thr <= x)%Q -> cnt (gt_f x) below = 0%nat).
      { intros Hx. apply cnt_none. eapply Forall_impl; [|exact Hb]. intros it Hit; cbv beta in Hit.
        apply not_true_iff_false. intros H. apply gt_f_Qlt in H. lra. }
      assert (Hlevel : (thr <= x)%Q -> cnt (gt_f x) level = 0%nat).
      { intros Hx. apply cnt_none. eapply Forall_impl; [|exact Hl]. intros it Hit; cbv beta in Hit.
        apply not_true_iff_false. intros H. apply gt_f_Qlt in H. lra. }
      assert (Hina : forall v, In (p, v) above -> (thr < x)%Q).
      { intros v Hv. assert (v = x) as <-.
        { apply (val_of _ above v Hp); [apply incl_appl, incl_refl|exact Hv]. }
        rewrite Forall_forall in Ha. apply (Ha _ Hv). }
      assert (Hinl : forall v, In (p, v) level -> (x == thr)%Q).
      { intros v Hv. assert (v = x) as <-.
        { apply (val_of _ level v Hp); [apply incl_appr, incl_appl, incl_refl|exact Hv]. }
        rewrite Forall_forall in Hl. apply (Hl _ Hv). }
      pose proof (cnt_le_length (gt_f x) above).
      assert (Hxthr : (thr <= x)%Q).
      { destruct Hc as [Hc|(T & HT & HpT)].
        - destruct (Nat.eq_dec (length above + length level) k) as [He|Hne].
          + rewrite (Heq He) in Hc. apply in_cand_of in Hc. destruct Hc as (v & Hv). apply in_app_or in Hv.
            destruct Hv as [Hv|Hv]; [pose proof (Hina v Hv); lra|pose proof (Hinl v Hv); lra].
          + rewrite Htie in Hc by lia. apply in_app_or in Hc. destruct Hc as [Hc|Hc].
            * apply in_cand_of in Hc. destruct Hc as (v & Hv). pose proof (Hina v Hv). lra.
            * apply repeat_spec in Hc. discriminate.
        - destruct (Nat.eq_dec (length above + length level) k) as [He|Hne].
          + rewrite (Heq He) in HT. apply in_map_iff in HT. destruct HT as (? & HT & _). discriminate.
          + rewrite Htie in HT by lia. apply in_app_or in HT. destruct HT as [HT|HT].
            * apply in_map_iff in HT. destruct HT as (? & HT & _). discriminate.
            * apply repeat_spec in HT. injection HT as ->. apply in_map_iff in HpT.
              destruct HpT as ([c v] & Hcp & Hv). simpl in Hcp. subst c. pose proof (Hinl v Hv). lra. }
      rewrite Hlevel, Hbelow by exact Hxthr. lia.
  Qed.

  Lemma gnb_count_poss : (cnt (gt_f x) rems < k)%nat -> In (Cand p) best \/ in_tie p best.
  Proof.
    intros Hc. destruct gnb_cases as [(_ & H & _)|(above & level & below & thr & Hp & Ha & Hl & Hb & Hpos & Heq & Htie)]; [left; exact H|].
    rewrite <- (cnt_perm _ _ _ Hp), !cnt_app in Hc.
    assert (Habove : (x < thr)%Q -> cnt (gt_f x) above = length above).
    { intros Hx. apply cnt_all. eapply Forall_impl; [|exact Ha]. intros it Hit; cbv beta in Hit. apply gt_f_Qlt. lra. }
    assert (Hlevel : (x < thr)%Q -> cnt (gt_f x) level = length level).
    { intros Hx. apply cnt_all. eapply Forall_impl; [|exact Hl]. intros it Hit; cbv beta in Hit. apply gt_f_Qlt. lra. }
    destruct (p_located above level below Hp) as [H|[H|H]].
    - left. destruct (Nat.eq_dec (length above + length level) k) as [He|Hne].
      + rewrite (Heq He). apply in_cand_of. exists x. apply in_or_app. left. exact H.
      + rewrite Htie by lia. apply in_or_app. left. apply in_cand_of. exists x. exact H.
    - destruct (Nat.eq_dec (length above + length level) k) as [He|Hne].
      + left. rewrite (Heq He). apply in_cand_of. exists x. apply in_or_app. right. exact H.
      + right. exists (map fst level). split.
        * rewrite Htie by lia. apply in_or_app. right.
          assert (Hr : (k - length above = S (k - length above - 1))%nat) by lia. rewrite Hr. left. reflexivity.
        * apply in_map_iff. exists (p, x). split; [reflexivity|exact H].
    - assert (Hx : (x < thr)%Q) by (rewrite Forall_forall in Hb; apply (Hb _ H)).
      rewrite Habove, Hlevel in Hc by exact Hx. lia.
  Qed.

  (* a certain seat and the tie exclude each other *)
  Lemma gnb_not_both : In (Cand p) best -> in_tie p best -> False.
  Proof.
    intros Hc (T & HT & HpT).
    destruct gnb_cases as [(_ & _ & Hnt)|(above & level & below & thr & Hp & Ha & Hl & Hb & Hpos & Heq & Htie)]; [exact (Hnt T HT)|].
    destruct (Nat.eq_dec (length above + length level) k) as [He|Hne].
    - rewrite (Heq He) in HT. apply in_map_iff in HT. destruct HT as (? & HT & _). discriminate.
    - rewrite Htie in HT, Hc by lia. apply in_app_or in HT. destruct HT as [HT|HT].
      + apply in_map_iff in HT. destruct HT as (? & HT & _). discriminate.
      + apply repeat_spec in HT. injection HT as ->. apply in_app_or in Hc. destruct Hc as [Hc|Hc].
        * apply in_cand_of in Hc. destruct Hc as (v & Hv). apply in_map_iff in HpT.
          destruct HpT as ([c w] & Hcp & Hw). simpl in Hcp. subst c.
          assert (v = x) by (apply (val_of _ above v Hp); [apply incl_appl, incl_refl|exact Hv]).
          assert (w = x) by (apply (val_of _ level w Hp); [apply incl_appr, incl_appl, incl_refl|exact Hw]).
          subst v w. rewrite Forall_forall in Ha, Hl. pose proof (Ha _ Hv) as H1. pose proof (Hl _ Hw) as H2.
          simpl in H1, H2. lra.
        * apply repeat_spec in Hc. discriminate.
  Qed.

  (* every tie object of the result is one and the same list *)
  Lemma gnb_tie_unique T1 T2 : In (TieR T1) best -> In (TieR T2) best -> T1 = T2.
  Proof.
    intros H1 H2.
    destruct gnb_cases as [(_ & _ & Hnt)|(above & level & below & thr & Hp & Ha & Hl & Hb & Hpos & Heq & Htie)]; [destruct (Hnt T1 H1)|].
    destruct (Nat.eq_dec (length above + length level) k) as [He|Hne].
    - rewrite (Heq He) in H1. apply in_map_iff in H1. destruct H1 as (? & H1 & _). discriminate.
    - rewrite Htie in H1, H2 by lia. apply in_app_or in H1, H2.
      destruct H1 as [H1|H1]; [apply in_map_iff in H1; destruct H1 as (? & H1 & _); discriminate|].
      destruct H2 as [H2|H2]; [apply in_map_iff in H2; destruct H2 as (? & H2 & _); discriminate|].
      apply repeat_spec in H1, H2. congruence.
  Qed.
End Gnb.

(* ---------------------------------------------------------------- rational facts *)
Open Scope Q_scope.

Definition qs (l : list (C * Q)) : Q := fold_right Qplus 0 (map snd l).

Lemma qsumv_qs l : qsumv l == qs l.
Proof.
  unfold qsumv, qs.
  assert (H : forall (m : list Q) a, fold_left Qplus m a == a + fold_right Qplus 0 m).
  { induction m as [|y t IH]; intros a; simpl; [ring|]. rewrite IH. ring. }
  rewrite H. ring.
Qed.

Lemma qs_nonneg l : (forall c v, In (c, v) l -> 0 <= v) -> 0 <= qs l.
Proof.
  unfold qs. induction l as [|[c v] t IH]; intros H; simpl; [apply Qle_refl|].
  assert (0 <= v) by (apply (H c); left; reflexivity).
  assert (0 <= fold_right Qplus 0 (map snd t)) by (apply IH; intros c' v' Hi; apply (H c'); right; exact Hi).
  lra.
Qed.

Lemma qs_member l c v : (forall c v, In (c, v) l -> 0 <= v) -> In (c, v) l -> v <= qs l.
Proof.
  induction l as [|[c0 v0] t IH]; intros H Hin; [destruct Hin|].
  assert (H0 : 0 <= v0) by (apply (H c0); left; reflexivity).
  assert (Ht : forall c v, In (c, v) t -> 0 <= v) by (intros c' v' Hi; apply (H c'); right; exact Hi).
  pose proof (qs_nonneg t Ht) as Hs. unfold qs in *. simpl.
  destruct Hin as [Hin|Hin].
  - injection Hin as _ ->. lra.
  - specialize (IH Ht Hin). lra.
Qed.

Lemma Qfloor_bounds x z : inject_Z z <= x -> x < inject_Z (z + 1) -> Qfloor x = z.
Proof.
  intros H1 H2. pose proof (Qfloor_le x) as H3. pose proof (Qlt_floor x) as H4.
  assert (A : (Qfloor x < z + 1)%Z).
  { rewrite Zlt_Qlt. eapply Qle_lt_trans; [exact H3|exact H2]. }
  assert (B : (z < Qfloor x + 1)%Z).
  { rewrite Zlt_Qlt. eapply Qle_lt_trans; [exact H1|exact H4]. }
  lia.
Qed.

Lemma div_nonneg v q : 0 < q -> 0 <= v -> 0 <= v / q.
Proof.
  intros Hq Hv. apply Qle_shift_div_l; [exact Hq|]. lra.
Qed.

Lemma div_mono_num a b q : 0 < q -> a <= b -> a / q <= b / q.
Proof.
  intros Hq Hab. unfold Qdiv. apply Qmult_le_compat_r; [exact Hab|]. apply Qlt_le_weak, Qinv_lt_0_compat, Hq.
Qed.

(* a larger quota makes a smaller share *)
Lemma div_anti_den v q1 q2 : 0 < q1 -> q1 <= q2 -> 0 <= v -> v / q2 <= v / q1.
Proof.
  intros H1 H12 Hv. assert (H2 : 0 < q2) by lra.
  apply Qle_shift_div_r; [exact H2|].
  assert (E : v / q1 * q2 == v + v / q1 * (q2 - q1)) by (field; lra).
  rewrite E.
  assert (0 <= v / q1 * (q2 - q1)) by (apply Qmult_le_0_compat; [apply div_nonneg; assumption|lra]).
  lra.
Qed.

(* ---------------------------------------------------------------- one run under the exact Hare quota *)
Open Scope Z_scope.

Definition fl (q v : Q) : Z := Qfloor (v / q).                       (* whole quotas *)
Definition remval (q v : Q) : Q := (v / q - inject_Z (fl q v))%Q.      (* exact remainder *)
Definition remf (q : Q) (cv : C * Q) : C * Q := (fst cv, remval q (snd cv)).
Definition fsum (q : Q) (l : list (C * Q)) : Z := lsumZ (map (fun cv => fl q (snd cv)) l).
Definition cands (b : list (res C)) : list C :=
  flat_map (fun r => match r with Cand c => [c] | TieR _ => [] end) b.
Definition tie_has (c : C) (b : list (res C)) : bool :=
  existsb (fun r => match r with TieR l => cmem c l | Cand _ => false end) b.
(* membership of a Tie key of a result dictionary *)
Definition tmem (s : list (key * Z)) (c : C) : bool :=
  existsb (fun kv : key * Z => match fst kv with KT l => cmem c l | K _ => false end) s.

Definition hq (votes : list (C * Q)) (n : Z) : Q := hare (qsumv votes) n.
Definition hsel (votes : list (C * Q)) (n : Z) : list (C * Z) := flat_map (isel true (hq votes n) [] []) votes.
Definition hR (votes : list (C * Q)) (n : Z) : Z := n - fsum (hq votes n) votes.
Definition hbest (votes : list (C * Q)) (n : Z) : list (res C) :=
  get_n_best Qle_bool (map (remf (hq votes n)) votes) (Z.to_nat (hR votes n)).
Definition hout (votes : list (C * Q)) (n : Z) : list (key * Z) :=
  if hR votes n <=? 0 then plain (hsel votes n) else seat_best (plain (hsel votes n)) (hbest votes n).

Lemma fsum_le q l : (0 < q)%Q -> (inject_Z (fsum q l) <= qs l / q)%Q.
Proof.
  intros Hq. unfold fsum, qs, lsumZ. induction l as [|[c v] t IH]; cbn [map fold_right snd].
  - unfold Qdiv. rewrite Qmult_0_l. apply Qle_refl.
  - rewrite inject_Z_plus.
    set (S := fold_right Qplus 0%Q (map snd t)) in *.
    set (F := inject_Z (fold_right Z.add 0 (map (fun cv : C * Q => fl q (snd cv)) t))) in *.
    assert (E : ((v + S) / q == v / q + S / q)%Q) by (field; lra).
    rewrite E. pose proof (Qfloor_le (v / q)) as H. fold (fl q v) in H. lra.
Qed.

Lemma in_cands c b : In c (cands b) <-> In (Cand c) b.
Proof.
  unfold cands. rewrite in_flat_map. split.
  - intros ([c'|l] & Hr & Hc); [|destruct Hc]. destruct Hc as [->|[]]. exact Hr.
  - intros H. exists (Cand c). split; [exact H|left; reflexivity].
Qed.

Lemma tie_has_in c b : tie_has c b = true <-> in_tie c b.
Proof.
  unfold tie_has, in_tie. rewrite existsb_exists. split.
  - intros ([c'|l] & Hr & Hc); [discriminate|]. exists l. split; [exact Hr|apply cmem_In, Hc].
  - intros (T & HT & Hc). exists (TieR T). split; [exact HT|apply cmem_In, Hc].
Qed.

(* the seats under the plain key and the tie membership after the remainder stage *)
Lemma plain_of_seat_best best : forall qe, plain_of (seat_best qe best) = fold_left incr_t (cands best) (plain_of qe).
Proof.
  unfold seat_best. induction best as [|[c|l] best IH]; intros qe; cbn [fold_left cands flat_map]; [reflexivity| |].
  - rewrite IH, plain_kincr_K. reflexivity.
  - rewrite IH, plain_kincr_T. reflexivity.
Qed.

Lemma tmem_kincr_K d c p : tmem (kincr d (K c)) p = tmem d p.
Proof.
  unfold tmem. induction d as [|[[c'|l] s] t IH]; cbn [kincr key_eqb]; [reflexivity| |].
  - destruct (ceqb c c'); cbn [existsb fst]; [reflexivity|exact IH].
  - cbn [existsb fst]. rewrite IH. reflexivity.
Qed.

Lemma forallb_cmem_In x y : forallb (fun c => cmem c y) x = true -> forall c, In c x -> In c y.
Proof. intros H c Hc. rewrite forallb_forall in H. apply cmem_In, H, Hc. Qed.

Lemma tmem_kincr_T d l p : tmem (kincr d (KT l)) p = tmem d p || cmem p l.
Proof.
  unfold tmem. induction d as [|[[c'|l0] s] t IH]; cbn [kincr key_eqb].
  - cbn [existsb fst]. destruct (cmem p l); reflexivity.
  - cbn [existsb fst]. exact IH.
  - destruct (forallb (fun c => cmem c l0) l && forallb (fun c => cmem c l) l0) eqn:E; cbn [existsb fst].
    + apply andb_true_iff in E. destruct E as [E1 E2].
      destruct (cmem p l) eqn:Ep; [|rewrite orb_false_r; reflexivity].
      apply cmem_In in Ep. pose proof (forallb_cmem_In _ _ E1 p Ep) as H. apply cmem_In in H. rewrite H. reflexivity.
    + rewrite IH. rewrite orb_assoc. reflexivity.
Qed.

Lemma tmem_seat_best p best : forall qe, tmem (seat_best qe best) p = tmem qe p || tie_has p best.
Proof.
  unfold seat_best, tie_has. induction best as [|[c|l] best IH]; intros qe; cbn [fold_left existsb].
  - rewrite orb_false_r. reflexivity.
  - rewrite IH, tmem_kincr_K. reflexivity.
  - rewrite IH, tmem_kincr_T, orb_assoc. reflexivity.
Qed.

Lemma tmem_plain sel p : tmem (plain sel) p = false.
Proof. unfold tmem, plain. induction sel as [|x t IH]; simpl; [reflexivity|exact IH]. Qed.

Lemma hare_ext : quota_ext hare.
Proof. intros a b n H. unfold hare. rewrite H. reflexivity. Qed.

Section Run.
  Variable pol : policy.
  Variable votes : list (C * Q).
  Variable n : Z.
  Hypothesis Hn : 1 <= n.
  Hypothesis Hnd : NoDup (map fst votes).
  Hypothesis Hpos : forall c v, In (c, v) votes -> (0 <= v)%Q.
  Hypothesis HV : (0 < qsumv votes)%Q.

  Let q := hq votes n.

  Lemma n_pos : (0 < inject_Z n)%Q.
  Proof. change 0%Q with (inject_Z 0). rewrite <- Zlt_Qlt. lia. Qed.

  Lemma q_pos : (0 < q)%Q.
  Proof. unfold q, hq, hare. apply Qlt_shift_div_l; [exact n_pos|]. lra. Qed.

  Lemma total_over_q : (qs votes / q == inject_Z n)%Q.
  Proof.
    pose proof n_pos. unfold q, hq, hare. rewrite <- (qsumv_qs votes). field. split; lra.
  Qed.

  Lemma fl_nonneg c v : In (c, v) votes -> 0 <= fl q v.
  Proof.
    intros Hin. unfold fl. change 0 with (Qfloor 0). apply Qfloor_resp_le, div_nonneg; [exact q_pos|apply (Hpos c), Hin].
  Qed.

  Lemma fl_le_n c v : In (c, v) votes -> fl q v <= n.
  Proof.
    intros Hin. unfold fl. rewrite <- (Qfloor_Z n). apply Qfloor_resp_le. rewrite <- total_over_q.
    apply div_mono_num; [exact q_pos|]. apply (qs_member votes c v Hpos Hin).
  Qed.

  Lemma fsum_le_n : fsum q votes <= n.
  Proof. rewrite Zle_Qle. rewrite <- total_over_q. apply fsum_le, q_pos. Qed.

  Lemma scan_item_hare c v : In (c, v) votes ->
    scan_item true q [] [] (c, v) = if 0 <? fl q v then Some (fl q v) else None.
  Proof.
    intros Hin. pose proof q_pos as Hq. pose proof (Hpos c v Hin) as Hv.
    pose proof (div_nonneg v q Hq Hv) as Hd.
    unfold scan_item, cap_whole. cbn [fst snd]. unfold dget_or. cbn [dget]. rewrite (py_trunc_floor _ Hd), Z.sub_0_r.
    fold (fl q v). destruct (fulfills true v q) eqn:Ef.
    - destruct (0 <? fl q v); reflexivity.
    - assert (Hz : fl q v = 0).
      { unfold fulfills in Ef. apply orb_false_iff in Ef. destruct Ef as [E1 E2]. cbn [andb] in E2.
        apply negb_false_iff, Qle_bool_iff in E1.
        assert (Hne : ~ (v == q)%Q) by (intros H; apply Qeq_bool_iff in H; congruence).
        assert (Hlt : (v < q)%Q) by (apply Qle_lteq in E1; tauto).
        unfold fl. apply Qfloor_bounds; [exact Hd|]. cbn [Z.add]. change (inject_Z 1) with 1%Q.
        apply Qlt_shift_div_r; [exact Hq|]. lra. }
      rewrite Hz. reflexivity.
  Qed.

  Lemma isel_hare c v : In (c, v) votes ->
    isel true q [] [] (c, v) = if 0 <? fl q v then [(c, fl q v)] else [].
  Proof. intros Hin. unfold isel. rewrite (scan_item_hare c v Hin). destruct (0 <? fl q v); reflexivity. Qed.

  Lemma scan_hare : scan true votes q [] [] [] = hsel votes n.
  Proof.
    rewrite scan_char; [|exact Hnd|intros c _ []]. cbn [app]. fold q. unfold hsel. fold q. reflexivity.
  Qed.

  Lemma hsel_nodup : keysnd (hsel votes n).
  Proof. apply isel_nodup, Hnd. Qed.

  Lemma hsel_get c v : In (c, v) votes -> dget_or (hsel votes n) c 0 = fl q v.
  Proof.
    unfold hsel. fold q.
    assert (H : forall l, NoDup (map fst l) -> (forall c v, In (c, v) l -> In (c, v) votes) ->
      (forall c v, In (c, v) l -> dget_or (flat_map (isel true q [] []) l) c 0 = fl q v) /\
      (forall c, ~ In c (map fst l) -> dget_or (flat_map (isel true q [] []) l) c 0 = 0)).
    { induction l as [|[c0 v0] t IH]; intros Hndl Hl.
      - split; [intros ? ? []|reflexivity].
      - inversion Hndl as [|? ? Hc0 Hndt]; subst.
        destruct (IH Hndt) as [IH1 IH2]; [intros c' v' Hi; apply Hl; right; exact Hi|].
        cbn [flat_map]. rewrite (isel_hare c0 v0) by (apply Hl; left; reflexivity).
        assert (Hhead : forall c, dget_or ((if 0 <? fl q v0 then [(c0, fl q v0)] else []) ++ flat_map (isel true q [] []) t) c 0
                    = if ceqb c c0 then (if 0 <? fl q v0 then fl q v0 else dget_or (flat_map (isel true q [] []) t) c 0)
                      else dget_or (flat_map (isel true q [] []) t) c 0).
        { intros c1. destruct (0 <? fl q v0); cbn [app]; [|destruct (ceqb c1 c0); reflexivity].
          unfold dget_or. cbn [dget]. destruct (ceqb c1 c0); reflexivity. }
        split.
        + intros c1 v1 [Hi|Hi].
          * injection Hi as <- <-. rewrite Hhead, ceqb_refl. destruct (0 <? fl q v0) eqn:E; [reflexivity|].
            rewrite (IH2 c0 Hc0). apply Z.ltb_ge in E. pose proof (fl_nonneg c0 v0 (Hl c0 v0 (or_introl eq_refl))). lia.
          * rewrite Hhead. assert (ceqb c1 c0 = false) as ->; [|apply IH1, Hi].
            apply ceqb_neq. intros ->. apply Hc0. apply in_map_iff. exists (c0, v1). split; [reflexivity|exact Hi].
        + intros c1 Hc. rewrite Hhead. assert (ceqb c1 c0 = false) as ->.
          { apply ceqb_neq. intros ->. apply Hc. left. reflexivity. }
          apply IH2. intros Hi. apply Hc. right. exact Hi. }
    intros Hin. apply (proj1 (H votes Hnd (fun c v Hi => Hi))). exact Hin.
  Qed.

  Lemma zsumv_hsel : zsumv (hsel votes n) = fsum q votes.
  Proof.
    unfold zsumv. rewrite fold_add_acc, Z.add_0_l. unfold hsel, fsum. fold q.
    assert (H : forall l, (forall c v, In (c, v) l -> In (c, v) votes) ->
      lsumZ (map snd (flat_map (isel true q [] []) l)) = lsumZ (map (fun cv => fl q (snd cv)) l)).
    { induction l as [|[c v] t IH]; intros Hl; [reflexivity|].
      cbn [flat_map map]. rewrite map_app, lsumZ_app, IH by (intros c' v' Hi; apply Hl; right; exact Hi).
      rewrite (isel_hare c v) by (apply Hl; left; reflexivity). cbn [lsumZ fold_right snd]. 
      destruct (0 <? fl q v) eqn:E; cbn [map lsumZ fold_right snd]; unfold lsumZ; [lia|].
      apply Z.ltb_ge in E. pose proof (fl_nonneg c v (Hl c v (or_introl eq_refl))). lia. }
    apply H. intros c v Hi. exact Hi.
  Qed.

  Lemma qd_hare : qd_evaluate hare true pol votes n [] [] = QD_ok (plain (hsel votes n)).
  Proof.
    unfold qd_evaluate. cbv zeta. fold (hq votes n). fold q.
    assert (Qeq_bool q 0 = false) as ->.
    { apply not_true_iff_false. intros H. apply Qeq_bool_iff in H. pose proof q_pos. lra. }
    cbn [andb]. rewrite scan_hare.
    rewrite zsumv_hsel. change (zsumv []) with 0. rewrite Z.add_0_r.
    assert (n <? fsum q votes = false) as -> by (apply Z.ltb_ge, fsum_le_n). reflexivity.
  Qed.

  Lemma rems_hare : remainders votes q (hsel votes n) [] = map (remf q) votes.
  Proof.
    unfold remainders.
    assert (H : forall l, (forall c v, In (c, v) l -> In (c, v) votes) ->
      flat_map (fun cv : C * Q => let (c, v) := cv in
         match dget (@nil (C * Z)) c with
         | Some m => if dget_or (hsel votes n) c 0 <? m then [(c, (v / q - inject_Z (dget_or (hsel votes n) c 0%Z))%Q)] else []
         | None => [(c, (v / q - inject_Z (dget_or (hsel votes n) c 0%Z))%Q)]
         end) l = map (remf q) l).
    { induction l as [|[c v] t IH]; intros Hl; [reflexivity|].
      cbn [flat_map map]. rewrite IH by (intros c' v' Hi; apply Hl; right; exact Hi).
      cbn [dget app]. rewrite (hsel_get c v) by (apply Hl; left; reflexivity). reflexivity. }
    apply H. intros c v Hi. exact Hi.
  Qed.

  (* the run, explicitly: it always succeeds *)
  Theorem lr_hare_run : lr_evaluate hare true pol votes n [] [] = LR_ok (hout votes n).
  Proof.
    assert (Hq : ~ (hare (qsumv votes) n == 0)%Q) by (pose proof q_pos as H; unfold q, hq in H; lra).
    rewrite (lr_structure hare true pol votes n [] [] (hsel votes n) Hq qd_hare).
    unfold add_dict. cbn [fold_left]. rewrite zsumv_hsel. fold (hq votes n). fold q. rewrite rems_hare.
    unfold hout, hbest, hR. fold q. destruct (n - fsum q votes <=? 0); reflexivity.
  Qed.

  Lemma remf_keys qq (l : list (C * Q)) : map fst (map (remf qq) l) = map fst l.
  Proof. rewrite map_map. reflexivity. Qed.

  Lemma hbest_cands_nodup : 0 < hR votes n -> NoDup (cands (hbest votes n)).
  Proof.
    intros HR. unfold hbest, cands. fold q. rewrite <- rems_hare. apply lr_at_most_one; [lia|exact Hnd].
  Qed.

  Lemma hout_plain_nodup : keysnd (plain_of (hout votes n)).
  Proof.
    unfold hout. destruct (hR votes n <=? 0).
    - unfold plain. rewrite plain_of_kplain. exact hsel_nodup.
    - rewrite plain_of_seat_best. apply fold_op_nodup; [apply incr_t_nodup|].
      unfold plain. rewrite plain_of_kplain. exact hsel_nodup.
  Qed.

  (* seats held for certain: the whole quotas, plus one when the party is a plain entry of the remainder stage *)
  Lemma kdget_hout c v : In (c, v) votes ->
    kdget (hout votes n) c = fl q v + (if 0 <? hR votes n then count c (cands (hbest votes n)) else 0).
  Proof.
    intros Hin. rewrite (kdget_plain_of _ _ hout_plain_nodup). unfold hout.
    destruct (hR votes n <=? 0) eqn:E.
    - apply Z.leb_le in E. assert (0 <? hR votes n = false) as -> by (apply Z.ltb_ge; lia).
      unfold plain. rewrite plain_of_kplain, (hsel_get c v Hin). lia.
    - apply Z.leb_gt in E. assert (0 <? hR votes n = true) as -> by (apply Z.ltb_lt; lia).
      rewrite plain_of_seat_best, dget_or_fold_incr. unfold plain. rewrite plain_of_kplain, (hsel_get c v Hin). reflexivity.
  Qed.

  Lemma tmem_hout c : tmem (hout votes n) c = (0 <? hR votes n) && tie_has c (hbest votes n).
  Proof.
    unfold hout. destruct (hR votes n <=? 0) eqn:E.
    - apply Z.leb_le in E. assert (0 <? hR votes n = false) as -> by (apply Z.ltb_ge; lia). apply tmem_plain.
    - apply Z.leb_gt in E. assert (0 <? hR votes n = true) as -> by (apply Z.ltb_lt; lia).
      rewrite tmem_seat_best, tmem_plain. reflexivity.
  Qed.
End Run.

(* ---------------------------------------------------------------- two profiles: party p gains votes *)
Definition updp (p : C) (vp' : Q) (cv : C * Q) : C * Q := if ceqb (fst cv) p then (fst cv, vp') else cv.

Lemma updp_keys p vp' l : map fst (map (updp p vp') l) = map fst l.
Proof.
  rewrite map_map. apply map_ext. intros [c v]. unfold updp. cbn [fst]. destruct (ceqb c p); reflexivity.
Qed.

Lemma updp_notin p vp' l : ~ In p (map fst l) -> map (updp p vp') l = l.
Proof.
  induction l as [|[c v] t IH]; intros H; [reflexivity|]. cbn [map]. rewrite IH by (intros Hi; apply H; right; exact Hi).
  unfold updp. cbn [fst]. assert (ceqb c p = false) as ->; [|reflexivity].
  apply ceqb_neq. intros ->. apply H. left. reflexivity.
Qed.

Lemma qs_updp p vp vp' l : NoDup (map fst l) -> In (p, vp) l -> (qs (map (updp p vp') l) == qs l + (vp' - vp))%Q.
Proof.
  induction l as [|[c v] t IH]; intros Hnd Hin; [destruct Hin|].
  inversion Hnd as [|? ? Hc Hndt]; subst. cbn [map]. unfold qs in *. cbn [map fold_right snd].
  destruct (ceqb c p) eqn:E.
  - apply ceqb_eq in E. subst c. unfold updp at 1. cbn [fst]. rewrite ceqb_refl. cbn [snd].
    rewrite (updp_notin p vp' t Hc).
    assert (v = vp) as ->.
    { destruct Hin as [Hin|Hin]; [congruence|]. exfalso. apply Hc. apply in_map_iff. exists (p, vp). split; [reflexivity|exact Hin]. }
    ring.
  - unfold updp at 1. cbn [fst]. rewrite E. cbn [snd].
    destruct Hin as [Hin|Hin]; [injection Hin as -> _; rewrite ceqb_refl in E; discriminate|].
    rewrite (IH Hndt Hin). ring.
Qed.

Lemma dget_updp p vp' l c :
  dget (map (updp p vp') l) c =
  if ceqb c p then match dget l p with Some _ => Some vp' | None => None end else dget l c.
Proof.
  induction l as [|[c0 v0] t IH]; cbn [map dget].
  - destruct (ceqb c p); reflexivity.
  - unfold updp at 1. cbn [fst]. destruct (ceqb c0 p) eqn:E0.
    + apply ceqb_eq in E0. subst c0. cbn [dget]. rewrite ceqb_refl. destruct (ceqb c p) eqn:E; [reflexivity|].
      rewrite IH. reflexivity.
    + cbn [dget]. rewrite IH. destruct (ceqb c p) eqn:E.
      * apply ceqb_eq in E. subst c. assert (ceqb p c0 = false) as ->; [|reflexivity].
        apply ceqb_neq. apply ceqb_neq in E0. congruence.
      * reflexivity.
Qed.

Lemma cnt_sum_bound {A} (h : A -> bool) (g1 g2 : A -> Z) l :
  (forall x, In x l -> (if h x then 1 else 0) <= g1 x - g2 x) ->
  Z.of_nat (cnt h l) <= lsumZ (map g1 l) - lsumZ (map g2 l).
Proof.
  unfold cnt, lsumZ. induction l as [|x t IH]; intros H; cbn [filter map fold_right length]; [lia|].
  assert (IH' := IH (fun y Hy => H y (or_intror Hy))). pose proof (H x (or_introl eq_refl)) as Hx.
  destruct (h x); cbn [length]; lia.
Qed.

Lemma count_le_1 c l : NoDup l -> count c l <= 1.
Proof.
  intros Hnd. destruct (in_dec Pos.eq_dec c l) as [Hi|Hi].
  - rewrite (count_nodup c l Hnd Hi). lia.
  - rewrite (count_notin c l Hi). lia.
Qed.

(* a larger numerator and denominator by the same amount: the share of the gaining party does not drop *)
Lemma frac_mono (a b d : Q) : (0 <= a -> a <= b -> 0 < b -> 0 <= d -> a / b <= (a + d) / (b + d))%Q.
Proof.
  intros Ha Hab Hb Hd. apply Qle_shift_div_l; [lra|].
  assert (E : (a / b * (b + d) == a + a / b * d)%Q) by (field; lra). rewrite E.
  assert (H1 : (a / b <= 1)%Q) by (apply Qle_shift_div_r; [exact Hb|lra]).
  assert (H2 : (a / b * d <= 1 * d)%Q) by (apply Qmult_le_compat_r; assumption).
  lra.
Qed.

Section Cmp.
  Variable votes : list (C * Q).
  Variables (p : C) (vp vp' q1 q2 : Q) (n : Z).
  Hypothesis Hnd : NoDup (map fst votes).
  Hypothesis Hpos : forall c v, In (c, v) votes -> (0 <= v)%Q.
  Hypothesis Hq1 : (0 < q1)%Q.
  Hypothesis Hq12 : (q1 <= q2)%Q.
  Hypothesis Hin : In (p, vp) votes.
  Hypothesis Hshare : (vp / q1 <= vp' / q2)%Q.
  Hypothesis Hfl : fl q1 vp = fl q2 vp'.

  Let votes2 := map (updp p vp') votes.
  Let R1 := n - fsum q1 votes.
  Let R2 := n - fsum q2 votes2.
  Let rems1 := map (remf q1) votes.
  Let rems2 := map (remf q2) votes2.
  Let x1 := remval q1 vp.
  Let x2 := remval q2 vp'.

  Lemma x12 : (x1 <= x2)%Q.
  Proof. unfold x1, x2, remval. rewrite Hfl. lra. Qed.

  Lemma item_cmp c v : In (c, v) votes ->
    fl q2 v <= fl q1 v /\ (fl q2 v = fl q1 v -> (remval q2 v <= remval q1 v)%Q).
  Proof.
    intros Hi. pose proof (div_anti_den v q1 q2 Hq1 Hq12 (Hpos c v Hi)) as H. split.
    - apply Qfloor_resp_le, H.
    - intros E. unfold remval. rewrite E. lra.
  Qed.

  Lemma val_p v : In (p, v) votes -> v = vp.
  Proof. intros Hi. apply (key_val_unique votes p v vp Hnd Hi Hin). Qed.

  Lemma updp_item c v : updp p vp' (c, v) = if ceqb c p then (c, vp') else (c, v).
  Proof. reflexivity. Qed.

  Definition dropped (cv : C * Q) : bool := negb (ceqb (fst cv) p) && (fl q2 (snd cv) <? fl q1 (snd cv)).

  Lemma dropped_bound : Z.of_nat (cnt dropped votes) <= fsum q1 votes - fsum q2 votes2.
  Proof.
    unfold fsum, votes2. rewrite map_map. apply cnt_sum_bound. intros [c v] Hi. unfold dropped. cbn [fst snd].
    rewrite updp_item. destruct (ceqb c p) eqn:E; cbn [negb andb snd].
    - apply ceqb_eq in E. subst c. rewrite (val_p v Hi). lia.
    - destruct (item_cmp c v Hi) as [H _]. destruct (fl q2 v <? fl q1 v) eqn:E2; [apply Z.ltb_lt in E2|]; lia.
  Qed.

  Lemma cnt_ge_cmp : (cnt (ge_f x2) rems2 <= cnt (ge_f x1) rems1 + cnt dropped votes)%nat.
  Proof.
    unfold rems2, rems1, votes2. rewrite !cnt_map. apply cnt_le_sum. intros [c v] Hi Hf.
    unfold ge_f, remf in *. rewrite updp_item in Hf. unfold dropped. cbn [fst snd] in *.
    destruct (ceqb c p) eqn:E; cbn [negb andb fst snd] in *.
    - apply ceqb_eq in E. subst c. rewrite (val_p v Hi). left. apply Qle_bool_iff. apply Qle_refl.
    - destruct (item_cmp c v Hi) as [H1 H2]. destruct (fl q2 v <? fl q1 v) eqn:E2; [right; reflexivity|left].
      apply Z.ltb_ge in E2. assert (E3 : fl q2 v = fl q1 v) by lia. specialize (H2 E3).
      apply Qle_bool_iff in Hf. apply Qle_bool_iff. pose proof x12. fold x1. fold x2 in Hf. lra.
  Qed.

  Lemma cnt_gt_cmp : (cnt (gt_f x2) rems2 <= cnt (gt_f x1) rems1 + cnt dropped votes)%nat.
  Proof.
    unfold rems2, rems1, votes2. rewrite !cnt_map. apply cnt_le_sum. intros [c v] Hi Hf.
    apply gt_f_Qlt in Hf. unfold remf in Hf. rewrite updp_item in Hf. unfold dropped. cbn [fst snd] in *.
    destruct (ceqb c p) eqn:E; cbn [negb andb fst snd] in *.
    - fold x2 in Hf. exfalso. lra.
    - destruct (item_cmp c v Hi) as [H1 H2]. destruct (fl q2 v <? fl q1 v) eqn:E2; [right; reflexivity|left].
      apply Z.ltb_ge in E2. assert (E3 : fl q2 v = fl q1 v) by lia. specialize (H2 E3).
      apply gt_f_Qlt. unfold remf. cbn [fst snd]. pose proof x12. fold x1. lra.
  Qed.

  Lemma in_rems1 : In (p, x1) rems1.
  Proof. unfold rems1. apply in_map_iff. exists (p, vp). split; [reflexivity|exact Hin]. Qed.

  Lemma in_rems2 : In (p, x2) rems2.
  Proof.
    unfold rems2, votes2. apply in_map_iff. exists (p, vp'). split; [reflexivity|].
    apply in_map_iff. exists (p, vp). split; [|exact Hin]. rewrite updp_item, ceqb_refl. reflexivity.
  Qed.

  Lemma nd_rems1 : NoDup (map fst rems1).
  Proof. unfold rems1. rewrite map_map. exact Hnd. Qed.

  Lemma nd_rems2 : NoDup (map fst rems2).
  Proof. unfold rems2, votes2. rewrite map_map. change (NoDup (map fst (map (updp p vp') votes))). rewrite updp_keys. exact Hnd. Qed.

  Lemma sure_transfer : 0 < R1 -> In (Cand p) (get_n_best Qle_bool rems1 (Z.to_nat R1)) ->
    0 < R2 /\ In (Cand p) (get_n_best Qle_bool rems2 (Z.to_nat R2)).
  Proof.
    intros HR Hc.
    assert (Hk1 : (1 <= Z.to_nat R1)%nat) by lia.
    pose proof (gnb_sure_count rems1 (Z.to_nat R1) Hk1 nd_rems1 p x1 in_rems1 Hc) as H1.
    pose proof cnt_ge_cmp as H2. pose proof dropped_bound as H3.
    assert (H4 : (1 <= cnt (ge_f x2) rems2)%nat).
    { apply (cnt_pos _ _ (p, x2) in_rems2). unfold ge_f. apply Qle_bool_iff. apply Qle_refl. }
    assert (H5 : Z.of_nat (cnt (ge_f x2) rems2) <= R2) by (unfold R1, R2 in *; lia).
    assert (Hk2 : (1 <= Z.to_nat R2)%nat) by lia.
    split; [lia|].
    apply (gnb_count_sure rems2 (Z.to_nat R2) Hk2 p x2 in_rems2). lia.
  Qed.

  Lemma poss_transfer : 0 < R1 ->
    In (Cand p) (get_n_best Qle_bool rems1 (Z.to_nat R1)) \/ in_tie p (get_n_best Qle_bool rems1 (Z.to_nat R1)) ->
    0 < R2 /\ (In (Cand p) (get_n_best Qle_bool rems2 (Z.to_nat R2)) \/ in_tie p (get_n_best Qle_bool rems2 (Z.to_nat R2))).
  Proof.
    intros HR Hc.
    assert (Hk1 : (1 <= Z.to_nat R1)%nat) by lia.
    pose proof (gnb_poss_count rems1 (Z.to_nat R1) Hk1 nd_rems1 p x1 in_rems1 Hc) as H1.
    pose proof cnt_gt_cmp as H2. pose proof dropped_bound as H3.
    assert (H5 : Z.of_nat (cnt (gt_f x2) rems2) < R2) by (unfold R1, R2 in *; lia).
    assert (Hk2 : (1 <= Z.to_nat R2)%nat) by lia.
    split; [lia|].
    apply (gnb_count_poss rems2 (Z.to_nat R2) Hk2 p x2 in_rems2). lia.
  Qed.
End Cmp.

(* ---------------------------------------------------------------- monotonicity, same insertion order *)
(* seats held for certain plus the possible seat as a member of a Tie key *)
Definition kposs (s : list (key * Z)) (c : C) : Z := kdget s c + (if tmem s c then 1 else 0).

Section Mono.
  Variables (votes : list (C * Q)) (n : Z) (p : C) (vp vp' : Q).
  Hypothesis Hn : 1 <= n.
  Hypothesis Hnd : NoDup (map fst votes).
  Hypothesis Hpos : forall c v, In (c, v) votes -> (0 <= v)%Q.
  Hypothesis HV : (0 < qsumv votes)%Q.
  Hypothesis Hin : In (p, vp) votes.
  Hypothesis Hle : (vp <= vp')%Q.

  Let votes2 := map (updp p vp') votes.

  Lemma nd2 : NoDup (map fst votes2).
  Proof. unfold votes2. rewrite updp_keys. exact Hnd. Qed.

  Lemma pos2 : forall c v, In (c, v) votes2 -> (0 <= v)%Q.
  Proof.
    intros c v Hi. unfold votes2 in Hi. apply in_map_iff in Hi. destruct Hi as ([c0 v0] & He & Hi0).
    unfold updp in He. cbn [fst] in He. destruct (ceqb c0 p).
    - injection He as _ <-. pose proof (Hpos p vp Hin). lra.
    - injection He as _ <-. apply (Hpos c0 v0 Hi0).
  Qed.

  Lemma sum2 : (qsumv votes2 == qsumv votes + (vp' - vp))%Q.
  Proof. rewrite !qsumv_qs. apply qs_updp; assumption. Qed.

  Lemma HV2 : (0 < qsumv votes2)%Q.
  Proof. rewrite sum2. lra. Qed.

  Lemma in2 : In (p, vp') votes2.
  Proof.
    unfold votes2. apply in_map_iff. exists (p, vp). split; [|exact Hin]. unfold updp. cbn [fst]. rewrite ceqb_refl. reflexivity.
  Qed.

  Lemma q12 : (hq votes n <= hq votes2 n)%Q.
  Proof.
    unfold hq, hare. apply div_mono_num; [apply (n_pos n Hn)|]. rewrite sum2. lra.
  Qed.

  Lemma share : (vp / hq votes n <= vp' / hq votes2 n)%Q.
  Proof.
    pose proof (n_pos n Hn) as HN. pose proof (Hpos p vp Hin) as Hvp.
    assert (HvV : (vp <= qsumv votes)%Q) by (rewrite qsumv_qs; apply (qs_member votes p vp Hpos Hin)).
    unfold hq, hare. rewrite sum2.
    set (V := qsumv votes) in *. set (N := inject_Z n) in *.
    assert (E1 : (vp / (V / N) == N * (vp / V))%Q) by (field; split; lra).
    assert (E2 : (vp' / ((V + (vp' - vp)) / N) == N * ((vp + (vp' - vp)) / (V + (vp' - vp))))%Q) by (field; split; lra).
    rewrite E1, E2. apply Qmult_le_l; [exact HN|]. apply frac_mono; lra.
  Qed.

  Let f1 := fl (hq votes n) vp.
  Let f2 := fl (hq votes2 n) vp'.

  Lemma f12 : f1 <= f2.
  Proof. apply Qfloor_resp_le, share. Qed.

  Lemma best1_eq : hbest votes n = get_n_best Qle_bool (map (remf (hq votes n)) votes) (Z.to_nat (n - fsum (hq votes n) votes)).
  Proof. reflexivity. Qed.

  Lemma best2_eq : hbest votes2 n =
    get_n_best Qle_bool (map (remf (hq votes2 n)) (map (updp p vp') votes))
      (Z.to_nat (n - fsum (hq votes2 n) (map (updp p vp') votes))).
  Proof. reflexivity. Qed.

  Theorem mono_same_order_sure : kdget (hout votes n) p <= kdget (hout votes2 n) p.
  Proof.
    pose proof (kdget_hout votes n Hn Hnd Hpos HV p vp Hin) as K1.
    pose proof (kdget_hout votes2 n Hn nd2 pos2 HV2 p vp' in2) as K2.
    fold f1 in K1. fold f2 in K2. pose proof f12 as Hf.
    pose proof (count_nonneg p (cands (hbest votes n))) as N1.
    pose proof (count_nonneg p (cands (hbest votes2 n))) as N2.
    destruct (0 <? hR votes n) eqn:E1.
    2:{ rewrite K1, K2. destruct (0 <? hR votes2 n); lia. }
    apply Z.ltb_lt in E1.
    pose proof (count_le_1 p _ (hbest_cands_nodup votes n Hn Hnd Hpos HV E1)) as C1.
    destruct (Z.eq_dec f1 f2) as [Ef|Ef].
    2:{ rewrite K1, K2. destruct (0 <? hR votes2 n); lia. }
    destruct (in_dec Pos.eq_dec p (cands (hbest votes n))) as [Hi|Hi].
    - apply in_cands in Hi. rewrite best1_eq in Hi.
      destruct (sure_transfer votes p vp vp' (hq votes n) (hq votes2 n) n Hnd Hpos (q_pos votes n Hn HV) q12 Hin share Ef E1 Hi)
        as [HR2 Hc2].
      rewrite <- best2_eq in Hc2. apply in_cands in Hc2.
      assert (E2 : 0 <? hR votes2 n = true) by (apply Z.ltb_lt; exact HR2).
      rewrite E2 in K2.
      rewrite (count_nodup p (cands (hbest votes2 n))) in K2; [lia| |exact Hc2].
      apply (hbest_cands_nodup votes2 n Hn nd2 pos2 HV2). exact HR2.
    - rewrite (count_notin _ _ Hi) in K1. rewrite K1, K2. destruct (0 <? hR votes2 n); lia.
  Qed.

  Theorem mono_same_order_poss : kposs (hout votes n) p <= kposs (hout votes2 n) p.
  Proof.
    unfold kposs. rewrite !tmem_hout.
    pose proof (kdget_hout votes n Hn Hnd Hpos HV p vp Hin) as K1.
    pose proof (kdget_hout votes2 n Hn nd2 pos2 HV2 p vp' in2) as K2.
    fold f1 in K1. fold f2 in K2. pose proof f12 as Hf.
    pose proof (count_nonneg p (cands (hbest votes n))) as N1.
    pose proof (count_nonneg p (cands (hbest votes2 n))) as N2.
    destruct (0 <? hR votes n) eqn:E1; cbn [andb].
    2:{ rewrite K1, K2. destruct (0 <? hR votes2 n); cbn [andb]; [destruct (tie_has p (hbest votes2 n))|]; lia. }
    apply Z.ltb_lt in E1.
    pose proof (count_le_1 p _ (hbest_cands_nodup votes n Hn Hnd Hpos HV E1)) as C1.
    assert (Hk1 : (1 <= Z.to_nat (hR votes n))%nat) by lia.
    assert (Hr1 : In (p, remval (hq votes n) vp) (map (remf (hq votes n)) votes)).
    { apply in_map_iff. exists (p, vp). split; [reflexivity|exact Hin]. }
    assert (Hnd1 : NoDup (map fst (map (remf (hq votes n)) votes))) by (rewrite map_map; exact Hnd).
    (* at most one of the two: the certain remainder seat, the tie *)
    assert (Hone : kdget (hout votes n) p + (if tie_has p (hbest votes n) then 1 else 0) <= f1 + 1).
    { rewrite K1. destruct (tie_has p (hbest votes n)) eqn:Et; [|lia].
      destruct (in_dec Pos.eq_dec p (cands (hbest votes n))) as [Hi|Hi]; [|rewrite (count_notin _ _ Hi); lia].
      exfalso. apply in_cands in Hi. apply tie_has_in in Et.
      exact (gnb_not_both _ _ Hk1 Hnd1 p _ Hr1 Hi Et). }
    destruct (Z.eq_dec f1 f2) as [Ef|Ef].
    2:{ rewrite K2. destruct (0 <? hR votes2 n); cbn [andb]; [destruct (tie_has p (hbest votes2 n))|]; lia. }
    destruct (in_dec Pos.eq_dec p (cands (hbest votes n))) as [Hi|Hi];
      [|destruct (tie_has p (hbest votes n)) eqn:Et].
    - apply in_cands in Hi. rewrite best1_eq in Hi.
      destruct (poss_transfer votes p vp vp' (hq votes n) (hq votes2 n) n Hnd Hpos (q_pos votes n Hn HV) q12 Hin share Ef E1
                  (or_introl Hi)) as [HR2 Hc2].
      rewrite <- best2_eq in Hc2.
      assert (E2 : 0 <? hR votes2 n = true) by (apply Z.ltb_lt; exact HR2).
      rewrite E2 in *. cbn [andb]. destruct Hc2 as [Hc2|Hc2].
      + apply in_cands in Hc2. rewrite (count_nodup p (cands (hbest votes2 n))) in K2; [| |exact Hc2].
        * destruct (tie_has p (hbest votes2 n)); lia.
        * apply (hbest_cands_nodup votes2 n Hn nd2 pos2 HV2). exact HR2.
      + apply tie_has_in in Hc2. rewrite Hc2. lia.
    - apply tie_has_in in Et. rewrite best1_eq in Et.
      destruct (poss_transfer votes p vp vp' (hq votes n) (hq votes2 n) n Hnd Hpos (q_pos votes n Hn HV) q12 Hin share Ef E1
                  (or_intror Et)) as [HR2 Hc2].
      rewrite <- best2_eq in Hc2.
      assert (E2 : 0 <? hR votes2 n = true) by (apply Z.ltb_lt; exact HR2).
      rewrite E2 in *. cbn [andb]. destruct Hc2 as [Hc2|Hc2].
      + apply in_cands in Hc2. rewrite (count_nodup p (cands (hbest votes2 n))) in K2; [| |exact Hc2].
        * destruct (tie_has p (hbest votes2 n)); lia.
        * apply (hbest_cands_nodup votes2 n Hn nd2 pos2 HV2). exact HR2.
      + apply tie_has_in in Hc2. rewrite Hc2. lia.
    - rewrite (count_notin _ _ Hi) in K1. rewrite K1, K2.
      destruct (0 <? hR votes2 n); cbn [andb]; [destruct (tie_has p (hbest votes2 n))|]; lia.
  Qed.
End Mono.

(* ---------------------------------------------------------------- any insertion order of the second profile *)
Lemma tmem_ties s c : tmem s c = existsb (fun lz : list C * Z => cmem c (fst lz)) (ties_of s).
Proof.
  unfold tmem, ties_of. induction s as [|[[c'|l] z] t IH]; cbn [existsb flat_map fst snd app]; [reflexivity|exact IH|].
  rewrite IH. reflexivity.
Qed.

Lemma tmem_rel s s' c : Forall2 tie_rel (ties_of s) (ties_of s') -> tmem s c = tmem s' c.
Proof.
  intros H. rewrite !tmem_ties. induction H as [|a b t t' [Hp _] _ IH]; [reflexivity|].
  cbn [existsb]. rewrite IH, (cmem_perm c _ _ Hp). reflexivity.
Qed.

Section Final.
  Variable pol : policy.
  Variables (votes votes' : list (C * Q)) (n : Z) (p : C) (vp vp' : Q).
  Hypothesis Hn : 1 <= n.
  Hypothesis Hnd : NoDup (map fst votes).
  Hypothesis Hnd' : NoDup (map fst votes').
  Hypothesis Hpos : forall c v, In (c, v) votes -> (0 <= v)%Q.
  Hypothesis HV : (0 < qsumv votes)%Q.
  Hypothesis Hp : dget votes p = Some vp.
  Hypothesis Hp' : dget votes' p = Some vp'.
  Hypothesis Hle : (vp <= vp')%Q.
  Hypothesis Hother : forall c, c <> p -> dget votes' c = dget votes c.

  Lemma perm2 : Permutation (map (updp p vp') votes) votes'.
  Proof.
    apply dict_ext_perm; [rewrite updp_keys; exact Hnd|exact Hnd'|].
    intros c. rewrite dget_updp. destruct (ceqb c p) eqn:E.
    - apply ceqb_eq in E. subst c. rewrite Hp, Hp'. reflexivity.
    - apply ceqb_neq in E. symmetry. apply Hother, E.
  Qed.

  Lemma second_run s2 : lr_evaluate hare true pol votes' n [] [] = LR_ok s2 ->
    ok_rel (hout (map (updp p vp') votes) n) s2.
  Proof.
    intros H2. pose proof (dget_In votes p vp Hp) as Hin.
    pose proof (lr_evaluate_perm hare true pol hare_ext (map (updp p vp') votes) votes' n [] [] [] []
                  (nd2 votes p vp' Hnd) perm2 (NoDup_nil _) (Permutation_refl _) (fun _ => eq_refl)) as Hrel.
    rewrite (lr_hare_run pol _ n Hn (nd2 votes p vp' Hnd) (pos2 votes p vp vp' Hpos Hin Hle) (HV2 votes p vp vp' Hnd HV Hin Hle)) in Hrel.
    rewrite H2 in Hrel. exact Hrel.
  Qed.

  Theorem lr_hare_mono_sure s1 s2 :
    lr_evaluate hare true pol votes n [] [] = LR_ok s1 ->
    lr_evaluate hare true pol votes' n [] [] = LR_ok s2 ->
    kdget s1 p <= kdget s2 p.
  Proof.
    intros H1 H2. pose proof (dget_In votes p vp Hp) as Hin.
    rewrite (lr_hare_run pol votes n Hn Hnd Hpos HV) in H1. injection H1 as <-.
    destruct (ok_rel_obs _ _ (second_run s2 H2)) as [Hk _]. rewrite <- Hk.
    apply (mono_same_order_sure votes n p vp vp' Hn Hnd Hpos HV Hin Hle).
  Qed.

  Theorem lr_hare_mono_poss s1 s2 :
    lr_evaluate hare true pol votes n [] [] = LR_ok s1 ->
    lr_evaluate hare true pol votes' n [] [] = LR_ok s2 ->
    kposs s1 p <= kposs s2 p.
  Proof.
    intros H1 H2. pose proof (dget_In votes p vp Hp) as Hin.
    rewrite (lr_hare_run pol votes n Hn Hnd Hpos HV) in H1. injection H1 as <-.
    destruct (ok_rel_obs _ _ (second_run s2 H2)) as [Hk Ht].
    unfold kposs at 2. rewrite <- Hk, <- (tmem_rel _ _ p Ht).
    apply (mono_same_order_poss votes n p vp vp' Hn Hnd Hpos HV Hin Hle).
  Qed.
End Final.

(* ---------------------------------------------------------------- the exported theorems *)
(* LargestRemainder('hare') never fails on a profile of non-negative votes with a positive total *)
Theorem lr_hare_defined : forall (pol : policy) (votes : list (C * Q)) (n : Z),
  1 <= n -> NoDup (map fst votes) -> (forall c v, In (c, v) votes -> (0 <= v)%Q) -> (0 < qsumv votes)%Q ->
  exists s, lr_evaluate Quota.hare true pol votes n [] [] = LR_ok s.
Proof. intros pol votes n Hn Hnd Hpos HV. exists (hout votes n). apply lr_hare_run; assumption. Qed.

(* vote monotonicity: a party whose votes grow, every other party's votes unchanged (the two dictionaries in any
   insertion order), keeps at least the seats it held for certain *)
Theorem lr_hare_votes_monotone : forall (pol : policy) (votes votes' : list (C * Q)) (n : Z) (p : C) (vp vp' : Q) s1 s2,
  1 <= n -> NoDup (map fst votes) -> NoDup (map fst votes') ->
  (forall c v, In (c, v) votes -> (0 <= v)%Q) -> (forall c v, In (c, v) votes' -> (0 <= v)%Q) -> (0 < qsumv votes)%Q ->
  dget votes p = Some vp -> dget votes' p = Some vp' -> (vp <= vp')%Q ->
  (forall c, c <> p -> dget votes' c = dget votes c) ->
  lr_evaluate Quota.hare true pol votes n [] [] = LR_ok s1 ->
  lr_evaluate Quota.hare true pol votes' n [] [] = LR_ok s2 ->
  kdget s1 p <= kdget s2 p.
Proof.
  intros pol votes votes' n p vp vp' s1 s2 Hn Hnd Hnd' Hpos _ HV Hp Hp' Hle Hother H1 H2.
  exact (lr_hare_mono_sure pol votes votes' n p vp vp' Hn Hnd Hnd' Hpos HV Hp Hp' Hle Hother s1 s2 H1 H2).
Qed.

(* ... and its certain seats plus the possible seat as a member of the Tie key do not drop either *)
Theorem lr_hare_votes_monotone_possible : forall (pol : policy) (votes votes' : list (C * Q)) (n : Z) (p : C) (vp vp' : Q) s1 s2,
  1 <= n -> NoDup (map fst votes) -> NoDup (map fst votes') ->
  (forall c v, In (c, v) votes -> (0 <= v)%Q) -> (forall c v, In (c, v) votes' -> (0 <= v)%Q) -> (0 < qsumv votes)%Q ->
  dget votes p = Some vp -> dget votes' p = Some vp' -> (vp <= vp')%Q ->
  (forall c, c <> p -> dget votes' c = dget votes c) ->
  lr_evaluate Quota.hare true pol votes n [] [] = LR_ok s1 ->
  lr_evaluate Quota.hare true pol votes' n [] [] = LR_ok s2 ->
  kposs s1 p <= kposs s2 p.
Proof.
  intros pol votes votes' n p vp vp' s1 s2 Hn Hnd Hnd' Hpos _ HV Hp Hp' Hle Hother H1 H2.
  exact (lr_hare_mono_poss pol votes votes' n p vp vp' Hn Hnd Hnd' Hpos HV Hp Hp' Hle Hother s1 s2 H1 H2).
Qed.

(* ---------------------------------------------------------------- non-vacuity *)
(* no tie: party 2 goes from 30 to 70 votes of 100 / 140, 4 seats: 1 seat -> 2 seats *)
Example lr_hare_mono_example_rise :
  lr_evaluate Quota.hare true PError [(1%positive, 50#1); (2%positive, 30#1); (3%positive, 20#1)]%Q 4 [] []
    = LR_ok [(K 1%positive, 2); (K 2%positive, 1); (K 3%positive, 1)] /\
  lr_evaluate Quota.hare true PError [(1%positive, 50#1); (2%positive, 70#1); (3%positive, 20#1)]%Q 4 [] []
    = LR_ok [(K 1%positive, 1); (K 2%positive, 2); (K 3%positive, 1)].
Proof. split; vm_compute; reflexivity. Qed.

(* with ties, the second dictionary in another insertion order: 5 seats, party 2 goes from 30 to 60 votes.
   Before: 1 certain seat and a member of Tie{1,2} holding the fifth seat; after: 2 certain seats *)
Definition ex_votes : list (C * Q) := [(1%positive, 50#1); (2%positive, 30#1); (3%positive, 20#1)]%Q.
Definition ex_votes' : list (C * Q) := [(3%positive, 20#1); (2%positive, 60#1); (1%positive, 50#1)]%Q.

Example lr_hare_mono_example_tie :
  lr_evaluate Quota.hare true PError ex_votes 5 [] []
    = LR_ok [(K 1%positive, 2); (K 2%positive, 1); (K 3%positive, 1); (KT [1%positive; 2%positive], 1)] /\
  lr_evaluate Quota.hare true PError ex_votes' 5 [] []
    = LR_ok [(K 2%positive, 2); (K 1%positive, 2); (K 3%positive, 1)] /\
  kdget [(K 1%positive, 2); (K 2%positive, 1); (K 3%positive, 1); (KT [1%positive; 2%positive], 1)] 2%positive = 1 /\
  kposs [(K 1%positive, 2); (K 2%positive, 1); (K 3%positive, 1); (KT [1%positive; 2%positive], 1)] 2%positive = 2 /\
  kdget [(K 2%positive, 2); (K 1%positive, 2); (K 3%positive, 1)] 2%positive = 2 /\
  kposs [(K 2%positive, 2); (K 1%positive, 2); (K 3%positive, 1)] 2%positive = 2.
Proof. repeat split; vm_compute; reflexivity. Qed.

(* a three-way tie for both seats; party 1 gains one vote and holds a seat for certain *)
Example lr_hare_mono_example_tie3 :
  lr_evaluate Quota.hare true PError [(1%positive, 1#1); (2%positive, 1#1); (3%positive, 1#1)]%Q 2 [] []
    = LR_ok [(KT [1%positive; 2%positive; 3%positive], 2)] /\
  lr_evaluate Quota.hare true PError [(1%positive, 2#1); (2%positive, 1#1); (3%positive, 1#1)]%Q 2 [] []
    = LR_ok [(K 1%positive, 1); (KT [2%positive; 3%positive], 1)].
Proof. split; vm_compute; reflexivity. Qed.

(* the hypotheses of the theorems hold of the tie example *)
Example lr_hare_mono_hypotheses :
  1 <= 5 /\ NoDup (map fst ex_votes) /\ NoDup (map fst ex_votes') /\
  (forall c v, In (c, v) ex_votes -> (0 <= v)%Q) /\ (forall c v, In (c, v) ex_votes' -> (0 <= v)%Q) /\
  (0 < qsumv ex_votes)%Q /\
  dget ex_votes 2%positive = Some (30#1)%Q /\ dget ex_votes' 2%positive = Some (60#1)%Q /\ (30#1 <= 60#1)%Q /\
  (forall c, c <> 2%positive -> dget ex_votes' c = dget ex_votes c).
Proof.
  assert (Hnn : forall l : list (C * Q), forallb (fun cv => Qle_bool 0 (snd cv)) l = true -> forall c v, In (c, v) l -> (0 <= v)%Q).
  { intros l H c v Hi. rewrite forallb_forall in H. apply Qle_bool_iff. apply (H (c, v) Hi). }
  split; [lia|]. split; [repeat constructor; simpl; intuition discriminate|].
  split; [repeat constructor; simpl; intuition discriminate|].
  split; [apply Hnn; vm_compute; reflexivity|]. split; [apply Hnn; vm_compute; reflexivity|].
  split; [vm_compute; reflexivity|]. split; [reflexivity|]. split; [reflexivity|]. split; [vm_compute; discriminate|].
  intros c Hc. unfold ex_votes, ex_votes'. cbn [dget].
  destruct (ceqb c 1%positive) eqn:E1, (ceqb c 2%positive) eqn:E2, (ceqb c 3%positive) eqn:E3; try reflexivity;
    try apply ceqb_eq in E1; try apply ceqb_eq in E2; try apply ceqb_eq in E3; congruence.
Qed.

(* ... so the theorems apply to it *)
Example lr_hare_mono_instance :
  kdget [(K 1%positive, 2); (K 2%positive, 1); (K 3%positive, 1); (KT [1%positive; 2%positive], 1)] 2%positive
  <= kdget [(K 2%positive, 2); (K 1%positive, 2); (K 3%positive, 1)] 2%positive.
Proof.
  destruct lr_hare_mono_hypotheses as (H1 & H2 & H3 & H4 & H5 & H6 & H7 & H8 & H9 & H10).
  destruct lr_hare_mono_example_tie as (R1 & R2 & _).
  exact (lr_hare_votes_monotone PError ex_votes ex_votes' 5 2%positive _ _ _ _ H1 H2 H3 H4 H5 H6 H7 H8 H9 H10 R1 R2).
Qed.

Print Assumptions lr_hare_defined.
Print Assumptions lr_hare_votes_monotone.
Print Assumptions lr_hare_votes_monotone_possible.
