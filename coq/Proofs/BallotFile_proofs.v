(* C19 - lemmas about Model/BallotFile.v *)
From Coq Require Import ZArith QArith Qcanon List Bool Lia.
From VL Require Import Model.Persist Model.BallotFile.
Import ListNotations.
Open Scope Z_scope.

(* ---------------------------------------------------------------- totality: the repaired parser never crashes *)
Definition no_crash {X} (r : lres X) : Prop := match r with Crash _ => False | _ => True end.

Lemma tokval_total : forall fd i t, no_crash (tokval false fd i t).
Proof. intros fd i [n|q|]; simpl; try exact I; destruct (fd && Nat.eqb i 0); exact I. Qed.

Lemma tokvals_total : forall fd l i, no_crash (tokvals false fd i l).
Proof.
  intros fd l. induction l as [|t l IH]; intros i; simpl; [exact I|].
  pose proof (tokval_total fd i t) as H. destruct (tokval false fd i t); simpl in *; try exact I; [|contradiction].
  pose proof (IH (S i)) as H2. destruct (tokvals false fd (S i) l); simpl in *; try exact I. contradiction.
Qed.

Lemma parse_numline_total : forall fd l, no_crash (parse_numline false fd l).
Proof. intros fd [ts|s]; simpl; [apply tokvals_total|]. destruct fd; exact I. Qed.

Lemma parse_ballot_total : forall nums, no_crash (parse_ballot nums).
Proof.
  intros nums. unfold parse_ballot. destruct (rev nums) as [|x f]; [exact I|].
  destruct (qzero x); [|exact I]. destruct (rev f); exact I.
Qed.

Lemma parse_body_total : forall op ls b wd enc, no_crash (parse_body false op ls b wd enc).
Proof.
  intros op ls. induction ls as [|l rest IH]; intros b wd enc; simpl; [exact I|].
  pose proof (parse_numline_total true l) as H. destruct (parse_numline false true l) as [nums| |e]; simpl in *; try exact I; [|contradiction].
  destruct nums as [|x r]; [apply IH|].
  destruct (qzero x && match r with [] => true | _ => false end); [exact I|].
  destruct (qneg x).
  - destruct enc; [exact I|apply IH].
  - pose proof (parse_ballot_total (x :: r)) as H2. destruct (parse_ballot (x :: r)) as [[w bl]| |e]; simpl in *; try exact I; [|contradiction].
    destruct (op && negb (Qle_bool 1 w)); [exact I|apply IH].
Qed.

Lemma quoted_lines_total : forall ls acc es, no_crash (quoted_lines ls acc es).
Proof.
  induction ls as [|l rest IH]; intros acc es; simpl; [exact I|].
  destruct l as [ts|s].
  - destruct ts; [apply IH|exact I].
  - destruct es; [exact I|apply IH].
Qed.

Lemma parse_strings_total : forall ls n, no_crash (parse_strings false ls n).
Proof.
  intros ls n. unfold parse_strings. pose proof (quoted_lines_total ls [] false) as H.
  destruct (quoted_lines ls [] false) as [p| |e]; simpl in *; try exact I; [|contradiction].
  destruct p as [|s [|s2 p]]; try exact I.
  - destruct (n =? 1); exact I.
  - destruct (_ <? n); [exact I|]. destruct (_ =? n); [exact I|]. destruct (_ =? n + 1); exact I.
Qed.

Lemma check_ranking_total : forall n r, no_crash (check_ranking false n r).
Proof.
  intros n r. induction r as [|i t IH]; simpl; [exact I|]. unfold check_index.
  destruct ((1 <=? i) && (i <=? n)); simpl; [|exact I].
  destruct (check_ranking false n t); simpl in *; try exact I. contradiction.
Qed.

Lemma deindex_total : forall n b, no_crash (deindex false n b).
Proof.
  intros n b. induction b as [|[r w] t IH]; simpl; [exact I|].
  pose proof (check_ranking_total n r) as H. destruct (check_ranking false n r); simpl in *; try exact I; [|contradiction].
  destruct (deindex false n t); simpl in *; try exact I. contradiction.
Qed.

Theorem load_lines_total : forall op ls, no_crash (load_lines false op ls).
Proof.
  intros op [|h body]; simpl; [exact I|].
  pose proof (parse_numline_total false h) as H. destruct (parse_numline false false h) as [nums| |e]; simpl in *; try exact I; [|contradiction].
  destruct nums as [|nc [|ns [|x r]]]; try exact I.
  pose proof (parse_body_total op body [] [] false) as H2.
  destruct (parse_body false op body [] [] false) as [[[bl wd] rest]| |e]; simpl in *; try exact I; [|contradiction].
  pose proof (parse_strings_total rest (Qnum nc)) as H3.
  destruct (parse_strings false rest (Qnum nc)) as [nr| |e]; simpl in *; try exact I; [|contradiction].
  destruct nr as [names title|s].
  - pose proof (deindex_total (Z.of_nat (length (form_cands match names with Some l => map Named l | None => numbered (Z.to_nat (Qnum nc)) 1 end wd 1))) bl) as H4.
    destruct (deindex false _ bl); simpl in *; try exact I. contradiction.
  - pose proof (deindex_total (Z.of_nat (length (form_cands (map (fun c => Named [c]) s) wd 1))) bl) as H4.
    destruct (deindex false _ bl); simpl in *; try exact I. contradiction.
Qed.

(* ---------------------------------------------------------------- tokens of a written line read back *)
Lemma tokvals_nats : forall fd l i, tokvals false fd i (map TNat l) = Ok (map inject_Z l).
Proof. intros fd l. induction l as [|z l IH]; intros i; simpl; [reflexivity|]. now rewrite IH. Qed.

Lemma tokval_wtok : forall w, tokval false true 0 (wtok w) = Ok w.
Proof.
  intros [n d]. unfold wtok. cbn [Qden Qnum].
  destruct (Pos.eqb d 1) eqn:Hd; destruct (0 <=? n) eqn:Hn; cbn [andb tokval Nat.eqb]; try reflexivity.
  apply Pos.eqb_eq in Hd. subst d. reflexivity.
Qed.

Lemma tokvals_ballot : forall w l,
  tokvals false true 0 (wtok w :: map TNat l ++ [TNat 0]) = Ok (w :: map inject_Z l ++ [inject_Z 0]).
Proof.
  intros w l. cbn [tokvals]. rewrite tokval_wtok.
  replace (map TNat l ++ [TNat 0]) with (map TNat (l ++ [0])) by (rewrite map_app; reflexivity).
  rewrite tokvals_nats, map_app. reflexivity.
Qed.

Lemma parse_ballot_written : forall w l,
  parse_ballot (w :: map inject_Z l ++ [inject_Z 0]) = Ok (w, l).
Proof.
  intros w l. unfold parse_ballot.
  replace (rev (w :: map inject_Z l ++ [inject_Z 0])) with (inject_Z 0 :: rev (map inject_Z l) ++ [w]).
  2:{ simpl. rewrite rev_app_distr. reflexivity. }
  replace (qzero (inject_Z 0)) with true by reflexivity.
  rewrite rev_app_distr, rev_involutive. simpl. rewrite map_map. simpl. rewrite map_id. reflexivity.
Qed.

Lemma zlist_eqb_eq : forall a b, zlist_eqb a b = true -> a = b.
Proof.
  induction a as [|x a IH]; destruct b as [|y b]; simpl; intros H; try discriminate; [reflexivity|].
  apply andb_true_iff in H. destruct H as [H1 H2]. apply Z.eqb_eq in H1. subst. f_equal. auto.
Qed.

Lemma plist_eqb_refl : forall a, plist_eqb a a = true.
Proof. induction a as [|x a IH]; simpl; [reflexivity|]. now rewrite Pos.eqb_refl. Qed.

Lemma badd_fresh : forall b r w,
  existsb (fun rw => zlist_eqb r (fst rw)) b = false -> badd b r w = b ++ [(r, Qred (0 + w))].
Proof.
  induction b as [|[r' w'] b IH]; intros r w H; simpl in *; [reflexivity|].
  apply orb_false_iff in H. destruct H as [H1 H2]. rewrite H1. f_equal. apply IH. exact H2.
Qed.

Lemma weight_reduced : forall w, weight_ok w = true -> Qred (0 + w) = w /\ qneg w = false.
Proof.
  intros w H. unfold weight_ok in H. apply andb_true_iff in H. destruct H as [H1 H2]. apply Z.eqb_eq in H2.
  split.
  - rewrite (Qred_complete (0 + w) w (Qplus_0_l w)). apply Qred_identity. exact H2.
  - unfold qneg. rewrite H1. reflexivity.
Qed.

(* ---------------------------------------------------------------- positions of candidates *)
Lemma index_of_range : forall c cands k i, index_of c cands k = Some i -> k <= i < k + Z.of_nat (length cands).
Proof.
  intros c cands. induction cands as [|[[c' nm] wd] t IH]; intros k i H; simpl in H; [discriminate|].
  destruct (Pos.eqb c c').
  - inversion H. subst. simpl length. lia.
  - apply IH in H. simpl length. lia.
Qed.

Lemma index_of_inj : forall cands c c' k i, index_of c cands k = Some i -> index_of c' cands k = Some i -> c = c'.
Proof.
  induction cands as [|[[c0 nm] wd] t IH]; intros c c' k i H H'; simpl in *; [discriminate|].
  destruct (Pos.eqb c c0) eqn:E1; destruct (Pos.eqb c' c0) eqn:E2.
  - apply Pos.eqb_eq in E1. apply Pos.eqb_eq in E2. congruence.
  - inversion H; subst. apply index_of_range in H'. lia.
  - inversion H'; subst. apply index_of_range in H. lia.
  - eapply IH; eauto.
Qed.

Lemma indices_inj : forall cands r r' l, indices r cands = Some l -> indices r' cands = Some l -> r = r'.
Proof.
  intros cands. induction r as [|c r IH]; intros r' l H H'; simpl in H.
  - inversion H; subst. destruct r' as [|c' r']; [reflexivity|]. simpl in H'.
    destruct (index_of c' cands 1); [destruct (indices r' cands)|]; discriminate.
  - destruct (index_of c cands 1) as [i|] eqn:Ei; [|discriminate].
    destruct (indices r cands) as [is_|] eqn:Er; [|discriminate]. inversion H; subst.
    destruct r' as [|c' r']; simpl in H'; [discriminate|].
    destruct (index_of c' cands 1) as [i'|] eqn:Ei'; [|discriminate].
    destruct (indices r' cands) as [is'|] eqn:Er'; [|discriminate]. inversion H'; subst.
    f_equal; [eapply index_of_inj; eauto | eapply IH; eauto].
Qed.

Lemma indices_range : forall cands r l, indices r cands = Some l ->
  Forall (fun i => 1 <= i <= Z.of_nat (length cands)) l.
Proof.
  intros cands. induction r as [|c r IH]; intros l H; simpl in H.
  - inversion H. constructor.
  - destruct (index_of c cands 1) as [i|] eqn:Ei; [|discriminate].
    destruct (indices r cands) as [is_|] eqn:Er; [|discriminate]. inversion H; subst.
    constructor; [apply index_of_range in Ei; lia | apply IH; reflexivity].
Qed.

Lemma check_ranking_ok : forall n l, Forall (fun i => 1 <= i <= n) l -> check_ranking false n l = Ok l.
Proof.
  intros n l H. induction H as [|i l Hi Hl IH]; simpl; [reflexivity|]. unfold check_index.
  replace ((1 <=? i) && (i <=? n)) with true by (symmetry; apply andb_true_iff; split; apply Z.leb_le; lia).
  rewrite IH. reflexivity.
Qed.

Lemma deindex_ok : forall n ps, Forall (fun rw => Forall (fun i => 1 <= i <= n) (fst rw)) ps -> deindex false n ps = Ok ps.
Proof.
  intros n ps H. induction H as [|[r w] ps Hr Hps IH]; simpl; [reflexivity|].
  simpl in Hr. rewrite (check_ranking_ok n r Hr), IH. reflexivity.
Qed.

(* ---------------------------------------------------------------- the body *)
Definition bline (rw : list Z * Q) : line := LToks (wtok (snd rw) :: map TNat (fst rw) ++ [TNat 0]).
Definition wdval (i : Z) : Q := Qopp (inject_Z (- (i + 1))).

Lemma withdrawn_inds_ge : forall cands k, Forall (fun i => k <= i) (withdrawn_inds cands k).
Proof.
  induction cands as [|[[c nm] w] t IH]; intros k; simpl; [constructor|].
  assert (H : Forall (fun i => k <= i) (withdrawn_inds t (k + 1))).
  { eapply Forall_impl; [|apply IH]. intros a Ha. simpl in Ha. lia. }
  destruct w; [constructor; [lia|exact H]|exact H].
Qed.

Lemma body_withdrawn : forall op inds rest b wd, Forall (fun i => 0 <= i) inds ->
  parse_body false op (map (fun i => LToks [ztok (wd_number false i)]) inds ++ rest) b wd false =
  parse_body false op rest b (wd ++ map wdval inds) false.
Proof.
  intros op inds rest b. induction inds as [|i inds IH]; intros wd H; simpl.
  - now rewrite app_nil_r.
  - inversion H as [|? ? Hi Hr]; subst. unfold wd_number, ztok.
    replace (0 <=? - (i + 1)) with false by (symmetry; apply Z.leb_gt; lia).
    cbn [parse_numline tokvals tokval andb Nat.eqb].
    assert (Hz : qzero (inject_Z (- (i + 1))) = false).
    { unfold qzero, Qeq_bool, inject_Z. simpl. destruct (- (i + 1)) eqn:E; try reflexivity. lia. }
    assert (Hn : qneg (inject_Z (- (i + 1))) = true).
    { unfold qneg, Qle_bool, inject_Z. simpl. apply negb_true_iff. apply Z.leb_gt. lia. }
    rewrite Hz, Hn. simpl andb. cbv iota. rewrite IH by exact Hr. simpl map. rewrite <- app_assoc. reflexivity.
Qed.

Lemma body_step_ballot : forall r w rest b wd enc, weight_ok w = true ->
  parse_body false false (bline (r, w) :: rest) b wd enc = parse_body false false rest (badd b r w) wd true.
Proof.
  intros r w rest b wd enc Hw. destruct (weight_reduced w Hw) as [Hred Hneg].
  unfold bline. cbn [fst snd]. cbn [parse_body]. cbn [parse_numline]. rewrite tokvals_ballot.
  assert (Hnz : (qzero w && match map inject_Z r ++ [inject_Z 0] with [] => true | _ => false end) = false).
  { destruct (map inject_Z r); simpl; apply andb_false_r. }
  rewrite Hnz, Hneg, parse_ballot_written. cbn [andb]. reflexivity.
Qed.

Lemma body_ballots : forall ps rest b wd enc,
  Forall (fun rw => weight_ok (snd rw) = true) ps ->
  (forall pre r w post, b ++ ps = pre ++ (r, w) :: post -> existsb (fun rw => zlist_eqb r (fst rw)) pre = false) ->
  exists enc', parse_body false false (map bline ps ++ rest) b wd enc = parse_body false false rest (b ++ ps) wd enc'.
Proof.
  induction ps as [|[r w] ps IH]; intros rest b wd enc Hw Hd.
  - exists enc. simpl. now rewrite app_nil_r.
  - inversion Hw as [|? ? Hw1 Hw2]; subst. simpl in Hw1. destruct (weight_reduced w Hw1) as [Hred Hneg].
    cbn [map app]. rewrite (body_step_ballot r w _ b wd enc Hw1).
    assert (Hfresh : existsb (fun rw => zlist_eqb r (fst rw)) b = false).
    { apply (Hd b r w ps). reflexivity. }
    rewrite (badd_fresh b r w Hfresh), Hred.
    destruct (IH rest (b ++ [(r, w)]) wd true Hw2) as [enc' He].
    { intros pre r0 w0 post Heq. apply (Hd pre r0 w0 post). rewrite <- Heq, <- app_assoc. reflexivity. }
    exists enc'. rewrite He, <- app_assoc. reflexivity.
Qed.

Lemma body_end : forall op rest b wd enc,
  parse_body false op (LToks [TNat 0] :: rest) b wd enc = Ok (b, wd, rest).
Proof. reflexivity. Qed.

(* ---------------------------------------------------------------- the strings *)
Lemma quoted_all : forall l acc, quoted_lines (map LQuoted l) acc false = Ok (acc ++ l).
Proof.
  induction l as [|s l IH]; intros acc; simpl; [now rewrite app_nil_r|]. rewrite IH, <- app_assoc. reflexivity.
Qed.

Lemma parse_strings_written : forall names title,
  parse_strings false (map LQuoted names ++ match title with Some t => [LQuoted t] | None => [] end)
                (Z.of_nat (length names)) =
  Ok (Names (match names with [] => None | _ => Some names end) title).
Proof.
  intros names title. unfold parse_strings.
  assert (Hq : quoted_lines (map LQuoted names ++ match title with Some t => [LQuoted t] | None => [] end) [] false
               = Ok (names ++ match title with Some t => [t] | None => [] end)).
  { destruct title as [t|].
    - replace (map LQuoted names ++ [LQuoted t]) with (map LQuoted (names ++ [t])) by (rewrite map_app; reflexivity).
      exact (quoted_all (names ++ [t]) []).
    - rewrite !app_nil_r. exact (quoted_all names []). }
  rewrite Hq. destruct title as [t|].
  - destruct names as [|s1 names]; [reflexivity|].
    assert (Hlen : Z.of_nat (length ((s1 :: names) ++ [t])) = Z.of_nat (length (s1 :: names)) + 1).
    { rewrite app_length. simpl length. lia. }
    remember (s1 :: names) as nm eqn:Enm.
    destruct (nm ++ [t]) as [|a [|a2 p]] eqn:Ep.
    + subst nm. discriminate.
    + subst nm. simpl in Ep. destruct names; discriminate.
    + cbv zeta. rewrite Hlen.
      replace (_ + 1 <? _) with false by (symmetry; apply Z.ltb_ge; lia).
      replace (Z.of_nat (length nm) + 1 =? Z.of_nat (length nm)) with false by (symmetry; apply Z.eqb_neq; lia).
      rewrite Z.eqb_refl. rewrite <- Ep, removelast_last, last_last. subst nm. reflexivity.
  - rewrite app_nil_r. destruct names as [|s1 [|s2 names]]; try reflexivity.
    remember (s1 :: s2 :: names) as nm. rewrite Z.ltb_irrefl, Z.eqb_refl. subst nm. reflexivity.
Qed.

(* ---------------------------------------------------------------- withdrawn flags *)
Lemma wdval_match : forall i j, Qeq_bool (wdval i) (inject_Z (j + 1)) = (i =? j).
Proof.
  intros i j. unfold wdval, Qeq_bool, Qopp, inject_Z. simpl. rewrite !Z.mul_1_r, Z.opp_involutive.
  unfold Zeq_bool. destruct (Z.compare_spec (i + 1) (j + 1)); destruct (Z.eqb_spec i j); try reflexivity; lia.
Qed.

Lemma flag_of_inds : forall inds j,
  existsb (fun q => Qeq_bool q (inject_Z (j + 1))) (map wdval inds) = existsb (fun i => i =? j) inds.
Proof.
  induction inds as [|i inds IH]; intros j; simpl; [reflexivity|]. rewrite wdval_match, IH. reflexivity.
Qed.

Definition cand_names (cands : list cand) : list str := map (fun c => match c with (_, name, _) => name end) cands.
Definition cand_loaded (cands : list cand) : list (cname * bool) :=
  map (fun c => match c with (_, name, w) => (Named name, w) end) cands.

Lemma form_cands_written : forall cands k pre,
  Forall (fun i => i < k) pre ->
  form_cands (map Named (cand_names cands)) (map wdval (pre ++ withdrawn_inds cands k)) (k + 1) = cand_loaded cands.
Proof.
  induction cands as [|[[c nm] w] t IH]; intros k pre Hpre; simpl; [reflexivity|].
  rewrite flag_of_inds. f_equal.
  - f_equal. rewrite existsb_app.
    assert (Hp : existsb (fun i => i =? k) pre = false).
    { clear - Hpre. induction Hpre as [|i pre Hi Hp IH]; simpl; [reflexivity|]. rewrite IH.
      replace (i =? k) with false by (symmetry; apply Z.eqb_neq; lia). reflexivity. }
    rewrite Hp. simpl.
    assert (Hr : existsb (fun i => i =? k) (withdrawn_inds t (k + 1)) = false).
    { pose proof (withdrawn_inds_ge t (k + 1)) as Hge. induction Hge as [|i l Hi Hl IHl]; simpl; [reflexivity|].
      rewrite IHl. replace (i =? k) with false by (symmetry; apply Z.eqb_neq; lia). reflexivity. }
    destruct w; simpl; [rewrite Z.eqb_refl; reflexivity|exact Hr].
  - destruct w.
    + replace (pre ++ k :: withdrawn_inds t (k + 1)) with ((pre ++ [k]) ++ withdrawn_inds t (k + 1))
        by (rewrite <- app_assoc; reflexivity).
      apply IH. apply Forall_app. split; [eapply Forall_impl; [|exact Hpre]; intros a Ha; simpl in Ha; lia|constructor; [lia|constructor]].
    + apply IH. eapply Forall_impl; [|exact Hpre]. intros a Ha. simpl in Ha. lia.
Qed.

(* ---------------------------------------------------------------- assembling the round trip *)
Lemma positions_dump : forall votes cands ps, positions votes cands = Some ps ->
  dump_votes votes cands = Some (map bline ps).
Proof.
  induction votes as [|[r w] t IH]; intros cands ps H; simpl in *.
  - inversion H. reflexivity.
  - destruct (indices r cands) as [is_|]; [|discriminate].
    destruct (positions t cands) as [ps'|] eqn:Ep; [|discriminate]. inversion H; subst.
    rewrite (IH cands ps' Ep). reflexivity.
Qed.

Lemma positions_in : forall votes cands ps r w, positions votes cands = Some ps -> In (r, w) ps ->
  exists rv, In rv (map fst votes) /\ indices rv cands = Some r.
Proof.
  induction votes as [|[r0 w0] t IH]; intros cands ps r w H Hin; simpl in *.
  - inversion H; subst. contradiction.
  - destruct (indices r0 cands) as [is0|] eqn:Ei; [|discriminate].
    destruct (positions t cands) as [ps'|] eqn:Ep; [|discriminate]. inversion H; subst.
    destruct Hin as [Heq|Hin].
    + inversion Heq; subst. exists r0. split; [left; reflexivity|exact Ei].
    + destruct (IH cands ps' r w Ep Hin) as [rv [H1 H2]]. exists rv. split; [right; exact H1|exact H2].
Qed.

Lemma positions_distinct : forall votes cands ps, positions votes cands = Some ps ->
  rankings_nodup (map fst votes) = true ->
  forall pre r w post, ps = pre ++ (r, w) :: post -> existsb (fun rw => zlist_eqb r (fst rw)) pre = false.
Proof.
  induction votes as [|[r0 w0] t IH]; intros cands ps H Hnd pre r w post Heq; simpl in *.
  - inversion H as [Hps]. rewrite <- Hps in Heq. destruct pre; discriminate.
  - destruct (indices r0 cands) as [is0|] eqn:Ei; [|discriminate].
    destruct (positions t cands) as [ps'|] eqn:Ep; [|discriminate]. inversion H as [Hps]. rewrite <- Hps in Heq. clear H Hps.
    apply andb_true_iff in Hnd. destruct Hnd as [Hn1 Hn2]. apply negb_true_iff in Hn1.
    destruct pre as [|[rp wp] pre']; [reflexivity|].
    simpl in Heq. inversion Heq as [[Hr0 Hw0 Hrest]]. subst rp wp. simpl.
    rewrite (IH cands _ Ep Hn2 pre' r w post Hrest), orb_false_r.
    destruct (zlist_eqb r is0) eqn:Ez; [|reflexivity]. exfalso.
    apply zlist_eqb_eq in Ez. subst r.
    destruct (positions_in t cands _ is0 w Ep) as [rv [Hin Hrv]]; [rewrite Hrest; apply in_or_app; right; left; reflexivity|].
    pose proof (indices_inj cands r0 rv is0 Ei Hrv) as Hsame. subst rv.
    assert (Hex : existsb (plist_eqb r0) (map fst t) = true).
    { apply existsb_exists. exists r0. split; [exact Hin|apply plist_eqb_refl]. }
    rewrite Hex in Hn1. discriminate.
Qed.

Lemma positions_weights : forall votes cands ps, positions votes cands = Some ps ->
  forallb (fun rw => weight_ok (snd rw)) votes = true -> Forall (fun rw => weight_ok (snd rw) = true) ps.
Proof.
  induction votes as [|[r0 w0] t IH]; intros cands ps H Hw; simpl in *.
  - inversion H. constructor.
  - destruct (indices r0 cands) as [is0|]; [|discriminate].
    destruct (positions t cands) as [ps'|] eqn:Ep; [|discriminate]. inversion H; subst.
    apply andb_true_iff in Hw. destruct Hw as [H1 H2]. constructor; [exact H1|eapply IH; eauto].
Qed.

Lemma positions_ranges : forall votes cands ps, positions votes cands = Some ps ->
  Forall (fun rw => Forall (fun i => 1 <= i <= Z.of_nat (length cands)) (fst rw)) ps.
Proof.
  induction votes as [|[r0 w0] t IH]; intros cands ps H; simpl in *.
  - inversion H. constructor.
  - destruct (indices r0 cands) as [is0|] eqn:Ei; [|discriminate].
    destruct (positions t cands) as [ps'|] eqn:Ep; [|discriminate]. inversion H; subst.
    constructor; [simpl; eapply indices_range; eauto|eapply IH; eauto].
Qed.

Theorem blt_roundtrip : forall e x, wf_election e = true -> expected e = Some x ->
  exists ls, dump_lines false e = DumpOk ls /\ load_lines false false ls = Ok x.
Proof.
  intros [[[votes seats] cands] title] x Hwf Hex. unfold expected in Hex.
  destruct (positions votes cands) as [ps|] eqn:Ep; [|discriminate]. inversion Hex; subst x. clear Hex.
  unfold wf_election in Hwf.
  apply andb_true_iff in Hwf. destruct Hwf as [Hwf Hseats]. apply andb_true_iff in Hwf. destruct Hwf as [Hwf Hw].
  apply andb_true_iff in Hwf. destruct Hwf as [Hwf Hnd]. apply Z.leb_le in Hseats.
  unfold dump_lines. rewrite (positions_dump votes cands ps Ep). eexists. split; [reflexivity|].
  unfold load_lines.
  assert (Hh : parse_numline false false (LToks [ztok (Z.of_nat (length cands)); ztok seats])
               = Ok [inject_Z (Z.of_nat (length cands)); inject_Z seats]).
  { unfold ztok. replace (0 <=? Z.of_nat (length cands)) with true by (symmetry; apply Z.leb_le; lia).
    replace (0 <=? seats) with true by (symmetry; apply Z.leb_le; lia). reflexivity. }
  rewrite Hh. cbn [Qnum inject_Z].
  rewrite body_withdrawn by (eapply Forall_impl; [|apply withdrawn_inds_ge]; intros a Ha; exact Ha).
  match goal with
  | |- context [parse_body false false (map bline ps ++ ?R) [] ?W false] =>
      destruct (body_ballots ps R [] W false (positions_weights votes cands ps Ep Hw)) as [enc' Hb]
  end.
  { intros pre r w post Heq. simpl in Heq. eapply positions_distinct; eauto. }
  rewrite Hb. cbn [app]. rewrite body_end.
  assert (Hnm : forall l : list cand,
            map (fun c : positive * str * bool => let (y, _) := c in let (_, name) := y in LQuoted name) l
            = map LQuoted (cand_names l)).
  { intros l. unfold cand_names. rewrite map_map. apply map_ext. intros [[c nm] w]. reflexivity. }
  rewrite Hnm.
  replace (Z.of_nat (length cands)) with (Z.of_nat (length (cand_names cands))) by (unfold cand_names; now rewrite map_length).
  rewrite parse_strings_written.
  assert (Hcn : match match cand_names cands with [] => None | _ :: _ => Some (cand_names cands) end with
                | Some l => map Named l
                | None => numbered (Z.to_nat (Z.of_nat (length (cand_names cands)))) 1
                end = map Named (cand_names cands)).
  { destruct (cand_names cands); reflexivity. }
  rewrite Hcn.
  pose proof (form_cands_written cands 0 [] (Forall_nil _)) as Hf. simpl app in Hf. change (0 + 1) with 1 in Hf.
  rewrite Hf.
  replace (Z.of_nat (length (cand_loaded cands))) with (Z.of_nat (length cands)) by (unfold cand_loaded; now rewrite map_length).
  rewrite (deindex_ok _ ps (positions_ranges votes cands ps Ep)). reflexivity.
Qed.
