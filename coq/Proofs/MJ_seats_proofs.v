(* Majority judgment for any number of seats (Model/Cardinal.v majority_judgment, mj_default, mj_plus) against an
   independent, per-candidate reference order.

   The reference: the REMOVAL SEQUENCE (Balinski-Laraki majority value) of a candidate with grade counts [d] is
   mj_seq 0 d, mj_seq 1 d, ... : the lower median of d, the lower median after one copy of that median is removed,
   and so on - a function of the candidate's own grades only.  [mj_lex_lt d' d]: the sequence of d' is
   lexicographically below that of d (they agree on the first k entries and differ strictly at entry k).

   Proved: whatever majority_judgment (default tie-break) answers for n seats contains no tie object, and every
   elected candidate is lexicographically strictly above every candidate that is not elected - i.e. the answer is
   exactly the top-n set of the reference order, for every seat.  For the plus rule: an elected candidate has
   strictly more grades at or above the shared median than a candidate of the same median that is left out, and
   the members of a reported tie are level in that count. *)
From Coq Require Import ZArith QArith Qround Qabs List Bool Arith Lia Lqa Permutation.
From VL Require Import Prelude.PyDict Model.GetNBest Model.Convert Model.Cardinal
     Proofs.GetNBest_proofs Proofs.QOrd Proofs.Dict_proofs Proofs.MJ_proofs Proofs.MJ_removal_proofs.
Import ListNotations.
Open Scope Q_scope.

(* ================================================================ the reference: removal sequences *)
(* remove ONE copy of the current lower median *)
Definition mj_rm1 (d : cscores) : cscores + serr :=
  match aggregate_one FMedianLow d with
  | inr e => inr e
  | inl m => inl (cs_set d m (match cs_get d m with Some k => k | None => 0%Z end - 1)%Z)
  end.

Fixpoint mj_rmk (k : nat) (d : cscores) : cscores + serr :=
  match k with
  | O => inl d
  | S k' => match mj_rm1 d with inl d' => mj_rmk k' d' | inr e => inr e end
  end.

(* entry k of the removal sequence; None when the candidate has run out of grades *)
Definition mj_seq (k : nat) (d : cscores) : option Q :=
  match mj_rmk k d with
  | inl d' => match aggregate_one FMedianLow d' with inl m => Some m | inr _ => None end
  | inr _ => None
  end.

Definition mj_lex_lt (d' d : cscores) : Prop :=
  exists k m m', mj_seq k d = Some m /\ mj_seq k d' = Some m' /\ m' < m /\
    forall j, (j < k)%nat -> exists x x', mj_seq j d = Some x /\ mj_seq j d' = Some x' /\ x' == x.

Lemma mj_rmk_add a : forall b d,
  mj_rmk (a + b) d = match mj_rmk a d with inl d1 => mj_rmk b d1 | inr e => inr e end.
Proof.
  induction a as [|a IH]; intros b d; [reflexivity|]. cbn [Nat.add mj_rmk].
  destruct (mj_rm1 d) as [d'|e]; [apply IH|reflexivity].
Qed.

Lemma mj_rmk_snoc j d : mj_rmk (S j) d = match mj_rmk j d with inl d1 => mj_rm1 d1 | inr e => inr e end.
Proof.
  replace (S j) with (j + 1)%nat by lia. rewrite mj_rmk_add. destruct (mj_rmk j d) as [d1|e]; [|reflexivity].
  cbn [mj_rmk]. destruct (mj_rm1 d1); reflexivity.
Qed.

Lemma mj_seq_add a b d d1 : mj_rmk a d = inl d1 -> mj_seq (a + b) d = mj_seq b d1.
Proof. intros H. unfold mj_seq. rewrite mj_rmk_add, H. reflexivity. Qed.

Lemma mj_lex_lt_0 d d' v v' :
  aggregate_one FMedianLow d = inl v -> aggregate_one FMedianLow d' = inl v' -> v' < v -> mj_lex_lt d' d.
Proof.
  intros H H' Hlt. exists 0%nat, v, v'. unfold mj_seq. cbn [mj_rmk]. rewrite H, H'.
  split; [reflexivity|]. split; [reflexivity|]. split; [exact Hlt|]. intros j Hj. lia.
Qed.

(* two candidates whose first ch entries are one shared grade: compare the rest *)
Lemma mj_lex_lt_lift ch d d' dn dn' m m' :
  mj_rmk ch d = inl dn -> mj_rmk ch d' = inl dn' ->
  (forall j, (j < ch)%nat -> mj_seq j d = Some m) -> (forall j, (j < ch)%nat -> mj_seq j d' = Some m') -> m' == m ->
  mj_lex_lt dn' dn -> mj_lex_lt d' d.
Proof.
  intros Hd Hd' Hs Hs' Hmm (k & x & x' & H1 & H2 & Hlt & Hpre).
  exists (ch + k)%nat, x, x'. rewrite (mj_seq_add ch k d dn Hd), (mj_seq_add ch k d' dn' Hd').
  split; [exact H1|]. split; [exact H2|]. split; [exact Hlt|].
  intros j Hj. destruct (Nat.lt_ge_cases j ch) as [Hlo|Hhi].
  - exists m, m'. split; [apply Hs, Hlo|]. split; [apply Hs', Hlo|exact Hmm].
  - replace j with (ch + (j - ch))%nat by lia.
    rewrite (mj_seq_add ch (j - ch) d dn Hd), (mj_seq_add ch (j - ch) d' dn' Hd'). apply Hpre. lia.
Qed.

Lemma cs_set_same d m k : cs_get d m = Some k -> cs_set d m k = d.
Proof.
  induction d as [|[s' k'] t IH]; cbn [cs_get cs_set]; [discriminate|].
  destruct (Qeq_bool m s'); [intros [= ->]; reflexivity|]. intros H. rewrite (IH H). reflexivity.
Qed.

(* while fewer copies than the bound of closest_change are gone, the single removals take the same grade m:
   j single removals = one removal of j copies, and the median stays m *)
Lemma mj_rmk_stable d m k0 (ch : Z) :
  cs_nonneg d -> cs_distinct d -> aggregate_one FMedianLow d = inl m ->
  (forall j, (0 <= j < ch)%Z -> (j = 0 \/ j < cc_one d m)%Z) ->
  cs_get d m = Some k0 ->
  forall j : nat, (Z.of_nat j <= ch)%Z ->
    mj_rmk j d = inl (cs_set d m (k0 - Z.of_nat j)) /\
    ((Z.of_nat j < ch)%Z -> aggregate_one FMedianLow (cs_set d m (k0 - Z.of_nat j)) = inl m).
Proof.
  intros Hn Hd Hmed Hb Hget.
  assert (Hst : forall j : nat, (Z.of_nat j < ch)%Z -> aggregate_one FMedianLow (cs_set d m (k0 - Z.of_nat j)) = inl m).
  { intros j Hj. destruct (median_stable d m (Z.of_nat j) Hn Hd Hmed ltac:(lia) (Hb (Z.of_nat j) ltac:(lia))) as (k & _ & Hg & _ & Hagg & _).
    rewrite Hget in Hg. injection Hg as <-. exact Hagg. }
  induction j as [|j IH]; intros Hj.
  - split; [|apply Hst]. cbn [mj_rmk]. replace (k0 - Z.of_nat 0)%Z with k0 by lia. rewrite (cs_set_same _ _ _ Hget). reflexivity.
  - split; [|apply Hst]. destruct (IH ltac:(lia)) as (Hr & _). rewrite mj_rmk_snoc, Hr. unfold mj_rm1.
    rewrite (Hst j ltac:(lia)), cs_get_set, cs_set_set. f_equal. f_equal. lia.
Qed.

(* ================================================================ one round of the loop, candidate by candidate *)
Lemma medians_in sub medians c d : NoDup (map fst sub) -> aggregate FMedianLow sub = inl medians -> In (c, d) sub ->
  exists v, In (c, v) medians /\ aggregate_one FMedianLow d = inl v /\ dget_or medians c 0 = v.
Proof.
  intros Hnd Ha Hin.
  assert (Hk : In c (map fst medians)) by (rewrite (aggregate_keys _ _ _ Ha); apply in_map_iff; exists (c, d); auto).
  apply in_map_iff in Hk. destruct Hk as ([c0 v] & Hc0 & Hv). cbn [fst] in Hc0. subst c0.
  destruct (aggregate_in _ _ _ _ _ Ha Hv) as (d0 & Hd0 & Hagg).
  rewrite (NoDup_keys_val _ _ _ _ Hnd Hd0 Hin) in Hagg.
  exists v. split; [exact Hv|]. split; [exact Hagg|].
  assert (Hndm : NoDup (map fst medians)) by (rewrite (aggregate_keys _ _ _ Ha); exact Hnd).
  unfold dget_or. rewrite (In_dget _ _ _ Hndm Hv). reflexivity.
Qed.

Lemma mj_round_seq sub medians T :
  NoDup (map fst sub) -> Forall cs_ok sub -> aggregate FMedianLow sub = inl medians ->
  forall c dn, In (c, dn) (mj_round sub medians T) ->
    exists d m, In (c, d) sub /\ In c T /\ In (c, m) medians /\
      mj_rmk (Z.to_nat (mj_ch (mj_level sub T) medians)) d = inl dn /\
      forall j, (j < Z.to_nat (mj_ch (mj_level sub T) medians))%nat -> mj_seq j d = Some m.
Proof.
  intros Hnd Hok Ha c dn Hin. unfold mj_round in Hin.
  set (lvl := mj_level sub T) in *. set (CH := mj_ch lvl medians) in *.
  destruct (mj_remove_in _ _ _ _ Hin) as ([c0 d] & Hcd & Hf & Hs). cbn [fst snd] in Hf, Hs. subst c0.
  assert (Hsub : In (c, d) sub /\ In c T).
  { unfold lvl, mj_level in Hcd. apply filter_In in Hcd. cbn [fst] in Hcd. rewrite cmem_In in Hcd. exact Hcd. }
  destruct Hsub as (Hsub & HT).
  destruct (medians_in sub medians c d Hnd Ha Hsub) as (m & Hm & Hagg & Hgo). rewrite Hgo in Hs.
  rewrite Forall_forall in Hok. destruct (Hok _ Hsub) as (Hn & Hd). cbn [snd] in Hn, Hd.
  pose proof (mj_ch_pos lvl medians) as Hpos. fold CH in Hpos.
  destruct (median_stable d m 0 Hn Hd Hagg ltac:(lia) ltac:(left; reflexivity)) as (k0 & _ & Hget & _).
  assert (Hb : forall j, (0 <= j < CH)%Z -> (j = 0 \/ j < cc_one d m)%Z).
  { intros j Hj. pose proof (mj_ch_bound lvl medians (c, d) j Hcd Hj) as H. cbn [fst snd] in H. rewrite Hgo in H. exact H. }
  pose proof (mj_rmk_stable d m k0 CH Hn Hd Hagg Hb Hget) as Hst.
  exists d, m. split; [exact Hsub|]. split; [exact HT|]. split; [exact Hm|]. split.
  - destruct (Hst (Z.to_nat CH) ltac:(lia)) as (Hr & _). rewrite Hr, Hs, Hget. f_equal. f_equal. lia.
  - intros j Hj. destruct (Hst j ltac:(lia)) as (Hr & Hmj). unfold mj_seq. rewrite Hr, (Hmj ltac:(lia)). reflexivity.
Qed.

(* ================================================================ the answer of get_n_best: a clean cut or a tie *)
Definition is_cand (r : res C) : bool := match r with Cand _ => true | TieR _ => false end.

Lemma NoDup_app_l {X} (a b : list X) : NoDup (a ++ b) -> NoDup a.
Proof.
  induction a as [|x a IH]; cbn [app]; intros H; [constructor|]. inversion H as [|? ? Hx Hn]; subst.
  constructor; [intros Hin; apply Hx, in_or_app; left; exact Hin|apply IH, Hn].
Qed.

Lemma cand_of_nodup (l : list (C * Q)) : NoDup (map fst l) -> NoDup (map cand_of l).
Proof.
  induction l as [|x l IH]; cbn [map]; intros H; [constructor|]. inversion H as [|? ? Hx Hn]; subst.
  constructor; [|apply IH, Hn]. intros Hin. apply Hx. apply in_map_iff in Hin. destruct Hin as (y & Hy & Hyl).
  unfold cand_of in Hy. injection Hy as Hy. rewrite <- Hy. apply in_map, Hyl.
Qed.

Lemma gnb_cases (med : list (C * Q)) n : (1 <= n)%nat -> NoDup (map fst med) ->
  let best := get_n_best Qle_bool med n in
  (count_tie best = 0%nat /\ (forall x, In x best -> exists c, x = Cand c) /\
   (forall c v c' v', In (Cand c) best -> In (c, v) med -> In (c', v') med -> ~ In (Cand c') best -> v' < v) /\
   length best = Nat.min n (length med) /\ NoDup best) \/
  (exists above level below thr k,
     Permutation (above ++ level ++ below) med /\
     (forall it, In it above -> thr < snd it) /\ (forall it, In it level -> snd it == thr) /\
     (forall it, In it below -> snd it < thr) /\
     best = map cand_of above ++ repeat (TieR (map fst level)) (S k) /\
     (length above + S k = n)%nat /\ (S k < length level)%nat).
Proof.
  intros Hn Hnd best. subst best.
  assert (Hplain : forall l : list (C * Q), count_tie (map cand_of l) = 0%nat /\ forall x, In x (map cand_of l) -> exists c, x = Cand c).
  { intros l. split.
    - pose proof (count_tie_app l [] 0) as H. cbn [repeat] in H. rewrite app_nil_r in H. exact H.
    - intros x Hx. apply in_map_iff in Hx. destruct Hx as (it & <- & _). eexists. reflexivity. }
  destruct (get_n_best_spec Qle_bool Qle_bool_total Qle_bool_trans med n Hn) as [Hsmall Hbig].
  destruct (Nat.le_gt_cases (length med) n) as [Hle|Hgt].
  - left. destruct (Hsmall Hle) as (s & Hp & _ & ->). destruct (Hplain s) as (H1 & H2).
    split; [exact H1|]. split; [exact H2|]. split; [|split].
    + intros c v c' v' _ _ Hin' Hnot. exfalso. apply Hnot.
      apply in_map_iff. exists (c', v'). split; [reflexivity|]. eapply Permutation_in; [apply Permutation_sym, Hp|exact Hin'].
    + rewrite map_length, (Permutation_length Hp). lia.
    + apply cand_of_nodup. eapply Permutation_NoDup; [apply Permutation_map, Permutation_sym, Hp|exact Hnd].
  - destruct (Hbig Hgt) as (above & level & below & thr & Hp & _ & Ha & Hl & Hb & Hpos & Heq & Htie).
    rewrite Forall_forall in Ha, Hl, Hb.
    assert (Ha' : forall it, In it above -> thr < snd it) by (intros it H; apply ltb_Qlt, Ha, H).
    assert (Hl' : forall it, In it level -> snd it == thr) by (intros it H; apply eqv_Qeq, Hl, H).
    assert (Hb' : forall it, In it below -> snd it < thr) by (intros it H; apply ltb_Qlt, Hb, H).
    destruct (Nat.eq_dec (length above + length level) n) as [En|En].
    + left. rewrite (Heq En). destruct (Hplain (above ++ level)) as (H1 & H2).
      assert (Hndp : NoDup (map fst (above ++ level ++ below))).
      { eapply Permutation_NoDup; [apply Permutation_map, Permutation_sym, Hp|exact Hnd]. }
      split; [exact H1|]. split; [exact H2|]. split; [|split];
        [|rewrite map_length, app_length; lia
         |apply cand_of_nodup; rewrite app_assoc, map_app in Hndp; apply NoDup_app_l in Hndp; exact Hndp].
      intros c v c' v' Hc Hv Hv' Hnot.
      apply in_map_iff in Hc. destruct Hc as ([c0 v0] & Hc0 & Hin0). unfold cand_of in Hc0. cbn [fst] in Hc0. injection Hc0 as ->.
      assert (Hin0' : In (c, v0) med).
      { eapply Permutation_in; [exact Hp|]. rewrite app_assoc. apply in_or_app. left. exact Hin0. }
      rewrite (NoDup_keys_val _ _ _ _ Hnd Hv Hin0').
      apply (Permutation_in _ (Permutation_sym Hp)) in Hv'. rewrite app_assoc in Hv'. apply in_app_or in Hv'.
      destruct Hv' as [Hv'|Hv'].
      * exfalso. apply Hnot. apply in_map_iff. exists (c', v'). split; [reflexivity|exact Hv'].
      * apply Hb' in Hv'. cbn [snd] in Hv'. apply in_app_or in Hin0. destruct Hin0 as [H|H].
        -- apply Ha' in H. cbn [snd] in H. lra.
        -- apply Hl' in H. cbn [snd] in H. lra.
    + right. assert (Hlt : (n < length above + length level)%nat) by lia.
      pose proof (Htie Hlt) as Hr. remember (n - length above)%nat as q eqn:Ek. destruct q as [|k]; [lia|].
      exists above, level, below, thr, k.
      repeat split; try assumption; lia.
Qed.

Lemma filter_cand_app (l : list (C * Q)) T k :
  filter is_cand (map cand_of l ++ repeat (TieR T) k) = map cand_of l.
Proof.
  rewrite filter_app.
  assert (H1 : filter is_cand (map (@cand_of C Q) l) = map cand_of l).
  { induction l as [|x l IHl]; [reflexivity|]. cbn [map filter cand_of is_cand]. f_equal. exact IHl. }
  assert (H2 : filter is_cand (repeat (@TieR C T) k) = []).
  { induction k as [|k IHk]; [reflexivity|exact IHk]. }
  rewrite H1, H2, app_nil_r. reflexivity.
Qed.

Lemma cands_of_map (l : list (C * Q)) :
  flat_map (fun r : res C => match r with Cand c => [c] | TieR _ => [] end) (map cand_of l) = map fst l.
Proof. induction l as [|x l IH]; [reflexivity|]. cbn [map flat_map cand_of app]. f_equal. exact IH. Qed.

Lemma mj_default_unfold f sub n :
  mj_default (S f) sub n =
  if (fold_left Z.max (map (fun cd : C * cscores => cs_total (snd cd)) sub) 0%Z <=? 0)%Z then inr SE_vse else
  match aggregate FMedianLow sub with
  | inr e => inr e
  | inl medians =>
      let best := get_n_best Qle_bool medians n in
      let untied := length (filter is_cand best) in
      if Nat.eqb (count_tie best) 0 then inl best
      else if Nat.ltb 0 untied then
        let winners := firstn untied best in
        let wc := flat_map (fun r : res C => match r with Cand c => [c] | TieR _ => [] end) winners in
        match mj_default f (filter (fun cd : C * cscores => negb (cmem (fst cd) wc)) sub) (n - untied) with
        | inl r => inl (winners ++ r)
        | inr e => inr e
        end
      else mj_default f (mj_round sub medians (match best with TieR l :: _ => l | _ => [] end)) n
  end.
Proof. reflexivity. Qed.

Lemma filter_ok (f : C * cscores -> bool) sub : Forall cs_ok sub -> Forall cs_ok (filter f sub).
Proof. rewrite !Forall_forall. intros H cd Hin. apply filter_In in Hin. apply H, Hin. Qed.

(* ================================================================ the default tie-break for any number of seats *)
Theorem mj_default_seats : forall fuel sub n r,
  NoDup (map fst sub) -> Forall cs_ok sub -> (1 <= n)%nat ->
  mj_default fuel sub n = inl r ->
  (forall x, In x r -> exists c, x = Cand c) /\
  (forall c d c' d', In (Cand c) r -> In (c, d) sub -> In (c', d') sub -> ~ In (Cand c') r -> mj_lex_lt d' d).
Proof.
  induction fuel as [|f IH]; intros sub n r Hnd Hok Hn; [discriminate|].
  rewrite mj_default_unfold.
  destruct (fold_left Z.max (map (fun cd : C * cscores => cs_total (snd cd)) sub) 0%Z <=? 0)%Z; [discriminate|].
  destruct (aggregate FMedianLow sub) as [medians|e] eqn:Ea; [|discriminate]. cbv zeta.
  assert (Hndm : NoDup (map fst medians)) by (rewrite (aggregate_keys _ _ _ Ea); exact Hnd).
  destruct (gnb_cases medians n Hn Hndm) as [(Hct & Hplain & Hcut & _)|(above & level & below & thr & k & Hp & Ha & Hl & Hb & Hbest & Hlen & Hk)].
  - rewrite Hct. cbn [Nat.eqb]. intros [= <-]. split; [exact Hplain|].
    intros c d c' d' Hc Hd Hd' Hnc.
    destruct (medians_in _ _ _ _ Hnd Ea Hd) as (v & Hv & Hav & _). destruct (medians_in _ _ _ _ Hnd Ea Hd') as (v' & Hv' & Hav' & _).
    apply (mj_lex_lt_0 _ _ v v' Hav Hav'). exact (Hcut _ _ _ _ Hc Hv Hv' Hnc).
  - rewrite Hbest, count_tie_app, filter_cand_app, map_length. cbn [Nat.eqb].
    assert (Hsplit : forall c v, In (c, v) medians -> In (c, v) above \/ In (c, v) level \/ In (c, v) below).
    { intros c v H. apply (Permutation_in _ (Permutation_sym Hp)) in H.
      apply in_app_or in H. destruct H as [H|H]; [left; exact H|]. apply in_app_or in H. tauto. }
    assert (Hback : forall c v, In (c, v) above \/ In (c, v) level \/ In (c, v) below -> In (c, v) medians).
    { intros c v H. eapply Permutation_in; [exact Hp|]. apply in_or_app. destruct H as [H|[H|H]]; [left; exact H|right|right];
        apply in_or_app; [left|right]; exact H. }
    assert (Hcase : above = [] \/ (0 <? length above)%nat = true) by (destruct above; [left; reflexivity|right; reflexivity]).
    destruct Hcase as [->|Hpos].
    + (* the lead is shared: one round of removals among the level candidates *)
      cbn [length Nat.ltb Nat.leb map app repeat].
      set (T := map fst level) in *. intros Hr.
      destruct (mj_round_successive sub medians T Hnd Hok Ea) as (_ & _ & Hnd' & Hok').
      destruct (IH _ _ _ Hnd' Hok' Hn Hr) as (Hplain & Hlex). split; [exact Hplain|].
      intros c d c' d' Hc Hd Hd' Hnc.
      (* the elected candidate went through the round *)
      assert (Hcn : In c (map fst (mj_round sub medians T))) by (apply (mj_default_cands _ _ _ _ _ Hr), Hc).
      apply in_map_iff in Hcn. destruct Hcn as ([c0 dn] & Hc0 & Hdn). cbn [fst] in Hc0. subst c0.
      destruct (mj_round_seq sub medians T Hnd Hok Ea c dn Hdn) as (d0 & m & Hd0 & HcT & Hm & Hrk & Hsq).
      rewrite (NoDup_keys_val _ _ _ _ Hnd Hd0 Hd) in *. clear d0 Hd0.
      assert (Hmthr : m == thr).
      { unfold T in HcT. apply in_map_iff in HcT. destruct HcT as ([c1 v1] & Hc1 & Hlv). cbn [fst] in Hc1. subst c1.
        rewrite (NoDup_keys_val _ _ _ _ Hndm Hm (Hback _ _ (or_intror (or_introl Hlv)))). apply (Hl _ Hlv). }
      destruct (medians_in _ _ _ _ Hnd Ea Hd') as (v' & Hv' & Hav' & _).
      destruct (medians_in _ _ _ _ Hnd Ea Hd) as (v & Hv & Hav & _).
      rewrite (NoDup_keys_val _ _ _ _ Hndm Hv Hm) in Hav. clear v Hv.
      destruct (Hsplit _ _ Hv') as [H|[H|H]]; [destruct H| |].
      * (* the rival is level, too: compare what is left of both *)
        assert (Hc'T : In (c', d') (mj_level sub T)).
        { unfold mj_level. apply filter_In. split; [exact Hd'|]. cbn [fst]. apply cmem_In. unfold T. apply in_map_iff. exists (c', v'). auto. }
        assert (Hc'n : In c' (map fst (mj_round sub medians T))) by (rewrite mj_round_keys; apply in_map_iff; exists (c', d'); auto).
        apply in_map_iff in Hc'n. destruct Hc'n as ([c0 dn'] & Hc0 & Hdn'). cbn [fst] in Hc0. subst c0.
        destruct (mj_round_seq sub medians T Hnd Hok Ea c' dn' Hdn') as (d0 & m' & Hd0 & _ & Hm' & Hrk' & Hsq').
        rewrite (NoDup_keys_val _ _ _ _ Hnd Hd0 Hd') in *. clear d0 Hd0.
        rewrite (NoDup_keys_val _ _ _ _ Hndm Hm' Hv') in *. clear m' Hm'.
        apply Hl in H. cbn [snd] in H.
        apply (mj_lex_lt_lift _ d d' dn dn' m v' Hrk Hrk' Hsq Hsq'); [lra|].
        exact (Hlex c dn c' dn' Hc Hdn Hdn' Hnc).
      * apply Hb in H. cbn [snd] in H. apply (mj_lex_lt_0 _ _ m v' Hav Hav'). lra.
    + (* some candidates lead outright: they are seated, the others go on for the remaining seats *)
      rewrite Hpos.
      assert (Hfn : firstn (length above) (map cand_of above ++ repeat (TieR (map fst level)) (S k)) = map cand_of above).
      { rewrite <- (map_length (@cand_of C Q) above), firstn_app, firstn_all, Nat.sub_diag, firstn_O, app_nil_r. reflexivity. }
      rewrite Hfn, cands_of_map.
      replace (n - length above)%nat with (S k) by lia.
      set (sub' := filter (fun cd : C * cscores => negb (cmem (fst cd) (map fst above))) sub).
      destruct (mj_default f sub' (S k)) as [r'|e] eqn:Er; [|discriminate]. intros [= <-].
      assert (Hnd' : NoDup (map fst sub')) by (apply filter_keys_NoDup_gen, Hnd).
      assert (Hok' : Forall cs_ok sub') by (apply filter_ok, Hok).
      destruct (IH sub' (S k) r' Hnd' Hok' ltac:(lia) Er) as (Hplain & Hlex). split.
      * intros x Hx. apply in_app_or in Hx. destruct Hx as [Hx|Hx]; [|apply Hplain, Hx].
        apply in_map_iff in Hx. destruct Hx as (it & <- & _). eexists. reflexivity.
      * intros c d c' d' Hc Hd Hd' Hnc.
        destruct (medians_in _ _ _ _ Hnd Ea Hd') as (v' & Hv' & Hav' & _).
        destruct (medians_in _ _ _ _ Hnd Ea Hd) as (v & Hv & Hav & _).
        assert (Hna' : ~ In c' (map fst above)).
        { intros H. apply Hnc. apply in_or_app. left. apply in_map_iff in H. destruct H as (it & <- & Hit).
          apply in_map_iff. exists it. split; [reflexivity|exact Hit]. }
        assert (Hsub'_in : forall x dx, In (x, dx) sub -> ~ In x (map fst above) -> In (x, dx) sub').
        { intros x dx Hx Hnx. unfold sub'. apply filter_In. split; [exact Hx|]. cbn [fst]. apply negb_true_iff.
          destruct (cmem x (map fst above)) eqn:E; [|reflexivity]. apply cmem_In in E. contradiction. }
        apply in_app_or in Hc. destruct Hc as [Hc|Hc].
        -- (* seated outright *)
           apply in_map_iff in Hc. destruct Hc as ([c0 v0] & Hc0 & Hin0). unfold cand_of in Hc0. cbn [fst] in Hc0. injection Hc0 as ->.
           rewrite (NoDup_keys_val _ _ _ _ Hndm Hv (Hback _ _ (or_introl Hin0))) in *.
           apply Ha in Hin0. cbn [snd] in Hin0.
           apply (mj_lex_lt_0 _ _ v0 v' Hav Hav').
           destruct (Hsplit _ _ Hv') as [H|[H|H]].
           ++ exfalso. apply Hna'. apply in_map_iff. exists (c', v'). auto.
           ++ apply Hl in H. cbn [snd] in H. lra.
           ++ apply Hb in H. cbn [snd] in H. lra.
        -- (* seated by the recursive call *)
           assert (Hcs : In c (map fst sub')) by (apply (mj_default_cands _ _ _ _ _ Er), Hc).
           apply in_map_iff in Hcs. destruct Hcs as ([c0 d0] & Hc0 & Hd0). cbn [fst] in Hc0. subst c0.
           assert (Hd0' : In (c, d0) sub) by (unfold sub' in Hd0; apply filter_In in Hd0; tauto).
           rewrite (NoDup_keys_val _ _ _ _ Hnd Hd0' Hd) in Hd0.
           apply (Hlex c d c' d' Hc Hd0 (Hsub'_in _ _ Hd' Hna')).
           intros H. apply Hnc. apply in_or_app. right. exact H.
Qed.

(* ================================================================ how many are elected *)
Lemma NoDup_app_r {X} (a b : list X) : NoDup (a ++ b) -> NoDup b.
Proof. induction a as [|x a IH]; cbn [app]; intros H; [exact H|]. inversion H; subst. apply IH. assumption. Qed.

Lemma NoDup_app_disj {X} (a b : list X) x : NoDup (a ++ b) -> In x a -> ~ In x b.
Proof.
  induction a as [|y a IH]; cbn [app]; intros H Hin; [destruct Hin|]. inversion H as [|? ? Hy Hn]; subst.
  destruct Hin as [->|Hin]; [intros Hb; apply Hy, in_or_app; right; exact Hb|apply IH; assumption].
Qed.

Lemma NoDup_app_intro {X} (a b : list X) : NoDup a -> NoDup b -> (forall x, In x a -> ~ In x b) -> NoDup (a ++ b).
Proof.
  induction a as [|y a IH]; cbn [app]; intros Ha Hb Hd; [exact Hb|]. inversion Ha as [|? ? Hy Hn]; subst.
  constructor.
  - intros Hin. apply in_app_or in Hin. destruct Hin as [Hin|Hin]; [exact (Hy Hin)|]. apply (Hd y); [left; reflexivity|exact Hin].
  - apply IH; [exact Hn|exact Hb|]. intros x Hx. apply Hd. right. exact Hx.
Qed.

Lemma perm_parts (med above level below : list (C * Q)) :
  NoDup (map fst med) -> Permutation (above ++ level ++ below) med ->
  NoDup (map fst above) /\ NoDup (map fst level) /\
  forall c, In c (map fst level) -> In c (map fst med) /\ ~ In c (map fst above).
Proof.
  intros Hnd Hp.
  assert (H : NoDup (map fst above ++ map fst level ++ map fst below)).
  { rewrite <- !map_app. eapply Permutation_NoDup; [apply Permutation_map, Permutation_sym, Hp|exact Hnd]. }
  split; [apply NoDup_app_l in H; exact H|]. split; [apply NoDup_app_r, NoDup_app_l in H; exact H|].
  intros c Hc. split.
  - eapply Permutation_in; [apply Permutation_map, Hp|]. rewrite !map_app. apply in_or_app. right. apply in_or_app. left. exact Hc.
  - intros Ha. apply (NoDup_app_disj _ _ c H Ha). apply in_or_app. left. exact Hc.
Qed.

Lemma keys_incl_length {X Y} (a : list (C * X)) (b : list (C * Y)) :
  NoDup (map fst a) -> (forall c, In c (map fst a) -> In c (map fst b)) -> (length a <= length b)%nat.
Proof.
  intros Hnd Hincl. rewrite <- (map_length fst a), <- (map_length fst b). apply NoDup_incl_length; [exact Hnd|exact Hincl].
Qed.

Theorem mj_default_seats_count : forall fuel sub n r,
  NoDup (map fst sub) -> (1 <= n)%nat ->
  mj_default fuel sub n = inl r -> length r = Nat.min n (length sub) /\ NoDup r.
Proof.
  induction fuel as [|f IH]; intros sub n r Hnd Hn; [discriminate|].
  rewrite mj_default_unfold.
  destruct (fold_left Z.max (map (fun cd : C * cscores => cs_total (snd cd)) sub) 0%Z <=? 0)%Z; [discriminate|].
  destruct (aggregate FMedianLow sub) as [medians|e] eqn:Ea; [|discriminate]. cbv zeta.
  pose proof (aggregate_keys _ _ _ Ea) as Hkeys.
  assert (Hndm : NoDup (map fst medians)) by (rewrite Hkeys; exact Hnd).
  assert (Hlenm : length medians = length sub) by (rewrite <- (map_length fst medians), Hkeys, map_length; reflexivity).
  destruct (gnb_cases medians n Hn Hndm) as [(Hct & _ & _ & Hlen & Hndb)|(above & level & below & thr & k & Hp & Ha & Hl & Hb & Hbest & Hlen & Hk)].
  - rewrite Hct. cbn [Nat.eqb]. intros [= <-]. rewrite Hlen, Hlenm. split; [reflexivity|exact Hndb].
  - rewrite Hbest, count_tie_app, filter_cand_app, map_length. cbn [Nat.eqb].
    destruct (perm_parts _ _ _ _ Hndm Hp) as (Hnda & Hndl & Hlv).
    assert (Hbig : (length above + length level <= length sub)%nat).
    { rewrite <- Hlenm, <- (Permutation_length Hp), !app_length. lia. }
    assert (Hcase : above = [] \/ (0 <? length above)%nat = true) by (destruct above; [left; reflexivity|right; reflexivity]).
    destruct Hcase as [->|Hpos].
    + cbn [length Nat.ltb Nat.leb map app repeat]. intros Hr.
      assert (Hnd' : NoDup (map fst (mj_round sub medians (map fst level)))).
      { rewrite mj_round_keys. apply filter_keys_NoDup_gen, Hnd. }
      destruct (IH _ _ _ Hnd' Hn Hr) as (Hl1 & Hl2). split; [|exact Hl2]. rewrite Hl1.
      assert (Hge : (length level <= length (mj_round sub medians (map fst level)))%nat).
      { apply keys_incl_length; [exact Hndl|]. intros c Hc. rewrite mj_round_keys. destruct (Hlv c Hc) as (Hm & _).
        rewrite Hkeys in Hm. apply in_map_iff in Hm. destruct Hm as ([c0 d] & Hc0 & Hd). cbn [fst] in Hc0. subst c0.
        apply in_map_iff. exists (c, d). split; [reflexivity|]. unfold mj_level. apply filter_In. split; [exact Hd|].
        cbn [fst]. apply cmem_In, Hc. }
      cbn [length] in Hlen, Hbig. lia.
    + rewrite Hpos.
      assert (Hfn : firstn (length above) (map cand_of above ++ repeat (TieR (map fst level)) (S k)) = map cand_of above).
      { rewrite <- (map_length (@cand_of C Q) above), firstn_app, firstn_all, Nat.sub_diag, firstn_O, app_nil_r. reflexivity. }
      rewrite Hfn, cands_of_map.
      replace (n - length above)%nat with (S k) by lia.
      set (sub' := filter (fun cd : C * cscores => negb (cmem (fst cd) (map fst above))) sub).
      destruct (mj_default f sub' (S k)) as [r'|e] eqn:Er; [|discriminate]. intros [= <-].
      assert (Hnd' : NoDup (map fst sub')) by (apply filter_keys_NoDup_gen, Hnd).
      destruct (IH sub' (S k) r' Hnd' ltac:(lia) Er) as (Hl1 & Hl2).
      assert (Hge : (length level <= length sub')%nat).
      { apply keys_incl_length; [exact Hndl|]. intros c Hc. destruct (Hlv c Hc) as (Hm & Hna).
        rewrite Hkeys in Hm. apply in_map_iff in Hm. destruct Hm as ([c0 d] & Hc0 & Hd). cbn [fst] in Hc0. subst c0.
        apply in_map_iff. exists (c, d). split; [reflexivity|]. unfold sub'. apply filter_In. split; [exact Hd|].
        cbn [fst]. apply negb_true_iff. destruct (cmem c (map fst above)) eqn:E; [|reflexivity]. apply cmem_In in E. contradiction. }
      split.
      * rewrite app_length, map_length, Hl1. lia.
      * apply NoDup_app_intro; [apply cand_of_nodup, Hnda|exact Hl2|].
        intros x Hx Hx'. apply in_map_iff in Hx. destruct Hx as ([c v] & <- & Hin). unfold cand_of in Hx'. cbn [fst] in Hx'.
        apply (mj_default_cands _ _ _ _ _ Er) in Hx'. apply in_map_iff in Hx'. destruct Hx' as ([c0 d] & Hc0 & Hd). cbn [fst] in Hc0. subst c0.
        unfold sub' in Hd. apply filter_In in Hd. destruct Hd as (_ & Hd). cbn [fst] in Hd. apply negb_true_iff in Hd.
        assert (Hc : cmem c (map fst above) = true) by (apply cmem_In, in_map_iff; exists (c, v); auto). congruence.
Qed.

(* ================================================================ the evaluator, default tie-break, n seats *)
Lemma last_tie_plain (l : list (res C)) : (forall x, In x l -> exists c, x = Cand c) -> last_tie l = None.
Proof.
  intros H. unfold last_tie. destruct (rev l) as [|x t] eqn:E; [reflexivity|].
  destruct (H x) as (c & ->); [apply in_rev; rewrite E; left; reflexivity|reflexivity].
Qed.

Theorem mj_default_seats_rule cf votes n sc r :
  (1 <= n)%nat -> corrected_scores cf votes = inl sc -> Forall cs_ok sc ->
  majority_judgment false cf votes n = inl r ->
  (forall x, In x r -> exists c, x = Cand c) /\ length r = Nat.min n (length sc) /\ NoDup r /\
  (forall c, In (Cand c) r -> In c (map fst sc)) /\
  (forall c d c' d', In (Cand c) r -> In (c, d) sc -> In (c', d') sc -> ~ In (Cand c') r -> mj_lex_lt d' d).
Proof.
  intros Hn Hsc Hok. pose proof (corrected_scores_nodup _ _ _ Hsc) as Hnd.
  unfold majority_judgment. rewrite Hsc.
  destruct (aggregate FMedianLow sc) as [med|e] eqn:Ea; [|discriminate].
  pose proof (aggregate_keys _ _ _ Ea) as Hkeys.
  assert (Hndm : NoDup (map fst med)) by (rewrite Hkeys; exact Hnd).
  assert (Hlenm : length med = length sc) by (rewrite <- (map_length fst med), Hkeys, map_length; reflexivity).
  destruct (gnb_cases med n Hn Hndm) as [(Hct & Hplain & Hcut & Hlen & Hndb)|(above & level & below & thr & k & Hp & Ha & Hl & Hb & Hbest & Hlen & Hk)].
  - rewrite (last_tie_plain _ Hplain). intros [= <-]. split; [exact Hplain|]. split; [rewrite Hlen, Hlenm; reflexivity|].
    split; [exact Hndb|]. split; [intros c Hc; rewrite <- Hkeys; apply (get_n_best_cand_in _ _ _ Hc)|].
    intros c d c' d' Hc Hd Hd' Hnc.
    destruct (medians_in _ _ _ _ Hnd Ea Hd) as (v & Hv & Hav & _). destruct (medians_in _ _ _ _ Hnd Ea Hd') as (v' & Hv' & Hav' & _).
    apply (mj_lex_lt_0 _ _ v v' Hav Hav'). exact (Hcut _ _ _ _ Hc Hv Hv' Hnc).
  - rewrite Hbest, last_tie_app, count_tie_app.
    replace (length (map cand_of above ++ repeat (TieR (map fst level)) (S k)) - S k)%nat with (length (map (@cand_of C Q) above))
      by (rewrite app_length, repeat_length; lia).
    rewrite firstn_app, firstn_all, Nat.sub_diag, firstn_O, app_nil_r.
    fold (mj_level sc (map fst level)). set (T := map fst level) in *. set (sub := mj_level sc T).
    match goal with |- context [mj_default ?f sub (S k)] => destruct (mj_default f sub (S k)) as [r'|e] eqn:Er end; [|discriminate].
    intros [= <-].
    assert (Hnd' : NoDup (map fst sub)) by (apply filter_keys_NoDup_gen, Hnd).
    assert (Hok' : Forall cs_ok sub) by (apply filter_ok, Hok).
    destruct (mj_default_seats _ sub (S k) r' Hnd' Hok' (le_n_S _ _ (Nat.le_0_l k)) Er) as (Hplain & Hlex).
    destruct (mj_default_seats_count _ sub (S k) r' Hnd' (le_n_S _ _ (Nat.le_0_l k)) Er) as (Hl1 & Hl2).
    destruct (perm_parts _ _ _ _ Hndm Hp) as (Hnda & Hndl & Hlv).
    assert (Hsplit : forall c v, In (c, v) med -> In (c, v) above \/ In (c, v) level \/ In (c, v) below).
    { intros c v H. apply (Permutation_in _ (Permutation_sym Hp)) in H.
      apply in_app_or in H. destruct H as [H|H]; [left; exact H|]. apply in_app_or in H. tauto. }
    assert (Hback : forall c v, In (c, v) above \/ In (c, v) level \/ In (c, v) below -> In (c, v) med).
    { intros c v H. eapply Permutation_in; [exact Hp|]. apply in_or_app. destruct H as [H|[H|H]]; [left; exact H|right|right];
        apply in_or_app; [left|right]; exact H. }
    assert (Hsub_in : forall x dx, In (x, dx) sub <-> In (x, dx) sc /\ In x T).
    { intros x dx. unfold sub, mj_level. rewrite filter_In. cbn [fst]. rewrite cmem_In. tauto. }
    assert (Hge : (length level <= length sub)%nat).
    { apply keys_incl_length; [exact Hndl|]. intros c Hc. destruct (Hlv c Hc) as (Hm & _).
      rewrite Hkeys in Hm. apply in_map_iff in Hm. destruct Hm as ([c0 d] & Hc0 & Hd). cbn [fst] in Hc0. subst c0.
      apply in_map_iff. exists (c, d). split; [reflexivity|]. apply Hsub_in. split; [exact Hd|exact Hc]. }
    assert (Hbig : (length above + length level <= length sc)%nat).
    { rewrite <- Hlenm, <- (Permutation_length Hp), !app_length. lia. }
    assert (Hr'T : forall c, In (Cand c) r' -> In c T /\ In c (map fst sc)).
    { intros c Hc. apply (mj_default_cands _ _ _ _ _ Er) in Hc. apply in_map_iff in Hc. destruct Hc as ([c0 d] & Hc0 & Hd).
      cbn [fst] in Hc0. subst c0. apply Hsub_in in Hd. split; [tauto|]. apply in_map_iff. exists (c, d). tauto. }
    split; [|split; [|split; [|split]]].
    + intros x Hx. apply in_app_or in Hx. destruct Hx as [Hx|Hx]; [|apply Hplain, Hx].
      apply in_map_iff in Hx. destruct Hx as (it & <- & _). eexists. reflexivity.
    + rewrite app_length, map_length, Hl1. lia.
    + apply NoDup_app_intro; [apply cand_of_nodup, Hnda|exact Hl2|].
      intros x Hx Hx'. apply in_map_iff in Hx. destruct Hx as ([c v] & <- & Hin). unfold cand_of in Hx'. cbn [fst] in Hx'.
      destruct (Hr'T _ Hx') as (HT & _). destruct (Hlv c HT) as (_ & Hna). apply Hna. apply in_map_iff. exists (c, v). auto.
    + intros c Hc. apply in_app_or in Hc. destruct Hc as [Hc|Hc]; [|apply Hr'T, Hc].
      apply in_map_iff in Hc. destruct Hc as ([c0 v0] & Hc0 & Hin0). unfold cand_of in Hc0. cbn [fst] in Hc0. injection Hc0 as ->.
      rewrite <- Hkeys. apply in_map_iff. exists (c, v0). split; [reflexivity|]. apply Hback. left. exact Hin0.
    + intros c d c' d' Hc Hd Hd' Hnc.
      destruct (medians_in _ _ _ _ Hnd Ea Hd') as (v' & Hv' & Hav' & _).
      destruct (medians_in _ _ _ _ Hnd Ea Hd) as (v & Hv & Hav & _).
      assert (Hna' : ~ In (c', v') above).
      { intros H. apply Hnc. apply in_or_app. left. apply in_map_iff. exists (c', v'). split; [reflexivity|exact H]. }
      apply in_app_or in Hc. destruct Hc as [Hc|Hc].
      * apply in_map_iff in Hc. destruct Hc as ([c0 v0] & Hc0 & Hin0). unfold cand_of in Hc0. cbn [fst] in Hc0. injection Hc0 as ->.
        rewrite (NoDup_keys_val _ _ _ _ Hndm Hv (Hback _ _ (or_introl Hin0))) in *.
        apply Ha in Hin0. cbn [snd] in Hin0. apply (mj_lex_lt_0 _ _ v0 v' Hav Hav').
        destruct (Hsplit _ _ Hv') as [H|[H|H]]; [contradiction| |].
        -- apply Hl in H. cbn [snd] in H. lra.
        -- apply Hb in H. cbn [snd] in H. lra.
      * destruct (Hr'T _ Hc) as (HcT & _).
        assert (Hvthr : v == thr).
        { unfold T in HcT. apply in_map_iff in HcT. destruct HcT as ([c1 v1] & Hc1 & Hlv1). cbn [fst] in Hc1. subst c1.
          rewrite (NoDup_keys_val _ _ _ _ Hndm Hv (Hback _ _ (or_intror (or_introl Hlv1)))). apply (Hl _ Hlv1). }
        destruct (Hsplit _ _ Hv') as [H|[H|H]]; [contradiction| |].
        -- apply (Hlex c d c' d' Hc); [apply Hsub_in; split; [exact Hd|exact HcT]| |].
           ++ apply Hsub_in. split; [exact Hd'|]. unfold T. apply in_map_iff. exists (c', v'). auto.
           ++ intros H'. apply Hnc. apply in_or_app. right. exact H'.
        -- apply Hb in H. cbn [snd] in H. apply (mj_lex_lt_0 _ _ v v' Hav Hav'). lra.
Qed.

(* ================================================================ the plus rule, n seats *)
Theorem mj_plus_seats_rule cf votes n sc med r :
  (1 <= n)%nat -> corrected_scores cf votes = inl sc -> aggregate FMedianLow sc = inl med ->
  majority_judgment true cf votes n = inl r ->
  length r = Nat.min n (length sc) /\
  forall c vc d c' vc' d', In (c, vc) med -> In (c, d) sc -> In (c', vc') med -> In (c', d') sc -> vc' == vc ->
    ~ In (Cand c') r ->
    (In (Cand c) r -> (counts_over d' vc < counts_over d vc)%Z) /\
    (forall T, In (TieR T) r -> In c T ->
       (counts_over d' vc <= counts_over d vc)%Z /\ (In c' T -> counts_over d' vc = counts_over d vc)).
Proof.
  intros Hn Hsc Ea. pose proof (corrected_scores_nodup _ _ _ Hsc) as Hnd.
  unfold majority_judgment. rewrite Hsc, Ea.
  pose proof (aggregate_keys _ _ _ Ea) as Hkeys.
  assert (Hndm : NoDup (map fst med)) by (rewrite Hkeys; exact Hnd).
  assert (Hlenm : length med = length sc) by (rewrite <- (map_length fst med), Hkeys, map_length; reflexivity).
  destruct (gnb_cases med n Hn Hndm) as [(Hct & Hplain & Hcut & Hlen & Hndb)|(above & level & below & thr & k & Hp & Ha & Hl & Hb & Hbest & Hlen & Hk)].
  - rewrite (last_tie_plain _ Hplain). intros [= <-]. split; [rewrite Hlen, Hlenm; reflexivity|].
    intros c vc d c' vc' d' Hv Hd Hv' Hd' Heq Hnc. split.
    + intros Hc. pose proof (Hcut _ _ _ _ Hc Hv Hv' Hnc). lra.
    + intros T HT. destruct (Hplain _ HT) as (x & Hx). discriminate.
  - rewrite Hbest, last_tie_app, count_tie_app.
    replace (length (map cand_of above ++ repeat (TieR (map fst level)) (S k)) - S k)%nat with (length (map (@cand_of C Q) above))
      by (rewrite app_length, repeat_length; lia).
    rewrite firstn_app, firstn_all, Nat.sub_diag, firstn_O, app_nil_r.
    set (T := map fst level) in *. set (sub := filter (fun cd : C * cscores => cmem (fst cd) T) sc).
    destruct (mj_plus sub (S k)) as [r'|e] eqn:Er; [|discriminate]. intros [= <-].
    assert (Hnd' : NoDup (map fst sub)) by (apply filter_keys_NoDup_gen, Hnd).
    destruct (perm_parts _ _ _ _ Hndm Hp) as (Hnda & Hndl & Hlv).
    assert (Hsplit : forall c v, In (c, v) med -> In (c, v) above \/ In (c, v) level \/ In (c, v) below).
    { intros c v H. apply (Permutation_in _ (Permutation_sym Hp)) in H.
      apply in_app_or in H. destruct H as [H|H]; [left; exact H|]. apply in_app_or in H. tauto. }
    assert (Hback : forall c v, In (c, v) above \/ In (c, v) level \/ In (c, v) below -> In (c, v) med).
    { intros c v H. eapply Permutation_in; [exact Hp|]. apply in_or_app. destruct H as [H|[H|H]]; [left; exact H|right|right];
        apply in_or_app; [left|right]; exact H. }
    assert (Hsub_in : forall x dx, In (x, dx) sub <-> In (x, dx) sc /\ In x T).
    { intros x dx. unfold sub. rewrite filter_In. cbn [fst]. rewrite cmem_In. tauto. }
    assert (HTthr : forall x vx, In (x, vx) med -> In x T -> vx == thr).
    { intros x vx Hx Ht. unfold T in Ht. apply in_map_iff in Ht. destruct Ht as ([x0 v0] & Hx0 & Hlv0). cbn [fst] in Hx0. subst x0.
      rewrite (NoDup_keys_val _ _ _ _ Hndm Hx (Hback _ _ (or_intror (or_introl Hlv0)))). apply (Hl _ Hlv0). }
    assert (Hge : (length level <= length sub)%nat).
    { apply keys_incl_length; [exact Hndl|]. intros c Hc. destruct (Hlv c Hc) as (Hm & _).
      rewrite Hkeys in Hm. apply in_map_iff in Hm. destruct Hm as ([c0 d] & Hc0 & Hd). cbn [fst] in Hc0. subst c0.
      apply in_map_iff. exists (c, d). split; [reflexivity|]. apply Hsub_in. split; [exact Hd|exact Hc]. }
    assert (Hbig : (length above + length level <= length sc)%nat).
    { rewrite <- Hlenm, <- (Permutation_length Hp), !app_length. lia. }
    (* the counts *)
    unfold mj_plus in Er. destruct sub as [|[c0 d0] sub'] eqn:Esub; [discriminate|]. rewrite <- Esub in *.
    destruct (aggregate_one FMedianLow d0) as [m0|e] eqn:Em0; [|discriminate]. injection Er as Er.
    set (cnt := map (fun cd : C * cscores => (fst cd, inject_Z (counts_over (snd cd) m0))) sub) in *.
    assert (Hnd_cnt : NoDup (map fst cnt)) by (unfold cnt; rewrite map_map; exact Hnd').
    assert (Hlen_cnt : length cnt = length sub) by (unfold cnt; apply map_length).
    assert (Hm0 : m0 == thr).
    { assert (H0 : In (c0, d0) sub) by (rewrite Esub; left; reflexivity). apply Hsub_in in H0. destruct H0 as [H0 H0t].
      destruct (medians_in _ _ _ _ Hnd Ea H0) as (v1 & Hv1 & Ha1 & _). rewrite Em0 in Ha1. injection Ha1 as ->.
      apply (HTthr _ _ Hv1 H0t). }
    assert (Hcnt_of : forall x dx, In (x, dx) sc -> In x T -> In (x, inject_Z (counts_over dx m0)) cnt).
    { intros x dx Hx Ht. unfold cnt. apply in_map_iff. exists (x, dx). split; [reflexivity|]. apply Hsub_in. tauto. }
    assert (Hr'T : forall x, In (Cand x) r' -> In x T).
    { intros x Hx. rewrite <- Er in Hx. apply get_n_best_cand_in in Hx. unfold cnt in Hx. rewrite map_map in Hx. cbn [fst] in Hx.
      apply in_map_iff in Hx. destruct Hx as ([x0 dx] & Hx0 & Hdx). cbn [fst] in Hx0. subst x0. apply Hsub_in in Hdx. tauto. }
    (* a rival with the same median as a member of the tie that is not listed is a member of the tie, not listed by the breaker *)
    assert (Hrival : forall c vc c' vc' d', In (c, vc) med -> In c T -> In (c', vc') med -> In (c', d') sc -> vc' == vc ->
              ~ In (Cand c') (map cand_of above ++ r') ->
              vc == thr /\ In (c', inject_Z (counts_over d' m0)) cnt /\ ~ In (Cand c') r').
    { intros c vc c' vc' d' Hv HcT Hv' Hd' Heq Hnc. pose proof (HTthr _ _ Hv HcT) as Hvthr. split; [exact Hvthr|].
      split; [|intros H; apply Hnc, in_or_app; right; exact H]. apply Hcnt_of; [exact Hd'|].
      destruct (Hsplit _ _ Hv') as [H|[H|H]].
      - apply Ha in H. cbn [snd] in H. lra.
      - unfold T. apply in_map_iff. exists (c', vc'). auto.
      - apply Hb in H. cbn [snd] in H. lra. }
    destruct (gnb_cases cnt (S k) (le_n_S _ _ (Nat.le_0_l k)) Hnd_cnt)
      as [(Hct2 & Hplain2 & Hcut2 & Hlen2 & _)|(above2 & level2 & below2 & thr2 & k2 & Hp2 & Ha2 & Hl2 & Hb2 & Hbest2 & Hlen2 & Hk2)];
      rewrite Er in *.
    + split; [rewrite app_length, map_length, Hlen2, Hlen_cnt; lia|].
      intros c vc d c' vc' d' Hv Hd Hv' Hd' Heq Hnc. split.
      * intros Hc. apply in_app_or in Hc. destruct Hc as [Hc|Hc].
        -- exfalso. apply in_map_iff in Hc. destruct Hc as ([c1 v1] & Hc1 & Hin1). unfold cand_of in Hc1. cbn [fst] in Hc1. injection Hc1 as ->.
           rewrite (NoDup_keys_val _ _ _ _ Hndm Hv (Hback _ _ (or_introl Hin1))) in *. apply Ha in Hin1. cbn [snd] in Hin1.
           destruct (Hsplit _ _ Hv') as [H|[H|H]].
           ++ apply Hnc. apply in_or_app. left. apply in_map_iff. exists (c', vc'). auto.
           ++ apply Hl in H. cbn [snd] in H. lra.
           ++ apply Hb in H. cbn [snd] in H. lra.
        -- pose proof (Hr'T _ Hc) as HcT. destruct (Hrival _ _ _ _ _ Hv HcT Hv' Hd' Heq Hnc) as (Hvthr & Hc'cnt & Hnc').
           pose proof (Hcut2 _ _ _ _ Hc (Hcnt_of _ _ Hd HcT) Hc'cnt Hnc') as Hlt. rewrite <- Zlt_Qlt in Hlt.
           assert (Hmv : m0 == vc) by lra.
           rewrite <- (counts_over_compat d' _ _ Hmv), <- (counts_over_compat d _ _ Hmv). exact Hlt.
      * intros T2 HT2. exfalso. apply in_app_or in HT2. destruct HT2 as [H|H].
        -- apply in_map_iff in H. destruct H as (it & Hit & _). discriminate.
        -- destruct (Hplain2 _ H) as (x & Hx). discriminate.
    + clear Er. subst r'.
      assert (Hsplit2 : forall c v, In (c, v) cnt -> In (c, v) above2 \/ In (c, v) level2 \/ In (c, v) below2).
      { intros c v H. apply (Permutation_in _ (Permutation_sym Hp2)) in H.
        apply in_app_or in H. destruct H as [H|H]; [left; exact H|]. apply in_app_or in H. tauto. }
      assert (Hback2 : forall c v, In (c, v) above2 \/ In (c, v) level2 \/ In (c, v) below2 -> In (c, v) cnt).
      { intros c v H. eapply Permutation_in; [exact Hp2|]. apply in_or_app. destruct H as [H|[H|H]]; [left; exact H|right|right];
          apply in_or_app; [left|right]; exact H. }
      (* whoever is not listed plainly by the breaker has at most thr2 *)
      assert (Hlow : forall x w, In (x, w) cnt -> ~ In (Cand x) (map cand_of above2 ++ repeat (TieR (map fst level2)) (S k2)) ->
                (w <= thr2) /\ (In x (map fst level2) -> w == thr2)).
      { intros x w Hx Hnx. destruct (Hsplit2 _ _ Hx) as [H|[H|H]].
        - exfalso. apply Hnx. apply in_or_app. left. apply in_map_iff. exists (x, w). auto.
        - apply Hl2 in H. cbn [snd] in H. split; [lra|intros _; exact H].
        - split; [apply Hb2 in H; cbn [snd] in H; lra|]. intros Hx2. apply in_map_iff in Hx2. destruct Hx2 as ([x0 w0] & Hx0 & Hw0).
          cbn [fst] in Hx0. subst x0. rewrite (NoDup_keys_val _ _ _ _ Hnd_cnt Hx (Hback2 _ _ (or_intror (or_introl Hw0)))).
          apply (Hl2 _ Hw0). }
      split; [rewrite !app_length, !map_length, repeat_length; lia|].
      intros c vc d c' vc' d' Hv Hd Hv' Hd' Heq Hnc. split.
      * intros Hc. apply in_app_or in Hc. destruct Hc as [Hc|Hc].
        -- exfalso. apply in_map_iff in Hc. destruct Hc as ([c1 v1] & Hc1 & Hin1). unfold cand_of in Hc1. cbn [fst] in Hc1. injection Hc1 as ->.
           rewrite (NoDup_keys_val _ _ _ _ Hndm Hv (Hback _ _ (or_introl Hin1))) in *. apply Ha in Hin1. cbn [snd] in Hin1.
           destruct (Hsplit _ _ Hv') as [H|[H|H]].
           ++ apply Hnc. apply in_or_app. left. apply in_map_iff. exists (c', vc'). auto.
           ++ apply Hl in H. cbn [snd] in H. lra.
           ++ apply Hb in H. cbn [snd] in H. lra.
        -- pose proof (Hr'T _ Hc) as HcT. destruct (Hrival _ _ _ _ _ Hv HcT Hv' Hd' Heq Hnc) as (Hvthr & Hc'cnt & Hnc').
           apply in_app_or in Hc. destruct Hc as [Hc|Hc]; [|apply repeat_spec in Hc; discriminate].
           apply in_map_iff in Hc. destruct Hc as ([c1 w1] & Hc1 & Hin1). unfold cand_of in Hc1. cbn [fst] in Hc1. injection Hc1 as ->.
           pose proof (NoDup_keys_val _ _ _ _ Hnd_cnt (Hcnt_of _ _ Hd HcT) (Hback2 _ _ (or_introl Hin1))) as Hw1.
           apply Ha2 in Hin1. cbn [snd] in Hin1. rewrite <- Hw1 in Hin1.
           destruct (Hlow _ _ Hc'cnt Hnc') as (Hle & _).
           assert (Hlt : inject_Z (counts_over d' m0) < inject_Z (counts_over d m0)) by lra. rewrite <- Zlt_Qlt in Hlt.
           assert (Hmv : m0 == vc) by lra.
           rewrite <- (counts_over_compat d' _ _ Hmv), <- (counts_over_compat d _ _ Hmv). exact Hlt.
      * intros T2 HT2 HcT2. apply in_app_or in HT2. destruct HT2 as [H|H].
        { apply in_map_iff in H. destruct H as (it & Hit & _). discriminate. }
        apply in_app_or in H. destruct H as [H|H]; [apply in_map_iff in H; destruct H as (it & Hit & _); discriminate|].
        apply repeat_spec in H. injection H as ->.
        (* c is a member of the breaker's tie, so of the median tie *)
        assert (HcT : In c T).
        { apply in_map_iff in HcT2. destruct HcT2 as ([c1 w1] & Hc1 & Hw1). cbn [fst] in Hc1. subst c1.
          pose proof (Hback2 _ _ (or_intror (or_introl Hw1))) as Hin. unfold cnt in Hin. apply in_map_iff in Hin.
          destruct Hin as ([c2 d2] & Hc2 & Hd2). cbn [fst snd] in Hc2. injection Hc2 as -> _. apply Hsub_in in Hd2. tauto. }
        destruct (Hrival _ _ _ _ _ Hv HcT Hv' Hd' Heq Hnc) as (Hvthr & Hc'cnt & Hnc').
        assert (Hcw : inject_Z (counts_over d m0) == thr2).
        { apply in_map_iff in HcT2. destruct HcT2 as ([c1 w1] & Hc1 & Hw1). cbn [fst] in Hc1. subst c1.
          rewrite (NoDup_keys_val _ _ _ _ Hnd_cnt (Hcnt_of _ _ Hd HcT) (Hback2 _ _ (or_intror (or_introl Hw1)))). apply (Hl2 _ Hw1). }
        destruct (Hlow _ _ Hc'cnt Hnc') as (Hle & Heq2).
        assert (Hmv : m0 == vc) by lra.
        rewrite <- (counts_over_compat d' _ _ Hmv), <- (counts_over_compat d _ _ Hmv). split.
        -- rewrite Zle_Qle. lra.
        -- intros Hc'T2. apply Heq2 in Hc'T2. apply inject_Z_injective. lra.
Qed.

(* ================================================================ the hypothesis as a boolean *)
Definition cs_nonnegb (d : cscores) : bool := forallb (fun sn : Q * Z => (0 <=? snd sn)%Z) d.
Fixpoint cs_distinctb (d : cscores) : bool :=
  match d with
  | [] => true
  | sn :: t => forallb (fun sn' : Q * Z => negb (Qeq_bool (fst sn') (fst sn))) t && cs_distinctb t
  end.
Definition cs_okb (cd : C * cscores) : bool := cs_nonnegb (snd cd) && cs_distinctb (snd cd).

Lemma cs_distinctb_ok d : cs_distinctb d = true -> cs_distinct d.
Proof.
  induction d as [|sn t IH]; cbn [cs_distinctb cs_distinct]; [trivial|]. intros H. apply andb_true_iff in H. destruct H as (H1 & H2).
  split; [|apply IH, H2]. intros sn' Hin He. rewrite forallb_forall in H1. specialize (H1 _ Hin).
  apply negb_true_iff in H1. apply Qeq_bool_iff in He. congruence.
Qed.

Lemma cs_okb_ok sub : forallb cs_okb sub = true -> Forall cs_ok sub.
Proof.
  intros H. rewrite forallb_forall in H. apply Forall_forall. intros cd Hin. specialize (H _ Hin). unfold cs_okb in H.
  apply andb_true_iff in H. destruct H as (H1 & H2). split; [|apply cs_distinctb_ok, H2].
  unfold cs_nonneg. apply Forall_forall. intros sn Hsn. unfold cs_nonnegb in H1. rewrite forallb_forall in H1.
  specialize (H1 _ Hsn). lia.
Qed.

(* two seats, three candidates on the median 1 (grades A = 0,0,1,2,2  B = 0,1,1,1,1  C = 0,1,1,1,2): after one removal A is
   behind (0) and B, C (1) take the two seats *)
Definition ex_seats_cfg : score_cfg :=
  {| sc_fn := FMedianLow; sc_unscored := UNone; sc_min_count := 0%Z; sc_trunc := 0%Q; sc_bottom := 0%Q |}.
Definition ex_seats_votes : sprofile :=
  let b (x y z : Z) : sballot * Z := ([(1%positive, inject_Z x); (2%positive, inject_Z y); (3%positive, inject_Z z)], 1%Z) in
  [b 0 0 0; b 0 1 1; b 1 1 1; b 2 1 1; b 2 1 2]%Z.

Lemma mj_seats_example :
  majority_judgment false ex_seats_cfg ex_seats_votes 2 = inl [Cand 2%positive; Cand 3%positive] /\
  exists sc, corrected_scores ex_seats_cfg ex_seats_votes = inl sc /\ Forall cs_ok sc /\
    mj_seq 0 (dget_or sc 1%positive []) = Some 1 /\ mj_seq 0 (dget_or sc 2%positive []) = Some 1 /\
    mj_seq 1 (dget_or sc 1%positive []) = Some 0 /\ mj_seq 1 (dget_or sc 2%positive []) = Some 1.
Proof.
  split; [vm_compute; reflexivity|]. eexists. split; [vm_compute; reflexivity|]. split; [apply cs_okb_ok; vm_compute; reflexivity|].
  repeat split; vm_compute; reflexivity.
Qed.
