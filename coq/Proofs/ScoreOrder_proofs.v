(* C10, ballot order for the score family: ScoreToSimpleVotes (with the unscored / truncation / minimum-count corrections,
   sum / mean / median aggregation) and ScoreVoting of Model/Cardinal.v do not depend on the insertion order of the score
   profile: the same error, or aggregated scores that are == candidate by candidate (the dictionary in another order), hence
   [res_equiv] selections.
   Per candidate the model keeps an insertion-ordered dictionary score -> count keyed up to == ([cs_get] / [cs_set]); two
   ballot orders give dictionaries with the same lookups ([cs_eq]); everything computed from such a dictionary is a function
   of its lookups: totals and the sorted expansion through weighted sums ([gsum_eq]), the corrections through
   get-after-set characterisations. *)
From Coq Require Import ZArith QArith Qround Qreduction List Bool Arith Lia Lqa Permutation Sorted Setoid.
From VL Require Import Prelude.PyDict Model.GetNBest Model.Convert Model.Cardinal Proofs.Dict_proofs Proofs.GetNBest_proofs Proofs.QOrd
     Proofs.LRScale_proofs Proofs.MJ_proofs Proofs.MJ_removal_proofs.
Import ListNotations.
Open Scope Q_scope.

(* ------------------------------------------------------------------ lists of rationals up to == *)
Definition qeqs : list Q -> list Q -> Prop := Forall2 Qeq.

Lemma qeqs_refl l : qeqs l l.
Proof. induction l; constructor; [reflexivity|assumption]. Qed.
Lemma qeqs_length l l' : qeqs l l' -> length l = length l'.
Proof. induction 1; simpl; congruence. Qed.
Lemma qeqs_rev l l' : qeqs l l' -> qeqs (rev l) (rev l').
Proof. induction 1; simpl; [constructor|]. apply Forall2_app; [assumption|constructor; [assumption|constructor]]. Qed.
Lemma qeqs_nth l l' : qeqs l l' -> forall i, nth i l 0 == nth i l' 0.
Proof. induction 1 as [|x y l l' Hxy _ IH]; intros [|i]; simpl; try reflexivity; [exact Hxy|apply IH]. Qed.
Lemma qeqs_sum l l' : qeqs l l' -> forall a a', a == a' -> fold_left Qplus l a == fold_left Qplus l' a'.
Proof. induction 1 as [|x y l l' Hxy _ IH]; intros a a' Ha; simpl; [exact Ha|]. apply IH. rewrite Ha, Hxy. reflexivity. Qed.

Lemma Qle_bool_resp a a' b b' : a == a' -> b == b' -> Qle_bool a b = Qle_bool a' b'.
Proof. intros Ha Hb. apply Qle_bool_Qeq; assumption. Qed.
Lemma Qeq_bool_resp2 a a' b b' : a == a' -> b == b' -> Qeq_bool a b = Qeq_bool a' b'.
Proof. intros Ha Hb. apply Qeq_bool_Qeq; assumption. Qed.

Lemma insert_q_qeqs x x' l l' : x == x' -> qeqs l l' -> qeqs (insert_q x l) (insert_q x' l').
Proof.
  intros Hx. induction 1 as [|y y' l l' Hy Hl IH]; cbn [insert_q]; [constructor; [exact Hx|constructor]|].
  rewrite (Qle_bool_resp x x' y y' Hx Hy). destruct (Qle_bool x' y').
  - constructor; [exact Hx|]. constructor; assumption.
  - constructor; assumption.
Qed.
Lemma sort_q_qeqs l l' : qeqs l l' -> qeqs (sort_q l) (sort_q l').
Proof. unfold sort_q. induction 1; cbn [fold_right]; [constructor|]. apply insert_q_qeqs; assumption. Qed.

(* two ascending lists with the same number of elements below every bound agree position by position *)
Lemma cnt_lev_pos l x : (1 <= cnt (lev x) l)%nat -> exists z, In z l /\ z <= x.
Proof.
  unfold cnt. intros H. destruct (filter (lev x) l) as [|z t] eqn:E; [simpl in H; lia|].
  assert (Hz : In z (filter (lev x) l)) by (rewrite E; left; reflexivity).
  apply filter_In in Hz. exists z. split; [apply Hz|]. apply Qle_bool_iff. apply Hz.
Qed.
Lemma lev_refl x : lev x x = true.
Proof. unfold lev. apply Qle_bool_iff, Qle_refl. Qed.

Lemma sorted_cnt_qeqs : forall s s', StronglySorted Qle s -> StronglySorted Qle s' ->
  (forall x, cnt (lev x) s = cnt (lev x) s') -> qeqs s s'.
Proof.
  induction s as [|x t IH]; intros s' Hs Hs' Hc.
  - destruct s' as [|y t']; [constructor|]. exfalso. specialize (Hc y). rewrite cnt_cons, lev_refl in Hc. cbn in Hc. lia.
  - destruct s' as [|y t'].
    { exfalso. specialize (Hc x). rewrite cnt_cons, lev_refl in Hc. cbn in Hc. lia. }
    inversion Hs as [|? ? Hst Hxa]; subst. inversion Hs' as [|? ? Hst' Hya]; subst.
    assert (Hhead : forall a l b l', Forall (Qle b) l' -> cnt (lev a) (a :: l) = cnt (lev a) (b :: l') -> b <= a).
    { intros a l b l' Hb Hcc. destruct (cnt_lev_pos (b :: l') a) as (z & Hz & Hlz).
      - rewrite <- Hcc, cnt_cons, lev_refl. lia.
      - destruct Hz as [<-|Hz]; [exact Hlz|]. rewrite Forall_forall in Hb. specialize (Hb z Hz). lra. }
    assert (Exy : x == y).
    { apply Qle_antisym; [apply (Hhead y t' x t Hxa); symmetry; apply Hc|apply (Hhead x t y t' Hya), Hc]. }
    constructor; [exact Exy|]. apply IH; try assumption. intros z. specialize (Hc z). rewrite !cnt_cons in Hc.
    unfold lev in Hc at 1 3. rewrite (Qle_bool_resp x y z z Exy (Qeq_refl z)) in Hc. lia.
Qed.

(* multisets of rationals up to ==: equal counts below every bound *)
Definition meq (l l' : list Q) : Prop := forall x, cnt (lev x) l = cnt (lev x) l'.
Lemma meq_sort l l' : meq l l' -> qeqs (sort_q l) (sort_q l').
Proof. intros H. apply sorted_cnt_qeqs; try apply sort_q_sorted. intros x. rewrite !cnt_sort. apply H. Qed.

Lemma insert_q_perm x l : Permutation (insert_q x l) (x :: l).
Proof.
  induction l as [|y t IH]; cbn [insert_q]; [apply Permutation_refl|]. destruct (Qle_bool x y); [apply Permutation_refl|].
  eapply Permutation_trans; [apply perm_skip, IH|apply perm_swap].
Qed.
Lemma sort_q_perm l : Permutation (sort_q l) l.
Proof.
  unfold sort_q. induction l as [|x l IH]; cbn [fold_right]; [constructor|].
  eapply Permutation_trans; [apply insert_q_perm|apply perm_skip, IH].
Qed.

Lemma qsum_perm l l' : Permutation l l' -> forall a, fold_left Qplus l a == fold_left Qplus l' a.
Proof.
  induction 1 as [|x l l' _ IH|x y l|l l' l'' _ IH1 _ IH2]; intros a; simpl.
  - reflexivity.
  - apply IH.
  - apply qeqs_sum; [apply qeqs_refl|ring].
  - rewrite IH1. apply IH2.
Qed.
Lemma meq_sum l l' : meq l l' -> fold_left Qplus l 0 == fold_left Qplus l' 0.
Proof.
  intros H. rewrite <- (qsum_perm _ _ (sort_q_perm l) 0), <- (qsum_perm _ _ (sort_q_perm l') 0).
  apply qeqs_sum; [apply meq_sort, H|reflexivity].
Qed.
Lemma meq_length l l' : meq l l' -> length l = length l'.
Proof. intros H. rewrite <- (length_sort l), <- (length_sort l'). apply qeqs_length, meq_sort, H. Qed.

(* the minimum is the head of the sorted list *)
Lemma fold_min_spec l : forall m, let r := fold_left (fun m y => if Qle_bool y m then y else m) l m in
  (r = m \/ In r l) /\ r <= m /\ (forall z, In z l -> r <= z).
Proof.
  induction l as [|y l IH]; intros m; cbn [fold_left]; cbv zeta.
  - split; [left; reflexivity|]. split; [apply Qle_refl|intros z []].
  - destruct (IH (if Qle_bool y m then y else m)) as (H1 & H2 & H3). cbv zeta in H1, H2, H3.
    set (m1 := if Qle_bool y m then y else m) in *.
    assert (Hm : m1 <= m /\ m1 <= y /\ (m1 = m \/ m1 = y)).
    { unfold m1. destruct (Qle_bool y m) eqn:E.
      - apply Qle_bool_iff in E. split; [exact E|]. split; [apply Qle_refl|right; reflexivity].
      - split; [apply Qle_refl|]. split; [|left; reflexivity].
        destruct (Qlt_le_dec m y) as [H|H]; [apply Qlt_le_weak, H|]. apply Qle_bool_iff in H. congruence. }
    destruct Hm as (Hm1 & Hm2 & Hm3). split; [|split].
    + destruct H1 as [H1|H1]; [|right; right; exact H1]. destruct Hm3 as [Hm3|Hm3]; [left; congruence|right; left; congruence].
    + lra.
    + intros z [<-|Hz]; [lra|apply H3, Hz].
Qed.
Lemma list_min_spec l m : list_min l = Some m -> In m l /\ forall z, In z l -> m <= z.
Proof.
  destruct l as [|x t]; [discriminate|]. cbn [list_min]. intros [= <-].
  destruct (fold_min_spec t x) as (H1 & H2 & H3). cbv zeta in H1, H2, H3. split.
  - destruct H1 as [->|H1]; [left; reflexivity|right; exact H1].
  - intros z [<-|Hz]; [exact H2|apply H3, Hz].
Qed.
Lemma meq_min l l' : meq l l' ->
  match list_min l, list_min l' with Some m, Some m' => m == m' | None, None => True | _, _ => False end.
Proof.
  intros H. pose proof (meq_length l l' H) as Hl.
  destruct (list_min l) as [m|] eqn:E, (list_min l') as [m'|] eqn:E'.
  - destruct (list_min_spec l m E) as [I1 L1]. destruct (list_min_spec l' m' E') as [I2 L2].
    assert (T : forall a b (la lb : list Q), meq la lb -> In a la -> (forall z, In z lb -> b <= z) -> b <= a).
    { intros a b la lb Hab Ia Lb. destruct (cnt_lev_pos lb a) as (z & Hz & Hza).
      - rewrite <- (Hab a). unfold cnt.
        assert (Hin : In a (filter (lev a) la)) by (apply filter_In; split; [exact Ia|apply lev_refl]).
        destruct (filter (lev a) la); [destruct Hin|simpl; lia].
      - specialize (Lb z Hz). lra. }
    apply Qle_antisym; [apply (T m' m l' l); [intros x; symmetry; apply H|exact I2|exact L1]|apply (T m m' l l' H I1 L2)].
  - destruct l' as [|? ?]; [|discriminate]. destruct l; [discriminate|discriminate].
  - destruct l as [|? ?]; [|discriminate]. destruct l'; [discriminate|discriminate].
  - exact I.
Qed.

(* ------------------------------------------------------------------ score -> count dictionaries up to their lookups *)
Fixpoint cs_wf (d : cscores) : Prop := match d with [] => True | (s, _) :: t => cs_get t s = None /\ cs_wf t end.
Definition cs_eq (d d' : cscores) : Prop := forall s, cs_get d s = cs_get d' s.
Definition cse (d d' : cscores) : Prop := cs_wf d /\ cs_wf d' /\ cs_eq d d'.

Lemma Qeq_bool_refl' s : Qeq_bool s s = true.
Proof. apply Qeq_bool_iff. reflexivity. Qed.
Lemma cs_get_key d s s' : s == s' -> cs_get d s = cs_get d s'.
Proof.
  intros H. induction d as [|[k n] d IH]; [reflexivity|]. cbn [cs_get].
  rewrite (Qeq_bool_resp2 s s' k k H (Qeq_refl k)), IH. reflexivity.
Qed.
Lemma cs_get_set d s n u : cs_get (cs_set d s n) u = if Qeq_bool u s then Some n else cs_get d u.
Proof.
  induction d as [|[k m] d IH]; cbn [cs_set cs_get]; [reflexivity|].
  destruct (Qeq_bool s k) eqn:Esk; cbn [cs_get].
  - apply Qeq_bool_iff in Esk. rewrite (Qeq_bool_resp2 u u k s (Qeq_refl u) (Qeq_sym _ _ Esk)).
    destruct (Qeq_bool u s); reflexivity.
  - rewrite IH. destruct (Qeq_bool u k) eqn:Euk; [|reflexivity].
    destruct (Qeq_bool u s) eqn:Eus; [|reflexivity]. exfalso.
    apply Qeq_bool_iff in Euk, Eus. assert (H : s == k) by (rewrite <- Eus; exact Euk). apply Qeq_bool_iff in H. congruence.
Qed.
Lemma cs_get_del d s u : cs_get (cs_del d s) u = if Qeq_bool u s then None else cs_get d u.
Proof.
  unfold cs_del. induction d as [|[k m] d IH]; cbn [filter cs_get fst]; [destruct (Qeq_bool u s); reflexivity|].
  destruct (Qeq_bool s k) eqn:Esk; cbn [negb cs_get].
  - rewrite IH. destruct (Qeq_bool u s) eqn:Eus; [reflexivity|].
    destruct (Qeq_bool u k) eqn:Euk; [|reflexivity]. exfalso.
    apply Qeq_bool_iff in Esk, Euk. assert (H : u == s) by (rewrite Esk; exact Euk). apply Qeq_bool_iff in H. congruence.
  - rewrite IH. destruct (Qeq_bool u k) eqn:Euk; [|reflexivity].
    destruct (Qeq_bool u s) eqn:Eus; [|reflexivity]. exfalso.
    apply Qeq_bool_iff in Euk, Eus. assert (H : s == k) by (rewrite <- Eus; exact Euk). apply Qeq_bool_iff in H. congruence.
Qed.
Lemma cs_wf_set d s n : cs_wf d -> cs_wf (cs_set d s n).
Proof.
  induction d as [|[k m] d IH]; cbn [cs_set cs_wf]; [intros _; split; [reflexivity|exact I]|].
  intros [Hk Hd]. destruct (Qeq_bool s k) eqn:E; cbn [cs_wf]; [split; assumption|].
  split; [|apply IH, Hd]. rewrite cs_get_set. destruct (Qeq_bool k s) eqn:E2; [|exact Hk].
  apply Qeq_bool_iff in E2. assert (H : s == k) by (symmetry; exact E2). apply Qeq_bool_iff in H. congruence.
Qed.
Lemma cs_wf_del d s : cs_wf d -> cs_wf (cs_del d s).
Proof.
  unfold cs_del. induction d as [|[k m] d IH]; cbn [filter cs_wf fst]; [auto|]. intros [Hk Hd].
  destruct (Qeq_bool s k); cbn [negb cs_wf]; [apply IH, Hd|]. split; [|apply IH, Hd].
  fold (cs_del d s). rewrite cs_get_del. destruct (Qeq_bool k s); [reflexivity|exact Hk].
Qed.

Lemma cse_refl d : cs_wf d -> cse d d.
Proof. intros H. split; [exact H|]. split; [exact H|]. intros s. reflexivity. Qed.
Lemma cse_set d d' s s' n : cse d d' -> s == s' -> cse (cs_set d s n) (cs_set d' s' n).
Proof.
  intros (W & W' & E) Hs. split; [apply cs_wf_set, W|]. split; [apply cs_wf_set, W'|]. intros u.
  rewrite !cs_get_set, (Qeq_bool_resp2 u u s s' (Qeq_refl u) Hs), E. reflexivity.
Qed.
Lemma cse_del d d' s s' : cse d d' -> s == s' -> cse (cs_del d s) (cs_del d' s').
Proof.
  intros (W & W' & E) Hs. split; [apply cs_wf_del, W|]. split; [apply cs_wf_del, W'|]. intros u.
  rewrite !cs_get_del, (Qeq_bool_resp2 u u s s' (Qeq_refl u) Hs), E. reflexivity.
Qed.

(* weighted sums over the entries: functions of the lookups *)
Definition gsum (w : Q -> Z -> Z) (d : cscores) : Z := fold_right (fun sn acc => (w (fst sn) (snd sn) + acc)%Z) 0%Z d.

Lemma gsum_del w d s n : (forall a b k, a == b -> w a k = w b k) -> cs_wf d -> cs_get d s = Some n ->
  gsum w d = (w s n + gsum w (cs_del d s))%Z.
Proof.
  intros Hw. unfold cs_del. induction d as [|[k m] d IH]; [discriminate|]. cbn [cs_wf cs_get filter fst gsum fold_right snd].
  intros [Hk Hd].
  destruct (Qeq_bool s k) eqn:E.
  - intros [= ->]. apply Qeq_bool_iff in E. assert (E' : Qeq_bool k s = true) by (apply Qeq_bool_iff; symmetry; exact E).
    cbn [negb]. rewrite (Hw s k n E). f_equal.
    (* nothing else is removed *)
    assert (Hn : forall e : cscores, cs_get e k = None -> filter (fun sn : Q * Z => negb (Qeq_bool s (fst sn))) e = e).
    { induction e as [|[k2 m2] e IHe]; [reflexivity|]. cbn [cs_get filter fst].
      destruct (Qeq_bool k k2) eqn:E2; [discriminate|]. intros He.
      assert (E3 : Qeq_bool s k2 = false).
      { destruct (Qeq_bool s k2) eqn:E3; [|reflexivity]. apply Qeq_bool_iff in E3.
        assert (H : k == k2) by (rewrite <- E; exact E3). apply Qeq_bool_iff in H. congruence. }
      rewrite E3. cbn [negb]. f_equal. apply IHe, He. }
    rewrite (Hn d Hk). reflexivity.
  - intros Hg. cbn [negb gsum fold_right fst snd]. fold (gsum w d). rewrite (IH Hd Hg). unfold gsum. lia.
Qed.

Lemma Qeq_bool_sym_eq a b : Qeq_bool a b = Qeq_bool b a.
Proof.
  destruct (Qeq_bool a b) eqn:E1, (Qeq_bool b a) eqn:E2; try reflexivity.
  - apply Qeq_bool_iff in E1. assert (H : b == a) by (symmetry; exact E1). apply Qeq_bool_iff in H. congruence.
  - apply Qeq_bool_iff in E2. assert (H : a == b) by (symmetry; exact E2). apply Qeq_bool_iff in H. congruence.
Qed.

Lemma gsum_eq w : (forall a b k, a == b -> w a k = w b k) -> forall d d', cse d d' -> gsum w d = gsum w d'.
Proof.
  intros Hw. induction d as [|[s n] t IH]; intros d' (W & W' & E).
  - destruct d' as [|[s' n'] t']; [reflexivity|]. specialize (E s'). cbn [cs_get] in E. rewrite Qeq_bool_refl' in E. discriminate.
  - cbn [cs_wf] in W. destruct W as [Hs Wt].
    assert (Hg : cs_get d' s = Some n) by (rewrite <- E; cbn [cs_get]; rewrite Qeq_bool_refl'; reflexivity).
    rewrite (gsum_del w d' s n Hw W' Hg). cbn [gsum fold_right fst snd]. fold (gsum w t). f_equal.
    apply IH. split; [exact Wt|]. split; [apply cs_wf_del, W'|]. intros u. rewrite cs_get_del.
    destruct (Qeq_bool u s) eqn:Eu.
    + apply Qeq_bool_iff in Eu. rewrite (cs_get_key t u s Eu). exact Hs.
    + rewrite <- E. cbn [cs_get]. rewrite Eu. reflexivity.
Qed.

Lemma cs_total_gsum d : cs_total d = gsum (fun _ n => n) d.
Proof.
  unfold cs_total, gsum. assert (H : forall l a, fold_left Z.add l a = (a + fold_right Z.add 0 l)%Z).
  { induction l as [|x l IH]; intros a; simpl; [lia|]. rewrite IH. lia. }
  rewrite H. induction d as [|[s n] d IH]; simpl; [reflexivity|]. simpl in IH. lia.
Qed.
Lemma cse_total d d' : cse d d' -> cs_total d = cs_total d'.
Proof. intros H. rewrite !cs_total_gsum. apply gsum_eq; [reflexivity|exact H]. Qed.

Lemma cnt_repeat p (x : Q) k : cnt p (repeat x k) = if p x then k else 0%nat.
Proof. induction k as [|k IH]; [destruct (p x); reflexivity|]. cbn [repeat]. rewrite cnt_cons, IH. destruct (p x); reflexivity. Qed.
Lemma cnt_expand_gsum x d : Z.of_nat (cnt (lev x) (expand d)) = gsum (fun s n => if Qle_bool s x then Z.of_nat (Z.to_nat n) else 0%Z) d.
Proof.
  unfold expand. induction d as [|[s n] d IH]; [reflexivity|]. cbn [flat_map gsum fold_right fst snd].
  rewrite cnt_app, Nat2Z.inj_add, IH, cnt_repeat. unfold lev. destruct (Qle_bool s x); reflexivity.
Qed.
Lemma cse_expand d d' : cse d d' -> meq (expand d) (expand d').
Proof.
  intros H x. apply Nat2Z.inj. rewrite !cnt_expand_gsum. apply gsum_eq; [|exact H].
  intros a b k Hab. rewrite (Qle_bool_resp a b x x Hab (Qeq_refl x)). reflexivity.
Qed.
Lemma cnt_keys_gsum x (d : cscores) : Z.of_nat (cnt (lev x) (map fst d)) = gsum (fun s _ => if Qle_bool s x then 1%Z else 0%Z) d.
Proof.
  induction d as [|[s n] d IH]; [reflexivity|]. cbn [map gsum fold_right fst snd]. rewrite cnt_cons, Nat2Z.inj_add, IH.
  unfold lev. destruct (Qle_bool s x); reflexivity.
Qed.
Lemma cse_keys d d' : cse d d' -> meq (map fst d) (map fst d').
Proof.
  intros H x. apply Nat2Z.inj. rewrite !cnt_keys_gsum. apply gsum_eq; [|exact H].
  intros a b k Hab. rewrite (Qle_bool_resp a b x x Hab (Qeq_refl x)). reflexivity.
Qed.

(* ------------------------------------------------------------------ the corrections and the aggregation respect the lookups *)
Definition orel {X} (R : X -> X -> Prop) (a b : X + serr) : Prop :=
  match a, b with inl x, inl y => R x y | inr e, inr e' => e = e' | _, _ => False end.

Lemma subtract_lowest_some d keys cutoff cut : exists r, subtract_lowest d keys cutoff cut = Some r.
Proof.
  revert d cut. induction keys as [|s t IH]; intros d cut; cbn [subtract_lowest]; [eexists; reflexivity|].
  destruct (cs_get d s) as [n|]; [|apply IH]. destruct (n <=? cutoff - cut)%Z; [apply IH|eexists; reflexivity].
Qed.

Lemma subtract_lowest_resp keys keys' : qeqs keys keys' -> forall d d' cutoff cut, cse d d' ->
  match subtract_lowest d keys cutoff cut, subtract_lowest d' keys' cutoff cut with
  | Some r, Some r' => cse r r' | _, _ => False end.
Proof.
  induction 1 as [|s s' t t' Hs _ IH]; intros d d' cutoff cut H; cbn [subtract_lowest]; [exact H|].
  destruct H as (W & W' & E).
  assert (Eg : cs_get d' s' = cs_get d s) by (rewrite <- (E s'); symmetry; apply cs_get_key, Hs). rewrite Eg.
  destruct (cs_get d s) as [n|]; [|apply IH; split; [exact W|split; [exact W'|exact E]]].
  destruct (n <=? cutoff - cut)%Z.
  - apply IH. apply cse_del; [split; [exact W|split; [exact W'|exact E]]|exact Hs].
  - apply cse_set; [split; [exact W|split; [exact W'|exact E]]|exact Hs].
Qed.

Lemma correct_scores_resp cf d d' nv : cse d d' -> orel cse (correct_scores cf d nv) (correct_scores cf d' nv).
Proof.
  intros H. unfold correct_scores. cbv zeta. rewrite <- (cse_total d d' H).
  destruct (cs_total d <? sc_min_count cf)%Z.
  { cbn [orel]. apply cse_refl. cbn [cs_wf cs_get]. auto. }
  assert (H1 : orel cse
            (match sc_unscored cf with
             | UNone => inl d
             | UConst v => inl (cs_set d v (nv - cs_total d + match cs_get d v with Some n => n | None => 0 end)%Z)
             | UMin => match list_min (expand d) with
                       | Some v => inl (cs_set d v (nv - cs_total d + match cs_get d v with Some n => n | None => 0 end)%Z)
                       | None => inr SE_value end
             end)
            (match sc_unscored cf with
             | UNone => inl d'
             | UConst v => inl (cs_set d' v (nv - cs_total d + match cs_get d' v with Some n => n | None => 0 end)%Z)
             | UMin => match list_min (expand d') with
                       | Some v => inl (cs_set d' v (nv - cs_total d + match cs_get d' v with Some n => n | None => 0 end)%Z)
                       | None => inr SE_value end
             end)).
  { destruct (sc_unscored cf) as [|v|].
    - exact H.
    - cbn [orel]. rewrite <- (proj2 (proj2 H) v). apply cse_set; [exact H|reflexivity].
    - pose proof (meq_min _ _ (cse_expand d d' H)) as Hm.
      destruct (list_min (expand d)) as [v|], (list_min (expand d')) as [v'|]; try contradiction; [|reflexivity].
      cbn [orel]. rewrite <- (proj2 (proj2 H) v'), <- (cs_get_key d v v' Hm). apply cse_set; [exact H|exact Hm]. }
  revert H1. generalize (match sc_unscored cf with
             | UNone => @inl cscores serr d
             | UConst v => inl (cs_set d v (nv - cs_total d + match cs_get d v with Some n => n | None => 0 end)%Z)
             | UMin => match list_min (expand d) with
                       | Some v => inl (cs_set d v (nv - cs_total d + match cs_get d v with Some n => n | None => 0 end)%Z)
                       | None => inr SE_value end
             end).
  generalize (match sc_unscored cf with
             | UNone => @inl cscores serr d'
             | UConst v => inl (cs_set d' v (nv - cs_total d + match cs_get d' v with Some n => n | None => 0 end)%Z)
             | UMin => match list_min (expand d') with
                       | Some v => inl (cs_set d' v (nv - cs_total d + match cs_get d' v with Some n => n | None => 0 end)%Z)
                       | None => inr SE_value end
             end).
  intros r' r Hr. destruct r as [d1|e], r' as [d1'|e']; cbn [orel] in Hr; try contradiction; [|exact Hr].
  destruct (Qle_bool (sc_trunc cf) 0); [exact Hr|].
  set (cutoff := if Qle_bool 1 (sc_trunc cf) then Qfloor (sc_trunc cf) else Qfloor (inject_Z (if (nv =? 0)%Z then cs_total d else nv) * sc_trunc cf)).
  pose proof (meq_sort _ _ (cse_keys d1 d1' Hr)) as Hk.
  pose proof (subtract_lowest_resp _ _ Hk d1 d1' cutoff 0%Z Hr) as H2.
  destruct (subtract_lowest d1 (sort_q (map fst d1)) cutoff 0) as [d2|], (subtract_lowest d1' (sort_q (map fst d1')) cutoff 0) as [d2'|]; try contradiction.
  pose proof (subtract_lowest_resp _ _ (qeqs_rev _ _ Hk) d2 d2' cutoff 0%Z H2) as H3.
  destruct (subtract_lowest d2 (rev (sort_q (map fst d1))) cutoff 0) as [d3|], (subtract_lowest d2' (rev (sort_q (map fst d1'))) cutoff 0) as [d3'|]; try contradiction.
  exact H3.
Qed.

Lemma aggregate_one_resp fn d d' : cse d d' -> orel Qeq (aggregate_one fn d) (aggregate_one fn d').
Proof.
  intros H. pose proof (cse_expand d d' H) as Hm. pose proof (meq_length _ _ Hm) as Hl. unfold aggregate_one. cbv zeta.
  destruct fn.
  - destruct (expand d) as [|x l] eqn:E, (expand d') as [|x' l'] eqn:E'; try discriminate; [reflexivity|].
    cbn [orel]. rewrite !Qred_correct, (meq_sum _ _ Hm), Hl. reflexivity.
  - cbn [orel]. rewrite !Qred_correct. apply meq_sum, Hm.
  - destruct (expand d) as [|x l] eqn:E, (expand d') as [|x' l'] eqn:E'; try discriminate; [reflexivity|].
    cbn [orel]. rewrite !length_sort, Hl. apply qeqs_nth, meq_sort, Hm.
Qed.

(* ------------------------------------------------------------------ candidate -> (score -> count): raw_scores as one fold *)
Definition instr : Type := (C * Q * Z)%type.
Definition look (D : list (C * cscores)) (c : C) : cscores := match dget D c with Some x => x | None => [] end.
Definition sstep (D : list (C * cscores)) (i : instr) : list (C * cscores) :=
  let old := look D (fst (fst i)) in
  dset D (fst (fst i)) (cs_set old (snd (fst i)) (match cs_get old (snd (fst i)) with Some k => k | None => 0%Z end + snd i)).
Definition instrs (votes : sprofile) : list instr :=
  flat_map (fun bn : sballot * Z => map (fun cs : C * Q => (fst cs, snd cs, snd bn)) (fst bn)) votes.

Lemma raw_scores_instrs votes : raw_scores votes = fold_left sstep (instrs votes) [].
Proof.
  unfold raw_scores, instrs.
  match goal with |- fold_left ?F votes [] = _ =>
    enough (G : forall D, fold_left F votes D = fold_left sstep (flat_map (fun bn : sballot * Z => map (fun cs : C * Q => (fst cs, snd cs, snd bn)) (fst bn)) votes) D) by apply G end.
  induction votes as [|[b k] votes IH]; intros D; [reflexivity|].
  cbn [fold_left flat_map fst snd]. rewrite fold_left_app, IH. f_equal.
  clear IH. revert D. induction b as [|[c s] b IHb]; intros D; [reflexivity|]. cbn [fold_left map fst snd]. rewrite IHb. reflexivity.
Qed.

Lemma dget_dset' {X} (d : list (C * X)) k v x : dget (dset d k v) x = if ceqb x k then Some v else dget d x.
Proof.
  induction d as [|[k0 v0] d IH]; cbn [dset dget]; [destruct (ceqb x k); reflexivity|].
  destruct (ceqb k k0) eqn:E; cbn [dget].
  - apply ceqb_eq in E. subst k0. destruct (ceqb x k); reflexivity.
  - rewrite IH. destruct (ceqb x k0) eqn:E2; [|reflexivity]. apply ceqb_eq in E2. subst k0.
    destruct (ceqb x k) eqn:E3; [|reflexivity]. apply ceqb_eq in E3. subst. rewrite ceqb_refl in E. discriminate.
Qed.
Lemma dset_keys_eq {X} (d : list (C * X)) k v : map fst (dset d k v) = if dmem d k then map fst d else map fst d ++ [k].
Proof.
  unfold dmem. induction d as [|[k0 v0] d IH]; cbn [dset dget map fst]; [reflexivity|].
  destruct (ceqb k k0) eqn:E; cbn [map fst]; [reflexivity|]. rewrite IH. destruct (dget d k); reflexivity.
Qed.
Lemma dmem_In {X} (d : list (C * X)) k : dmem d k = true <-> In k (map fst d).
Proof.
  unfold dmem. induction d as [|[k0 v0] d IH]; cbn [dget map fst]; [split; [discriminate|intros []]|].
  destruct (ceqb k k0) eqn:E.
  - apply ceqb_eq in E. subst. split; [intros _; left; reflexivity|reflexivity].
  - rewrite IH. split; [intros H; right; exact H|intros [H|H]; [subst; rewrite ceqb_refl in E; discriminate|exact H]].
Qed.
Lemma dset_nodup {X} (d : list (C * X)) k v : NoDup (map fst d) -> NoDup (map fst (dset d k v)).
Proof.
  intros H. rewrite dset_keys_eq. destruct (dmem d k) eqn:E; [exact H|].
  eapply Permutation_NoDup; [apply Permutation_cons_append|]. constructor; [|exact H].
  intros Hi. apply dmem_In in Hi. congruence.
Qed.

Definition g (D : list (C * cscores)) (c : C) (u : Q) : option Z := cs_get (look D c) u.
Definition odf (o : option Z) : Z := match o with Some k => k | None => 0%Z end.
Definition owf (D : list (C * cscores)) : Prop := NoDup (map fst D) /\ forall c, cs_wf (look D c).

Lemma look_sstep D i c : look (sstep D i) c =
  if ceqb c (fst (fst i)) then cs_set (look D (fst (fst i))) (snd (fst i)) (odf (g D (fst (fst i)) (snd (fst i))) + snd i)%Z else look D c.
Proof. unfold sstep, look at 1. cbv zeta. rewrite dget_dset'. destruct (ceqb c (fst (fst i))); reflexivity. Qed.

Lemma g_sstep D i c u : g (sstep D i) c u =
  if ceqb c (fst (fst i)) && Qeq_bool u (snd (fst i)) then Some (odf (g D c u) + snd i)%Z else g D c u.
Proof.
  unfold g at 1. rewrite look_sstep. destruct (ceqb c (fst (fst i))) eqn:E; cbn [andb]; [|reflexivity].
  apply ceqb_eq in E. subst c. rewrite cs_get_set. destruct (Qeq_bool u (snd (fst i))) eqn:E2; [|reflexivity].
  apply Qeq_bool_iff in E2. unfold g. rewrite (cs_get_key _ u _ E2). reflexivity.
Qed.
Lemma dmem_sstep D i c : dmem (sstep D i) c = ceqb c (fst (fst i)) || dmem D c.
Proof. unfold sstep. cbv zeta. unfold dmem. rewrite dget_dset'. destruct (ceqb c (fst (fst i))); reflexivity. Qed.
Lemma owf_sstep D i : owf D -> owf (sstep D i).
Proof.
  intros [N W]. split; [apply dset_nodup, N|]. intros c. rewrite look_sstep.
  destruct (ceqb c (fst (fst i))); [apply cs_wf_set, W|apply W].
Qed.
Lemma owf_fold l : forall D, owf D -> owf (fold_left sstep l D).
Proof. induction l as [|i l IH]; intros D H; [exact H|]. apply IH, owf_sstep, H. Qed.

Definition hits (c : C) (u : Q) (i : instr) : bool := ceqb c (fst (fst i)) && Qeq_bool u (snd (fst i)).
Definition tally (c : C) (u : Q) (l : list instr) : Z := fold_right (fun i acc => ((if hits c u i then snd i else 0) + acc)%Z) 0%Z l.

Lemma tally_none c u l : existsb (hits c u) l = false -> tally c u l = 0%Z.
Proof.
  induction l as [|i l IH]; [reflexivity|]. cbn [existsb tally fold_right]. fold (tally c u l).
  destruct (hits c u i); [discriminate|]. intros H. rewrite (IH H). reflexivity.
Qed.
Lemma g_fold c u l : forall D, g (fold_left sstep l D) c u =
  if existsb (hits c u) l then Some (odf (g D c u) + tally c u l)%Z else g D c u.
Proof.
  induction l as [|i l IH]; intros D; [reflexivity|]. cbn [fold_left existsb tally fold_right]. fold (tally c u l).
  rewrite IH, g_sstep. fold (hits c u i). destruct (hits c u i) eqn:Hi, (existsb (hits c u) l) eqn:Hl; cbn [orb odf].
  - apply f_equal. lia.
  - rewrite (tally_none c u l Hl). apply f_equal. lia.
  - apply f_equal. lia.
  - reflexivity.
Qed.
Lemma dmem_fold c l : forall D, dmem (fold_left sstep l D) c = existsb (fun i : instr => ceqb c (fst (fst i))) l || dmem D c.
Proof.
  induction l as [|i l IH]; intros D; [reflexivity|]. cbn [fold_left existsb]. rewrite IH, dmem_sstep.
  destruct (ceqb c (fst (fst i))), (existsb _ l); reflexivity.
Qed.

Lemma existsb_perm {A} (p : A -> bool) l l' : Permutation l l' -> existsb p l = existsb p l'.
Proof.
  induction 1 as [|x l l' _ IH|x y l|l l' l'' _ IH1 _ IH2]; cbn [existsb]; [reflexivity|rewrite IH; reflexivity| |congruence].
  destruct (p x), (p y); reflexivity.
Qed.
Lemma tally_perm c u l l' : Permutation l l' -> tally c u l = tally c u l'.
Proof.
  unfold tally. induction 1 as [|x l l' _ IH|x y l|l l' l'' _ IH1 _ IH2]; cbn [fold_right]; [reflexivity|rewrite IH; reflexivity|lia|congruence].
Qed.

(* dictionaries keyed by candidates, compared entry by entry through a relation on the values *)
Definition orelD {X} (RV : X -> X -> Prop) (D D' : list (C * X)) : Prop :=
  NoDup (map fst D) /\ NoDup (map fst D') /\
  forall c, match dget D c, dget D' c with Some x, Some y => RV x y | None, None => True | _, _ => False end.

Lemma raw_scores_order votes votes' : Permutation votes votes' -> orelD cse (raw_scores votes) (raw_scores votes').
Proof.
  intros H. rewrite !raw_scores_instrs.
  assert (Hp : Permutation (instrs votes) (instrs votes')) by (unfold instrs; apply Permutation_flat_map, H).
  assert (W0 : owf []) by (split; [constructor|intros c; exact I]).
  pose proof (owf_fold (instrs votes) [] W0) as [N W]. pose proof (owf_fold (instrs votes') [] W0) as [N' W'].
  split; [exact N|]. split; [exact N'|]. intros c.
  pose proof (dmem_fold c (instrs votes) []) as M. pose proof (dmem_fold c (instrs votes') []) as M'.
  rewrite (existsb_perm _ _ _ Hp) in M. rewrite <- M' in M. clear M'.
  specialize (W c). specialize (W' c).
  assert (E : cs_eq (look (fold_left sstep (instrs votes) []) c) (look (fold_left sstep (instrs votes') []) c)).
  { intros u. change (g (fold_left sstep (instrs votes) []) c u = g (fold_left sstep (instrs votes') []) c u).
    rewrite !g_fold, (existsb_perm _ _ _ Hp), (tally_perm c u _ _ Hp). reflexivity. }
  unfold dmem in M. unfold look in W, W', E.
  destruct (dget (fold_left sstep (instrs votes) []) c), (dget (fold_left sstep (instrs votes') []) c); try discriminate; [|exact I].
  split; [exact W|]. split; [exact W'|exact E].
Qed.

(* ---- value-wise maps and [sequence] *)
Lemma dget_map_vals {X Y} (F : X -> Y) (D : list (C * X)) c :
  dget (map (fun cd : C * X => (fst cd, F (snd cd))) D) c = option_map F (dget D c).
Proof. induction D as [|[k x] D IH]; cbn [map dget fst snd]; [reflexivity|]. destruct (ceqb c k); [reflexivity|exact IH]. Qed.
Lemma keys_map_vals {X Y} (F : X -> Y) (D : list (C * X)) : map fst (map (fun cd : C * X => (fst cd, F (snd cd))) D) = map fst D.
Proof. rewrite map_map. reflexivity. Qed.

Lemma orelD_map {X Y} (RV : X -> X -> Prop) (RW : Y -> Y -> Prop) (F : X -> Y) D D' :
  (forall x y, RV x y -> RW (F x) (F y)) -> orelD RV D D' ->
  orelD RW (map (fun cd : C * X => (fst cd, F (snd cd))) D) (map (fun cd : C * X => (fst cd, F (snd cd))) D').
Proof.
  intros HF (N & N' & E). split; [rewrite keys_map_vals; exact N|]. split; [rewrite keys_map_vals; exact N'|].
  intros c. rewrite !dget_map_vals. specialize (E c). destruct (dget D c), (dget D' c); cbn [option_map]; try contradiction; [apply HF, E|exact I].
Qed.

Lemma sequence_inl {X} (l : list (C * (X + serr))) r : sequence l = inl r -> l = map (fun cy : C * X => (fst cy, inl (snd cy))) r.
Proof.
  revert r. induction l as [|[c [y|e]] l IH]; intros r; cbn [sequence]; [intros [= <-]; reflexivity| |discriminate].
  destruct (sequence l) as [r0|e0]; [|discriminate]. intros [= <-]. cbn [map fst snd]. f_equal. apply IH. reflexivity.
Qed.
Lemma sequence_inr {X} (l : list (C * (X + serr))) e : sequence l = inr e -> exists c, In (c, inr e) l.
Proof.
  induction l as [|[c [y|e1]] l IH]; cbn [sequence]; [discriminate| |].
  - destruct (sequence l) as [r0|e0]; [discriminate|]. intros [= <-]. destruct (IH eq_refl) as (c0 & H). exists c0. right. exact H.
  - intros [= <-]. exists c. left. reflexivity.
Qed.

Lemma In_dget' {X} (D : list (C * X)) c x : NoDup (map fst D) -> In (c, x) D -> dget D c = Some x.
Proof. apply In_dget. Qed.

Lemma sequence_rel {X} (RV : X -> X -> Prop) (e0 : serr) (L L' : list (C * (X + serr))) :
  orelD (orel RV) L L' -> (forall c e, In (c, inr e) L -> e = e0) -> (forall c e, In (c, inr e) L' -> e = e0) ->
  orel (orelD RV) (sequence L) (sequence L').
Proof.
  intros (N & N' & E) He He'.
  destruct (sequence L) as [r|e] eqn:S, (sequence L') as [r'|e'] eqn:S'; cbn [orel].
  - apply sequence_inl in S. apply sequence_inl in S'. subst L L'.
    rewrite (keys_map_vals (@inl X serr)) in N, N'. split; [exact N|]. split; [exact N'|]. intros c. specialize (E c).
    rewrite !(dget_map_vals (@inl X serr)) in E. destruct (dget r c), (dget r' c); cbn [option_map orel] in E; try contradiction; exact E.
  - exfalso. destruct (sequence_inr _ _ S') as (c & Hc). pose proof (In_dget' L' c _ N' Hc) as G'.
    apply sequence_inl in S. subst L. specialize (E c). rewrite G', (dget_map_vals (@inl X serr)) in E.
    destruct (dget r c); cbn [option_map orel] in E; contradiction.
  - exfalso. destruct (sequence_inr _ _ S) as (c & Hc). pose proof (In_dget' L c _ N Hc) as G.
    apply sequence_inl in S'. subst L'. specialize (E c). rewrite G, (dget_map_vals (@inl X serr)) in E.
    destruct (dget r' c); cbn [option_map orel] in E; contradiction.
  - destruct (sequence_inr _ _ S) as (c & Hc). destruct (sequence_inr _ _ S') as (c' & Hc').
    rewrite (He c e Hc), (He' c' e' Hc'). reflexivity.
Qed.

Lemma correct_scores_err cf d nv e : correct_scores cf d nv = inr e -> e = SE_value.
Proof.
  unfold correct_scores. cbv zeta. destruct (cs_total d <? sc_min_count cf)%Z; [discriminate|].
  destruct (sc_unscored cf) as [|v|].
  - destruct (Qle_bool (sc_trunc cf) 0); [discriminate|].
    match goal with |- context [subtract_lowest d ?k ?c 0%Z] => destruct (subtract_lowest_some d k c 0%Z) as (r & ->) end.
    match goal with |- context [subtract_lowest r ?k ?c 0%Z] => destruct (subtract_lowest_some r k c 0%Z) as (r2 & ->) end. discriminate.
  - destruct (Qle_bool (sc_trunc cf) 0); [discriminate|].
    match goal with |- context [subtract_lowest ?d1 ?k ?c 0%Z] => destruct (subtract_lowest_some d1 k c 0%Z) as (r & ->) end.
    match goal with |- context [subtract_lowest r ?k ?c 0%Z] => destruct (subtract_lowest_some r k c 0%Z) as (r2 & ->) end. discriminate.
  - destruct (list_min (expand d)) as [v|]; [|intros [= <-]; reflexivity].
    destruct (Qle_bool (sc_trunc cf) 0); [discriminate|].
    match goal with |- context [subtract_lowest ?d1 ?k ?c 0%Z] => destruct (subtract_lowest_some d1 k c 0%Z) as (r & ->) end.
    match goal with |- context [subtract_lowest r ?k ?c 0%Z] => destruct (subtract_lowest_some r k c 0%Z) as (r2 & ->) end. discriminate.
Qed.
Definition agg_err (fn : aggfn) : serr := match fn with FMean => SE_zerodiv | FSum => SE_value | FMedianLow => SE_stats end.
Lemma aggregate_one_err fn d e : aggregate_one fn d = inr e -> e = agg_err fn.
Proof.
  unfold aggregate_one. cbv zeta. destruct fn; [| discriminate |]; destruct (expand d); try discriminate; intros [= <-]; reflexivity.
Qed.

Lemma zsum_vals_perm (votes votes' : sprofile) : Permutation votes votes' ->
  fold_left Z.add (map snd votes) 0%Z = fold_left Z.add (map snd votes') 0%Z.
Proof.
  intros H. assert (G : forall (l : list Z) a, fold_left Z.add l a = (a + fold_right Z.add 0 l)%Z).
  { induction l as [|x l IH]; intros a; simpl; [lia|]. rewrite IH. lia. }
  rewrite !G. f_equal. apply (Permutation_map snd) in H. induction H; simpl; lia.
Qed.

Theorem corrected_scores_order cf votes votes' : Permutation votes votes' ->
  orel (orelD cse) (corrected_scores cf votes) (corrected_scores cf votes').
Proof.
  intros H. unfold corrected_scores. cbv zeta. rewrite <- (zsum_vals_perm votes votes' H).
  set (nv := fold_left Z.add (map snd votes) 0%Z).
  apply (sequence_rel cse SE_value).
  - apply (orelD_map cse (orel cse) (fun d => correct_scores cf d nv)); [|apply raw_scores_order, H].
    intros x y Hxy. apply correct_scores_resp, Hxy.
  - intros c e Hi. apply in_map_iff in Hi. destruct Hi as ([c0 d] & E & _). cbn [fst snd] in E. injection E as _ E. exact (correct_scores_err cf d nv e E).
  - intros c e Hi. apply in_map_iff in Hi. destruct Hi as ([c0 d] & E & _). cbn [fst snd] in E. injection E as _ E. exact (correct_scores_err cf d nv e E).
Qed.

Lemma aggregate_resp fn sc sc' : orelD cse sc sc' -> orel (orelD Qeq) (aggregate fn sc) (aggregate fn sc').
Proof.
  intros H. unfold aggregate. apply (sequence_rel Qeq (agg_err fn)).
  - apply (orelD_map cse (orel Qeq) (aggregate_one fn)); [|exact H]. intros x y Hxy. apply aggregate_one_resp, Hxy.
  - intros c e Hi. apply in_map_iff in Hi. destruct Hi as ([c0 d] & E & _). cbn [fst snd] in E. injection E as _ E. exact (aggregate_one_err fn d e E).
  - intros c e Hi. apply in_map_iff in Hi. destruct Hi as ([c0 d] & E & _). cbn [fst snd] in E. injection E as _ E. exact (aggregate_one_err fn d e E).
Qed.

(* the aggregated scores: the same error, or the same candidates with == scores (the dictionary in another order) *)
Theorem score_to_simple_order cf votes votes' : Permutation votes votes' ->
  orel (orelD Qeq) (score_to_simple cf votes) (score_to_simple cf votes').
Proof.
  intros H. unfold score_to_simple. pose proof (corrected_scores_order cf votes votes' H) as Hc.
  destruct (corrected_scores cf votes) as [sc|e], (corrected_scores cf votes') as [sc'|e']; cbn [orel] in Hc; try contradiction; [|exact Hc].
  apply aggregate_resp, Hc.
Qed.

(* ------------------------------------------------------------------ selection from two such dictionaries *)
From VL Require Import Proofs.Order_proofs Proofs.GnbSim_proofs Proofs.CondorcetOrder_proofs Proofs.QDOrder_proofs Proofs.STVOrder_proofs
     Proofs.ApprovalOrder_proofs.

Lemma gnbq_equiv (d d' : list (C * Q)) n : NoDup (map fst d) -> Permutation d d' ->
  res_equiv (get_n_best Qle_bool d n) (get_n_best Qle_bool d' n).
Proof.
  intros Hn Hp. split.
  - eapply F2_impl'; [|apply (gnb_sim Qle_bool Qle_bool_total Qle_bool_trans d d' n Hp)].
    intros [a|T] [b|T']; simpl; tauto.
  - intros c. destruct n as [|n]; [rewrite !gnb_zero; reflexivity|].
    destruct (gnb_perm_shape d d' (S n) ltac:(lia) Hn Hp) as (cs & cs' & T & T' & k & E & E' & Pcs & _ & _).
    rewrite E, E'.
    assert (H : forall (l : list C) X j, In (Cand c) (map Cand l ++ repeat (TieR X) j) <-> In c l).
    { intros l X j. rewrite in_app_iff, in_map_iff. split.
      - intros [(x & [= ->] & Hx)|Hr]; [exact Hx|]. apply repeat_spec in Hr. discriminate.
      - intros Hc. left. exists c. split; [reflexivity|exact Hc]. }
    rewrite !H. split; intros Hc; [apply (Permutation_in _ Pcs Hc)|apply (Permutation_in _ (Permutation_sym Pcs) Hc)].
Qed.

Lemma gnb_orelD (d d' : list (C * Q)) n : orelD Qeq d d' -> res_equiv (get_n_best Qle_bool d n) (get_n_best Qle_bool d' n).
Proof.
  intros (N & N' & E). rewrite <- (gnb_nrm d n), <- (gnb_nrm d' n). apply gnbq_equiv; [rewrite nrm_keys; exact N|].
  apply nrm_perm; [exact N|exact N'| |].
  - intros c. rewrite <- !dmem_In. unfold dmem. specialize (E c). destruct (dget d c), (dget d' c); try contradiction; tauto.
  - intros c. unfold dget_or. specialize (E c). destruct (dget d c), (dget d' c); try contradiction; [exact E|reflexivity].
Qed.

Theorem score_voting_order cf votes votes' n : Permutation votes votes' ->
  orel res_equiv (score_voting cf votes n) (score_voting cf votes' n).
Proof.
  intros H. unfold score_voting. pose proof (score_to_simple_order cf votes votes' H) as Hs.
  destruct (score_to_simple cf votes) as [a|e], (score_to_simple cf votes') as [a'|e']; cbn [orel] in Hs; try contradiction; [|exact Hs].
  cbn [orel]. apply gnb_orelD, Hs.
Qed.
