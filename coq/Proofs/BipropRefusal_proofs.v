(* Lemmas for property C07, part 8: THE REFUSAL THROUGH THE ADJUSTMENT COEFFICIENT IS JUSTIFIED.  Whenever an iteration of the
   whole-loop model (Model/BipropLoop.v) stops with [BP_refused a] - VotingSystemError "invalid adjustment coefficient" - from a
   state that satisfies the loop invariant, no seat matrix with the district seats, the party seats and empty cells where
   there are no votes exists, for the two rounding rules the evaluator supports (signpost_q = 0 and 1/2).
     1. with closed labels (Proofs/BipropTerm_proofs.v) the coefficient is < 1: a candidate equal to 1 is a cell exactly on
        its signpost next to a labelled line, which the labelling search would have labelled;
     2. so the refused coefficient is 0: no labelled district holds a seat outside the labelled parties, and no labelled
        party has a vote outside the labelled districts;
     3. the labelled districts hold more seats than they are due (they contain every over-represented district and no
        under-represented one), all of them in labelled parties' columns, whose seats can sit nowhere else: Hall's
        condition fails for every matrix with these marginals and this support. *)
From Coq Require Import ZArith QArith List Bool Lia Lqa Arith.
From VL Require Import Prelude.PyDict Model.Divisor Model.HighestAverages Model.Biprop Model.BipropLoop
     Proofs.Dict_proofs Proofs.Divisor_proofs Proofs.Biprop_proofs Proofs.Biprop_steps Proofs.BipropLoop_proofs
     Proofs.BipropInit_proofs Proofs.BipropProgress_proofs Proofs.BipropTerm_proofs Proofs.BipropFlow_proofs.
Import ListNotations.
Open Scope Z_scope.

(* ------------------------------------------------------------------ int(quotient) on a signpost *)
Lemma Qtrunc_inject s : Qtrunc (inject_Z s) = s.
Proof. unfold Qtrunc, inject_Z. cbn [Qnum Qden]. apply Z.quot_1_r. Qed.
Lemma Qtrunc_half s : 0 <= s -> Qtrunc (inject_Z s + (1 # 2)) = s.
Proof.
  intros Hs. unfold Qtrunc, Qplus, inject_Z. cbn [Qnum Qden]. change (Z.pos (1 * 2)) with 2.
  rewrite Z.quot_div_nonneg by lia. symmetry. apply (Z.div_unique_pos (s * 2 + 1 * 1) 2 s 1); lia.
Qed.

Lemma tied_down q x s : (q == 0 \/ q == 1 # 2)%Q -> (x == inject_Z s - q)%Q -> 1 <= s -> is_downgradable q x s = true.
Proof.
  intros Hq Ex Hs. unfold is_downgradable, at_signpost. rewrite !andb_true_iff. split; [split|apply Z.leb_le, Hs].
  - apply Qeq_bool_iff. destruct Hq as [E|E].
    + rewrite (Qtrunc_comp x (inject_Z s)) by (rewrite Ex, E; ring). rewrite Qtrunc_inject, Ex, E. ring.
    + assert (E1 : (inject_Z (s - 1) == inject_Z s - 1)%Q) by (unfold Z.sub; rewrite inject_Z_plus; reflexivity).
      rewrite (Qtrunc_comp x (inject_Z (s - 1) + (1 # 2))) by (rewrite Ex, E, E1; ring).
      rewrite Qtrunc_half by lia. rewrite Ex, E, E1. ring.
  - apply Qeq_bool_iff. symmetry. exact Ex.
Qed.
Lemma tied_up q x s : (q == 0 \/ q == 1 # 2)%Q -> (x == inject_Z s + 1 - q)%Q -> 0 <= s -> is_upgradable q x s = true.
Proof.
  intros Hq Ex Hs. unfold is_upgradable, at_signpost. rewrite !andb_true_iff. split.
  - apply Qeq_bool_iff. destruct Hq as [E|E].
    + assert (E1 : (inject_Z (s + 1) == inject_Z s + 1)%Q) by (rewrite inject_Z_plus; reflexivity).
      rewrite (Qtrunc_comp x (inject_Z (s + 1))) by (rewrite Ex, E, E1; ring). rewrite Qtrunc_inject, Ex, E, E1. ring.
    + rewrite (Qtrunc_comp x (inject_Z s + (1 # 2))) by (rewrite Ex, E; ring).
      rewrite Qtrunc_half by lia. rewrite Ex, E. ring.
  - apply Qeq_bool_iff. symmetry. exact Ex.
Qed.

Section Refusal.
  Variable q : Q.
  Hypothesis Hq0 : (0 <= q)%Q.
  Hypothesis Hq1 : (q < 1)%Q.
  Hypothesis Hq : (q == 0 \/ q == 1 # 2)%Q.
  Variable votes : mat.
  Hypothesis Hwf : wf_votes votes.
  Hypothesis Hvnn : forall i j, 0 <= mget votes i j.
  Variable pseats : list (C * Z).
  Notation ds := (districts votes).
  Notation ps := (parties votes).
  Notation quots s := (calc_quots votes (b_rho s) (b_gamma s)).

  Lemma ds_dget i : In i ds -> exists row, dget votes i = Some row.
  Proof.
    intros Hi. destruct (dget votes i) as [row|] eqn:E; [exists row; reflexivity|]. exfalso. apply (dget_none_notin _ _ E Hi).
  Qed.

  (* 1. with closed labels the adjustment coefficient is below 1 *)
  Lemma coef_lt_1 s under over LD LP a : BInv q votes pseats s -> NoDup over ->
    labeled q ps ds (quots s) (b_res s) under over = Lab LD LP ->
    sort_pos (filter (fun i => dmem LD i) under) = [] ->
    adj_coef q (quots s) (b_res s) (map fst LD) (map fst LP) = Adj a -> (a < 1)%Q.
  Proof.
    intros I Hov El Hnu Ha. destruct (Qlt_le_dec a 1) as [L|L]; [exact L|exfalso].
    destruct (labeled_spec q votes _ _ _ _ _ _ Hov El) as [LI Cl]. specialize (Cl Hnu). destruct Cl as (C1 & C2 & C3).
    set (DL := map fst LD) in *. set (PL := map fst LP) in *. set (res := b_res s) in *.
    destruct (adj_attain q res DL PL _ a Ha ltac:(lra)) as ([[i j] x] & Hcell & Hatt).
    destruct (cells_of_quots votes _ _ _ Hwf Hcell) as (Hi & Hj & Ex). cbn [fst snd] in Hi, Hj, Ex, Hatt.
    pose proof (bi_cells _ _ _ _ I i j Hi Hj) as (W0 & W1 & W2). fold res in W0, W1, W2. rewrite <- Ex in W0, W1, W2.
    pose proof (bi_nonneg _ _ _ _ I i j) as Hs0. fold res in Hs0.
    pose proof (inj_le 0 _ Hs0) as Hs0'. change (inject_Z 0) with 0%Q in Hs0'.
    destruct (ds_dget i Hi) as (vrow & Ev).
    destruct Hatt as [[(HiD & HjP & Hsg) Ea]|[(HiD & HjP & Hx) Ea]].
    - (* a candidate of alpha equal to 1: a cell on its lower signpost *)
      assert (Hxp : (0 < x)%Q) by lra.
      assert (Hle : (x <= signpost q (mget res i j))%Q).
      { rewrite Ea in L. assert (E2 : (signpost q (mget res i j) == signpost q (mget res i j) / x * x)%Q) by (field; lra).
        remember (signpost q (mget res i j) / x)%Q as t. rewrite E2. nra. }
      assert (Exs : (x == inject_Z (mget res i j) - q)%Q) by (unfold signpost in *; lra).
      assert (Hs1 : 1 <= mget res i j).
      { destruct (Z_lt_le_dec (mget res i j) 1) as [H|H]; [|exact H]. assert (mget res i j = 0) by lia.
        unfold signpost in Hsg. rewrite H0 in Hsg. change (inject_Z 0) with 0%Q in Hsg. lra. }
      assert (Ht : dtest q (quots s) res i j = true).
      { rewrite dtest_calc, Ev. unfold mget in Hs1, Exs. destruct (dget res i) as [rr|]; [|lia].
        rewrite <- Ex. apply tied_down; assumption. }
      assert (Hin : In j PL) by (apply (C1 i j); [apply cmem_In, HiD|apply sort_pos_in, Hj|exact Ht]).
      apply cmem_In in Hin. congruence.
    - (* a candidate of 1 / beta equal to 1: a cell on its upper signpost *)
      assert (Hsg1 : (0 < signpost q (mget res i j) + 1)%Q) by (unfold signpost; lra).
      assert (Hle : (signpost q (mget res i j) + 1 <= x)%Q).
      { rewrite Ea in L. assert (E1 : (1 / ((signpost q (mget res i j) + 1) / x) == x / (signpost q (mget res i j) + 1))%Q) by (field; split; lra).
        rewrite E1 in L. assert (E2 : (x == x / (signpost q (mget res i j) + 1) * (signpost q (mget res i j) + 1))%Q) by (field; lra).
        remember (x / (signpost q (mget res i j) + 1))%Q as t. rewrite E2. nra. }
      assert (Exs : (x == inject_Z (mget res i j) + 1 - q)%Q) by (unfold signpost in *; lra).
      assert (HiD' : ~ In i DL) by (intros Hin; apply cmem_In in Hin; congruence).
      assert (HjP' : In j PL) by (apply cmem_In, HjP).
      pose proof (C3 j i HjP' Hi HiD') as Hav. unfold availd in Hav.
      assert (Ht : utest q (quots s) res i j = true).
      { rewrite utest_calc, Ev. unfold mget in Hs0, Exs. destruct (dget (quots s) i); [|discriminate]. destruct (dget res i) as [rr|]; [|discriminate].
        rewrite <- Ex. apply tied_up; assumption. }
      apply HiD'. apply (C2 j i HjP' Hi Ht).
  Qed.

  (* 2. a coefficient 0: no labelled district holds a seat outside the labelled parties, no labelled party has a vote outside
        the labelled districts *)
  Lemma coef_zero_shape s DL PL a : BInv q votes pseats s ->
    adj_coef q (quots s) (b_res s) DL PL = Adj a -> (a <= 0)%Q ->
    (forall i j, In i ds -> In j ps -> In i DL -> ~ In j PL -> mget (b_res s) i j = 0) /\
    (forall i j, In i ds -> In j ps -> ~ In i DL -> In j PL -> mget votes i j = 0).
  Proof.
    intros I Ha Hle. set (res := b_res s) in *.
    pose proof (adj_ge q res DL PL _ a Ha) as G. cbv zeta in G. destruct G as (Gz & Galpha & Gbeta).
    pose proof (scan_facts q res DL PL (cells_of (quots s)) (mk_scan 0 None false) Gz) as (_ & _ & _ & CA & CB & PB).
    split.
    - intros i j Hi Hj HiD HjP. destruct (Z.eq_dec (mget res i j) 0) as [e|n]; [exact e|exfalso].
      pose proof (bi_nonneg _ _ _ _ I i j) as Hs0. fold res in Hs0.
      assert (Hv : mget votes i j <> 0) by (intros E; apply n; apply (bi_zero _ _ _ _ I i j E)).
      pose proof (stored_cell votes Hwf (b_rho s) (b_gamma s) i j Hv) as Hc.
      assert (Hsg : (0 < signpost q (mget res i j))%Q).
      { unfold signpost. pose proof (inj_le 1 (mget res i j) ltac:(lia)) as H1. change (inject_Z 1) with 1%Q in H1. lra. }
      destruct (CA _ Hc) as [Hx0 Hle'].
      { split; [apply cmem_In, HiD|]. split; [|exact Hsg]. destruct (cmem j PL) eqn:E; [exfalso; apply HjP, cmem_In, E|reflexivity]. }
      cbn [fst snd] in Hx0, Hle'.
      pose proof (bi_cells _ _ _ _ I i j Hi Hj) as (W0 & W1 & W2). fold res in W0, W1, W2.
      set (x := quot (mget votes i j) (mul (b_rho s) i) (mul (b_gamma s) j)) in *.
      assert (Hxp : (0 < x)%Q) by lra.
      assert (Hdiv : (0 < signpost q (mget res i j) / x)%Q) by (apply Qlt_shift_div_l; [exact Hxp|lra]).
      lra.
    - intros i j Hi Hj HiD HjP. destruct (Z.eq_dec (mget votes i j) 0) as [e|n]; [exact e|exfalso].
      pose proof (Hvnn i j) as Hv0.
      pose proof (stored_cell votes Hwf (b_rho s) (b_gamma s) i j n) as Hc.
      set (x := quot (mget votes i j) (mul (b_rho s) i) (mul (b_gamma s) j)) in *.
      assert (Hxp : (0 < x)%Q).
      { unfold x, quot. pose proof (bi_rho _ _ _ _ I i Hi). pose proof (bi_gamma _ _ _ _ I j Hj).
        pose proof (inj_lt 0 (mget votes i j) ltac:(lia)) as H1. change (inject_Z 0) with 0%Q in H1.
        apply Qmult_lt_0_compat; [apply Qmult_lt_0_compat|]; assumption. }
      destruct (CB _ Hc) as (b & Eb & Hb).
      { split; [destruct (cmem i DL) eqn:E; [exfalso; apply HiD, cmem_In, E|reflexivity]|]. split; [apply cmem_In, HjP|exact Hxp]. }
      assert (Hbp : (0 < b)%Q).
      { apply (PB (fun b0 (H : None = Some b0) => ltac:(discriminate))); [|exact Eb].
        intros [[i1 j1] x1] _ (_ & _ & Hx1). cbn [fst snd].
        pose proof (bi_nonneg _ _ _ _ I i1 j1) as Hs1. fold res in Hs1. pose proof (inj_le 0 _ Hs1) as Hs1'. change (inject_Z 0) with 0%Q in Hs1'.
        apply Qlt_shift_div_l; [exact Hx1|]. unfold signpost. lra. }
      pose proof (Gbeta b Eb) as Hge.
      assert (H1 : (0 < 1 / b)%Q) by (apply Qlt_shift_div_l; [exact Hbp|lra]). lra.
  Qed.

  Variable tgt : list (C * Z).
  Variable dorder : list C.
  Hypothesis Hdo : NoDup dorder.
  Hypothesis Hdo1 : incl ds dorder.
  Hypothesis Hdo2 : incl dorder ds.
  Notation under_of s := (fst (unsat dorder (b_res s) tgt)).
  Notation over_of s := (snd (unsat dorder (b_res s) tgt)).
  Definition supv (i j : C) : bool := 0 <? mget votes i j.
  Definition rt (i : C) : Z := dget_or tgt i 0.
  Definition cp (j : C) : Z := dget_or pseats j 0.

  Lemma bstep_refused s a : bstep q votes tgt dorder s = Stop (BP_refused a) ->
    (under_of s <> [] \/ over_of s <> []) /\
    exists LD LP, labeled q ps ds (quots s) (b_res s) (under_of s) (over_of s) = Lab LD LP /\
      sort_pos (filter (fun i => dmem LD i) (under_of s)) = [] /\
      adj_coef q (quots s) (b_res s) (map fst LD) (map fst LP) = Adj a /\
      Qeq_bool a 0 || Qle_bool 1 a = true.
  Proof.
    unfold bstep. cbv zeta. intros H.
    assert (Hb : bstep_body q votes s (under_of s) (over_of s) = Stop (BP_refused a) /\ (under_of s <> [] \/ over_of s <> [])).
    { destruct (under_of s) as [|u0 ul]; [destruct (over_of s) as [|o0 ol]; [discriminate|]|]; (split; [exact H|]); [right|left]; discriminate. }
    destruct Hb as [Hb Hne]. split; [exact Hne|]. unfold bstep_body in Hb.
    destruct (labeled q ps ds (quots s) (b_res s) (under_of s) (over_of s)) as [LD LP| |]; try discriminate.
    exists LD, LP. split; [reflexivity|].
    destruct (sort_pos (filter (fun i => dmem LD i) (under_of s))) as [|start rest].
    - split; [reflexivity|]. destruct (adj_coef q (quots s) (b_res s) (map fst LD) (map fst LP)) as [a0|]; [|discriminate].
      destruct (Qeq_bool a0 0 || Qle_bool 1 a0) eqn:Ec; [|discriminate]. injection Hb as <-. split; [reflexivity|exact Ec].
    - exfalso. destruct (walk (S (length LD)) LD LP (over_of s) start [] []) as [hops| |]; try discriminate.
      destruct (augment (b_res s) start hops); discriminate.
  Qed.

  (* 3. the refusal is justified *)
  Theorem step_refused_infeasible s a : BInv q votes pseats s -> bstep q votes tgt dorder s = Stop (BP_refused a) ->
    forall M, ~ matrix_spec ds ps supv rt cp M.
  Proof.
    intros I H M HM. destruct (bstep_refused s a H) as (Hne & LD & LP & El & Hnu & Ha & Hc).
    assert (Hov : NoDup (over_of s)) by (unfold unsat; cbn [snd]; apply NoDup_filter, Hdo).
    pose proof (coef_lt_1 s _ _ LD LP a I Hov El Hnu Ha) as Hlt.
    assert (Hz : (a <= 0)%Q).
    { apply orb_true_iff in Hc. destruct Hc as [Hc|Hc]; [apply Qeq_bool_iff in Hc; lra|apply Qle_bool_iff in Hc; lra]. }
    destruct (coef_zero_shape s _ _ a I Ha Hz) as [Z1 Z2].
    destruct (labeled_spec q votes _ _ _ _ _ _ Hov El) as [LI _].
    set (DL := map fst LD) in *. set (PL := map fst LP) in *.
    assert (HovDL : forall i, In i (over_of s) -> In i DL).
    { intros i Hi. destruct (li_prefix _ _ _ _ _ _ _ _ LI) as (addD & E & _). unfold DL. rewrite E, map_app, LD0_keys. apply in_or_app. left. exact Hi. }
    pose proof (bi_wf _ _ _ _ I) as W.
    assert (Hcur : forall i, cur_seats (b_res s) i = rowsum (b_res s) ps i) by (intros i; apply (cur_seats_rowsum votes (b_res s) i W)).
    (* labelled districts are not under-represented *)
    assert (N1 : forall i, In i ds -> In i DL -> rt i <= rowsum (b_res s) ps i).
    { intros i Hi HiD. rewrite <- Hcur. apply sort_pos_nil in Hnu.
      destruct (Z_lt_le_dec (cur_seats (b_res s) i) (rt i)) as [Hl|Hl]; [exfalso|exact Hl].
      assert (Hu : In i (under_of s)) by (unfold unsat; cbn [fst]; apply filter_In; split; [apply Hdo1, Hi|apply Z.ltb_lt, Hl]).
      pose proof (filter_nil _ _ Hnu i Hu) as Hf. cbv beta in Hf. apply dmem_keys in HiD. congruence. }
    destruct HM as (M1 & M2 & M3).
    pose proof (totals_agree ds ps supv rt cp M (conj M1 (conj M2 M3))) as Htot.
    assert (Hres_tot : zsum (map (fun i => rowsum (b_res s) ps i) ds) = zsum (map cp ps)).
    { rewrite <- (zsum_map_ext (fun j => colsum (b_res s) ds j) cp ps (fun j Hj => bi_cols _ _ _ _ I j Hj)).
      unfold rowsum, colsum. apply (zsum_swap (fun i j => mget (b_res s) i j)). }
    (* an over-represented district *)
    assert (Hi0 : exists i0, In i0 dorder /\ In i0 DL /\ rt i0 < rowsum (b_res s) ps i0).
    { destruct (over_of s) as [|o ol] eqn:Eo.
      - exfalso. destruct Hne as [Hne|Hne]; [|apply Hne; reflexivity].
        destruct (under_of s) as [|u ul] eqn:Eu; [apply Hne; reflexivity|].
        assert (Hu : In u (fst (unsat dorder (b_res s) tgt))) by (rewrite Eu; left; reflexivity).
        unfold unsat in Hu. cbn [fst] in Hu. apply filter_In in Hu. destruct Hu as [Hud Hul]. apply Z.ltb_lt in Hul. rewrite Hcur in Hul.
        assert (Hall : forall i, In i ds -> rowsum (b_res s) ps i <= rt i).
        { intros i Hi. unfold unsat in Eo. cbn [snd] in Eo.
          pose proof (filter_nil _ _ Eo i (Hdo1 i Hi)) as Hf'. cbv beta in Hf'. apply Z.ltb_ge in Hf'. rewrite Hcur in Hf'. exact Hf'. }
        pose proof (zsum_map_lt (fun i => rowsum (b_res s) ps i) rt ds u Hall (Hdo2 u Hud) Hul). lia.
      - assert (Ho : In o (snd (unsat dorder (b_res s) tgt))) by (rewrite Eo; left; reflexivity).
        exists o. pose proof Ho as Ho'. unfold unsat in Ho. cbn [snd] in Ho. apply filter_In in Ho. destruct Ho as [H1 H2]. apply Z.ltb_lt in H2. rewrite Hcur in H2.
        split; [exact H1|]. split; [|exact H2]. apply HovDL. left. reflexivity. }
    destruct Hi0 as (i0 & Hi0d & Hi0D & Hi0lt).
    set (DLf := filter (fun i => cmem i DL) ds). set (PLf := filter (fun j => cmem j PL) ps).
    assert (HDLf : forall i, In i DLf -> In i ds /\ In i DL) by (intros i Hi; apply filter_In in Hi; destruct Hi as [H1 H2]; split; [exact H1|apply cmem_In, H2]).
    assert (HPLf : forall j, In j PLf -> In j ps /\ In j PL) by (intros j Hj; apply filter_In in Hj; destruct Hj as [H1 H2]; split; [exact H1|apply cmem_In, H2]).
    (* the seats of the labelled parties are exactly the seats the labelled districts hold *)
    assert (A1 : zsum (map cp PLf) = zsum (map (fun i => rowsum (b_res s) ps i) DLf)).
    { rewrite <- (zsum_map_ext (fun j => colsum (b_res s) ds j) cp PLf) by (intros j Hj; apply (bi_cols _ _ _ _ I j), (HPLf j Hj)).
      rewrite (zsum_map_ext (fun j => colsum (b_res s) ds j) (fun j => zsum (map (fun i => mget (b_res s) i j) DLf)) PLf).
      - rewrite (zsum_swap (fun j i => mget (b_res s) i j) PLf DLf). apply zsum_map_ext. intros i Hi. unfold rowsum, PLf.
        apply zsum_filter_eq. intros j Hj Hf. destruct (HDLf i Hi) as [H1 H2]. apply (Z1 i j H1 Hj H2).
        intros Hin. apply cmem_In in Hin. congruence.
      - intros j Hj. unfold colsum, DLf. symmetry. apply zsum_filter_eq. intros i Hi Hf. destruct (HPLf j Hj) as [H1 H2].
        apply (bi_zero _ _ _ _ I i j). apply (Z2 i j Hi H1); [|exact H2]. intros Hin. apply cmem_In in Hin. congruence. }
    (* ... more than these districts are due *)
    assert (A2 : zsum (map rt DLf) < zsum (map (fun i => rowsum (b_res s) ps i) DLf)).
    { apply (zsum_map_lt rt (fun i => rowsum (b_res s) ps i) DLf i0).
      - intros i Hi. destruct (HDLf i Hi) as [H1 H2]. apply (N1 i H1 H2).
      - unfold DLf. apply filter_In. split; [apply Hdo2, Hi0d|apply cmem_In, Hi0D].
      - exact Hi0lt. }
    (* ... while in M they fit into the rows of the labelled districts *)
    assert (A3 : zsum (map cp PLf) <= zsum (map rt DLf)).
    { rewrite <- (zsum_map_ext (fun j => colsum M ds j) cp PLf) by (intros j Hj; apply M2, (HPLf j Hj)).
      rewrite (zsum_map_ext (fun j => colsum M ds j) (fun j => zsum (map (fun i => mget M i j) DLf)) PLf).
      - rewrite (zsum_swap (fun j i => mget M i j) PLf DLf).
        rewrite <- (zsum_map_ext (fun i => rowsum M ps i) rt DLf) by (intros i Hi; apply M1, (HDLf i Hi)).
        apply zsum_map_le. intros i Hi. unfold rowsum, PLf. apply zsum_filter_le. intros j Hj. apply (M3 i j (proj1 (HDLf i Hi)) Hj).
      - intros j Hj. unfold colsum, DLf. symmetry. apply zsum_filter_eq. intros i Hi Hf. destruct (HPLf j Hj) as [H1 H2].
        apply (M3 i j Hi H1). unfold supv. apply Z.ltb_ge. rewrite (Z2 i j Hi H1); [lia| |exact H2].
        intros Hin. apply cmem_In in Hin. congruence. }
    lia.
  Qed.

  (* the loop refuses only from a state that satisfies the invariant *)
  Lemma bloop_refused : forall fuel s a, BInv q votes pseats s -> bloop q votes tgt dorder fuel s = BP_refused a ->
    exists s', BInv q votes pseats s' /\ bstep q votes tgt dorder s' = Stop (BP_refused a).
  Proof.
    induction fuel as [|f IH]; intros s a I H; simpl in H; [discriminate|].
    pose proof (bstep_inv q Hq0 Hq1 votes Hwf pseats tgt dorder s I) as I'.
    destruct (bstep q votes tgt dorder s) as [|s'|r] eqn:Es; [discriminate|apply (IH s' a I' H)|].
    subst r. exists s. split; [exact I|exact Es].
  Qed.

  Theorem bloop_refused_infeasible fuel s a : BInv q votes pseats s -> bloop q votes tgt dorder fuel s = BP_refused a ->
    forall M, ~ matrix_spec ds ps supv rt cp M.
  Proof.
    intros I H. destruct (bloop_refused fuel s a I H) as (s' & I' & Hs). apply (step_refused_infeasible s' a I' Hs).
  Qed.
End Refusal.

(* ------------------------------------------------------------------ the whole evaluate *)
Lemma spec_matrix d votes dseats pseats res : (forall i j, 0 <= mget votes i j) ->
  biprop_spec d (districts votes) (parties votes) votes dseats pseats res ->
  matrix_spec (districts votes) (parties votes) (supv votes) (rt dseats) (cp pseats) res.
Proof.
  intros Hv (rho & gamma & S). split; [|split].
  - intros i Hi. apply (sp_rows _ _ _ _ _ _ _ _ _ S i Hi).
  - intros j Hj. apply (sp_cols _ _ _ _ _ _ _ _ _ S j Hj).
  - intros i j _ _. split; [apply (sp_nonneg _ _ _ _ _ _ _ _ _ S)|].
    unfold supv. intros H. apply Z.ltb_ge in H. apply (sp_zero _ _ _ _ _ _ _ _ _ S). pose proof (Hv i j). lia.
Qed.

Section WholeRefusal.
  Variable d : Z -> Q.
  Variables q k : Q.
  Hypothesis Hq0 : (0 <= q)%Q.
  Hypothesis Hq1 : (q < 1)%Q.
  Hypothesis Hq : (q == 0 \/ q == 1 # 2)%Q.
  Hypothesis Hk : (0 < k)%Q.
  Hypothesis Hd : forall s, (d s == k * (inject_Z s + 1 - q))%Q.
  Variable votes : mat.
  Hypothesis Hwf : wf_votes votes.
  Hypothesis Hvnn : forall i j, 0 <= mget votes i j.
  Variable n : Z.
  Hypothesis Hn : 0 <= n.
  Variable dorder : list C.
  Hypothesis Hdo : NoDup dorder.
  Hypothesis Hdo1 : incl (districts votes) dorder.
  Hypothesis Hdo2 : incl dorder (districts votes).

  Theorem evaluate_core_refused strict tgt fuel a : strict = true \/ (exists i j, 0 < mget votes i j) ->
    evaluate_core d q votes tgt dorder strict n fuel = BP_refused a ->
    exists pseats, ha_marginal d (party_totals votes) n = Some pseats /\
      forall M, ~ matrix_spec (districts votes) (parties votes) (supv votes) (rt tgt) (cp pseats) M.
  Proof.
    intros Hs. unfold evaluate_core. destruct (refuses_empty votes strict) eqn:Er; [discriminate|].
    pose proof (not_refused_some votes Hwf Hvnn strict Hs Er) as Hsome.
    destruct (binit d q votes n) as [e|s] eqn:Ei; [intros ->; unfold binit in Ei; destruct (initial_solution d votes n); discriminate|].
    intros H. destruct (binit_inv d q k Hq0 Hq1 Hk Hd votes Hwf Hvnn Hsome n Hn s Ei) as (pseats & Ep & I).
    exists pseats. split; [unfold ha_marginal; rewrite Ep; reflexivity|].
    apply (bloop_refused_infeasible q Hq0 Hq1 Hq votes Hwf Hvnn pseats tgt dorder Hdo Hdo1 Hdo2 fuel s a I H).
  Qed.

  Theorem evaluate_total_refused strict fuel a : strict = true \/ (exists i j, 0 < mget votes i j) ->
    evaluate_total d q votes strict n dorder fuel = BP_refused a ->
    exists pseats dseats, ha_marginal d (party_totals votes) n = Some pseats /\
      ha_marginal d (district_totals votes) n = Some dseats /\
      forall M, ~ matrix_spec (districts votes) (parties votes) (supv votes) (rt dseats) (cp pseats) M.
  Proof.
    intros Hs. unfold evaluate_total. destruct (refuses_empty votes strict) eqn:Er; [discriminate|].
    destruct (binit d q votes n) as [e|s] eqn:Ei; [intros ->; unfold binit in Ei; destruct (initial_solution d votes n); discriminate|].
    destruct (evaluate d (district_totals votes) n [] []) as [tgt [t|]|] eqn:Et; try discriminate.
    intros H. destruct (evaluate_core_refused strict tgt fuel a Hs H) as (pseats & Hp & Hinf).
    exists pseats, tgt. split; [exact Hp|]. split; [unfold ha_marginal; rewrite Et; reflexivity|exact Hinf].
  Qed.
End WholeRefusal.

(* ------------------------------------------------------------------ _adj_coef never divides by zero from a state satisfying the invariant *)
Section NoZeroDiv.
  Variable q : Q.
  Variable res : mat.
  Variables DL PL : list C.
  Notation step := (scan_cell q res DL PL).

  Lemma step_zerodiv st cell : sc_zerodiv (step st cell) = true ->
    sc_zerodiv st = true \/ (condA q res DL PL cell /\ (snd cell == 0)%Q).
  Proof.
    destruct cell as [[i j] x]. unfold scan_cell, condA. cbn [fst snd].
    destruct (sc_zerodiv st) eqn:Ez; [auto|].
    destruct (cmem i DL) eqn:Ei, (cmem j PL) eqn:Ej; cbn [eqb negb andb]; try (intros H; rewrite Ez in H; discriminate).
    - destruct (Qpos_b (signpost q (mget res i j))) eqn:Es; [|intros H; rewrite Ez in H; discriminate].
      destruct (Qeq_bool x 0) eqn:Ex.
      + intros _. right. split; [split; [reflexivity|split; [reflexivity|apply Qpos_b_iff, Es]]|apply Qeq_bool_iff, Ex].
      + destruct (Qpos_b (signpost q (mget res i j) / x - sc_alpha st)); cbn [sc_zerodiv]; intros H; [discriminate|rewrite Ez in H; discriminate].
    - destruct (Qpos_b x); [|intros H; rewrite Ez in H; discriminate].
      destruct (sc_beta st) as [b0|]; [destruct (Qpos_b (b0 - (signpost q (mget res i j) + 1) / x))|]; cbn [sc_zerodiv]; intros H;
        try discriminate; rewrite Ez in H; discriminate.
  Qed.
  Lemma scan_zerodiv : forall cells st, sc_zerodiv (fold_left step cells st) = true ->
    sc_zerodiv st = true \/ exists cell, In cell cells /\ condA q res DL PL cell /\ (snd cell == 0)%Q.
  Proof.
    induction cells as [|cell cells IH]; intros st H; simpl in H; [auto|].
    destruct (IH _ H) as [H1|(c & Hc & H1)]; [|right; exists c; split; [right; exact Hc|exact H1]].
    destruct (step_zerodiv st cell H1) as [H2|H2]; [auto|]. right. exists cell. split; [left; reflexivity|exact H2].
  Qed.
End NoZeroDiv.

Lemma adj_no_zerodiv q votes pseats s DL PL : wf_votes votes -> BInv q votes pseats s ->
  adj_coef q (calc_quots votes (b_rho s) (b_gamma s)) (b_res s) DL PL <> AdjZeroDivision.
Proof.
  intros Hwf I. unfold adj_coef.
  destruct (sc_zerodiv (fold_left (scan_cell q (b_res s) DL PL) (cells_of (calc_quots votes (b_rho s) (b_gamma s))) (mk_scan 0 None false))) eqn:Ez.
  - exfalso. destruct (scan_zerodiv q (b_res s) DL PL _ _ Ez) as [H|([[i j] x] & Hc & (_ & _ & Hsg) & Hx)]; [discriminate|].
    destruct (cells_of_quots votes _ _ _ Hwf Hc) as (Hi & Hj & Ex). cbn [fst snd] in *.
    pose proof (bi_cells _ _ _ _ I i j Hi Hj) as (_ & W1 & _). rewrite <- Ex in W1. lra.
  - destruct (sc_beta _); discriminate.
Qed.

Lemma bstep_no_zerodiv q votes pseats tgt dorder s : wf_votes votes -> BInv q votes pseats s ->
  bstep q votes tgt dorder s <> Stop BP_zero_division.
Proof.
  intros Hwf I. unfold bstep. cbv zeta.
  assert (Hb : forall under over, bstep_body q votes s under over <> Stop BP_zero_division).
  { intros under over. unfold bstep_body.
    destruct (labeled q (parties votes) (districts votes) _ (b_res s) under over) as [LD LP| |]; try discriminate.
    destruct (sort_pos (filter (fun i => dmem LD i) under)) as [|start rest].
    - pose proof (adj_no_zerodiv q votes pseats s (map fst LD) (map fst LP) Hwf I) as Hn.
      destruct (adj_coef q _ (b_res s) (map fst LD) (map fst LP)) as [a|]; [|congruence].
      destruct (Qeq_bool a 0 || Qle_bool 1 a); discriminate.
    - destruct (walk (S (length LD)) LD LP over start [] []) as [hops| |]; try discriminate.
      destruct (augment (b_res s) start hops); discriminate. }
  destruct (fst (unsat dorder (b_res s) tgt)); [destruct (snd (unsat dorder (b_res s) tgt)); [discriminate|]|]; apply Hb.
Qed.

Lemma bloop_no_zerodiv q votes pseats tgt dorder : (0 <= q)%Q -> (q < 1)%Q -> wf_votes votes ->
  forall fuel s, BInv q votes pseats s -> bloop q votes tgt dorder fuel s <> BP_zero_division.
Proof.
  intros Hq0 Hq1 Hwf. induction fuel as [|f IH]; intros s I; simpl; [discriminate|].
  pose proof (bstep_inv q Hq0 Hq1 votes Hwf pseats tgt dorder s I) as I'.
  pose proof (bstep_no_zerodiv q votes pseats tgt dorder s Hwf I) as Hn.
  destruct (bstep q votes tgt dorder s) as [|s'|r]; [discriminate|apply (IH s' I')|congruence].
Qed.

Lemma evaluate_core_no_zerodiv d q k votes tgt dorder strict n fuel :
  (0 <= q)%Q -> (q < 1)%Q -> (0 < k)%Q -> (forall s, d s == k * (inject_Z s + 1 - q))%Q ->
  wf_votes votes -> (forall i j, 0 <= mget votes i j) -> 0 <= n ->
  strict = true \/ (exists i j, 0 < mget votes i j) ->
  evaluate_core d q votes tgt dorder strict n fuel <> BP_zero_division.
Proof.
  intros Hq0 Hq1 Hk Hd Hwf Hv Hn Hs. unfold evaluate_core. destruct (refuses_empty votes strict) eqn:Er; [discriminate|].
  pose proof (not_refused_some votes Hwf Hv strict Hs Er) as Hsome.
  destruct (binit d q votes n) as [e|s] eqn:Ei; [unfold binit in Ei; destruct (initial_solution d votes n); try discriminate; injection Ei as <-; discriminate|].
  destruct (binit_inv d q k Hq0 Hq1 Hk Hd votes Hwf Hv Hsome n Hn s Ei) as (pseats & _ & I).
  apply (bloop_no_zerodiv q votes pseats tgt dorder Hq0 Hq1 Hwf fuel s I).
Qed.
