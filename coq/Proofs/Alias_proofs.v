(* Lemmas for Props/C18.v, part 2: frame properties of the copy-before-modify sites (Model/Alias.v):
   after copying as many levels as are later modified, no store location is written. *)
From Coq Require Import ZArith List Bool Arith Lia.
From VL Require Import Prelude.Sx Prelude.PyDict Model.Alias.
Import ListNotations.
Open Scope nat_scope.

(* [own_to d t]: the first d levels of dictionaries of t are callee-owned objects *)
Fixpoint own_to (d : nat) (t : wt) : Prop :=
  match d with
  | O => True
  | S d' => match t with
            | WInt _ => True
            | WOwn kids => Forall (fun kv => own_to d' (snd kv)) kids
            | WAlias _ => False
            end
  end.

Lemma own_to_int : forall d z, own_to d (WInt z).
Proof. destruct d; simpl; exact (fun _ => I). Qed.
Lemma own_to_empty : forall d, own_to d (WOwn []).
Proof. destruct d; simpl; [exact I|constructor]. Qed.

(* ---------------------------------------------------------------- dictionary helpers *)
Lemma dget_In : forall {X} (d : list (C * X)) k v, dget d k = Some v -> exists k', In (k', v) d.
Proof.
  induction d as [|[k' v'] d IH]; intros k v H; simpl in H; [discriminate|].
  destruct (ceqb k k').
  - inversion H; subst. exists k'. left. reflexivity.
  - destruct (IH _ _ H) as [k2 Hin]. exists k2. right. exact Hin.
Qed.

Lemma Forall_dset : forall {X} (P : X -> Prop) (d : list (C * X)) k v,
  Forall (fun kv => P (snd kv)) d -> P v -> Forall (fun kv => P (snd kv)) (dset d k v).
Proof.
  induction d as [|[k' v'] d IH]; intros k v Hd Hv; simpl.
  - constructor; [exact Hv|constructor].
  - inversion Hd as [|? ? Hh Ht]; subst. destruct (ceqb k k').
    + constructor; [exact Hv|exact Ht].
    + constructor; [exact Hh|apply IH; assumption].
Qed.

Lemma Forall_ddel : forall {X} (P : C * X -> Prop) (d : list (C * X)) k, Forall P d -> Forall P (ddel d k).
Proof.
  intros X P d k H. unfold ddel. apply Forall_forall. intros x Hx. apply filter_In in Hx.
  destruct Hx as [Hx _]. rewrite Forall_forall in H. apply H. exact Hx.
Qed.

Lemma own_child : forall d kids k ch, Forall (fun kv => own_to d (snd kv)) kids -> dget kids k = Some ch -> own_to d ch.
Proof.
  intros d kids k ch HF Hg. destruct (dget_In _ _ _ Hg) as [k' Hin].
  rewrite Forall_forall in HF. exact (HF _ Hin).
Qed.

(* ---------------------------------------------------------------- folds in the outcome monad *)
Lemma foldo_inv : forall {X S} (f : S -> X -> outcome S) (P : S -> Prop),
  (forall s x s', P s -> f s x = Ok s' -> P s') ->
  forall l s s', P s -> foldo f l s = Ok s' -> P s'.
Proof.
  intros X S f P Hf. induction l as [|x l IH]; intros s s' Hs H; simpl in H.
  - inversion H; subst. exact Hs.
  - destruct (f s x) as [s1|c] eqn:E; [|discriminate]. apply (IH s1); [|exact H]. eapply Hf; eassumption.
Qed.

Lemma map_out_Forall : forall {X Y} (f : X -> outcome Y) (P : Y -> Prop) (l : list X) (r : list Y),
  (forall x y, f x = Ok y -> P y) -> map_out f l = Ok r -> Forall P r.
Proof.
  intros X Y f P. induction l as [|x l IH]; intros r Hf H; simpl in H.
  - inversion H. constructor.
  - destruct (f x) as [y|c] eqn:E; [|discriminate].
    destruct (map_out f l) as [ys|c] eqn:E2; [|discriminate].
    inversion H; subst. constructor; [eapply Hf; exact E|apply IH; [exact Hf|reflexivity]].
Qed.

(* ---------------------------------------------------------------- copying establishes ownership *)
Lemma copy_nested_own : forall levels st v t, copy_nested levels st v = Ok t -> own_to levels t.
Proof.
  induction levels as [|d IH]; intros st v t H; simpl in *; [exact I|].
  destruct v as [z|l]; [discriminate|].
  destruct (sget st l) as [dct|]; [|discriminate].
  destruct (map_out _ dct) as [kids|c] eqn:E; [|discriminate].
  inversion H; subst. simpl.
  eapply map_out_Forall; [|exact E].
  intros [k sv] [k' t'] Hx. simpl in Hx.
  destruct (copy_nested d st sv) as [t2|c] eqn:E2; [|discriminate].
  inversion Hx; subst. simpl. eapply IH. exact E2.
Qed.

(* ---------------------------------------------------------------- operations on owned trees *)
Lemma apply_op_own : forall d st t o st' t',
  own_to (S d) t -> apply_op st t o = Ok (st', t') -> st' = st /\ own_to (S d) t'.
Proof.
  intros d st t o st' t' Hown H. destruct t as [z|kids|l]; simpl in *; [discriminate| |contradiction].
  destruct o as [k z|k z|k|k].
  - inversion H; subst. split; [reflexivity|]. simpl. apply Forall_dset; [exact Hown|apply own_to_int].
  - destruct (dget kids k) as [[a|kk|ll]|] eqn:E; try discriminate;
      inversion H; subst; (split; [reflexivity|]); simpl; (apply Forall_dset; [exact Hown|apply own_to_int]).
  - destruct (dmem kids k); [|discriminate]. inversion H; subst. split; [reflexivity|].
    simpl. apply Forall_ddel. exact Hown.
  - destruct (dmem kids k); inversion H; subst; (split; [reflexivity|]); simpl; [exact Hown|].
    apply Forall_dset; [exact Hown|apply own_to_empty].
Qed.

Lemma exec_at_own : forall path D st t o st' t',
  length path < D -> own_to D t -> exec_at path st t o = Ok (st', t') -> st' = st /\ own_to D t'.
Proof.
  induction path as [|k p IH]; intros D st t o st' t' Hlen Hown H.
  - destruct D as [|D]; [simpl in Hlen; lia|]. simpl in H. eapply apply_op_own; eassumption.
  - destruct D as [|D]; [simpl in Hlen; lia|]. simpl in Hlen.
    destruct t as [z|kids|l]; simpl in H; [discriminate| |simpl in Hown; contradiction].
    destruct (dget kids k) as [child|] eqn:Eg; [|discriminate].
    destruct (exec_at p st child o) as [[st1 child']|c] eqn:Ee; [|discriminate].
    inversion H; subst. simpl in Hown.
    assert (Hc : own_to D child) by (eapply own_child; eassumption).
    destruct (IH D st child o st' child' ltac:(lia) Hc Ee) as [Hst Hc'].
    split; [exact Hst|]. simpl. apply Forall_dset; assumption.
Qed.

Lemma exec_muts_own : forall D ms st t st' t',
  Forall (fun m => length (fst m) < D) ms -> own_to D t ->
  exec_muts st t ms = Ok (st', t') -> st' = st /\ own_to D t'.
Proof.
  intros D ms st t st' t' Hms Hown H. unfold exec_muts in H.
  revert st t st' t' Hown H. induction ms as [|m ms IH]; intros st t st' t' Hown H; simpl in H.
  - inversion H; subst. split; [reflexivity|exact Hown].
  - inversion Hms as [|? ? Hm Hrest]; subst.
    destruct (exec_at (fst m) st t (snd m)) as [[st1 t1]|c] eqn:E; [|discriminate]. simpl in H.
    destruct (exec_at_own _ _ _ _ _ _ _ Hm Hown E) as [Hst1 Hown1]. subst st1.
    exact (IH Hrest st t1 st' t' Hown1 H).
Qed.

(* the generic copy-before-modify frame: copy n levels, modify at depth <= n: store untouched *)
Lemma copy_then_mutate_frame : forall levels st arg plan st' t',
  (forall t, Forall (fun m => length (fst m) < levels) (plan t)) ->
  copy_then_mutate levels st arg plan = Ok (st', t') -> st' = st.
Proof.
  intros levels st arg plan st' t' Hplan H. unfold copy_then_mutate, bind in H.
  destruct (copy_nested levels st (VRef arg)) as [t|c] eqn:E; [|discriminate].
  apply copy_nested_own in E.
  exact (proj1 (exec_muts_own levels (plan t) st t st' t' (Hplan t) E H)).
Qed.

(* ---------------------------------------------------------------- the sites *)
Lemma ha_site_frame : forall st prev awards st' t', ha_site st prev awards = Ok (st', t') -> st' = st.
Proof.
  intros st prev awards st' t'. unfold ha_site. apply copy_then_mutate_frame.
  intros _. apply Forall_forall. intros m Hm. apply in_map_iff in Hm. destruct Hm as [c [Hc _]]. subst. simpl. lia.
Qed.

Lemma tb_site_frame : forall st mr broken st' t', tb_site st mr broken = Ok (st', t') -> st' = st.
Proof.
  intros st mr broken st' t'. unfold tb_site. apply copy_then_mutate_frame.
  intros _. apply Forall_forall. intros m Hm. apply in_flat_map in Hm. destruct Hm as [tb [_ Hm]].
  destruct Hm as [Hm|Hm]; [subst; simpl; lia|].
  apply in_map_iff in Hm. destruct Hm as [c [Hc _]]. subst. simpl. lia.
Qed.

Lemma ive_site_frame : forall st votes to_remove st' t', ive_site st votes to_remove = Ok (st', t') -> st' = st.
Proof.
  intros st votes to_remove st' t'. unfold ive_site. destruct to_remove as [|v r].
  - intros H. inversion H. reflexivity.
  - apply copy_then_mutate_frame. intros _. apply Forall_forall. intros m Hm.
    apply in_map_iff in Hm. destruct Hm as [c [Hc _]]. subst. simpl. lia.
Qed.

Lemma subtract_site_frame : forall st alloc edits st' t', subtract_site st alloc edits = Ok (st', t') -> st' = st.
Proof.
  intros st alloc edits st' t'. unfold subtract_site. apply copy_then_mutate_frame.
  intros _. apply Forall_forall. intros m Hm. apply in_map_iff in Hm. destruct Hm as [[c e] [Hc _]]. subst.
  destruct e; simpl; lia.
Qed.

Lemma transfer_site_frame : forall st alloc moves removed st' t',
  transfer_site st alloc moves removed = Ok (st', t') -> st' = st.
Proof.
  intros st alloc moves removed st' t'. unfold transfer_site. apply copy_then_mutate_frame.
  intros _. apply Forall_forall. intros m Hm. apply in_app_or in Hm. destruct Hm as [Hm|Hm].
  - apply in_flat_map in Hm. destruct Hm as [[[tg b] n] [_ Hm]]. simpl in Hm.
    destruct Hm as [Hm|[Hm|[]]]; subst; simpl; lia.
  - apply in_map_iff in Hm. destruct Hm as [c [Hc _]]. subst. simpl. lia.
Qed.

(* ---------------------------------------------------------------- MultistageDistributor *)
Section MS.
  Variable korder : list C -> list C -> list C.

  Lemma add_stage_own : forall d st t r st' t',
    own_to (S d) t -> add_stage korder d st t r = Ok (st', t') -> st' = st /\ own_to (S d) t'.
  Proof.
    induction d as [|d IH]; intros st t r st' t' Hown H; simpl in H.
    - destruct r as [z|rk|l]; try discriminate.
      pose proof (foldo_inv
        (fun s kv => match snd kv with WInt z => apply_op (fst s) (snd s) (OAdd (fst kv) z) | _ => Crash E_TYPE end)
        (fun s => fst s = st /\ own_to 1 (snd s))) as Hinv.
      specialize (Hinv ltac:(
        intros [st1 t1] [k v] [st2 t2] [Hs Ho] Hf; simpl in *; subst;
        destruct v as [z|kk|ll]; try discriminate;
        destruct (apply_op_own 0 _ _ _ _ _ Ho Hf) as [A B]; split; assumption)).
      specialize (Hinv rk (st, t) (st', t') (conj eq_refl Hown) H). simpl in Hinv. exact Hinv.
    - destruct (keys_of st t) as [ke|]; [|discriminate].
      destruct r as [z|rk|l]; try discriminate.
      set (f := fun (s : store * wt) (k : C) =>
                  match apply_op (fst s) (snd s) (OSetDefault k) with
                  | Crash c => Crash c
                  | Ok (st1, t1) =>
                      match child_of st1 t1 k with
                      | None => Crash E_OTHER
                      | Some ch =>
                          match add_stage korder d st1 ch (match dget rk k with Some x => x | None => WOwn [] end) with
                          | Ok (st2, ch') => Ok (st2, put_child t1 k ch')
                          | Crash c => Crash c
                          end
                      end
                  end) in *.
      assert (Hstep : forall s k s', (fst s = st /\ own_to (S (S d)) (snd s)) -> f s k = Ok s' ->
                                     (fst s' = st /\ own_to (S (S d)) (snd s'))).
      { intros [st0 t0] k [st3 t3] [Hs Ho] Hf. cbn [fst snd] in Hs, Ho. subst st0. unfold f in Hf. cbn [fst snd] in Hf.
        destruct (apply_op st t0 (OSetDefault k)) as [[st1 t1]|c] eqn:Eop; [|discriminate].
        destruct (apply_op_own _ _ _ _ _ _ Ho Eop) as [Hst1 Ho1]. subst st1.
        destruct t1 as [z1|kids1|l1]; simpl in Hf; [discriminate| |simpl in Ho1; contradiction].
        destruct (dget kids1 k) as [ch|] eqn:Ech; [|discriminate].
        destruct (add_stage korder d st ch _) as [[st2 ch']|c] eqn:Eadd; [|discriminate].
        inversion Hf; subst.
        change (Forall (fun kv => own_to (S d) (snd kv)) kids1) in Ho1.
        assert (Hch : own_to (S d) ch) by (eapply own_child; eassumption).
        destruct (IH _ _ _ _ _ Hch Eadd) as [Hst2 Hch']. cbn [fst snd]. split; [exact Hst2|].
        change (Forall (fun kv => own_to (S d) (snd kv)) (dset kids1 k ch')).
        apply Forall_dset; assumption. }
      pose proof (foldo_inv f (fun s => fst s = st /\ own_to (S (S d)) (snd s)) Hstep
                            (korder ke (map fst rk)) (st, t) (st', t') (conj eq_refl Hown) H) as Hres.
      simpl in Hres. exact Hres.
  Qed.

  Variable stages : list (store -> wt -> wt).

  Lemma ms_repaired_frame : forall d st prev st' t',
    ms_evaluate korder stages true d st prev = Ok (st', t') -> st' = st.
  Proof.
    intros d st prev st' t' H. unfold ms_evaluate, bind in H.
    destruct (copy_nested (S d) st (VRef prev)) as [el|c] eqn:E; [|discriminate].
    apply copy_nested_own in E.
    pose proof (foldo_inv (fun s stage => add_stage korder d (fst s) (snd s) (stage (fst s) (snd s)))
                          (fun s => fst s = st /\ own_to (S d) (snd s))) as Hinv.
    specialize (Hinv ltac:(
      intros [st1 t1] stage [st2 t2] [Hs Ho] Hf; simpl in *; subst;
      exact (add_stage_own _ _ _ _ _ _ Ho Hf))).
    exact (proj1 (Hinv stages (st, el) (st', t') (conj eq_refl E) H)).
  Qed.

  (* the pinned shallow copy is enough for depth 1 (flat prev_gains) *)
  Lemma ms_pinned_flat_frame : forall st prev st' t',
    ms_evaluate korder stages false 0 st prev = Ok (st', t') -> st' = st.
  Proof. intros st prev st' t' H. exact (ms_repaired_frame 0 st prev st' t' H). Qed.
End MS.

Lemma uv_frame : forall korder rs mx d st prev st' t',
  uv_evaluate korder rs mx d st prev = Ok (st', t') -> st' = st.
Proof.
  intros korder rs mx d st prev st' t' H. unfold uv_evaluate, bind in H.
  destruct (copy_nested (S d) st (VRef prev)) as [el|c] eqn:E; [|discriminate].
  destruct mx; [discriminate|].
  apply copy_nested_own in E.
  pose proof (foldo_inv (fun s r => add_stage korder d (fst s) (snd s) r)
                        (fun s => fst s = st /\ own_to (S d) (snd s))) as Hinv.
  specialize (Hinv ltac:(
    intros [st1 t1] r [st2 t2] [Hs Ho] Hf; simpl in *; subst;
    exact (add_stage_own _ _ _ _ _ _ _ Ho Hf))).
  exact (proj1 (Hinv rs (st, el) (st', t') (conj eq_refl E) H)).
Qed.

(* pinned tree, depth 2: the caller's inner dictionary receives the stage result.
   store: 0 = {A: 1} (inner), 1 = {N: ref 0} (prev_gains); one stage returning {N: {A: 1, B: 1}} *)
Definition ms_witness_store : store := [[(1%positive, VInt 1)]; [(5%positive, VRef 0)]].
Definition ms_witness_stage : store -> wt -> wt :=
  fun _ _ => WOwn [(5%positive, WOwn [(1%positive, WInt 1); (2%positive, WInt 1)])].

Lemma ms_pinned_nested_mutates :
  exists st' t', ms_evaluate union_order [ms_witness_stage] false 1 ms_witness_store 1 = Ok (st', t')
                 /\ sget st' 0 = Some [(1%positive, VInt 2); (2%positive, VInt 1)]
                 /\ sget ms_witness_store 0 = Some [(1%positive, VInt 1)].
Proof. eexists. eexists. vm_compute. split; [reflexivity|split; reflexivity]. Qed.

(* the same call on the repaired code *)
Lemma ms_repaired_witness :
  exists t', ms_evaluate union_order [ms_witness_stage] true 1 ms_witness_store 1 = Ok (ms_witness_store, t')
             /\ read_tree 2 ms_witness_store t' = L [L [A 5%Z; L [L [A 1%Z; A 2%Z]; L [A 2%Z; A 1%Z]]]].
Proof. eexists. vm_compute. split; reflexivity. Qed.
