(* Characterisations of the primitives of Prelude/PyTie.v used by the ties of C16 (Props/GenTie_TieBreak.v,
   Props/GenTie_OpenlistEval.v): list.index and the sort by it are the model's [index_of] / [sort_by_list]; a fold over
   value-or-exception states only depends on the pointwise behaviour of its step. *)
From Coq Require Import ZArith QArith List Bool Lia Arith.
From VL Require Import Prelude.PyDict Prelude.PyNum Prelude.PyList Prelude.PySeq Prelude.PyTie Model.GetNBest Model.Threshold
     Proofs.PySeq_proofs Proofs.Threshold_proofs.
Import ListNotations.
Close Scope Q_scope.

(* ---- list.index and the sort by it *)
Lemma py_list_index_mem lst c : cmem c lst = true -> py_list_index lst c = Some (Z.of_nat (index_of c lst)).
Proof.
  induction lst as [|x t IH]; cbn [cmem py_list_index index_of]; [discriminate|].
  destruct (ceqb c x); cbn [orb]; [reflexivity|]. intros H. rewrite (IH H). cbn [option_map]. f_equal. lia.
Qed.
Lemma py_list_index_nomem lst c : cmem c lst = false -> py_list_index lst c = None.
Proof.
  induction lst as [|x t IH]; cbn [cmem py_list_index]; [reflexivity|].
  destruct (ceqb c x); cbn [orb]; [discriminate|]. intros H. rewrite (IH H). reflexivity.
Qed.

Lemma opt_all_index lst t :
  py_opt_all (map (fun x => option_map (fun k => (x, k)) (py_list_index lst x)) t) =
  if forallb (fun c => cmem c lst) t then Some (map (fun c => (c, Z.of_nat (index_of c lst))) t) else None.
Proof.
  induction t as [|c t IH]; cbn [map py_opt_all forallb]; [reflexivity|].
  destruct (cmem c lst) eqn:E; cbn [andb].
  - rewrite (py_list_index_mem _ _ E). cbn [option_map py_opt_all]. rewrite IH.
    destruct (forallb (fun c0 => cmem c0 lst) t); reflexivity.
  - rewrite (py_list_index_nomem _ _ E). reflexivity.
Qed.

Lemma Zleb_total a b : Z.leb a b = true \/ Z.leb b a = true.
Proof. destruct (Z.leb a b) eqn:E; [left; reflexivity|right; apply Z.leb_le; apply Z.leb_gt in E; lia]. Qed.
Lemma Zleb_trans a b c : Z.leb a b = true -> Z.leb b c = true -> Z.leb a c = true.
Proof. rewrite !Z.leb_le. lia. Qed.

Lemma insert_asc_lift {X} (x : X * nat) l :
  map (fun p => (fst p, Z.of_nat (snd p))) (insert_asc Nat.leb x l) =
  insert_asc Z.leb (fst x, Z.of_nat (snd x)) (map (fun p => (fst p, Z.of_nat (snd p))) l).
Proof.
  induction l as [|y t IH]; cbn [insert_asc map fst snd]; [reflexivity|].
  replace (Z.leb (Z.of_nat (snd x)) (Z.of_nat (snd y))) with (Nat.leb (snd x) (snd y))
    by (destruct (Nat.leb (snd x) (snd y)) eqn:E; symmetry; [apply Z.leb_le; apply Nat.leb_le in E; lia | apply Z.leb_gt; apply Nat.leb_gt in E; lia]).
  destruct (Nat.leb (snd x) (snd y)); cbn [map fst snd]; [reflexivity|]. rewrite IH. reflexivity.
Qed.
Lemma sort_asc_lift {X} (l : list (X * nat)) :
  map (fun p => (fst p, Z.of_nat (snd p))) (sort_asc Nat.leb l) = sort_asc Z.leb (map (fun p => (fst p, Z.of_nat (snd p))) l).
Proof. induction l as [|x t IH]; cbn [sort_asc map]; [reflexivity|]. rewrite insert_asc_lift, IH. reflexivity. Qed.

(* x.sort(key=lst.index) / sorted(x, key=lst.index): ValueError exactly when an item is missing from lst, else the model's order *)
Lemma py_sort_by_index_spec lst t :
  py_sort_optkey (py_list_index lst) Z.leb t false = if forallb (fun c => cmem c lst) t then Some (sort_by_list lst t) else None.
Proof.
  unfold py_sort_optkey. rewrite opt_all_index. destruct (forallb (fun c => cmem c lst) t); [|reflexivity].
  f_equal. rewrite (py_sorted_asc Z.leb Zleb_total Zleb_trans). unfold sort_by_list.
  replace (map (fun c => (c, Z.of_nat (index_of c lst))) t)
    with (map (fun p : C * nat => (fst p, Z.of_nat (snd p))) (map (fun c => (c, index_of c lst)) t))
    by (rewrite map_map; reflexivity).
  rewrite <- sort_asc_lift, map_map. reflexivity.
Qed.

Lemma fold_exn_ext {S A} (f g : S + pyexn -> A -> S + pyexn) l s :
  (forall sr it, f sr it = g sr it) -> fold_left f l s = fold_left g l s.
Proof. intros H. revert s. induction l as [|x t IH]; intros s; [reflexivity|]. cbn [fold_left]. rewrite H. apply IH. Qed.

