(* Smith efficiency (C05) of Schulze - ranked, as votelib does, by the NUMBER of path-wins -, of ranked pairs
   (all three pairwise scorers) and of Kemeny-Young, and "nobody dropped" for Copeland with second-order
   tie-breaking.  The Smith set is the one SmithSet computes, [smith_schwartz v true], proved in
   Proofs/Smith_proofs.v (C06) to be the smallest dominating set; only its dominance is needed here:
   every member beats every candidate outside.

   - Schulze: no chain of direct wins leads from outside the Smith set into it (its first crossing step would be a
     win of an outsider over a member), so by the soundness of the Floyd-Warshall table (any iteration order) the
     entry (outsider, member) is 0 while the entry (member, outsider) is at least the direct win: a member path-beats
     every outsider, an outsider path-beats outsiders only.  A member therefore has at least |outside| path-wins and
     an outsider at most |outside| - 1: the strict maximum of the path-win count lies in the Smith set.
   - ranked pairs: under each scorer the pair (member, outsider) is strictly stronger than its reverse, hence comes
     first; by induction along the list no pair (outsider, member) is ever locked (when its turn comes, its reverse
     was either locked - a path member -> outsider - or rejected because of a locked path outsider -> member,
     which would contain an earlier locked crossing pair).  The head of the ranking is locked over everybody else.
   - Kemeny-Young: in a best ranking headed by an outsider, moving the first member to the front gains votes.
   - Copeland: with as many seats as candidates get_n_best returns plain entries only, so the second-order
     branch is not taken and the first-order listing of all candidates is the answer. *)
From Coq Require Import ZArith List Bool Lia Arith Permutation Sorted.
From VL Require Import Prelude.PyDict Model.GetNBest Model.Condorcet Proofs.Dict_proofs Proofs.GetNBest_proofs
     Proofs.Condorcet_proofs Proofs.Smith_proofs Proofs.CopelandMono_proofs Proofs.SmithCopeland_proofs Proofs.Minimax_proofs
     Proofs.Schulze_proofs Proofs.Kemeny_proofs Proofs.RankedPairs_proofs.
Import ListNotations.
Open Scope Z_scope.

(* ================================================================ the Smith set as a dominating set *)
Section DOM.
  Variable v : pvotes.
  Hypothesis H2 : (2 <= length (candidates v))%nat.
  Notation cs := (candidates v).
  Notation D := (smith_schwartz v true).

  Lemma D_dom a b : In a D -> In b cs -> ~ In b D -> beats v a b.
  Proof. apply (smith_dominating v H2). Qed.

  Lemma D_cs x : In x D -> In x cs.
  Proof. apply (smith_subset v H2). Qed.

  Lemma D_member : exists a, In a D /\ In a cs.
  Proof.
    destruct (smith_dominating v H2) as [Hne _].
    assert (Hex : exists a, In a D) by (destruct D as [|a t] eqn:E; [congruence|exists a; left; reflexivity]).
    destruct Hex as (a & Ha). exists a. split; [exact Ha|apply D_cs, Ha].
  Qed.

  (* ---------------------------------------------------------------- Kemeny-Young *)
  Lemma split_first_member (l : list C) : (exists y, In y l /\ In y D) ->
    exists l1 y l2, l = l1 ++ y :: l2 /\ In y D /\ forall x, In x l1 -> ~ In x D.
  Proof.
    induction l as [|a l IH]; intros (y & Hy & HyD); [destruct Hy|].
    destruct (in_dec Pos.eq_dec a D) as [Ha|Ha].
    - exists [], a, l. split; [reflexivity|]. split; [exact Ha|intros x []].
    - destruct IH as (l1 & z & l2 & -> & Hz & Hl1).
      { destruct Hy as [->|Hy]; [contradiction|]. exists y. split; assumption. }
      exists (a :: l1), z, l2. split; [reflexivity|]. split; [exact Hz|].
      intros x [<-|Hx]; [exact Ha|apply Hl1, Hx].
  Qed.

  (* a best ranking is headed by a member: otherwise moving its first member to the front gains votes *)
  Lemma kemeny_max_head_smith w t : kemeny_max v (w :: t) -> In w D.
  Proof.
    intros (Hp & Hge). destruct (in_dec Pos.eq_dec w D) as [Hw|Hw]; [exact Hw|exfalso].
    destruct D_member as (a & HaD & Hac).
    destruct (split_first_member (w :: t)) as (l1 & y & l2 & E & HyD & Hl1).
    { exists a. split; [apply (Permutation_in a (Permutation_sym Hp)), Hac|exact HaD]. }
    destruct l1 as [|b l1]; [simpl in E; injection E as E1 E2; subst; contradiction|].
    set (q := y :: (b :: l1) ++ l2).
    assert (Hq : Permutation q cs).
    { apply Permutation_trans with (2 := Hp). rewrite E. apply Permutation_cons_app. apply Permutation_refl. }
    specialize (Hge q Hq). unfold q in Hge. rewrite score_move_front, <- E in Hge.
    assert (0 < gain v y (b :: l1)); [|lia].
    apply gain_pos; [discriminate|]. intros x Hx. apply D_dom; [exact HyD| |apply Hl1, Hx].
    apply (Permutation_in x Hp). rewrite E. apply in_or_app. left. exact Hx.
  Qed.

  Theorem kemeny_in_smith w : kemeny v 1 = CR_ok [Cand w] -> In w D.
  Proof.
    intros H. destruct (kemeny_defining v 1 _ H) as (p & Hmax & _ & Hr & _).
    destruct p as [|w' t]; simpl in Hr; [discriminate|]. injection Hr as ->.
    exact (kemeny_max_head_smith w' t Hmax).
  Qed.

  (* more: in every best ranking all members of the Smith set precede all other candidates *)
  Theorem kemeny_max_smith_first p l1 x y l2 : kemeny_max v p -> p = l1 ++ x :: y :: l2 -> In y D -> In x D.
  Proof.
    intros (Hp & Hge) E HyD. destruct (in_dec Pos.eq_dec x D) as [Hx|Hx]; [exact Hx|exfalso].
    set (q := l1 ++ y :: x :: l2).
    assert (Hq : Permutation q cs).
    { apply Permutation_trans with (2 := Hp). rewrite E. apply Permutation_app_head. apply perm_swap. }
    specialize (Hge q Hq).
    assert (Hxc : In x cs) by (apply (Permutation_in x Hp); rewrite E; apply in_or_app; right; left; reflexivity).
    pose proof (D_dom y x HyD Hxc Hx) as Hb. unfold beats in Hb.
    assert (Hsw : forall l, kemeny_score v (l ++ y :: x :: l2) =
                            kemeny_score v (l ++ x :: y :: l2) + (pget0 v (y, x) - pget0 v (x, y))).
    { induction l as [|a l IH]; [simpl app|].
      - pose proof (score_move_front v y l2 [x]) as Hm. simpl app in Hm. cbn [gain] in Hm. lia.
      - change ((a :: l) ++ y :: x :: l2) with (a :: (l ++ y :: x :: l2)).
        change ((a :: l) ++ x :: y :: l2) with (a :: (l ++ x :: y :: l2)).
        rewrite !kemeny_score_cons, IH, !row_app, !row_cons. lia. }
    unfold q in Hge. rewrite Hsw, <- E in Hge. lia.
  Qed.
End DOM.

(* ================================================================ ranked pairs *)
Section CROSS.
  Variable inD : C -> bool.

  (* a path from outside into the set has a crossing edge *)
  Lemma path_cross l a b : path l a b -> inD a = false -> inD b = true ->
    exists x y, In (x, y) l /\ inD x = false /\ inD y = true.
  Proof.
    induction 1 as [a b H|a m b H _ IH]; intros Ha Hb.
    - exists a, b. auto.
    - destruct (inD m) eqn:Em; [exists a, m; auto|apply IH; [reflexivity|assumption]].
  Qed.

  (* every pair (outsider, member) comes after its reverse *)
  Definition after_reverse_set (pairs : list pair) : Prop :=
    forall l1 x y l2, pairs = l1 ++ (x, y) :: l2 -> inD x = false -> inD y = true -> In (y, x) l1.

  Lemma lock_no_edge_into_set pairs : irrefl_pairs pairs -> after_reverse_set pairs ->
    forall x y, In (x, y) (lock_pairs pairs) -> inD x = false -> inD y = true -> False.
  Proof.
    induction pairs as [|[a b] l IH] using rev_ind; intros Hd Ho x y; [intros []|].
    assert (Ho' : after_reverse_set l).
    { intros l1 x' y' l2 E. apply (Ho l1 x' y' (l2 ++ [(a, b)])). rewrite E, <- app_assoc. reflexivity. }
    specialize (IH (irrefl_prefix _ _ Hd) Ho').
    rewrite lock_pairs_app. unfold lock_step. simpl. destruct (is_path (lock_pairs l) b a) eqn:E; [apply IH|].
    intros H Hx Hy. apply in_app_or in H. destruct H as [H|[H|[]]]; [exact (IH x y H Hx Hy)|]. injection H as -> ->.
    assert (Hxy : x <> y) by (apply Hd; apply in_or_app; right; left; reflexivity).
    assert (Hin : In (y, x) l) by (apply (Ho l x y []); [reflexivity|exact Hx|exact Hy]).
    assert (Hp : path (lock_pairs l) y x).
    { destruct (lock_decided l y x Hin) as [H|H]; [apply path1, H|].
      destruct (path_cross _ _ _ H Hx Hy) as (x' & y' & Hl & Hx' & Hy'). destruct (IH x' y' Hl Hx' Hy'). }
    assert (is_path (lock_pairs l) y x = true) by (apply is_path_iff; split; [congruence|exact Hp]). congruence.
  Qed.
End CROSS.

Section RPS.
  Variable v : pvotes.
  Variable s : scorer.
  Hypothesis Hnn : forall p n, In (p, n) v -> 0 <= n.
  Hypothesis H2 : (2 <= length (candidates v))%nat.
  Notation cs := (candidates v).
  Notation D := (smith_schwartz v true).
  Notation P := (rp_pairs s v).
  Notation L := (lock_pairs (rp_pairs s v)).

  (* under every scorer the win of a member over an outsider is strictly stronger than the reverse pair *)
  Lemma dom_key_order y x : In y D -> In x cs -> ~ In x D -> sc v s x y < sc v s y x.
  Proof.
    intros Hy Hx Hn. pose proof (D_dom v H2 y x Hy Hx Hn) as Hall. unfold beats in Hall.
    pose proof (pget0_nn v Hnn (x, y)) as H0. unfold sc. destruct s.
    - assert (pget0 v (x, y) <? pget0 v (y, x) = true) as -> by (apply Z.ltb_lt; exact Hall).
      assert (pget0 v (y, x) <? pget0 v (x, y) = false) as -> by (apply Z.ltb_ge; lia). lia.
    - lia.
    - exact Hall.
  Qed.

  Lemma dom_after_reverse : after_reverse_set (inS D) P.
  Proof.
    intros l1 x y l2 E Hx Hy. apply inS_false in Hx. apply inS_iff in Hy.
    assert (Hxy : In (x, y) P) by (rewrite E; apply in_or_app; right; left; reflexivity).
    apply rp_pairs_in in Hxy. destruct Hxy as (Hxc & Hyc & Hne).
    pose proof (rp_pairs_sorted s v) as Hs. rewrite E in Hs.
    apply (sorted_before (fun p : pair => sc v s (fst p) (snd p)) l1 (x, y) l2 (y, x) Hs).
    - assert (Hyx : In (y, x) P) by (apply rp_pairs_in; repeat split; auto). rewrite E in Hyx. exact Hyx.
    - simpl. apply dom_key_order; assumption.
  Qed.

  (* no pair is locked from outside the Smith set into it ... *)
  Theorem rp_no_edge_into_smith x y : In (x, y) L -> ~ In x D -> ~ In y D.
  Proof.
    intros H Hx Hy. apply (lock_no_edge_into_set (inS D) P) with (x := x) (y := y).
    - intros a b Hab. apply rp_pairs_in in Hab. tauto.
    - exact dom_after_reverse.
    - exact H.
    - apply inS_false, Hx.
    - apply inS_iff, Hy.
  Qed.

  (* ... hence every member is locked over every outsider *)
  Theorem rp_smith_locked a b : In a D -> In b cs -> ~ In b D -> In (a, b) L.
  Proof.
    intros Ha Hb Hn. assert (Hab : a <> b) by (intros ->; contradiction).
    destruct (L_total cs P (rp_pairs_in s v) a b (D_cs v H2 a Ha) Hb Hab) as [H|H]; [exact H|].
    destruct (rp_no_edge_into_smith b a H Hn Ha).
  Qed.

  Theorem ranked_pairs_in_smith w : ranked_pairs s v 1 = CR_ok [Cand w] -> In w D.
  Proof.
    intros H. destruct (ranked_pairs_ranking v s H2 1) as (R & HR & Hp & Hs). rewrite HR in H.
    destruct (in_dec Pos.eq_dec w D) as [Hw|Hw]; [exact Hw|exfalso].
    destruct (D_member v H2) as (a & HaD & Hac).
    assert (HaR : In a R) by (apply (Permutation_in a (Permutation_sym Hp)), Hac).
    destruct R as [|w' t]; [destruct HaR|]. simpl in H. injection H as ->.
    destruct HaR as [->|HaR]; [contradiction|].
    inversion Hs as [|? ? _ Hall]; subst. rewrite Forall_forall in Hall. specialize (Hall a HaR).
    exact (rp_no_edge_into_smith w a Hall Hw HaD).
  Qed.
End RPS.

(* ================================================================ Schulze *)
Section SCHS.
  Variable v : pvotes.
  Hypothesis Hnd : NoDup (map fst v).
  Hypothesis Hnn : forall p n, In (p, n) v -> 0 <= n.
  Hypothesis H2 : (2 <= length (candidates v))%nat.
  Variable order : list C.
  Notation cs := (candidates v).
  Notation D := (smith_schwartz v true).
  Notation P := (widest_paths v order).

  (* a direct win never leads from outside the Smith set into it *)
  Lemma step_stays_out s x y : 0 < s -> s <= d0 v x y -> ~ In x D -> ~ In y D.
  Proof.
    intros Hs Hd Hx Hy. assert (Hp : 0 < d0 v x y) by lia. destruct (d0_pos v x y Hp) as [Hb He].
    rewrite He in Hp. destruct (pos_in_cs v x y Hp) as [Hxc _].
    pose proof (D_dom v H2 y x Hy Hxc Hx) as Hb'. unfold beats in *. lia.
  Qed.

  Lemma reach_stays_out s a b : 0 < s -> Schulze_proofs.reach v s a b -> ~ In a D -> ~ In b D.
  Proof.
    intros Hs. induction 1 as [a b H|a m b H _ IH]; intros Ha; [exact (step_stays_out s a b Hs H Ha)|].
    apply IH. exact (step_stays_out s a m Hs H Ha).
  Qed.

  (* the table: nothing from outside into the Smith set, the direct win from a member to an outsider *)
  Lemma P_into_smith b a : ~ In b D -> In a D -> pget0 P (b, a) = 0.
  Proof.
    intros Hb Ha. pose proof (P_nonneg0 v Hnd Hnn order (b, a)) as H0.
    destruct (Z.eq_dec (pget0 P (b, a)) 0) as [E|E]; [exact E|exfalso].
    apply (reach_stays_out (pget0 P (b, a)) b a); [lia| |exact Hb|exact Ha].
    apply (wp_sound v Hnd order). lia.
  Qed.

  Lemma smith_beats_P a b : In a D -> In b cs -> ~ In b D -> beats P a b.
  Proof.
    intros Ha Hb Hn. unfold beats. rewrite (P_into_smith b a Hn Ha).
    destruct (wp_G v Hnd order) as (_ & Gm & _). pose proof (Gm a b).
    destruct (d0_beats v Hnn a b (D_dom v H2 a b Ha Hb Hn)) as [_ Hp]. lia.
  Qed.

  (* a member has more path-wins than an outsider *)
  Theorem path_wins_gap a x : In a D -> In x cs -> ~ In x D ->
    (length (opponents P x) < length (opponents P a))%nat.
  Proof.
    intros Ha Hx Hn.
    assert (E1 : (length (outs v D) <= length (opponents P a))%nat).
    { apply NoDup_incl_length; [apply outs_nodup|]. intros y Hy. apply outs_iff in Hy. destruct Hy as [Hyc HyD].
      apply (opponents_spec P (P_nodup v Hnd order) (P_nonneg v Hnd Hnn order)). apply smith_beats_P; assumption. }
    assert (E2 : (S (length (opponents P x)) <= length (outs v D))%nat).
    { change (S (length (opponents P x))) with (length (x :: opponents P x)). apply NoDup_incl_length.
      - constructor; [|apply (opponents_NoDup P (P_nodup v Hnd order))].
        intros H. apply (opp_P_incl v Hnd Hnn order) in H. tauto.
      - intros y [<-|Hy]; [apply outs_iff; tauto|]. pose proof (opp_P_incl v Hnd Hnn order x y Hy) as [Hyc _].
        apply outs_iff. split; [exact Hyc|]. intros HyD.
        apply (opponents_spec P (P_nodup v Hnd order) (P_nonneg v Hnd Hnn order)) in Hy. unfold beats in Hy.
        rewrite (P_into_smith x y Hn HyD) in Hy. pose proof (P_nonneg0 v Hnd Hnn order (y, x)). lia. }
    lia.
  Qed.

  Theorem schulze_in_smith w : schulze v order 1 = [Cand w] -> In w D.
  Proof.
    intros Hwin. rewrite schulze_unfold in Hwin. fold (sscores v order) in Hwin.
    destruct (sscores_facts v Hnd Hnn order) as (Sn & Sk & Sv).
    destruct (get_n_best_1_cand zle_bool zle_total zle_trans (sscores v order) w [] Sn Hwin) as (_ & sw & Hin & Hmax).
    assert (Hwc : In w cs) by (apply Sk; apply in_map_iff; exists (w, sw); split; [reflexivity|exact Hin]).
    destruct (in_dec Pos.eq_dec w D) as [Hw|Hw]; [exact Hw|exfalso].
    destruct (D_member v H2) as (a & HaD & Hac).
    assert (Haw : a <> w) by (intros ->; contradiction).
    assert (Hka : In a (map fst (sscores v order))) by (apply Sk, Hac).
    apply in_map_iff in Hka. destruct Hka as ([a' sa] & Hf & Hina). simpl in Hf. subst a'.
    pose proof (Hmax a sa Hina Haw) as Hlt. unfold GetNBest.ltb, zle_bool in Hlt. apply negb_true_iff, Z.leb_gt in Hlt.
    rewrite (Sv a sa Hina), (Sv w sw Hin) in Hlt. pose proof (path_wins_gap a w HaD Hwc Hw). lia.
  Qed.
End SCHS.

(* ================================================================ Copeland, second order: nobody dropped *)
Lemma has_tie_cands {X} (f : X -> C) (l : list X) : has_tie (map (fun it => Cand (f it)) l) = false.
Proof. induction l as [|x l IH]; [reflexivity|exact IH]. Qed.

Lemma copeland_no_tie so (v : pvotes) n :
  has_tie (get_n_best zle_bool (cscores v) n) = false -> copeland so v n = get_n_best zle_bool (cscores v) n.
Proof.
  intros H. unfold copeland. cbv zeta. fold seed. fold (cscores v). rewrite H, andb_false_r. reflexivity.
Qed.

Theorem copeland_nobody_dropped (v : pvotes) so x :
  NoDup (map fst v) -> (forall p n, In (p, n) v -> 0 <= n) ->
  In x (candidates v) -> In (Cand x) (copeland so v (length (candidates v))).
Proof.
  intros Hnd Hnn Hx. destruct (cscores_facts v Hnd Hnn) as (Sn & Sv & Sc).
  assert (Hlen : length (cscores v) = length (candidates v)).
  { rewrite <- (map_length fst (cscores v)). apply Permutation_length.
    apply NoDup_Permutation; [exact Sn|apply candidates_NoDup|].
    intros y. split; [|apply Sc]. intros Hy. apply in_map_iff in Hy. destruct Hy as ([y' u] & Hf & Hin).
    simpl in Hf. subst y'. apply (Sv y u Hin). }
  assert (Hbest : get_n_best zle_bool (cscores v) (length (candidates v)) =
                  map (fun it : C * Z => Cand (fst it)) (sort_desc zle_bool (cscores v))).
  { unfold get_n_best. rewrite (sort_desc_length zle_bool (cscores v)), Hlen, Nat.ltb_irrefl. reflexivity. }
  rewrite copeland_no_tie; rewrite Hbest; [|apply has_tie_cands].
  apply Sc in Hx. apply in_map_iff in Hx. destruct Hx as ([x' u] & Hf & Hin). simpl in Hf. subst x'.
  apply in_map_iff. exists (x, u). split; [reflexivity|].
  apply (Permutation_in _ (Permutation_sym (sort_desc_perm zle_bool (cscores v)))). exact Hin.
Qed.

(* ================================================================ a reported tie for the single seat lies in the Smith set too *)
Section GNB1.
  Context {V : Type}.
  Variable leb : V -> V -> bool.
  Hypothesis leb_total : forall a b, leb a b = true \/ leb b a = true.
  Hypothesis leb_trans : forall a b c, leb a b = true -> leb b c = true -> leb a c = true.

  (* the members of a tie for the single seat are greatest elements *)
  Theorem get_n_best_1_tie (votes : list (C * V)) T : get_n_best leb votes 1 = [TieR T] ->
    forall c, In c T -> exists s, In (c, s) votes /\ forall c' s', In (c', s') votes -> leb s' s = true.
  Proof.
    intros Hr c Hc.
    destruct (get_n_best_spec leb leb_total leb_trans votes 1 (le_n 1)) as [Hsmall Hbig].
    destruct (Nat.le_gt_cases (length votes) 1) as [Hle|Hgt].
    - destruct (Hsmall Hle) as (s & _ & _ & Hs). rewrite Hr in Hs. destruct s as [|x s]; simpl in Hs; discriminate.
    - destruct (Hbig Hgt) as (above & level & below & thr & Hp & _ & Ha & Hl & Hb & Hpos & Heq & Htie).
      assert (above = []) as -> by (destruct above; [reflexivity|simpl in Hpos; lia]). simpl in *.
      destruct (Nat.eq_dec (length level) 1) as [E1|E1].
      + rewrite (Heq E1) in Hr. destruct level as [|x l]; simpl in Hr; discriminate.
      + rewrite Htie in Hr by lia. simpl in Hr. injection Hr as <-.
        apply in_map_iff in Hc. destruct Hc as ([c0 s] & Hf & Hin). simpl in Hf. subst c0.
        exists s. split; [eapply Permutation_in; [exact Hp|apply in_or_app; left; exact Hin]|].
        rewrite Forall_forall in Hl, Hb. pose proof (Hl _ Hin) as Hs. simpl in Hs.
        intros c' s' Hin'. apply (Permutation_in _ (Permutation_sym Hp)) in Hin'. apply in_app_or in Hin'.
        destruct Hin' as [H|H].
        * pose proof (Hl _ H) as Hs'. simpl in Hs'. exact (eqv_leb_l leb leb_trans s' s thr Hs' Hs).
        * pose proof (Hb _ H) as Hs'. simpl in Hs'. apply (ltb_leb leb leb_total) in Hs'.
          unfold GetNBest.eqv in Hs. apply andb_true_iff in Hs. destruct Hs as [_ Hs].
          exact (leb_trans _ _ _ Hs' Hs).
  Qed.

  Theorem get_n_best_1_shape (votes : list (C * V)) :
    get_n_best leb votes 1 = [] \/ (exists c, get_n_best leb votes 1 = [Cand c]) \/ exists T, get_n_best leb votes 1 = [TieR T].
  Proof.
    destruct (get_n_best_spec leb leb_total leb_trans votes 1 (le_n 1)) as [Hsmall Hbig].
    destruct (Nat.le_gt_cases (length votes) 1) as [Hle|Hgt].
    - destruct (Hsmall Hle) as (s & Hp & _ & Hs). rewrite Hs. apply Permutation_length in Hp.
      destruct s as [|x [|y s]]; simpl in Hp; [left; reflexivity|right; left; exists (fst x); reflexivity|lia].
    - destruct (Hbig Hgt) as (above & level & below & thr & Hp & _ & Ha & Hl & Hb & Hpos & Heq & Htie).
      assert (above = []) as -> by (destruct above; [reflexivity|simpl in Hpos; lia]). simpl in *.
      destruct (Nat.eq_dec (length level) 1) as [E1|E1].
      + rewrite (Heq E1). destruct level as [|x [|y l]]; simpl in E1; try lia. right. left. exists (fst x). reflexivity.
      + rewrite Htie by lia. right. right. eexists. reflexivity.
  Qed.

  (* a plain entry of the result is a key of the input *)
  Lemma get_n_best_cand_key (votes : list (C * V)) n c : In (Cand c) (get_n_best leb votes n) -> In c (map fst votes).
  Proof.
    assert (Hs : forall k, In (Cand c) (map (fun it : C * V => Cand (fst it)) (firstn k (sort_desc leb votes))) -> In c (map fst votes)).
    { intros k H. apply in_map_iff in H. destruct H as (it & Hf & Hin). injection Hf as <-.
      apply in_map. apply (Permutation_in _ (sort_desc_perm leb votes)). revert Hin. generalize (sort_desc leb votes).
      induction k as [|k IH]; intros [|y l]; simpl; try tauto. intros [H|H]; [left; exact H|right; apply IH, H]. }
    unfold get_n_best. intros H.
    destruct (Nat.ltb n (length (sort_desc leb votes))).
    2:{ apply (Hs (length (sort_desc leb votes))). rewrite firstn_all. exact H. }
    destruct (nth_error (sort_desc leb votes) (n - 1)) as [[c1 thr]|]; [|destruct H].
    destruct (nth_error (sort_desc leb votes) n) as [[c2 nxt]|]; [|destruct H].
    destruct (GetNBest.eqv leb nxt thr); [|exact (Hs _ H)].
    apply in_app_or in H. destruct H as [H|H]; [exact (Hs _ H)|]. apply repeat_spec in H. discriminate.
  Qed.
End GNB1.

(* the candidates standing in the first place of a result: the plain winner or the members of the tie *)
Definition first_place (r : list (res C)) : list C :=
  match r with Cand c :: _ => [c] | TieR l :: _ => l | [] => [] end.

Section TIES.
  Variable v : pvotes.
  Hypothesis Hnd : NoDup (map fst v).
  Hypothesis Hnn : forall p n, In (p, n) v -> 0 <= n.
  Hypothesis H2 : (2 <= length (candidates v))%nat.
  Notation cs := (candidates v).
  Notation D := (smith_schwartz v true).

  Theorem schulze_first_in_smith order : incl (first_place (schulze v order 1)) D.
  Proof.
    pose proof (schulze_in_smith v Hnd Hnn H2 order) as Hsole.
    rewrite schulze_unfold in *. fold (sscores v order) in *.
    destruct (get_n_best_1_shape zle_bool zle_total zle_trans (sscores v order)) as [E|[(c & E)|(T & E)]]; rewrite E; simpl.
    - intros x [].
    - intros x [<-|[]]. exact (Hsole c E).
    - intros c Hc. destruct (get_n_best_1_tie zle_bool zle_total zle_trans (sscores v order) T E c Hc) as (s & Hin & Hmax).
      destruct (sscores_facts v Hnd Hnn order) as (Sn & Sk & Sv).
      assert (Hcc : In c cs) by (apply Sk; apply in_map_iff; exists (c, s); split; [reflexivity|exact Hin]).
      destruct (in_dec Pos.eq_dec c D) as [Hd|Hd]; [exact Hd|exfalso].
      destruct (D_member v H2) as (a & HaD & Hac).
      assert (Hka : In a (map fst (sscores v order))) by (apply Sk, Hac).
      apply in_map_iff in Hka. destruct Hka as ([a' sa] & Hf & Hina). simpl in Hf. subst a'.
      pose proof (Hmax a sa Hina) as Hle. unfold zle_bool in Hle. apply Z.leb_le in Hle.
      rewrite (Sv a sa Hina), (Sv c s Hin) in Hle. pose proof (path_wins_gap v Hnd Hnn H2 order a c HaD Hcc Hd). lia.
  Qed.

  (* Copeland: a first-order tie for the seat lies in the Smith set ... *)
  Lemma copeland_tie_in_smith T : get_n_best zle_bool (cscores v) 1 = [TieR T] -> incl T D.
  Proof.
    intros E c Hc. destruct (get_n_best_1_tie zle_bool zle_total zle_trans (cscores v) T E c Hc) as (s & Hin & Hmax).
    destruct (cscores_facts v Hnd Hnn) as (Sn & Sv & Sc). destruct (Sv c s Hin) as [Hs Hcc].
    destruct (in_dec Pos.eq_dec c D) as [Hd|Hd]; [exact Hd|exfalso].
    destruct (D_member v H2) as (a & HaD & Hac).
    assert (Hka : In a (map fst (cscores v))) by (apply Sc, Hac).
    apply in_map_iff in Hka. destruct Hka as ([a' sa] & Hf & Hina). simpl in Hf. subst a'.
    destruct (Sv a sa Hina) as [Hsa _].
    pose proof (Hmax a sa Hina) as Hle. unfold zle_bool in Hle. apply Z.leb_le in Hle.
    pose proof (SmithCopeland_proofs.strict_gap v Hnd Hnn H2 D (D_dom v H2) a c HaD Hac Hcc Hd). lia.
  Qed.

  (* ... and the second-order scores are kept for the tied candidates only *)
  Definition so_dict (tied : list C) : list (C * Z) :=
    fold_left (fun d (p : pair) => if cmem (fst p) tied then dadd d (fst p) (dget_or (cscores v) (snd p) 0) else d)
      (pairwise_wins v false)
      (flat_map (fun cs : C * Z => if cmem (fst cs) tied then [(fst cs, 0)] else []) (cscores v)).

  Lemma copeland2_tie T : get_n_best zle_bool (cscores v) 1 = [TieR T] ->
    copeland true v 1 = get_n_best zle_bool (so_dict (T ++ [])) 1.
  Proof. intros H. unfold copeland. cbv zeta. fold seed. fold (cscores v). rewrite H. reflexivity. Qed.

  Lemma so_dict_keys tied k : In k (map fst (so_dict tied)) -> In k tied.
  Proof.
    unfold so_dict.
    assert (H0 : forall k, In k (map fst (flat_map (fun cs : C * Z => if cmem (fst cs) tied then [(fst cs, 0)] else []) (cscores v))) -> In k tied).
    { intros k' H. apply in_map_iff in H. destruct H as ([k0 z] & Hf & H). simpl in Hf. subst k0.
      apply in_flat_map in H. destruct H as (cs0 & _ & H). destruct (cmem (fst cs0) tied) eqn:E; [|destruct H].
      destruct H as [H|[]]. injection H as <- _. apply Threshold_proofs.cmem_In, E. }
    revert H0. generalize (flat_map (fun cs : C * Z => if cmem (fst cs) tied then [(fst cs, 0)] else []) (cscores v)).
    generalize (pairwise_wins v false). intros ws. induction ws as [|p ws IH]; intros d Hd; simpl fold_left; [apply Hd|].
    apply IH. destruct (cmem (fst p) tied) eqn:E; [|exact Hd]. intros k' H. unfold dadd in H. apply dset_keys_in in H.
    destruct H as [->|H]; [apply Threshold_proofs.cmem_In, E|apply Hd, H].
  Qed.

  Theorem copeland_first_in_smith so : incl (first_place (copeland so v 1)) D.
  Proof.
    destruct (get_n_best_1_shape zle_bool zle_total zle_trans (cscores v)) as [E|[(c & E)|(T & E)]].
    - rewrite copeland_no_tie; rewrite E; [|reflexivity]. intros x [].
    - rewrite copeland_no_tie; rewrite E; [|reflexivity]. intros x [<-|[]]. exact (SmithCopeland_proofs.copeland_in_smith v c Hnd Hnn H2 E).
    - pose proof (copeland_tie_in_smith T E) as HT. destruct so.
      + rewrite (copeland2_tie T E).
        assert (Hk : forall k, In k (map fst (so_dict (T ++ []))) -> In k D).
        { intros k Hk. apply so_dict_keys in Hk. rewrite app_nil_r in Hk. apply HT, Hk. }
        destruct (get_n_best_1_shape zle_bool zle_total zle_trans (so_dict (T ++ []))) as [E'|[(c & E')|(T' & E')]]; rewrite E'; simpl.
        * intros x [].
        * intros x [<-|[]]. apply Hk. apply (get_n_best_cand_key zle_bool (so_dict (T ++ [])) 1). rewrite E'. left. reflexivity.
        * intros x Hx. apply Hk.
          destruct (get_n_best_tie_members zle_bool zle_trans (so_dict (T ++ [])) 1 T') as (thr & -> & _); [rewrite E'; left; reflexivity|].
          apply in_map_iff in Hx. destruct Hx as (it & <- & Hit). apply filter_In in Hit. apply in_map, Hit.
      + rewrite copeland_raw_is_first_order, E. exact HT.
  Qed.
End TIES.
