(* C10, renaming: every evaluator of Model/Condorcet.v commutes with every injective renaming of the candidates -
   EXACT equality of the results (elected, ties with their members in the renamed order, refusals).
   None of these models consults an order on candidates (no [Pos.ltb] / sorting by name anywhere: candidates are
   compared with [ceqb] only, every iteration order is the insertion order of the pairwise dictionary or the explicit
   [order] argument of Schulze), so the proofs are compositions of the equivariant combinators of Proofs/Equivariant.v. *)
From Coq Require Import ZArith QArith List Bool Arith Lia.
From VL Require Import Prelude.PyDict Model.GetNBest Model.Condorcet Proofs.Dict_proofs Proofs.Order_proofs
     Proofs.HARename_proofs Proofs.Equivariant.
Import ListNotations.
Open Scope Z_scope.

Section CREN.
  Variable f : C -> C.
  Hypothesis f_inj : forall a b, f a = f b -> a = b.

  Definition rp (p : pair) : pair := (f (fst p), f (snd p)).
  Definition rpn (pn : pair * Z) : pair * Z := (rp (fst pn), snd pn).
  Definition renp (v : pvotes) : pvotes := map rpn v.
  Definition ren_cres (r : cres) : cres := match r with CR_ok l => CR_ok (map (ren_res f) l) | x => x end.

  Lemma renp_renk v : renp v = renk rp v.
  Proof. reflexivity. Qed.
  Lemma renp_keys v : map fst (renp v) = map rp (map fst v).
  Proof. unfold renp. rewrite !map_map. reflexivity. Qed.

  Lemma filter_renp (P P' : pair * Z -> bool) v : (forall x, P' (rpn x) = P x) -> filter P' (renp v) = renp (filter P v).
  Proof. intros H. unfold renp. apply filter_map_eqv, H. Qed.

  Lemma peqb_ren p q : peqb (rp p) (rp q) = peqb p q.
  Proof. unfold peqb, rp. cbn [fst snd]. rewrite !(ceqb_f f f_inj). reflexivity. Qed.
  Lemma pget_ren v p : pget (renp v) (rp p) = pget v p.
  Proof. induction v as [|[q k] v IH]; simpl; [reflexivity|]. rewrite peqb_ren, IH. reflexivity. Qed.
  Lemma pget0_ren v p : pget0 (renp v) (rp p) = pget0 v p.
  Proof. unfold pget0. rewrite pget_ren. reflexivity. Qed.
  Lemma pget0_ren2 v a b : pget0 (renp v) (f a, f b) = pget0 v (a, b).
  Proof. exact (pget0_ren v (a, b)). Qed.
  Lemma swap_ren p : swap (rp p) = rp (swap p).
  Proof. reflexivity. Qed.

  Lemma add_new_ren c l : add_new (f c) (map f l) = map f (add_new c l).
  Proof. unfold add_new. rewrite (cmem_ren f f_inj). destruct (cmem c l); [reflexivity|]. rewrite map_app. reflexivity. Qed.
  Lemma candidates_ren v : candidates (renp v) = map f (candidates v).
  Proof.
    unfold candidates, renp.
    apply (fold_left_eqv0 rpn (map f) (fun acc pn => add_new (snd (fst pn)) (add_new (fst (fst pn)) acc))
             (fun acc pn => add_new (snd (fst pn)) (add_new (fst (fst pn)) acc))); [|reflexivity].
    intros a x. unfold rpn, rp. cbn [fst snd]. rewrite !add_new_ren. reflexivity.
  Qed.

  Lemma pairwise_wins_ren v t : pairwise_wins (renp v) t = map rp (pairwise_wins v t).
  Proof.
    unfold pairwise_wins.
    rewrite (filter_renp (fun pn => let anti := pget0 v (swap (fst pn)) in (anti <? snd pn) || (t && (anti =? snd pn)))).
    - apply renp_keys.
    - intros [p k]. unfold rpn. cbn [fst snd]. cbv zeta. rewrite swap_ren, pget0_ren. reflexivity.
  Qed.

  Lemma dadd_ren d c k : dadd (renl f d) (f c) k = renl f (dadd d c k).
  Proof. unfold dadd. rewrite (dget_or_ren f f_inj), (dset_ren f f_inj). reflexivity. Qed.

  Lemma beat_counts_ren v : beat_counts (renp v) = renl f (beat_counts v).
  Proof.
    unfold beat_counts. rewrite pairwise_wins_ren.
    apply (fold_left_eqv0 rp (renl f) (fun d p => dadd d (fst p) 1) (fun d p => dadd d (fst p) 1)); [|reflexivity].
    intros a x. unfold rp. cbn [fst]. apply dadd_ren.
  Qed.

  Lemma condorcet_winner_ren v : condorcet_winner (renp v) = map f (condorcet_winner v).
  Proof.
    unfold condorcet_winner. rewrite candidates_ren, map_length, beat_counts_ren. cbv zeta.
    unfold renl.
    rewrite (find_map_eqv (fun cv : C * Z => (f (fst cv), snd cv))
               (fun cn : C * Z => snd cn =? Z.of_nat (length (candidates v)) - 1)) by (intros x; reflexivity).
    destruct (find _ (beat_counts v)) as [[c k]|]; reflexivity.
  Qed.

  Lemma copeland_scores_ren wins : copeland_scores (map rp wins) = renl f (copeland_scores wins).
  Proof.
    unfold copeland_scores.
    apply (fold_left_eqv0 rp (renl f) (fun d p => dadd (dadd d (fst p) 1) (snd p) (-1)) (fun d p => dadd (dadd d (fst p) 1) (snd p) (-1))); [|reflexivity].
    intros a x. unfold rp. cbn [fst snd]. rewrite !dadd_ren. reflexivity.
  Qed.

  Lemma index_of_ren c l : index_of (f c) (map f l) = index_of c l.
  Proof. induction l as [|x l IH]; simpl; [reflexivity|]. rewrite (ceqb_f f f_inj), IH. reflexivity. Qed.

  Lemma ss_loop_ren order wins : forall e, ss_loop (map f order) (map rp wins) e = ss_loop order wins e.
  Proof.
    induction wins as [|[w l] wins IH]; intros e; [reflexivity|].
    cbn [map]. unfold rp at 1. cbn [fst snd ss_loop]. rewrite !index_of_ren, map_length, !IH. reflexivity.
  Qed.

  Lemma complete_ren v : complete (renp v) = renp (complete v).
  Proof.
    unfold complete. rewrite candidates_ren. cbv zeta.
    apply (flat_map_eqv f rpn). intros c1. apply (flat_map_eqv f rpn). intros c2.
    rewrite (ceqb_f f f_inj). destruct (ceqb c1 c2); [reflexivity|]. cbn [map]. unfold rpn, rp. cbn [fst snd]. rewrite pget0_ren2. reflexivity.
  Qed.

  Theorem smith_schwartz_ren v t : smith_schwartz (renp v) t = map f (smith_schwartz v t).
  Proof.
    unfold smith_schwartz. cbv zeta. rewrite complete_ren, pairwise_wins_ren, copeland_scores_ren.
    set (wins := pairwise_wins (complete v) t).
    rewrite sort_desc_renl, (renl_keys f).
    set (order := map fst (sort_desc zle_bool (copeland_scores wins))).
    rewrite (decorate_renk rp (fun p => index_of (snd p) order) (fun p => index_of (snd p) (map f order)))
      by (intros x; unfold rp; cbn [snd]; apply index_of_ren).
    rewrite sort_asc_renk, renk_keys, ss_loop_ren, firstn_map. reflexivity.
  Qed.

  (* ---- Copeland *)
  Lemma has_tie_ren r : has_tie (map (ren_res f) r) = has_tie r.
  Proof. unfold has_tie. apply existsb_map_eqv. intros [c|l]; reflexivity. Qed.
  Lemma res_members_ren r : res_members (map (ren_res f) r) = map f (res_members r).
  Proof. unfold res_members. apply flat_map_eqv. intros [c|l]; reflexivity. Qed.
  Lemma res_untied_ren r : res_untied (map (ren_res f) r) = map (ren_res f) (res_untied r).
  Proof. unfold res_untied. apply filter_map_eqv. intros [c|l]; reflexivity. Qed.

  Theorem copeland_ren so v n : copeland so (renp v) n = map (ren_res f) (copeland so v n).
  Proof.
    unfold copeland. cbv zeta. rewrite pairwise_wins_ren, copeland_scores_ren, candidates_ren.
    set (wins := pairwise_wins v false).
    rewrite (fold_left_eqv f (renl f) (fun d c => if dmem d c then d else d ++ [(c, 0)]) (fun d c => if dmem d c then d else d ++ [(c, 0)]))
      by (intros a x; rewrite (dmem_ren f f_inj); destruct (dmem a x); [reflexivity|rewrite (renl_app f); reflexivity]).
    set (scores := fold_left _ (candidates v) (copeland_scores wins)).
    rewrite get_n_best_renl. set (best := get_n_best zle_bool scores n).
    rewrite has_tie_ren. destruct (so && has_tie best); [|reflexivity].
    rewrite res_members_ren, res_untied_ren, !map_length. set (tied := res_members best).
    assert (E0 : flat_map (fun cs : C * Z => if cmem (fst cs) (map f tied) then [(fst cs, 0)] else []) (renl f scores)
                 = renl f (flat_map (fun cs : C * Z => if cmem (fst cs) tied then [(fst cs, 0)] else []) scores)).
    { unfold renl. apply flat_map_eqv. intros x. cbn [fst]. rewrite (cmem_ren f f_inj). destruct (cmem (fst x) tied); reflexivity. }
    rewrite E0.
    rewrite (fold_left_eqv rp (renl f)
               (fun d p => if cmem (fst p) tied then dadd d (fst p) (dget_or scores (snd p) 0) else d)
               (fun d p => if cmem (fst p) (map f tied) then dadd d (fst p) (dget_or (renl f scores) (snd p) 0) else d)).
    - rewrite get_n_best_renl, map_app. reflexivity.
    - intros a x. unfold rp. cbn [fst snd]. rewrite (cmem_ren f f_inj), (dget_or_ren f f_inj), dadd_ren. destruct (cmem (fst x) tied); reflexivity.
  Qed.

  (* ---- Schulze *)
  Lemma pset_cons p n q k t : pset ((q, k) :: t) p n = if peqb p q then (q, n) :: t else (q, k) :: pset t p n.
  Proof. reflexivity. Qed.
  Lemma pset_ren v p k : pset (renp v) (rp p) k = renp (pset v p k).
  Proof.
    induction v as [|[q k'] v IH]; [reflexivity|].
    change (renp ((q, k') :: v)) with ((rp q, k') :: renp v). rewrite !pset_cons.
    rewrite peqb_ren. destruct (peqb p q); [reflexivity|].
    change (renp ((q, k') :: pset v p k)) with ((rp q, k') :: renp (pset v p k)). f_equal. exact IH.
  Qed.

  Lemma widest_paths_ren v order : widest_paths (renp v) (map f order) = renp (widest_paths v order).
  Proof.
    unfold widest_paths. cbv zeta.
    assert (Ei : filter (fun pn => pget0 (renp v) (swap (fst pn)) <? snd pn) (renp v)
                 = renp (filter (fun pn => pget0 v (swap (fst pn)) <? snd pn) v)).
    { apply filter_renp. intros [p k]. unfold rpn. cbn [fst snd]. rewrite swap_ren, pget0_ren. reflexivity. }
    rewrite Ei. apply (fold_left_eqv f renp). intros p1 c1.
    apply (fold_left_eqv f renp). intros p2 c2.
    rewrite (ceqb_f f f_inj). destruct (ceqb c1 c2); [reflexivity|].
    apply (fold_left_eqv f renp). intros p3 ca.
    rewrite !(ceqb_f f f_inj). destruct (ceqb ca c1 || ceqb ca c2); [reflexivity|].
    rewrite !pget0_ren2. apply (pset_ren p3 (c2, ca)).
  Qed.

  Theorem schulze_ren v order n : schulze (renp v) (map f order) n = map (ren_res f) (schulze v order n).
  Proof.
    unfold schulze. cbv zeta. rewrite widest_paths_ren, pairwise_wins_ren, candidates_ren, seed_renl.
    rewrite (fold_left_eqv rp (renl f) (fun d p => dadd (dadd d (fst p) 1) (snd p) 0) (fun d p => dadd (dadd d (fst p) 1) (snd p) 0))
      by (intros a x; unfold rp; cbn [fst snd]; rewrite !dadd_ren; reflexivity).
    apply get_n_best_renl.
  Qed.

  (* ---- pairwise win scorers, MinimaxCondorcet *)
  Lemma score_pairs_ren s v : score_pairs s (renp v) = renp (score_pairs s v).
  Proof.
    destruct s; unfold score_pairs; [| |reflexivity]; unfold renp at 2 3; apply map_map_eqv; intros x; unfold rpn; cbn [fst snd];
      rewrite swap_ren, pget0_ren; reflexivity.
  Qed.

  Lemma mc_ren l :
    fold_left (fun d (pn : pair * Z) => match dget d (snd (fst pn)) with
                                        | Some old => dset d (snd (fst pn)) (Z.max old (snd pn))
                                        | None => dset d (snd (fst pn)) (snd pn) end) (renp l) []
    = renl f (fold_left (fun d (pn : pair * Z) => match dget d (snd (fst pn)) with
                                        | Some old => dset d (snd (fst pn)) (Z.max old (snd pn))
                                        | None => dset d (snd (fst pn)) (snd pn) end) l []).
  Proof.
    unfold renp. apply (fold_left_eqv0 rpn (renl f)); [|reflexivity].
    intros a x. unfold rpn, rp. cbn [fst snd]. rewrite (dget_ren f f_inj).
    destruct (dget a (snd (fst x))); apply (dset_ren f f_inj).
  Qed.

  Theorem minimax_ren s v n : minimax s (renp v) n = map (ren_res f) (minimax s v n).
  Proof.
    unfold minimax. cbv zeta. rewrite complete_ren, score_pairs_ren, mc_ren.
    set (mc := fold_left _ (score_pairs s (complete v)) []).
    assert (E : map (fun cs : C * Z => (fst cs, - snd cs)) (renl f mc) = renl f (map (fun cs : C * Z => (fst cs, - snd cs)) mc))
      by (unfold renl; rewrite !map_map; reflexivity).
    rewrite E. apply get_n_best_renl.
  Qed.

  (* ---- RankedPairs *)
  Lemma sort_desc_by_ren {X} (g : X -> X) (key key' : X -> Z) : (forall x, key' (g x) = key x) ->
    forall l, sort_desc_by key' (map g l) = map g (sort_desc_by key l).
  Proof. intros H l. unfold sort_desc_by. rewrite (decorate_renk g key key' H), sort_desc_renk, renk_keys. reflexivity. Qed.

  Lemma reach_pass_ren pairs : forall visited, reach_pass (map rp pairs) (map f visited) = map f (reach_pass pairs visited).
  Proof.
    induction pairs as [|[a b] pairs IH]; intros visited; [reflexivity|].
    cbn [map]. unfold rp at 1. cbn [fst snd reach_pass]. rewrite !(cmem_ren f f_inj).
    destruct (cmem a visited && negb (cmem b visited)); [|apply IH].
    rewrite <- IH, map_app. reflexivity.
  Qed.
  Lemma reach_ren fuel pairs : forall visited, reach fuel (map rp pairs) (map f visited) = map f (reach fuel pairs visited).
  Proof.
    induction fuel as [|fu IH]; intros visited; [reflexivity|]. cbn [reach]. cbv zeta.
    rewrite reach_pass_ren, !map_length. destruct (Nat.eqb _ _); [reflexivity|apply IH].
  Qed.
  Lemma is_path_ren pairs a b : is_path (map rp pairs) (f a) (f b) = is_path pairs a b.
  Proof.
    unfold is_path. rewrite map_length. change [f a] with (map f [a]). rewrite reach_ren, (cmem_ren f f_inj), (ceqb_f f f_inj). reflexivity.
  Qed.
  Lemma lock_pairs_ren pairs : lock_pairs (map rp pairs) = map rp (lock_pairs pairs).
  Proof.
    unfold lock_pairs.
    apply (fold_left_eqv0 rp (map rp) (fun locked p => if is_path locked (snd p) (fst p) then locked else locked ++ [p])
             (fun locked p => if is_path locked (snd p) (fst p) then locked else locked ++ [p])); [|reflexivity].
    intros a x. unfold rp at 2 3. cbn [fst snd]. rewrite is_path_ren. destruct (is_path a (snd x) (fst x)); [reflexivity|].
    rewrite map_app. reflexivity.
  Qed.
  Lemma dedup_c_ren l : dedup_c (map f l) = map f (dedup_c l).
  Proof. induction l as [|x l IH]; [reflexivity|]. cbn [map dedup_c]. rewrite (cmem_ren f f_inj), IH. destruct (cmem x l); reflexivity. Qed.

  Lemma build_ranking_ren fuel : forall edges ranking,
    build_ranking fuel (map rp edges) (map f ranking) = option_map (map f) (build_ranking fuel edges ranking).
  Proof.
    induction fuel as [|fu IH]; intros edges ranking.
    - destruct edges; reflexivity.
    - destruct edges as [|e edges]; [reflexivity|].
      change (map rp (e :: edges)) with (rp e :: map rp edges). cbn [build_ranking]. cbv zeta.
      change (rp e :: map rp edges) with (map rp (e :: edges)). set (ed := e :: edges).
      assert (E1 : map fst (map rp ed) = map f (map fst ed)) by (rewrite !map_map; reflexivity).
      assert (E2 : map snd (map rp ed) = map f (map snd ed)) by (rewrite !map_map; reflexivity).
      rewrite E1, E2, dedup_c_ren.
      rewrite (filter_map_eqv f (fun w => negb (cmem w (map snd ed)))) by (intros x; rewrite (cmem_ren f f_inj); reflexivity).
      destruct (filter _ (dedup_c (map fst ed))) as [|w [|w' r]]; [reflexivity| |reflexivity].
      cbn [map].
      rewrite (filter_map_eqv rp (fun e0 => negb (ceqb (fst e0) w)))
        by (intros x; unfold rp; cbn [fst]; rewrite (ceqb_f f f_inj); reflexivity).
      change [f w] with (map f [w]). rewrite <- map_app. apply IH.
  Qed.

  Lemma rp_tail ranking n (o : option C) :
    match option_map f o with Some last => CR_ok (map Cand (firstn n (map f ranking ++ [last]))) | None => CR_stop end
    = ren_cres (match o with Some last => CR_ok (map Cand (firstn n (ranking ++ [last]))) | None => CR_stop end).
  Proof.
    destruct o as [last|]; [|reflexivity]. cbn [option_map ren_cres].
    change [f last] with (map f [last]). rewrite <- map_app, ren_res_map_cand, firstn_map. reflexivity.
  Qed.

  Theorem ranked_pairs_ren s v n : ranked_pairs s (renp v) n = ren_cres (ranked_pairs s v n).
  Proof.
    unfold ranked_pairs. cbv zeta. rewrite complete_ren, score_pairs_ren, renp_keys.
    set (w := complete v).
    rewrite (sort_desc_by_ren rp (fun p => pget0 w p) (fun p => pget0 (renp w) p)) by (intros x; apply pget0_ren).
    rewrite (sort_desc_by_ren rp (fun p => pget0 (score_pairs s w) p) (fun p => pget0 (renp (score_pairs s w)) p)) by (intros x; apply pget0_ren).
    rewrite lock_pairs_ren, map_length. set (locked := lock_pairs _).
    change (@nil C) with (map f []) at 1. rewrite build_ranking_ren.
    destruct (build_ranking (S (length locked)) locked []) as [ranking|]; [|reflexivity]. cbn [option_map].
    rewrite (flat_map_eqv rp f (fun p : C * C => [fst p; snd p]) (fun p : C * C => [fst p; snd p])) by (intros x; reflexivity).
    rewrite (find_map_eqv f (fun c => negb (cmem c ranking))) by (intros x; rewrite (cmem_ren f f_inj); reflexivity).
    apply rp_tail.
  Qed.

  (* ---- KemenyYoung *)
  Lemma insert_all_ren x l : insert_all (f x) (map f l) = map (map f) (insert_all x l).
  Proof.
    induction l as [|y l IH]; [reflexivity|]. cbn [map insert_all]. rewrite IH, !map_map. reflexivity.
  Qed.
  Lemma permutations_ren l : permutations (map f l) = map (map f) (permutations l).
  Proof.
    induction l as [|x l IH]; [reflexivity|]. cbn [map permutations]. rewrite IH.
    apply flat_map_eqv. intros p. apply insert_all_ren.
  Qed.
  Lemma kemeny_score_ren v variant : kemeny_score (renp v) (map f variant) = kemeny_score v variant.
  Proof.
    induction variant as [|u t IH]; [reflexivity|]. cbn [map kemeny_score]. rewrite IH. f_equal.
    apply fold_left_inv. intros a x. rewrite pget0_ren2. reflexivity.
  Qed.
  Lemma clist_eqb_ren a : forall b, clist_eqb (map f a) (map f b) = clist_eqb a b.
  Proof.
    induction a as [|x a IH]; intros [|y b]; try reflexivity. cbn [map clist_eqb]. rewrite (ceqb_f f f_inj), IH. reflexivity.
  Qed.

  Theorem kemeny_ren v n : kemeny (renp v) n = ren_cres (kemeny v n).
  Proof.
    unfold kemeny. cbv zeta. rewrite candidates_ren, permutations_ren.
    rewrite (decorate_renk (map f) (fun p => kemeny_score v p) (fun p => kemeny_score (renp v) p)) by (intros x; apply kemeny_score_ren).
    set (scored := map (fun p => (p, kemeny_score v p)) (permutations (candidates v))).
    assert (Eb : fold_left (fun b (ps : list C * Z) => Z.max b (snd ps)) (renk (map f) scored) 0
                 = fold_left (fun b (ps : list C * Z) => Z.max b (snd ps)) scored 0).
    { unfold renk. apply fold_left_inv. intros a x. reflexivity. }
    rewrite Eb. set (best := fold_left _ scored 0).
    assert (Ef : filter (fun ps : list C * Z => snd ps =? best) (renk (map f) scored)
                 = renk (map f) (filter (fun ps : list C * Z => snd ps =? best) scored)).
    { unfold renk. apply filter_map_eqv. intros x. reflexivity. }
    rewrite Ef. set (top := filter _ scored).
    assert (Em : map (fun ps : list C * Z => firstn n (fst ps)) (renk (map f) top)
                 = map (map f) (map (fun ps : list C * Z => firstn n (fst ps)) top)).
    { unfold renk. apply map_map_eqv. intros x. cbn [fst]. apply firstn_map. }
    rewrite Em. destruct (map _ top) as [|pre rest]; [reflexivity|]. cbn [map].
    rewrite (forallb_map_eqv (map f) (clist_eqb pre)) by (intros x; apply clist_eqb_ren).
    destruct (forallb (clist_eqb pre) rest); [|reflexivity]. cbn [ren_cres]. rewrite ren_res_map_cand. reflexivity.
  Qed.

  (* the building blocks as a theorem of their own *)
  Theorem condorcet_blocks_ren v t :
    candidates (renp v) = map f (candidates v) /\ pairwise_wins (renp v) t = map rp (pairwise_wins v t) /\
    beat_counts (renp v) = renl f (beat_counts v) /\ complete (renp v) = renp (complete v).
  Proof. repeat split; [apply candidates_ren|apply pairwise_wins_ren|apply beat_counts_ren|apply complete_ren]. Qed.
End CREN.
