(* Majority judgment, default tie-break (Model/Cardinal.v mj_default): the loop removes [mj_ch] copies of the
   current median grade of every candidate still level in ONE step.  Here: that step equals [mj_ch] successive
   removals of one median grade each (the documented Balinski-Laraki rule), because the medians of all these
   candidates stay what they are during the first mj_ch - 1 single removals. *)
From Coq Require Import ZArith QArith Qround Qabs List Bool Arith Lia Lqa Sorting.Sorted.
From VL Require Import Prelude.PyDict Model.GetNBest Model.Convert Model.Cardinal Proofs.QOrd Proofs.MJ_proofs.
Import ListNotations.
Open Scope Q_scope.

(* ================================================================ counting in lists of grades *)
Definition cnt (p : Q -> bool) (l : list Q) : nat := length (filter p l).
Definition ltv (v y : Q) : bool := negb (Qle_bool v y).      (* y < v *)
Definition lev (v y : Q) : bool := Qle_bool y v.             (* y <= v *)

Lemma cnt_cons p x l : cnt p (x :: l) = ((if p x then 1 else 0) + cnt p l)%nat.
Proof. unfold cnt. cbn [filter]. destruct (p x); reflexivity. Qed.

Lemma cnt_app p a b : cnt p (a ++ b) = (cnt p a + cnt p b)%nat.
Proof. unfold cnt. rewrite filter_app, app_length. reflexivity. Qed.

Lemma cnt_insert p x l : cnt p (insert_q x l) = cnt p (x :: l).
Proof.
  induction l as [|y t IH]; [reflexivity|]. cbn [insert_q]. destruct (Qle_bool x y); [reflexivity|].
  rewrite cnt_cons, IH, !cnt_cons. lia.
Qed.

Lemma cnt_sort p l : cnt p (sort_q l) = cnt p l.
Proof.
  unfold sort_q. induction l as [|x l IH]; [reflexivity|]. cbn [fold_right]. rewrite cnt_insert, !cnt_cons, IH. reflexivity.
Qed.

Lemma cnt_true l : cnt (fun _ => true) l = length l.
Proof. unfold cnt. induction l as [|x l IH]; [reflexivity|]. cbn [filter length]. rewrite IH. reflexivity. Qed.

Lemma length_sort l : length (sort_q l) = length l.
Proof. rewrite <- !cnt_true. apply cnt_sort. Qed.

Lemma cnt_none p l : Forall (fun z => p z = false) l -> cnt p l = 0%nat.
Proof. induction 1 as [|z l Hz _ IH]; [reflexivity|]. rewrite cnt_cons, Hz, IH. reflexivity. Qed.

Lemma cnt_mono p q l : (forall z, p z = true -> q z = true) -> (cnt p l <= cnt q l)%nat.
Proof.
  intros H. induction l as [|z l IH]; [apply le_n|]. rewrite !cnt_cons.
  destruct (p z) eqn:E; [rewrite (H z E); lia|destruct (q z); lia].
Qed.

Lemma cnt_le_length p l : (cnt p l <= length l)%nat.
Proof. rewrite <- cnt_true. apply cnt_mono. reflexivity. Qed.

Lemma insert_q_in x l z : In z (insert_q x l) -> z = x \/ In z l.
Proof.
  induction l as [|y t IH]; cbn [insert_q]; [intros [<-|[]]; left; reflexivity|].
  destruct (Qle_bool x y); [intros [<-|H]; [left; reflexivity|right; exact H]|].
  intros [<-|H]; [right; left; reflexivity|]. destruct (IH H) as [->|H']; [left; reflexivity|right; right; exact H'].
Qed.

Lemma insert_q_sorted x l : StronglySorted Qle l -> StronglySorted Qle (insert_q x l).
Proof.
  induction 1 as [|y t Hs IH Hall]; cbn [insert_q]; [constructor; [constructor|constructor]|].
  destruct (Qle_bool x y) eqn:E.
  - apply Qle_bool_iff in E. constructor; [constructor; assumption|]. constructor; [exact E|].
    eapply Forall_impl; [|exact Hall]. intros z Hz. cbv beta in *. lra.
  - assert (Hlt : y < x). { apply Qnot_le_lt. intros Hle. apply Qle_bool_iff in Hle. congruence. }
    constructor; [exact IH|]. apply Forall_forall. intros z Hz. apply insert_q_in in Hz.
    destruct Hz as [->|Hz]; [lra|]. rewrite Forall_forall in Hall. apply Hall, Hz.
Qed.

Lemma sort_q_sorted l : StronglySorted Qle (sort_q l).
Proof. unfold sort_q. induction l as [|x l IH]; [constructor|]. cbn [fold_right]. apply insert_q_sorted, IH. Qed.

(* the element at position i of a sorted list: at most i grades are below it, more than i are not above it *)
Lemma sorted_nth_counts s : StronglySorted Qle s -> forall i, (i < length s)%nat ->
  (cnt (ltv (nth i s 0%Q)) s <= i)%nat /\ (i < cnt (lev (nth i s 0%Q)) s)%nat.
Proof.
  induction 1 as [|y t Hs IH Hall]; intros i Hi; [cbn in Hi; lia|].
  rewrite Forall_forall in Hall. destruct i as [|i]; cbn [nth].
  - rewrite !cnt_cons. split.
    + assert (E : ltv y y = false) by (unfold ltv; apply negb_false_iff, Qle_bool_iff; lra). rewrite E.
      rewrite (cnt_none (ltv y) t); [lia|]. apply Forall_forall. intros z Hz. unfold ltv.
      apply negb_false_iff, Qle_bool_iff, Hall, Hz.
    + assert (E : lev y y = true) by (unfold lev; apply Qle_bool_iff; lra). rewrite E. lia.
  - cbn [length] in Hi. destruct (IH i ltac:(lia)) as (H1 & H2). set (x := nth i t 0) in *.
    assert (Hyx : y <= x) by (apply Hall, nth_In; lia).
    rewrite !cnt_cons. assert (E : lev x y = true) by (unfold lev; apply Qle_bool_iff; exact Hyx). rewrite E.
    split; [destruct (ltv x y); lia|lia].
Qed.

(* ... and a value with that counting property is that element *)
Lemma sorted_nth_unique s v i : StronglySorted Qle s -> (i < length s)%nat ->
  (cnt (ltv v) s <= i)%nat -> (i < cnt (lev v) s)%nat -> nth i s 0 == v.
Proof.
  intros Hs Hi H1 H2. destruct (sorted_nth_counts s Hs i Hi) as (G1 & G2). set (x := nth i s 0) in *.
  destruct (Q_dec x v) as [[Hlt|Hgt]|Heq]; [| |exact Heq]; exfalso.
  - assert (cnt (lev x) s <= cnt (ltv v) s)%nat; [|lia]. apply cnt_mono. intros z Hz. unfold lev, ltv in *.
    apply Qle_bool_iff in Hz. apply negb_true_iff. destruct (Qle_bool v z) eqn:E; [apply Qle_bool_iff in E; lra|reflexivity].
  - assert (cnt (lev v) s <= cnt (ltv x) s)%nat; [|lia]. apply cnt_mono. intros z Hz. unfold lev, ltv in *.
    apply Qle_bool_iff in Hz. apply negb_true_iff. destruct (Qle_bool x z) eqn:E; [apply Qle_bool_iff in E; lra|reflexivity].
Qed.

(* the index of the lower median *)
Definition midx (n : nat) : nat := if Nat.even n then (n / 2 - 1)%nat else (n / 2)%nat.

Lemma midx_bounds n : (1 <= n)%nat -> (2 * midx n + 1 <= n /\ n <= 2 * midx n + 2)%nat.
Proof.
  intros Hn. unfold midx. destruct (Nat.even n) eqn:E.
  - apply Nat.even_spec in E. destruct E as [k ->]. rewrite (Nat.mul_comm 2 k), Nat.div_mul by lia. lia.
  - assert (Ho : Nat.odd n = true) by (unfold Nat.odd; rewrite E; reflexivity).
    apply Nat.odd_spec in Ho. destruct Ho as [k ->].
    pose proof (Nat.div_mod (2 * k + 1) 2 ltac:(lia)) as Hd.
    pose proof (Nat.mod_upper_bound (2 * k + 1) 2 ltac:(lia)) as Hm. lia.
Qed.

(* ================================================================ score -> count dictionaries *)
(* how many expanded grades satisfy p *)
Definition wcnt (p : Q -> bool) (d : cscores) : nat :=
  fold_right (fun (sn : Q * Z) acc => ((if p (fst sn) then Z.to_nat (snd sn) else 0) + acc)%nat) 0%nat d.

Lemma wcnt_cons p sn d : wcnt p (sn :: d) = ((if p (fst sn) then Z.to_nat (snd sn) else 0) + wcnt p d)%nat.
Proof. reflexivity. Qed.

Lemma cnt_repeat p s n : cnt p (repeat s n) = if p s then n else 0%nat.
Proof.
  induction n as [|n IH]; cbn [repeat]; [destruct (p s); reflexivity|]. rewrite cnt_cons, IH. destruct (p s); reflexivity.
Qed.

Lemma cnt_expand p d : cnt p (expand d) = wcnt p d.
Proof.
  unfold expand. induction d as [|sn d IH]; [reflexivity|]. cbn [flat_map]. rewrite wcnt_cons.
  rewrite cnt_app, cnt_repeat, IH. reflexivity.
Qed.

Definition cs_nonneg (d : cscores) : Prop := Forall (fun sn : Q * Z => (0 <= snd sn)%Z) d.
(* the keys are distinct as numbers (dictionaries built by cs_set are) *)
Fixpoint cs_distinct (d : cscores) : Prop :=
  match d with
  | [] => True
  | sn :: t => (forall sn', In sn' t -> ~ fst sn' == fst sn) /\ cs_distinct t
  end.

Lemma fold_add_shift (l : list Z) : forall x, fold_left Z.add l x = (x + fold_left Z.add l 0)%Z.
Proof. induction l as [|y l IH]; intros x; cbn [fold_left]; [lia|]. rewrite IH, (IH (0 + y)%Z). lia. Qed.

(* the integer sums of the model count expanded grades *)
Lemma zsum_filter_wcnt (p : Q -> bool) d : cs_nonneg d ->
  fold_left Z.add (map snd (filter (fun sn : Q * Z => p (fst sn)) d)) 0%Z = Z.of_nat (wcnt p d).
Proof.
  induction 1 as [|sn d Hsn _ IH]; [reflexivity|]. cbn [filter]. rewrite wcnt_cons. cbv beta in Hsn.
  destruct (p (fst sn)); [|rewrite IH; reflexivity].
  cbn [map fold_left]. rewrite fold_add_shift, IH. lia.
Qed.

Lemma cs_total_wcnt d : cs_nonneg d -> cs_total d = Z.of_nat (wcnt (fun _ => true) d).
Proof.
  intros H. unfold cs_total. rewrite <- (zsum_filter_wcnt (fun _ => true) d H).
  f_equal. f_equal. induction d as [|sn d IH]; [reflexivity|]. cbn [filter]. f_equal. apply IH. inversion H; assumption.
Qed.

Lemma wcnt_length d : wcnt (fun _ => true) d = length (expand d).
Proof. rewrite <- cnt_expand. apply cnt_true. Qed.

(* setting the count of an existing key *)
Lemma cs_set_existing p d m k y : cs_distinct d -> In (m, k) d ->
  cs_get d m = Some k /\
  (wcnt p (cs_set d m y) + (if p m then Z.to_nat k else 0) = wcnt p d + (if p m then Z.to_nat y else 0))%nat /\
  map fst (cs_set d m y) = map fst d /\
  cs_distinct (cs_set d m y) /\
  (cs_nonneg d -> (0 <= y)%Z -> cs_nonneg (cs_set d m y)).
Proof.
  induction d as [|[s' k'] t IH]; intros Hd Hin; [destruct Hin|].
  cbn [cs_distinct fst] in Hd. destruct Hd as (Hhead & Ht). cbn [cs_get cs_set].
  destruct (Qeq_bool m s') eqn:E.
  - apply Qeq_bool_iff in E.
    assert (Heq : (m, k) = (s', k')).
    { destruct Hin as [H|H]; [symmetry; exact H|]. exfalso. apply (Hhead _ H). exact E. }
    injection Heq as <- <-. split; [reflexivity|]. split; [rewrite !wcnt_cons; cbn [fst snd]; destruct (p m); lia|].
    split; [reflexivity|]. split.
    + cbn [cs_distinct fst]. split; assumption.
    + intros Hn Hy. inversion Hn; subst. constructor; [exact Hy|assumption].
  - assert (Hin' : In (m, k) t).
    { destruct Hin as [H|H]; [|exact H]. injection H as -> ->. exfalso.
      assert (Qeq_bool m m = true) by (apply Qeq_bool_iff; reflexivity). congruence. }
    destruct (IH Ht Hin') as (I1 & I2 & I3 & I4 & I5). split; [exact I1|]. split; [rewrite !wcnt_cons; lia|].
    split; [cbn [map fst]; rewrite I3; reflexivity|]. split.
    + cbn [cs_distinct fst]. split; [|exact I4]. intros sn' Hsn'.
      assert (Hk : In (fst sn') (map fst t)) by (rewrite <- I3; apply in_map, Hsn').
      apply in_map_iff in Hk. destruct Hk as (sn2 & Hf & Hin2). rewrite <- Hf. apply Hhead, Hin2.
    + intros Hn Hy. inversion Hn; subst. constructor; [assumption|apply I5; assumption].
Qed.

Lemma cs_get_set d m x : cs_get (cs_set d m x) m = Some x.
Proof.
  induction d as [|[s' k'] t IH]; cbn [cs_set cs_get].
  - assert (Qeq_bool m m = true) as -> by (apply Qeq_bool_iff; reflexivity). reflexivity.
  - destruct (Qeq_bool m s') eqn:E; cbn [cs_get]; rewrite E; [reflexivity|exact IH].
Qed.

Lemma cs_set_set d m x y : cs_set (cs_set d m x) m y = cs_set d m y.
Proof.
  induction d as [|[s' k'] t IH]; cbn [cs_set].
  - assert (Qeq_bool m m = true) as -> by (apply Qeq_bool_iff; reflexivity). reflexivity.
  - destruct (Qeq_bool m s') eqn:E; cbn [cs_set]; rewrite E; [reflexivity|rewrite IH; reflexivity].
Qed.

(* ================================================================ the lower median through counts *)
Lemma sort_q_in l z : In z (sort_q l) -> In z l.
Proof.
  unfold sort_q. induction l as [|x l IH]; [intros []|]. cbn [fold_right]. intros H. apply insert_q_in in H.
  destruct H as [->|H]; [left; reflexivity|right; apply IH, H].
Qed.

Lemma expand_in d z : In z (expand d) -> In z (map fst d).
Proof.
  unfold expand. intros H. apply in_flat_map in H. destruct H as (sn & Hin & Hr). apply repeat_spec in Hr. subst z.
  apply in_map, Hin.
Qed.

Lemma median_unfold d :
  aggregate_one FMedianLow d =
  match expand d with
  | [] => inr SE_stats
  | _ => inl (nth (midx (length (expand d))) (sort_q (expand d)) 0)
  end.
Proof.
  unfold aggregate_one. destruct (expand d) as [|x l] eqn:E; [reflexivity|]. cbv zeta. rewrite length_sort. reflexivity.
Qed.

Lemma median_unfold_ne d : (1 <= length (expand d))%nat ->
  aggregate_one FMedianLow d = inl (nth (midx (length (expand d))) (sort_q (expand d)) 0).
Proof. intros H. rewrite median_unfold. destruct (expand d); [cbn in H; lia|reflexivity]. Qed.

Lemma median_counts d m : aggregate_one FMedianLow d = inl m ->
  let N := length (expand d) in
  (1 <= N)%nat /\ (wcnt (ltv m) d <= midx N)%nat /\ (midx N < wcnt (lev m) d)%nat /\ In m (map fst d).
Proof.
  rewrite median_unfold. destruct (expand d) as [|x l] eqn:E; [discriminate|]. rewrite <- E. intros [= <-]. cbv zeta.
  assert (HN : (1 <= length (expand d))%nat) by (rewrite E; cbn; lia).
  destruct (midx_bounds _ HN) as (B1 & B2).
  assert (Hi : (midx (length (expand d)) < length (sort_q (expand d)))%nat) by (rewrite length_sort; lia).
  destruct (sorted_nth_counts _ (sort_q_sorted (expand d)) _ Hi) as (H1 & H2).
  rewrite !cnt_sort, !cnt_expand in H1, H2. split; [exact HN|]. split; [exact H1|]. split; [exact H2|].
  apply expand_in, sort_q_in, nth_In, Hi.
Qed.

Lemma median_of_counts d v : let N := length (expand d) in
  (1 <= N)%nat -> (wcnt (ltv v) d <= midx N)%nat -> (midx N < wcnt (lev v) d)%nat ->
  exists x, aggregate_one FMedianLow d = inl x /\ x == v /\ In x (map fst d).
Proof.
  cbv zeta. intros HN H1 H2. rewrite (median_unfold_ne d HN).
  destruct (midx_bounds _ HN) as (B1 & B2).
  assert (Hi : (midx (length (expand d)) < length (sort_q (expand d)))%nat) by (rewrite length_sort; lia).
  eexists. split; [reflexivity|]. split.
  - apply sorted_nth_unique; [apply sort_q_sorted|exact Hi| |]; rewrite cnt_sort, cnt_expand; assumption.
  - apply expand_in, sort_q_in, nth_In, Hi.
Qed.

Lemma wcnt_ext p q d : (forall sn, In sn d -> p (fst sn) = q (fst sn)) -> wcnt p d = wcnt q d.
Proof.
  induction d as [|sn d IH]; intros H; [reflexivity|]. rewrite !wcnt_cons, (H sn (or_introl eq_refl)), IH; [reflexivity|].
  intros sn' Hin. apply H. right. exact Hin.
Qed.

Lemma wcnt_compl p d : (wcnt (fun s => negb (p s)) d + wcnt p d = wcnt (fun _ => true) d)%nat.
Proof. induction d as [|sn d IH]; [reflexivity|]. rewrite !wcnt_cons. destruct (p (fst sn)); cbn [negb]; lia. Qed.

Lemma lev_ltv_neq m s : ~ s == m -> lev m s = ltv m s.
Proof.
  intros Hne. unfold lev, ltv. destruct (Qle_bool s m) eqn:E1, (Qle_bool m s) eqn:E2; cbn [negb]; try reflexivity.
  - apply Qle_bool_iff in E1, E2. exfalso. apply Hne. lra.
  - exfalso. destruct (Qle_bool_total s m) as [H|H]; congruence.
Qed.

(* the grades equal to the key m are exactly its count *)
Lemma wcnt_level d m k : cs_distinct d -> In (m, k) d -> (wcnt (lev m) d = wcnt (ltv m) d + Z.to_nat k)%nat.
Proof.
  induction d as [|[s' k'] t IH]; intros Hd Hin; [destruct Hin|].
  cbn [cs_distinct fst] in Hd. destruct Hd as (Hhead & Ht). rewrite !wcnt_cons. cbn [fst snd].
  destruct Hin as [H|H].
  - injection H as -> ->. rewrite (wcnt_ext (lev m) (ltv m) t).
    + assert (lev m m = true) as -> by (unfold lev; apply Qle_bool_iff; lra).
      assert (ltv m m = false) as -> by (unfold ltv; apply negb_false_iff, Qle_bool_iff; lra). lia.
    + intros sn Hsn. apply lev_ltv_neq, Hhead, Hsn.
  - rewrite (IH Ht H). rewrite (lev_ltv_neq m s'); [lia|]. intros He. apply (Hhead _ H). cbn [fst]. symmetry. exact He.
Qed.

Lemma distinct_key_eq d x m : cs_distinct d -> In x (map fst d) -> In m (map fst d) -> x == m -> x = m.
Proof.
  induction d as [|[s' k'] t IH]; intros Hd Hx Hm He; [destruct Hx|].
  cbn [cs_distinct fst] in Hd. destruct Hd as (Hhead & Ht). cbn [map fst In] in Hx, Hm.
  destruct Hx as [Hx|Hx], Hm as [Hm|Hm].
  - congruence.
  - subst s'. apply in_map_iff in Hm. destruct Hm as (sn & Hf & Hin). exfalso. apply (Hhead _ Hin). rewrite Hf. symmetry. exact He.
  - subst s'. apply in_map_iff in Hx. destruct Hx as (sn & Hf & Hin). exfalso. apply (Hhead _ Hin). rewrite Hf. exact He.
  - apply IH; assumption.
Qed.

(* ================================================================ the bound of closest_change, per candidate *)
Definition cc_one (d : cscores) (m : Q) : Z :=
  let half := (inject_Z (cs_total d) / 2)%Q in
  let lower := inject_Z (fold_left Z.add (map snd (filter (fun sn : Q * Z => Qle_bool m (fst sn)) d)) 0%Z) in
  let upper := inject_Z (fold_left Z.add (map snd (filter (fun sn : Q * Z => negb (Qle_bool (fst sn) m)) d)) 0%Z) in
  Z.min (Qceiling (Qabs (lower - half))) (Qceiling (Qabs (upper - half))).

Lemma lt_ceiling j q : (j < Qceiling q)%Z -> inject_Z j < q.
Proof.
  intros H. pose proof (Qceiling_lt q) as Hc. assert (Hle : (j <= Qceiling q - 1)%Z) by lia.
  rewrite Zle_Qle in Hle. lra.
Qed.

Lemma half_lt j L T : inject_Z j < inject_Z L - inject_Z T / 2 -> (2 * j < 2 * L - T)%Z.
Proof.
  intros H. rewrite Zlt_Qlt. unfold Z.sub. rewrite inject_Z_plus, inject_Z_opp, !inject_Z_mult.
  change (inject_Z 2) with 2. unfold Qdiv in H. change (/ 2) with (1 # 2) in H. lra.
Qed.

Lemma half_gt j U T : inject_Z j < - (inject_Z U - inject_Z T / 2) -> (2 * j < T - 2 * U)%Z.
Proof.
  intros H. rewrite Zlt_Qlt. unfold Z.sub. rewrite inject_Z_plus, inject_Z_opp, !inject_Z_mult.
  change (inject_Z 2) with 2. unfold Qdiv in H. change (/ 2) with (1 # 2) in H. lra.
Qed.

(* removing j copies of the median grade, j below the bound (or j = 0), leaves the lower median where it is *)
Lemma median_stable d m j : cs_nonneg d -> cs_distinct d -> aggregate_one FMedianLow d = inl m ->
  (0 <= j)%Z -> (j = 0 \/ j < cc_one d m)%Z ->
  exists k, In (m, k) d /\ cs_get d m = Some k /\ (j < k)%Z /\
            aggregate_one FMedianLow (cs_set d m (k - j)) = inl m /\
            cs_nonneg (cs_set d m (k - j)) /\ cs_distinct (cs_set d m (k - j)).
Proof.
  intros Hn Hd Hmed Hj0 Hj.
  destruct (median_counts d m Hmed) as (HN & H1 & H2 & Hkey). cbv zeta in *.
  apply in_map_iff in Hkey. destruct Hkey as ([m' k] & Hf & Hin). cbn [fst] in Hf. subst m'.
  exists k. pose proof (wcnt_level d m k Hd Hin) as Hlev.
  set (N := length (expand d)) in *. set (a := wcnt (ltv m) d) in *. set (ae := wcnt (lev m) d) in *.
  destruct (midx_bounds N HN) as (B1 & B2).
  assert (Hk0 : (0 <= k)%Z). { unfold cs_nonneg in Hn. rewrite Forall_forall in Hn. apply (Hn _ Hin). }
  (* the integers of closest_change *)
  assert (HT : cs_total d = Z.of_nat N) by (rewrite (cs_total_wcnt d Hn), wcnt_length; reflexivity).
  assert (HL : fold_left Z.add (map snd (filter (fun sn : Q * Z => Qle_bool m (fst sn)) d)) 0%Z = Z.of_nat (N - a)).
  { rewrite (zsum_filter_wcnt (fun s => Qle_bool m s) d Hn). f_equal.
    pose proof (wcnt_compl (fun s => Qle_bool m s) d) as Hc. rewrite wcnt_length in Hc. fold N in Hc.
    change (wcnt (fun s => negb (Qle_bool m s)) d) with a in Hc. lia. }
  assert (HU : fold_left Z.add (map snd (filter (fun sn : Q * Z => negb (Qle_bool (fst sn) m)) d)) 0%Z = Z.of_nat (N - ae)).
  { rewrite (zsum_filter_wcnt (fun s => negb (Qle_bool s m)) d Hn). f_equal.
    pose proof (wcnt_compl (fun s => Qle_bool s m) d) as Hc. rewrite wcnt_length in Hc. fold N in Hc.
    change (wcnt (fun s => Qle_bool s m) d) with ae in Hc. lia. }
  assert (HaN : (a <= N /\ ae <= N)%nat).
  { unfold a, ae, N. rewrite <- !cnt_expand. split; apply cnt_le_length. }
  assert (F3 : (j = 0 \/ (2 * j + 1 <= Z.of_nat N - 2 * Z.of_nat a /\ 2 * j + 1 <= 2 * Z.of_nat ae - Z.of_nat N))%Z).
  { destruct Hj as [Hj|Hj]; [left; exact Hj|right]. unfold cc_one in Hj. cbv zeta in Hj. rewrite HT, HL, HU in Hj.
    apply Z.min_glb_lt_iff in Hj. destruct Hj as (Hj1 & Hj2). apply lt_ceiling in Hj1, Hj2.
    assert (P1 : 0 <= inject_Z (Z.of_nat (N - a)) - inject_Z (Z.of_nat N) / 2).
    { assert (Hz : (0 <= 2 * Z.of_nat (N - a) - Z.of_nat N)%Z) by lia. rewrite Zle_Qle in Hz.
      unfold Z.sub in Hz. rewrite inject_Z_plus, inject_Z_opp, inject_Z_mult in Hz. change (inject_Z 2) with 2 in Hz.
      change (inject_Z 0) with 0 in Hz. unfold Qdiv. change (/ 2) with (1 # 2). lra. }
    assert (P2 : inject_Z (Z.of_nat (N - ae)) - inject_Z (Z.of_nat N) / 2 <= 0).
    { assert (Hz : (2 * Z.of_nat (N - ae) - Z.of_nat N <= 0)%Z) by lia. rewrite Zle_Qle in Hz.
      unfold Z.sub in Hz. rewrite inject_Z_plus, inject_Z_opp, inject_Z_mult in Hz. change (inject_Z 2) with 2 in Hz.
      change (inject_Z 0) with 0 in Hz. unfold Qdiv. change (/ 2) with (1 # 2). lra. }
    rewrite (Qabs_pos _ P1) in Hj1. rewrite (Qabs_neg _ P2) in Hj2.
    apply half_lt in Hj1. apply half_gt in Hj2. lia. }
  assert (Hjk : (j < k)%Z) by lia.
  destruct (cs_set_existing (ltv m) d m k (k - j) Hd Hin) as (Hget & Ca & Hkeys & Hd' & Hn').
  destruct (cs_set_existing (lev m) d m k (k - j) Hd Hin) as (_ & Cae & _).
  destruct (cs_set_existing (fun _ => true) d m k (k - j) Hd Hin) as (_ & CN & _).
  assert (lev m m = true) as Elev by (unfold lev; apply Qle_bool_iff; lra).
  assert (ltv m m = false) as Eltv by (unfold ltv; apply negb_false_iff, Qle_bool_iff; lra).
  rewrite Elev in Cae. rewrite Eltv in Ca. rewrite !wcnt_length in CN. fold N a ae in Ca, Cae, CN.
  set (d' := cs_set d m (k - j)) in *. set (N' := length (expand d')) in *.
  split; [exact Hin|]. split; [exact Hget|]. split; [exact Hjk|]. split; [|split; [apply Hn'; [exact Hn|lia]|exact Hd']].
  assert (HN' : (1 <= N')%nat) by lia.
  destruct (midx_bounds N' HN') as (B1' & B2').
  destruct (median_of_counts d' m HN') as (x & Hx & Hxm & Hxin); fold N'; [lia|lia|].
  rewrite Hx. f_equal. apply (distinct_key_eq d x m Hd); [rewrite <- Hkeys; exact Hxin|apply in_map_iff; exists (m, k); auto|exact Hxm].
Qed.

(* ================================================================ all candidates still level *)
Definition cs_ok (cd : C * cscores) : Prop := cs_nonneg (snd cd) /\ cs_distinct (snd cd).
(* [medians] holds the current lower median of every candidate of [sub] *)
Definition medians_of (sub : list (C * cscores)) (medians : list (C * Q)) : Prop :=
  forall cd, In cd sub -> aggregate_one FMedianLow (snd cd) = inl (dget_or medians (fst cd) 0%Q).

(* the documented rule: [k] times, one copy of the current median of every candidate *)
Fixpoint mj_successive (k : nat) (sub : list (C * cscores)) : list (C * cscores) + serr :=
  match k with
  | O => inl sub
  | S k' => match aggregate FMedianLow sub with
            | inr e => inr e
            | inl med => mj_successive k' (mj_remove sub med 1)
            end
  end.

Lemma aggregate_cons fn cd sub :
  aggregate fn (cd :: sub) =
  match aggregate_one fn (snd cd) with
  | inl y => match aggregate fn sub with inl r => inl ((fst cd, y) :: r) | inr e => inr e end
  | inr e => inr e
  end.
Proof. unfold aggregate. cbn [map sequence]. destruct (aggregate_one fn (snd cd)); reflexivity. Qed.

Lemma aggregate_medians_of sub : forall medians, NoDup (map fst sub) ->
  aggregate FMedianLow sub = inl medians -> medians_of sub medians.
Proof.
  induction sub as [|cd sub IH]; intros medians Hnd Ha; [intros ? []|].
  rewrite aggregate_cons in Ha. destruct (aggregate_one FMedianLow (snd cd)) as [y|] eqn:Ey; [|discriminate].
  destruct (aggregate FMedianLow sub) as [r|] eqn:Er; [|discriminate]. injection Ha as <-.
  inversion Hnd as [|? ? Hnotin Hnd']; subst. intros cd' [<-|Hin].
  - unfold dget_or. cbn [dget]. rewrite Dict_proofs.ceqb_refl. exact Ey.
  - unfold dget_or. cbn [dget]. destruct (ceqb (fst cd') (fst cd)) eqn:E.
    + apply Dict_proofs.ceqb_eq in E. exfalso. apply Hnotin. rewrite <- E. apply in_map, Hin.
    + exact (IH r Hnd' eq_refl cd' Hin).
Qed.

Lemma aggregate_total sub : (forall cd, In cd sub -> exists v, aggregate_one FMedianLow (snd cd) = inl v) ->
  exists med, aggregate FMedianLow sub = inl med.
Proof.
  induction sub as [|cd sub IH]; intros H; [exists []; reflexivity|]. rewrite aggregate_cons.
  destruct (H cd (or_introl eq_refl)) as (v & ->).
  destruct IH as (r & ->); [intros cd' Hin; apply H; right; exact Hin|]. eexists. reflexivity.
Qed.

Lemma fold_min_le (l : list Z) : forall x, (fold_left Z.min l x <= x)%Z /\ forall y, In y l -> (fold_left Z.min l x <= y)%Z.
Proof.
  induction l as [|z l IH]; intros x; cbn [fold_left]; [split; [lia|intros ? []]|].
  destruct (IH (Z.min x z)) as (H1 & H2). split; [lia|]. intros y [->|Hy]; [lia|apply H2, Hy].
Qed.

Lemma closest_change_le sub medians cd : In cd sub ->
  (closest_change sub medians <= cc_one (snd cd) (dget_or medians (fst cd) 0%Q))%Z.
Proof.
  intros Hin. unfold closest_change.
  set (per := map (fun cd0 : C * cscores => cc_one (snd cd0) (dget_or medians (fst cd0) 0%Q)) sub).
  change (match per with [] => 0%Z | x :: t => fold_left Z.min t x end <= cc_one (snd cd) (dget_or medians (fst cd) 0%Q))%Z.
  assert (Hp : In (cc_one (snd cd) (dget_or medians (fst cd) 0%Q)) per) by (unfold per; apply in_map_iff; exists cd; auto).
  destruct per as [|x t]; [destruct Hp|]. destruct (fold_min_le t x) as (H1 & H2).
  destruct Hp as [<-|Hp]; [exact H1|exact (H2 _ Hp)].
Qed.

Lemma mj_ch_bound sub medians cd j : In cd sub -> (0 <= j < mj_ch sub medians)%Z ->
  (j = 0 \/ j < cc_one (snd cd) (dget_or medians (fst cd) 0%Q))%Z.
Proof.
  intros Hin Hj. pose proof (closest_change_le sub medians cd Hin) as Hle. unfold mj_ch in Hj. cbv zeta in Hj.
  destruct (closest_change sub medians =? 0)%Z; lia.
Qed.

Lemma mj_remove_in sub medians j cd' : In cd' (mj_remove sub medians j) ->
  exists cd, In cd sub /\ fst cd' = fst cd /\
    snd cd' = cs_set (snd cd) (dget_or medians (fst cd) 0%Q)
                     (match cs_get (snd cd) (dget_or medians (fst cd) 0%Q) with Some k => k | None => 0%Z end - j)%Z.
Proof.
  unfold mj_remove. intros H. apply in_map_iff in H. destruct H as (cd & <- & Hin). exists cd. cbv zeta. auto.
Qed.

(* removing one more copy *)
Lemma mj_remove_compose sub medians j :
  mj_remove (mj_remove sub medians j) medians 1 = mj_remove sub medians (j + 1).
Proof.
  unfold mj_remove. rewrite map_map. apply map_ext. intros cd. cbv zeta. cbn [fst snd].
  rewrite cs_get_set, cs_set_set. f_equal. f_equal. lia.
Qed.

(* the single removal reads the medians of the current state: they are the same numbers *)
Lemma mj_remove_medians_ext sub med med' j :
  (forall cd, In cd sub -> dget_or med (fst cd) 0 = dget_or med' (fst cd) 0%Q) ->
  mj_remove sub med j = mj_remove sub med' j.
Proof. intros H. unfold mj_remove. apply map_ext_in. intros cd Hin. cbv zeta. rewrite (H cd Hin). reflexivity. Qed.

Section Rounds.
  Variable sub : list (C * cscores).
  Variable medians : list (C * Q).
  Hypothesis Hnd : NoDup (map fst sub).
  Hypothesis Hok : Forall cs_ok sub.
  Hypothesis Hmed : medians_of sub medians.

  (* below mj_ch removed copies, every candidate's lower median is what it was, and at least one copy is left *)
  Lemma mj_remove_stable j : (0 <= j < mj_ch sub medians)%Z ->
    medians_of (mj_remove sub medians j) medians /\ Forall cs_ok (mj_remove sub medians j) /\
    forall cd, In cd sub -> exists k, In (dget_or medians (fst cd) 0%Q, k) (snd cd) /\
                                      cs_get (snd cd) (dget_or medians (fst cd) 0%Q) = Some k /\ (j < k)%Z.
  Proof.
    intros Hj. rewrite Forall_forall in Hok.
    assert (Hone : forall cd, In cd sub -> exists k, In (dget_or medians (fst cd) 0%Q, k) (snd cd) /\
              cs_get (snd cd) (dget_or medians (fst cd) 0%Q) = Some k /\ (j < k)%Z /\
              aggregate_one FMedianLow (cs_set (snd cd) (dget_or medians (fst cd) 0%Q) (k - j)) = inl (dget_or medians (fst cd) 0%Q) /\
              cs_ok (fst cd, cs_set (snd cd) (dget_or medians (fst cd) 0%Q) (k - j))).
    { intros cd Hin. destruct (Hok cd Hin) as (Hn & Hd).
      destruct (median_stable (snd cd) (dget_or medians (fst cd) 0%Q) j Hn Hd (Hmed cd Hin) (proj1 Hj) (mj_ch_bound sub medians cd j Hin Hj))
        as (k & Hink & Hget & Hjk & Hagg & Hn' & Hd').
      exists k. repeat split; assumption. }
    split; [|split].
    - intros cd' Hin'. destruct (mj_remove_in _ _ _ _ Hin') as (cd & Hin & Hf & Hs).
      destruct (Hone cd Hin) as (k & _ & Hget & _ & Hagg & _). rewrite Hs, Hf, Hget. exact Hagg.
    - apply Forall_forall. intros cd' Hin'. destruct (mj_remove_in _ _ _ _ Hin') as (cd & Hin & Hf & Hs).
      destruct (Hone cd Hin) as (k & _ & Hget & _ & _ & Hok'). unfold cs_ok in *. rewrite Hs, Hget. exact Hok'.
    - intros cd Hin. destruct (Hone cd Hin) as (k & Hink & Hget & Hjk & _). exists k. auto.
  Qed.

  Lemma mj_remove_keys j : map fst (mj_remove sub medians j) = map fst sub.
  Proof. unfold mj_remove. rewrite map_map. reflexivity. Qed.

  Lemma mj_successive_aux : forall n j, (0 <= j)%Z -> (j + Z.of_nat n <= mj_ch sub medians)%Z ->
    mj_successive n (mj_remove sub medians j) = inl (mj_remove sub medians (j + Z.of_nat n)).
  Proof.
    induction n as [|n IH]; intros j Hj0 Hj.
    - cbn [mj_successive]. f_equal. f_equal. lia.
    - cbn [mj_successive]. destruct (mj_remove_stable j ltac:(lia)) as (Hm & _ & _).
      destruct (aggregate_total (mj_remove sub medians j)) as (med' & Ha).
      { intros cd Hin. eexists. apply (Hm cd Hin). }
      rewrite Ha.
      assert (Hnd' : NoDup (map fst (mj_remove sub medians j))) by (rewrite mj_remove_keys; exact Hnd).
      pose proof (aggregate_medians_of _ _ Hnd' Ha) as Hm'.
      rewrite (mj_remove_medians_ext _ med' medians 1).
      + rewrite mj_remove_compose, (IH (j + 1)%Z) by lia. f_equal. f_equal. lia.
      + intros cd Hin. pose proof (Hm cd Hin) as H1. pose proof (Hm' cd Hin) as H2. congruence.
  Qed.

  (* one multi-copy step = mj_ch successive single-copy steps; in between the medians do not move *)
  Theorem mj_multi_copy_successive :
    (forall j, (0 <= j < mj_ch sub medians)%Z -> medians_of (mj_remove sub medians j) medians) /\
    mj_successive (Z.to_nat (mj_ch sub medians)) sub = inl (mj_remove sub medians (mj_ch sub medians)).
  Proof.
    split; [intros j Hj; apply (mj_remove_stable j Hj)|].
    pose proof (mj_ch_pos sub medians) as Hpos.
    destruct (Z.to_nat (mj_ch sub medians)) as [|n] eqn:En; [lia|]. cbn [mj_successive].
    destruct (aggregate_total sub) as (med' & Ha).
    { intros cd Hin. eexists. apply (Hmed cd Hin). }
    rewrite Ha. pose proof (aggregate_medians_of _ _ Hnd Ha) as Hm'.
    rewrite (mj_remove_medians_ext _ med' medians 1).
    - rewrite (mj_successive_aux n 1) by lia. f_equal. f_equal. lia.
    - intros cd Hin. pose proof (Hmed cd Hin) as H1. pose proof (Hm' cd Hin) as H2. congruence.
  Qed.

  (* the state after the multi-copy step is again a well-formed one *)
  Lemma mj_remove_ch_ok : Forall cs_ok (mj_remove sub medians (mj_ch sub medians)).
  Proof.
    pose proof (mj_ch_pos sub medians) as Hpos.
    destruct (mj_remove_stable (mj_ch sub medians - 1) ltac:(lia)) as (_ & _ & Hk).
    apply Forall_forall. intros cd' Hin'. destruct (mj_remove_in _ _ _ _ Hin') as (cd & Hin & Hf & Hs).
    destruct (Hk cd Hin) as (k & Hink & Hget & Hjk). rewrite Forall_forall in Hok. destruct (Hok cd Hin) as (Hn & Hd).
    destruct (cs_set_existing (fun _ => true) (snd cd) _ k (k - mj_ch sub medians) Hd Hink) as (_ & _ & _ & Hd' & Hn').
    unfold cs_ok. rewrite Hs, Hget. split; [apply Hn'; [exact Hn|lia]|exact Hd'].
  Qed.
End Rounds.

(* ================================================================ the round of mj_default *)
(* one round of the removal loop (MJ_proofs.mj_round: only the candidates T on the shared highest median stay, and
   mj_ch copies of the median grade leave each of them at once) is mj_ch rounds of the documented one-at-a-time
   rule among T; during these the medians of T do not move (nobody falls behind, nobody gets ahead), and the
   state after the round is again well-formed *)
Theorem mj_round_successive sub medians T :
  NoDup (map fst sub) -> Forall cs_ok sub -> aggregate FMedianLow sub = inl medians ->
  let lvl := mj_level sub T in
  let ch := mj_ch lvl medians in
  mj_successive (Z.to_nat ch) lvl = inl (mj_round sub medians T) /\
  (forall j, (0 <= j < ch)%Z -> medians_of (mj_remove lvl medians j) medians) /\
  NoDup (map fst (mj_round sub medians T)) /\ Forall cs_ok (mj_round sub medians T).
Proof.
  intros Hnd Hok Ha. cbv zeta.
  assert (Hnd' : NoDup (map fst (mj_level sub T))) by (apply filter_keys_NoDup_gen, Hnd).
  assert (Hok' : Forall cs_ok (mj_level sub T)).
  { rewrite Forall_forall in *. intros cd Hin. apply filter_In in Hin. apply Hok, Hin. }
  assert (Hm' : medians_of (mj_level sub T) medians).
  { intros cd Hin. apply filter_In in Hin. apply (aggregate_medians_of sub medians Hnd Ha), Hin. }
  destruct (mj_multi_copy_successive _ _ Hnd' Hok' Hm') as (H1 & H2).
  split; [exact H2|]. split; [exact H1|]. split.
  - rewrite mj_round_keys. exact Hnd'.
  - exact (mj_remove_ch_ok _ _ Hok' Hm').
Qed.

(* the hypotheses hold on two candidates that share the median 1 over seven grades each; two copies go at once *)
Definition ex_sub : list (C * cscores) :=
  [(1%positive, [(0, 1%Z); (1, 5%Z); (2, 1%Z)]); (2%positive, [(0, 2%Z); (1, 3%Z); (2, 2%Z)])].
Definition ex_med : list (C * Q) := [(1%positive, 1); (2%positive, 1)].

Lemma mj_multi_copy_example :
  NoDup (map fst ex_sub) /\ Forall cs_ok ex_sub /\ aggregate FMedianLow ex_sub = inl ex_med /\
  mj_ch ex_sub ex_med = 2%Z /\
  mj_successive 2 ex_sub = inl (mj_remove ex_sub ex_med 2).
Proof.
  split; [repeat constructor; cbn; intuition discriminate|]. split.
  - repeat constructor; cbn; try lia; try (intros sn' [<-|[<-|[]]]; cbn; intros H; discriminate H);
      try (intros sn' [<-|[]]; cbn; intros H; discriminate H); try (intros sn' []).
  - split; [vm_compute; reflexivity|]. split; vm_compute; reflexivity.
Qed.
