(* Lemmas for property C07, part 6: TERMINATION of tie-and-transfer (the whole-loop model Model/BipropLoop.v).

   1. the labelling search [_labeled] computes exactly the set of districts / parties reachable from the over-represented
      districts along tied cells (sound: every label is reachable; complete: when the search ends without reaching an
      under-represented district it is closed under the two labelling rules); its label dictionaries have no repeated key;
      its fuel and the fuel of the path walk are never exhausted;
   2. the multiplier update: the accepted adjustment coefficient is ATTAINED at a cell (labelled district x unlabelled
      party at its lower signpost, or unlabelled district x labelled party at its upper signpost); the update leaves the
      quotient of every cell between two labelled lines alone, so every label survives it, and it puts the attaining cell
      exactly on a signpost: in the next iteration either one more line is labelled or the adjustment coefficient is >= 1
      (a refusal).  Hence at most |districts| + |parties| + 1 multiplier updates follow one another;
   3. with the transfer bound flaw/2 of Proofs/BipropProgress_proofs.v: from any state satisfying the loop invariant the loop
      ends within (flaw/2 + 1) * (|districts| + |parties| + 2) iterations - [BP_out_of_fuel] is unreachable. *)
From Coq Require Import ZArith QArith Qround List Bool Lia Lqa Arith Permutation.
From VL Require Import Prelude.PyDict Model.Divisor Model.HighestAverages Model.Biprop Model.BipropLoop
     Proofs.Dict_proofs Proofs.Divisor_proofs Proofs.Biprop_proofs Proofs.Biprop_steps Proofs.BipropLoop_proofs
     Proofs.BipropInit_proofs Proofs.BipropProgress_proofs.
Import ListNotations.
Open Scope Z_scope.

(* ------------------------------------------------------------------ dictionaries, lists *)
Lemma dmem_keys {X} (L : list (C * X)) k : dmem L k = true <-> In k (map fst L).
Proof.
  unfold dmem. destruct (dget L k) as [v|] eqn:E.
  - split; [intros _; apply (dget_In_key _ _ _ E)|reflexivity].
  - split; [discriminate|]. intros H. exfalso. apply (dget_none_notin _ _ E H).
Qed.

Lemma fold_left_ext_in {A B} (f g : A -> B -> A) (l : list B) : (forall a x, In x l -> f a x = g a x) ->
  forall a, fold_left f l a = fold_left g l a.
Proof.
  induction l as [|x l IH]; intros H a; simpl; [reflexivity|].
  rewrite (H a x (or_introl eq_refl)). apply IH. intros a' x' Hx. apply H. right. exact Hx.
Qed.

Lemma nodup_app_key {X} (L : list (C * X)) k v : NoDup (map fst L) -> ~ In k (map fst L) -> NoDup (map fst (L ++ [(k, v)])).
Proof.
  intros Hnd Hk. rewrite map_app. simpl. induction (map fst L) as [|x l IH]; simpl.
  - constructor; [tauto|constructor].
  - inversion Hnd as [|? ? Hx Hl]; subst. constructor.
    + intros Hi. apply in_app_or in Hi. destruct Hi as [Hi|[Hi|[]]]; [tauto|]. subst. apply Hk. left. reflexivity.
    + apply IH; [exact Hl|]. intros Hi. apply Hk. right. exact Hi.
Qed.

Lemma nodup_app_r {X} (l l' : list X) : NoDup (l ++ l') -> NoDup l'.
Proof. induction l as [|x l IH]; simpl; [auto|]. intros H. inversion H; subst. apply IH. assumption. Qed.

Lemma length_incl_le (l l' : list C) : NoDup l -> incl l l' -> (length l <= length l')%nat.
Proof. intros H1 H2. apply (NoDup_incl_length H1 H2). Qed.

(* ------------------------------------------------------------------ the two sweeps of _labeled, generically *)
Section GSweep.
  Context {V : Type}.
  Variables avail test : C -> C -> bool.     (* outer node, inner node *)
  Variable val : C -> V.

  Definition gstep (o : C) (acc : option (list (C * V))) (k : C) : option (list (C * V)) :=
    match acc with
    | None => None
    | Some L => if dmem L k then Some L
                else if avail o k then (if test o k then Some (L ++ [(k, val o)]) else Some L) else None
    end.
  Definition gsweep (outer inner : list C) (acc : option (list (C * V))) : option (list (C * V)) :=
    fold_left (fun acc o => fold_left (gstep o) inner acc) outer acc.

  Lemma ginner_none o inner : fold_left (gstep o) inner None = None.
  Proof. induction inner as [|k t IH]; simpl; [reflexivity|exact IH]. Qed.
  Lemma gsweep_none outer inner : gsweep outer inner None = None.
  Proof. unfold gsweep. induction outer as [|o t IH]; simpl; [reflexivity|]. rewrite ginner_none. exact IH. Qed.

  Lemma ginner_spec o : forall inner L L', fold_left (gstep o) inner (Some L) = Some L' ->
    exists add, L' = L ++ add /\
      (forall k v, In (k, v) add -> In k inner /\ v = val o /\ test o k = true) /\
      (NoDup (map fst L) -> NoDup (map fst L')) /\
      (forall k, In k inner -> test o k = true -> In k (map fst L')) /\
      (forall k, In k inner -> ~ In k (map fst L') -> avail o k = true).
  Proof.
    induction inner as [|k t IH]; intros L L' H; simpl in H.
    - injection H as <-. exists []. rewrite app_nil_r. split; [reflexivity|]. split; [intros ? ? []|]. split; [auto|]. split; intros ? [].
    - destruct (dmem L k) eqn:Em.
      + destruct (IH L L' H) as (add & E & A & N & Cl & Av). exists add. split; [exact E|]. split; [|split; [exact N|split]].
        * intros k0 v0 H0. destruct (A k0 v0 H0) as (H1 & H2 & H3). split; [right; exact H1|]. split; assumption.
        * intros k0 [<-|H0] Ht; [|apply Cl; assumption]. subst L'. rewrite map_app. apply in_or_app. left. apply dmem_keys, Em.
        * intros k0 [<-|H0] Hn; [|apply Av; assumption]. exfalso. apply Hn. subst L'. rewrite map_app. apply in_or_app. left. apply dmem_keys, Em.
      + destruct (avail o k) eqn:Ea; [|rewrite ginner_none in H; discriminate].
        destruct (test o k) eqn:Et.
        * destruct (IH _ L' H) as (add & E & A & N & Cl & Av). exists ((k, val o) :: add).
          split; [rewrite E, <- app_assoc; reflexivity|]. split; [|split; [|split]].
          -- intros k0 v0 [H0|H0]; [injection H0 as <- <-; split; [left; reflexivity|split; [reflexivity|exact Et]]|].
             destruct (A k0 v0 H0) as (H1 & H2 & H3). split; [right; exact H1|]. split; assumption.
          -- intros Hnd. apply N. apply nodup_app_key; [exact Hnd|]. intros Hi. apply dmem_keys in Hi. congruence.
          -- intros k0 [<-|H0] Ht; [|apply Cl; assumption]. subst L'. rewrite !map_app. apply in_or_app. left. apply in_or_app. right. left. reflexivity.
          -- intros k0 [<-|H0] Hn; [exact Ea|apply Av; assumption].
        * destruct (IH L L' H) as (add & E & A & N & Cl & Av). exists add. split; [exact E|]. split; [|split; [exact N|split]].
          -- intros k0 v0 H0. destruct (A k0 v0 H0) as (H1 & H2 & H3). split; [right; exact H1|]. split; assumption.
          -- intros k0 [<-|H0] Ht; [congruence|apply Cl; assumption].
          -- intros k0 [<-|H0] Hn; [exact Ea|apply Av; assumption].
  Qed.

  Lemma gsweep_spec inner : forall outer L L', gsweep outer inner (Some L) = Some L' ->
    exists add, L' = L ++ add /\
      (forall k v, In (k, v) add -> In k inner /\ exists o, In o outer /\ v = val o /\ test o k = true) /\
      (NoDup (map fst L) -> NoDup (map fst L')) /\
      (forall o k, In o outer -> In k inner -> test o k = true -> In k (map fst L')) /\
      (forall o k, In o outer -> In k inner -> ~ In k (map fst L') -> avail o k = true).
  Proof.
    unfold gsweep. induction outer as [|o t IH]; intros L L' H; simpl in H.
    - injection H as <-. exists []. rewrite app_nil_r. split; [reflexivity|]. split; [intros ? ? []|]. split; [auto|]. split; intros ? ? [].
    - destruct (fold_left (gstep o) inner (Some L)) as [L1|] eqn:E1; [|pose proof (gsweep_none t inner) as Hn; unfold gsweep in Hn; rewrite Hn in H; discriminate].
      destruct (ginner_spec o inner L L1 E1) as (a1 & Ea1 & A1 & N1 & C1 & V1).
      destruct (IH L1 L' H) as (a2 & Ea2 & A2 & N2 & C2 & V2).
      exists (a1 ++ a2). split; [rewrite Ea2, Ea1, app_assoc; reflexivity|]. split; [|split; [|split]].
      + intros k v Hin. apply in_app_or in Hin. destruct Hin as [Hin|Hin].
        * destruct (A1 k v Hin) as (H1 & H2 & H3). split; [exact H1|]. exists o. split; [left; reflexivity|]. split; assumption.
        * destruct (A2 k v Hin) as (H1 & o' & H2 & H3). split; [exact H1|]. exists o'. split; [right; exact H2|exact H3].
      + intros Hnd. apply N2, N1, Hnd.
      + intros o' k [<-|Ho] Hk Ht; [|apply (C2 o' k Ho Hk Ht)].
        pose proof (C1 k Hk Ht) as Hin. rewrite Ea2, map_app. apply in_or_app. left. exact Hin.
      + intros o' k [<-|Ho] Hk Hn; [|apply (V2 o' k Ho Hk Hn)].
        apply (V1 k Hk). intros Hin. apply Hn. rewrite Ea2, map_app. apply in_or_app. left. exact Hin.
  Qed.
End GSweep.

(* ------------------------------------------------------------------ _labeled = reachability along tied cells *)
Section Lab.
  Variable q : Q.
  Variable quots : qmat.
  Variable res : mat.
  Variables sp dl0 : list C.          (* sorted parties; quotients.keys() *)
  Variables under over : list C.
  Hypothesis Hover : NoDup over.

  Definition availd (i : C) : bool :=
    match dget quots i, dget res i with Some _, Some _ => true | _, _ => false end.
  Definition dtest (i j : C) : bool :=
    match dget quots i, dget res i with
    | Some qr, Some rr => is_downgradable q (dget_or qr j 0%Q) (dget_or rr j 0)
    | _, _ => false
    end.
  Definition utest (i j : C) : bool :=
    match dget quots i, dget res i with
    | Some qr, Some rr => is_upgradable q (dget_or qr j 0%Q) (dget_or rr j 0)
    | _, _ => false
    end.

  Lemma down_scan_gstep i acc j :
    down_scan q quots res i acc j = gstep (fun o _ => availd o) dtest (fun o => o) i acc j.
  Proof.
    unfold down_scan, gstep, availd, dtest. destruct acc as [LP|]; [|reflexivity]. destruct (dmem LP j); [reflexivity|].
    destruct (dget quots i); [|reflexivity]. destruct (dget res i); reflexivity.
  Qed.
  Lemma up_scan_gstep j acc i :
    up_scan q quots res j acc i = gstep (fun _ k => availd k) (fun o k => utest k o) (fun o => Some o) j acc i.
  Proof.
    unfold up_scan, gstep, availd, utest. destruct acc as [LD|]; [|reflexivity]. destruct (dmem LD i); [reflexivity|].
    destruct (dget quots i); [|reflexivity]. destruct (dget res i); reflexivity.
  Qed.

  Lemma down_sweep_g dl acc :
    fold_left (fun acc i => fold_left (down_scan q quots res i) sp acc) dl acc
    = gsweep (fun o _ => availd o) dtest (fun o => o) dl sp acc.
  Proof.
    unfold gsweep. apply fold_left_ext_in. intros a i _. apply fold_left_ext_in. intros a' j _. apply down_scan_gstep.
  Qed.
  Lemma up_sweep_g pl acc :
    fold_left (fun acc j => fold_left (up_scan q quots res j) dl0 acc) pl acc
    = gsweep (fun _ k => availd k) (fun o k => utest k o) (fun o => Some o) pl dl0 acc.
  Proof.
    unfold gsweep. apply fold_left_ext_in. intros a j _. apply fold_left_ext_in. intros a' i _. apply up_scan_gstep.
  Qed.

  Lemma dtest_Down i j : dtest i j = true <-> Down q quots res i j.
  Proof.
    unfold dtest, Down. split.
    - destruct (dget quots i) as [qr|]; [|discriminate]. destruct (dget res i) as [rr|]; [|discriminate].
      intros H. exists qr, rr. auto.
    - intros (qr & rr & -> & -> & H). exact H.
  Qed.
  Lemma utest_Up i j : utest i j = true <-> Up q quots res i j.
  Proof.
    unfold utest, Up. split.
    - destruct (dget quots i) as [qr|]; [|discriminate]. destruct (dget res i) as [rr|]; [|discriminate].
      intros H. exists qr, rr. auto.
    - intros (qr & rr & -> & -> & H). exact H.
  Qed.

  (* nodes: inl = a district, inr = a party *)
  Inductive Reach : C + C -> Prop :=
  | R_over i : In i over -> Reach (inl i)
  | R_down i p : Reach (inl i) -> In p sp -> dtest i p = true -> Reach (inr p)
  | R_up p i : Reach (inr p) -> In i dl0 -> utest i p = true -> Reach (inl i).

  Definition LD0 : LDt := map (fun i => (i, @None C)) over.

  Record LInv (LD : LDt) (LP : LPt) : Prop := {
    li_prefix : exists addD, LD = LD0 ++ addD /\ forall i v, In (i, v) addD -> In i dl0;
    li_ndD : NoDup (map fst LD);
    li_ndP : NoDup (map fst LP);
    li_keysP : forall p, In p (map fst LP) -> In p sp;
    li_reachD : forall i, In i (map fst LD) -> Reach (inl i);
    li_reachP : forall p, In p (map fst LP) -> Reach (inr p)
  }.

  Definition closed (LD : LDt) (LP : LPt) : Prop :=
    (forall i j, In i (map fst LD) -> In j sp -> dtest i j = true -> In j (map fst LP)) /\
    (forall j i, In j (map fst LP) -> In i dl0 -> utest i j = true -> In i (map fst LD)) /\
    (* no KeyError: the rows the search read exist *)
    (forall j i, In j (map fst LP) -> In i dl0 -> ~ In i (map fst LD) -> availd i = true).

  Lemma LD0_keys : map fst LD0 = over.
  Proof. unfold LD0. rewrite map_map. simpl. apply map_id. Qed.

  Lemma LInv_init : LInv LD0 [].
  Proof.
    constructor.
    - exists []. rewrite app_nil_r. split; [reflexivity|intros ? ? []].
    - rewrite LD0_keys. exact Hover.
    - constructor.
    - intros p [].
    - intros i Hi. rewrite LD0_keys in Hi. apply R_over, Hi.
    - intros p [].
  Qed.

  Lemma LInv_count LD LP : LInv LD LP -> (length LD + length LP <= length over + length dl0 + length sp)%nat.
  Proof.
    intros [(addD & E & Hk) HD HP KP _ _].
    assert (H1 : (length addD <= length dl0)%nat).
    { rewrite <- (map_length fst addD). apply length_incl_le.
      - rewrite E, map_app in HD. apply nodup_app_r in HD. exact HD.
      - intros i Hi. apply in_map_iff in Hi. destruct Hi as ([i0 v] & <- & Hin). apply (Hk i0 v Hin). }
    assert (H2 : (length LP <= length sp)%nat).
    { rewrite <- (map_length fst LP). apply length_incl_le; [exact HP|exact KP]. }
    rewrite E, app_length. unfold LD0. rewrite map_length. lia.
  Qed.

  (* one round of the while loop of _labeled *)
  Lemma round_spec LD LP LP1 LD1 : LInv LD LP ->
    fold_left (fun acc i => fold_left (down_scan q quots res i) sp acc) (map fst LD) (Some LP) = Some LP1 ->
    fold_left (fun acc j => fold_left (up_scan q quots res j) dl0 acc) (map fst LP1) (Some LD) = Some LD1 ->
    LInv LD1 LP1 /\ (exists aP, LP1 = LP ++ aP) /\ (exists aD, LD1 = LD ++ aD) /\
    (forall i j, In i (map fst LD) -> In j sp -> dtest i j = true -> In j (map fst LP1)) /\
    (forall j i, In j (map fst LP1) -> In i dl0 -> utest i j = true -> In i (map fst LD1)) /\
    (forall j i, In j (map fst LP1) -> In i dl0 -> ~ In i (map fst LD1) -> availd i = true).
  Proof.
    intros [(addD & E & Hk) HD HP KP RD RP] H1 H2.
    rewrite down_sweep_g in H1. rewrite up_sweep_g in H2.
    destruct (gsweep_spec _ _ _ sp (map fst LD) LP LP1 H1) as (aP & EP & AP & NP & CP & _).
    destruct (gsweep_spec _ _ _ dl0 (map fst LP1) LD LD1 H2) as (aD & ED & AD & ND & CD & VD).
    assert (KP1 : forall p, In p (map fst LP1) -> In p sp).
    { intros p Hp. rewrite EP, map_app in Hp. apply in_app_or in Hp. destruct Hp as [Hp|Hp]; [apply KP, Hp|].
      apply in_map_iff in Hp. destruct Hp as ([p0 v] & <- & Hin). apply (AP p0 v Hin). }
    assert (RP1 : forall p, In p (map fst LP1) -> Reach (inr p)).
    { intros p Hp. rewrite EP, map_app in Hp. apply in_app_or in Hp. destruct Hp as [Hp|Hp]; [apply RP, Hp|].
      apply in_map_iff in Hp. destruct Hp as ([p0 v] & <- & Hin). destruct (AP p0 v Hin) as (Hsp & o & Ho & _ & Ht).
      apply (R_down o p0); [apply RD, Ho|exact Hsp|exact Ht]. }
    split; [constructor|].
    - exists (addD ++ aD). split; [rewrite ED, E, app_assoc; reflexivity|].
      intros i v Hin. apply in_app_or in Hin. destruct Hin as [Hin|Hin]; [apply (Hk i v Hin)|apply (AD i v Hin)].
    - apply ND, HD.
    - apply NP, HP.
    - exact KP1.
    - intros i Hi. rewrite ED, map_app in Hi. apply in_app_or in Hi. destruct Hi as [Hi|Hi]; [apply RD, Hi|].
      apply in_map_iff in Hi. destruct Hi as ([i0 v] & <- & Hin). destruct (AD i0 v Hin) as (Hdl & o & Ho & _ & Ht).
      apply (R_up o i0); [apply RP1, Ho|exact Hdl|exact Ht].
    - exact RP1.
    - split; [exists aP; exact EP|]. split; [exists aD; exact ED|]. split; [exact CP|]. split.
      + intros j i Hj Hi Ht. apply (CD j i Hj Hi Ht).
      + intros j i Hj Hi Hn. apply (VD j i Hj Hi Hn).
  Qed.

  Lemma app_same_length {X} (l a : list X) : length (l ++ a) = length l -> a = [].
  Proof. rewrite app_length. destruct a; [reflexivity|simpl; lia]. Qed.

  Lemma lab_loop_spec : forall fuel LD LP LD' LP', LInv LD LP ->
    lab_loop q fuel under sp dl0 quots res LD LP = Lab LD' LP' ->
    LInv LD' LP' /\ (existsb (fun i => cmem i under) (map fst LD') = false -> closed LD' LP').
  Proof.
    induction fuel as [|f IH]; intros LD LP LD' LP' I H; simpl in H; [discriminate|].
    destruct (fold_left (fun acc i => fold_left (down_scan q quots res i) sp acc) (map fst LD) (Some LP)) as [LP1|] eqn:E1; [|discriminate].
    destruct (fold_left (fun acc j => fold_left (up_scan q quots res j) dl0 acc) (map fst LP1) (Some LD)) as [LD1|] eqn:E2; [|discriminate].
    destruct (round_spec LD LP LP1 LD1 I E1 E2) as (I1 & (aP & EP) & (aD & ED) & CP & CD & VD).
    destruct (existsb (fun i => cmem i under) (map fst LD1)) eqn:Ex.
    - injection H as <- <-. split; [exact I1|]. intros Hf. congruence.
    - destruct (Nat.eqb (length LD1 + length LP1) (length LD + length LP)) eqn:En.
      + injection H as <- <-. split; [exact I1|]. intros _.
        apply Nat.eqb_eq in En. rewrite ED, EP, !app_length in En.
        assert (aD = []) by (destruct aD; [reflexivity|simpl in En; lia]).
        assert (aP = []) by (destruct aP; [reflexivity|simpl in En; lia]). subst aD aP. rewrite app_nil_r in ED, EP. subst LD1 LP1.
        split; [assumption|split; assumption].
      + apply (IH LD1 LP1 LD' LP' I1 H).
  Qed.

  Lemma lab_loop_fuel : forall fuel LD LP, LInv LD LP ->
    (length over + length dl0 + length sp < fuel + (length LD + length LP))%nat ->
    lab_loop q fuel under sp dl0 quots res LD LP <> LabFuel.
  Proof.
    induction fuel as [|f IH]; intros LD LP I Hf; simpl.
    - pose proof (LInv_count LD LP I). lia.
    - destruct (fold_left (fun acc i => fold_left (down_scan q quots res i) sp acc) (map fst LD) (Some LP)) as [LP1|] eqn:E1; [|discriminate].
      destruct (fold_left (fun acc j => fold_left (up_scan q quots res j) dl0 acc) (map fst LP1) (Some LD)) as [LD1|] eqn:E2; [|discriminate].
      destruct (round_spec LD LP LP1 LD1 I E1 E2) as (I1 & (aP & EP) & (aD & ED) & _).
      destruct (existsb (fun i => cmem i under) (map fst LD1)); [discriminate|].
      destruct (Nat.eqb (length LD1 + length LP1) (length LD + length LP)) eqn:En; [discriminate|].
      apply Nat.eqb_neq in En. apply (IH LD1 LP1 I1). rewrite ED, EP, !app_length in En |- *. lia.
  Qed.

  (* completeness: a closed labelling contains everything reachable *)
  Lemma closed_complete LD LP : LInv LD LP -> closed LD LP ->
    forall x, Reach x -> match x with inl i => In i (map fst LD) | inr p => In p (map fst LP) end.
  Proof.
    intros [(addD & E & _) _ _ _ _ _] (C1 & C2 & _) x Hx. induction Hx as [i Hi|i p _ IH Hp Ht|p i _ IH Hi Ht].
    - rewrite E, map_app, LD0_keys. apply in_or_app. left. exact Hi.
    - apply (C1 i p IH Hp Ht).
    - apply (C2 p i IH Hi Ht).
  Qed.
End Lab.

(* ------------------------------------------------------------------ the path walk never exhausts its fuel *)
Lemma walk_fuel LD LP over : forall fuel cur seenD seenP, NoDup seenD -> incl seenD (map fst LD) ->
  (length LD < fuel + length seenD)%nat -> walk fuel LD LP over cur seenD seenP <> WalkFuel.
Proof.
  induction fuel as [|f IH]; intros cur seenD seenP Hnd Hin Hf.
  - exfalso. pose proof (length_incl_le _ _ Hnd Hin) as H. rewrite map_length in H. simpl in Hf. lia.
  - simpl. destruct (cmem cur over); [discriminate|]. destruct (cmem cur seenD) eqn:Es; [discriminate|].
    destruct (dget LD cur) as [[p|]|] eqn:El; try discriminate.
    destruct (cmem p seenP); [discriminate|]. destruct (dget LP p) as [i'|]; [|discriminate].
    assert (Hw : walk f LD LP over i' (cur :: seenD) (p :: seenP) <> WalkFuel).
    { apply IH.
      - constructor; [|exact Hnd]. intros Hi. apply cmem_In in Hi. congruence.
      - intros x [<-|Hx]; [apply (dget_In_key _ _ _ El)|apply Hin, Hx].
      - simpl. lia. }
    destruct (walk f LD LP over i' (cur :: seenD) (p :: seenP)); [discriminate|discriminate|congruence].
Qed.

(* ------------------------------------------------------------------ the cell tests depend on the VALUE of the quotient only *)
Lemma Qtrunc_comp x y : (x == y)%Q -> Qtrunc x = Qtrunc y.
Proof.
  unfold Qeq, Qtrunc. intros E.
  rewrite <- (Z.quot_mul_cancel_r (Qnum x) (Zpos (Qden x)) (Zpos (Qden y))) by discriminate.
  rewrite <- (Z.quot_mul_cancel_r (Qnum y) (Zpos (Qden y)) (Zpos (Qden x))) by discriminate.
  rewrite E. f_equal. apply Z.mul_comm.
Qed.
Lemma Qeq_bool_comp a a' b b' : (a == a')%Q -> (b == b')%Q -> Qeq_bool a b = Qeq_bool a' b'.
Proof.
  intros Ea Eb. destruct (Qeq_bool a b) eqn:E1, (Qeq_bool a' b') eqn:E2; try reflexivity.
  - apply Qeq_bool_iff in E1. assert (H : (a' == b')%Q) by (rewrite <- Ea, <- Eb; exact E1). apply Qeq_bool_iff in H. congruence.
  - apply Qeq_bool_iff in E2. assert (H : (a == b)%Q) by (rewrite Ea, Eb; exact E2). apply Qeq_bool_iff in H. congruence.
Qed.
Lemma is_upgradable_comp q x y s : (x == y)%Q -> is_upgradable q x s = is_upgradable q y s.
Proof.
  intros E. unfold is_upgradable, at_signpost. rewrite (Qtrunc_comp x y E).
  rewrite (Qeq_bool_comp (inject_Z (Qtrunc y)) (inject_Z (Qtrunc y)) (x - q) (y - q)); [|reflexivity|rewrite E; reflexivity].
  rewrite (Qeq_bool_comp (inject_Z s + 1 - q) (inject_Z s + 1 - q) x y); [reflexivity|reflexivity|exact E].
Qed.
Lemma is_downgradable_comp q x y s : (x == y)%Q -> is_downgradable q x s = is_downgradable q y s.
Proof.
  intros E. unfold is_downgradable, at_signpost. rewrite (Qtrunc_comp x y E).
  rewrite (Qeq_bool_comp (inject_Z (Qtrunc y)) (inject_Z (Qtrunc y)) (x - q) (y - q)); [|reflexivity|rewrite E; reflexivity].
  rewrite (Qeq_bool_comp (inject_Z s - q) (inject_Z s - q) x y); [reflexivity|reflexivity|exact E].
Qed.

(* ------------------------------------------------------------------ the adjustment coefficient is attained at a cell *)
Section Attain.
  Variable q : Q.
  Variable res : mat.
  Variables DL PL : list C.
  Notation sg i j := (signpost q (mget res i j)).
  Notation step := (scan_cell q res DL PL).

  Definition attA (a : Q) (cell : C * C * Q) : Prop :=
    condA q res DL PL cell /\ a = (sg (fst (fst cell)) (snd (fst cell)) / snd cell)%Q.
  Definition attB (b : option Q) (cell : C * C * Q) : Prop :=
    condB DL PL cell /\ b = Some ((sg (fst (fst cell)) (snd (fst cell)) + 1) / snd cell)%Q.

  Lemma step_attain st cell :
    (sc_alpha (step st cell) = sc_alpha st \/ attA (sc_alpha (step st cell)) cell) /\
    (sc_beta (step st cell) = sc_beta st \/ attB (sc_beta (step st cell)) cell).
  Proof.
    destruct cell as [[i j] x]. unfold scan_cell, attA, attB, condA, condB. cbn [fst snd].
    destruct (sc_zerodiv st); [split; left; reflexivity|].
    destruct (cmem i DL) eqn:Ei, (cmem j PL) eqn:Ej; cbn [eqb negb andb]; try (split; left; reflexivity).
    - destruct (Qpos_b (sg i j)) eqn:Es; [|split; left; reflexivity].
      destruct (Qeq_bool x 0); [split; left; reflexivity|].
      destruct (Qpos_b (sg i j / x - sc_alpha st)); [|split; left; reflexivity].
      cbn [sc_alpha sc_beta]. split; [right|left; reflexivity].
      split; [|reflexivity]. split; [reflexivity|]. split; [reflexivity|apply Qpos_b_iff, Es].
    - destruct (Qpos_b x) eqn:Ex; [|split; left; reflexivity].
      destruct (sc_beta st) as [b0|] eqn:Eb.
      + destruct (Qpos_b (b0 - (sg i j + 1) / x)); [|rewrite Eb; split; left; reflexivity].
        cbn [sc_alpha sc_beta]. split; [left; reflexivity|right].
        split; [|reflexivity]. split; [reflexivity|]. split; [reflexivity|apply Qpos_b_iff, Ex].
      + cbn [sc_alpha sc_beta]. split; [left; reflexivity|right].
        split; [|reflexivity]. split; [reflexivity|]. split; [reflexivity|apply Qpos_b_iff, Ex].
  Qed.

  Lemma scan_attain : forall cells st,
    (sc_alpha (fold_left step cells st) = sc_alpha st \/ exists cell, In cell cells /\ attA (sc_alpha (fold_left step cells st)) cell) /\
    (sc_beta (fold_left step cells st) = sc_beta st \/ exists cell, In cell cells /\ attB (sc_beta (fold_left step cells st)) cell).
  Proof.
    induction cells as [|cell cells IH]; intros st; simpl; [split; left; reflexivity|].
    destruct (IH (step st cell)) as [[A|(c & Hc & A)] [B|(c' & Hc' & B)]]; destruct (step_attain st cell) as [[A0|A0] [B0|B0]]; split;
      try (left; congruence);
      try (right; exists c; split; [right; exact Hc|exact A]);
      try (right; exists c'; split; [right; exact Hc'|exact B]);
      try (right; exists cell; split; [left; reflexivity|]; rewrite A; exact A0);
      try (right; exists cell; split; [left; reflexivity|]; rewrite B; exact B0).
  Qed.

  (* the value returned by _adj_coef: at least alpha and 1 / beta, and, when positive, equal to one of them at a cell *)
  Lemma adj_attain quots a : adj_coef q quots res DL PL = Adj a -> (0 < a)%Q ->
    exists cell, In cell (cells_of quots) /\
      ((condA q res DL PL cell /\ a = (sg (fst (fst cell)) (snd (fst cell)) / snd cell)%Q) \/
       (condB DL PL cell /\ a = (1 / ((sg (fst (fst cell)) (snd (fst cell)) + 1) / snd cell))%Q)).
  Proof.
    unfold adj_coef. destruct (scan_attain (cells_of quots) (mk_scan 0 None false)) as [HA HB].
    set (fin := fold_left step (cells_of quots) (mk_scan 0 None false)) in *. cbn [sc_alpha sc_beta] in HA, HB.
    destruct (sc_zerodiv fin); [discriminate|].
    assert (Halpha : (0 < sc_alpha fin)%Q -> exists cell, In cell (cells_of quots) /\ condA q res DL PL cell /\
               sc_alpha fin = (sg (fst (fst cell)) (snd (fst cell)) / snd cell)%Q).
    { intros Hp. destruct HA as [E|(c & Hc & [H1 H2])]; [rewrite E in Hp; lra|]. exists c. auto. }
    destruct (sc_beta fin) as [b|] eqn:Eb.
    - destruct (Qle_bool (1 / b) (sc_alpha fin)); intros [= <-] Hp.
      + destruct (Halpha Hp) as (c & Hc & H1 & H2). exists c. split; [exact Hc|left; split; assumption].
      + destruct HB as [E|(c & Hc & [H1 H2])]; [discriminate|]. injection H2 as ->. exists c. split; [exact Hc|right; split; [exact H1|reflexivity]].
    - destruct (Qle_bool 0 (sc_alpha fin)); intros [= <-] Hp; [|lra].
      destruct (Halpha Hp) as (c & Hc & H1 & H2). exists c. split; [exact Hc|left; split; assumption].
  Qed.

  Lemma adj_ge quots a : adj_coef q quots res DL PL = Adj a ->
    let fin := fold_left step (cells_of quots) (mk_scan 0 None false) in
    sc_zerodiv fin = false /\ (sc_alpha fin <= a)%Q /\ forall b, sc_beta fin = Some b -> (1 / b <= a)%Q.
  Proof.
    unfold adj_coef. cbv zeta. set (fin := fold_left step (cells_of quots) (mk_scan 0 None false)).
    destruct (sc_zerodiv fin); [discriminate|].
    destruct (sc_beta fin) as [b|].
    - destruct (Qle_bool (1 / b) (sc_alpha fin)) eqn:E; intros [= <-]; (split; [reflexivity|]).
      + apply Qle_bool_iff in E. split; [lra|]. intros b0 [= <-]. exact E.
      + split; [|intros b0 [= <-]; lra].
        destruct (Qlt_le_dec (sc_alpha fin) (1 / b)) as [L|L]; [lra|]. apply Qle_bool_iff in L. congruence.
    - destruct (Qle_bool 0 (sc_alpha fin)) eqn:E; intros [= <-]; (split; [reflexivity|]); (split; [|intros b0; discriminate]); [lra|].
      destruct (Qlt_le_dec (sc_alpha fin) 0) as [L|L]; [lra|]. apply Qle_bool_iff in L. congruence.
  Qed.
End Attain.

(* ------------------------------------------------------------------ small facts *)
Lemma strict_count (l l' : list C) x : NoDup l -> incl l l' -> In x l' -> ~ In x l -> (length l < length l')%nat.
Proof.
  intros Hnd Hin Hx Hnx.
  assert (H : (length (x :: l) <= length l')%nat).
  { apply length_incl_le; [constructor; assumption|]. intros y [<-|Hy]; [exact Hx|apply Hin, Hy]. }
  simpl in H. lia.
Qed.

Lemma sort_pos_nil l : sort_pos l = [] -> l = [].
Proof. destruct l as [|x l]; [reflexivity|]. intros H. exfalso. assert (Hi : In x (sort_pos (x :: l))) by (apply sort_pos_in; left; reflexivity). rewrite H in Hi. exact Hi. Qed.

Lemma no_under_labelled (LD : LDt) under : sort_pos (filter (fun i => dmem LD i) under) = [] ->
  existsb (fun i => cmem i under) (map fst LD) = false.
Proof.
  intros H. apply sort_pos_nil in H. destruct (existsb (fun i => cmem i under) (map fst LD)) eqn:E; [|reflexivity].
  apply existsb_exists in E. destruct E as (i & Hi & Hu). apply cmem_In in Hu.
  pose proof (filter_nil _ _ H i Hu) as Hf. cbv beta in Hf. apply dmem_keys in Hi. congruence.
Qed.

Lemma sort_pos_length l : length (sort_pos l) = length l.
Proof. apply Permutation_length, sort_pos_perm. Qed.

Lemma Qdiv_self x : ~ (x == 0)%Q -> (x / x == 1)%Q.
Proof. intros H. field. exact H. Qed.

(* ------------------------------------------------------------------ the cell tests on the quotient matrix of _calc_quots *)
Section Tests.
  Variable q : Q.
  Variable votes : mat.

  Lemma dtest_calc rho gamma res i j :
    dtest q (calc_quots votes rho gamma) res i j =
    match dget votes i, dget res i with
    | Some _, Some rr => is_downgradable q (quot (mget votes i j) (mul rho i) (mul gamma j)) (dget_or rr j 0)
    | _, _ => false
    end.
  Proof.
    unfold dtest. destruct (dget (calc_quots votes rho gamma) i) as [qr|] eqn:E.
    - pose proof (quots_cell votes rho gamma i qr j E) as Hc. unfold calc_quots in E.
      rewrite (dget_map_keyed (fun i0 row => map (fun kv => (fst kv, quot (snd kv) (mul rho i0) (mul gamma (fst kv)))) row) votes i) in E.
      destruct (dget votes i) as [row|]; [|discriminate]. destruct (dget res i) as [rr|]; [|reflexivity].
      apply is_downgradable_comp, Hc.
    - unfold calc_quots in E.
      rewrite (dget_map_keyed (fun i0 row => map (fun kv => (fst kv, quot (snd kv) (mul rho i0) (mul gamma (fst kv)))) row) votes i) in E.
      destruct (dget votes i); [discriminate|reflexivity].
  Qed.
  Lemma utest_calc rho gamma res i j :
    utest q (calc_quots votes rho gamma) res i j =
    match dget votes i, dget res i with
    | Some _, Some rr => is_upgradable q (quot (mget votes i j) (mul rho i) (mul gamma j)) (dget_or rr j 0)
    | _, _ => false
    end.
  Proof.
    unfold utest. destruct (dget (calc_quots votes rho gamma) i) as [qr|] eqn:E.
    - pose proof (quots_cell votes rho gamma i qr j E) as Hc. unfold calc_quots in E.
      rewrite (dget_map_keyed (fun i0 row => map (fun kv => (fst kv, quot (snd kv) (mul rho i0) (mul gamma (fst kv)))) row) votes i) in E.
      destruct (dget votes i) as [row|]; [|discriminate]. destruct (dget res i) as [rr|]; [|reflexivity].
      apply is_upgradable_comp, Hc.
    - unfold calc_quots in E.
      rewrite (dget_map_keyed (fun i0 row => map (fun kv => (fst kv, quot (snd kv) (mul rho i0) (mul gamma (fst kv)))) row) votes i) in E.
      destruct (dget votes i); [discriminate|reflexivity].
  Qed.

  (* equal quotients, equal tests *)
  Lemma dtest_same rho gamma rho' gamma' res i j :
    (quot (mget votes i j) (mul rho i) (mul gamma j) == quot (mget votes i j) (mul rho' i) (mul gamma' j))%Q ->
    dtest q (calc_quots votes rho gamma) res i j = dtest q (calc_quots votes rho' gamma') res i j.
  Proof.
    intros E. rewrite !dtest_calc. destruct (dget votes i); [|reflexivity]. destruct (dget res i); [|reflexivity].
    apply is_downgradable_comp, E.
  Qed.
  Lemma utest_same rho gamma rho' gamma' res i j :
    (quot (mget votes i j) (mul rho i) (mul gamma j) == quot (mget votes i j) (mul rho' i) (mul gamma' j))%Q ->
    utest q (calc_quots votes rho gamma) res i j = utest q (calc_quots votes rho' gamma') res i j.
  Proof.
    intros E. rewrite !utest_calc. destruct (dget votes i); [|reflexivity]. destruct (dget res i); [|reflexivity].
    apply is_upgradable_comp, E.
  Qed.
End Tests.

(* ------------------------------------------------------------------ termination of the loop *)
Section Term.
  Variable q : Q.
  Hypothesis Hq0 : (0 <= q)%Q.
  Hypothesis Hq1 : (q < 1)%Q.
  Variable votes : mat.
  Hypothesis Hwf : wf_votes votes.
  Variable pseats : list (C * Z).
  Notation ds := (districts votes).
  Notation ps := (parties votes).
  Notation quots s := (calc_quots votes (b_rho s) (b_gamma s)).

  Lemma labeled_spec quots res under over LD LP : NoDup over ->
    labeled q ps ds quots res under over = Lab LD LP ->
    LInv q quots res (sort_pos ps) ds over LD LP /\
    (sort_pos (filter (fun i => dmem LD i) under) = [] -> closed q quots res (sort_pos ps) ds LD LP).
  Proof.
    intros Hov H. unfold labeled in H. change (map (fun i => (i, @None C)) over) with (LD0 over) in H.
    destruct (lab_loop_spec q quots res (sort_pos ps) ds under over _ _ _ _ _ (LInv_init q quots res (sort_pos ps) ds over Hov) H) as [I Cl].
    split; [exact I|]. intros Hn. apply Cl, no_under_labelled, Hn.
  Qed.

  (* neither the labelling search nor the path walk runs out of its fuel *)
  Lemma bstep_body_fuel s under over : NoDup over -> bstep_body q votes s under over <> Stop BP_out_of_fuel.
  Proof.
    intros Hov. unfold bstep_body.
    destruct (labeled q ps ds (quots s) (b_res s) under over) as [LD LP| |] eqn:El; try discriminate.
    - destruct (sort_pos (filter (fun i => dmem LD i) under)) as [|start rest].
      + destruct (adj_coef q _ (b_res s) (map fst LD) (map fst LP)) as [a|]; [|discriminate].
        destruct (Qeq_bool a 0 || Qle_bool 1 a); discriminate.
      + destruct (walk (S (length LD)) LD LP over start [] []) as [hops| |] eqn:Ew; try discriminate.
        * destruct (augment (b_res s) start hops); discriminate.
        * exfalso. revert Ew. apply walk_fuel; [constructor|intros x []|simpl; lia].
    - exfalso. revert El. unfold labeled. change (map (fun i => (i, @None C)) over) with (LD0 over).
      apply (lab_loop_fuel q (quots s) (b_res s) (sort_pos ps) ds under over); [apply LInv_init, Hov|].
      unfold LD0. rewrite map_length, sort_pos_length. simpl. lia.
  Qed.

  (* THE PROGRESS OF A MULTIPLIER UPDATE: if an accepted update is followed by another accepted update, the second one has
     strictly more labelled lines *)
  Lemma update_progress s under over LD LP a LD' LP' a' :
    BInv q votes pseats s -> NoDup over ->
    labeled q ps ds (quots s) (b_res s) under over = Lab LD LP ->
    sort_pos (filter (fun i => dmem LD i) under) = [] ->
    adj_coef q (quots s) (b_res s) (map fst LD) (map fst LP) = Adj a ->
    Qeq_bool a 0 || Qle_bool 1 a = false ->
    let s' := mk_bstate (b_res s) (scale_rho_r (map fst LD) a (b_rho s)) (scale_gamma_r (map fst LP) a (b_gamma s)) in
    labeled q ps ds (quots s') (b_res s) under over = Lab LD' LP' ->
    sort_pos (filter (fun i => dmem LD' i) under) = [] ->
    adj_coef q (quots s') (b_res s) (map fst LD') (map fst LP') = Adj a' ->
    Qeq_bool a' 0 || Qle_bool 1 a' = false ->
    (length LD + length LP < length LD' + length LP')%nat.
  Proof.
    intros I Hov El Hnu Ha Hacc s' El' Hnu' Ha' Hacc'.
    set (DL := map fst LD) in *. set (PL := map fst LP) in *. set (DL' := map fst LD') in *. set (PL' := map fst LP') in *.
    set (rho := b_rho s) in *. set (gamma := b_gamma s) in *. set (res := b_res s) in *.
    set (rho' := scale_rho_r DL a rho) in *. set (gamma' := scale_gamma_r PL a gamma) in *.
    unfold s' in El', Ha'. clear s'. cbn [b_rho b_gamma] in El', Ha'. fold rho' gamma' in El', Ha'.
    destruct (labeled_spec _ _ _ _ _ _ Hov El) as [LI Cl]. specialize (Cl Hnu).
    destruct (labeled_spec _ _ _ _ _ _ Hov El') as [LI' Cl']. specialize (Cl' Hnu').
    (* the accepted coefficients *)
    apply orb_false_iff in Hacc. destruct Hacc as [Hc0 Hc1].
    assert (Hne : ~ (a == 0)%Q) by (intros E; apply Qeq_bool_iff in E; congruence).
    pose proof (adj_nonneg q _ _ _ _ _ Ha) as H0.
    assert (Hpos : (0 < a)%Q) by (destruct (Qlt_le_dec 0 a) as [L|L]; [exact L|exfalso; apply Hne; lra]).
    apply orb_false_iff in Hacc'. destruct Hacc' as [_ Hc1'].
    assert (Hlt1' : (a' < 1)%Q).
    { destruct (Qlt_le_dec a' 1) as [L|L]; [exact L|]. apply Qle_bool_iff in L. congruence. }
    (* the quotient of a cell between two labelled lines is left alone *)
    assert (Hsame : forall i j, In i DL -> In j PL ->
              (quot (mget votes i j) (mul rho i) (mul gamma j) == quot (mget votes i j) (mul rho' i) (mul gamma' j))%Q).
    { intros i j Hi Hj. unfold quot, rho', gamma'. rewrite mul_scale_rho, (mul_scale_gamma PL a gamma j Hne).
      apply cmem_In in Hi. apply cmem_In in Hj. rewrite Hi, Hj. field. exact Hne. }
    (* every label survives the update *)
    assert (Hsup : forall x, Reach q (calc_quots votes rho gamma) res (sort_pos ps) ds over x ->
              match x with inl i => In i DL' | inr p => In p PL' end).
    { intros x Hx. induction Hx as [i Hi|i p Hri IH Hp Ht|p i Hrp IH Hi Ht].
      - destruct (li_prefix _ _ _ _ _ _ _ _ LI') as (addD & E & _). unfold DL'. rewrite E, map_app, LD0_keys. apply in_or_app. left. exact Hi.
      - pose proof (closed_complete _ _ _ _ _ _ _ _ LI Cl _ Hri) as Hold. cbv beta iota in Hold.
        pose proof (closed_complete _ _ _ _ _ _ _ _ LI Cl _ (R_down _ _ _ _ _ _ i p Hri Hp Ht)) as Hold2. cbv beta iota in Hold2.
        apply (proj1 Cl' i p IH Hp). rewrite <- Ht. symmetry. apply dtest_same, Hsame; assumption.
      - pose proof (closed_complete _ _ _ _ _ _ _ _ LI Cl _ Hrp) as Hold. cbv beta iota in Hold.
        pose proof (closed_complete _ _ _ _ _ _ _ _ LI Cl _ (R_up _ _ _ _ _ _ p i Hrp Hi Ht)) as Hold2. cbv beta iota in Hold2.
        apply (proj1 (proj2 Cl') p i IH Hi). rewrite <- Ht. symmetry. apply utest_same, Hsame; assumption. }
    assert (HinD : incl DL DL') by (intros i Hi; apply (Hsup (inl i)), (li_reachD _ _ _ _ _ _ _ _ LI i Hi)).
    assert (HinP : incl PL PL') by (intros p Hp; apply (Hsup (inr p)), (li_reachP _ _ _ _ _ _ _ _ LI p Hp)).
    pose proof (li_ndD _ _ _ _ _ _ _ _ LI) as NdD. pose proof (li_ndP _ _ _ _ _ _ _ _ LI) as NdP.
    assert (LeD : (length LD <= length LD')%nat) by (rewrite <- (map_length fst LD), <- (map_length fst LD'); apply length_incl_le; assumption).
    assert (LeP : (length LP <= length LP')%nat) by (rewrite <- (map_length fst LP), <- (map_length fst LP'); apply length_incl_le; assumption).
    (* the cell at which the coefficient is attained *)
    destruct (adj_attain q res DL PL _ a Ha Hpos) as ([[i j] x] & Hcell & Hatt).
    destruct (cells_of_quots votes rho gamma _ Hwf Hcell) as (Hi & Hj & Ex). cbn [fst snd] in Hi, Hj, Ex, Hatt.
    set (v := mget votes i j) in *.
    pose proof (bi_nonneg _ _ _ _ I i j) as Hs0. fold res in Hs0.
    assert (Hs0' : (0 <= inject_Z (mget res i j))%Q) by (apply (inj_le 0), Hs0).
    pose proof (adj_ge q res DL' PL' _ a' Ha') as G. cbv zeta in G. destruct G as (Gz & Galpha & Gbeta).
    pose proof (scan_facts q res DL' PL' (cells_of (calc_quots votes rho' gamma')) (mk_scan 0 None false) Gz) as (_ & _ & _ & CA & CB & PB).
    set (x' := quot v (mul rho' i) (mul gamma' j)).
    destruct Hatt as [[(HiD & HjP & Hsg) Ea]|[(HiD & HjP & Hx) Ea]].
    - (* alpha: a labelled district, an unlabelled party, the quotient comes down to its lower signpost *)
      assert (Hx0 : ~ (x == 0)%Q).
      { intros E. rewrite Ea in Hpos. rewrite E in Hpos. unfold Qdiv in Hpos. assert (E0 : (/ 0 == 0)%Q) by reflexivity. rewrite E0 in Hpos. lra. }
      assert (Hv : v <> 0).
      { intros E. apply Hx0. rewrite Ex. fold v. rewrite E. unfold quot. change (inject_Z 0) with 0%Q. ring. }
      assert (Ex' : (x' == signpost q (mget res i j))%Q).
      { assert (E1 : (x' == x * a)%Q).
        { unfold x', quot, rho', gamma'. rewrite mul_scale_rho, (mul_scale_gamma PL a gamma j Hne), HiD, HjP.
          rewrite Ex. fold v. unfold quot. ring. }
        rewrite E1, Ea. field. exact Hx0. }
      destruct (in_dec Pos.eq_dec j PL') as [HjP'|HjP'].
      + assert ((length LP < length LP')%nat); [|lia].
        rewrite <- (map_length fst LP), <- (map_length fst LP'). apply (strict_count _ _ j NdP HinP HjP').
        intros Hin. apply cmem_In in Hin. fold PL in Hin. rewrite HjP in Hin. discriminate.
      + exfalso.
        assert (Hc' : In (i, j, x') (cells_of (calc_quots votes rho' gamma'))) by (apply (stored_cell votes Hwf rho' gamma' i j Hv)).
        destruct (CA (i, j, x') Hc') as [_ Hle].
        { split; [apply cmem_In, HinD, cmem_In, HiD|]. split; [|exact Hsg].
          destruct (cmem j PL') eqn:E; [|reflexivity]. exfalso. apply HjP', cmem_In, E. }
        cbn [fst snd] in Hle. rewrite Ex' in Hle. rewrite Qdiv_self in Hle by (intros E0; lra). lra.
    - (* beta: an unlabelled district, a labelled party, the quotient goes up to its upper signpost *)
      assert (Hsg1 : (0 < signpost q (mget res i j) + 1)%Q) by (unfold signpost; lra).
      assert (Hv : v <> 0).
      { intros E. rewrite Ex in Hx. fold v in Hx. rewrite E in Hx. unfold quot in Hx. change (inject_Z 0) with 0%Q in Hx.
        assert (E0 : (0 * mul rho i * mul gamma j == 0)%Q) by ring. rewrite E0 in Hx. lra. }
      assert (Ex' : (x' == signpost q (mget res i j) + 1)%Q).
      { assert (E1 : (x' == x / a)%Q).
        { unfold x', quot, rho', gamma'. rewrite mul_scale_rho, (mul_scale_gamma PL a gamma j Hne), HiD, HjP.
          rewrite Ex. fold v. unfold quot. field. exact Hne. }
        rewrite E1, Ea. field. split; lra. }
      destruct (in_dec Pos.eq_dec i DL') as [HiD'|HiD'].
      + assert ((length LD < length LD')%nat); [|lia].
        rewrite <- (map_length fst LD), <- (map_length fst LD'). apply (strict_count _ _ i NdD HinD HiD').
        intros Hin. apply cmem_In in Hin. fold DL in Hin. rewrite HiD in Hin. discriminate.
      + exfalso.
        assert (Hc' : In (i, j, x') (cells_of (calc_quots votes rho' gamma'))) by (apply (stored_cell votes Hwf rho' gamma' i j Hv)).
        destruct (CB (i, j, x') Hc') as (b & Eb & Hle).
        { split; [destruct (cmem i DL') eqn:E; [exfalso; apply HiD', cmem_In, E|reflexivity]|].
          split; [apply cmem_In, HinP, cmem_In, HjP|]. rewrite Ex'. exact Hsg1. }
        cbn [fst snd] in Hle. rewrite Ex' in Hle. rewrite Qdiv_self in Hle by (intros E0; lra).
        assert (Hb : (0 < b)%Q).
        { apply (PB (fun b0 (H : None = Some b0) => ltac:(discriminate))); [|exact Eb].
          intros [[i1 j1] x1] _ (_ & _ & Hx1). cbn [fst snd].
          pose proof (bi_nonneg _ _ _ _ I i1 j1) as Hs1. fold res in Hs1. pose proof (inj_le 0 _ Hs1) as Hs1'. change (inject_Z 0) with 0%Q in Hs1'.
          apply Qlt_shift_div_l; [exact Hx1|]. unfold signpost. lra. }
        pose proof (Gbeta b Eb) as Hge.
        assert (H1 : (1 <= 1 / b)%Q) by (apply Qle_shift_div_l; [exact Hb|lra]).
        lra.
  Qed.

  Variable tgt : list (C * Z).
  Variable dorder : list C.
  Hypothesis Hdo : NoDup dorder.
  Notation under_of s := (fst (unsat dorder (b_res s) tgt)).
  Notation over_of s := (snd (unsat dorder (b_res s) tgt)).

  Lemma over_nodup s : NoDup (over_of s).
  Proof. unfold unsat. cbn [snd]. apply NoDup_filter, Hdo. Qed.

  Lemma bstep_fuel s : bstep q votes tgt dorder s <> Stop BP_out_of_fuel.
  Proof.
    unfold bstep. cbv zeta. pose proof (over_nodup s) as Hov.
    destruct (under_of s); [destruct (over_of s); [discriminate|]|]; apply bstep_body_fuel; exact Hov.
  Qed.

  Definition K : nat := (length ds + length ps)%nat.

  (* [upd_min s m]: if the iteration at [s] is an accepted multiplier update, it labels at least [m] lines beyond the
     over-represented districts it starts from *)
  Definition upd_min (s : bstate) (m : nat) : Prop :=
    forall LD LP a,
      labeled q ps ds (quots s) (b_res s) (under_of s) (over_of s) = Lab LD LP ->
      sort_pos (filter (fun i => dmem LD i) (under_of s)) = [] ->
      adj_coef q (quots s) (b_res s) (map fst LD) (map fst LP) = Adj a ->
      Qeq_bool a 0 || Qle_bool 1 a = false ->
      (length (over_of s) + m <= length LD + length LP)%nat.

  Lemma labeled_count quots res under over LD LP : NoDup over ->
    labeled q ps ds quots res under over = Lab LD LP ->
    (length over <= length LD + length LP <= length over + K)%nat.
  Proof.
    intros Hov H. destruct (labeled_spec _ _ _ _ _ _ Hov H) as [LI _]. split.
    - destruct (li_prefix _ _ _ _ _ _ _ _ LI) as (addD & E & _). rewrite E, app_length. unfold LD0. rewrite map_length. lia.
    - pose proof (LInv_count _ _ _ _ _ _ _ _ LI) as Hc. rewrite sort_pos_length in Hc. unfold K. lia.
  Qed.

  Lemma upd_min_0 s : upd_min s 0.
  Proof. intros LD LP a El _ _ _. pose proof (labeled_count _ _ _ _ _ _ (over_nodup s) El). lia. Qed.

  Lemma flaw_nonneg res : 0 <= flaw tgt dorder res.
  Proof. unfold flaw. apply zsum_map_nonneg. intros i _. apply Z.abs_nonneg. Qed.

  (* at most (flaw / 2 + 1) * (|districts| + |parties| + 2) iterations: the out-of-fuel answer is unreachable *)
  Theorem bloop_terminates : forall fuel s m, BInv q votes pseats s -> upd_min s m -> (m <= K + 1)%nat ->
    (Z.to_nat (flaw tgt dorder (b_res s) / 2) * (K + 2) + (K + 1 - m) + 1 <= fuel)%nat ->
    bloop q votes tgt dorder fuel s <> BP_out_of_fuel.
  Proof.
    induction fuel as [|f IH]; intros s m I Hm HmK Hf; [lia|]. simpl.
    pose proof (bstep_inv q Hq0 Hq1 votes Hwf pseats tgt dorder s I) as I'.
    destruct (bstep q votes tgt dorder s) as [|s'|r] eqn:Es; [discriminate| |intros ->; apply (bstep_fuel s Es)].
    destruct (bstep_cases q Hq1 votes Hwf pseats tgt dorder Hdo s s' I Es) as [(Hfl & _ & _)|(LD & LP & a & El & Hnu & Ha & Hacc & ->)].
    - (* a seat transfer *)
      pose proof (flaw_nonneg (b_res s')) as H0.
      assert (E : Z.to_nat (flaw tgt dorder (b_res s) / 2) = S (Z.to_nat (flaw tgt dorder (b_res s') / 2))).
      { rewrite Hfl. replace (flaw tgt dorder (b_res s)) with (flaw tgt dorder (b_res s) - 2 + 1 * 2) at 1 by lia.
        rewrite Z.div_add by lia. rewrite Z2Nat.inj_add; [|apply Z.div_pos; lia|lia]. simpl. lia. }
      apply (IH s' 0%nat I' (upd_min_0 s')); [lia|]. rewrite E in Hf. nia.
    - (* an accepted multiplier update *)
      pose proof (labeled_count _ _ _ _ _ _ (over_nodup s) El) as [Hc1 Hc2].
      pose proof (Hm LD LP a El Hnu Ha Hacc) as Hc3.
      set (c := (length LD + length LP - length (over_of s))%nat).
      cbn [b_res] in *.
      apply (IH _ (S c) I').
      + intros LD' LP' a' El' Hnu' Ha' Hacc'. cbn [b_res b_rho b_gamma] in *.
        pose proof (update_progress s (under_of s) (over_of s) LD LP a LD' LP' a' I (over_nodup s) El Hnu Ha Hacc El' Hnu' Ha' Hacc').
        unfold c. lia.
      + unfold c. lia.
      + cbn [b_res]. unfold c. nia.
  Qed.
End Term.

(* ------------------------------------------------------------------ the whole evaluate terminates *)
(* an explicit fuel that suffices: (initial flaw / 2 + 1) * (|districts| + |parties| + 2) *)
Definition fuel_bound (d : Z -> Q) (q : Q) (votes : mat) (tgt : list (C * Z)) (dorder : list C) (n : Z) : nat :=
  match binit d q votes n with
  | inr s => ((Z.to_nat (flaw tgt dorder (b_res s) / 2) + 1) * (length (districts votes) + length (parties votes) + 2))%nat
  | inl _ => 0%nat
  end.
Definition fuel_bound_total (d : Z -> Q) (q : Q) (votes : mat) (dorder : list C) (n : Z) : nat :=
  match HighestAverages.evaluate d (district_totals votes) n [] [] with
  | HA_ok tgt None => fuel_bound d q votes tgt dorder n
  | _ => 0%nat
  end.

Section WholeTerm.
  Variable d : Z -> Q.
  Variables q k : Q.
  Hypothesis Hq0 : (0 <= q)%Q.
  Hypothesis Hq1 : (q < 1)%Q.
  Hypothesis Hk : (0 < k)%Q.
  Hypothesis Hd : forall s, (d s == k * (inject_Z s + 1 - q))%Q.
  Variable votes : mat.
  Hypothesis Hwf : wf_votes votes.
  Hypothesis Hvnn : forall i j, 0 <= mget votes i j.
  Variable dorder : list C.
  Hypothesis Hdo : NoDup dorder.

  Lemma binit_error n e : binit d q votes n = inl e -> e <> BP_out_of_fuel.
  Proof. unfold binit. destruct (initial_solution d votes n); intros [= <-]; discriminate. Qed.

  Theorem evaluate_core_terminates strict tgt n fuel : strict = true \/ (exists i j, 0 < mget votes i j) ->
    (fuel_bound d q votes tgt dorder n <= fuel)%nat ->
    evaluate_core d q votes tgt dorder strict n fuel <> BP_out_of_fuel.
  Proof.
    intros Hs Hf. unfold evaluate_core. destruct (refuses_empty votes strict) eqn:Er; [discriminate|].
    unfold fuel_bound in Hf. destruct (binit d q votes n) as [e|s] eqn:Ei; [apply (binit_error n e Ei)|].
    destruct (Z_lt_le_dec n 0) as [Hn|Hn].
    { exfalso. unfold binit, initial_solution in Ei. rewrite (evaluate_nonpos d (party_totals votes) n) in Ei by lia. discriminate. }
    pose proof (not_refused_some votes Hwf Hvnn strict Hs Er) as Hsome.
    destruct (binit_inv d q k Hq0 Hq1 Hk Hd votes Hwf Hvnn Hsome n Hn s Ei) as (pseats & _ & I).
    apply (bloop_terminates q Hq0 Hq1 votes Hwf pseats tgt dorder Hdo fuel s 0%nat I (upd_min_0 q votes tgt dorder Hdo s)); [lia|].
    unfold K. nia.
  Qed.

  Theorem evaluate_total_terminates strict n fuel : strict = true \/ (exists i j, 0 < mget votes i j) ->
    (fuel_bound_total d q votes dorder n <= fuel)%nat ->
    evaluate_total d q votes strict n dorder fuel <> BP_out_of_fuel.
  Proof.
    intros Hs Hf. unfold evaluate_total. destruct (refuses_empty votes strict) eqn:Er; [discriminate|].
    destruct (binit d q votes n) as [e|s] eqn:Ei; [apply (binit_error n e Ei)|].
    unfold fuel_bound_total in Hf.
    destruct (evaluate d (district_totals votes) n [] []) as [tgt [t|]|]; try discriminate.
    apply (evaluate_core_terminates strict tgt n fuel Hs Hf).
  Qed.
End WholeTerm.
