(* Lemmas for property C07, part 7: COMPLETENESS of the feasibility reference [feasible_ref] (Model/Biprop.v): with
   duplicate-free index lists and non-negative marginals it never answers [FeasUnknown] - it returns a matrix with the
   marginals and the support, or a Hall-type cut (both are re-checked: soundness is Proofs/Biprop_steps.v).

   The reference is a unit-augmenting-path max-flow: rows with a deficit are labelled, columns are labelled from labelled
   rows along the support, rows from labelled columns along positive cells; a labelled column with spare demand gives an
   augmenting path ([push_back] walks the predecessor labels), otherwise the labelled rows are a cut.
     1. the labelling sweeps are instances of the generic sweep of Proofs/BipropTerm_proofs.v; after
        |rows| + |columns| + 1 sweeps the labels are closed under both rules;
     2. predecessors are labelled earlier (rank = position among the labelled rows), so [push_back] reaches a deficit row
        within its fuel, never decrements an empty cell, and adds exactly one unit of flow;
     3. with closed labels and no labelled column with spare demand the labelled rows violate Hall's condition: [cut_ok];
     4. the total deficit drops by one per augmentation: the outer fuel suffices. *)
From Coq Require Import ZArith QArith List Bool Lia Arith.
From VL Require Import Prelude.PyDict Model.Divisor Model.HighestAverages Model.Biprop Model.BipropLoop
     Proofs.Dict_proofs Proofs.Divisor_proofs Proofs.Biprop_proofs Proofs.Biprop_steps Proofs.BipropLoop_proofs
     Proofs.BipropTerm_proofs.
Import ListNotations.
Open Scope Z_scope.

(* ------------------------------------------------------------------ lists, dictionaries *)
Lemma dget_app_l {X} (l a : list (C * X)) k : In k (map fst l) -> dget (l ++ a) k = dget l k.
Proof.
  induction l as [|[k0 v0] l IH]; simpl; [tauto|]. intros H. destruct (ceqb k k0) eqn:E; [reflexivity|].
  apply IH. destruct H as [H|H]; [subst k0; rewrite ceqb_refl in E; discriminate|exact H].
Qed.
Lemma dget_app_r {X} (l a : list (C * X)) k : ~ In k (map fst l) -> dget (l ++ a) k = dget a k.
Proof.
  induction l as [|[k0 v0] l IH]; simpl; [reflexivity|]. intros H. destruct (ceqb k k0) eqn:E.
  - apply ceqb_eq in E. subst k0. exfalso. apply H. left. reflexivity.
  - apply IH. intros Hi. apply H. right. exact Hi.
Qed.

Lemma fold_left_fst {A X Y} (f : A -> X -> A) (l : list (X * Y)) a :
  fold_left (fun acc xy => f acc (fst xy)) l a = fold_left f (map fst l) a.
Proof. revert a. induction l as [|x l IH]; intros a; simpl; [reflexivity|apply IH]. Qed.

Lemma fold_left_some {A B} (f : A -> B -> A) (g : option A -> B -> option A) (l : list B) :
  (forall a x, g (Some a) x = Some (f a x)) -> forall a, fold_left g l (Some a) = Some (fold_left f l a).
Proof. intros H. induction l as [|x l IH]; intros a; simpl; [reflexivity|]. rewrite H. apply IH. Qed.

(* position of a key *)
Fixpoint idx (k : C) (l : list C) : nat :=
  match l with [] => O | x :: t => if ceqb k x then O else S (idx k t) end.
Lemma idx_lt k l : In k l -> (idx k l < length l)%nat.
Proof.
  induction l as [|x l IH]; simpl; [tauto|]. intros H. destruct (ceqb k x) eqn:E; [lia|].
  destruct H as [H|H]; [subst x; rewrite ceqb_refl in E; discriminate|]. specialize (IH H). lia.
Qed.
Lemma idx_app_l k l a : In k l -> idx k (l ++ a) = idx k l.
Proof.
  induction l as [|x l IH]; simpl; [tauto|]. intros H. destruct (ceqb k x) eqn:E; [reflexivity|].
  destruct H as [H|H]; [subst x; rewrite ceqb_refl in E; discriminate|]. rewrite (IH H). reflexivity.
Qed.
Lemma idx_app_r k l a : ~ In k l -> (length l <= idx k (l ++ a))%nat.
Proof.
  induction l as [|x l IH]; simpl; [lia|]. intros H. destruct (ceqb k x) eqn:E.
  - apply ceqb_eq in E. subst x. exfalso. apply H. left. reflexivity.
  - assert (H' : ~ In k l) by (intros Hi; apply H; right; exact Hi). specialize (IH H'). lia.
Qed.

(* ------------------------------------------------------------------ sums *)
Lemma zsum_map_lt {X} (f g : X -> Z) l a : (forall x, In x l -> f x <= g x) -> In a l -> f a < g a ->
  zsum (map f l) < zsum (map g l).
Proof.
  induction l as [|x l IH]; intros H Ha Hlt; simpl; [destruct Ha|]. rewrite !zsum_cons.
  assert (Hx : f x <= g x) by (apply H; left; reflexivity).
  assert (Hl : zsum (map f l) <= zsum (map g l)) by (apply zsum_map_le; intros y Hy; apply H; right; exact Hy).
  destruct Ha as [->|Ha]; [lia|].
  assert (zsum (map f l) < zsum (map g l)) by (apply IH; [intros y Hy; apply H; right; exact Hy|exact Ha|exact Hlt]). lia.
Qed.
Lemma zsum_le_eq {X} (f g : X -> Z) l : (forall x, In x l -> f x <= g x) -> zsum (map f l) = zsum (map g l) ->
  forall x, In x l -> f x = g x.
Proof.
  intros H E x Hx. destruct (Z.eq_dec (f x) (g x)) as [e|n]; [exact e|exfalso].
  assert (f x < g x) by (specialize (H x Hx); lia). pose proof (zsum_map_lt f g l x H Hx H0). lia.
Qed.

(* ------------------------------------------------------------------ one unit added to a cell *)
Lemma mget_madd m i j delta i' j' :
  mget (madd m i j delta) i' j' = mget m i' j' + (if ceqb i' i && ceqb j' j then delta else 0).
Proof.
  unfold madd. rewrite mget_dset_row. destruct (ceqb i' i) eqn:Ei; simpl; [|lia].
  apply ceqb_eq in Ei. subst i'. rewrite dget_or_dset. unfold mget.
  destruct (dget m i) as [row|]; destruct (ceqb j' j) eqn:Ej; try (apply ceqb_eq in Ej; subst j'); unfold dget_or; simpl; lia.
Qed.
Lemma rowsum_madd m i j delta ps i' : NoDup ps -> In j ps ->
  rowsum (madd m i j delta) ps i' = rowsum m ps i' + (if ceqb i' i then delta else 0).
Proof.
  intros Hnd Hj. unfold rowsum.
  rewrite (zsum_map_ext _ (fun j' => mget m i' j' + (if ceqb i' i && ceqb j' j then delta else 0)) ps) by (intros; apply mget_madd).
  rewrite zsum_map_plus. f_equal. destruct (ceqb i' i); simpl.
  - rewrite (zsum_map_point (fun _ => 0) (fun j' => if ceqb j' j then delta else 0) j delta ps) by (intros x; destruct (ceqb x j); lia).
    rewrite zsum_map_zero, (count_nodup j ps Hnd Hj). lia.
  - apply zsum_map_zero.
Qed.
Lemma colsum_madd m i j delta ds j' : NoDup ds -> In i ds ->
  colsum (madd m i j delta) ds j' = colsum m ds j' + (if ceqb j' j then delta else 0).
Proof.
  intros Hnd Hi. unfold colsum.
  rewrite (zsum_map_ext _ (fun i' => mget m i' j' + (if ceqb i' i && ceqb j' j then delta else 0)) ds) by (intros; apply mget_madd).
  rewrite zsum_map_plus. f_equal. destruct (ceqb j' j); simpl.
  - rewrite (zsum_map_ext _ (fun i' => if ceqb i' i then delta else 0) ds) by (intros x _; rewrite andb_true_r; reflexivity).
    rewrite (zsum_map_point (fun _ => 0) (fun i' => if ceqb i' i then delta else 0) i delta ds) by (intros x; destruct (ceqb x i); lia).
    rewrite zsum_map_zero, (count_nodup i ds Hnd Hi). lia.
  - rewrite (zsum_map_ext _ (fun _ => 0) ds) by (intros x _; rewrite andb_false_r; reflexivity). apply zsum_map_zero.
Qed.

Section FlowC.
  Variables ds ps : list C.
  Variable sup : C -> C -> bool.
  Variables r c : C -> Z.
  Hypothesis Hds : NoDup ds.
  Hypothesis Hps : NoDup ps.

  (* the invariant of the flow matrix *)
  Record FInv (m : mat) : Prop := {
    fi_nonneg : forall i j, In i ds -> In j ps -> 0 <= mget m i j;
    fi_sup : forall i j, In i ds -> In j ps -> sup i j = false -> mget m i j = 0;
    fi_rows : forall i, In i ds -> rowsum m ps i <= r i;
    fi_cols : forall j, In j ps -> colsum m ds j <= c j
  }.

  (* ---------------------------------------------------------------- the labelling sweeps *)
  Section Labels.
    Variable m : mat.
    Variable deficit : list C.
    Hypothesis Hdef_nd : NoDup deficit.
    Hypothesis Hdef_in : forall i, In i deficit -> In i ds.

    Definition csweep (lr : rlab) (lc : clab) : clab :=
      fold_left (fun acc ip =>
        fold_left (fun acc j => if dmem acc j || negb (sup (fst ip) j) then acc else acc ++ [(j, fst ip)]) ps acc) lr lc.
    Definition rsweep (lr : rlab) (lc' : clab) : rlab :=
      fold_left (fun acc jp =>
        fold_left (fun acc i => if dmem acc i || negb (0 <? mget m i (fst jp)) then acc else acc ++ [(i, Some (fst jp))]) ds acc) lc' lr.

    Lemma sweep_eq lr lc : sweep ds ps sup m (lr, lc) = (rsweep lr (csweep lr lc), csweep lr lc).
    Proof. reflexivity. Qed.

    Lemma csweep_g lr lc :
      gsweep (fun _ _ => true) sup (fun o => o) (map fst lr) ps (Some lc) = Some (csweep lr lc).
    Proof.
      unfold gsweep, csweep.
      rewrite (fold_left_fst (fun acc i => fold_left (fun acc j => if dmem acc j || negb (sup i j) then acc else acc ++ [(j, i)]) ps acc) lr lc).
      apply fold_left_some. intros a i. apply fold_left_some. intros a' j. unfold gstep.
      destruct (dmem a' j); [reflexivity|]. destruct (sup i j); reflexivity.
    Qed.
    Lemma rsweep_g lr lc' :
      gsweep (fun _ _ => true) (fun o k => 0 <? mget m k o) (fun o => Some o) (map fst lc') ds (Some lr) = Some (rsweep lr lc').
    Proof.
      unfold gsweep, rsweep.
      rewrite (fold_left_fst (fun acc j => fold_left (fun acc i => if dmem acc i || negb (0 <? mget m i j) then acc else acc ++ [(i, Some j)]) ds acc) lc' lr).
      apply fold_left_some. intros a j. apply fold_left_some. intros a' i. unfold gstep.
      destruct (dmem a' i); [reflexivity|]. destruct (0 <? mget m i j); reflexivity.
    Qed.

    Record PInv (lr : rlab) (lc : clab) : Prop := {
      pi_ndR : NoDup (map fst lr);
      pi_ndC : NoDup (map fst lc);
      pi_keysR : forall i, In i (map fst lr) -> In i ds;
      pi_keysC : forall j, In j (map fst lc) -> In j ps;
      pi_col : forall j i, dget lc j = Some i -> In i (map fst lr) /\ sup i j = true;
      pi_row : forall i j', dget lr i = Some (Some j') ->
                 0 < mget m i j' /\ exists i'', dget lc j' = Some i'' /\ (idx i'' (map fst lr) < idx i (map fst lr))%nat;
      pi_root : forall i, dget lr i = Some None -> In i deficit
    }.

    Definition closedF (lr : rlab) (lc : clab) : Prop :=
      (forall i j, In i (map fst lr) -> In j ps -> sup i j = true -> In j (map fst lc)) /\
      (forall j i, In j (map fst lc) -> In i ds -> 0 < mget m i j -> In i (map fst lr)).

    Definition lr0 : rlab := map (fun i => (i, @None C)) deficit.
    Lemma lr0_keys : map fst lr0 = deficit.
    Proof. unfold lr0. rewrite map_map. simpl. apply map_id. Qed.

    Lemma PInv_init : PInv lr0 [].
    Proof.
      constructor.
      - rewrite lr0_keys. exact Hdef_nd.
      - constructor.
      - intros i Hi. rewrite lr0_keys in Hi. apply Hdef_in, Hi.
      - intros j [].
      - intros j i H. discriminate.
      - intros i j' H. apply dget_In in H. unfold lr0 in H. apply in_map_iff in H. destruct H as (x & E & _). discriminate.
      - intros i H. apply dget_In_key in H. rewrite lr0_keys in H. exact H.
    Qed.

    Lemma PInv_size lr lc : PInv lr lc -> (length lr + length lc <= length ds + length ps)%nat.
    Proof.
      intros I. rewrite <- (map_length fst lr), <- (map_length fst lc).
      pose proof (length_incl_le _ _ (pi_ndR _ _ I) (pi_keysR _ _ I)). pose proof (length_incl_le _ _ (pi_ndC _ _ I) (pi_keysC _ _ I)). lia.
    Qed.

    Lemma sweep_spec lr lc : PInv lr lc ->
      exists aR aC, sweep ds ps sup m (lr, lc) = (lr ++ aR, lc ++ aC) /\ PInv (lr ++ aR) (lc ++ aC) /\
        (forall i j, In i (map fst lr) -> In j ps -> sup i j = true -> In j (map fst (lc ++ aC))) /\
        (forall j i, In j (map fst (lc ++ aC)) -> In i ds -> 0 < mget m i j -> In i (map fst (lr ++ aR))).
    Proof.
      intros I. rewrite sweep_eq.
      destruct (gsweep_spec _ _ _ ps (map fst lr) lc _ (csweep_g lr lc)) as (aC & EC & AC & NC & CC & _).
      pose proof (rsweep_g lr (csweep lr lc)) as G2. rewrite EC in G2, NC, CC |- *.
      destruct (gsweep_spec _ _ _ ds (map fst (lc ++ aC)) lr _ G2) as (aR & ER & AR & NR & CR & _).
      rewrite ER in NR, CR |- *.
      exists aR, aC. split; [reflexivity|].
      (* every column label points to a row labelled BEFORE this sweep *)
      assert (Hcol : forall j i, dget (lc ++ aC) j = Some i -> In i (map fst lr) /\ sup i j = true).
      { intros j i H. destruct (in_dec Pos.eq_dec j (map fst lc)) as [Hj|Hj].
        - rewrite (dget_app_l lc aC j Hj) in H. apply (pi_col _ _ I j i H).
        - rewrite (dget_app_r lc aC j Hj) in H. apply dget_In in H. destruct (AC j i H) as (_ & o & Ho & -> & Ht). split; assumption. }
      split; [constructor|].
      - apply NR, (pi_ndR _ _ I).
      - apply NC, (pi_ndC _ _ I).
      - intros i Hi. rewrite map_app in Hi. apply in_app_or in Hi. destruct Hi as [Hi|Hi]; [apply (pi_keysR _ _ I i Hi)|].
        apply in_map_iff in Hi. destruct Hi as ([i0 v] & <- & Hin). apply (AR i0 v Hin).
      - intros j Hj. rewrite map_app in Hj. apply in_app_or in Hj. destruct Hj as [Hj|Hj]; [apply (pi_keysC _ _ I j Hj)|].
        apply in_map_iff in Hj. destruct Hj as ([j0 v] & <- & Hin). apply (AC j0 v Hin).
      - intros j i H. destruct (Hcol j i H) as [H1 H2]. split; [rewrite map_app; apply in_or_app; left; exact H1|exact H2].
      - intros i j' H. destruct (in_dec Pos.eq_dec i (map fst lr)) as [Hi|Hi].
        + rewrite (dget_app_l lr aR i Hi) in H. destruct (pi_row _ _ I i j' H) as (Hpos & i'' & Hd & Hlt).
          split; [exact Hpos|]. exists i''. split.
          * rewrite (dget_app_l lc aC j' (dget_In_key _ _ _ Hd)). exact Hd.
          * rewrite map_app, !idx_app_l; [exact Hlt|exact Hi|apply (pi_col _ _ I j' i'' Hd)].
        + rewrite (dget_app_r lr aR i Hi) in H. apply dget_In in H. destruct (AR i (Some j') H) as (_ & o & Ho & Ev & Ht).
          injection Ev as <-. apply Z.ltb_lt in Ht. split; [exact Ht|].
          apply dmem_keys in Ho. unfold dmem in Ho. destruct (dget (lc ++ aC) j') as [i''|] eqn:Ed; [|discriminate].
          exists i''. split; [reflexivity|]. destruct (Hcol j' i'' Ed) as [Hi'' _].
          rewrite map_app, (idx_app_l i'' _ _ Hi''). pose proof (idx_lt i'' _ Hi''). pose proof (idx_app_r i (map fst lr) (map fst aR) Hi). lia.
      - intros i H. destruct (in_dec Pos.eq_dec i (map fst lr)) as [Hi|Hi].
        + rewrite (dget_app_l lr aR i Hi) in H. apply (pi_root _ _ I i H).
        + rewrite (dget_app_r lr aR i Hi) in H. apply dget_In in H. destruct (AR i None H) as (_ & o & _ & Ev & _). discriminate.
      - split.
        + intros i j Hi Hj Hs. apply (CC i j Hi Hj Hs).
        + intros j i Hj Hi Hpos. apply (CR j i Hj Hi). apply Z.ltb_lt, Hpos.
    Qed.

    Lemma sweeps_fix st : sweep ds ps sup m st = st -> forall n, sweeps ds ps sup n m st = st.
    Proof. intros H. induction n as [|n IH]; simpl; [reflexivity|]. rewrite H. exact IH. Qed.

    Lemma sweeps_closed : forall n lr lc, PInv lr lc -> (length ds + length ps < n + (length lr + length lc))%nat ->
      exists lr' lc', sweeps ds ps sup n m (lr, lc) = (lr', lc') /\ PInv lr' lc' /\ closedF lr' lc' /\
        forall i, In i (map fst lr) -> In i (map fst lr').
    Proof.
      induction n as [|n IH]; intros lr lc I Hn.
      - pose proof (PInv_size lr lc I). lia.
      - destruct (sweep_spec lr lc I) as (aR & aC & Es & I1 & C1 & C2).
        change (sweeps ds ps sup (S n) m (lr, lc)) with (sweeps ds ps sup n m (sweep ds ps sup m (lr, lc))). rewrite Es.
        destruct aR as [|xr aR]; [destruct aC as [|xc aC]|].
        + rewrite !app_nil_r in *. exists lr, lc. split; [apply (sweeps_fix (lr, lc) Es)|]. split; [exact I|]. split; [split; assumption|auto].
        + rewrite app_nil_r in *.
          destruct (IH lr (lc ++ xc :: aC) I1) as (lr' & lc' & E & I' & Cl & Hk); [rewrite app_length; simpl; lia|].
          exists lr', lc'. auto.
        + destruct (IH (lr ++ xr :: aR) (lc ++ aC) I1) as (lr' & lc' & E & I' & Cl & Hk); [rewrite !app_length; simpl; lia|].
          exists lr', lc'. split; [exact E|]. split; [exact I'|]. split; [exact Cl|].
          intros i Hi. apply Hk. rewrite map_app. apply in_or_app. left. exact Hi.
    Qed.
  End Labels.

  (* ---------------------------------------------------------------- one augmentation *)
  Section Push.
    Variable m : mat.
    Variable deficit : list C.
    Variable lr : rlab.
    Variable lc : clab.
    Hypothesis HP : PInv m deficit lr lc.
    Hypothesis HF : FInv m.
    Hypothesis Hdef : forall i, In i deficit -> rowsum m ps i < r i.

    Lemma ind_sum (i : C) (delta : Z) : In i ds ->
      zsum (map (fun a => if ceqb a i then delta else 0) ds) = delta.
    Proof.
      intros Hi. rewrite (zsum_map_point (fun _ => 0) (fun a => if ceqb a i then delta else 0) i delta ds) by (intros x; destruct (ceqb x i); lia).
      rewrite zsum_map_zero, (count_nodup i ds Hds Hi). lia.
    Qed.

    Lemma push_back_ok : forall fuel mc j i,
      dget lc j = Some i -> (idx i (map fst lr) < fuel)%nat ->
      FInv mc -> In j ps -> colsum mc ds j < c j ->
      (forall i', In i' (map fst lr) -> (idx i' (map fst lr) <= idx i (map fst lr))%nat -> forall j', mget mc i' j' = mget m i' j') ->
      exists m', push_back fuel mc lr lc j = Some m' /\ FInv m' /\
                 zsum (map (fun a => rowsum m' ps a) ds) = zsum (map (fun a => rowsum mc ps a) ds) + 1.
    Proof.
      induction fuel as [|f IH]; intros mc j i Hj Hf Fc Hjp Hspare Hag; [lia|].
      destruct (pi_col _ _ _ _ HP j i Hj) as [Hilr Hsup].
      pose proof (pi_keysR _ _ _ _ HP i Hilr) as Hids.
      cbn [push_back]. rewrite Hj.
      destruct (dget lr i) as [[j'|]|] eqn:El.
      - (* an inner row: it gives a seat back to the column it was labelled from *)
        destruct (pi_row _ _ _ _ HP i j' El) as (Hpos & i'' & Hj' & Hlt).
        pose proof (pi_keysC _ _ _ _ HP j' (dget_In_key _ _ _ Hj')) as Hj'p.
        set (m2 := madd (madd mc i j 1) i j' (-1)).
        assert (G : forall a b, mget m2 a b = mget mc a b + (if ceqb a i && ceqb b j then 1 else 0) + (if ceqb a i && ceqb b j' then -1 else 0)).
        { intros a b. unfold m2. rewrite !mget_madd. reflexivity. }
        assert (Hrow : forall a, rowsum m2 ps a = rowsum mc ps a).
        { intros a. unfold m2. rewrite (rowsum_madd _ i j' (-1) ps a Hps Hj'p), (rowsum_madd _ i j 1 ps a Hps Hjp). destruct (ceqb a i); lia. }
        assert (Hcol : forall b, colsum m2 ds b = colsum mc ds b + (if ceqb b j then 1 else 0) + (if ceqb b j' then -1 else 0)).
        { intros b. unfold m2. rewrite (colsum_madd _ i j' (-1) ds b Hds Hids), (colsum_madd _ i j 1 ds b Hds Hids). reflexivity. }
        assert (Hmi : mget mc i j' = mget m i j') by (apply Hag; [exact Hilr|lia]).
        assert (Hsup' : sup i j' = true).
        { destruct (sup i j') eqn:E; [reflexivity|]. pose proof (fi_sup _ HF i j' Hids Hj'p E). lia. }
        destruct (IH m2 j' i'' Hj') as (m' & Em & Fm & Tm).
        + lia.
        + constructor.
          * intros a b Ha Hb. rewrite G. pose proof (fi_nonneg _ Fc a b Ha Hb).
            destruct (ceqb a i && ceqb b j') eqn:E; [|destruct (ceqb a i && ceqb b j); lia].
            apply andb_true_iff in E. destruct E as [E1 E2]. apply ceqb_eq in E1. apply ceqb_eq in E2. subst a b.
            destruct (ceqb i i && ceqb j' j); lia.
          * intros a b Ha Hb Hs. rewrite G, (fi_sup _ Fc a b Ha Hb Hs).
            destruct (ceqb a i && ceqb b j) eqn:E1.
            { apply andb_true_iff in E1. destruct E1 as [E1 E2]. apply ceqb_eq in E1. apply ceqb_eq in E2. subst a b. congruence. }
            destruct (ceqb a i && ceqb b j') eqn:E2; [|lia].
            apply andb_true_iff in E2. destruct E2 as [E2 E3]. apply ceqb_eq in E2. apply ceqb_eq in E3. subst a b. congruence.
          * intros a Ha. rewrite Hrow. apply (fi_rows _ Fc a Ha).
          * intros b Hb. rewrite Hcol. pose proof (fi_cols _ Fc b Hb).
            destruct (ceqb b j) eqn:E1; destruct (ceqb b j') eqn:E2; try lia; apply ceqb_eq in E1; rewrite <- E1 in Hspare; lia.
        + exact Hj'p.
        + rewrite Hcol, ceqb_refl. pose proof (fi_cols _ Fc j' Hj'p).
          destruct (ceqb j' j) eqn:E1; [apply ceqb_eq in E1; subst j'; lia|lia].
        + intros i' Hi' Hle b. rewrite G.
          assert (Hne : ceqb i' i = false).
          { apply ceqb_neq. intros ->. lia. }
          rewrite Hne. simpl. rewrite Z.add_0_r, Z.add_0_r. apply Hag; [exact Hi'|lia].
        + exists m'. split; [exact Em|]. split; [exact Fm|]. rewrite Tm. f_equal. apply zsum_map_ext. intros a _. apply Hrow.
      - (* a deficit row: the path ends, one more unit of flow *)
        set (m1 := madd mc i j 1).
        assert (G : forall a b, mget m1 a b = mget mc a b + (if ceqb a i && ceqb b j then 1 else 0)) by (intros a b; apply mget_madd).
        assert (Hrow : forall a, rowsum m1 ps a = rowsum mc ps a + (if ceqb a i then 1 else 0)) by (intros a; apply rowsum_madd; assumption).
        assert (Hcol : forall b, colsum m1 ds b = colsum mc ds b + (if ceqb b j then 1 else 0)) by (intros b; apply colsum_madd; assumption).
        exists m1. split; [reflexivity|]. split.
        + constructor.
          * intros a b Ha Hb. rewrite G. pose proof (fi_nonneg _ Fc a b Ha Hb). destruct (ceqb a i && ceqb b j); lia.
          * intros a b Ha Hb Hs. rewrite G, (fi_sup _ Fc a b Ha Hb Hs).
            destruct (ceqb a i && ceqb b j) eqn:E1; [|lia].
            apply andb_true_iff in E1. destruct E1 as [E1 E2]. apply ceqb_eq in E1. apply ceqb_eq in E2. subst a b. congruence.
          * intros a Ha. rewrite Hrow. pose proof (fi_rows _ Fc a Ha). destruct (ceqb a i) eqn:E; [|lia].
            apply ceqb_eq in E. subst a.
            assert (E : rowsum mc ps i = rowsum m ps i).
            { unfold rowsum. apply zsum_map_ext. intros b _. apply Hag; [exact Hilr|lia]. }
            pose proof (Hdef i (pi_root _ _ _ _ HP i El)). lia.
          * intros b Hb. rewrite Hcol. pose proof (fi_cols _ Fc b Hb). destruct (ceqb b j) eqn:E; [apply ceqb_eq in E; subst b; lia|lia].
        + rewrite (zsum_map_ext _ (fun a => rowsum mc ps a + (if ceqb a i then 1 else 0)) ds) by (intros; apply Hrow).
          rewrite zsum_map_plus, (ind_sum i 1 Hids). reflexivity.
      - exfalso. apply (dget_none_notin _ _ El Hilr).
    Qed.
  End Push.

  (* ---------------------------------------------------------------- closed labels without spare demand are a cut *)
  Lemma labels_cut m deficit lr lc i0 :
    PInv m deficit lr lc -> closedF m lr lc -> FInv m ->
    In i0 ds -> In i0 (map fst lr) -> rowsum m ps i0 < r i0 ->
    filter (fun jp : C * C => colsum m ds (fst jp) <? c (fst jp)) lc = [] ->
    cut_ok ds ps sup r c (map fst lr) = true.
  Proof.
    intros HP [C1 C2] HF Hi0 Hi0S Hdef Hnos.
    unfold cut_ok. apply orb_true_iff. right. apply Z.ltb_lt.
    set (S := map fst lr) in *.
    set (S' := filter (fun i => cmem i S) ds).
    set (T := reach ds ps sup S).
    assert (HT : forall j, In j T -> In j ps /\ In j (map fst lc)).
    { intros j Hj. unfold T, reach in Hj. apply filter_In in Hj. destruct Hj as [Hjp Hex]. split; [exact Hjp|].
      apply existsb_exists in Hex. destruct Hex as (i & Hi & Hb). apply andb_true_iff in Hb. destruct Hb as [Hc Hs].
      apply cmem_In in Hc. apply (C1 i j Hc Hjp Hs). }
    assert (Hsat : forall j, In j T -> colsum m ds j = c j).
    { intros j Hj. destruct (HT j Hj) as [Hjp Hjl]. pose proof (fi_cols _ HF j Hjp) as Hle.
      apply in_map_iff in Hjl. destruct Hjl as ([j0 p] & <- & Hin). cbn [fst] in *.
      pose proof (filter_nil _ _ Hnos (j0, p) Hin) as Hf. cbv beta in Hf. cbn [fst] in Hf. apply Z.ltb_ge in Hf. lia. }
    assert (HS' : forall i, In i S' -> In i ds /\ In i S).
    { intros i Hi. apply filter_In in Hi. destruct Hi as [H1 H2]. split; [exact H1|apply cmem_In, H2]. }
    (* the demand of the reached columns is met by the labelled rows alone *)
    assert (E1 : zsum (map c T) = zsum (map (fun j => zsum (map (fun i => mget m i j) S')) T)).
    { apply zsum_map_ext. intros j Hj. rewrite <- (Hsat j Hj). unfold colsum, S'. symmetry. apply zsum_filter_eq.
      intros i Hi Hf. destruct (HT j Hj) as [Hjp Hjl].
      pose proof (fi_nonneg _ HF i j Hi Hjp) as Hnn.
      destruct (Z.eq_dec (mget m i j) 0) as [e|n]; [exact e|exfalso].
      assert (Hin : In i S) by (apply (C2 j i Hjl Hi); lia). apply cmem_In in Hin. congruence. }
    rewrite (zsum_swap (fun j i => mget m i j) T S') in E1.
    assert (E2 : zsum (map (fun i => zsum (map (fun j => mget m i j) T)) S') <= zsum (map (fun i => rowsum m ps i) S')).
    { apply zsum_map_le. intros i Hi. unfold rowsum, T, reach. apply zsum_filter_le.
      intros j Hj. apply (fi_nonneg _ HF i j (proj1 (HS' i Hi)) Hj). }
    assert (E3 : zsum (map (fun i => rowsum m ps i) S') < zsum (map r S')).
    { apply (zsum_map_lt _ _ S' i0).
      - intros i Hi. apply (fi_rows _ HF i (proj1 (HS' i Hi))).
      - unfold S'. apply filter_In. split; [exact Hi0|apply cmem_In, Hi0S].
      - exact Hdef. }
    fold T. fold S'. lia.
  Qed.

  (* ---------------------------------------------------------------- the outer loop *)
  Definition gap (m : mat) : Z := zsum (map (fun i => r i - rowsum m ps i) ds).

  Lemma gap_nonneg m : FInv m -> 0 <= gap m.
  Proof. intros HF. unfold gap. apply zsum_map_nonneg. intros i Hi. pose proof (fi_rows _ HF i Hi). lia. Qed.

  Lemma flow_loop_complete : zsum (map r ds) = zsum (map c ps) ->
    forall fuel m, FInv m -> gap m < Z.of_nat fuel -> flow_loop ds ps sup r c fuel m <> FeasUnknown.
  Proof.
    intros Htot. induction fuel as [|f IH]; intros m HF Hg; [pose proof (gap_nonneg m HF); lia|].
    cbn [flow_loop].
    destruct (filter (fun i => rowsum m ps i <? r i) ds) as [|x dl] eqn:Ed.
    - (* no deficit: the matrix has the marginals *)
      assert (Hok : matrix_ok ds ps sup r c m = true).
      { apply matrix_ok_iff.
        assert (Hrows : forall i, In i ds -> rowsum m ps i = r i).
        { intros i Hi. pose proof (filter_nil _ _ Ed i Hi) as Hf. cbv beta in Hf. apply Z.ltb_ge in Hf. pose proof (fi_rows _ HF i Hi). lia. }
        split; [exact Hrows|]. split.
        - apply (zsum_le_eq (fun j => colsum m ds j) c ps (fi_cols _ HF)).
          rewrite <- Htot. rewrite <- (zsum_map_ext (fun i => rowsum m ps i) r ds Hrows).
          unfold rowsum, colsum. symmetry. apply (zsum_swap (fun i j => mget m i j)).
        - intros i j Hi Hj. split; [apply (fi_nonneg _ HF i j Hi Hj)|apply (fi_sup _ HF i j Hi Hj)]. }
      rewrite Hok. discriminate.
    - set (deficit := x :: dl) in *.
      assert (Hdef_nd : NoDup deficit) by (rewrite <- Ed; apply NoDup_filter, Hds).
      assert (Hdef_in : forall i, In i deficit -> In i ds /\ rowsum m ps i < r i).
      { intros i Hi. rewrite <- Ed in Hi. apply filter_In in Hi. destruct Hi as [H1 H2]. apply Z.ltb_lt in H2. auto. }
      destruct (sweeps_closed m deficit (length ds + length ps + 1) (lr0 deficit) []
                  (PInv_init m deficit Hdef_nd (fun i Hi => proj1 (Hdef_in i Hi)))) as (lr & lc & Es & HP & Cl & Hk); [lia|].
      match goal with |- context [sweeps ?a ?b ?c0 ?n ?mm ?st] => replace (sweeps a b c0 n mm st) with (lr, lc) by (symmetry; exact Es) end.
      destruct (filter (fun jp : C * C => colsum m ds (fst jp) <? c (fst jp)) lc) as [|[j p] rest] eqn:Esp.
      + (* no labelled column has spare demand: a cut *)
        assert (Hx : In x deficit) by (left; reflexivity).
        assert (Hcut : cut_ok ds ps sup r c (map fst lr) = true).
        { apply (labels_cut m deficit lr lc x HP Cl HF (proj1 (Hdef_in x Hx))); [|apply (Hdef_in x Hx)|exact Esp].
          apply Hk. rewrite lr0_keys. exact Hx. }
        rewrite Hcut. discriminate.
      + (* an augmenting path *)
        assert (Hin : In (j, p) (filter (fun jp : C * C => colsum m ds (fst jp) <? c (fst jp)) lc)) by (rewrite Esp; left; reflexivity).
        apply filter_In in Hin. destruct Hin as [Hjl Hsp]. cbn [fst] in Hsp. apply Z.ltb_lt in Hsp.
        assert (Hjk : In j (map fst lc)) by (apply in_map_iff; exists (j, p); auto).
        assert (Hd : exists i, dget lc j = Some i).
        { apply dmem_keys in Hjk. unfold dmem in Hjk. destruct (dget lc j) as [i|]; [exists i; reflexivity|discriminate]. }
        destruct Hd as (i & Hd).
        destruct (pi_col _ _ _ _ HP j i Hd) as [Hilr _].
        destruct (push_back_ok m deficit lr lc HP HF (fun a Ha => proj2 (Hdef_in a Ha)) (length ds + length ps + 2) m j i Hd) as (m' & Em & Fm & Tm).
        * pose proof (idx_lt i _ Hilr) as H1. rewrite map_length in H1. pose proof (PInv_size m deficit lr lc HP). lia.
        * exact HF.
        * apply (pi_keysC _ _ _ _ HP j Hjk).
        * exact Hsp.
        * reflexivity.
        * rewrite Em. apply (IH m' Fm).
          assert (Eg : forall mm, gap mm = zsum (map r ds) - zsum (map (fun a => rowsum mm ps a) ds)).
          { intros mm. unfold gap. apply (zsum_map_minus r (fun a => rowsum mm ps a) ds). }
          rewrite Eg in Hg |- *. rewrite Tm. lia.
  Qed.

  Theorem feasible_ref_complete : (forall i, In i ds -> 0 <= r i) -> (forall j, In j ps -> 0 <= c j) ->
    feasible_ref ds ps sup r c <> FeasUnknown.
  Proof.
    intros Hr Hc. unfold feasible_ref. destruct (negb (zsum (map r ds) =? zsum (map c ps))) eqn:Et.
    - unfold cut_ok. rewrite Et. discriminate.
    - apply negb_false_iff, Z.eqb_eq in Et. apply (flow_loop_complete Et).
      + constructor.
        * intros i j _ _. unfold mget. simpl. lia.
        * intros i j _ _ _. reflexivity.
        * intros i Hi. unfold rowsum. rewrite (zsum_map_ext _ (fun _ => 0) ps) by reflexivity. rewrite zsum_map_zero. apply Hr, Hi.
        * intros j Hj. unfold colsum. rewrite (zsum_map_ext _ (fun _ => 0) ds) by reflexivity. rewrite zsum_map_zero. apply Hc, Hj.
      + unfold gap.
        assert (E : zsum (map (fun i => r i - rowsum [] ps i) ds) = zsum (map (fun i => Z.max 0 (r i)) ds)).
        { apply zsum_map_ext. intros i Hi. unfold rowsum. rewrite (zsum_map_ext _ (fun _ => 0) ps) by reflexivity. rewrite zsum_map_zero.
          pose proof (Hr i Hi). lia. }
        rewrite E. assert (0 <= zsum (map (fun i => Z.max 0 (r i)) ds)) by (apply zsum_map_nonneg; intros; lia). lia.
  Qed.
End FlowC.
