(* PreferenceAddition (Bucklin / Oklahoma), shared ranks split, repaired loop: the winner LEAVES a shared rank for a place of
   its own directly above it (and from there moves further up by Proofs/BucklinShared_proofs.v).

   The old ballot ... {la, w, lb} ... has k! variants for that rank (k = |la| + |lb| + 1), the new one ... w, {la, lb} ...
   has (k-1)!.  The permutations of (la ++ w :: lb) are, as a multiset, the insertions of w at every place of every
   permutation of (la ++ lb) ([perms_insert], a statement about sums over itertools.permutations as modelled by
   [perms_n] / [picks]); each insertion is lifted by the variant that has w in front ([inserted_lifts]); so the SUM of a
   w-monotone functional over the old variants is at most k times the sum over the new ones, and conversely for the other
   candidates ([dom], closed under common prefixes with shared ranks).  Dividing by the numbers of variants (which are in
   the ratio k, by the same relation applied to the constant functional) orders the means. *)
From Coq Require Import ZArith QArith List Bool Arith Lia Lqa Permutation.
From VL Require Import Prelude.Sx Prelude.PyDict Prelude.GDict Model.GetNBest Model.Convert Model.Bucklin
     Proofs.Dict_proofs Proofs.QOrd Proofs.GetNBest_proofs Proofs.Additive_proofs Proofs.Bucklin_proofs Proofs.BucklinShared_proofs.
Import ListNotations.
Open Scope Q_scope.

(* ------------------------------------------------------------------ sums over lists *)
Definition qsum {X} (f : X -> Q) (l : list X) : Q := fold_right (fun x acc => f x + acc) 0 l.

Lemma lsum_qsum f vs : lsum f vs = qsum f vs.
Proof. reflexivity. Qed.

Lemma qsum_app {X} (f : X -> Q) a b : qsum f (a ++ b) == qsum f a + qsum f b.
Proof. induction a as [|x a IH]; simpl; [lra|]. rewrite IH. lra. Qed.

Lemma qsum_map {X Y} (f : Y -> Q) (g : X -> Y) l : qsum f (map g l) = qsum (fun x => f (g x)) l.
Proof. induction l as [|x l IH]; simpl; [reflexivity|]. rewrite IH. reflexivity. Qed.

Lemma qsum_flat_map {X Y} (f : Y -> Q) (g : X -> list Y) l : qsum f (flat_map g l) == qsum (fun x => qsum f (g x)) l.
Proof. induction l as [|x l IH]; simpl; [reflexivity|]. rewrite qsum_app, IH. reflexivity. Qed.

Lemma qsum_ext_in {X} (f g : X -> Q) l : (forall x, In x l -> f x == g x) -> qsum f l == qsum g l.
Proof.
  induction l as [|x l IH]; simpl; intros H; [reflexivity|].
  rewrite (H x) by (left; reflexivity). rewrite IH by (intros y Hy; apply H; right; exact Hy). reflexivity.
Qed.

Lemma qsum_le_in {X} (f g : X -> Q) l : (forall x, In x l -> f x <= g x) -> qsum f l <= qsum g l.
Proof.
  induction l as [|x l IH]; simpl; intros H; [lra|].
  assert (f x <= g x) by (apply H; left; reflexivity).
  assert (qsum f l <= qsum g l) by (apply IH; intros y Hy; apply H; right; exact Hy). lra.
Qed.

Lemma qsum_plus {X} (f g : X -> Q) l : qsum (fun x => f x + g x) l == qsum f l + qsum g l.
Proof. induction l as [|x l IH]; simpl; [lra|]. rewrite IH. lra. Qed.

Lemma qsum_scale {X} (k : Q) (f : X -> Q) l : qsum (fun x => k * f x) l == k * qsum f l.
Proof. induction l as [|x l IH]; simpl; [lra|]. rewrite IH. ring. Qed.

Lemma qsum_one {X} (l : list X) : qsum (fun _ => 1) l == inject_Z (Z.of_nat (length l)).
Proof.
  induction l as [|x l IH]; [reflexivity|]. cbn [qsum fold_right length]. fold (qsum (fun _ : X => 1) l).
  rewrite IH, Nat2Z.inj_succ, <- Z.add_1_l, inject_Z_plus. reflexivity.
Qed.

(* ------------------------------------------------------------------ itertools.permutations: picks, lengths *)
Lemma picks_length {X} (l : list X) : forall p, In p (picks l) -> S (length (snd p)) = length l.
Proof.
  induction l as [|a l IH]; intros p H; simpl in H; [destruct H|]. destruct H as [<-|H]; [reflexivity|].
  apply in_map_iff in H. destruct H as (p0 & <- & H0). cbn [snd length]. rewrite (IH p0 H0). reflexivity.
Qed.

Lemma map_pair_id {X Y} (l : list (X * list Y)) : map (fun p => (fst p, snd p)) l = l.
Proof. induction l as [|[x r] l IH]; simpl; [reflexivity|]. rewrite IH. reflexivity. Qed.

Lemma picks_app {X} (a b : list X) :
  picks (a ++ b) = map (fun p => (fst p, snd p ++ b)) (picks a) ++ map (fun p => (fst p, a ++ snd p)) (picks b).
Proof.
  induction a as [|x a IH]; [cbn [app picks map]; rewrite map_pair_id; reflexivity|].
  cbn [app picks map fst snd]. rewrite IH, map_app, !map_map. cbn [fst snd]. reflexivity.
Qed.

Lemma perms_n_length : forall n (l p : list C), In p (perms_n n l) -> length p = n.
Proof.
  induction n as [|n IH]; intros l p H; cbn [perms_n] in H.
  - destruct H as [<-|[]]. reflexivity.
  - apply in_flat_map in H. destruct H as (pk & _ & Hm). apply in_map_iff in Hm. destruct Hm as (q & <- & Hq).
    cbn [length]. rewrite (IH _ _ Hq). reflexivity.
Qed.

(* a sum over the permutations, one level unfolded *)
Lemma qsum_perms_S (h : list C -> Q) n l :
  qsum h (perms_n (S n) l) == qsum (fun p => qsum (fun r => h (fst p :: r)) (perms_n n (snd p))) (picks l).
Proof.
  cbn [perms_n]. rewrite qsum_flat_map. apply qsum_ext_in. intros p _. rewrite qsum_map. reflexivity.
Qed.

Section INSERT.
  Variable w : C.

  (* the sum of h over the insertions of w at every place *)
  Fixpoint ins_sum (h : list C -> Q) (p : list C) : Q :=
    match p with
    | [] => h [w]
    | y :: r => h (w :: y :: r) + ins_sum (fun z => h (y :: z)) r
    end.

  Lemma ins_sum_ext : forall p (h h' : list C -> Q), (forall z, h z == h' z) -> ins_sum h p == ins_sum h' p.
  Proof.
    induction p as [|y r IH]; intros h h' H; cbn [ins_sum]; [apply H|].
    rewrite (H (w :: y :: r)). rewrite (IH (fun z => h (y :: z)) (fun z => h' (y :: z))) by (intros z; apply H). reflexivity.
  Qed.

  Theorem perms_insert : forall n (la lb : list C) (h : list C -> Q), length (la ++ lb) = n ->
    qsum h (perms_n (S n) (la ++ w :: lb)) == qsum (ins_sum h) (perms_n n (la ++ lb)).
  Proof.
    induction n as [|n IH]; intros la lb h Hlen.
    - destruct la as [|a la]; [|cbn [app length] in Hlen; lia]. destruct lb as [|b lb]; [|cbn [app length] in Hlen; lia].
      cbn. lra.
    - rewrite qsum_perms_S, picks_app. cbn [picks]. rewrite qsum_app. cbn [map qsum fold_right fst snd].
      fold (qsum (fun p : C * list C => qsum (fun r => h (fst p :: r)) (perms_n (S n) (snd p)))
                 (map (fun p : C * list C => (fst p, la ++ snd p)) (map (fun p : C * list C => (fst p, w :: snd p)) (picks lb)))).
      rewrite map_map, !qsum_map. cbn [fst snd].
      (* the right-hand side, one level unfolded *)
      rewrite (qsum_perms_S (ins_sum h) n (la ++ lb)), picks_app, qsum_app, !qsum_map. cbn [fst snd].
      (* the middle term: w first *)
      rewrite (qsum_perms_S (fun r => h (w :: r)) n (la ++ lb)), picks_app, qsum_app, !qsum_map. cbn [fst snd].
      (* the two outer terms by the induction hypothesis *)
      assert (E1 : qsum (fun p : C * list C => qsum (fun r => h (fst p :: r)) (perms_n (S n) (snd p ++ w :: lb))) (picks la) ==
                   qsum (fun p : C * list C => qsum (ins_sum (fun r => h (fst p :: r))) (perms_n n (snd p ++ lb))) (picks la)).
      { apply qsum_ext_in. intros p Hp. apply IH. pose proof (picks_length la p Hp) as Hl.
        rewrite app_length in *. lia. }
      assert (E2 : qsum (fun p : C * list C => qsum (fun r => h (fst p :: r)) (perms_n (S n) (la ++ w :: snd p))) (picks lb) ==
                   qsum (fun p : C * list C => qsum (ins_sum (fun r => h (fst p :: r))) (perms_n n (la ++ snd p))) (picks lb)).
      { apply qsum_ext_in. intros p Hp. apply IH. pose proof (picks_length lb p Hp) as Hl.
        rewrite app_length in *. lia. }
      rewrite E1, E2.
      (* ins_sum h (y :: r) = h (w :: y :: r) + ins_sum (h . cons y) r, summed *)
      assert (S1 : forall (P : list (C * list C)) (g : C * list C -> list C),
                 qsum (fun p => qsum (fun r => ins_sum h (fst p :: r)) (perms_n n (g p))) P ==
                 qsum (fun p => qsum (fun r => h (w :: fst p :: r)) (perms_n n (g p))) P +
                 qsum (fun p => qsum (ins_sum (fun r => h (fst p :: r))) (perms_n n (g p))) P).
      { intros P g. rewrite <- qsum_plus. apply qsum_ext_in. intros p _. rewrite <- qsum_plus. apply qsum_ext_in. intros r _.
        reflexivity. }
      rewrite (S1 (picks la) (fun p => snd p ++ lb)), (S1 (picks lb) (fun p => la ++ snd p)). lra.
  Qed.

  (* bounds for the sum over the insertions *)
  Lemma ins_sum_le : forall p (h : list C -> Q) (B : Q),
    (forall p1 p2, p = p1 ++ p2 -> h (p1 ++ w :: p2) <= B) -> ins_sum h p <= inject_Z (Z.of_nat (S (length p))) * B.
  Proof.
    induction p as [|y r IH]; intros h B H; cbn [ins_sum].
    - specialize (H [] [] eq_refl). cbn [app] in H. cbn [length]. change (inject_Z (Z.of_nat 1)) with 1. lra.
    - assert (H0 : h (w :: y :: r) <= B) by (apply (H [] (y :: r)); reflexivity).
      assert (H1 : ins_sum (fun z => h (y :: z)) r <= inject_Z (Z.of_nat (S (length r))) * B).
      { apply IH. intros p1 p2 E. apply (H (y :: p1) p2). rewrite E. reflexivity. }
      replace (Z.of_nat (S (length (y :: r)))) with (1 + Z.of_nat (S (length r)))%Z by (cbn [length]; lia).
      rewrite inject_Z_plus. change (inject_Z 1) with 1. lra.
  Qed.

  Lemma ins_sum_ge : forall p (h : list C -> Q) (B : Q),
    (forall p1 p2, p = p1 ++ p2 -> B <= h (p1 ++ w :: p2)) -> inject_Z (Z.of_nat (S (length p))) * B <= ins_sum h p.
  Proof.
    induction p as [|y r IH]; intros h B H; cbn [ins_sum].
    - specialize (H [] [] eq_refl). cbn [app] in H. cbn [length]. change (inject_Z (Z.of_nat 1)) with 1. lra.
    - assert (H0 : B <= h (w :: y :: r)) by (apply (H [] (y :: r)); reflexivity).
      assert (H1 : inject_Z (Z.of_nat (S (length r))) * B <= ins_sum (fun z => h (y :: z)) r).
      { apply IH. intros p1 p2 E. apply (H (y :: p1) p2). rewrite E. reflexivity. }
      replace (Z.of_nat (S (length (y :: r)))) with (1 + Z.of_nat (S (length r)))%Z by (cbn [length]; lia).
      rewrite inject_Z_plus. change (inject_Z 1) with 1. lra.
  Qed.

  (* ---------------------------------------------------------------- domination of sums *)
  (* a pair (F, G) with F v <= G v' whenever v' lifts w relative to v: e.g. F = G = what a ballot has given w before round r;
     and the pairs with the inequality reversed: what it has given somebody else *)
  Definition up_pair (F G : ranked -> Q) : Prop := forall v v', lifts_all w v v' -> F v <= G v'.
  Definition down_pair (F G : ranked -> Q) : Prop := forall v v', lifts_all w v v' -> G v' <= F v.

  (* the variants V of the old ballot against the variants V' of the new one, k old ones for every new one *)
  Definition dom (k : Q) (V V' : list ranked) : Prop :=
    (forall F G, up_pair F G -> qsum F V <= k * qsum G V') /\
    (forall F G, down_pair F G -> k * qsum G V' <= qsum F V).

  Lemma up_pair_app q F G : up_pair F G -> up_pair (fun v => F (q ++ v)) (fun v => G (q ++ v)).
  Proof. intros H v v' Hl. apply H. apply lifts_all_app, Hl. Qed.
  Lemma down_pair_app q F G : down_pair F G -> down_pair (fun v => F (q ++ v)) (fun v => G (q ++ v)).
  Proof. intros H v v' Hl. apply H. apply lifts_all_app, Hl. Qed.

  Lemma dom_map_app k q V V' : dom k V V' -> dom k (map (app q) V) (map (app q) V').
  Proof.
    intros [U D]. split; intros F G H; rewrite !qsum_map.
    - apply (U _ _ (up_pair_app q F G H)).
    - apply (D _ _ (down_pair_app q F G H)).
  Qed.

  Lemma dom_map_cons k it V V' : dom k V V' -> dom k (map (cons it) V) (map (cons it) V').
  Proof. apply (dom_map_app k [it]). Qed.

  Lemma dom_flat_map {X} k (g g' : X -> list ranked) l :
    (forall x, In x l -> dom k (g x) (g' x)) -> dom k (flat_map g l) (flat_map g' l).
  Proof.
    intros H. split; intros F G HP; rewrite !qsum_flat_map, <- qsum_scale.
    - apply qsum_le_in. intros x Hx. apply (proj1 (H x Hx)), HP.
    - apply qsum_le_in. intros x Hx. apply (proj2 (H x Hx)), HP.
  Qed.

  Lemma dom_prefix k p1 : forall t t', dom k (svariants t) (svariants t') -> dom k (svariants (p1 ++ t)) (svariants (p1 ++ t')).
  Proof.
    induction p1 as [|it p1 IH]; intros t t' H; [exact H|]. cbn [app svariants]. destruct it as [c|l].
    - apply dom_map_cons, IH, H.
    - apply dom_flat_map. intros p _. apply dom_map_app, IH, H.
  Qed.

  (* ---------------------------------------------------------------- the shared rank that w leaves *)
  Lemma lifts_insertion (p1 p2 : list C) (tau : ranked) : ~ In w p1 ->
    lifts_all w (map IP (p1 ++ w :: p2) ++ tau) (IP w :: map IP (p1 ++ p2) ++ tau).
  Proof.
    intros Hw. apply inserted_lifts. exists (map IP p1), (map IP p2 ++ tau).
    split; [rewrite map_app, <- app_assoc; reflexivity|]. split; [rewrite map_app, <- app_assoc; reflexivity|].
    fold (plain_ballot p1). rewrite flatten_plain. exact Hw.
  Qed.

  Theorem dom_leave (la lb : list C) (p3 : ranked) : ~ In w (la ++ lb) ->
    dom (inject_Z (Z.of_nat (S (length (la ++ lb)))))
        (svariants (IS (la ++ w :: lb) :: p3)) (svariants (IP w :: IS (la ++ lb) :: p3)).
  Proof.
    intros Hw. set (n := length (la ++ lb)). set (T := svariants p3).
    assert (Hlen : length (la ++ w :: lb) = S n) by (unfold n; rewrite !app_length; cbn [length]; lia).
    assert (Hin : forall p, In p (perms_n n (la ++ lb)) -> length p = n /\ ~ In w p).
    { intros p Hp. split; [apply (perms_n_length _ _ _ Hp)|]. intros Hi. apply Hw. exact (perms_n_incl _ _ _ Hp w Hi). }
    split; intros F G HP; cbn [svariants]; unfold perms; fold T; rewrite Hlen; fold n;
      rewrite qsum_map, !qsum_flat_map;
      rewrite (perms_insert n la lb (fun x => qsum F (map (app (map IP x)) T)) eq_refl), <- qsum_scale.
    - apply qsum_le_in. intros p Hp. destruct (Hin p Hp) as [Hl Hnw]. rewrite <- Hl.
      apply ins_sum_le. intros p1 p2 ->. rewrite !qsum_map. apply qsum_le_in. intros tau _.
      apply HP. apply lifts_insertion. intros Hi. apply Hnw, in_or_app. left. exact Hi.
    - apply qsum_le_in. intros p Hp. destruct (Hin p Hp) as [Hl Hnw]. rewrite <- Hl.
      apply ins_sum_ge. intros p1 p2 ->. rewrite !qsum_map. apply qsum_le_in. intros tau _.
      apply HP. apply lifts_insertion. intros Hi. apply Hnw, in_or_app. left. exact Hi.
  Qed.

  (* ---------------------------------------------------------------- from sums to means *)
  Lemma lifts_all_refl v : lifts_all w v v.
  Proof. intros coef _. apply pa_lifts_refl. Qed.

  Lemma dom_counts k V V' : dom k V V' -> inject_Z (Z.of_nat (length V)) == k * inject_Z (Z.of_nat (length V')).
  Proof.
    intros [U D]. rewrite <- !qsum_one.
    assert (H1 : qsum (fun _ : ranked => 1) V <= k * qsum (fun _ : ranked => 1) V') by (apply U; intros v v' _; lra).
    assert (H2 : k * qsum (fun _ : ranked => 1) V' <= qsum (fun _ : ranked => 1) V) by (apply D; intros v v' _; lra).
    lra.
  Qed.

  Lemma mean_le (k s s' a a' : Q) : 0 < k -> 0 < s' -> s == k * s' -> a <= k * a' -> / s * a <= / s' * a'.
  Proof.
    intros Hk Hs' Hs Ha. assert (Hs0 : 0 < s) by (rewrite Hs; apply Qmult_lt_0_compat; assumption).
    assert (E : / s * a == a / s) by (unfold Qdiv; ring). rewrite E. apply Qle_shift_div_r; [exact Hs0|].
    rewrite Hs. assert (E2 : / s' * a' * (k * s') == k * a' * (s' * / s')) by ring. rewrite E2, Qmult_inv_r by lra. lra.
  Qed.

  Lemma mean_ge (k s s' a a' : Q) : 0 < k -> 0 < s' -> s == k * s' -> k * a' <= a -> / s' * a' <= / s * a.
  Proof.
    intros Hk Hs' Hs Ha. assert (Hs0 : 0 < s) by (rewrite Hs; apply Qmult_lt_0_compat; assumption).
    assert (E : / s * a == a / s) by (unfold Qdiv; ring). rewrite E. apply Qle_shift_div_l; [exact Hs0|].
    rewrite Hs. assert (E2 : / s' * a' * (k * s') == k * a' * (s' * / s')) by ring. rewrite E2, Qmult_inv_r by lra. lra.
  Qed.

  Lemma count_pos (b : ranked) : 0 < inject_Z (Z.of_nat (length (svariants b))).
  Proof.
    change 0 with (inject_Z 0). rewrite <- Zlt_Qlt. pose proof (svariants_nonempty b) as H.
    destruct (svariants b); [congruence|cbn [length]; lia].
  Qed.

  Theorem dom_spread k b b' : 0 < k -> has_shared b = true -> has_shared b' = true -> dom k (svariants b) (svariants b') ->
    (forall F G, up_pair F G -> spread F b <= spread G b') /\ (forall F G, down_pair F G -> spread G b' <= spread F b).
  Proof.
    intros Hk Hs Hs' Hd. pose proof (dom_counts _ _ _ Hd) as Hc. destruct Hd as [U D].
    split; intros F G HP; unfold spread, avgv; rewrite Hs, Hs', !variants_svariants, !lsum_qsum.
    - apply (mean_le k); [exact Hk|apply count_pos|exact Hc|apply U, HP].
    - apply (mean_ge k); [exact Hk|apply count_pos|exact Hc|apply D, HP].
  Qed.
End INSERT.

(* ------------------------------------------------------------------ the ballot *)
Lemma cumb_up_pair coef w r : coef_good coef -> up_pair w (fun v => cumb coef v r w) (fun v => cumb coef v r w).
Proof. intros Hg v v' H. exact (proj1 (H coef Hg) r). Qed.

Lemma cumb_down_pair coef w r c : coef_good coef -> c <> w -> down_pair w (fun v => cumb coef v r c) (fun v => cumb coef v r c).
Proof. intros Hg Hc v v' H. exact (proj2 (H coef Hg) r c Hc). Qed.

Lemma has_shared_mid (q : ranked) l t : has_shared (q ++ IS l :: t) = true.
Proof. rewrite has_shared_app. cbn. apply orb_true_r. Qed.
Lemma has_shared_mid2 (q : ranked) w l t : has_shared (q ++ IP w :: IS l :: t) = true.
Proof. rewrite has_shared_app. cbn. apply orb_true_r. Qed.

(* w leaves the shared rank {la, w, lb} for a place of its own directly above the rest of the rank *)
Theorem pa_leave_shared coef pre post (q p3 : ranked) (la lb : list C) (x : Q) (w : C) :
  (forall i, 0 <= coef i) -> (forall i, coef (S i) <= coef i) ->
  Forall (fun bw => 0 <= snd bw) (pre ++ post) -> 0 <= x -> ~ In w (la ++ lb) ->
  pa_eval true coef true (pre ++ (q ++ IS (la ++ w :: lb) :: p3, x) :: post) 1 = PA_ok [Cand w] ->
  pa_eval true coef true (pre ++ (q ++ IP w :: IS (la ++ lb) :: p3, x) :: post) 1 = PA_ok [Cand w].
Proof.
  intros Hnn Hdec Hw Hx Hnin.
  assert (Hg : coef_good coef) by (split; assumption).
  set (k := inject_Z (Z.of_nat (S (length (la ++ lb))))).
  assert (Hk : 0 < k) by (unfold k; change 0 with (inject_Z 0); rewrite <- Zlt_Qlt; lia).
  pose proof (dom_prefix w k q _ _ (dom_leave w la lb p3 Hnin)) as Hd.
  destruct (dom_spread w k _ _ Hk (has_shared_mid q _ p3) (has_shared_mid2 q w _ p3) Hd) as [U D].
  apply pa_mono_replace_split; [exact Hw|exact Hx| |].
  - intros r. apply U. apply cumb_up_pair, Hg.
  - intros r c Hc. apply D. apply cumb_down_pair; assumption.
Qed.

(* ... and moves further up past the items p2 *)
Theorem pa_leave_shared_up coef pre post (p1 p2 p3 : ranked) (la lb : list C) (x : Q) (w : C) :
  (forall i, 0 <= coef i) -> (forall i, coef (S i) <= coef i) ->
  Forall (fun bw => 0 <= snd bw) (pre ++ post) -> 0 <= x -> ~ In w (la ++ lb) -> ~ In w (flatten p2) ->
  pa_eval true coef true (pre ++ (p1 ++ p2 ++ IS (la ++ w :: lb) :: p3, x) :: post) 1 = PA_ok [Cand w] ->
  pa_eval true coef true (pre ++ (p1 ++ IP w :: p2 ++ IS (la ++ lb) :: p3, x) :: post) 1 = PA_ok [Cand w].
Proof.
  intros Hnn Hdec Hw Hx Hnin Hp2 H.
  apply (pa_move_up_shared coef pre post p1 p2 (IS (la ++ lb) :: p3) x w Hnn Hdec Hw Hx Hp2).
  rewrite app_assoc in H |- *. apply pa_leave_shared; assumption.
Qed.

(* ------------------------------------------------------------------ ballots with the same variants are interchangeable *)
Lemma svariants_no_shared b : has_shared b = false -> svariants b = [b].
Proof.
  induction b as [|it t IH]; intros H; [reflexivity|]. destruct it as [c|l]; [|discriminate H].
  cbn [svariants]. rewrite (IH H). reflexivity.
Qed.

Lemma spread_mean f b : spread f b == / inject_Z (Z.of_nat (length (svariants b))) * qsum f (svariants b).
Proof.
  unfold spread. destruct (has_shared b) eqn:E.
  - unfold avgv. rewrite variants_svariants. reflexivity.
  - rewrite (svariants_no_shared b E). cbn [length qsum fold_right]. change (/ inject_Z (Z.of_nat 1)) with 1. ring.
Qed.

Theorem pa_same_variants coef pre post (b b' : ranked) (x : Q) (w : C) :
  Forall (fun bw => 0 <= snd bw) (pre ++ post) -> 0 <= x -> svariants b = svariants b' ->
  pa_eval true coef true (pre ++ (b, x) :: post) 1 = PA_ok [Cand w] ->
  pa_eval true coef true (pre ++ (b', x) :: post) 1 = PA_ok [Cand w].
Proof.
  intros Hw Hx E. apply pa_mono_replace_split; [exact Hw|exact Hx| |].
  - intros r. rewrite !spread_mean, E. apply Qle_refl.
  - intros r c _. rewrite !spread_mean, E. apply Qle_refl.
Qed.

Lemma svariants_app_congr q : forall t t', svariants t = svariants t' -> svariants (q ++ t) = svariants (q ++ t').
Proof.
  induction q as [|it q IH]; intros t t' E; [exact E|]. cbn [app svariants]. rewrite (IH t t' E). reflexivity.
Qed.

(* a shared rank with one member is that member on a rank of its own *)
Lemma svariants_singleton c t : svariants (IS [c] :: t) = svariants (IP c :: t).
Proof. cbn [svariants]. unfold perms. cbn. rewrite app_nil_r. apply map_ext. reflexivity. Qed.

(* w leaves a shared PAIR {w, c}: the other member is written as a plain rank *)
Theorem pa_leave_pair coef pre post (p1 p2 p3 : ranked) (la lb : list C) (c : C) (x : Q) (w : C) :
  (forall i, 0 <= coef i) -> (forall i, coef (S i) <= coef i) ->
  Forall (fun bw => 0 <= snd bw) (pre ++ post) -> 0 <= x -> la ++ lb = [c] -> c <> w -> ~ In w (flatten p2) ->
  pa_eval true coef true (pre ++ (p1 ++ p2 ++ IS (la ++ w :: lb) :: p3, x) :: post) 1 = PA_ok [Cand w] ->
  pa_eval true coef true (pre ++ (p1 ++ IP w :: p2 ++ IP c :: p3, x) :: post) 1 = PA_ok [Cand w].
Proof.
  intros Hnn Hdec Hw Hx Hc Hcw Hp2 H.
  apply (pa_same_variants coef pre post (p1 ++ IP w :: p2 ++ IS [c] :: p3)); [exact Hw|exact Hx| |].
  - apply svariants_app_congr. change (IP w :: p2 ++ IS [c] :: p3) with ((IP w :: p2) ++ IS [c] :: p3).
    change (IP w :: p2 ++ IP c :: p3) with ((IP w :: p2) ++ IP c :: p3). apply svariants_app_congr, svariants_singleton.
  - rewrite <- Hc. apply pa_leave_shared_up; try assumption. rewrite Hc. intros [E|[]]. exact (Hcw E).
Qed.
