(* RoundedVotes (Model/Convert2.v round_q): exact rounding of a rational count to d decimals under the eight rounding
   modes of the decimal module - error bounds, grid, fixed points / idempotence, tie rules, sign symmetry, monotonicity,
   compatibility with ==, non-additivity; the code path through one 28 digit division (round_code) agrees with it
   wherever that division is exact and differs from it elsewhere (double rounding). *)
From Coq Require Import ZArith QArith Qabs Qround Lqa Lia Bool List.
From VL Require Import Prelude.Sx Prelude.GDict Model.Convert2.
Import ListNotations.
Open Scope Q_scope.

Definition half_mode (m : rmode) : bool :=
  match m with RHalfUp | RHalfDown | RHalfEven => true | _ => false end.
(* rounding of the mirrored count *)
Definition mirror (m : rmode) : rmode :=
  match m with RCeiling => RFloor | RFloor => RCeiling | m => m end.

(* ---- booleans *)
Lemma Qle_bool_false x y : Qle_bool x y = false <-> y < x.
Proof.
  split; intros H.
  - apply Qnot_le_lt. intros H2. apply Qle_bool_iff in H2. congruence.
  - destruct (Qle_bool x y) eqn:E; [|reflexivity]. apply Qle_bool_iff in E. lra.
Qed.

Lemma Qle_bool_comp x x' y y' : x == x' -> y == y' -> Qle_bool x y = Qle_bool x' y'.
Proof.
  intros Hx Hy. destruct (Qle_bool x y) eqn:E, (Qle_bool x' y') eqn:E'; try reflexivity.
  - apply Qle_bool_iff in E. apply Qle_bool_false in E'. lra.
  - apply Qle_bool_iff in E'. apply Qle_bool_false in E. lra.
Qed.

Lemma Qeq_bool_comp x x' y y' : x == x' -> y == y' -> Qeq_bool x y = Qeq_bool x' y'.
Proof. intros Hx Hy. rewrite Hx, Hy. reflexivity. Qed.

Lemma pow10_pos d : 0 < pow10 d.
Proof.
  unfold pow10. change 0 with (inject_Z 0). rewrite <- Zlt_Qlt. apply Z.pow_pos_nonneg; lia.
Qed.

(* ---- the fractional part *)
Lemma floor_rem a : 0 <= a - inject_Z (Qfloor a) /\ a - inject_Z (Qfloor a) < 1.
Proof.
  pose proof (Qfloor_le a) as H1. pose proof (Qlt_floor a) as H2.
  rewrite inject_Z_plus in H2. change (inject_Z 1) with 1 in H2. split; lra.
Qed.

Lemma floor_unique a k : inject_Z k <= a -> a < inject_Z k + 1 -> Qfloor a = k.
Proof.
  intros H1 H2. pose proof (Qfloor_le a) as H3. pose proof (Qlt_floor a) as H4.
  rewrite inject_Z_plus in H4. change (inject_Z 1) with 1 in H4.
  assert (inject_Z (Qfloor a) < inject_Z (k + 1)) as H5 by (rewrite inject_Z_plus; change (inject_Z 1) with 1; lra).
  assert (inject_Z k < inject_Z (Qfloor a + 1)) as H6 by (rewrite inject_Z_plus; change (inject_Z 1) with 1; lra).
  rewrite <- Zlt_Qlt in H5, H6. lia.
Qed.

(* ---- the rule of each mode *)
Lemma up_comp m neg lo r r' : r == r' -> up_rule m neg lo r = up_rule m neg lo r'.
Proof.
  intros H. destruct m; simpl;
    rewrite ?(Qle_bool_comp (1#2) (1#2) r r'), ?(Qle_bool_comp r r' (1#2) (1#2)), ?(Qle_bool_comp r r' 0 0),
            ?(Qeq_bool_comp r r' (1#2) (1#2)); (reflexivity || assumption).
Qed.

Lemma up_zero m neg lo r : r == 0 -> up_rule m neg lo r = false.
Proof.
  intros H. rewrite (up_comp m neg lo r 0 H).
  destruct m; simpl; try reflexivity; destruct neg; try reflexivity; destruct (lo mod 5 =? 0)%Z; reflexivity.
Qed.

Lemma up_pos m neg lo r : up_rule m neg lo r = true -> 0 <= r -> 0 < r.
Proof.
  intros H H0. destruct (Qle_bool r 0) eqn:E.
  - apply Qle_bool_iff in E. rewrite up_zero in H; [discriminate|lra].
  - apply Qle_bool_false in E. exact E.
Qed.

Lemma up_half_true m neg lo r : half_mode m = true -> up_rule m neg lo r = true -> (1#2) <= r.
Proof.
  destruct m; try discriminate; intros _; simpl; intros H.
  - apply Qle_bool_iff in H. exact H.
  - apply negb_true_iff, Qle_bool_false in H. lra.
  - apply orb_true_iff in H. destruct H as [H|H].
    + apply negb_true_iff, Qle_bool_false in H. lra.
    + apply andb_true_iff in H. destruct H as [H _]. apply Qeq_bool_iff in H. lra.
Qed.

Lemma up_half_false m neg lo r : half_mode m = true -> up_rule m neg lo r = false -> r <= (1#2).
Proof.
  destruct m; try discriminate; intros _; simpl; intros H.
  - apply Qle_bool_false in H. lra.
  - apply negb_false_iff, Qle_bool_iff in H. exact H.
  - apply orb_false_iff in H. destruct H as [H _]. apply negb_false_iff, Qle_bool_iff in H. exact H.
Qed.

(* a larger fractional part (same integer part, same sign) never turns an upward step into a downward one *)
Lemma nonpos_false_mono r1 r2 : r1 <= r2 -> negb (Qle_bool r1 0) = true -> negb (Qle_bool r2 0) = true.
Proof. intros Hle H. apply negb_true_iff, Qle_bool_false in H. apply negb_true_iff, Qle_bool_false. lra. Qed.

Lemma up_mono m neg lo r1 r2 : r1 <= r2 -> up_rule m neg lo r1 = true -> up_rule m neg lo r2 = true.
Proof.
  intros Hle. destruct m; simpl; intros H; try discriminate.
  - apply Qle_bool_iff in H. apply Qle_bool_iff. lra.
  - apply negb_true_iff, Qle_bool_false in H. apply negb_true_iff, Qle_bool_false. lra.
  - apply orb_true_iff in H. destruct H as [H|H].
    + apply negb_true_iff, Qle_bool_false in H. apply orb_true_iff. left. apply negb_true_iff, Qle_bool_false. lra.
    + apply andb_true_iff in H. destruct H as [H Ho]. apply Qeq_bool_iff in H.
      destruct (Qle_bool r2 (1#2)) eqn:E; [|reflexivity].
      apply Qle_bool_iff in E. simpl. rewrite Ho, andb_true_r. apply Qeq_bool_iff. lra.
  - exact (nonpos_false_mono _ _ Hle H).
  - apply andb_true_iff in H. destruct H as [H H2]. rewrite H2, andb_true_r. exact (nonpos_false_mono _ _ Hle H).
  - apply andb_true_iff in H. destruct H as [H H2]. rewrite H2, andb_true_r. exact (nonpos_false_mono _ _ Hle H).
  - apply andb_true_iff in H. destruct H as [H H2]. rewrite H2, andb_true_r. exact (nonpos_false_mono _ _ Hle H).
Qed.

Lemma up_mirror m lo r : up_rule m true lo r = up_rule (mirror m) false lo r.
Proof. destruct m; simpl; rewrite ?andb_true_r, ?andb_false_r; reflexivity. Qed.

(* ---- the rounded magnitude *)
Lemma mag_comp m neg a a' : a == a' -> round_mag m neg a = round_mag m neg a'.
Proof.
  intros H. unfold round_mag. rewrite (Qfloor_comp a a' H).
  rewrite (up_comp m neg (Qfloor a') (a - inject_Z (Qfloor a')) (a' - inject_Z (Qfloor a'))); [reflexivity|].
  rewrite H. reflexivity.
Qed.

Lemma mag_split m neg a :
  let n := round_mag m neg a in
  (n = Qfloor a /\ up_rule m neg (Qfloor a) (a - inject_Z (Qfloor a)) = false) \/
  (n = (Qfloor a + 1)%Z /\ up_rule m neg (Qfloor a) (a - inject_Z (Qfloor a)) = true).
Proof.
  unfold round_mag. destruct (up_rule m neg (Qfloor a) (a - inject_Z (Qfloor a))); [right|left]; split; (reflexivity || lia).
Qed.

Lemma mag_err m neg a :
  let e := inject_Z (round_mag m neg a) - a in
  (-1 < e /\ e < 1) /\ (half_mode m = true -> -(1#2) <= e /\ e <= (1#2)).
Proof.
  destruct (floor_rem a) as [R0 R1].
  destruct (mag_split m neg a) as [[Hn Hu]|[Hn Hu]]; cbv zeta; rewrite Hn.
  - split; [split; lra|]. intros Hh. pose proof (up_half_false _ _ _ _ Hh Hu). split; lra.
  - rewrite inject_Z_plus. change (inject_Z 1) with 1.
    pose proof (up_pos _ _ _ _ Hu R0) as Hp.
    split; [split; lra|]. intros Hh. pose proof (up_half_true _ _ _ _ Hh Hu). split; lra.
Qed.

Lemma mag_nonneg m neg a : 0 <= a -> (0 <= round_mag m neg a)%Z.
Proof.
  intros H. pose proof (Qfloor_resp_le 0 a H) as H2. change (Qfloor 0) with 0%Z in H2.
  destruct (mag_split m neg a) as [[Hn _]|[Hn _]]; cbv zeta in Hn; lia.
Qed.

Lemma mag_mono m neg a b : a <= b -> (round_mag m neg a <= round_mag m neg b)%Z.
Proof.
  intros H. pose proof (Qfloor_resp_le a b H) as Hf.
  destruct (mag_split m neg a) as [[Ha Hua]|[Ha Hua]], (mag_split m neg b) as [[Hb Hub]|[Hb Hub]];
    cbv zeta in Ha, Hb; try lia.
  destruct (Z.eq_dec (Qfloor a) (Qfloor b)) as [E|E]; [|lia].
  exfalso. rewrite E in Hua.
  assert (a - inject_Z (Qfloor b) <= b - inject_Z (Qfloor b)) as Hr by lra.
  rewrite (up_mono _ _ _ _ _ Hr Hua) in Hub. discriminate.
Qed.

(* on an integer magnitude nothing happens *)
Lemma mag_int m neg a k : a == inject_Z k -> round_mag m neg a = k.
Proof.
  intros H. rewrite (mag_comp m neg a (inject_Z k) H). unfold round_mag. rewrite Qfloor_Z.
  rewrite up_zero; [lia|ring].
Qed.

(* exactly half way between k and k + 1 *)
Lemma mag_tie m neg a k : a == inject_Z k + (1#2) ->
  round_mag m neg a = (k + if up_rule m neg k (1#2) then 1 else 0)%Z.
Proof.
  intros H. unfold round_mag.
  assert (Qfloor a = k) as -> by (apply floor_unique; lra).
  rewrite (up_comp m neg k (a - inject_Z k) (1#2)); [reflexivity|lra].
Qed.

(* ---- rounding to a multiple of 1 / s *)
Section AT.
  Variable s : Q.
  Hypothesis s_pos : 0 < s.

  Lemma s_nz : ~ s == 0.
  Proof. lra. Qed.

  Lemma round_at_nonneg m x : 0 <= x -> round_at m s x == inject_Z (round_mag m false (x * s)) / s.
  Proof.
    intros H. unfold round_at. assert (Qle_bool 0 x = true) as -> by (apply Qle_bool_iff; exact H). simpl.
    rewrite (mag_comp m false (Qabs x * s) (x * s)); [reflexivity|]. rewrite (Qabs_pos x H). reflexivity.
  Qed.

  Lemma round_at_neg m x : x < 0 -> round_at m s x == - inject_Z (round_mag m true (- x * s)) / s.
  Proof.
    intros H. unfold round_at. assert (Qle_bool 0 x = false) as -> by (apply Qle_bool_false; exact H). simpl.
    rewrite (mag_comp m true (Qabs x * s) (- x * s)); [reflexivity|]. rewrite (Qabs_neg x); [reflexivity|lra].
  Qed.

  Lemma round_at_comp m x y : x == y -> round_at m s x == round_at m s y.
  Proof.
    intros H. destruct (Qlt_le_dec x 0) as [Hx|Hx].
    - rewrite (round_at_neg m x Hx), (round_at_neg m y) by lra.
      rewrite (mag_comp m true (- x * s) (- y * s)); [reflexivity|]. rewrite H. reflexivity.
    - rewrite (round_at_nonneg m x Hx), (round_at_nonneg m y) by lra.
      rewrite (mag_comp m false (x * s) (y * s)); [reflexivity|]. rewrite H. reflexivity.
  Qed.

  (* the result is a multiple of 1 / s *)
  Lemma round_at_grid m x : exists n : Z, round_at m s x == inject_Z n / s.
  Proof.
    destruct (Qlt_le_dec x 0) as [Hx|Hx].
    - exists (- round_mag m true (- x * s))%Z. rewrite (round_at_neg m x Hx), inject_Z_opp. reflexivity.
    - exists (round_mag m false (x * s)). apply round_at_nonneg. exact Hx.
  Qed.

  (* the error, as a multiple of 1 / s *)
  Lemma round_at_diff m x : exists e,
    round_at m s x - x == e / s /\ (-1 < e /\ e < 1) /\ (half_mode m = true -> -(1#2) <= e /\ e <= (1#2)).
  Proof.
    pose proof s_nz as Hs.
    destruct (Qlt_le_dec x 0) as [Hx|Hx].
    - destruct (mag_err m true (- x * s)) as [[E1 E2] E3]. cbv zeta in *.
      exists (- (inject_Z (round_mag m true (- x * s)) - - x * s)). split; [|split].
      + rewrite (round_at_neg m x Hx). field. exact Hs.
      + split; lra.
      + intros Hh. destruct (E3 Hh). split; lra.
    - destruct (mag_err m false (x * s)) as [[E1 E2] E3]. cbv zeta in *.
      exists (inject_Z (round_mag m false (x * s)) - x * s). split; [|split].
      + rewrite (round_at_nonneg m x Hx). field. exact Hs.
      + split; lra.
      + exact E3.
  Qed.

  Lemma div_s_lt e b : e < b -> e / s < b / s.
  Proof.
    intros H. unfold Qdiv. apply Qmult_lt_compat_r; [apply Qinv_lt_0_compat; exact s_pos|exact H].
  Qed.
  Lemma div_s_le e b : e <= b -> e / s <= b / s.
  Proof.
    intros H. unfold Qdiv. apply Qmult_le_compat_r; [exact H|apply Qlt_le_weak, Qinv_lt_0_compat; exact s_pos].
  Qed.

  (* every mode: less than one unit of the last kept digit away *)
  Theorem round_at_error m x : Qabs (round_at m s x - x) < 1 / s.
  Proof.
    destruct (round_at_diff m x) as (e & He & [E1 E2] & _). rewrite He.
    apply Qabs_Qlt_condition. split.
    - setoid_replace (- (1 / s)) with ((-1) / s) by (field; exact s_nz). apply div_s_lt. exact E1.
    - apply div_s_lt. exact E2.
  Qed.

  (* the three half modes: at most half a unit away *)
  Theorem round_at_half_error m x : half_mode m = true -> Qabs (round_at m s x - x) <= (1#2) / s.
  Proof.
    intros Hh. destruct (round_at_diff m x) as (e & He & _ & E3). destruct (E3 Hh) as [E1 E2]. rewrite He.
    apply Qabs_Qle_condition. split.
    - setoid_replace (- ((1#2) / s)) with ((-(1#2)) / s) by (field; exact s_nz). apply div_s_le. exact E1.
    - apply div_s_le. exact E2.
  Qed.

  (* a count that is on the grid already is left alone *)
  Theorem round_at_fix m x k : x == inject_Z k / s -> round_at m s x == x.
  Proof.
    intros Hx. destruct (round_at_grid m x) as [n Hn].
    pose proof (round_at_error m x) as He. rewrite Hn in He. rewrite Hx in He.
    assert (inject_Z n / s - inject_Z k / s == inject_Z (n - k) / s) as Hd.
    { unfold Zminus. rewrite inject_Z_plus, inject_Z_opp. field. exact s_nz. }
    rewrite Hd in He. apply Qabs_Qlt_condition in He. destruct He as [H1 H2].
    assert (-1 < inject_Z (n - k)) as H3.
    { apply (Qmult_lt_r _ _ (/ s)); [apply Qinv_lt_0_compat; exact s_pos|].
      setoid_replace (-1 * / s) with (- (1 / s)) by (field; exact s_nz). exact H1. }
    assert (inject_Z (n - k) < 1) as H4.
    { apply (Qmult_lt_r _ _ (/ s)); [apply Qinv_lt_0_compat; exact s_pos|]. exact H2. }
    change (-1) with (inject_Z (-1)) in H3. change 1 with (inject_Z 1) in H4.
    rewrite <- Zlt_Qlt in H3, H4. assert (n = k) as -> by lia. rewrite Hn, Hx. reflexivity.
  Qed.

  Theorem round_at_idempotent m x : round_at m s (round_at m s x) == round_at m s x.
  Proof. destruct (round_at_grid m x) as [n Hn]. exact (round_at_fix m _ n Hn). Qed.

  (* rounding commutes with the sign, ceiling and floor trading places *)
  Theorem round_at_opp m x : round_at m s (- x) == - round_at (mirror m) s x.
  Proof.
    destruct (Qlt_le_dec x 0) as [Hx|Hx]; [|destruct (Qlt_le_dec 0 x) as [Hp|Hp]].
    - rewrite (round_at_nonneg m (- x)) by lra. rewrite (round_at_neg (mirror m) x Hx).
      assert (round_mag (mirror m) true (- x * s) = round_mag m false (- x * s)) as ->.
      { unfold round_mag. rewrite up_mirror. destruct m; reflexivity. }
      field. exact s_nz.
    - rewrite (round_at_neg m (- x)) by lra. rewrite (round_at_nonneg (mirror m) x Hx).
      assert (round_mag m true (- - x * s) = round_mag (mirror m) false (x * s)) as ->.
      { rewrite (mag_comp m true (- - x * s) (x * s)) by ring. unfold round_mag. rewrite up_mirror. reflexivity. }
      field. exact s_nz.
    - assert (x == 0) as H0 by lra.
      rewrite (round_at_nonneg m (- x)) by lra. rewrite (round_at_nonneg (mirror m) x Hx).
      assert (round_mag m false (- x * s) = 0%Z) as -> by (apply mag_int; rewrite H0; change (inject_Z 0) with 0; ring).
      assert (round_mag (mirror m) false (x * s) = 0%Z) as -> by (apply mag_int; rewrite H0; change (inject_Z 0) with 0; ring).
      change (inject_Z 0) with 0. field. exact s_nz.
  Qed.

  Theorem round_at_monotone m x y : x <= y -> round_at m s x <= round_at m s y.
  Proof.
    intros H.
    assert (forall n1 n2 : Z, (n1 <= n2)%Z -> inject_Z n1 / s <= inject_Z n2 / s) as Hdiv.
    { intros n1 n2 Hn. apply div_s_le. rewrite <- Zle_Qle. exact Hn. }
    destruct (Qlt_le_dec x 0) as [Hx|Hx], (Qlt_le_dec y 0) as [Hy|Hy].
    - rewrite (round_at_neg m x Hx), (round_at_neg m y Hy).
      assert (- y * s <= - x * s) as Ha by (apply Qmult_le_compat_r; lra).
      pose proof (mag_mono m true _ _ Ha) as Hm.
      rewrite <- !inject_Z_opp. apply Hdiv. lia.
    - rewrite (round_at_neg m x Hx), (round_at_nonneg m y Hy).
      assert (0 <= - x * s) as Ha by (apply Qmult_le_0_compat; lra).
      assert (0 <= y * s) as Hb by (apply Qmult_le_0_compat; lra).
      pose proof (mag_nonneg m true _ Ha). pose proof (mag_nonneg m false _ Hb).
      rewrite <- inject_Z_opp. apply Hdiv. lia.
    - lra.
    - rewrite (round_at_nonneg m x Hx), (round_at_nonneg m y Hy).
      apply Hdiv, mag_mono. apply Qmult_le_compat_r; lra.
  Qed.

  (* a non-negative count exactly half way between two neighbours of the grid *)
  Lemma round_at_tie m x k : 0 <= x -> x * s == inject_Z k + (1#2) ->
    round_at m s x == inject_Z (k + if up_rule m false k (1#2) then 1 else 0) / s.
  Proof. intros Hx Hk. rewrite (round_at_nonneg m x Hx), (mag_tie m false _ k Hk). reflexivity. Qed.
End AT.

(* ================= RoundedVotes: d decimals ================= *)
Theorem round_q_compat m d x y : x == y -> round_q m d x == round_q m d y.
Proof. apply round_at_comp. Qed.

Theorem round_q_on_grid m d x : exists n : Z, round_q m d x == inject_Z n / pow10 d.
Proof. apply round_at_grid. Qed.

Theorem round_q_error m d x : Qabs (round_q m d x - x) < 1 / pow10 d.
Proof. apply round_at_error, pow10_pos. Qed.

Theorem round_q_half_error m d x : half_mode m = true -> Qabs (round_q m d x - x) <= (1#2) / pow10 d.
Proof. apply round_at_half_error, pow10_pos. Qed.

Theorem round_q_fix m d x k : x == inject_Z k / pow10 d -> round_q m d x == x.
Proof. apply round_at_fix, pow10_pos. Qed.

Theorem round_q_idempotent m d x : round_q m d (round_q m d x) == round_q m d x.
Proof. apply round_at_idempotent, pow10_pos. Qed.

Theorem round_q_opp m d x : round_q m d (- x) == - round_q (mirror m) d x.
Proof. apply round_at_opp, pow10_pos. Qed.

Theorem round_q_monotone m d x y : x <= y -> round_q m d x <= round_q m d y.
Proof. apply round_at_monotone, pow10_pos. Qed.

(* the tie rule of every mode, on a non-negative count whose (d+1)-th decimal is an exact 5 (negative counts: round_q_opp) *)
Theorem round_q_tie d x k : 0 <= x -> x * pow10 d == inject_Z k + (1#2) ->
  round_q RHalfUp d x == inject_Z (k + 1) / pow10 d /\                                       (* away from zero *)
  round_q RHalfDown d x == inject_Z k / pow10 d /\                                           (* towards zero *)
  round_q RHalfEven d x == inject_Z (if Z.even k then k else k + 1) / pow10 d /\             (* to the even neighbour *)
  round_q RUp d x == inject_Z (k + 1) / pow10 d /\
  round_q RDown d x == inject_Z k / pow10 d /\
  round_q RCeiling d x == inject_Z (k + 1) / pow10 d /\
  round_q RFloor d x == inject_Z k / pow10 d /\
  round_q R05Up d x == inject_Z (if (k mod 5 =? 0)%Z then k + 1 else k) / pow10 d.
Proof.
  intros Hx Hk. pose proof (pow10_pos d) as Hs.
  repeat split; unfold round_q; rewrite (round_at_tie _ _ x k Hx Hk); simpl; rewrite ?Z.add_0_r; try reflexivity.
  - rewrite <- Z.negb_even. destruct (Z.even k); simpl; rewrite ?Z.add_0_r; reflexivity.
  - destruct (k mod 5 =? 0)%Z; simpl; rewrite ?Z.add_0_r; reflexivity.
Qed.

(* ---- the dictionary converter: keys untouched, every count rounded *)
Lemma rounded_keys m d votes : map fst (rounded_votes m d votes) = map fst votes.
Proof. unfold rounded_votes. rewrite map_map. reflexivity. Qed.

Lemma rounded_get m d votes k :
  gget sx_eqb (rounded_votes m d votes) k == if existsb (fun kv => sx_eqb k (fst kv)) votes then round_q m d (gget sx_eqb votes k) else 0.
Proof.
  induction votes as [|[k0 v] t IH]; simpl; [reflexivity|].
  destruct (sx_eqb k k0); simpl; [reflexivity|exact IH].
Qed.

(* RoundedVotes is not additive: two half votes make one vote, their roundings make two *)
Lemma rounded_not_additive :
  exists m d a b k,
    ~ gget sx_eqb (rounded_votes m d (add_dict a b)) k ==
      gget sx_eqb (rounded_votes m d a) k + gget sx_eqb (rounded_votes m d b) k.
Proof.
  exists RHalfUp, 0%nat, [(A 1, 1#2)], [(A 1, 1#2)], (A 1). vm_compute. discriminate.
Qed.

(* ---- the computation of the library: one division at [prec] significant digits first *)
Lemma round_code_exact prec via m d x :
  sig_round prec x == x \/ via = false ->
  round_code prec via m d x = RInvalid \/ exists r, round_code prec via m d x = ROk r /\ r == round_q m d x.
Proof.
  intros H. unfold round_code.
  destruct (Qle_bool (pow10 prec) _); [left; reflexivity|right].
  eexists; split; [reflexivity|]. destruct via; [|reflexivity].
  destruct H as [H|H]; [|discriminate]. apply round_q_compat. exact H.
Qed.

(* ... and where that division is not exact the count is rounded twice: 1/2 + 10^-30 is above the half, the library
   (ROUND_HALF_DOWN, no decimals) returns 0 *)
Lemma round_code_double_rounding :
  exists x, round_code 28 true RHalfDown 0 x = ROk 0 /\ round_q RHalfDown 0 x == 1 /\ (1#2) < x.
Proof. exists ((1#2) + (1 # 10 ^ 30)). vm_compute. repeat split; reflexivity. Qed.
