(* Facts about the association-list dictionaries of Prelude/PyDict.v *)
From Coq Require Import ZArith QArith List Bool Lia.
From VL Require Import Prelude.PyDict.
Import ListNotations.
Open Scope Z_scope.

Lemma ceqb_eq a b : ceqb a b = true <-> a = b.
Proof. apply Pos.eqb_eq. Qed.
Lemma ceqb_refl a : ceqb a a = true.
Proof. apply Pos.eqb_refl. Qed.
Lemma ceqb_neq a b : ceqb a b = false <-> a <> b.
Proof. apply Pos.eqb_neq. Qed.

Section D.
  Context {X : Type}.
  Lemma dget_or_dset (t : list (C * X)) k v k' dflt :
    dget_or (dset t k v) k' dflt = if ceqb k' k then v else dget_or t k' dflt.
  Proof.
    unfold dget_or. induction t as [|[k0 v0] t IH]; simpl.
    - destruct (ceqb k' k); reflexivity.
    - destruct (ceqb k k0) eqn:E; simpl.
      + apply ceqb_eq in E. subst k0. destruct (ceqb k' k); reflexivity.
      + destruct (ceqb k' k0) eqn:E2.
        * apply ceqb_eq in E2. subst k0.
          assert (ceqb k' k = false) as ->; [|reflexivity].
          apply ceqb_neq. apply ceqb_neq in E. congruence.
        * exact IH.
  Qed.

  Lemma dget_In (t : list (C * X)) k v : dget t k = Some v -> In (k, v) t.
  Proof.
    induction t as [|[k0 v0] t IH]; simpl; [discriminate|].
    destruct (ceqb k k0) eqn:E.
    - apply ceqb_eq in E. subst. intros [= ->]. left. reflexivity.
    - intros H. right. apply IH, H.
  Qed.

  Lemma In_dget (t : list (C * X)) k v : NoDup (map fst t) -> In (k, v) t -> dget t k = Some v.
  Proof.
    induction t as [|[k0 v0] t IH]; simpl; [tauto|].
    intros Hnd [H|H].
    - injection H as -> ->. rewrite ceqb_refl. reflexivity.
    - inversion Hnd as [|? ? Hk Hnd']; subst.
      destruct (ceqb k k0) eqn:E.
      + apply ceqb_eq in E. subst. exfalso. apply Hk. apply in_map_iff. exists (k0, v). auto.
      + apply IH; assumption.
  Qed.
End D.

Lemma dget_or_incr t c c' :
  dget_or (incr_t t c) c' 0 = dget_or t c' 0 + (if ceqb c' c then 1 else 0).
Proof.
  unfold incr_t. rewrite dget_or_dset. destruct (ceqb c' c) eqn:E; [|lia].
  apply ceqb_eq in E. subst. reflexivity.
Qed.

Fixpoint count (c : C) (l : list C) : Z :=
  match l with [] => 0 | x :: t => (if ceqb c x then 1 else 0) + count c t end.

Lemma dget_or_fold_incr ks : forall t c',
  dget_or (fold_left incr_t ks t) c' 0 = dget_or t c' 0 + count c' ks.
Proof.
  induction ks as [|k ks IH]; intros t c'; simpl; [lia|].
  rewrite IH, dget_or_incr. lia.
Qed.

Lemma count_notin c l : ~ In c l -> count c l = 0.
Proof.
  induction l as [|x t IH]; simpl; intros H; [reflexivity|].
  destruct (ceqb c x) eqn:E; [apply ceqb_eq in E; subst; tauto|]. rewrite IH; tauto.
Qed.

Lemma count_nodup c l : NoDup l -> In c l -> count c l = 1.
Proof.
  induction 1 as [|x t Hx Hnd IH]; simpl; [tauto|].
  intros [->|H].
  - rewrite ceqb_refl, count_notin; [reflexivity|assumption].
  - destruct (ceqb c x) eqn:E; [apply ceqb_eq in E; subst; tauto|]. rewrite IH; [reflexivity|assumption].
Qed.

Lemma count_nonneg c l : 0 <= count c l.
Proof. induction l as [|x t IH]; simpl; [lia|]. destruct (ceqb c x); lia. Qed.

Lemma count_rev c l : count c (rev l) = count c l.
Proof.
  induction l as [|x t IH]; simpl; [reflexivity|].
  assert (H : forall a b, count c (a ++ b) = count c a + count c b).
  { induction a as [|y a IHa]; intros b; simpl; [reflexivity|]. rewrite IHa. lia. }
  rewrite H, IH. simpl. lia.
Qed.
