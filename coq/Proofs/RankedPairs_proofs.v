(* Ranked pairs (Model/Condorcet.v: reach, is_path, lock_pairs, build_ranking, ranked_pairs):
   - is_path decides reachability in the locked graph (the fuel S (length pairs) always suffices);
   - lock_pairs keeps the graph acyclic and decides every pair in order: a pair is locked unless the
     pairs locked before it already lead from its loser to its winner;
   - on a complete list of ordered pairs the locked relation is a strict total order of the candidates and
     build_ranking reads it off: the evaluator never refuses and nobody is dropped;
   - no pair is ever locked against a Condorcet winner, who therefore heads the ranking. *)
From Coq Require Import ZArith List Bool Arith Lia Permutation Sorted.
From VL Require Import Prelude.PyDict Model.GetNBest Model.Condorcet Proofs.GetNBest_proofs Proofs.Dict_proofs
  Proofs.Condorcet_proofs Proofs.Smith_proofs Proofs.Minimax_proofs Proofs.Kemeny_proofs.
From VL Require Proofs.Threshold_proofs.
Import ListNotations.
Open Scope Z_scope.

Notation cmem_In := Threshold_proofs.cmem_In.

Lemma cmem_false c l : cmem c l = false <-> ~ In c l.
Proof. rewrite <- cmem_In. destruct (cmem c l); split; congruence. Qed.

(* ================================================================ paths in a list of edges *)
Inductive path (l : list pair) : C -> C -> Prop :=
| path1 a b : In (a, b) l -> path l a b
| pathS a b c : In (a, b) l -> path l b c -> path l a c.

Lemma path_trans l a b c : path l a b -> path l b c -> path l a c.
Proof. induction 1 as [a b H|a b d H _ IH]; intros H'; [eapply pathS; eauto|eapply pathS; [exact H|apply IH, H']]. Qed.

Lemma path_snoc l a b c : path l a b -> In (b, c) l -> path l a c.
Proof. intros H H'. eapply path_trans; [exact H|apply path1, H']. Qed.

Lemma path_incl l l' a b : incl l l' -> path l a b -> path l' a b.
Proof. intros Hi. induction 1 as [a b H|a b d H _ IH]; [apply path1, Hi, H|eapply pathS; [apply Hi, H|exact IH]]. Qed.

Lemma path_last l a b : path l a b -> exists x, In (x, b) l.
Proof. induction 1 as [a b H|a b d H _ IH]; [exists a; exact H|exact IH]. Qed.

Lemma path_first l a b : path l a b -> exists x, In (a, x) l.
Proof. induction 1 as [a b H|a b d H _ IH]; exists b; exact H. Qed.

(* a path through l ++ [e] either avoids e or reaches fst e and leaves from snd e *)
Lemma path_add l (e : pair) x y : path (l ++ [e]) x y ->
  path l x y \/ ((x = fst e \/ path l x (fst e)) /\ (y = snd e \/ path l (snd e) y)).
Proof.
  induction 1 as [a b H|a b d H _ IH].
  - apply in_app_or in H. destruct H as [H|[E|[]]]; [left; apply path1, H|subst e; right; simpl; auto].
  - apply in_app_or in H. destruct H as [H|[E|[]]].
    + destruct IH as [IH|[[->|I1] I2]].
      * left. eapply pathS; eauto.
      * right. split; [right; apply path1, H|exact I2].
      * right. split; [right; eapply pathS; eauto|exact I2].
    + subst e. simpl in *. destruct IH as [IH|[_ I2]]; right; split; auto.
Qed.

(* ================================================================ reach / is_path *)
Section REACH.
  Variable l : list pair.
  Variable src : C.
  Definition reachable (vis : list C) : Prop := forall x, In x vis -> x = src \/ path l src x.

  Lemma reach_pass_sound pairs : incl pairs l -> forall vis, reachable vis -> reachable (reach_pass pairs vis).
  Proof.
    induction pairs as [|[f t] r IH]; intros Hi vis Hv; simpl; [exact Hv|].
    assert (Hr : incl r l) by (intros x Hx; apply Hi; right; exact Hx).
    destruct (cmem f vis && negb (cmem t vis)) eqn:E; [|apply IH; assumption].
    apply IH; [exact Hr|]. intros x Hx. apply in_app_or in Hx. destruct Hx as [Hx|[<-|[]]]; [apply Hv, Hx|].
    apply andb_true_iff in E. destruct E as [E _]. apply cmem_In in E. right.
    assert (Hft : In (f, t) l) by (apply Hi; left; reflexivity).
    destruct (Hv f E) as [->|Hp]; [apply path1, Hft|eapply path_snoc; eauto].
  Qed.

  Lemma reach_sound fuel : forall vis, reachable vis -> reachable (reach fuel l vis).
  Proof.
    induction fuel as [|f IH]; intros vis Hv; simpl; [exact Hv|].
    destruct (Nat.eqb _ _); [exact Hv|]. apply IH. apply reach_pass_sound; [apply incl_refl|exact Hv].
  Qed.
End REACH.

Lemma reach_pass_incl pairs : forall vis, incl vis (reach_pass pairs vis).
Proof.
  induction pairs as [|[f t] r IH]; intros vis; simpl; [apply incl_refl|].
  destruct (cmem f vis && negb (cmem t vis)); [|apply IH].
  intros x Hx. apply IH. apply in_or_app. left. exact Hx.
Qed.

Lemma reach_pass_length pairs : forall vis, (length vis <= length (reach_pass pairs vis))%nat.
Proof.
  induction pairs as [|[f t] r IH]; intros vis; simpl; [lia|].
  destruct (cmem f vis && negb (cmem t vis)); [|apply IH].
  specialize (IH (vis ++ [t])). rewrite app_length in IH. simpl in IH. lia.
Qed.

(* a pass that adds nothing: the visited set is closed under the edges *)
Lemma reach_pass_fix pairs : forall vis, length (reach_pass pairs vis) = length vis ->
  forall f t, In (f, t) pairs -> In f vis -> In t vis.
Proof.
  induction pairs as [|[f0 t0] r IH]; intros vis Hl f t Hin Hf; [destruct Hin|]. simpl in Hl.
  destruct (cmem f0 vis && negb (cmem t0 vis)) eqn:E.
  - exfalso. pose proof (reach_pass_length r (vis ++ [t0])) as H. rewrite app_length in H. simpl in H. lia.
  - destruct Hin as [Hin|Hin]; [|apply (IH vis Hl f t Hin Hf)].
    injection Hin as -> ->. apply andb_false_iff in E. destruct E as [E|E].
    + apply cmem_false in E. contradiction.
    + apply negb_false_iff, cmem_In in E. exact E.
Qed.

(* a pass that adds something adds the target of an edge that was not visited *)
Lemma reach_pass_progress pairs : forall vis, length (reach_pass pairs vis) <> length vis ->
  exists f t, In (f, t) pairs /\ ~ In t vis /\ In t (reach_pass pairs vis).
Proof.
  induction pairs as [|[f0 t0] r IH]; intros vis Hl; simpl in *; [congruence|].
  destruct (cmem f0 vis && negb (cmem t0 vis)) eqn:E.
  - exists f0, t0. split; [left; reflexivity|]. apply andb_true_iff in E. destruct E as [_ E].
    apply negb_true_iff, cmem_false in E. split; [exact E|]. apply reach_pass_incl. apply in_or_app. right. left. reflexivity.
  - destruct (IH vis Hl) as (f & t & H1 & H2 & H3). exists f, t. split; [right; exact H1|]. split; assumption.
Qed.

Lemma filter_length_lt {X} (f g : X -> bool) (l : list X) :
  (forall x, g x = true -> f x = true) -> (exists x, In x l /\ f x = true /\ g x = false) ->
  (length (filter g l) < length (filter f l))%nat.
Proof.
  intros Himp. induction l as [|a t IH]; intros (x & Hin & Hf & Hg); [destruct Hin|].
  assert (Hle : forall t, (length (filter g t) <= length (filter f t))%nat).
  { clear -Himp. induction t as [|a t IH]; simpl; [lia|]. destruct (g a) eqn:E.
    - rewrite (Himp a E). simpl. lia.
    - destruct (f a); simpl; lia. }
  simpl. destruct Hin as [->|Hin].
  - rewrite Hf, Hg. simpl. specialize (Hle t). lia.
  - assert (IH' : (length (filter g t) < length (filter f t))%nat) by (apply IH; exists x; tauto).
    destruct (g a) eqn:E; [rewrite (Himp a E); simpl; lia|]. destruct (f a); simpl; lia.
Qed.

Section REACHC.
  Variable l : list pair.
  Definition unvisited (vis : list C) : nat := length (filter (fun p : pair => negb (cmem (snd p) vis)) l).
  Definition closed (vis : list C) : Prop := forall f t, In (f, t) l -> In f vis -> In t vis.

  Lemma reach_incl fuel : forall vis, incl vis (reach fuel l vis).
  Proof.
    induction fuel as [|f IH]; intros vis; simpl; [apply incl_refl|].
    destruct (Nat.eqb _ _); [apply incl_refl|]. intros x Hx. apply IH, reach_pass_incl, Hx.
  Qed.

  Lemma reach_closed fuel : forall vis, (unvisited vis < fuel)%nat -> closed (reach fuel l vis).
  Proof.
    induction fuel as [|fuel IH]; intros vis Hm; [lia|]. simpl.
    destruct (Nat.eqb (length (reach_pass l vis)) (length vis)) eqn:E.
    - apply Nat.eqb_eq in E. intros f t. apply reach_pass_fix. exact E.
    - apply Nat.eqb_neq in E. apply IH.
      destruct (reach_pass_progress l vis E) as (f & t & H1 & H2 & H3).
      assert (unvisited (reach_pass l vis) < unvisited vis)%nat; [|lia].
      unfold unvisited. apply filter_length_lt.
      + intros [a b]. simpl. rewrite !negb_true_iff, !cmem_false. intros H H'. apply H. apply reach_pass_incl, H'.
      + exists (f, t). split; [exact H1|]. simpl. split; [apply negb_true_iff, cmem_false, H2|apply negb_false_iff, cmem_In, H3].
  Qed.

  Lemma unvisited_le vis : (unvisited vis <= length l)%nat.
  Proof. unfold unvisited. generalize l. induction l0 as [|x t IH]; simpl; [lia|]. destruct (negb _); simpl; lia. Qed.

  Lemma closed_path vis : closed vis -> forall x y, path l x y -> In x vis -> In y vis.
  Proof.
    intros Hc x y H. induction H as [x y H|x y z H _ IH]; intros Hx; [eapply Hc; eauto|].
    apply IH. eapply Hc; eauto.
  Qed.

  Theorem is_path_iff a b : is_path l a b = true <-> a <> b /\ path l a b.
  Proof.
    unfold is_path. rewrite andb_true_iff, negb_true_iff, ceqb_neq, cmem_In.
    split; intros [H1 H2].
    - split; [exact H2|].
      assert (Hr : reachable l a [a]) by (intros x [<-|[]]; left; reflexivity).
      destruct (reach_sound l a (S (length l)) [a] Hr b H1) as [->|Hp]; [congruence|exact Hp].
    - split; [|exact H1].
      assert (Hc : closed (reach (S (length l)) l [a])) by (apply reach_closed; pose proof (unvisited_le [a]); lia).
      apply (closed_path _ Hc a b H2). apply reach_incl. left. reflexivity.
  Qed.
End REACHC.

(* ================================================================ lock_pairs *)
Definition lock_step (locked : list pair) (p : pair) : list pair :=
  if is_path locked (snd p) (fst p) then locked else locked ++ [p].

Lemma lock_pairs_app l p : lock_pairs (l ++ [p]) = lock_step (lock_pairs l) p.
Proof. unfold lock_pairs. rewrite fold_left_app. reflexivity. Qed.

Lemma lock_step_incl L p : incl L (lock_step L p).
Proof. unfold lock_step. destruct (is_path _ _ _); [apply incl_refl|apply incl_appl, incl_refl]. Qed.

Lemma lock_fold_in l2 : forall acc x,
  (In x acc -> In x (fold_left lock_step l2 acc)) /\ (In x (fold_left lock_step l2 acc) -> In x acc \/ In x l2).
Proof.
  induction l2 as [|p t IH]; intros acc x; simpl; [tauto|]. destruct (IH (lock_step acc p) x) as [I1 I2]. split.
  - intros H. apply I1, lock_step_incl, H.
  - intros H. destruct (I2 H) as [H'|H']; [|tauto]. unfold lock_step in H'. destruct (is_path _ _ _); [tauto|].
    apply in_app_or in H'. simpl in H'. tauto.
Qed.

Lemma lock_incl pairs : incl (lock_pairs pairs) pairs.
Proof. intros x H. destruct (lock_fold_in pairs [] x) as [_ I]. destruct (I H) as [[]|H']. exact H'. Qed.

Definition acyclic (l : list pair) : Prop := forall x, ~ path l x x.

Section LOCK.
  Definition irrefl_pairs (pairs : list pair) : Prop := forall a b, In (a, b) pairs -> a <> b.

  Lemma irrefl_prefix l p : irrefl_pairs (l ++ [p]) -> irrefl_pairs l.
  Proof. intros H a b Hin. apply H. apply in_or_app. left. exact Hin. Qed.

  Lemma lock_acyclic pairs : irrefl_pairs pairs -> acyclic (lock_pairs pairs).
  Proof.
    induction pairs as [|[a b] l IH] using rev_ind; intros Hd.
    - intros x H. apply path_first in H. destruct H as (y & []).
    - specialize (IH (irrefl_prefix _ _ Hd)). rewrite lock_pairs_app. unfold lock_step. simpl.
      destruct (is_path (lock_pairs l) b a) eqn:E; [exact IH|].
      assert (Hab : a <> b) by (apply Hd; apply in_or_app; right; left; reflexivity).
      assert (Hnp : ~ path (lock_pairs l) b a).
      { intros Hp. assert (is_path (lock_pairs l) b a = true) by (apply is_path_iff; split; [congruence|exact Hp]). congruence. }
      intros x Hx. apply path_add in Hx. simpl in Hx.
      destruct Hx as [Hx|[[->|H1] [H2|H2]]].
      + exact (IH x Hx).
      + exact (Hab H2).
      + exact (Hnp H2).
      + subst x. exact (Hnp H1).
      + apply Hnp. eapply path_trans; eauto.
  Qed.

  (* every pair is decided: locked, or contradicted by the pairs locked before it *)
  Lemma lock_decided pairs : forall a b, In (a, b) pairs ->
    In (a, b) (lock_pairs pairs) \/ path (lock_pairs pairs) b a.
  Proof.
    induction pairs as [|p l IH] using rev_ind; intros a b Hin; [destruct Hin|].
    rewrite lock_pairs_app. apply in_app_or in Hin. destruct Hin as [Hin|[->|[]]].
    - destruct (IH a b Hin) as [H|H]; [left; apply lock_step_incl, H|right].
      eapply path_incl; [apply lock_step_incl|exact H].
    - unfold lock_step. simpl. destruct (is_path (lock_pairs l) b a) eqn:E.
      + right. apply is_path_iff in E. tauto.
      + left. apply in_or_app. right. left. reflexivity.
  Qed.

  (* the defining computation of the lock-in: a pair is locked iff the pairs locked before it do not already
     lead from its loser to its winner *)
  Theorem lock_spec l1 a b l2 : a <> b -> ~ In (a, b) l1 -> ~ In (a, b) l2 ->
    (In (a, b) (lock_pairs (l1 ++ (a, b) :: l2)) <-> ~ path (lock_pairs l1) b a).
  Proof.
    intros Hab N1 N2. unfold lock_pairs. rewrite fold_left_app. simpl. fold (lock_pairs l1).
    change (fold_left _ l2 ?acc) with (fold_left lock_step l2 acc).
    change (if is_path (lock_pairs l1) b a then lock_pairs l1 else lock_pairs l1 ++ [(a, b)]) with (lock_step (lock_pairs l1) (a, b)).
    destruct (lock_fold_in l2 (lock_step (lock_pairs l1) (a, b)) (a, b)) as [I1 I2].
    assert (N1' : ~ In (a, b) (lock_pairs l1)) by (intros H; apply N1, lock_incl, H).
    unfold lock_step in *. simpl in *. destruct (is_path (lock_pairs l1) b a) eqn:E.
    - apply is_path_iff in E. split; [intros H; destruct (I2 H); contradiction|tauto].
    - split.
      + intros _ Hp. assert (is_path (lock_pairs l1) b a = true) by (apply is_path_iff; split; [congruence|exact Hp]). congruence.
      + intros _. apply I1. apply in_or_app. right. left. reflexivity.
  Qed.

  (* no pair is locked against c when every pair (y, c) comes after its reverse *)
  Definition after_reverse (c : C) (pairs : list pair) : Prop :=
    forall l1 y l2, pairs = l1 ++ (y, c) :: l2 -> In (c, y) l1.

  Lemma lock_no_edge_into c pairs : irrefl_pairs pairs -> after_reverse c pairs ->
    forall y, ~ In (y, c) (lock_pairs pairs).
  Proof.
    induction pairs as [|[a b] l IH] using rev_ind; intros Hd Ho y; [intros []|].
    assert (Ho' : after_reverse c l).
    { intros l1 z l2 E. apply (Ho l1 z (l2 ++ [(a, b)])). rewrite E, <- app_assoc. reflexivity. }
    specialize (IH (irrefl_prefix _ _ Hd) Ho').
    rewrite lock_pairs_app. unfold lock_step. simpl. destruct (is_path (lock_pairs l) b a) eqn:E; [apply IH|].
    intros H. apply in_app_or in H. destruct H as [H|[H|[]]]; [exact (IH y H)|]. injection H as -> ->.
    assert (Hyc : y <> c) by (apply Hd; apply in_or_app; right; left; reflexivity).
    assert (Hin : In (c, y) l) by (apply (Ho l y []); reflexivity).
    assert (Hp : path (lock_pairs l) c y).
    { destruct (lock_decided l c y Hin) as [H|H]; [apply path1, H|]. apply path_last in H. destruct H as (x & Hx). destruct (IH x Hx). }
    assert (is_path (lock_pairs l) c y = true) by (apply is_path_iff; split; [congruence|exact Hp]). congruence.
  Qed.

  Lemma lock_cw_edges c pairs : irrefl_pairs pairs -> after_reverse c pairs ->
    forall y, In (c, y) pairs -> In (c, y) (lock_pairs pairs).
  Proof.
    intros Hd Ho y Hin. destruct (lock_decided pairs c y Hin) as [H|H]; [exact H|].
    apply path_last in H. destruct H as (x & Hx). destruct (lock_no_edge_into c pairs Hd Ho x Hx).
  Qed.
End LOCK.

(* ================================================================ the locked relation on a complete list of pairs *)
Section ORDER.
  Variable cs : list C.
  Variable pairs : list pair.
  Hypothesis Hin : forall a b, In (a, b) pairs <-> In a cs /\ In b cs /\ a <> b.
  Notation L := (lock_pairs pairs).

  Lemma pairs_irrefl : irrefl_pairs pairs.
  Proof. intros a b H. apply Hin in H. tauto. Qed.

  Lemma L_in a b : In (a, b) L -> In a cs /\ In b cs /\ a <> b.
  Proof. intros H. apply Hin, lock_incl, H. Qed.

  Lemma L_asym a b : In (a, b) L -> ~ In (b, a) L.
  Proof. intros H1 H2. apply (lock_acyclic pairs pairs_irrefl a). eapply pathS; [exact H1|apply path1, H2]. Qed.

  Lemma L_total a b : In a cs -> In b cs -> a <> b -> In (a, b) L \/ In (b, a) L.
  Proof.
    intros Ha Hb Hab.
    assert (H1 : In (a, b) pairs) by (apply Hin; tauto).
    assert (H2 : In (b, a) pairs) by (apply Hin; repeat split; auto).
    destruct (lock_decided pairs a b H1) as [H|P1]; [left; exact H|].
    destruct (lock_decided pairs b a H2) as [H|P2]; [right; exact H|].
    exfalso. apply (lock_acyclic pairs pairs_irrefl a). eapply path_trans; eauto.
  Qed.

  Lemma L_trans a b c : In (a, b) L -> In (b, c) L -> In (a, c) L.
  Proof.
    intros H1 H2. destruct (L_in _ _ H1) as (Ha & _ & _). destruct (L_in _ _ H2) as (_ & Hc & _).
    destruct (Pos.eq_dec a c) as [->|Hac]; [destruct (L_asym _ _ H1 H2)|].
    destruct (L_total a c Ha Hc Hac) as [H|H]; [exact H|exfalso].
    apply (lock_acyclic pairs pairs_irrefl a). eapply pathS; [exact H1|]. eapply pathS; [exact H2|]. apply path1, H.
  Qed.

  Lemma max_exists (M : list C) : M <> [] -> incl M cs ->
    exists w, In w M /\ forall x, In x M -> x <> w -> In (w, x) L.
  Proof.
    induction M as [|a M IH]; intros Hne Hi; [congruence|].
    destruct M as [|b t].
    - exists a. split; [left; reflexivity|]. intros x [<-|[]] H. congruence.
    - destruct IH as (w & Hw & Hmax); [discriminate|intros x Hx; apply Hi; right; exact Hx|].
      assert (Ha : In a cs) by (apply Hi; left; reflexivity).
      assert (Hwc : In w cs) by (apply Hi; right; exact Hw).
      destruct (Pos.eq_dec a w) as [->|Haw].
      + exists w. split; [left; reflexivity|]. intros x [<-|Hx] Hne'; [congruence|apply Hmax; assumption].
      + destruct (L_total a w Ha Hwc Haw) as [H|H].
        * exists a. split; [left; reflexivity|]. intros x [<-|Hx] Hne'; [congruence|].
          destruct (Pos.eq_dec x w) as [->|Hxw]; [exact H|]. eapply L_trans; [exact H|apply Hmax; assumption].
        * exists w. split; [right; exact Hw|]. intros x [<-|Hx] Hne'; [exact H|apply Hmax; assumption].
  Qed.

  (* ---------------------------------------------------------------- build_ranking *)
  Lemma dedup_c_In x l : In x (dedup_c l) <-> In x l.
  Proof.
    induction l as [|y t IH]; simpl; [tauto|]. destruct (cmem y t) eqn:E.
    - rewrite IH. apply cmem_In in E. split; [tauto|]. intros [<-|H]; assumption.
    - simpl. rewrite IH. tauto.
  Qed.
  Lemma dedup_c_NoDup l : NoDup (dedup_c l).
  Proof.
    induction l as [|y t IH]; simpl; [constructor|]. destruct (cmem y t) eqn:E; [exact IH|].
    constructor; [|exact IH]. rewrite dedup_c_In. apply cmem_false, E.
  Qed.

  Lemma build_ranking_step f e E R : build_ranking (S f) (e :: E) R =
    match filter (fun w => negb (cmem w (map snd (e :: E)))) (dedup_c (map fst (e :: E))) with
    | [w] => build_ranking f (filter (fun e' : pair => negb (ceqb (fst e') w)) (e :: E)) (R ++ [w])
    | _ => None
    end.
  Proof. reflexivity. Qed.

  Definition Rinv (R : list C) : Prop :=
    NoDup R /\ incl R cs /\ (forall r x, In r R -> In x cs -> ~ In x R -> In (r, x) L) /\
    StronglySorted (fun a b => In (a, b) L) R /\ exists x, In x cs /\ ~ In x R.

  Definition live (R : list C) : list pair := filter (fun e : pair => negb (cmem (fst e) R)) L.

  Lemma live_in R a b : In (a, b) (live R) <-> In (a, b) L /\ ~ In a R.
  Proof. unfold live. rewrite filter_In. simpl. rewrite negb_true_iff, cmem_false. tauto. Qed.

  Lemma live_snoc R w : filter (fun e' : pair => negb (ceqb (fst e') w)) (live R) = live (R ++ [w]).
  Proof.
    unfold live. induction L as [|e t IH]; simpl; [reflexivity|].
    assert (Hc : cmem (fst e) (R ++ [w]) = cmem (fst e) R || ceqb (fst e) w).
    { clear. induction R as [|r R IH]; simpl; [apply orb_false_r|]. rewrite IH. apply orb_assoc. }
    rewrite Hc. destruct (cmem (fst e) R); simpl; [exact IH|]. destruct (ceqb (fst e) w); simpl; [exact IH|].
    f_equal. exact IH.
  Qed.

  Lemma sorted_snoc {X} (rel : X -> X -> Prop) (R : list X) w :
    StronglySorted rel R -> (forall r, In r R -> rel r w) -> StronglySorted rel (R ++ [w]).
  Proof.
    induction 1 as [|a t Hs IH Hall]; intros Hw; simpl; [constructor; constructor|].
    constructor; [apply IH; intros r Hr; apply Hw; right; exact Hr|].
    apply Forall_app. split; [exact Hall|]. constructor; [apply Hw; left; reflexivity|constructor].
  Qed.

  Lemma filter_length_drop {X} (g : X -> bool) (l : list X) x : In x l -> g x = false -> (length (filter g l) < length l)%nat.
  Proof.
    intros Hx Hg. induction l as [|a t IH]; [destruct Hx|]. simpl.
    assert (Hle : (length (filter g t) <= length t)%nat).
    { clear. induction t as [|a t IH]; simpl; [lia|]. destruct (g a); simpl; lia. }
    destruct Hx as [->|Hx]; [rewrite Hg; lia|]. specialize (IH Hx). destruct (g a); simpl; lia.
  Qed.

  Lemma build_ok : forall fuel R, Rinv R -> (length (live R) < fuel)%nat ->
    exists R', build_ranking fuel (live R) R = Some R' /\ Rinv R' /\ (forall a b, In (a, b) L -> In a R').
  Proof.
    induction fuel as [|f IH]; intros R HR Hlen; [lia|].
    destruct (live R) as [|[a b] E0] eqn:EL.
    - exists R. split; [reflexivity|]. split; [exact HR|]. intros a b Hab.
      destruct (in_dec Pos.eq_dec a R) as [H|H]; [exact H|exfalso].
      assert (Hl : In (a, b) (live R)) by (apply live_in; tauto). rewrite EL in Hl. destruct Hl.
    - destruct HR as (Rnd & Rin & Rtop & Rsort & Rex).
      assert (Hab : In (a, b) (live R)) by (rewrite EL; left; reflexivity).
      apply live_in in Hab. destruct Hab as [HabL HaR]. destruct (L_in _ _ HabL) as (Hac & Hbc & Hneq).
      assert (HbR : ~ In b R). { intros H. apply (L_asym _ _ HabL). apply Rtop; assumption. }
      set (M := filter (fun x => negb (cmem x R)) cs).
      assert (HM : forall x, In x M <-> In x cs /\ ~ In x R).
      { intros x. unfold M. rewrite filter_In, negb_true_iff, cmem_false. tauto. }
      destruct (max_exists M) as (w & Hw & Hmax).
      { intros E. assert (H : In a M) by (apply HM; tauto). rewrite E in H. destruct H. }
      { intros x Hx. apply HM in Hx. tauto. }
      apply HM in Hw. destruct Hw as [Hwc HwR].
      assert (Hmax' : forall x, In x cs -> ~ In x R -> x <> w -> In (w, x) L) by (intros x H1 H2; apply Hmax, HM; tauto).
      assert (Hwfst : exists y, In (w, y) (live R)).
      { destruct (Pos.eq_dec a w) as [<-|Haw]; [exists b; apply live_in; tauto|].
        exists a. apply live_in. split; [apply Hmax'; assumption|exact HwR]. }
      assert (Hsrc : filter (fun w => negb (cmem w (map snd (live R)))) (dedup_c (map fst (live R))) = [w]).
      { apply filter_unique.
        - apply dedup_c_NoDup.
        - apply dedup_c_In. destruct Hwfst as (y & Hy). apply in_map_iff. exists (w, y). split; [reflexivity|exact Hy].
        - apply negb_true_iff, cmem_false. intros H. apply in_map_iff in H. destruct H as ([x w'] & Hf & Hx). simpl in Hf. subst w'.
          apply live_in in Hx. destruct Hx as [HxL HxR]. destruct (L_in _ _ HxL) as (Hxc & _ & Hxw).
          apply (L_asym _ _ HxL). apply Hmax'; assumption.
        - intros w' Hw' Hnl. apply (proj1 (dedup_c_In _ _)) in Hw'. apply in_map_iff in Hw'. destruct Hw' as ([w'' y] & Hf & Hy). simpl in Hf. subst w''.
          apply live_in in Hy. destruct Hy as [HyL Hw'R]. destruct (L_in _ _ HyL) as (Hw'c & _ & _).
          destruct (Pos.eq_dec w' w) as [E|E]; [exact E|exfalso].
          apply negb_true_iff, cmem_false in Hnl. apply Hnl. apply in_map_iff. exists (w, w'). split; [reflexivity|].
          apply live_in. split; [apply Hmax'; assumption|exact HwR]. }
      rewrite EL in Hsrc. rewrite build_ranking_step, Hsrc. rewrite <- EL, live_snoc.
      apply IH.
      + split; [|split; [|split; [|split]]].
        * apply Threshold_proofs.nodup_app_intro; [exact Rnd|constructor; [intros []|constructor]|].
          intros x Hx [<-|[]]. exact (HwR Hx).
        * intros x Hx. apply in_app_or in Hx. destruct Hx as [Hx|[<-|[]]]; [apply Rin, Hx|exact Hwc].
        * intros r x Hr Hxc Hx. rewrite in_app_iff in Hx. simpl in Hx. apply in_app_or in Hr. destruct Hr as [Hr|[<-|[]]].
          -- apply Rtop; tauto.
          -- apply Hmax'; [exact Hxc|tauto|]. intros ->. tauto.
        * apply sorted_snoc; [exact Rsort|]. intros r Hr. apply Rtop; assumption.
        * destruct (Pos.eq_dec a w) as [Eaw|Eaw].
          -- exists b. split; [exact Hbc|]. rewrite in_app_iff. simpl. intros [H|[H|[]]]; [exact (HbR H)|]. subst. congruence.
          -- exists a. split; [exact Hac|]. rewrite in_app_iff. simpl. intros [H|[H|[]]]; [exact (HaR H)|]. congruence.
      + rewrite <- live_snoc. rewrite <- EL in Hlen. destruct Hwfst as (y & Hy).
        assert ((length (filter (fun e' : pair => negb (ceqb (fst e') w)) (live R)) < length (live R))%nat); [|lia].
        apply (filter_length_drop _ _ (w, y) Hy). simpl. rewrite ceqb_refl. reflexivity.
  Qed.
End ORDER.

Lemma live_nil pairs : live pairs [] = lock_pairs pairs.
Proof. unfold live. induction (lock_pairs pairs) as [|e t IH]; simpl; [reflexivity|]. f_equal. exact IH. Qed.

(* ================================================================ the sorted list of pairs *)
Lemma sort_desc_by_perm {X} (key : X -> Z) l : Permutation (sort_desc_by key l) l.
Proof.
  unfold sort_desc_by.
  pose proof (sort_desc_perm zle_bool (map (fun x => (x, key x)) l)) as H.
  apply (Permutation_map fst) in H. rewrite map_map in H. simpl in H. rewrite map_id in H. exact H.
Qed.

Lemma sort_desc_by_sorted {X} (key : X -> Z) l : StronglySorted (fun p q => key q <= key p) (sort_desc_by key l).
Proof.
  unfold sort_desc_by.
  pose proof (sort_desc_perm zle_bool (map (fun x => (x, key x)) l)) as Hp.
  pose proof (sort_desc_sorted zle_bool zle_total zle_trans (map (fun x => (x, key x)) l)) as Hs.
  assert (Htag : forall x, In x (sort_desc zle_bool (map (fun x => (x, key x)) l)) -> snd x = key (fst x)).
  { intros x Hx. apply (Permutation_in _ Hp) in Hx. apply in_map_iff in Hx. destruct Hx as (y & <- & _). reflexivity. }
  revert Hs Htag. generalize (sort_desc zle_bool (map (fun x => (x, key x)) l)). intros sl Hs Htag.
  induction Hs as [|x t Hs IH Hall]; simpl; constructor.
  - apply IH. intros y Hy. apply Htag. right. exact Hy.
  - apply Forall_forall. intros q Hq. apply in_map_iff in Hq. destruct Hq as (y & <- & Hy).
    rewrite Forall_forall in Hall. specialize (Hall y Hy). unfold ge_item, zle_bool in Hall. apply Z.leb_le in Hall.
    rewrite <- (Htag x (or_introl eq_refl)), <- (Htag y (or_intror Hy)). exact Hall.
Qed.

Lemma sorted_before {X} (key : X -> Z) l1 p l2 q :
  StronglySorted (fun p q => key q <= key p) (l1 ++ p :: l2) -> In q (l1 ++ p :: l2) -> key p < key q -> In q l1.
Proof.
  induction l1 as [|a l1 IH]; simpl; intros Hs Hq Hk.
  - inversion Hs as [|? ? _ Hall]; subst. destruct Hq as [->|Hq]; [lia|].
    rewrite Forall_forall in Hall. specialize (Hall q Hq). simpl in Hall. lia.
  - inversion Hs as [|? ? Hs' _]; subst. destruct Hq as [->|Hq]; [left; reflexivity|right; apply IH; assumption].
Qed.

Definition rp_pairs (s : scorer) (v0 : pvotes) : list pair :=
  let v := complete v0 in
  sort_desc_by (fun p => pget0 (score_pairs s v) p) (sort_desc_by (fun p => pget0 v p) (map fst v)).

Lemma ranked_pairs_unfold s v0 n : ranked_pairs s v0 n =
  let locked := lock_pairs (rp_pairs s v0) in
  match build_ranking (S (length locked)) locked [] with
  | None => CR_vse
  | Some ranking =>
      match find (fun c => negb (cmem c ranking)) (flat_map (fun p : pair => [fst p; snd p]) locked) with
      | Some last => CR_ok (map Cand (firstn n (ranking ++ [last])))
      | None => CR_stop
      end
  end.
Proof. reflexivity. Qed.

Lemma rp_pairs_in s v a b : In (a, b) (rp_pairs s v) <-> In a (candidates v) /\ In b (candidates v) /\ a <> b.
Proof.
  unfold rp_pairs.
  assert (Hk : In (a, b) (map fst (complete v)) <-> In a (candidates v) /\ In b (candidates v) /\ a <> b).
  { rewrite in_map_iff. split.
    - intros ([[a' b'] n] & Hf & Hin). simpl in Hf. injection Hf as -> ->. apply complete_in in Hin. tauto.
    - intros H. exists ((a, b), pget0 v (a, b)). split; [reflexivity|]. apply complete_in. tauto. }
  rewrite <- Hk. split; intros H.
  - eapply Permutation_in; [apply sort_desc_by_perm|]. eapply Permutation_in; [apply sort_desc_by_perm|]. exact H.
  - eapply Permutation_in; [apply Permutation_sym, sort_desc_by_perm|].
    eapply Permutation_in; [apply Permutation_sym, sort_desc_by_perm|]. exact H.
Qed.

Lemma score_pairs_keys s u : map fst (score_pairs s u) = map fst u.
Proof. destruct s; simpl; [rewrite map_map; reflexivity|rewrite map_map; reflexivity|reflexivity]. Qed.

(* the sort key of a pair is its strength under the scorer *)
Lemma rp_key s v a b : In a (candidates v) -> In b (candidates v) -> a <> b ->
  pget0 (score_pairs s (complete v)) (a, b) = sc v s a b.
Proof.
  intros Ha Hb Hab. destruct (score_pairs_has v s a b Ha Hb Hab) as (m & Hm).
  unfold pget0. rewrite (In_pget _ (a, b) m); [|rewrite score_pairs_keys; apply complete_keys_nodup|exact Hm].
  destruct (score_pairs_in v s a b m Hm) as (_ & _ & _ & ->). reflexivity.
Qed.

Theorem rp_pairs_sorted s v : StronglySorted (fun p q => sc v s (fst q) (snd q) <= sc v s (fst p) (snd p)) (rp_pairs s v).
Proof.
  pose proof (sort_desc_by_sorted (fun p => pget0 (score_pairs s (complete v)) p)
                (sort_desc_by (fun p => pget0 (complete v) p) (map fst (complete v)))) as Hs.
  fold (rp_pairs s v) in Hs.
  assert (Hin : forall p, In p (rp_pairs s v) -> pget0 (score_pairs s (complete v)) p = sc v s (fst p) (snd p)).
  { intros [a b] Hp. apply rp_pairs_in in Hp. simpl. apply rp_key; tauto. }
  revert Hs Hin. generalize (rp_pairs s v). intros l Hs. induction Hs as [|x t Hs IH Hall]; intros Hin; constructor.
  - apply IH. intros p Hp. apply Hin. right. exact Hp.
  - apply Forall_forall. intros q Hq. rewrite Forall_forall in Hall. specialize (Hall q Hq). simpl in Hall.
    rewrite <- (Hin x (or_introl eq_refl)), <- (Hin q (or_intror Hq)). exact Hall.
Qed.

(* ================================================================ the evaluator *)
Section RP.
  Variable v : pvotes.
  Variable s : scorer.
  Hypothesis H2 : (2 <= length (candidates v))%nat.
  Notation cs := (candidates v).
  Notation P := (rp_pairs s v).
  Notation L := (lock_pairs (rp_pairs s v)).

  (* ranked pairs never refuses: the answer is the listing of all candidates along the locked order *)
  Theorem ranked_pairs_ranking n : exists ranking,
    ranked_pairs s v n = CR_ok (map Cand (firstn n ranking)) /\ Permutation ranking cs /\
    StronglySorted (fun a b => In (a, b) L) ranking.
  Proof.
    pose proof (rp_pairs_in s v) as Hin.
    destruct (build_ok cs P Hin (S (length L)) []) as (R & Hb & HR & Hall).
    { split; [constructor|]. split; [intros x []|]. split; [intros r x []|]. split; [constructor|].
      destruct cs as [|x t]; [simpl in H2; lia|]. exists x. split; [left; reflexivity|intros []]. }
    { rewrite live_nil. lia. }
    rewrite live_nil in Hb.
    destruct HR as (Rnd & Rin & Rtop & Rsort & (z & Hzc & HzR)).
    assert (Huniq : forall x, In x cs -> ~ In x R -> x = z).
    { intros x Hx HxR. destruct (Pos.eq_dec x z) as [E|E]; [exact E|exfalso].
      destruct (L_total cs P Hin x z Hx Hzc E) as [H|H]; apply Hall in H; contradiction. }
    assert (Hfind : find (fun c => negb (cmem c R)) (flat_map (fun p : pair => [fst p; snd p]) L) = Some z).
    { destruct (find (fun c => negb (cmem c R)) (flat_map (fun p : pair => [fst p; snd p]) L)) as [z'|] eqn:Ef.
      - apply find_some in Ef. destruct Ef as [Hz' Hn]. apply negb_true_iff, cmem_false in Hn. f_equal.
        apply Huniq; [|exact Hn]. apply in_flat_map in Hz'. destruct Hz' as ([a b] & Hab & Hz').
        apply (L_in cs P Hin) in Hab. simpl in Hz'. destruct Hz' as [<-|[<-|[]]]; tauto.
      - exfalso. destruct (other_candidate v H2 z Hzc) as (y & Hy & Hyz).
        assert (Hz' : In z (flat_map (fun p : pair => [fst p; snd p]) L)).
        { destruct (L_total cs P Hin z y Hzc Hy (fun E => Hyz (eq_sym E))) as [H|H]; apply in_flat_map;
            [exists (z, y)|exists (y, z)]; (split; [exact H|simpl; tauto]). }
        apply (find_none _ _ Ef) in Hz'. apply negb_false_iff, cmem_In in Hz'. contradiction. }
    exists (R ++ [z]). split; [|split].
    - rewrite ranked_pairs_unfold. cbv zeta. rewrite Hb, Hfind. reflexivity.
    - apply NoDup_Permutation.
      + apply Threshold_proofs.nodup_app_intro; [exact Rnd|constructor; [intros []|constructor]|].
        intros x Hx [<-|[]]. exact (HzR Hx).
      + apply candidates_NoDup.
      + intros x. rewrite in_app_iff. simpl. split.
        * intros [H|[<-|[]]]; [apply Rin, H|exact Hzc].
        * intros Hx. destruct (in_dec Pos.eq_dec x R) as [H|H]; [left; exact H|right; left; symmetry; apply Huniq; assumption].
    - apply sorted_snoc; [exact Rsort|]. intros r Hr. apply Rtop; assumption.
  Qed.

  Theorem ranked_pairs_nobody_dropped : exists r,
    ranked_pairs s v (length cs) = CR_ok r /\ forall x, In x cs -> In (Cand x) r.
  Proof.
    destruct (ranked_pairs_ranking (length cs)) as (R & HR & Hp & _). eexists. split; [exact HR|].
    intros x Hx. rewrite <- (Permutation_length Hp), firstn_all. apply in_map. apply (Permutation_in x (Permutation_sym Hp)), Hx.
  Qed.

  (* ---- Condorcet winner *)
  Hypothesis Hnn : forall p n, In (p, n) v -> 0 <= n.

  Lemma cw_key_order c y : is_cw v c -> In y cs -> y <> c -> sc v s y c < sc v s c y.
  Proof.
    intros [Hc Hall] Hy Hyc. specialize (Hall y Hy Hyc). unfold beats in Hall.
    pose proof (pget0_nn v Hnn (y, c)) as H0. unfold sc. destruct s.
    - assert (pget0 v (y, c) <? pget0 v (c, y) = true) as -> by (apply Z.ltb_lt; exact Hall).
      assert (pget0 v (c, y) <? pget0 v (y, c) = false) as -> by (apply Z.ltb_ge; lia). lia.
    - lia.
    - exact Hall.
  Qed.

  Lemma cw_after_reverse c : is_cw v c -> after_reverse c P.
  Proof.
    intros Hcw l1 y l2 E.
    assert (Hyc : In (y, c) P) by (rewrite E; apply in_or_app; right; left; reflexivity).
    apply rp_pairs_in in Hyc. destruct Hyc as (Hy & Hc & Hne).
    pose proof (rp_pairs_sorted s v) as Hs. rewrite E in Hs.
    apply (sorted_before (fun p : pair => sc v s (fst p) (snd p)) l1 (y, c) l2 (c, y) Hs).
    - assert (Hcy : In (c, y) P) by (apply rp_pairs_in; repeat split; auto). rewrite E in Hcy. exact Hcy.
    - simpl. apply cw_key_order; assumption.
  Qed.

  Theorem ranked_pairs_elects_cw c : is_cw v c -> ranked_pairs s v 1 = CR_ok [Cand c].
  Proof.
    intros Hcw. destruct (ranked_pairs_ranking 1) as (R & HR & Hp & Hs). rewrite HR. f_equal.
    pose proof Hcw as [Hc _].
    assert (HcR : In c R) by (apply (Permutation_in c (Permutation_sym Hp)), Hc).
    destruct R as [|a t]; [destruct HcR|]. simpl. destruct HcR as [->|HcR]; [reflexivity|exfalso].
    inversion Hs as [|? ? _ Hall]; subst. rewrite Forall_forall in Hall. specialize (Hall c HcR).
    apply (lock_no_edge_into c P) in Hall; [exact Hall| |apply cw_after_reverse, Hcw].
    intros x y H. apply rp_pairs_in in H. tauto.
  Qed.

  (* no pair is locked against the Condorcet winner, all its own pairs are *)
  Theorem ranked_pairs_cw_locked c : is_cw v c ->
    (forall y, ~ In (y, c) L) /\ (forall y, In y cs -> y <> c -> In (c, y) L).
  Proof.
    intros Hcw. assert (Hd : irrefl_pairs P) by (intros x y H; apply rp_pairs_in in H; tauto). split.
    - apply lock_no_edge_into; [exact Hd|apply cw_after_reverse, Hcw].
    - intros y Hy Hyc. apply lock_cw_edges; [exact Hd|apply cw_after_reverse, Hcw|].
      apply rp_pairs_in. destruct Hcw as [Hc _]. repeat split; auto.
  Qed.
End RP.
