(* Minimax (winning votes / margins) elects the Condorcet winner, and with as many seats as candidates nobody is
   dropped (C05).  The max-counterscore dictionary of Model/Condorcet.v [minimax] is characterised first. *)
From Coq Require Import ZArith List Bool Lia Arith Permutation.
From VL Require Import Prelude.PyDict Model.GetNBest Model.Condorcet Proofs.Dict_proofs Proofs.GetNBest_proofs
     Proofs.Condorcet_proofs Proofs.Smith_proofs.
Import ListNotations.
Open Scope Z_scope.

Definition mc_step (d : list (C * Z)) (pn : pair * Z) : list (C * Z) :=
  let c := snd (fst pn) in
  match dget d c with
  | Some old => dset d c (Z.max old (snd pn))
  | None => dset d c (snd pn)
  end.
Definition mc_of (scored : pvotes) : list (C * Z) := fold_left mc_step scored [].

Lemma minimax_unfold s v0 n :
  minimax s v0 n = get_n_best zle_bool (map (fun cs => (fst cs, - snd cs)) (mc_of (score_pairs s (complete v0)))) n.
Proof. reflexivity. Qed.

Lemma dget_dset {X} (d : list (C * X)) k x k' : dget (dset d k x) k' = if ceqb k' k then Some x else dget d k'.
Proof.
  induction d as [|[k0 x0] d IH]; simpl.
  - destruct (ceqb k' k); reflexivity.
  - destruct (ceqb k k0) eqn:E; simpl.
    + apply ceqb_eq in E. subst k0. destruct (ceqb k' k); reflexivity.
    + destruct (ceqb k' k0) eqn:E2.
      * apply ceqb_eq in E2. subst k0. assert (ceqb k' k = false) as -> by (apply ceqb_neq; apply ceqb_neq in E; congruence). reflexivity.
      * exact IH.
Qed.

(* every stored value is the maximum of the scores of the pairs with that loser seen so far *)
Lemma mc_fold (l : pvotes) : forall d,
  let d' := fold_left mc_step l d in
  (NoDup (map fst d) -> NoDup (map fst d')) /\
  (forall c, In c (map fst d') <-> In c (map fst d) \/ exists pn, In pn l /\ snd (fst pn) = c) /\
  (forall c m, dget d' c = Some m ->
     (forall pn, In pn l -> snd (fst pn) = c -> snd pn <= m) /\
     (forall old, dget d c = Some old -> old <= m) /\
     (dget d c = Some m \/ exists pn, In pn l /\ snd (fst pn) = c /\ snd pn = m)).
Proof.
  induction l as [|pn l IH]; intros d; simpl.
  - split; [auto|]. split; [intros c; split; [auto|intros [H|(x & [] & _)]; exact H]|].
    intros c m H. split; [intros x []|]. split; [intros old Ho; rewrite Ho in H; injection H as ->; lia|left; exact H].
  - destruct (IH (mc_step d pn)) as (I1 & I2 & I3). set (c0 := snd (fst pn)) in *.
    assert (Hk : forall c, In c (map fst (mc_step d pn)) <-> c = c0 \/ In c (map fst d)).
    { intros c. unfold mc_step. fold c0. destruct (dget d c0); apply dset_keys_in. }
    assert (Hn : NoDup (map fst d) -> NoDup (map fst (mc_step d pn))).
    { intros H. unfold mc_step. fold c0. destruct (dget d c0); apply (dset_keys' d c0 _ H). }
    assert (Hg : forall c, dget (mc_step d pn) c = if ceqb c c0 then Some (match dget d c0 with Some old => Z.max old (snd pn) | None => snd pn end) else dget d c).
    { intros c. unfold mc_step. fold c0. destruct (dget d c0); rewrite dget_dset; reflexivity. }
    split; [intros H; apply I1, Hn, H|]. split.
    + intros c. rewrite I2, Hk. split.
      * intros [[->|H]|(x & Hx & Hc)]; [right; exists pn; split; [left; reflexivity|reflexivity]|left; exact H|right; exists x; split; [right; exact Hx|exact Hc]].
      * intros [H|(x & [<-|Hx] & Hc)]; [left; right; exact H|left; left; symmetry; exact Hc|right; exists x; split; assumption].
    + intros c m Hm. destruct (I3 c m Hm) as (J1 & J2 & J3). rewrite Hg in J2, J3.
      destruct (ceqb c c0) eqn:E.
      * apply ceqb_eq in E. subst c. 
        set (newv := match dget d c0 with Some old => Z.max old (snd pn) | None => snd pn end) in *.
        assert (Hnew : newv <= m) by (apply J2; reflexivity).
        split; [intros x [<-|Hx] Hc; [unfold newv in Hnew; destruct (dget d c0); lia|apply J1; assumption]|].
        split; [intros old Ho; unfold newv in Hnew; rewrite Ho in Hnew; lia|].
        destruct J3 as [J3|(x & Hx & Hc & Hv)]; [|right; exists x; split; [right; exact Hx|split; assumption]].
        injection J3 as J3. unfold newv in J3. destruct (dget d c0) as [old|] eqn:Eo.
        -- destruct (Z.max_spec old (snd pn)) as [[_ Hmx]|[_ Hmx]]; rewrite Hmx in J3.
           ++ right. exists pn. split; [left; reflexivity|split; [reflexivity|exact J3]].
           ++ left. rewrite J3. reflexivity.
        -- right. exists pn. split; [left; reflexivity|split; [reflexivity|exact J3]].
      * split; [intros x [<-|Hx] Hc; [apply ceqb_neq in E; exfalso; apply E; symmetry; exact Hc|apply J1; assumption]|].
        split; [exact J2|]. destruct J3 as [J3|(x & Hx & Hc & Hv)]; [left; exact J3|right; exists x; split; [right; exact Hx|split; assumption]].
Qed.

Section MM.
  Variable v : pvotes.
  Hypothesis Hnd : NoDup (map fst v).
  Hypothesis Hnn : forall p n, In (p, n) v -> 0 <= n.
  Hypothesis H2 : (2 <= length (candidates v))%nat.
  Notation cs := (candidates v).
  Notation cv := (complete v).

  Lemma score_pairs_in s a b m : In ((a, b), m) (score_pairs s cv) ->
    In a cs /\ In b cs /\ a <> b /\
    m = match s with
        | WinningVotes => if pget0 v (b, a) <? pget0 v (a, b) then pget0 v (a, b) else 0
        | Margins => pget0 v (a, b) - pget0 v (b, a)
        | PairwiseOpposition => pget0 v (a, b)
        end.
  Proof.
    destruct s; simpl; intros H.
    - apply in_map_iff in H. destruct H as ([[a' b'] n] & Hf & Hin). simpl in Hf. injection Hf as -> -> <-.
      apply complete_in in Hin. destruct Hin as (Ha & Hb & Hab & ->). unfold swap. simpl. rewrite (complete_pget0 v b a Hb Ha) by congruence. tauto.
    - apply in_map_iff in H. destruct H as ([[a' b'] n] & Hf & Hin). simpl in Hf. injection Hf as -> -> <-.
      apply complete_in in Hin. destruct Hin as (Ha & Hb & Hab & ->). unfold swap. simpl. rewrite (complete_pget0 v b a Hb Ha) by congruence. tauto.
    - apply complete_in in H. tauto.
  Qed.

  Lemma score_pairs_has s a b : In a cs -> In b cs -> a <> b -> exists m, In ((a, b), m) (score_pairs s cv).
  Proof.
    intros Ha Hb Hab. assert (Hin : In ((a, b), pget0 v (a, b)) cv) by (apply complete_in; tauto).
    destruct s; simpl.
    - eexists. apply in_map_iff. exists ((a, b), pget0 v (a, b)). split; [reflexivity|exact Hin].
    - eexists. apply in_map_iff. exists ((a, b), pget0 v (a, b)). split; [reflexivity|exact Hin].
    - eexists. exact Hin.
  Qed.

  Lemma other_candidate x : In x cs -> exists y, In y cs /\ y <> x.
  Proof.
    intros Hx. pose proof (cs_nodup v) as Hn. pose proof H2 as Hl. destruct cs as [|c1 [|c2 t]]; simpl in Hl; try lia.
    destruct (Pos.eq_dec c1 x) as [->|N1]; [exists c2; split; [right; left; reflexivity|]|exists c1; split; [left; reflexivity|exact N1]].
    inversion Hn as [|? ? Hc _]; subst. intros ->. apply Hc. left. reflexivity.
  Qed.

  Notation mcs s := (mc_of (score_pairs s cv)).

  Lemma mc_keys s : NoDup (map fst (mcs s)) /\ forall c, In c (map fst (mcs s)) <-> In c cs.
  Proof.
    destruct (mc_fold (score_pairs s cv) []) as (I1 & I2 & _). split; [apply I1; constructor|].
    intros c. unfold mc_of. rewrite I2. simpl. split.
    - intros [[]|([[a b] m] & Hin & Hc)]. simpl in Hc. subst b. apply score_pairs_in in Hin. tauto.
    - intros Hc. right. destruct (other_candidate c Hc) as (y & Hy & Hyc).
      destruct (score_pairs_has s y c Hy Hc Hyc) as (m & Hm). exists ((y, c), m). split; [exact Hm|reflexivity].
  Qed.

  (* Condorcet winner: worst defeat <= 0, everybody else has a positive worst defeat (winning votes, margins) *)
  Theorem minimax_elects_cw s c : s <> PairwiseOpposition -> is_cw v c -> minimax s v 1 = [Cand c].
  Proof.
    intros Hs [Hc Hall]. rewrite minimax_unfold.
    destruct (mc_keys s) as [Kn Kk]. destruct (mc_fold (score_pairs s cv) []) as (_ & _ & I3). fold (mc_of (score_pairs s cv)) in I3.
    set (negd := map (fun cs0 : C * Z => (fst cs0, - snd cs0)) (mcs s)).
    assert (Nn : NoDup (map fst negd)) by (unfold negd; rewrite map_map; simpl; exact Kn).
    assert (Hcin : In c (map fst (mcs s))) by (apply Kk, Hc).
    apply in_map_iff in Hcin. destruct Hcin as ([c' mcv] & Hf & Hcin). simpl in Hf. subst c'.
    pose proof (In_dget (mcs s) c mcv Kn Hcin) as Hgc.
    destruct (I3 c mcv Hgc) as (_ & _ & [Hex|([[a b] m] & Hin & Hl & Hv)]); [simpl in Hex; discriminate|]. simpl in Hl, Hv. subst b m.
    (* the worst defeat of c is not positive *)
    assert (Hc0 : mcv <= 0).
    { pose proof (score_pairs_in s a c mcv Hin) as (Ha & _ & Hac & Hm).
      assert (Hb : beats v c a) by (apply Hall; [exact Ha|exact Hac]). unfold beats in Hb.
      destruct s.
      - assert (E : pget0 v (c, a) <? pget0 v (a, c) = false) by (apply Z.ltb_ge; lia).
        cbn iota in Hm. rewrite E in Hm. lia.
      - cbn iota in Hm. lia.
      - congruence. }
    apply (get_n_best_unique_max zle_bool zle_total zle_trans (Pos.eq_dec : forall a b : C, {a = b} + {a <> b}) negd c (- mcv) Nn).
    - unfold negd. apply in_map_iff. exists (c, mcv). split; [reflexivity|exact Hcin].
    - intros x u Hin' Hne. unfold negd in Hin'. apply in_map_iff in Hin'. destruct Hin' as ([x' mx] & Hf & Hxin). simpl in Hf. injection Hf as -> <-.
      assert (Hxc : In x cs) by (apply Kk; apply in_map_iff; exists (x, mx); split; [reflexivity|exact Hxin]).
      pose proof (In_dget (mcs s) x mx Kn Hxin) as Hgx. destruct (I3 x mx Hgx) as (Hub & _ & _).
      destruct (score_pairs_has s c x Hc Hxc ltac:(congruence)) as (m & Hm).
      pose proof (Hub ((c, x), m) Hm eq_refl) as Hle. simpl in Hle.
      pose proof (score_pairs_in s c x m Hm) as (_ & _ & _ & Hmv).
      assert (Hb : beats v c x) by (apply Hall; assumption). unfold beats in Hb.
      assert (Hnnx : 0 <= pget0 v (x, c)).
      { unfold pget0. destruct (pget v (x, c)) as [n0|] eqn:En; [apply pget_In in En; exact (Hnn _ _ En)|lia]. }
      assert (Hpos : 0 < m).
      { destruct s.
        - assert (E : pget0 v (x, c) <? pget0 v (c, x) = true) by (apply Z.ltb_lt; exact Hb).
          cbn iota in Hmv. rewrite E in Hmv. lia.
        - cbn iota in Hmv. lia.
        - congruence. }
      unfold GetNBest.ltb, zle_bool. apply negb_true_iff, Z.leb_gt. lia.
  Qed.

  (* with as many seats as candidates every candidate is in the result *)
  Theorem minimax_nobody_dropped s x : In x cs -> In (Cand x) (minimax s v (length cs)).
  Proof.
    intros Hx. rewrite minimax_unfold. destruct (mc_keys s) as [Kn Kk].
    set (negd := map (fun cs0 : C * Z => (fst cs0, - snd cs0)) (mcs s)).
    assert (Hlen : length negd = length cs).
    { unfold negd. rewrite map_length, <- (map_length fst (mcs s)). apply Permutation_length.
      apply NoDup_Permutation; [exact Kn|apply cs_nodup|exact Kk]. }
    assert (Hn1 : (1 <= length cs)%nat) by lia.
    destruct (get_n_best_spec zle_bool zle_total zle_trans negd (length cs) Hn1) as [Hsmall _].
    destruct (Hsmall ltac:(lia)) as (sl & Hp & _ & Hr). rewrite Hr.
    assert (Hk : In x (map fst negd)) by (unfold negd; rewrite map_map; simpl; apply Kk, Hx).
    apply in_map_iff in Hk. destruct Hk as ([x' u] & Hf & Hin). simpl in Hf. subst x'.
    apply in_map_iff. exists (x, u). split; [reflexivity|]. apply (Permutation_in _ (Permutation_sym Hp)). exact Hin.
  Qed.
End MM.

(* ---------------------------------------------------------------- monotonicity (C17) *)
From VL Require Import Proofs.CopelandMono_proofs.

Definition sc (v : pvotes) (s : scorer) (a b : C) : Z :=
  match s with
  | WinningVotes => if pget0 v (b, a) <? pget0 v (a, b) then pget0 v (a, b) else 0
  | Margins => pget0 v (a, b) - pget0 v (b, a)
  | PairwiseOpposition => pget0 v (a, b)
  end.

Lemma pget0_nn (v : pvotes) : (forall p n, In (p, n) v -> 0 <= n) -> forall p, 0 <= pget0 v p.
Proof. intros Hnn p. unfold pget0. destruct (pget v p) as [n|] eqn:E; [apply pget_In in E; exact (Hnn _ _ E)|lia]. Qed.

Section MCVAL.
  Variable v : pvotes.
  Hypothesis Hnn : forall p n, In (p, n) v -> 0 <= n.
  Hypothesis H2 : (2 <= length (candidates v))%nat.
  Notation cs := (candidates v).

  (* the stored worst defeat of c is the maximum of the scores of the other candidates against c *)
  Lemma mc_value s c : In c cs -> exists m, In (c, m) (mc_of (score_pairs s (complete v))) /\
    (forall a, In a cs -> a <> c -> sc v s a c <= m) /\ (exists a, In a cs /\ a <> c /\ sc v s a c = m).
  Proof.
    intros Hc. destruct (mc_keys v H2 s) as [Kn Kk]. destruct (mc_fold (score_pairs s (complete v)) []) as (_ & _ & I3).
    fold (mc_of (score_pairs s (complete v))) in I3.
    assert (Hk : In c (map fst (mc_of (score_pairs s (complete v))))) by (apply Kk, Hc).
    apply in_map_iff in Hk. destruct Hk as ([c' m] & Hf & Hin). simpl in Hf. subst c'. exists m. split; [exact Hin|].
    pose proof (In_dget _ c m Kn Hin) as Hg. destruct (I3 c m Hg) as (Hub & _ & Hex). split.
    - intros a Ha Hac. destruct (score_pairs_has v s a c Ha Hc Hac) as (m' & Hm').
      pose proof (Hub ((a, c), m') Hm' eq_refl) as Hle. simpl in Hle.
      destruct (score_pairs_in v s a c m' Hm') as (_ & _ & _ & ->). unfold sc. exact Hle.
    - destruct Hex as [Hex|([[a b] m'] & Hin' & Hl & Hv)]; [simpl in Hex; discriminate|]. simpl in Hl, Hv. subst b m'.
      destruct (score_pairs_in v s a c m Hin') as (Ha & _ & Hac & Hm). exists a. split; [exact Ha|]. split; [exact Hac|]. unfold sc. symmetry. exact Hm.
  Qed.
End MCVAL.

Section MMONO.
  Variables v v' : pvotes.
  Variable w : C.
  Hypothesis Hnn : forall p n, In (p, n) v -> 0 <= n.
  Hypothesis Hnn' : forall p n, In (p, n) v' -> 0 <= n.
  Hypothesis H2 : (2 <= length (candidates v))%nat.
  Hypothesis Hr : raises v v' w.

  Lemma cands_eq : candidates v' = candidates v.
  Proof. destruct Hr; assumption. Qed.

  Lemma sc_loser_w s a : sc v' s a w <= sc v s a w.
  Proof.
    destruct Hr as (_ & Hup & _). destruct (Hup a) as [U1 U2]. pose proof (pget0_nn v Hnn (a, w)). pose proof (pget0_nn v Hnn (w, a)).
    unfold sc. destruct s; [|lia|lia].
    destruct (pget0 v' (w, a) <? pget0 v' (a, w)) eqn:E1; destruct (pget0 v (w, a) <? pget0 v (a, w)) eqn:E2;
      try apply Z.ltb_lt in E1; try apply Z.ltb_ge in E1; try apply Z.ltb_lt in E2; try apply Z.ltb_ge in E2; lia.
  Qed.

  Lemma sc_winner_w s x : sc v s w x <= sc v' s w x.
  Proof.
    destruct Hr as (_ & Hup & _). destruct (Hup x) as [U1 U2]. pose proof (pget0_nn v' Hnn' (w, x)). pose proof (pget0_nn v' Hnn' (x, w)).
    unfold sc. destruct s; [|lia|lia].
    destruct (pget0 v' (x, w) <? pget0 v' (w, x)) eqn:E1; destruct (pget0 v (x, w) <? pget0 v (w, x)) eqn:E2;
      try apply Z.ltb_lt in E1; try apply Z.ltb_ge in E1; try apply Z.ltb_lt in E2; try apply Z.ltb_ge in E2; lia.
  Qed.

  Lemma sc_others s a x : a <> w -> x <> w -> sc v' s a x = sc v s a x.
  Proof.
    destruct Hr as (_ & _ & Hs). intros Ha Hx. unfold sc. rewrite (Hs a x Ha Hx), (Hs x a Hx Ha). reflexivity.
  Qed.

  Theorem minimax_monotone s : minimax s v 1 = [Cand w] -> minimax s v' 1 = [Cand w].
  Proof.
    intros Hwin. rewrite minimax_unfold in *.
    assert (H2' : (2 <= length (candidates v'))%nat) by (rewrite cands_eq; exact H2).
    destruct (mc_keys v H2 s) as [Kn Kk]. destruct (mc_keys v' H2' s) as [Kn' Kk'].
    set (nd := map (fun cs0 : C * Z => (fst cs0, - snd cs0)) (mc_of (score_pairs s (complete v)))) in *.
    set (nd' := map (fun cs0 : C * Z => (fst cs0, - snd cs0)) (mc_of (score_pairs s (complete v')))).
    assert (Nn : NoDup (map fst nd)) by (unfold nd; rewrite map_map; simpl; exact Kn).
    assert (Nn' : NoDup (map fst nd')) by (unfold nd'; rewrite map_map; simpl; exact Kn').
    destruct (get_n_best_1_cand zle_bool zle_total zle_trans nd w [] Nn Hwin) as (_ & uw & Hinw & Hmax).
    assert (Hwc : In w (candidates v)).
    { apply Kk. unfold nd in Hinw. apply in_map_iff in Hinw. destruct Hinw as ([w' mw] & Hf & Hin). simpl in Hf. injection Hf as Hf1 _. subst w'.
      apply in_map_iff. exists (w, mw). split; [reflexivity|exact Hin]. }
    destruct (mc_value v H2 s w Hwc) as (mw & Hmw & Hubw & _).
    assert (Hwc' : In w (candidates v')) by (rewrite cands_eq; exact Hwc).
    destruct (mc_value v' H2' s w Hwc') as (mw' & Hmw' & _ & (a0 & Ha0 & Ha0w & Ea0)).
    assert (Huw : uw = - mw).
    { unfold nd in Hinw. apply in_map_iff in Hinw. destruct Hinw as ([w' m0] & Hf & Hin). simpl in Hf. injection Hf as Hf1 Hf2. subst w'.
      assert (m0 = mw); [|lia]. pose proof (In_dget _ w m0 Kn Hin) as G1. pose proof (In_dget _ w mw Kn Hmw) as G2. congruence. }
    (* w's worst defeat does not grow *)
    assert (Hle_w : mw' <= mw).
    { rewrite <- Ea0. etransitivity; [apply sc_loser_w|]. apply Hubw; [rewrite <- cands_eq; exact Ha0|exact Ha0w]. }
    apply (get_n_best_unique_max zle_bool zle_total zle_trans (Pos.eq_dec : forall a b : C, {a = b} + {a <> b}) nd' w (- mw') Nn').
    - unfold nd'. apply in_map_iff. exists (w, mw'). split; [reflexivity|exact Hmw'].
    - intros x u Hin' Hne. unfold nd' in Hin'. apply in_map_iff in Hin'. destruct Hin' as ([x' mx'] & Hf & Hxin'). simpl in Hf. injection Hf as -> <-.
      assert (Hxc' : In x (candidates v')) by (apply Kk'; apply in_map_iff; exists (x, mx'); split; [reflexivity|exact Hxin']).
      assert (Hxc : In x (candidates v)) by (rewrite <- cands_eq; exact Hxc').
      destruct (mc_value v H2 s x Hxc) as (mx & Hmx & _ & (a1 & Ha1 & Ha1x & Ea1)).
      destruct (mc_value v' H2' s x Hxc') as (mx2 & Hmx2 & Hubx' & _).
      assert (mx2 = mx') by (pose proof (In_dget _ x mx2 Kn' Hmx2) as G1; pose proof (In_dget _ x mx' Kn' Hxin') as G2; congruence). subst mx2.
      (* x's worst defeat does not shrink *)
      assert (Hge_x : mx <= mx').
      { rewrite <- Ea1. etransitivity; [|apply (Hubx' a1); [rewrite cands_eq; exact Ha1|exact Ha1x]].
        destruct (Pos.eq_dec a1 w) as [->|Hn]; [apply sc_winner_w|rewrite sc_others by assumption; lia]. }
      (* in v, x was strictly worse than w *)
      assert (Hlt : - mx < uw).
      { assert (Hinx : In (x, - mx) nd) by (unfold nd; apply in_map_iff; exists (x, mx); split; [reflexivity|exact Hmx]).
        pose proof (Hmax x (- mx) Hinx Hne) as H. unfold GetNBest.ltb, zle_bool in H. apply negb_true_iff, Z.leb_gt in H. exact H. }
      unfold GetNBest.ltb, zle_bool. apply negb_true_iff, Z.leb_gt. lia.
  Qed.
End MMONO.

(* ---------------------------------------------------------------- scale invariance (C11) *)
From VL Require Import Proofs.Scale_proofs.

Section MMSCALE.
  Variable k : Z.
  Hypothesis Hk : 0 < k.

  Lemma score_pairs_scale s u : score_pairs s (scalez k u) = scalez k (score_pairs s u).
  Proof.
    destruct s; cbn [score_pairs].
    - unfold scalez. rewrite !map_map. apply map_ext. intros [p m]. cbn [fst snd]. fold (scalez k u). rewrite (pget0_scale k u).
      assert (E : (k * pget0 u (swap p) <? k * m) = (pget0 u (swap p) <? m)).
      { destruct (pget0 u (swap p) <? m) eqn:E; [apply Z.ltb_lt in E; apply Z.ltb_lt; nia|apply Z.ltb_ge in E; apply Z.ltb_ge; nia]. }
      rewrite E. destruct (pget0 u (swap p) <? m); f_equal; lia.
    - unfold scalez. rewrite !map_map. apply map_ext. intros [p m]. cbn [fst snd]. fold (scalez k u). rewrite (pget0_scale k u). f_equal. lia.
    - reflexivity.
  Qed.

  Definition scaled (d : list (C * Z)) : list (C * Z) := map (fun cm => (fst cm, k * snd cm)) d.

  Lemma dget_scaled d c : dget (scaled d) c = option_map (Z.mul k) (dget d c).
  Proof. unfold scaled. induction d as [|[c0 m] d IH]; simpl; [reflexivity|]. destruct (ceqb c c0); [reflexivity|exact IH]. Qed.

  Lemma dset_scaled d c m : dset (scaled d) c (k * m) = scaled (dset d c m).
  Proof. unfold scaled. induction d as [|[c0 m0] d IH]; simpl; [reflexivity|]. destruct (ceqb c c0); simpl; [reflexivity|]. rewrite IH. reflexivity. Qed.

  Lemma mc_step_scaled d pn : mc_step (scaled d) (fst pn, k * snd pn) = scaled (mc_step d pn).
  Proof.
    unfold mc_step. cbn [fst snd]. rewrite dget_scaled. destruct (dget d (snd (fst pn))) as [old|]; simpl.
    - rewrite <- dset_scaled. f_equal. rewrite Z.mul_max_distr_nonneg_l by lia. reflexivity.
    - apply dset_scaled.
  Qed.

  Lemma mc_of_scale l : mc_of (scalez k l) = scaled (mc_of l).
  Proof.
    unfold mc_of. change (@nil (C * Z)) with (scaled []) at 1. generalize (@nil (C * Z)) as d.
    induction l as [|pn l IH]; intros d; simpl; [reflexivity|].
    change (fst pn, k * snd pn) with (fst pn, k * snd pn). rewrite mc_step_scaled. apply IH.
  Qed.

  Lemma zle_scale a b : zle_bool (k * a) (k * b) = zle_bool a b.
  Proof. unfold zle_bool. destruct (a <=? b) eqn:E; [apply Z.leb_le in E; apply Z.leb_le; nia|apply Z.leb_gt in E; apply Z.leb_gt; nia]. Qed.

  Theorem minimax_scale s v n : minimax s (scalez k v) n = minimax s v n.
  Proof.
    rewrite !minimax_unfold, (complete_scale k v), score_pairs_scale, mc_of_scale.
    set (m := mc_of (score_pairs s (complete v))).
    assert (E : map (fun cs0 : C * Z => (fst cs0, - snd cs0)) (scaled m)
                = mapv (Z.mul k) (map (fun cs0 : C * Z => (fst cs0, - snd cs0)) m)).
    { unfold scaled, mapv. rewrite !map_map. apply map_ext. intros [c x]. simpl. f_equal. lia. }
    rewrite E. apply (get_n_best_map zle_bool zle_bool (Z.mul k)). intros a b. apply zle_scale.
  Qed.
End MMSCALE.
