(* Lemmas for property C07 (Model/Biprop.v): the certificate checker is sound and complete for the
   declarative statement of biproportionality. *)
From Coq Require Import ZArith QArith List Bool Lia Lqa.
From VL Require Import Prelude.PyDict Model.Divisor Model.HighestAverages Model.Biprop
     Proofs.Dict_proofs Proofs.Divisor_proofs.
Import ListNotations.
Open Scope Z_scope.

(* ------------------------------------------------------------------ sums *)
Arguments zsum : simpl never.
Lemma zsum_fr (l : list Z) : zsum l = fold_right Z.add 0 l.
Proof.
  unfold zsum. assert (H : forall acc, fold_left Z.add l acc = acc + fold_right Z.add 0 l).
  { induction l as [|x l IH]; intros acc; simpl; [lia|]. rewrite IH. lia. }
  rewrite H. lia.
Qed.
Lemma zsum_nil : zsum [] = 0. Proof. reflexivity. Qed.
Lemma zsum_cons x l : zsum (x :: l) = x + zsum l.
Proof. rewrite !zsum_fr. reflexivity. Qed.
Lemma zsum_app a b : zsum (a ++ b) = zsum a + zsum b.
Proof. induction a as [|x a IH]; simpl; [rewrite ?zsum_nil; lia|]. rewrite !zsum_cons, IH. lia. Qed.

Lemma zsum_map_ext {X} (f g : X -> Z) l : (forall x, In x l -> f x = g x) -> zsum (map f l) = zsum (map g l).
Proof.
  induction l as [|x l IH]; intros H; simpl; [reflexivity|].
  rewrite !zsum_cons, IH, (H x); [reflexivity|left; reflexivity|]. intros y Hy. apply H. right. exact Hy.
Qed.
Lemma zsum_map_le {X} (f g : X -> Z) l : (forall x, In x l -> f x <= g x) -> zsum (map f l) <= zsum (map g l).
Proof.
  induction l as [|x l IH]; intros H; simpl; [lia|].
  rewrite !zsum_cons. assert (f x <= g x) by (apply H; left; reflexivity).
  assert (zsum (map f l) <= zsum (map g l)) by (apply IH; intros y Hy; apply H; right; exact Hy). lia.
Qed.
Lemma zsum_map_nonneg {X} (f : X -> Z) l : (forall x, In x l -> 0 <= f x) -> 0 <= zsum (map f l).
Proof.
  intros H. induction l as [|x l IH]; simpl; [rewrite ?zsum_nil; lia|].
  rewrite zsum_cons. assert (0 <= f x) by (apply H; left; reflexivity).
  assert (0 <= zsum (map f l)) by (apply IH; intros y Hy; apply H; right; exact Hy). lia.
Qed.
(* a point update of the summand *)
Lemma zsum_map_point (f g : C -> Z) a delta l :
  (forall x, g x = f x + (if ceqb x a then delta else 0)) ->
  zsum (map g l) = zsum (map f l) + delta * count a l.
Proof.
  intros H. induction l as [|x l IH]; simpl; [rewrite ?zsum_nil; lia|].
  rewrite !zsum_cons, IH, H.
  destruct (ceqb x a) eqn:E.
  - apply ceqb_eq in E. subst x. rewrite ceqb_refl. lia.
  - assert (ceqb a x = false) as -> by (apply ceqb_neq; apply ceqb_neq in E; congruence). lia.
Qed.
(* double sums commute *)
Lemma zsum_swap {X Y} (f : X -> Y -> Z) (l : list X) (k : list Y) :
  zsum (map (fun x => zsum (map (fun y => f x y) k)) l) = zsum (map (fun y => zsum (map (fun x => f x y) l)) k).
Proof.
  induction l as [|x l IH]; simpl.
  - rewrite ?zsum_nil. induction k as [|y k IHk]; simpl; [reflexivity|]. rewrite zsum_cons, <- IHk. rewrite ?zsum_nil. reflexivity.
  - rewrite zsum_cons, IH. clear IH.
    induction k as [|y k IHk]; simpl; [rewrite ?zsum_nil; reflexivity|].
    rewrite !zsum_cons, <- IHk. lia.
Qed.
Lemma zsum_filter_le {X} (f : X -> Z) (p : X -> bool) l :
  (forall x, In x l -> 0 <= f x) -> zsum (map f (filter p l)) <= zsum (map f l).
Proof.
  intros H. induction l as [|x l IH]; simpl; [lia|].
  assert (0 <= f x) by (apply H; left; reflexivity).
  assert (zsum (map f (filter p l)) <= zsum (map f l)) by (apply IH; intros y Hy; apply H; right; exact Hy).
  destruct (p x); simpl; rewrite ?zsum_cons; lia.
Qed.
Lemma zsum_filter_eq {X} (f : X -> Z) (p : X -> bool) l :
  (forall x, In x l -> p x = false -> f x = 0) -> zsum (map f (filter p l)) = zsum (map f l).
Proof.
  intros H. induction l as [|x l IH]; simpl; [reflexivity|].
  assert (zsum (map f (filter p l)) = zsum (map f l)) as E by (apply IH; intros y Hy; apply H; right; exact Hy).
  destruct (p x) eqn:Ep; simpl; rewrite ?zsum_cons, E; [reflexivity|].
  rewrite (H x); [lia|left; reflexivity|exact Ep].
Qed.

(* ------------------------------------------------------------------ dictionaries *)
Lemma cmem_In k l : cmem k l = true <-> In k l.
Proof.
  induction l as [|x l IH]; simpl; [split; [discriminate|tauto]|].
  rewrite orb_true_iff, IH, ceqb_eq. split; intros [H|H]; auto.
Qed.
Lemma dget_dset {X} (t : list (C * X)) k v k' :
  dget (dset t k v) k' = if ceqb k' k then Some v else dget t k'.
Proof.
  induction t as [|[k0 v0] t IH]; simpl.
  - destruct (ceqb k' k); reflexivity.
  - destruct (ceqb k k0) eqn:E; simpl.
    + apply ceqb_eq in E. subst k0. destruct (ceqb k' k); reflexivity.
    + destruct (ceqb k' k0) eqn:E2.
      * apply ceqb_eq in E2. subst k0.
        assert (ceqb k' k = false) as ->; [|reflexivity].
        apply ceqb_neq. apply ceqb_neq in E. congruence.
      * exact IH.
Qed.
Lemma dget_dremove {X} (t : list (C * X)) k k' :
  dget (dremove t k) k' = if ceqb k' k then None else dget t k'.
Proof.
  induction t as [|[k0 v0] t IH]; simpl.
  - destruct (ceqb k' k); reflexivity.
  - destruct (ceqb k k0) eqn:E; simpl.
    + apply ceqb_eq in E. subst k0. rewrite IH. destruct (ceqb k' k); reflexivity.
    + destruct (ceqb k' k0) eqn:E2; [|exact IH].
      apply ceqb_eq in E2. subst k0.
      assert (ceqb k' k = false) as ->; [|reflexivity].
      apply ceqb_neq. apply ceqb_neq in E. congruence.
Qed.
Lemma dget_In_key {X} (t : list (C * X)) k v : dget t k = Some v -> In k (map fst t).
Proof. intros H. apply dget_In in H. apply in_map_iff. exists (k, v). auto. Qed.

(* a non-zero cell is stored *)
Lemma mget_stored (m : mat) i j : mget m i j <> 0 ->
  exists row kv, In row m /\ fst row = i /\ In kv (snd row) /\ fst kv = j.
Proof.
  unfold mget. destruct (dget m i) as [r|] eqn:E; [|congruence].
  unfold dget_or. destruct (dget r j) as [s|] eqn:E2; [|congruence]. intros _.
  exists (i, r), (j, s). repeat split; [apply dget_In, E|apply dget_In, E2].
Qed.

(* ------------------------------------------------------------------ rounding *)
Lemma Qpos_b_iff x : Qpos_b x = true <-> (0 < x)%Q.
Proof.
  unfold Qpos_b. rewrite negb_true_iff. split.
  - intros H. destruct (Qlt_le_dec 0 x) as [L|L]; [exact L|]. apply Qle_bool_iff in L. congruence.
  - intros H. destruct (Qle_bool x 0) eqn:E; [|reflexivity]. apply Qle_bool_iff in E. lra.
Qed.

Section Spec.
  Variable d : Z -> Q.

  (* s is a divisor-rule rounding of x *)
  Definition rounds (x : Q) (s : Z) : Prop :=
    0 <= s /\ (x <= d s)%Q /\ (0 < s -> (d (s - 1) <= x)%Q).

  Lemma rounds_b_iff x s : rounds_b d x s = true <-> rounds x s.
  Proof.
    unfold rounds_b, rounds. rewrite !andb_true_iff, orb_true_iff, Z.leb_le, !Qle_bool_iff, Z.eqb_eq.
    split.
    - intros [[H1 H2] H3]. repeat split; [exact H1|exact H2|]. intros Hs. destruct H3 as [H3|H3]; [lia|exact H3].
    - intros (H1 & H2 & H3). repeat split; [exact H1|exact H2|].
      destruct (Z.eq_dec s 0) as [E|E]; [left; exact E|right; apply H3; lia].
  Qed.

  Lemma cell_ok_iff v rho gamma s :
    cell_ok d v rho gamma s = true <-> (v = 0 -> s = 0) /\ rounds (quot v rho gamma) s.
  Proof.
    unfold cell_ok. rewrite andb_true_iff, rounds_b_iff. split; intros [H1 H2]; (split; [|exact H2]).
    - intros Hv. subst v. simpl in H1. apply Z.eqb_eq, H1.
    - destruct (v =? 0) eqn:E; [|reflexivity]. apply Z.eqb_eq, H1. apply Z.eqb_eq, E.
  Qed.

  (* with positive signposts a cell without votes can only round to 0 *)
  Lemma rounds_zero s : (forall k, 0 <= k -> (0 < d k)%Q) -> rounds 0 s -> s = 0.
  Proof.
    intros Hp (H0 & _ & H2). destruct (Z.eq_dec s 0) as [E|E]; [exact E|].
    assert (Hs : 0 < s) by lia. specialize (H2 Hs). specialize (Hp (s - 1) ltac:(lia)). lra.
  Qed.

  Variables ds ps : list C.
  Variable votes : mat.
  Variables dseats pseats : list (C * Z).

  (* the declarative statement for given multipliers *)
  Record spec_with (res : mat) (rho gamma : C -> Q) : Prop := {
    sp_rows : forall i, In i ds -> rowsum res ps i = dget_or dseats i 0;
    sp_cols : forall j, In j ps -> colsum res ds j = dget_or pseats j 0;
    sp_nonneg : forall i j, 0 <= mget res i j;
    sp_zero : forall i j, mget votes i j = 0 -> mget res i j = 0;
    sp_rho : forall i, In i ds -> (0 < rho i)%Q;
    sp_gamma : forall j, In j ps -> (0 < gamma j)%Q;
    sp_round : forall i j, In i ds -> In j ps ->
                 rounds (quot (mget votes i j) (rho i) (gamma j)) (mget res i j)
  }.
  (* the property: district totals, party totals, no seat without votes, and positive multipliers
     exist such that every cell is the rounding of votes x district multiplier x party multiplier *)
  Definition biprop_spec (res : mat) : Prop := exists rho gamma, spec_with res rho gamma.

  Lemma entries_ok_iff res :
    entries_ok votes res = true <->
    (forall i j, 0 <= mget res i j) /\ (forall i j, mget votes i j = 0 -> mget res i j = 0).
  Proof.
    unfold entries_ok. rewrite forallb_forall. split.
    - intros H. assert (K : forall i j, 0 <= mget res i j /\ (mget votes i j = 0 -> mget res i j = 0)).
      { intros i j. destruct (Z.eq_dec (mget res i j) 0) as [E|E]; [rewrite E; split; [lia|reflexivity]|].
        destruct (mget_stored res i j E) as (row & kv & Hr & Hi & Hk & Hj).
        specialize (H row Hr). rewrite forallb_forall in H. specialize (H kv Hk). rewrite Hi, Hj in H.
        apply andb_true_iff in H. destruct H as [H1 H2]. apply Z.leb_le in H1. split; [exact H1|].
        intros Hv. apply orb_true_iff in H2. destruct H2 as [H2|H2]; [apply Z.eqb_eq, H2|].
        rewrite Hv in H2. discriminate. }
      split; intros i j; apply K.
    - intros [H1 H2] row _. apply forallb_forall. intros kv _.
      apply andb_true_iff. split; [apply Z.leb_le, H1|].
      destruct (mget res (fst row) (fst kv) =? 0) eqn:E; [reflexivity|]. simpl.
      apply negb_true_iff. apply Z.eqb_neq. intros Hv. apply Z.eqb_neq in E. apply E, H2, Hv.
  Qed.

  Theorem cert_sound res rho gamma :
    cert_ok d ds ps votes dseats pseats res rho gamma = true -> spec_with res (mul rho) (mul gamma).
  Proof.
    unfold cert_ok. rewrite !andb_true_iff. intros [[[[Hr Hc] He] Hp] Hx].
    apply entries_ok_iff in He. destruct He as [He1 He2].
    unfold pos_ok in Hp. apply andb_true_iff in Hp. destruct Hp as [Hp1 Hp2].
    unfold rows_ok in Hr. unfold cols_ok in Hc. unfold cells_ok in Hx.
    rewrite forallb_forall in Hr, Hc, Hp1, Hp2, Hx.
    constructor.
    - intros i Hi. apply Z.eqb_eq, Hr, Hi.
    - intros j Hj. apply Z.eqb_eq, Hc, Hj.
    - exact He1.
    - exact He2.
    - intros i Hi. apply Qpos_b_iff, Hp1, Hi.
    - intros j Hj. apply Qpos_b_iff, Hp2, Hj.
    - intros i j Hi Hj. specialize (Hx i Hi). rewrite forallb_forall in Hx. specialize (Hx j Hj).
      apply cell_ok_iff in Hx. apply Hx.
  Qed.

  Theorem cert_complete res rho gamma :
    spec_with res (mul rho) (mul gamma) -> cert_ok d ds ps votes dseats pseats res rho gamma = true.
  Proof.
    intros [Hr Hc Hn Hz Hp1 Hp2 Hx]. unfold cert_ok. rewrite !andb_true_iff. repeat split.
    - apply forallb_forall. intros i Hi. apply Z.eqb_eq, Hr, Hi.
    - apply forallb_forall. intros j Hj. apply Z.eqb_eq, Hc, Hj.
    - apply entries_ok_iff. split; assumption.
    - apply andb_true_iff. split; apply forallb_forall; intros k Hk; apply Qpos_b_iff; auto.
    - apply forallb_forall. intros i Hi. apply forallb_forall. intros j Hj.
      apply cell_ok_iff. split; [apply Hz|apply Hx; assumption].
  Qed.

  (* multipliers given as functions can be tabulated *)
  Definition tab (f : C -> Q) (l : list C) : list (C * Q) := map (fun k => (k, f k)) l.
  Lemma mul_tab f l k : In k l -> mul (tab f l) k = f k.
  Proof.
    unfold mul, dget_or, tab. induction l as [|x l IH]; simpl; [tauto|].
    intros H. destruct (ceqb k x) eqn:E; [apply ceqb_eq in E; subst; reflexivity|].
    destruct H as [H|H]; [subst; rewrite ceqb_refl in E; discriminate|apply IH, H].
  Qed.

  Theorem cert_complete_ex res : biprop_spec res ->
    exists rho gamma, cert_ok d ds ps votes dseats pseats res rho gamma = true.
  Proof.
    intros (rho & gamma & [Hr Hc Hn Hz Hp1 Hp2 Hx]). exists (tab rho ds), (tab gamma ps).
    apply cert_complete. constructor; try assumption.
    - intros i Hi. rewrite mul_tab by exact Hi. auto.
    - intros j Hj. rewrite mul_tab by exact Hj. auto.
    - intros i j Hi Hj. rewrite !mul_tab by assumption. auto.
  Qed.
End Spec.
