(* Lemmas for property C07, part 3: the loop invariant of tie-and-transfer over the whole-loop model
   Model/BipropLoop.v and the PARTIAL CORRECTNESS of [bloop]: from any state that satisfies the invariant,
   whenever the loop returns (not out of fuel, not a refusal), the certificate checker accepts the returned
   matrix with the final multipliers.  Termination is not claimed. *)
From Coq Require Import ZArith QArith List Bool Lia Lqa.
From VL Require Import Prelude.PyDict Model.Divisor Model.HighestAverages Model.Biprop Model.BipropLoop
     Proofs.Dict_proofs Proofs.Divisor_proofs Proofs.Biprop_proofs Proofs.Biprop_steps.
Import ListNotations.
Open Scope Z_scope.

(* ------------------------------------------------------------------ dictionaries *)
Lemma dget_map_keyed {X Y} (f : C -> X -> Y) (l : list (C * X)) k :
  dget (map (fun kv => (fst kv, f (fst kv) (snd kv))) l) k = option_map (f k) (dget l k).
Proof.
  induction l as [|[k0 v0] l IH]; simpl; [reflexivity|].
  destruct (ceqb k k0) eqn:E; [|exact IH]. apply ceqb_eq in E. subst k0. reflexivity.
Qed.

Lemma dget_none_notin {X} (t : list (C * X)) k : dget t k = None -> ~ In k (map fst t).
Proof.
  induction t as [|[k0 v0] t IH]; simpl; [tauto|].
  destruct (ceqb k k0) eqn:E; [discriminate|]. intros H [H1|H1]; [|apply (IH H H1)].
  subst k0. rewrite ceqb_refl in E. discriminate.
Qed.
Lemma notin_dget_none {X} (t : list (C * X)) k : ~ In k (map fst t) -> dget t k = None.
Proof.
  induction t as [|[k0 v0] t IH]; simpl; [reflexivity|]. intros H.
  destruct (ceqb k k0) eqn:E; [apply ceqb_eq in E; subst; exfalso; apply H; left; reflexivity|].
  apply IH. intros Hi. apply H. right. exact Hi.
Qed.

Lemma dset_keys {X} (t : list (C * X)) k v x : In x (map fst (dset t k v)) <-> x = k \/ In x (map fst t).
Proof.
  induction t as [|[k0 v0] t IH]; simpl.
  - split; [intros [H|[]]; left; auto|intros [H|[]]; left; auto].
  - destruct (ceqb k k0) eqn:E; simpl.
    + apply ceqb_eq in E. subst k0. split; [intros [H|H]; [left; auto|right; right; exact H]|].
      intros [H|[H|H]]; [left; auto|left; exact H|right; exact H].
    + rewrite IH. split; [intros [H|[H|H]]; auto|intros [H|[H|H]]; auto].
Qed.
Lemma dset_keys_nodup {X} (t : list (C * X)) k v : NoDup (map fst t) -> NoDup (map fst (dset t k v)).
Proof.
  induction t as [|[k0 v0] t IH]; simpl; intros H.
  - constructor; [tauto|constructor].
  - inversion H as [|? ? Hk Ht]; subst. destruct (ceqb k k0) eqn:E; simpl.
    + constructor; assumption.
    + constructor; [|apply IH, Ht]. intros Hi. apply dset_keys in Hi. destruct Hi as [Hi|Hi]; [|tauto].
      subst k0. rewrite ceqb_refl in E. discriminate.
Qed.
Lemma dremove_keys {X} (t : list (C * X)) k x : In x (map fst (dremove t k)) -> In x (map fst t).
Proof.
  induction t as [|[k0 v0] t IH]; simpl; [tauto|].
  destruct (ceqb k k0); simpl; [intros H; right; apply IH, H|intros [H|H]; [left; exact H|right; apply IH, H]].
Qed.
Lemma dremove_keys_nodup {X} (t : list (C * X)) k : NoDup (map fst t) -> NoDup (map fst (dremove t k)).
Proof.
  induction t as [|[k0 v0] t IH]; simpl; intros H; [constructor|].
  inversion H as [|? ? Hk Ht]; subst. destruct (ceqb k k0); simpl; [apply IH, Ht|].
  constructor; [|apply IH, Ht]. intros Hi. apply Hk. apply (dremove_keys _ _ _ Hi).
Qed.

(* sum(row.values()) = the sum of row.get(j, 0) over any duplicate-free index list that contains the keys *)
Lemma row_total_index (row : list (C * Z)) (ps : list C) :
  NoDup (map fst row) -> incl (map fst row) ps -> NoDup ps ->
  row_total row = zsum (map (fun j => dget_or row j 0) ps).
Proof.
  unfold row_total. induction row as [|[k v] t IH]; intros Hnd Hin Hps.
  - simpl. rewrite zsum_nil. symmetry. apply (zsum_map_zero ps).
  - simpl map at 1. rewrite zsum_cons. inversion Hnd as [|? ? Hk Ht]; subst.
    rewrite IH; [|exact Ht|intros x Hx; apply Hin; right; exact Hx|exact Hps].
    rewrite (zsum_map_point (fun j => dget_or t j 0) (fun j => dget_or ((k, v) :: t) j 0) k v ps).
    + rewrite (count_nodup k ps Hps); [lia|]. apply Hin. left. reflexivity.
    + intros x. unfold dget_or. simpl. destruct (ceqb x k) eqn:E; [|lia].
      apply ceqb_eq in E. subst x. rewrite (notin_dget_none t k Hk). lia.
Qed.

(* ------------------------------------------------------------------ sort_pos is a permutation (as far as membership goes) *)
Lemma ins_pos_in x l y : In y (ins_pos x l) <-> y = x \/ In y l.
Proof.
  induction l as [|z l IH]; simpl; [split; intros [H|[]]; auto|].
  destruct (Pos.leb x z); simpl; [split; intros [H|H]; auto|].
  rewrite IH. split; [intros [H|[H|H]]; auto|intros [H|[H|H]]; auto].
Qed.
Lemma sort_pos_in l y : In y (sort_pos l) <-> In y l.
Proof.
  induction l as [|x l IH]; simpl; [tauto|]. rewrite ins_pos_in, IH. split; intros [H|H]; auto.
Qed.

(* ------------------------------------------------------------------ _calc_quots *)
Lemma quots_cell votes rho gamma i qrow j :
  dget (calc_quots votes rho gamma) i = Some qrow ->
  (dget_or qrow j 0%Q == quot (mget votes i j) (mul rho i) (mul gamma j))%Q.
Proof.
  unfold calc_quots.
  rewrite (dget_map_keyed (fun i0 row => map (fun kv => (fst kv, quot (snd kv) (mul rho i0) (mul gamma (fst kv)))) row) votes i).
  unfold mget. destruct (dget votes i) as [row|] eqn:E; simpl; [|discriminate]. intros [= <-].
  unfold dget_or. rewrite (dget_map_keyed (fun j0 v => quot v (mul rho i) (mul gamma j0)) row j).
  destruct (dget row j) as [v|]; simpl; [reflexivity|]. unfold quot. simpl. ring.
Qed.
Lemma quots_keys votes rho gamma i qrow :
  dget (calc_quots votes rho gamma) i = Some qrow -> In i (districts votes).
Proof.
  unfold calc_quots.
  rewrite (dget_map_keyed (fun i0 row => map (fun kv => (fst kv, quot (snd kv) (mul rho i0) (mul gamma (fst kv)))) row) votes i).
  destruct (dget votes i) as [row|] eqn:E; simpl; [|discriminate]. intros _. apply (dget_In_key _ _ _ E).
Qed.

(* every stored cell of the quotient matrix is the quotient of a cell of a well-formed vote matrix *)
Definition wf_votes (votes : mat) : Prop :=
  NoDup (map fst votes) /\ forall row, In row votes -> NoDup (map fst (snd row)).

Lemma cells_of_quots votes rho gamma cell : wf_votes votes ->
  In cell (cells_of (calc_quots votes rho gamma)) ->
  In (fst (fst cell)) (districts votes) /\ In (snd (fst cell)) (parties votes) /\
  snd cell = quot (mget votes (fst (fst cell)) (snd (fst cell))) (mul rho (fst (fst cell))) (mul gamma (snd (fst cell))).
Proof.
  intros [Hnd Hrows] H. unfold cells_of, calc_quots in H. apply in_flat_map in H. destruct H as (qr & Hqr & H).
  apply in_map_iff in Hqr. destruct Hqr as (row & <- & Hrow). cbn [fst snd] in H.
  apply in_map_iff in H. destruct H as (kv' & <- & Hkv'). apply in_map_iff in Hkv'. destruct Hkv' as (kv & <- & Hkv).
  cbn [fst snd]. destruct row as [i r]. destruct kv as [j v]. cbn [fst snd] in *.
  assert (Ei : dget votes i = Some r) by (apply In_dget; assumption).
  assert (Ej : dget r j = Some v) by (apply In_dget; [apply (Hrows (i, r) Hrow)|exact Hkv]).
  assert (Em : mget votes i j = v) by (unfold mget, dget_or; rewrite Ei, Ej; reflexivity).
  split; [apply (dget_In_key _ _ _ Ei)|]. split; [|rewrite Em; reflexivity].
  destruct (parties_facts votes []) as (_ & K & _). apply (K (i, r) (j, v) Hrow Hkv).
Qed.

Lemma filter_nil {X} (f : X -> bool) l : filter f l = [] -> forall x, In x l -> f x = false.
Proof.
  induction l as [|y l IH]; simpl; [tauto|]. destruct (f y) eqn:E; [discriminate|].
  intros H x [<-|Hx]; [exact E|apply IH; assumption].
Qed.

(* ------------------------------------------------------------------ the cell tests of _labeled *)
Section Tests.
  Variable q : Q.
  Lemma upgradable_spec x s : is_upgradable q x s = true -> (x == inject_Z s + 1 - q)%Q.
  Proof.
    unfold is_upgradable. rewrite andb_true_iff. intros [_ H]. apply Qeq_bool_iff in H. rewrite H. reflexivity.
  Qed.
  Lemma downgradable_spec x s : is_downgradable q x s = true -> (x == inject_Z s - q)%Q /\ 1 <= s.
  Proof.
    unfold is_downgradable. rewrite !andb_true_iff. intros [[_ H] H1]. apply Qeq_bool_iff in H. apply Z.leb_le in H1.
    split; [rewrite H; reflexivity|exact H1].
  Qed.
End Tests.

Section LoopInv.
  Variable d : Z -> Q.
  Variables q k : Q.
  Hypothesis Hq0 : (0 <= q)%Q.
  Hypothesis Hq1 : (q < 1)%Q.
  Hypothesis Hk : (0 < k)%Q.
  Hypothesis Hd : forall s, (d s == k * (inject_Z s + 1 - q))%Q.
  Variable votes : mat.
  Hypothesis Hwf : wf_votes votes.
  Variable pseats : list (C * Z).
  Notation ds := (districts votes).
  Notation ps := (parties votes).

  Definition res_wf (res : mat) : Prop :=
    forall i row, dget res i = Some row -> NoDup (map fst row) /\ incl (map fst row) ps.

  (* the loop invariant: party totals, no seat without votes, positive multipliers, every cell between its signposts
     (the implementation's own units: signpost s = s - q), plus the dictionary shape the row sums rely on *)
  Record BInv (s : bstate) : Prop := {
    bi_wf : res_wf (b_res s);
    bi_cols : forall j, In j ps -> colsum (b_res s) ds j = dget_or pseats j 0;
    bi_nonneg : forall i j, 0 <= mget (b_res s) i j;
    bi_zero : forall i j, mget votes i j = 0 -> mget (b_res s) i j = 0;
    bi_rho : forall i, In i ds -> (0 < mul (b_rho s) i)%Q;
    bi_gamma : forall j, In j ps -> (0 < mul (b_gamma s) j)%Q;
    bi_cells : forall i j, In i ds -> In j ps ->
                 within q (quot (mget votes i j) (mul (b_rho s) i) (mul (b_gamma s) j)) (mget (b_res s) i j)
  }.

  Lemma ds_nodup : NoDup ds.
  Proof. exact (proj1 Hwf). Qed.

  (* ---------------------------------------------------------------- row sums as the code computes them *)
  Lemma cur_seats_rowsum res i : res_wf res -> cur_seats res i = rowsum res ps i.
  Proof.
    intros W. unfold cur_seats, rowsum, mget. destruct (dget res i) as [row|] eqn:E.
    - destruct (W i row E) as [H1 H2]. apply row_total_index; [exact H1|exact H2|apply parties_nodup].
    - symmetry. apply (zsum_map_zero ps).
  Qed.

  (* ---------------------------------------------------------------- the dictionary shape survives a transfer *)
  Lemma cell_incr_wf m i j m' : res_wf m -> In j ps -> cell_incr m i j = Some m' -> res_wf m'.
  Proof.
    unfold cell_incr. intros W Hj. destruct (dget m i) as [row|] eqn:E; [|discriminate]. intros [= <-] i' row' H'.
    rewrite dget_dset in H'. destruct (ceqb i' i) eqn:Ei; [|apply (W i' row' H')].
    injection H' as <-. destruct (W i row E) as [H1 H2]. split; [apply dset_keys_nodup, H1|].
    intros x Hx. apply dset_keys in Hx. destruct Hx as [->|Hx]; [exact Hj|apply H2, Hx].
  Qed.
  Lemma cell_decr_wf m i j m' : res_wf m -> cell_decr m i j = Some m' -> res_wf m'.
  Proof.
    unfold cell_decr. intros W. destruct (dget m i) as [row|] eqn:E; [|discriminate].
    destruct (dget row j) as [s|] eqn:Es; [|discriminate]. intros [= <-] i' row' H'.
    rewrite dget_dset in H'. destruct (ceqb i' i) eqn:Ei; [|apply (W i' row' H')].
    injection H' as <-. destruct (W i row E) as [H1 H2]. destruct (s - 1 =? 0).
    - split; [apply dremove_keys_nodup, H1|]. intros x Hx. apply H2. apply (dremove_keys _ _ _ Hx).
    - split; [apply dset_keys_nodup, H1|]. intros x Hx. apply dset_keys in Hx. destruct Hx as [->|Hx]; [|apply H2, Hx].
      apply H2. apply (dget_In_key _ _ _ Es).
  Qed.
  Lemma augment_wf : forall hops m cur m', res_wf m -> (forall p i', In (p, i') hops -> In p ps) ->
    augment m cur hops = Some m' -> res_wf m'.
  Proof.
    induction hops as [|[p i'] t IH]; intros m cur m' W Hh H; simpl in H.
    - injection H as <-. exact W.
    - destruct (cell_incr m cur p) as [m1|] eqn:E1; [|discriminate].
      destruct (cell_decr m1 i' p) as [m2|] eqn:E2; [|discriminate].
      apply (IH m2 i' m'); [|intros p0 i0 H0; apply (Hh p0 i0); right; exact H0|exact H].
      apply (cell_decr_wf m1 i' p m2); [|exact E2].
      apply (cell_incr_wf m cur p m1 W); [apply (Hh p i'); left; reflexivity|exact E1].
  Qed.

  (* ---------------------------------------------------------------- _labeled: every label was put under its test *)
  Section Lab.
    Variable quots : qmat.
    Variable res : mat.
    Variable sp : list C.

    Definition Up (i p : C) : Prop := exists qrow rrow, dget quots i = Some qrow /\ dget res i = Some rrow /\
      is_upgradable q (dget_or qrow p 0%Q) (dget_or rrow p 0) = true.
    Definition Down (i p : C) : Prop := exists qrow rrow, dget quots i = Some qrow /\ dget res i = Some rrow /\
      is_downgradable q (dget_or qrow p 0%Q) (dget_or rrow p 0) = true.
    Definition LDok (LD : LDt) : Prop := forall i p, In (i, Some p) LD -> In p sp /\ Up i p.
    Definition LPok (LP : LPt) : Prop := forall p i, In (p, i) LP -> In p sp /\ Down i p.
    Definition oLP (a : option LPt) : Prop := match a with Some LP => LPok LP | None => True end.
    Definition oLD (a : option LDt) : Prop := match a with Some LD => LDok LD | None => True end.

    Lemma down_scan_ok i acc j : In j sp -> oLP acc -> oLP (down_scan q quots res i acc j).
    Proof.
      intros Hj. destruct acc as [LP|]; simpl; [|tauto]. intros H.
      destruct (dmem LP j); [exact H|].
      destruct (dget quots i) as [qrow|] eqn:Eq; [|exact I]. destruct (dget res i) as [rrow|] eqn:Er; [|exact I].
      destruct (is_downgradable q (dget_or qrow j 0%Q) (dget_or rrow j 0)) eqn:Et; [|exact H].
      intros p i0 Hin. apply in_app_or in Hin. destruct Hin as [Hin|[Hin|[]]]; [apply (H p i0 Hin)|].
      injection Hin as <- <-. split; [exact Hj|]. exists qrow, rrow. auto.
    Qed.
    Lemma down_fold_ok i : forall l, (forall j, In j l -> In j sp) -> forall acc, oLP acc ->
      oLP (fold_left (down_scan q quots res i) l acc).
    Proof.
      induction l as [|j l IH]; intros Hl acc H; simpl; [exact H|].
      apply IH; [intros x Hx; apply Hl; right; exact Hx|]. apply down_scan_ok; [apply Hl; left; reflexivity|exact H].
    Qed.
    Lemma down_sweep_ok : forall dl acc, oLP acc ->
      oLP (fold_left (fun acc i => fold_left (down_scan q quots res i) sp acc) dl acc).
    Proof.
      induction dl as [|i dl IH]; intros acc H; simpl; [exact H|]. apply IH. apply down_fold_ok; [auto|exact H].
    Qed.

    Lemma up_scan_ok j acc i : In j sp -> oLD acc -> oLD (up_scan q quots res j acc i).
    Proof.
      intros Hj. destruct acc as [LD|]; simpl; [|tauto]. intros H.
      destruct (dmem LD i); [exact H|].
      destruct (dget quots i) as [qrow|] eqn:Eq; [|exact I]. destruct (dget res i) as [rrow|] eqn:Er; [|exact I].
      destruct (is_upgradable q (dget_or qrow j 0%Q) (dget_or rrow j 0)) eqn:Et; [|exact H].
      intros i0 p Hin. apply in_app_or in Hin. destruct Hin as [Hin|[Hin|[]]]; [apply (H i0 p Hin)|].
      injection Hin as <- <-. split; [exact Hj|]. exists qrow, rrow. auto.
    Qed.
    Lemma up_fold_ok j : In j sp -> forall l acc, oLD acc -> oLD (fold_left (up_scan q quots res j) l acc).
    Proof.
      intros Hj. induction l as [|i l IH]; intros acc H; simpl; [exact H|]. apply IH. apply up_scan_ok; assumption.
    Qed.
    Lemma up_sweep_ok dl0 : forall pl, (forall j, In j pl -> In j sp) -> forall acc, oLD acc ->
      oLD (fold_left (fun acc j => fold_left (up_scan q quots res j) dl0 acc) pl acc).
    Proof.
      induction pl as [|j pl IH]; intros Hpl acc H; simpl; [exact H|].
      apply IH; [intros x Hx; apply Hpl; right; exact Hx|]. apply up_fold_ok; [apply Hpl; left; reflexivity|exact H].
    Qed.

    Lemma lab_loop_ok under dl0 : forall fuel LD LP LD' LP', LDok LD -> LPok LP ->
      lab_loop q fuel under sp dl0 quots res LD LP = Lab LD' LP' -> LDok LD' /\ LPok LP'.
    Proof.
      induction fuel as [|f IH]; intros LD LP LD' LP' HD HP H; simpl in H; [discriminate|].
      pose proof (down_sweep_ok (map fst LD) (Some LP) HP) as H1.
      destruct (fold_left (fun acc i => fold_left (down_scan q quots res i) sp acc) (map fst LD) (Some LP)) as [LP1|]; [|discriminate].
      simpl in H1.
      assert (Hk1 : forall j, In j (map fst LP1) -> In j sp).
      { intros j Hj. apply in_map_iff in Hj. destruct Hj as ([p i] & <- & Hin). apply (H1 p i Hin). }
      pose proof (up_sweep_ok dl0 (map fst LP1) Hk1 (Some LD) HD) as H2.
      destruct (fold_left (fun acc j => fold_left (up_scan q quots res j) dl0 acc) (map fst LP1) (Some LD)) as [LD1|]; [|discriminate].
      simpl in H2.
      destruct (existsb (fun i => cmem i under) (map fst LD1)); [injection H as <- <-; auto|].
      destruct (Nat.eqb (length LD1 + length LP1) (length LD + length LP)); [injection H as <- <-; auto|].
      apply (IH LD1 LP1 LD' LP' H2 H1 H).
    Qed.

    Lemma up_down_excl i p : Up i p -> Down i p -> False.
    Proof.
      intros (qr & rr & E1 & E2 & Hu) (qr' & rr' & E1' & E2' & Hd'). rewrite E1 in E1'. rewrite E2 in E2'.
      injection E1' as <-. injection E2' as <-. apply upgradable_spec in Hu. apply downgradable_spec in Hd'.
      destruct Hd' as [Hd' _]. rewrite Hu in Hd'. lra.
    Qed.
  End Lab.

  (* ---------------------------------------------------------------- the path of _augment_result *)
  Lemma walk_start LD LP over fuel c sD sP h : walk fuel LD LP over c sD sP = WalkDone h ->
    cmem c over = true \/ cmem c sD = false.
  Proof.
    destruct fuel as [|f]; simpl; [discriminate|]. destruct (cmem c over); [auto|].
    destruct (cmem c sD); [discriminate|auto].
  Qed.

  Section Walk.
    Variable quots : qmat.
    Variable res : mat.
    Variable sp : list C.
    Variable LD : LDt.
    Variable LP : LPt.
    Variable over : list C.
    Hypothesis HD : LDok quots res sp LD.
    Hypothesis HP : LPok quots res sp LP.

    (* the net change of every cell along the path is +1 on an upgradable cell, -1 on a downgradable cell, or 0;
       popping a set twice is a KeyError, so no district is visited twice *)
    Lemma walk_delta : forall fuel cur seenD seenP hops,
      (forall x, In x seenD -> cmem x over = false) ->
      walk fuel LD LP over cur seenD seenP = WalkDone hops ->
      (forall p i', In (p, i') hops -> In p sp /\ exists p', Down quots res i' p') /\
      (hops = [] \/ exists p, Up quots res cur p) /\
      forall i j,
        aug_delta cur hops i j = 0 \/
        (aug_delta cur hops i j = 1 /\ Up quots res i j /\ ~ In i seenD) \/
        (aug_delta cur hops i j = -1 /\ Down quots res i j /\ ~ In i seenD /\ i <> cur).
    Proof.
      induction fuel as [|f IH]; intros cur seenD seenP hops Hs H; simpl in H; [discriminate|].
      destruct (cmem cur over) eqn:Eo.
      { injection H as <-. split; [intros p i' []|]. split; [left; reflexivity|]. intros i j. left. reflexivity. }
      destruct (cmem cur seenD) eqn:Es; [discriminate|].
      destruct (dget LD cur) as [[p|]|] eqn:El; try discriminate.
      destruct (cmem p seenP); [discriminate|].
      destruct (dget LP p) as [i'|] eqn:Ep; [|discriminate].
      destruct (walk f LD LP over i' (cur :: seenD) (p :: seenP)) as [hops'| |] eqn:Ew; try discriminate.
      injection H as <-.
      assert (Hs' : forall x, In x (cur :: seenD) -> cmem x over = false).
      { intros x [<-|Hx]; [exact Eo|apply Hs, Hx]. }
      destruct (IH i' (cur :: seenD) (p :: seenP) hops' Hs' Ew) as (A & B & Cc).
      destruct (HD cur p (dget_In _ _ _ El)) as [Hp Hup].
      destruct (HP p i' (dget_In _ _ _ Ep)) as [_ Hdn].
      assert (Hne : cur <> i') by (intros E; subst i'; apply (up_down_excl quots res cur p Hup Hdn)).
      assert (Hnotseen : ~ In cur seenD) by (intros Hi; apply cmem_In in Hi; congruence).
      assert (Hi'seen : ~ In i' seenD).
      { intros Hi. destruct (walk_start _ _ _ _ _ _ _ _ Ew) as [H1|H1].
        - rewrite (Hs i' Hi) in H1. discriminate.
        - assert (cmem i' (cur :: seenD) = true) by (apply cmem_In; right; exact Hi). congruence. }
      split; [|split].
      - intros p0 i0 [H0|H0]; [injection H0 as <- <-; split; [exact Hp|exists p; exact Hdn]|apply (A p0 i0 H0)].
      - right. exists p. exact Hup.
      - intros i j. cbn [aug_delta].
        destruct (ceqb i cur) eqn:E1.
        + apply ceqb_eq in E1. subst i.
          assert (D0 : aug_delta i' hops' cur j = 0).
          { destruct (Cc cur j) as [D|[(_ & _ & N)|(_ & _ & N & _)]]; [exact D|exfalso; apply N; left; reflexivity|exfalso; apply N; left; reflexivity]. }
          assert (ceqb cur i' = false) as -> by (apply ceqb_neq; exact Hne).
          rewrite D0. destruct (ceqb j p) eqn:E2; simpl.
          * apply ceqb_eq in E2. subst j. right. left. split; [lia|]. split; [exact Hup|exact Hnotseen].
          * left. lia.
        + assert (E1' : i <> cur) by (apply ceqb_neq; exact E1). cbn [andb].
          destruct (ceqb i i' && ceqb j p) eqn:E3.
          * apply andb_true_iff in E3. destruct E3 as [E3 E4]. apply ceqb_eq in E3. apply ceqb_eq in E4. subst i j.
            destruct (Cc i' p) as [D|[(_ & U & _)|(_ & _ & _ & N)]].
            -- right. right. split; [lia|]. split; [exact Hdn|]. split; [exact Hi'seen|exact E1'].
            -- exfalso. apply (up_down_excl quots res i' p U Hdn).
            -- exfalso. apply N. reflexivity.
          * destruct (Cc i j) as [D|[(D & U & N)|(D & Dn & N & _)]].
            -- left. lia.
            -- right. left. split; [lia|]. split; [exact U|]. intros Hi. apply N. right. exact Hi.
            -- right. right. split; [lia|]. split; [exact Dn|]. split; [intros Hi; apply N; right; exact Hi|exact E1'].
    Qed.
  End Walk.

  (* ---------------------------------------------------------------- the tests in terms of votes x multipliers *)
  Lemma up_sem rho gamma res i p : Up (calc_quots votes rho gamma) res i p ->
    In i ds /\ (quot (mget votes i p) (mul rho i) (mul gamma p) == inject_Z (mget res i p) + 1 - q)%Q.
  Proof.
    intros (qr & rr & E1 & E2 & H). split; [apply (quots_keys _ _ _ _ _ E1)|].
    apply upgradable_spec in H. rewrite (quots_cell _ _ _ _ _ p E1) in H. unfold mget at 2. rewrite E2. exact H.
  Qed.
  Lemma down_sem rho gamma res i p : Down (calc_quots votes rho gamma) res i p ->
    In i ds /\ (quot (mget votes i p) (mul rho i) (mul gamma p) == inject_Z (mget res i p) - q)%Q /\ 1 <= mget res i p.
  Proof.
    intros (qr & rr & E1 & E2 & H). split; [apply (quots_keys _ _ _ _ _ E1)|].
    apply downgradable_spec in H. rewrite (quots_cell _ _ _ _ _ p E1) in H. unfold mget at 2 3. rewrite E2. exact H.
  Qed.

  Lemma inj0 s : 0 <= s -> (0 <= inject_Z s)%Q.
  Proof. intros H. apply (inj_le 0 s H). Qed.
  Lemma inj1 s : 1 <= s -> (1 <= inject_Z s)%Q.
  Proof. intros H. apply (inj_le 1 s H). Qed.

  Lemma within_compat x y s : (x == y)%Q -> within q x s -> within q y s.
  Proof. intros E (H1 & H2 & H3). unfold within. rewrite <- E. auto. Qed.

  (* ---------------------------------------------------------------- a transfer keeps the invariant *)
  Lemma augment_inv s LD LP over start hops res' :
    BInv s ->
    LDok (calc_quots votes (b_rho s) (b_gamma s)) (b_res s) (sort_pos ps) LD ->
    LPok (calc_quots votes (b_rho s) (b_gamma s)) (b_res s) (sort_pos ps) LP ->
    walk (S (length LD)) LD LP over start [] [] = WalkDone hops ->
    augment (b_res s) start hops = Some res' ->
    BInv (mk_bstate res' (b_rho s) (b_gamma s)).
  Proof.
    intros I HD HP Hw Ha. destruct I as [Iwf Icols Inn Iz Irho Igam Icells].
    set (quots := calc_quots votes (b_rho s) (b_gamma s)) in *.
    destruct (walk_delta quots (b_res s) (sort_pos ps) LD LP over HD HP _ start [] [] hops (fun x (H : In x []) => match H with end) Hw)
      as (A & B & Cc).
    assert (Hhops : forall p i', In (p, i') hops -> In p ps /\ In i' ds).
    { intros p i' H. destruct (A p i' H) as [H1 (p' & H2)]. split; [apply sort_pos_in, H1|].
      apply (proj1 (down_sem _ _ _ _ _ H2)). }
    pose proof (augment_mget _ _ _ _ Ha) as G.
    (* per cell: the new seat count and why it is still a rounding *)
    assert (Cell : forall i j, 0 <= mget res' i j /\ (mget votes i j = 0 -> mget res' i j = 0) /\
              (within q (quot (mget votes i j) (mul (b_rho s) i) (mul (b_gamma s) j)) (mget (b_res s) i j) ->
               within q (quot (mget votes i j) (mul (b_rho s) i) (mul (b_gamma s) j)) (mget res' i j))).
    { intros i j. rewrite (G i j). pose proof (Inn i j) as Hs. pose proof (inj0 _ Hs) as Hs'.
      destruct (Cc i j) as [D|[(D & U & _)|(D & Dn & _)]]; rewrite D.
      - rewrite Z.add_0_r. split; [exact Hs|]. split; [apply Iz|tauto].
      - apply up_sem in U. destruct U as [_ U]. split; [lia|]. split.
        + intros Hv. exfalso. rewrite Hv in U. unfold quot in U. simpl in U.
          assert (E0 : (0 * mul (b_rho s) i * mul (b_gamma s) j == 0)%Q) by ring. rewrite E0 in U. lra.
        + intros (W1 & W2 & W3). unfold within, signpost in *. rewrite inject_Z_plus. change (inject_Z 1) with 1%Q. lra.
      - apply down_sem in Dn. destruct Dn as (_ & Dn & D1). pose proof (inj1 _ D1) as D1'. split; [lia|]. split.
        + intros Hv. exfalso. rewrite Hv in Dn. unfold quot in Dn. simpl in Dn.
          assert (E0 : (0 * mul (b_rho s) i * mul (b_gamma s) j == 0)%Q) by ring. rewrite E0 in Dn. lra.
        + intros (W1 & W2 & W3). unfold within, signpost in *. rewrite inject_Z_plus. change (inject_Z (-1)) with (-(1))%Q. lra. }
    constructor; cbn [b_res b_rho b_gamma].
    - apply (augment_wf hops (b_res s) start res' Iwf); [intros p i' H; apply (Hhops p i' H)|exact Ha].
    - intros j Hj. destruct B as [->|(p & Hup)].
      + simpl in Ha. injection Ha as <-. apply Icols, Hj.
      + destruct (augment_totals _ _ _ _ ds ps Ha ds_nodup (parties_nodup votes) (proj1 (up_sem _ _ _ _ _ Hup)) Hhops) as [Hc _].
        rewrite Hc. apply Icols, Hj.
    - intros i j. apply (Cell i j).
    - intros i j. apply (Cell i j).
    - exact Irho.
    - exact Igam.
    - intros i j Hi Hj. apply (Cell i j). apply Icells; assumption.
  Qed.

  (* ---------------------------------------------------------------- a multiplier update keeps the invariant *)
  Lemma adj_nonneg quots res DL PL a : adj_coef q quots res DL PL = Adj a -> (0 <= a)%Q.
  Proof.
    unfold adj_coef. pose proof (scan_facts q res DL PL (cells_of quots) (mk_scan 0 None false)) as F.
    destruct (sc_zerodiv (fold_left (scan_cell q res DL PL) (cells_of quots) (mk_scan 0 None false))) eqn:Ez; [discriminate|].
    destruct (F eq_refl) as (_ & A & _). cbn [sc_alpha] in A.
    set (fin := fold_left (scan_cell q res DL PL) (cells_of quots) (mk_scan 0 None false)) in *.
    destruct (sc_beta fin) as [b|]; intros [= <-].
    - destruct (Qle_bool (1 / b) (sc_alpha fin)) eqn:E; [exact A|].
      destruct (Qlt_le_dec (sc_alpha fin) (1 / b)) as [L|L]; [lra|]. apply Qle_bool_iff in L. congruence.
    - destruct (Qle_bool 0 (sc_alpha fin)); [exact A|lra].
  Qed.

  Lemma mul_scale_rho DL a rho i :
    (mul (scale_rho_r DL a rho) i == if cmem i DL then mul rho i * a else mul rho i)%Q.
  Proof.
    unfold mul, dget_or, scale_rho_r.
    rewrite (dget_map_keyed (fun k0 v => if cmem k0 DL then Qred (v * a) else v) rho i).
    destruct (dget rho i) as [v|]; cbn [option_map]; destruct (cmem i DL); first [reflexivity|apply Qred_correct|ring].
  Qed.
  Lemma mul_scale_gamma PL a gamma j : ~ (a == 0)%Q ->
    (mul (scale_gamma_r PL a gamma) j == if cmem j PL then mul gamma j / a else mul gamma j)%Q.
  Proof.
    intros Ha. unfold mul, dget_or, scale_gamma_r.
    rewrite (dget_map_keyed (fun k0 v => if cmem k0 PL then Qred (v / a) else v) gamma j).
    destruct (dget gamma j) as [v|]; cbn [option_map]; destruct (cmem j PL); first [reflexivity|apply Qred_correct|field; exact Ha].
  Qed.

  Lemma stored_cell rho gamma i j : mget votes i j <> 0 ->
    In (i, j, quot (mget votes i j) (mul rho i) (mul gamma j)) (cells_of (calc_quots votes rho gamma)).
  Proof.
    intros H. destruct (mget_stored votes i j H) as (row & kv & Hr & Hi & Hkv & Hj).
    destruct Hwf as [Hnd Hrows]. destruct row as [i0 r]. destruct kv as [j0 v]. cbn [fst snd] in *. subst i0 j0.
    assert (Ei : dget votes i = Some r) by (apply In_dget; assumption).
    assert (Ej : dget r j = Some v) by (apply In_dget; [apply (Hrows (i, r) Hr)|exact Hkv]).
    assert (Em : mget votes i j = v) by (unfold mget, dget_or; rewrite Ei, Ej; reflexivity).
    rewrite Em. unfold cells_of, calc_quots. apply in_flat_map.
    exists (i, map (fun kv => (fst kv, quot (snd kv) (mul rho i) (mul gamma (fst kv)))) r). split.
    - apply in_map_iff. exists (i, r). split; [reflexivity|exact Hr].
    - cbn [fst snd]. apply in_map_iff. exists (j, quot v (mul rho i) (mul gamma j)). split; [reflexivity|].
      apply in_map_iff. exists (j, v). split; [reflexivity|exact Hkv].
  Qed.

  Lemma scale_inv s DL PL a : BInv s ->
    adj_coef q (calc_quots votes (b_rho s) (b_gamma s)) (b_res s) DL PL = Adj a ->
    Qeq_bool a 0 || Qle_bool 1 a = false ->
    BInv (mk_bstate (b_res s) (scale_rho_r DL a (b_rho s)) (scale_gamma_r PL a (b_gamma s))).
  Proof.
    intros I Ha Hc. destruct I as [Iwf Icols Inn Iz Irho Igam Icells].
    apply orb_false_iff in Hc. destruct Hc as [Hc0 Hc1].
    assert (Hne : ~ (a == 0)%Q) by (intros E; apply Qeq_bool_iff in E; congruence).
    assert (Hlt1 : (a < 1)%Q).
    { destruct (Qlt_le_dec a 1) as [L|L]; [exact L|]. apply Qle_bool_iff in L. congruence. }
    pose proof (adj_nonneg _ _ _ _ _ Ha) as H0.
    assert (Hpos : (0 < a)%Q) by (destruct (Qlt_le_dec 0 a) as [L|L]; [exact L|exfalso; apply Hne; lra]).
    assert (Hin : forall cell, In cell (cells_of (calc_quots votes (b_rho s) (b_gamma s))) ->
              within q (snd cell) (mget (b_res s) (fst (fst cell)) (snd (fst cell)))).
    { intros cell Hcell. destruct (cells_of_quots _ _ _ _ Hwf Hcell) as (Hi & Hj & E). rewrite E. apply Icells; assumption. }
    pose proof (scale_keeps_cells q (b_res s) DL PL _ a Ha Hpos (Qlt_le_weak _ _ Hlt1) Hin) as K.
    constructor; cbn [b_res b_rho b_gamma]; try assumption.
    - intros i Hi. rewrite mul_scale_rho. pose proof (Irho i Hi) as Hr. destruct (cmem i DL); [|exact Hr].
      apply Qmult_lt_0_compat; assumption.
    - intros j Hj. rewrite (mul_scale_gamma PL a _ j Hne). pose proof (Igam j Hj) as Hg. destruct (cmem j PL); [|exact Hg].
      apply Qlt_shift_div_l; [exact Hpos|]. lra.
    - intros i j Hi Hj. destruct (Z.eq_dec (mget votes i j) 0) as [Ev|Ev].
      + rewrite (Iz i j Ev), Ev. unfold quot, within, signpost. change (inject_Z 0) with 0%Q.
        assert (E0 : (0 * mul (scale_rho_r DL a (b_rho s)) i * mul (scale_gamma_r PL a (b_gamma s)) j == 0)%Q) by ring.
        rewrite E0. repeat split; lra.
      + pose proof (K _ (stored_cell (b_rho s) (b_gamma s) i j Ev)) as W. cbn [fst snd scaled] in W.
        eapply within_compat; [|exact W]. unfold quot.
        rewrite mul_scale_rho, (mul_scale_gamma PL a _ j Hne).
        destruct (cmem i DL), (cmem j PL); field; exact Hne || lra.
  Qed.

  (* ---------------------------------------------------------------- one iteration keeps the invariant *)
  Lemma bstep_body_inv s under over : BInv s ->
    match bstep_body q votes s under over with Next s' => BInv s' | _ => True end.
  Proof.
    intros HI. unfold bstep_body.
    destruct (labeled q ps ds (calc_quots votes (b_rho s) (b_gamma s)) (b_res s) under over) as [LD LP| |] eqn:El; try exact I.
    unfold labeled in El. apply (lab_loop_ok _ _ (sort_pos ps)) in El.
    2:{ intros i p H. apply in_map_iff in H. destruct H as (x & Hx & _). discriminate. }
    2:{ intros p i []. }
    destruct El as [HD HP].
    destruct (sort_pos (filter (fun i => dmem LD i) under)) as [|start rest].
    - destruct (adj_coef q _ (b_res s) (map fst LD) (map fst LP)) as [a|] eqn:Ea; [|exact I].
      destruct (Qeq_bool a 0 || Qle_bool 1 a) eqn:Ec; [exact I|]. apply scale_inv; assumption.
    - destruct (walk (S (length LD)) LD LP over start [] []) as [hops| |] eqn:Ew; try exact I.
      destruct (augment (b_res s) start hops) as [res'|] eqn:Eg; [|exact I].
      apply (augment_inv s LD LP over start hops res' HI HD HP Ew Eg).
  Qed.

  Lemma bstep_inv tgt dorder s : BInv s ->
    match bstep q votes tgt dorder s with Next s' => BInv s' | _ => True end.
  Proof.
    intros HI. unfold bstep. cbv zeta.
    destruct (fst (unsat dorder (b_res s) tgt)) as [|u0 ul] eqn:Eu; [destruct (snd (unsat dorder (b_res s) tgt)) as [|o0 ol] eqn:Eo; [exact I|]|];
      apply bstep_body_inv; exact HI.
  Qed.

  (* the loop only returns a matrix through the termination test *)
  Lemma bstep_body_stop s under over r : bstep_body q votes s under over = Stop r ->
    forall a b c, r <> BP_ok a b c.
  Proof.
    unfold bstep_body.
    destruct (labeled q ps ds _ (b_res s) under over) as [LD LP| |]; try (intros [= <-]; discriminate).
    destruct (sort_pos (filter (fun i => dmem LD i) under)) as [|start rest].
    - destruct (adj_coef q _ (b_res s) (map fst LD) (map fst LP)) as [a|]; [|intros [= <-]; discriminate].
      destruct (Qeq_bool a 0 || Qle_bool 1 a); [intros [= <-]; discriminate|discriminate].
    - destruct (walk (S (length LD)) LD LP over start [] []) as [hops| |]; try (intros [= <-]; discriminate).
      destruct (augment (b_res s) start hops); [discriminate|intros [= <-]; discriminate].
  Qed.
  Lemma bstep_stop tgt dorder s r : bstep q votes tgt dorder s = Stop r -> forall a b c, r <> BP_ok a b c.
  Proof.
    unfold bstep. cbv zeta.
    destruct (fst (unsat dorder (b_res s) tgt)); [destruct (snd (unsat dorder (b_res s) tgt)); [discriminate|]|];
      apply bstep_body_stop.
  Qed.

  (* the termination test: every district of the iteration order holds its target *)
  Lemma bstep_done tgt dorder s : bstep q votes tgt dorder s = Done ->
    forall i, In i dorder -> cur_seats (b_res s) i = dget_or tgt i 0.
  Proof.
    unfold bstep. cbv zeta.
    destruct (fst (unsat dorder (b_res s) tgt)) as [|u0 ul] eqn:Eu.
    - destruct (snd (unsat dorder (b_res s) tgt)) as [|o0 ol] eqn:Eo.
      + intros _ i Hi. unfold unsat in Eu, Eo. cbn [fst snd] in Eu, Eo.
        pose proof (filter_nil _ _ Eu i Hi) as H1. pose proof (filter_nil _ _ Eo i Hi) as H2. cbv beta in H1, H2.
        apply Z.ltb_ge in H1. apply Z.ltb_ge in H2. lia.
      + intros H. exfalso. unfold bstep_body in H.
        destruct (labeled q ps ds _ (b_res s) [] (o0 :: ol)) as [LD LP| |]; try discriminate.
        destruct (sort_pos (filter (fun i => dmem LD i) [])) as [|start rest].
        * destruct (adj_coef q _ (b_res s) (map fst LD) (map fst LP)) as [a|]; [|discriminate].
          destruct (Qeq_bool a 0 || Qle_bool 1 a); discriminate.
        * destruct (walk (S (length LD)) LD LP (o0 :: ol) start [] []) as [hops| |]; try discriminate.
          destruct (augment (b_res s) start hops); discriminate.
    - intros H. exfalso. unfold bstep_body in H.
      destruct (labeled q ps ds _ (b_res s) (u0 :: ul) _) as [LD LP| |]; try discriminate.
      destruct (sort_pos (filter (fun i => dmem LD i) (u0 :: ul))) as [|start rest].
      + destruct (adj_coef q _ (b_res s) (map fst LD) (map fst LP)) as [a|]; [|discriminate].
        destruct (Qeq_bool a 0 || Qle_bool 1 a); discriminate.
      + destruct (walk (S (length LD)) LD LP _ start [] []) as [hops| |]; try discriminate.
        destruct (augment (b_res s) start hops); discriminate.
  Qed.

  (* ---------------------------------------------------------------- from the implementation's units to the checker's *)
  Definition scale_k (rho : list (C * Q)) : list (C * Q) := map (fun kv => (fst kv, (snd kv * k)%Q)) rho.
  Lemma mul_scale_k rho i : (mul (scale_k rho) i == mul rho i * k)%Q.
  Proof.
    unfold mul, dget_or, scale_k. rewrite (dget_map_keyed (fun _ v => (v * k)%Q) rho i).
    destruct (dget rho i); simpl; [reflexivity|ring].
  Qed.

  Lemma within_rounds x s : 0 <= s -> within q x s -> rounds d (x * k) s.
  Proof.
    intros Hs (W1 & W2 & W3). unfold signpost in *. unfold rounds. split; [exact Hs|]. split.
    - rewrite Hd. nra.
    - intros Hs1. rewrite Hd.
      assert (E : (inject_Z (s - 1) == inject_Z s - 1)%Q).
      { unfold Z.sub. rewrite inject_Z_plus. reflexivity. }
      rewrite E. nra.
  Qed.

  Theorem binv_done_cert tgt dorder s : incl ds dorder -> BInv s -> bstep q votes tgt dorder s = Done ->
    cert_ok d ds ps votes tgt pseats (b_res s) (scale_k (b_rho s)) (b_gamma s) = true.
  Proof.
    intros Hincl I Hdone. pose proof (bstep_done tgt dorder s Hdone) as Hrows.
    destruct I as [Iwf Icols Inn Iz Irho Igam Icells].
    apply cert_complete. constructor.
    - intros i Hi. rewrite <- (cur_seats_rowsum _ i Iwf). apply Hrows, Hincl, Hi.
    - exact Icols.
    - exact Inn.
    - exact Iz.
    - intros i Hi. rewrite mul_scale_k. apply Qmult_lt_0_compat; [apply Irho, Hi|exact Hk].
    - exact Igam.
    - intros i j Hi Hj. apply (rounds_compat d (quot (mget votes i j) (mul (b_rho s) i) (mul (b_gamma s) j) * k)).
      + unfold quot. rewrite mul_scale_k. ring.
      + apply within_rounds; [apply Inn|apply Icells; assumption].
  Qed.

  (* PARTIAL CORRECTNESS of the loop: from any state satisfying the invariant, whatever the fuel, the targets and the
     iteration order of the district set, a returned matrix is certified with the final multipliers *)
  Theorem bloop_partial tgt dorder : incl ds dorder -> forall fuel s res rho gamma, BInv s ->
    bloop q votes tgt dorder fuel s = BP_ok res rho gamma ->
    cert_ok d ds ps votes tgt pseats res (scale_k rho) gamma = true /\ BInv (mk_bstate res rho gamma).
  Proof.
    intros Hincl. induction fuel as [|f IH]; intros s res rho gamma I H; simpl in H; [discriminate|].
    pose proof (bstep_inv tgt dorder s I) as Hs.
    destruct (bstep q votes tgt dorder s) as [|s'|r] eqn:E.
    - injection H as <- <- <-. split; [apply (binv_done_cert tgt dorder s Hincl I E)|destruct s; exact I].
    - apply (IH s' res rho gamma Hs H).
    - exfalso. apply (bstep_stop _ _ _ _ E res rho gamma). exact H.
  Qed.
End LoopInv.

(* ------------------------------------------------------------------ what the wire unit runs is the model of the theorems *)
Lemma bloop_trace_spec q votes tgt dorder : forall fuel s,
  bloop_trace q votes tgt dorder fuel s = (btrace q votes tgt dorder fuel s, bloop q votes tgt dorder fuel s).
Proof.
  induction fuel as [|f IH]; intros s; simpl; [reflexivity|].
  destruct (bstep q votes tgt dorder s) as [|s'|r]; try reflexivity. rewrite IH. reflexivity.
Qed.
Lemma run_core_spec d q votes tgt dorder strict n fuel :
  snd (run_core d q votes tgt dorder strict n fuel) = evaluate_core d q votes tgt dorder strict n fuel /\
  fst (run_core d q votes tgt dorder strict n fuel) =
    if refuses_empty votes strict then [] else
    match binit d q votes n with inr s => btrace q votes tgt dorder fuel s | inl _ => [] end.
Proof.
  unfold run_core, evaluate_core. destruct (refuses_empty votes strict); [split; reflexivity|].
  destruct (binit d q votes n) as [e|s]; [split; reflexivity|].
  rewrite bloop_trace_spec. split; reflexivity.
Qed.
Lemma run_total_spec d q votes strict dorder n fuel :
  snd (run_total d q votes strict n dorder fuel) = evaluate_total d q votes strict n dorder fuel.
Proof.
  unfold run_total, evaluate_total, evaluate_core. destruct (refuses_empty votes strict); [reflexivity|].
  destruct (binit d q votes n) as [e|s]; [reflexivity|].
  destruct (evaluate d (district_totals votes) n [] []) as [tgt [t|]|]; try reflexivity.
  rewrite bloop_trace_spec. reflexivity.
Qed.
