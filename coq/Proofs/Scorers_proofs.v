(* The rank scorers are non-increasing along a ballot (the hypothesis of C17_positional), as theorems about
   (a) [moved to Props/GenTie_Rankscore_mono.v: the per-rank score expressions GENERATED from votelib/component/rankscore.py], and
   (b) the score lists of the model Model/Convert.v [rank_scores] for Borda (any base), Geometric (base >= 1) and
       SequenceBased (a sequence that is non-increasing and ends non-negative: the list is padded with zeros);
   and the positional rule for a move past ANY number of places under any scorer that is non-increasing along the ballot
   ([positional_move_up], a chain of adjacent swaps through [positional_instance]). *)
From Coq Require Import ZArith QArith Qpower List Bool Arith Lia Lqa.
From VL Require Import Prelude.Sx Prelude.PyDict Prelude.GDict Prelude.PyNum Model.GetNBest Model.Convert
     Proofs.Additive_proofs.
Import ListNotations.
Open Scope Q_scope.

Lemma qinv_le a b : 0 < a -> a <= b -> / b <= / a.
Proof.
  intros Ha Hab. assert (Hb : 0 < b) by lra.
  apply Qle_shift_inv_r; [exact Hb|]. rewrite Qmult_comm. change (b * / a) with (b / a).
  apply Qle_shift_div_l; [exact Ha|lra].
Qed.

Lemma inject_Z_pos z : (0 < z)%Z -> 0 < inject_Z z.
Proof. intros H. change 0 with (inject_Z 0). rewrite <- Zlt_Qlt. exact H. Qed.

Lemma zpow_step base r : (1 <= base)%Z -> (0 <= r)%Z -> (0 < base ^ r /\ base ^ r <= base ^ (r + 1))%Z.
Proof.
  intros Hb Hr. assert (H0 : (0 < base ^ r)%Z) by (apply Z.pow_pos_nonneg; lia). split; [exact H0|].
  rewrite Z.pow_add_r, Z.pow_1_r by lia. nia.
Qed.

Lemma py_max_mono a a' c : a' <= a -> py_max a' c <= py_max a c.
Proof.
  intros H. unfold py_max. destruct (Qle_bool a' c) eqn:E1, (Qle_bool a c) eqn:E2.
  - lra.
  - assert (~ a <= c) by (intros H1; apply Qle_bool_iff in H1; congruence). lra.
  - apply Qle_bool_iff in E2. lra.
  - exact H.
Qed.

(* ------------------------------------------------------------------ (b) the score lists of the model *)
Lemma firstn_length_app {X} (a b : list X) : firstn (length a) (a ++ b) = a.
Proof. induction a as [|x a IH]; simpl; [destruct b; reflexivity|]. rewrite IH. reflexivity. Qed.

Lemma select_padded_map_seq (f : nat -> Q) n k : (k <= n)%nat -> select_padded (map f (seq 0 n)) k = map f (seq 0 k).
Proof.
  intros H. unfold select_padded. replace n with (k + (n - k))%nat by lia. rewrite seq_app, map_app.
  assert (E : firstn k (map f (seq 0 k) ++ map f (seq (0 + k) (n - k))) = map f (seq 0 k)).
  { rewrite <- (firstn_length_app (map f (seq 0 k)) (map f (seq (0 + k) (n - k)))) at 2.
    rewrite map_length, seq_length. reflexivity. }
  rewrite E, map_length, seq_length, Nat.sub_diag. apply app_nil_r.
Qed.

Lemma borda_nonincreasing base n_cands k s_pre a b s_post :
  rank_scores (Borda base) n_cands k = Some (s_pre ++ a :: b :: s_post) -> b <= a.
Proof.
  unfold rank_scores. destruct (Nat.ltb n_cands k) eqn:E; [discriminate|]. apply Nat.ltb_ge in E. intros [= H].
  rewrite select_padded_map_seq in H by exact E. destruct (map_seq_split _ _ _ _ _ _ H) as [-> ->].
  rewrite <- Zle_Qle. lia.
Qed.

Lemma geometric_nonincreasing base n_cands k s_pre a b s_post : (1 <= base)%Z ->
  rank_scores (Geometric base) n_cands k = Some (s_pre ++ a :: b :: s_post) -> b <= a.
Proof.
  intros Hb. unfold rank_scores. intros [= H]. destruct (map_seq_split _ _ _ _ _ _ H) as [-> ->].
  set (r := Z.of_nat (length s_pre)). replace (Z.of_nat (S (length s_pre))) with (r + 1)%Z by (unfold r; lia).
  destruct (zpow_step base r Hb ltac:(unfold r; lia)) as [H0 H1]. apply qinv_le.
  - apply inject_Z_pos, H0.
  - rewrite <- Zle_Qle. exact H1.
Qed.

(* a sequence that is non-increasing and ends non-negative, i.e. non-increasing once padded with zeros *)
Fixpoint noninc0 (l : list Q) : bool :=
  match l with
  | [] => true
  | a :: t => match t with
              | [] => Qle_bool 0 a
              | b :: _ => Qle_bool b a && noninc0 t
              end
  end.

Lemma noninc0_nth l : noninc0 l = true -> forall i, nth (S i) l 0 <= nth i l 0.
Proof.
  induction l as [|a t IH]; intros H i; [destruct i; simpl; lra|].
  destruct t as [|b t'].
  - cbn [noninc0] in H. apply Qle_bool_iff in H. destruct i as [|[|i]]; simpl; lra.
  - cbn [noninc0] in H. apply andb_true_iff in H. destruct H as [H1 H2]. apply Qle_bool_iff in H1.
    destruct i as [|i]; [simpl; exact H1|]. exact (IH H2 i).
Qed.

Lemma nth_repeat0 k i : nth i (repeat 0 k) 0 = 0.
Proof. revert i. induction k as [|k IH]; intros [|i]; simpl; auto. Qed.

Lemma select_padded_cons x t k : select_padded (x :: t) (S k) = x :: select_padded t k.
Proof. reflexivity. Qed.

Lemma select_padded_nth : forall sq k i, (i < k)%nat -> nth i (select_padded sq k) 0 = nth i sq 0.
Proof.
  induction sq as [|x t IH]; intros k i Hi.
  - unfold select_padded. rewrite firstn_nil. cbn [app length]. rewrite nth_repeat0. destruct i; reflexivity.
  - destruct k as [|k]; [lia|]. rewrite select_padded_cons. destruct i as [|i]; [reflexivity|]. cbn [nth]. apply IH. lia.
Qed.

Lemma select_padded_length (sq : list Q) k : length (select_padded sq k) = k.
Proof.
  unfold select_padded. rewrite app_length, repeat_length. pose proof (firstn_le_length k sq). lia.
Qed.

Lemma list_nth_split (l s_pre : list Q) a b s_post : l = s_pre ++ a :: b :: s_post ->
  a = nth (length s_pre) l 0 /\ b = nth (S (length s_pre)) l 0 /\ (S (length s_pre) < length l)%nat.
Proof.
  intros ->. split; [|split].
  - rewrite app_nth2 by lia. rewrite Nat.sub_diag. reflexivity.
  - rewrite app_nth2 by lia. replace (S (length s_pre) - length s_pre)%nat with 1%nat by lia. reflexivity.
  - rewrite app_length. cbn [length]. lia.
Qed.

Lemma sequence_nonincreasing sq n_cands k s_pre a b s_post : noninc0 sq = true ->
  rank_scores (SequenceBased sq) n_cands k = Some (s_pre ++ a :: b :: s_post) -> b <= a.
Proof.
  intros Hs. unfold rank_scores. intros [= H]. destruct (list_nth_split _ _ _ _ _ H) as (-> & -> & Hlen).
  rewrite select_padded_length in Hlen. rewrite !select_padded_nth by lia. apply noninc0_nth, Hs.
Qed.

(* ------------------------------------------------------------------ the score list has one score per rank *)
Lemma rank_scores_length s n_cands k sc : rank_scores s n_cands k = Some sc -> length sc = k.
Proof.
  destruct s; unfold rank_scores.
  - destruct (Nat.ltb n_cands k); [discriminate|]. intros [= <-]. apply select_padded_length.
  - intros [= <-]. rewrite map_length, seq_length. reflexivity.
  - intros [= <-]. rewrite map_length, seq_length. reflexivity.
  - intros [= <-]. rewrite map_length, seq_length. reflexivity.
  - intros [= <-]. rewrite map_length, seq_length. reflexivity.
  - intros [= <-]. apply select_padded_length.
Qed.

Lemma list_split2 (sc : list Q) m : (m + 2 <= length sc)%nat ->
  exists s_pre a b s_post, sc = s_pre ++ a :: b :: s_post /\ length s_pre = m.
Proof.
  intros H. pose proof (firstn_skipn m sc) as E. pose proof (skipn_length m sc) as Hl.
  destruct (skipn m sc) as [|a [|b rest]] eqn:Es; cbn [length] in Hl; try lia.
  exists (firstn m sc), a, b, rest. split; [symmetry; exact E|]. apply firstn_length_le. lia.
Qed.

(* ------------------------------------------------------------------ the positional rule, a move past any number of places *)
Definition scorer_nonincreasing (s : scorer) (n_cands : nat) : Prop :=
  forall k s_pre a b s_post, rank_scores s n_cands k = Some (s_pre ++ a :: b :: s_post) -> b <= a.

Theorem positional_move_up (s : scorer) (n_cands : nat) pre_b post_b (l1 l2 : list C) (w : C) (wgt : Q) (sc : list Q) :
  0 <= wgt -> ~ In w l2 -> scorer_nonincreasing s n_cands ->
  forall l3, rank_scores s n_cands (length l1 + length l2 + S (length l3)) = Some sc ->
  get_n_best Qle_bool (dconv (pos_img s n_cands) (pre_b ++ (plain_ballot (l1 ++ l2 ++ w :: l3), wgt) :: post_b)) 1 = [Cand (kc w)] ->
  get_n_best Qle_bool (dconv (pos_img s n_cands) (pre_b ++ (plain_ballot (l1 ++ w :: l2 ++ l3), wgt) :: post_b)) 1 = [Cand (kc w)].
Proof.
  intros Hw Hnin Hs. induction l2 as [|x l2 IH] using rev_ind; intros l3 Hsc Hwin; [exact Hwin|].
  assert (Hx : x <> w) by (intros ->; apply Hnin, in_or_app; right; left; reflexivity).
  assert (Hnin2 : ~ In w l2) by (intros H; apply Hnin, in_or_app; left; exact H).
  rewrite app_length in Hsc. cbn [length] in Hsc.
  (* one adjacent swap: ... l2 ++ [x] ++ w :: l3 -> ... l2 ++ w :: x :: l3 *)
  assert (Hstep : get_n_best Qle_bool (dconv (pos_img s n_cands) (pre_b ++ (plain_ballot ((l1 ++ l2) ++ w :: x :: l3), wgt) :: post_b)) 1 = [Cand (kc w)]).
  { assert (Hlen : length sc = (length l1 + (length l2 + 1) + S (length l3))%nat) by (apply (rank_scores_length _ _ _ _ Hsc)).
    destruct (list_split2 sc (length (l1 ++ l2))) as (s_pre & a & b & s_post & -> & Hpre); [rewrite app_length; lia|].
    apply (positional_instance s n_cands pre_b post_b (l1 ++ l2) l3 x w wgt s_pre s_post a b Hw Hx).
    - rewrite <- Hsc. f_equal. rewrite !app_length. cbn [length]. lia.
    - exact Hpre.
    - apply (Hs _ _ _ _ _ Hsc).
    - replace ((l1 ++ l2) ++ x :: w :: l3) with (l1 ++ (l2 ++ [x]) ++ w :: l3) by (repeat rewrite <- app_assoc; reflexivity).
      exact Hwin. }
  replace (l1 ++ w :: (l2 ++ [x]) ++ l3) with (l1 ++ w :: l2 ++ x :: l3) by (repeat rewrite <- app_assoc; reflexivity).
  apply (IH Hnin2 (x :: l3)).
  - rewrite <- Hsc. f_equal. cbn [length]. lia.
  - replace (l1 ++ l2 ++ w :: x :: l3) with ((l1 ++ l2) ++ w :: x :: l3) by (repeat rewrite <- app_assoc; reflexivity).
    exact Hstep.
Qed.
