(* The converters of Model/Convert2.v: totals over constituencies, sign inversion, grouping by party, ByConstituency and Chain.
   Additivity over the union of profiles, single-ballot images, conservation of weight; a Chain is the composition of its links,
   a Chain of accumulating converters is the accumulating converter of the composed image (hence additive). *)
From Coq Require Import ZArith QArith List Bool Lia Lqa Permutation.
From VL Require Import Prelude.Sx Prelude.PyDict Prelude.GDict Model.Convert Model.Convert2 Proofs.Convert_proofs.
Import ListNotations.
Open Scope Q_scope.

Notation value := (gget sx_eqb).
Notation gaddx := (gadd sx_eqb).
Notation coefx := (coef sx_eqb).
Notation gsumx := (@gsum sx).

Definition keys {V} (d : list (sx * V)) : list sx := map fst d.

(* ================= weighted sums over a dictionary ================= *)
(* sum of count * X(key) over the entries of a dictionary *)
Definition wsum {K} (X : K -> Q) (l : list (K * Q)) : Q := fold_right (fun kv acc => snd kv * X (fst kv) + acc) 0 l.

Lemma wsum_app {K} (X : K -> Q) a b : wsum X (a ++ b) == wsum X a + wsum X b.
Proof. induction a as [|x a IH]; simpl; [ring|]. rewrite IH. ring. Qed.

Lemma wsum_gadd X l k x : wsum X (gaddx l k x) == wsum X l + x * X k.
Proof.
  induction l as [|[k0 v] l IH]; simpl; [ring|].
  destruct (sx_eqb k k0) eqn:E; simpl.
  - apply sx_eqb_eq in E. subst k0. ring.
  - rewrite IH. ring.
Qed.

Lemma wsum_add_dict X a b : wsum X (add_dict a b) == wsum X a + wsum X b.
Proof.
  unfold add_dict. revert a. induction b as [|[k x] b IH]; intros a; simpl; [ring|].
  rewrite IH, wsum_gadd. simpl. ring.
Qed.

Lemma total_wsum {B} (image : B -> list (sx * Q)) votes k :
  total sx_eqb image votes k = wsum (fun b => coefx (image b) k) votes.
Proof. reflexivity. Qed.

Lemma coef_app a b k : coefx (a ++ b) k == coefx a k + coefx b k.
Proof. induction a as [|x a IH]; simpl; [ring|]. rewrite IH. ring. Qed.

Lemma coef_gadd l k0 x k : coefx (gaddx l k0 x) k == coefx l k + (if sx_eqb k k0 then x else 0).
Proof.
  induction l as [|[k1 v] l IH]; simpl; [ring|].
  destruct (sx_eqb k0 k1) eqn:E; simpl.
  - apply sx_eqb_eq in E. subst k1. destruct (sx_eqb k k0); ring.
  - rewrite IH. ring.
Qed.

Lemma coef_add_dict a b k : coefx (add_dict a b) k == coefx a k + coefx b k.
Proof.
  unfold add_dict. revert a. induction b as [|[k0 x] b IH]; intros a; simpl; [ring|].
  rewrite IH, coef_gadd. simpl. ring.
Qed.

(* the entries of a dictionary with distinct keys: the sum of the entries under a key is the entry *)
Lemma value_notin (d : fdict) k : ~ In k (keys d) -> value d k == 0.
Proof.
  induction d as [|[k0 v] d IH]; simpl; intros H; [reflexivity|].
  destruct (sx_eqb k k0) eqn:E.
  - apply sx_eqb_eq in E. subst. exfalso. apply H. left. reflexivity.
  - apply IH. intros H2. apply H. right. exact H2.
Qed.

Lemma coef_notin (d : fdict) k : ~ In k (keys d) -> coefx d k == 0.
Proof.
  induction d as [|[k0 v] d IH]; simpl; intros H; [reflexivity|].
  destruct (sx_eqb k k0) eqn:E.
  - apply sx_eqb_eq in E. subst. exfalso. apply H. left. reflexivity.
  - rewrite IH; [ring|]. intros H2. apply H. right. exact H2.
Qed.

Lemma coef_value (d : fdict) k : NoDup (keys d) -> coefx d k == value d k.
Proof.
  induction d as [|[k0 v] d IH]; simpl; intros H; [reflexivity|].
  inversion H as [|? ? Hn Hd]; subst.
  destruct (sx_eqb k k0) eqn:E.
  - apply sx_eqb_eq in E. subst. rewrite coef_notin by exact Hn. ring.
  - rewrite IH by exact Hd. ring.
Qed.

Lemma value_add_dict a b k : value (add_dict a b) k == value a k + coefx b k.
Proof.
  unfold add_dict. revert a. induction b as [|[k0 x] b IH]; intros a; simpl; [ring|].
  rewrite IH, (gget_gadd sx_eqb sx_eqb_spec). simpl. ring.
Qed.

Lemma gsum_add_dict a b : gsumx (add_dict a b) == gsumx a + gsumx b.
Proof.
  unfold add_dict. revert a. induction b as [|[k0 x] b IH]; intros a; simpl; [ring|].
  rewrite IH, (gsum_gadd sx_eqb). simpl. ring.
Qed.

(* ---- keys stay distinct *)
Lemma keys_gadd l k x : keys (gaddx l k x) = if existsb (sx_eqb k) (keys l) then keys l else keys l ++ [k].
Proof.
  induction l as [|[k0 v] l IH]; simpl; [reflexivity|].
  destruct (sx_eqb k k0) eqn:E; simpl; [reflexivity|].
  rewrite IH. destruct (existsb (sx_eqb k) (keys l)); reflexivity.
Qed.

Lemma existsb_In k (l : list sx) : existsb (sx_eqb k) l = true <-> In k l.
Proof.
  rewrite existsb_exists. split.
  - intros (x & Hx & E). apply sx_eqb_eq in E. subst. exact Hx.
  - intros H. exists k. split; [exact H|apply sx_eqb_refl].
Qed.

Lemma nodup_snoc (l : list sx) k : NoDup l -> ~ In k l -> NoDup (l ++ [k]).
Proof.
  intros H Hn. induction l as [|x l IH]; simpl; [constructor; [intros []|constructor]|].
  inversion H as [|? ? Hx Hl]; subst. constructor.
  - rewrite in_app_iff. intros [H1|[H1|[]]]; [exact (Hx H1)|]. subst. apply Hn. left. reflexivity.
  - apply IH; [exact Hl|]. intros H2. apply Hn. right. exact H2.
Qed.

Lemma nodup_gadd l k x : NoDup (keys l) -> NoDup (keys (gaddx l k x)).
Proof.
  intros H. rewrite keys_gadd. destruct (existsb (sx_eqb k) (keys l)) eqn:E; [exact H|].
  apply nodup_snoc; [exact H|]. intros Hi. apply existsb_In in Hi. congruence.
Qed.

Lemma nodup_add_dict a b : NoDup (keys a) -> NoDup (keys (add_dict a b)).
Proof.
  unfold add_dict. revert a. induction b as [|[k x] b IH]; intros a H; simpl; [exact H|].
  apply IH, nodup_gadd, H.
Qed.

Lemma nodup_conv_from {B} (image : B -> list (sx * Q)) votes : forall acc, NoDup (keys acc) ->
  NoDup (keys (fold_left (fun acc (bw : B * Q) =>
            fold_left (fun acc kc => gaddx acc (fst kc) (snd kc * snd bw)) (image (fst bw)) acc) votes acc)).
Proof.
  induction votes as [|[b w] votes IH]; intros acc H; simpl; [exact H|].
  apply IH. generalize (image b). intros img. revert acc H.
  induction img as [|[k c] img IHi]; intros acc H; simpl; [exact H|]. apply IHi, nodup_gadd, H.
Qed.

(* the result of an accumulating converter is a dictionary: every key once *)
Lemma nodup_conv {B} (image : B -> list (sx * Q)) votes : NoDup (keys (dconv image votes)).
Proof. apply nodup_conv_from. constructor. Qed.

(* ================= additivity over the union of two dictionaries =================
   the union of two profiles given as dictionaries is util.add_dict_to_dict (equal ballots pool their counts) *)
Theorem conv_add_dict (g : sx -> list (sx * Q)) (a b : fdict) k :
  value (dconv g (add_dict a b)) k == value (dconv g a) k + value (dconv g b) k.
Proof.
  unfold dconv. rewrite !(conv_value sx_eqb sx_eqb_spec), !total_wsum. apply wsum_add_dict.
Qed.

(* ================= VoteTotals / MergedDistributions ================= *)
(* the sum over all constituencies of the entries under key k *)
Definition nsum (n : ndict) (k : sx) : Q := fold_right (fun cd acc => coefx (snd cd) k + acc) 0 n.

Lemma vote_totals_from n : forall acc k,
  value (fold_left (fun acc (cd : sx * fdict) => add_dict acc (snd cd)) n acc) k == value acc k + nsum n k.
Proof.
  induction n as [|[c d] n IH]; intros acc k; simpl; [ring|].
  rewrite IH, value_add_dict. ring.
Qed.

Theorem vote_totals_value n k : value (vote_totals n) k == nsum n k.
Proof. unfold vote_totals. rewrite vote_totals_from. simpl. ring. Qed.

Lemma nsum_app a b k : nsum (a ++ b) k == nsum a k + nsum b k.
Proof. induction a as [|x a IH]; simpl; [ring|]. rewrite IH. ring. Qed.

(* the union of two sets of constituencies *)
Theorem vote_totals_additive a b k :
  value (vote_totals (a ++ b)) k == value (vote_totals a) k + value (vote_totals b) k.
Proof. rewrite !vote_totals_value. apply nsum_app. Qed.

Theorem vote_totals_single c d k : NoDup (keys d) -> value (vote_totals [(c, d)]) k == value d k.
Proof. intros H. rewrite vote_totals_value. simpl. rewrite coef_value by exact H. ring. Qed.

Theorem vote_totals_order_free a b k : Permutation a b -> value (vote_totals a) k == value (vote_totals b) k.
Proof.
  intros H. rewrite !vote_totals_value.
  induction H as [|x l l' _ IH|x y l|l l' l'' _ IH1 _ IH2]; simpl; try ring.
  - rewrite IH. ring.
  - rewrite IH1. exact IH2.
Qed.

Lemma vote_totals_gsum_from n : forall acc,
  gsumx (fold_left (fun acc (cd : sx * fdict) => add_dict acc (snd cd)) n acc) ==
  gsumx acc + fold_right (fun cd s => gsumx (snd cd) + s) 0 n.
Proof.
  induction n as [|[c d] n IH]; intros acc; simpl; [ring|]. rewrite IH, gsum_add_dict. ring.
Qed.

(* no vote lost or doubled: the grand total is the sum of the constituency totals *)
Theorem vote_totals_conserves n : gsumx (vote_totals n) == fold_right (fun cd s => gsumx (snd cd) + s) 0 n.
Proof. unfold vote_totals. rewrite vote_totals_gsum_from. simpl. ring. Qed.

Lemma nodup_vote_totals n : NoDup (keys (vote_totals n)).
Proof.
  unfold vote_totals. assert (H : NoDup (keys (@nil (sx * Q)))) by constructor. revert H. generalize (@nil (sx * Q)).
  induction n as [|[c d] n IH]; intros acc H; simpl; [exact H|]. apply IH, nodup_add_dict, H.
Qed.

(* ---- the union of two nested profiles over the same constituencies: n1[c] += n2[c] entry by entry *)
Fixpoint nupd (n : ndict) (c : sx) (d : fdict) : ndict :=
  match n with
  | [] => [(c, add_dict [] d)]
  | (c', d') :: t => if sx_eqb c c' then (c', add_dict d' d) :: t else (c', d') :: nupd t c d
  end.
Definition nmerge (n1 n2 : ndict) : ndict := fold_left (fun acc cd => nupd acc (fst cd) (snd cd)) n2 n1.

Lemma nsum_nupd n c d k : nsum (nupd n c d) k == nsum n k + coefx d k.
Proof.
  induction n as [|[c' d'] n IH]; simpl.
  - rewrite coef_add_dict. simpl. ring.
  - destruct (sx_eqb c c'); simpl; [rewrite coef_add_dict|rewrite IH]; ring.
Qed.

Lemma nsum_nmerge n1 n2 k : nsum (nmerge n1 n2) k == nsum n1 k + nsum n2 k.
Proof.
  unfold nmerge. revert n1. induction n2 as [|[c d] n2 IH]; intros n1; simpl; [ring|].
  rewrite IH, nsum_nupd. simpl. ring.
Qed.

Theorem vote_totals_merge n1 n2 k :
  value (vote_totals (nmerge n1 n2)) k == value (vote_totals n1) k + value (vote_totals n2) k.
Proof. rewrite !vote_totals_value. apply nsum_nmerge. Qed.

(* ================= ConstituencyTotals / PartyTotals ================= *)
Lemma dtotal_from d : forall x, fold_left (fun acc (kv : sx * Q) => acc + snd kv) d x == x + gsumx d.
Proof. induction d as [|[k v] d IH]; intros x; simpl; [ring|]. rewrite IH. simpl. ring. Qed.

Lemma dtotal_gsum d : dtotal d == gsumx d.
Proof. unfold dtotal. rewrite dtotal_from. ring. Qed.

Theorem const_totals_app a b : const_totals (a ++ b) = const_totals a ++ const_totals b.
Proof. apply map_app. Qed.

Theorem const_totals_keys n : keys (const_totals n) = keys n.
Proof. unfold const_totals, keys. rewrite map_map. reflexivity. Qed.

Theorem const_totals_single c d : const_totals [(c, d)] = [(c, dtotal d)].
Proof. reflexivity. Qed.

(* both aggregations keep the grand total *)
Theorem const_totals_conserves n : gsumx (const_totals n) == gsumx (vote_totals n).
Proof.
  rewrite vote_totals_conserves. induction n as [|[c d] n IH]; simpl; [reflexivity|].
  rewrite IH, dtotal_gsum. reflexivity.
Qed.

Lemma const_totals_nupd n c d c' :
  value (const_totals (nupd n c d)) c' == value (const_totals n) c' + (if sx_eqb c' c then gsumx d else 0).
Proof.
  unfold const_totals.
  induction n as [|[c0 d0] n IH]; cbn [nupd map fst snd gget].
  - destruct (sx_eqb c' c); [|ring]. rewrite dtotal_gsum, gsum_add_dict. cbn [gsum fold_right]. ring.
  - destruct (sx_eqb c c0) eqn:E; cbn [map fst snd gget].
    + apply sx_eqb_eq in E. subst c0. destruct (sx_eqb c' c); [|ring].
      rewrite !dtotal_gsum, gsum_add_dict. ring.
    + destruct (sx_eqb c' c0) eqn:E2; [|exact IH].
      assert (sx_eqb c' c = false) as ->; [|ring].
      apply not_true_iff_false. intros H. apply sx_eqb_eq in H. apply sx_eqb_eq in E2. subst.
      rewrite sx_eqb_refl in E. discriminate.
Qed.

Lemma const_totals_nmerge_coef n1 n2 c :
  value (const_totals (nmerge n1 n2)) c == value (const_totals n1) c + coefx (const_totals n2) c.
Proof.
  unfold nmerge. revert n1. induction n2 as [|[c0 d] n2 IH]; intros n1; simpl; [ring|].
  rewrite IH, const_totals_nupd. simpl. destruct (sx_eqb c c0); [rewrite dtotal_gsum|]; ring.
Qed.

Theorem const_totals_merge n1 n2 c : NoDup (keys n2) ->
  value (const_totals (nmerge n1 n2)) c == value (const_totals n1) c + value (const_totals n2) c.
Proof.
  intros H. rewrite const_totals_nmerge_coef, coef_value; [reflexivity|]. rewrite const_totals_keys. exact H.
Qed.

(* ================= InvertedSimpleVotes ================= *)
Theorem inv_simple_value d k : value (inv_simple d) k == - value d k.
Proof. induction d as [|[k0 v] d IH]; simpl; [reflexivity|]. destruct (sx_eqb k k0); [reflexivity|exact IH]. Qed.

Theorem inv_simple_keys d : keys (inv_simple d) = keys d.
Proof. unfold inv_simple, keys. rewrite map_map. reflexivity. Qed.

Theorem inv_simple_involutive d : inv_simple (inv_simple d) = d.
Proof.
  induction d as [|[k [n p]] d IH]; simpl; [reflexivity|]. rewrite IH. unfold Qopp. simpl. rewrite Z.opp_involutive. reflexivity.
Qed.

Lemma inv_simple_coef d k : coefx (inv_simple d) k == - coefx d k.
Proof. induction d as [|[k0 v] d IH]; simpl; [reflexivity|]. rewrite IH. destruct (sx_eqb k k0); ring. Qed.

(* the inversion of the union is the union of the inversions *)
Theorem inv_simple_additive a b k : NoDup (keys b) ->
  value (inv_simple (add_dict a b)) k == value (inv_simple a) k + value (inv_simple b) k.
Proof.
  intros H. rewrite !inv_simple_value, value_add_dict, coef_value by exact H. ring.
Qed.

Theorem inv_simple_total d : gsumx (inv_simple d) == - gsumx d.
Proof. induction d as [|[k v] d IH]; simpl; [reflexivity|]. rewrite IH. ring. Qed.

(* ================= GroupVotesByParty ================= *)
Definition ikeys (n : ndict) : list sx := flat_map (fun pd => keys (snd pd)) n.

Lemma img_party_key pm c : img_party pm c = match party_key pm c with Some q => [(q, 1)] | None => [] end.
Proof. unfold img_party, party_key. destruct (dget pm c) as [[|p|p]|]; reflexivity. Qed.

Lemma gsum_gset_fresh (d : fdict) k x : ~ In k (keys d) -> gsumx (gset sx_eqb d k x) == gsumx d + x.
Proof.
  induction d as [|[k0 v] d IH]; simpl; intros H; [ring|].
  destruct (sx_eqb k k0) eqn:E.
  - apply sx_eqb_eq in E. subst. exfalso. apply H. left. reflexivity.
  - simpl. rewrite IH; [ring|]. intros H2. apply H. right. exact H2.
Qed.

Lemma keys_gset (d : fdict) k x k' : In k' (keys (gset sx_eqb d k x)) -> k' = k \/ In k' (keys d).
Proof.
  induction d as [|[k0 v] d IH]; simpl.
  - intros [H|[]]. left. symmetry. exact H.
  - destruct (sx_eqb k k0); simpl; [intros H; right; exact H|].
    intros [H|H]; [right; left; exact H|]. destruct (IH H) as [H2|H2]; [left; exact H2|right; right; exact H2].
Qed.

Lemma ikeys_nset n p k x k' : In k' (ikeys (nset n p k x)) -> k' = k \/ In k' (ikeys n).
Proof.
  unfold ikeys. induction n as [|[p0 d] n IH]; cbn [nset flat_map snd].
  - cbn [keys map fst app]. intros [H|[]]. left. symmetry. exact H.
  - destruct (sx_eqb p p0); cbn [flat_map snd]; rewrite !in_app_iff.
    + intros [H|H]; [|right; right; exact H]. destruct (keys_gset _ _ _ _ H) as [H2|H2]; [left; exact H2|right; left; exact H2].
    + intros [H|H]; [right; left; exact H|]. destruct (IH H) as [H2|H2]; [left; exact H2|right; right; exact H2].
Qed.

Lemma const_totals_nset n p k x p' : ~ In k (ikeys n) ->
  value (const_totals (nset n p k x)) p' == value (const_totals n) p' + (if sx_eqb p' p then x else 0).
Proof.
  unfold const_totals, ikeys.
  induction n as [|[p0 d] n IH]; cbn [nset map fst snd gget flat_map]; intros Hf.
  - destruct (sx_eqb p' p); [|ring]. rewrite dtotal_gsum. cbn [gsum fold_right snd]. ring.
  - rewrite in_app_iff in Hf. destruct (sx_eqb p p0) eqn:E; cbn [map fst snd gget].
    + apply sx_eqb_eq in E. subst p0. destruct (sx_eqb p' p); [|ring].
      rewrite !dtotal_gsum, gsum_gset_fresh; [ring|]. intros H. apply Hf. left. exact H.
    + destruct (sx_eqb p' p0) eqn:E2.
      * assert (sx_eqb p' p = false) as ->; [|ring].
        apply not_true_iff_false. intros H. apply sx_eqb_eq in H. apply sx_eqb_eq in E2. subst.
        rewrite sx_eqb_refl in E. discriminate.
      * apply IH. intros H. apply Hf. right. exact H.
Qed.

Lemma kc_inj c c' : kc c = kc c' -> c = c'.
Proof. unfold kc. intros H. injection H. auto. Qed.

Lemma group_from pm votes p : forall acc,
  NoDup (map fst votes) -> (forall c, In c (map fst votes) -> ~ In (kc c) (ikeys acc)) ->
  value (const_totals (fold_left (fun acc (cw : C * Q) => match party_key pm (fst cw) with
                                                          | Some q => nset acc q (kc (fst cw)) (snd cw)
                                                          | None => acc end) votes acc)) p
  == value (const_totals acc) p + total sx_eqb (img_party pm) votes p.
Proof.
  induction votes as [|[c w] votes IH]; intros acc Hnd Hfresh; cbn [fold_left fst snd]; [simpl; ring|].
  inversion Hnd as [|? ? Hc Hnd']; subst.
  cbn [total fold_right fst snd]. fold (total sx_eqb (img_party pm) votes p).
  rewrite (img_party_key pm c). destruct (party_key pm c) as [q|].
  - rewrite IH; [| exact Hnd' |].
    + rewrite const_totals_nset by (apply Hfresh; left; reflexivity). simpl. destruct (sx_eqb p q); ring.
    + intros c' Hc' Hin. destruct (ikeys_nset _ _ _ _ _ Hin) as [E|Hin2].
      * apply kc_inj in E. subst c'. exact (Hc Hc').
      * exact (Hfresh c' (or_intror Hc') Hin2).
  - rewrite IH; [simpl; ring|exact Hnd'|]. intros c' Hc'. apply Hfresh. right. exact Hc'.
Qed.

(* PartyTotals after GroupVotesByParty is IndividualToPartyVotes: grouping neither loses nor doubles a vote *)
Theorem group_party_totals pm votes p : NoDup (map fst votes) ->
  value (const_totals (group_by_party pm votes)) p == value (dconv (img_party pm) votes) p.
Proof.
  intros H. unfold group_by_party, dconv. rewrite (conv_value sx_eqb sx_eqb_spec), group_from; [simpl; ring|exact H|].
  intros c _ [].
Qed.

Theorem group_single pm c w :
  group_by_party pm [(c, w)] = match party_key pm c with Some p => [(p, [(kc c, w)])] | None => [] end.
Proof. unfold group_by_party. simpl. destruct (party_key pm c); reflexivity. Qed.

(* ================= ByConstituency ================= *)
Lemma by_flat_inv f c d t v : by_flat f ((c, d) :: t) = COk v ->
  exists o r, f d = COk (VF o) /\ by_flat f t = COk (VN r) /\ v = VN ((c, o) :: r).
Proof.
  simpl. destruct (f d) as [[o| | |]| |]; try discriminate.
  destruct (by_flat f t) as [[|r| |]| |]; try discriminate.
  intros H. injection H as <-. exists o, r. repeat split; reflexivity.
Qed.

(* every constituency is converted on its own: the union of two sets of constituencies converts to the union *)
Theorem by_flat_app f n1 n2 r1 r2 :
  by_flat f n1 = COk (VN r1) -> by_flat f n2 = COk (VN r2) -> by_flat f (n1 ++ n2) = COk (VN (r1 ++ r2)).
Proof.
  revert r1. induction n1 as [|[c d] n1 IH]; intros r1 H1 H2.
  - simpl in H1. injection H1 as <-. exact H2.
  - destruct (by_flat_inv _ _ _ _ _ H1) as (o & r & Hf & Hr & E). injection E as ->.
    simpl. rewrite Hf, (IH r Hr H2). reflexivity.
Qed.

Theorem by_flat_image f n r : by_flat f n = COk (VN r) ->
  Forall2 (fun cd co => fst cd = fst co /\ f (snd cd) = COk (VF (snd co))) n r.
Proof.
  revert r. induction n as [|[c d] n IH]; intros r H.
  - simpl in H. injection H as <-. constructor.
  - destruct (by_flat_inv _ _ _ _ _ H) as (o & r' & Hf & Hr & E). injection E as ->.
    constructor; [split; [reflexivity|exact Hf]|apply IH, Hr].
Qed.

(* ================= Chain ================= *)
Definition bind (r : cres) (f : vdata -> cres) : cres := match r with COk v => f v | e => e end.

Lemma run_chain_nil v : run_code (KChain []) v = COk v.
Proof. destruct v; reflexivity. Qed.

Lemma run_chain_cons c l v : run_code (KChain (c :: l)) v = bind (run_code c v) (run_code (KChain l)).
Proof.
  destruct v; simpl; (destruct (run_code c _) as [v'| |]; [destruct v'; reflexivity|reflexivity|reflexivity]).
Qed.

(* the image of a Chain is the composition of the images of its links, left to right *)
Theorem run_chain_app l1 l2 v : run_code (KChain (l1 ++ l2)) v = bind (run_code (KChain l1) v) (run_code (KChain l2)).
Proof.
  revert v. induction l1 as [|c l1 IH]; intros v.
  - rewrite run_chain_nil. reflexivity.
  - change ((c :: l1) ++ l2) with (c :: (l1 ++ l2)). rewrite !run_chain_cons.
    destruct (run_code c v) as [v'| |]; simpl; [apply IH|reflexivity|reflexivity].
Qed.

Theorem run_chain_single c v : run_code (KChain [c]) v = run_code c v.
Proof. rewrite run_chain_cons. destruct (run_code c v) as [v'| |]; simpl; [apply run_chain_nil|reflexivity|reflexivity]. Qed.

(* a Chain inside a Chain is the longer Chain *)
Theorem run_chain_nested l1 l2 v : run_code (KChain (KChain l1 :: l2)) v = run_code (KChain (l1 ++ l2)) v.
Proof. rewrite run_chain_cons, run_chain_app. reflexivity. Qed.

(* ---- accumulating converters compose: the converter of the composed image *)
Definition kern := sx -> list (sx * Q).
Definition compose {B} (f : B -> list (sx * Q)) (g : kern) : B -> list (sx * Q) :=
  fun b => flat_map (fun kc => map (fun kc2 => (fst kc2, snd kc2 * snd kc)) (g (fst kc))) (f b).

Lemma wsum_ext {K} (X Y : K -> Q) l : (forall b, X b == Y b) -> wsum X l == wsum Y l.
Proof. intros H. induction l as [|x l IH]; simpl; [reflexivity|]. rewrite IH, H. reflexivity. Qed.

Lemma wsum_image X (img : list (sx * Q)) w : forall acc,
  wsum X (fold_left (fun acc kc => gaddx acc (fst kc) (snd kc * w)) img acc) == wsum X acc + w * wsum X img.
Proof.
  induction img as [|[k c] img IH]; intros acc; simpl; [ring|]. rewrite IH, wsum_gadd. simpl. ring.
Qed.

Lemma wsum_conv {B} X (f : B -> list (sx * Q)) votes : wsum X (dconv f votes) == wsum (fun b => wsum X (f b)) votes.
Proof.
  unfold dconv, conv.
  assert (H : forall acc, wsum X (fold_left (fun acc (bw : B * Q) =>
               fold_left (fun acc kc => gaddx acc (fst kc) (snd kc * snd bw)) (f (fst bw)) acc) votes acc)
             == wsum X acc + wsum (fun b => wsum X (f b)) votes).
  { induction votes as [|[b w] votes IH]; intros acc; simpl; [ring|]. rewrite IH, wsum_image. ring. }
  rewrite H. simpl. ring.
Qed.

Lemma coef_scale (l : list (sx * Q)) c k : coefx (map (fun kc2 => (fst kc2, snd kc2 * c)) l) k == c * coefx l k.
Proof. induction l as [|[k0 v] l IH]; simpl; [ring|]. rewrite IH. destruct (sx_eqb k k0); ring. Qed.

Lemma coef_compose {B} (f : B -> list (sx * Q)) (g : kern) b k :
  coefx (compose f g b) k == wsum (fun k' => coefx (g k') k) (f b).
Proof.
  unfold compose. induction (f b) as [|[k' c] l IH]; simpl; [reflexivity|].
  rewrite coef_app, coef_scale, IH. ring.
Qed.

Theorem conv_compose {B} (f : B -> list (sx * Q)) (g : kern) votes k :
  value (dconv g (dconv f votes)) k == value (dconv (compose f g) votes) k.
Proof.
  unfold dconv at 1 3. rewrite !(conv_value sx_eqb sx_eqb_spec), !total_wsum.
  fold (dconv f votes). rewrite wsum_conv. apply wsum_ext. intros b. symmetry. apply coef_compose.
Qed.

(* ---- dictionaries with the same keys in the same order and equal counts *)
Definition deq (a b : fdict) : Prop := Forall2 (fun x y => fst x = fst y /\ snd x == snd y) a b.

Lemma deq_refl a : deq a a.
Proof. induction a; constructor; [split; reflexivity|assumption]. Qed.

Lemma deq_trans a b c : deq a b -> deq b c -> deq a c.
Proof.
  intros H. revert c. induction H as [|x y a b [H1 H2] _ IH]; intros c Hc; inversion Hc as [|? z ? c' [H3 H4] Hc']; subst; constructor.
  - split; [congruence|rewrite H2; exact H4].
  - apply IH, Hc'.
Qed.

Lemma deq_keys a b : deq a b -> keys a = keys b.
Proof. induction 1 as [|x y a b [H1 _] _ IH]; simpl; [reflexivity|]. rewrite H1, IH. reflexivity. Qed.

Lemma deq_value a b k : deq a b -> value a k == value b k.
Proof.
  induction 1 as [|[k1 v1] [k2 v2] a b [H1 H2] _ IH]; simpl in *; [reflexivity|]. subst k2.
  destruct (sx_eqb k k1); [exact H2|exact IH].
Qed.

Lemma gadd_deq a a' k x x' : deq a a' -> x == x' -> deq (gaddx a k x) (gaddx a' k x').
Proof.
  intros H Hx. induction H as [|[k1 v1] [k2 v2] a b [H1 H2] Hab IH]; simpl in *.
  - constructor; [split; [reflexivity|exact Hx]|constructor].
  - subst k2. destruct (sx_eqb k k1); constructor; simpl; try (split; [reflexivity|]); try assumption.
    rewrite H2, Hx. reflexivity.
Qed.

Lemma conv_deq (g : kern) a a' : deq a a' -> deq (dconv g a) (dconv g a').
Proof.
  unfold dconv, conv. intros H.
  assert (G : forall acc acc', deq acc acc' ->
    deq (fold_left (fun acc (bw : sx * Q) => fold_left (fun acc kc => gaddx acc (fst kc) (snd kc * snd bw)) (g (fst bw)) acc) a acc)
        (fold_left (fun acc (bw : sx * Q) => fold_left (fun acc kc => gaddx acc (fst kc) (snd kc * snd bw)) (g (fst bw)) acc) a' acc')).
  { induction H as [|[k1 w1] [k2 w2] a b [H1 H2] _ IH]; intros acc acc' Hacc; simpl in *; [exact Hacc|].
    subst k2. apply IH. revert acc acc' Hacc. induction (g k1) as [|[k c] img IHi]; intros acc acc' Hacc; simpl; [exact Hacc|].
    apply IHi, gadd_deq; [exact Hacc|]. rewrite H2. reflexivity. }
  apply G. constructor.
Qed.

(* ---- the converters that are accumulating folds over a per-ballot image that does not depend on the profile *)
Definition dec_kernel {B} (dec : sx -> option B) (img : B -> list (sx * Q)) : kern :=
  fun key => match dec key with Some b => img b | None => [] end.

Definition kind_kernel (k : ckind) : option kern :=
  match k with
  | KApprovalSimple sp => Some (dec_kernel key_approval (img_approval_simple sp))
  | KFirst => Some (dec_kernel key_ranked img_first)
  | KFirstN n => Some (dec_kernel key_ranked (fun b => match img_first_n n b with Some l => l | None => [] end))
  | KPresence => Some (dec_kernel key_ranked img_presence)
  | KRankedApproval => Some (dec_kernel key_ranked img_ranked_approval)
  | KScoreApproval th => Some (dec_kernel key_score (img_score_approval th))
  | KParty pm => Some (dec_kernel key_pos (img_party pm))
  | KSubSimple su => Some (dec_kernel key_pos (img_sub_simple su))
  | KSubApproval su => Some (dec_kernel key_approval (img_sub_approval su))
  | KSubRanked su => Some (dec_kernel key_ranked (img_sub_ranked su))
  | KSubScore su => Some (dec_kernel key_score (img_sub_score su))
  | KPositional _ | KCondorcet _ | KScoreRanked _ | KInvApproval => None      (* the image reads the candidate set of the profile *)
  end.

Lemma conv_decode {B} (dec : sx -> option B) (img : B -> list (sx * Q)) d v :
  decode_all dec d = Some v -> dconv img v = dconv (dec_kernel dec img) d.
Proof.
  unfold dconv, conv. generalize (@nil (sx * Q)). revert v.
  induction d as [|[k w] d IH]; intros v acc H; unfold decode_all in *; cbn [opt_map fst snd] in H.
  - injection H as <-. reflexivity.
  - destruct (dec k) as [b|] eqn:E; [|discriminate].
    destruct (opt_map _ d) as [t|] eqn:E2; [|discriminate]. injection H as <-.
    cbn [fold_left fst snd]. unfold dec_kernel at 2. rewrite E. apply IH. reflexivity.
Qed.

Lemma run_kind_linear k g d v : kind_kernel k = Some g -> run_kind k d = COk v -> v = VF (dconv g d).
Proof.
  destruct k; simpl; intros Hg; try discriminate; injection Hg as <-; unfold with_votes, ok_f;
    match goal with |- context [decode_all ?dec d] => destruct (decode_all dec d) as [vs|] eqn:E; [|discriminate] end.
  - intros H. injection H as <-. rewrite (conv_decode _ _ _ _ E). reflexivity.
  - intros H. injection H as <-. rewrite (conv_decode _ _ _ _ E). reflexivity.
  - unfold oconv. destruct (forallb _ vs); [|discriminate]. intros H. injection H as <-. rewrite (conv_decode _ _ _ _ E). reflexivity.
  - intros H. injection H as <-. rewrite (conv_decode _ _ _ _ E). reflexivity.
  - intros H. injection H as <-. rewrite (conv_decode _ _ _ _ E). reflexivity.
  - intros H. injection H as <-. rewrite (conv_decode _ _ _ _ E). reflexivity.
  - intros H. injection H as <-. rewrite (conv_decode _ _ _ _ E). reflexivity.
  - intros H. injection H as <-. rewrite (conv_decode _ _ _ _ E). reflexivity.
  - intros H. injection H as <-. rewrite (conv_decode _ _ _ _ E). reflexivity.
  - intros H. injection H as <-. rewrite (conv_decode _ _ _ _ E). reflexivity.
  - intros H. injection H as <-. rewrite (conv_decode _ _ _ _ E). reflexivity.
Qed.

(* InvertedSimpleVotes as an accumulating converter: every ballot keeps its key with the coefficient -1 *)
Definition kinv : kern := fun key => [(key, - (1))].

Lemma gadd_fresh (l : fdict) k x : ~ In k (keys l) -> gaddx l k x = l ++ [(k, x)].
Proof.
  induction l as [|[k0 v] l IH]; simpl; intros H; [reflexivity|].
  destruct (sx_eqb k k0) eqn:E.
  - apply sx_eqb_eq in E. subst. exfalso. apply H. left. reflexivity.
  - rewrite IH; [reflexivity|]. intros H2. apply H. right. exact H2.
Qed.

Lemma conv_kinv_from d : forall acc, NoDup (keys acc ++ keys d) ->
  fold_left (fun acc (bw : sx * Q) => fold_left (fun acc kc => gaddx acc (fst kc) (snd kc * snd bw)) (kinv (fst bw)) acc) d acc
  = acc ++ map (fun kv => (fst kv, - (1) * snd kv)) d.
Proof.
  induction d as [|[k w] d IH]; intros acc H; simpl; [rewrite app_nil_r; reflexivity|].
  rewrite gadd_fresh.
  - rewrite IH; [rewrite <- app_assoc; reflexivity|].
    unfold keys in *. rewrite map_app. simpl. rewrite <- app_assoc. exact H.
  - intros Hin. apply NoDup_remove_2 in H. apply H. apply in_or_app. left. exact Hin.
Qed.

Lemma inv_simple_kernel d : NoDup (keys d) -> deq (inv_simple d) (dconv kinv d).
Proof.
  intros H. unfold dconv, conv. rewrite conv_kinv_from by exact H. simpl.
  unfold inv_simple. clear H. induction d as [|[k w] d IH]; simpl; constructor; [|exact IH].
  split; [reflexivity|]. simpl. ring.
Qed.

(* ---- a Chain of such links *)
Definition seq_conv (gs : list kern) (d : fdict) : fdict := fold_left (fun d g => dconv g d) gs d.

Lemma seq_conv_deq gs : forall a b, deq a b -> deq (seq_conv gs a) (seq_conv gs b).
Proof. induction gs as [|g gs IH]; intros a b H; simpl; [exact H|]. apply IH, conv_deq, H. Qed.

Lemma seq_conv_app g1 g2 d : seq_conv (g1 ++ g2) d = seq_conv g2 (seq_conv g1 d).
Proof. apply fold_left_app. Qed.

Lemma nodup_seq_conv gs : forall d, NoDup (keys d) -> NoDup (keys (seq_conv gs d)).
Proof. induction gs as [|g gs IH]; intros d H; simpl; [exact H|]. apply IH, nodup_conv. Qed.

Fixpoint kernels (c : ccode) : option (list kern) :=
  match c with
  | KConv k => match kind_kernel k with Some g => Some [g] | None => None end
  | KInvSimple => Some [kinv]
  | KChain l =>
      (fix go (l : list ccode) : option (list kern) :=
         match l with
         | [] => Some []
         | c' :: t => match kernels c', go t with Some a, Some b => Some (a ++ b) | _, _ => None end
         end) l
  | _ => None
  end.

Lemma kernels_chain_cons c l :
  kernels (KChain (c :: l)) = match kernels c, kernels (KChain l) with Some a, Some b => Some (a ++ b) | _, _ => None end.
Proof. reflexivity. Qed.

(* a Chain built from additive links computes, key by key, the sequence of the accumulating converters of its links *)
Lemma chain_linear : forall c gs d v, kernels c = Some gs -> NoDup (keys d) -> run_code c (VF d) = COk v ->
  exists out, v = VF out /\ deq out (seq_conv gs d).
Proof.
  fix IH 1. intros c. destruct c as [k| |m0 dz|dv0 m0 dz| | |pm0|pm0|am0| |c0|l]; intros gs d v Hk Hd Hr; try discriminate.
  - simpl in Hk. destruct (kind_kernel k) as [g|] eqn:Eg; [|discriminate]. injection Hk as <-.
    simpl in Hr. rewrite (run_kind_linear k g d v Eg Hr). eexists; split; [reflexivity|apply deq_refl].
  - simpl in Hk. injection Hk as <-. simpl in Hr. unfold ok_f in Hr. injection Hr as <-.
    eexists; split; [reflexivity|]. simpl. apply inv_simple_kernel, Hd.
  - revert gs d v Hk Hd Hr. induction l as [|c l IHl]; intros gs d v Hk Hd Hr.
    + simpl in Hk. injection Hk as <-. rewrite run_chain_nil in Hr. injection Hr as <-.
      eexists; split; [reflexivity|apply deq_refl].
    + rewrite kernels_chain_cons in Hk.
      destruct (kernels c) as [ga|] eqn:Ea; [|discriminate].
      destruct (kernels (KChain l)) as [gb|] eqn:Eb; [|discriminate]. injection Hk as <-.
      rewrite run_chain_cons in Hr. destruct (run_code c (VF d)) as [v1| |] eqn:E1; try discriminate. simpl in Hr.
      destruct (IH c ga d v1 Ea Hd E1) as (mid & -> & Hmid).
      assert (NoDup (keys mid)) as Hnd by (rewrite (deq_keys _ _ Hmid); apply nodup_seq_conv, Hd).
      destruct (IHl gb mid v eq_refl Hnd Hr) as (out & -> & Hout).
      eexists; split; [reflexivity|]. rewrite seq_conv_app.
      apply (deq_trans _ _ _ Hout), seq_conv_deq, Hmid.
Qed.

Definition kid : kern := fun key => [(key, 1)].
Fixpoint compose_all (gs : list kern) : kern :=
  match gs with [] => kid | g :: t => compose g (compose_all t) end.

Lemma conv_kid d k : NoDup (keys d) -> value (dconv kid d) k == value d k.
Proof.
  intros H. unfold dconv. rewrite (conv_value sx_eqb sx_eqb_spec), total_wsum, <- coef_value by exact H.
  clear H. induction d as [|[k0 w] d IH]; simpl; [reflexivity|]. rewrite IH. destruct (sx_eqb k k0); ring.
Qed.

(* ... which is the one accumulating converter of the composed image *)
Lemma seq_conv_value gs : forall d k, NoDup (keys d) -> value (seq_conv gs d) k == value (dconv (compose_all gs) d) k.
Proof.
  induction gs as [|g gs IH]; intros d k H; simpl.
  - symmetry. apply conv_kid, H.
  - rewrite IH by apply nodup_conv. apply conv_compose.
Qed.

Theorem chain_image c gs d out k : kernels c = Some gs -> NoDup (keys d) -> run_code c (VF d) = COk (VF out) ->
  value out k == value (dconv (compose_all gs) d) k.
Proof.
  intros Hk Hd Hr. destruct (chain_linear c gs d _ Hk Hd Hr) as (o & E & Ho). injection E as <-.
  rewrite (deq_value _ _ k Ho). apply seq_conv_value, Hd.
Qed.

(* additivity is inherited: the conversion of the union of two profiles is the sum of the conversions *)
Theorem chain_additive c gs a b oa ob oab k : kernels c = Some gs -> NoDup (keys a) -> NoDup (keys b) ->
  run_code c (VF a) = COk (VF oa) -> run_code c (VF b) = COk (VF ob) -> run_code c (VF (add_dict a b)) = COk (VF oab) ->
  value oab k == value oa k + value ob k.
Proof.
  intros Hk Ha Hb Ra Rb Rab.
  rewrite (chain_image c gs _ _ k Hk (nodup_add_dict a b Ha) Rab), (chain_image c gs _ _ k Hk Ha Ra), (chain_image c gs _ _ k Hk Hb Rb).
  apply conv_add_dict.
Qed.

(* RoundedVotes in a Chain breaks it: the hypothesis [kernels c = Some gs] cannot be dropped *)
Lemma chain_rounded_not_additive :
  exists c a b oa ob oab k,
    NoDup (keys a) /\ NoDup (keys b) /\
    run_code c (VF a) = COk (VF oa) /\ run_code c (VF b) = COk (VF ob) /\ run_code c (VF (add_dict a b)) = COk (VF oab) /\
    ~ value oab k == value oa k + value ob k.
Proof.
  exists (KChain [KConv (KApprovalSimple true); KRounded RHalfUp 0]),
         [(L [A 1; A 2], 1)], [(L [A 1; A 2], 1); (L [A 2], 1)],
         [(A 1, 1); (A 2, 1)], [(A 1, 1); (A 2, 2)], [(A 1, 1); (A 2, 2)], (A 1).
  repeat split.
  - repeat constructor; simpl; tauto.
  - repeat constructor; simpl; intuition discriminate.
  - vm_compute. discriminate.
Qed.

(* after the fix: commit for C13-approval-split-empty an empty approval ballot contributes nothing (it used to end in ZeroDivisionError) *)
Lemma approval_split_empty_ok :
  run_code (KConv (KApprovalSimple true)) (VF [(L [], 3); (L [A 1; A 2], 1)]) = COk (VF [(A 1, 1 # 2); (A 2, 1 # 2)]) /\
  run_code (KChain [KConv KInvApproval; KConv (KApprovalSimple true)]) (VF [(L [A 1; A 2], 2); (L [A 1], 1)]) = COk (VF [(A 2, 1)]).
Proof. split; vm_compute; reflexivity. Qed.

(* ================= SelectionToDistribution ================= *)
Lemma value_gset (d : fdict) k x k' : value (gset sx_eqb d k x) k' == if sx_eqb k' k then x else value d k'.
Proof.
  induction d as [|[k0 v] d IH]; simpl.
  - destruct (sx_eqb k' k); reflexivity.
  - destruct (sx_eqb k k0) eqn:E; simpl.
    + apply sx_eqb_eq in E. subst k0. destruct (sx_eqb k' k); reflexivity.
    + destruct (sx_eqb k' k0) eqn:E2; [|exact IH].
      assert (sx_eqb k' k = false) as ->; [|reflexivity].
      apply not_true_iff_false. intros H. apply sx_eqb_eq in H. apply sx_eqb_eq in E2. subst.
      rewrite sx_eqb_refl in E. discriminate.
Qed.

(* every elected candidate gets the amount once, however often it is listed *)
Theorem sel_to_dist_value am l c : value (sel_to_dist am l) c == if existsb (sx_eqb c) l then am else 0.
Proof.
  unfold sel_to_dist.
  assert (H : forall acc, value (fold_left (fun acc c0 => gset sx_eqb acc c0 am) l acc) c
                          == if existsb (sx_eqb c) l then am else value acc c).
  { induction l as [|c0 l IH]; intros acc; simpl; [reflexivity|].
    rewrite IH. destruct (existsb (sx_eqb c) l); [rewrite orb_true_r; reflexivity|].
    rewrite orb_false_r, value_gset. reflexivity. }
  apply H.
Qed.
