(* Copeland is Smith-efficient (C05): a sole Copeland winner (first-order scores) lies in the Smith set.
   Same counting argument as Smith_proofs.score_gap, for the strict win relation of the dictionary itself. *)
From Coq Require Import ZArith List Bool Lia Arith Permutation.
From VL Require Import Prelude.PyDict Model.GetNBest Model.Condorcet Proofs.Dict_proofs Proofs.GetNBest_proofs
     Proofs.Condorcet_proofs Proofs.Smith_proofs Proofs.CopelandMono_proofs.
Import ListNotations.
Open Scope Z_scope.

Section SC.
  Variable v : pvotes.
  Hypothesis Hnd : NoDup (map fst v).
  Hypothesis Hnn : forall p n, In (p, n) v -> 0 <= n.
  Hypothesis H2 : (2 <= length (candidates v))%nat.
  Notation cs := (candidates v).
  Notation W := (pairwise_wins v false).
  Variable D : list C.
  Hypothesis Hdom : forall a b, In a D -> In b cs -> ~ In b D -> beats v a b.

  Lemma beats_cands a b : beats v a b -> In a cs /\ In b cs /\ a <> b.
  Proof.
    intros H. apply (opponents_spec v Hnd Hnn) in H. apply (opponents_incl v Hnd Hnn) in H. destruct H as (Hb & Hne & Ha).
    split; [exact Ha|]. split; [exact Hb|]. congruence.
  Qed.

  Lemma strict_gap a b : In a D -> In a cs -> In b cs -> ~ In b D ->
    nwins v b - nlosses v b + 2 <= nwins v a - nlosses v a.
  Proof.
    intros HaD Ha Hb HbD. unfold nwins, nlosses.
    set (Fa := filter (fun p : pair => ceqb (fst p) a) W). set (La := filter (fun p : pair => ceqb (snd p) a) W).
    set (Fb := filter (fun p : pair => ceqb (fst p) b) W). set (Lb := filter (fun p : pair => ceqb (snd p) b) W).
    pose proof (wins_NoDup v Hnd) as HW.
    assert (E1 : (length (outs v D) <= length Fa)%nat).
    { rewrite <- (map_length (fun y => (a, y)) (outs v D)). apply NoDup_incl_length.
      - apply map_inj_nodup; [intros x y H; congruence|apply (outs_nodup v)].
      - intros p Hp. apply in_map_iff in Hp. destruct Hp as (y & <- & Hy). apply (outs_iff v D) in Hy. destruct Hy as [Hy HyD].
        apply filter_In. split; [apply (wins_iff v Hnd Hnn); apply Hdom; assumption|simpl; apply ceqb_refl]. }
    assert (E2 : (S (length La) <= length (ins v D))%nat).
    { assert (G : (length (a :: map fst La) <= length (ins v D))%nat); [|simpl in G; rewrite map_length in G; exact G]. apply NoDup_incl_length.
      - constructor; [|apply filter_pairs_snd_nodup, HW].
        intros Hin. apply in_map_iff in Hin. destruct Hin as ([x y] & Hx & Hin). simpl in Hx. subst x.
        apply filter_In in Hin. destruct Hin as [Hin Hc]. simpl in Hc. apply ceqb_eq in Hc. subst y.
        apply (wins_iff v Hnd Hnn) in Hin. unfold beats in Hin. lia.
      - intros x [<-|Hx]; [apply (ins_iff v D); tauto|]. apply in_map_iff in Hx. destruct Hx as ([x' y] & Hf & Hin). simpl in Hf. subst x'.
        apply filter_In in Hin. destruct Hin as [Hin Hc]. simpl in Hc. apply ceqb_eq in Hc. subst y.
        apply (wins_iff v Hnd Hnn) in Hin. destruct (beats_cands _ _ Hin) as (Hx & _ & _).
        apply (ins_iff v D). split; [exact Hx|]. destruct (in_dec Pos.eq_dec x D) as [Hi|Hn]; [exact Hi|].
        exfalso. assert (Hax : beats v a x) by (apply Hdom; assumption). unfold beats in *. lia. }
    assert (E3 : (S (length Fb) <= length (outs v D))%nat).
    { assert (G : (length (b :: map snd Fb) <= length (outs v D))%nat); [|simpl in G; rewrite map_length in G; exact G]. apply NoDup_incl_length.
      - constructor; [|apply filter_pairs_fst_nodup, HW].
        intros Hin. apply in_map_iff in Hin. destruct Hin as ([x y] & Hy & Hin). simpl in Hy. subst y.
        apply filter_In in Hin. destruct Hin as [Hin Hc]. simpl in Hc. apply ceqb_eq in Hc. subst x.
        apply (wins_iff v Hnd Hnn) in Hin. unfold beats in Hin. lia.
      - intros y [<-|Hy]; [apply (outs_iff v D); tauto|]. apply in_map_iff in Hy. destruct Hy as ([x y'] & Hf & Hin). simpl in Hf. subst y'.
        apply filter_In in Hin. destruct Hin as [Hin Hc]. simpl in Hc. apply ceqb_eq in Hc. subst x.
        apply (wins_iff v Hnd Hnn) in Hin. destruct (beats_cands _ _ Hin) as (_ & Hy & _).
        apply (outs_iff v D). split; [exact Hy|]. intros HyD.
        assert (Hyb : beats v y b) by (apply Hdom; assumption). unfold beats in *. lia. }
    assert (E4 : (length (ins v D) <= length Lb)%nat).
    { rewrite <- (map_length (fun y => (y, b)) (ins v D)). apply NoDup_incl_length.
      - apply map_inj_nodup; [intros x y H; congruence|apply (ins_nodup v)].
      - intros p Hp. apply in_map_iff in Hp. destruct Hp as (y & <- & Hy). apply (ins_iff v D) in Hy. destruct Hy as [Hy HyD].
        apply filter_In. split; [apply (wins_iff v Hnd Hnn); apply Hdom; assumption|simpl; apply ceqb_refl]. }
    lia.
  Qed.
End SC.

Theorem copeland_in_smith (v : pvotes) (w : C) :
  NoDup (map fst v) -> (forall p n, In (p, n) v -> 0 <= n) -> (2 <= length (candidates v))%nat ->
  get_n_best zle_bool (cscores v) 1 = [Cand w] -> In w (smith_schwartz v true).
Proof.
  intros Hnd Hnn H2 Hwin.
  destruct (cscores_facts v Hnd Hnn) as (Sn & Sv & Sc).
  destruct (get_n_best_1_cand zle_bool zle_total zle_trans (cscores v) w [] Sn Hwin) as (_ & sw & Hin & Hmax).
  destruct (Sv w sw Hin) as [Hsw Hcw].
  destruct (smith_dominating v H2) as [Hne Hdom].
  destruct (in_dec Pos.eq_dec w (smith_schwartz v true)) as [Hi|Hn]; [exact Hi|exfalso].
  destruct (smith_schwartz v true) as [|a O'] eqn:EO; [congruence|].
  assert (HaO : In a (a :: O')) by (left; reflexivity).
  assert (Hac : In a (candidates v)) by (apply (smith_subset v H2); rewrite EO; exact HaO).
  pose proof (strict_gap v Hnd Hnn H2 (a :: O') Hdom a w HaO Hac Hcw Hn) as Hgap.
  assert (Haw : a <> w) by (intros ->; exact (Hn HaO)).
  assert (Hka : In a (map fst (cscores v))) by (apply Sc, Hac).
  apply in_map_iff in Hka. destruct Hka as ([a' sa] & Hf & Hina). simpl in Hf. subst a'.
  destruct (Sv a sa Hina) as [Hsa _].
  pose proof (Hmax a sa Hina Haw) as Hlt. unfold GetNBest.ltb, zle_bool in Hlt. apply negb_true_iff, Z.leb_gt in Hlt. lia.
Qed.
