(* InvalidVoteEliminator (Model/Validate.v eliminate, convert.py L826-843) as a vote converter (C13): a filter.
   Every ballot is judged on its own by the validator; a ballot it accepts passes with its count, a ballot it rejects with a
   VoteError is dropped, a CandidateError (or a crash of the validator) ends the conversion.  Hence the conversion of the union
   of two profiles is the union of the conversions, and the weight of the valid ballots is conserved. *)
From Coq Require Import ZArith List Bool Lia.
From VL Require Import Model.Validate.
Import ListNotations.
Open Scope Z_scope.

Definition passes (validate : pyobj -> vresult) (bn : pyobj * Z) : bool :=
  match validate (fst bn) with VOk => true | _ => false end.
Definition weight (votes : list (pyobj * Z)) : Z := fold_right (fun bn acc => snd bn + acc) 0 votes.

(* per-ballot image *)
Lemma eliminate_single validate b n :
  eliminate validate [(b, n)] =
  match validate b with VOk => EOk [(b, n)] | VVoteError => EOk [] | VCandError => ECandError | VCrash => ECrash end.
Proof. cbn [eliminate]. destruct (validate b); reflexivity. Qed.

(* what comes out is the sub-profile of the ballots the validator accepts, counts untouched *)
Lemma eliminate_filter validate votes kept : eliminate validate votes = EOk kept -> kept = filter (passes validate) votes.
Proof.
  revert kept. induction votes as [|[b n] votes IH]; intros kept H; cbn [eliminate] in H.
  - injection H as <-. reflexivity.
  - cbn [filter]. unfold passes at 1. cbn [fst].
    destruct (validate b) eqn:E; try discriminate;
      (destruct (eliminate validate votes) as [k| |] eqn:E2; try discriminate; injection H as <-; rewrite (IH k eq_refl); reflexivity).
Qed.

Lemma eliminate_app validate a b ka kb : eliminate validate a = EOk ka -> eliminate validate b = EOk kb ->
  eliminate validate (a ++ b) = EOk (ka ++ kb).
Proof.
  revert ka. induction a as [|[x n] a IH]; intros ka Ha Hb; cbn [eliminate app] in *.
  - injection Ha as <-. exact Hb.
  - destruct (validate x) eqn:E; try discriminate;
      (destruct (eliminate validate a) as [k| |] eqn:E2; try discriminate; injection Ha as <-; rewrite (IH k eq_refl Hb); reflexivity).
Qed.

(* ... and nothing else can come out of the union *)
Lemma eliminate_app_inv validate a b k : eliminate validate (a ++ b) = EOk k ->
  exists ka kb, eliminate validate a = EOk ka /\ eliminate validate b = EOk kb /\ k = ka ++ kb.
Proof.
  revert k. induction a as [|[x n] a IH]; intros k H; cbn [eliminate app] in *.
  - exists [], k. repeat split. exact H.
  - destruct (validate x) eqn:E; try discriminate;
      (destruct (eliminate validate (a ++ b)) as [k0| |] eqn:E2; try discriminate; injection H as <-;
       destruct (IH k0 eq_refl) as (ka & kb & H1 & H2 & ->); rewrite H1; eexists; exists kb; repeat split; exact H2).
Qed.

(* a profile of valid ballots passes unchanged: no vote lost, none doubled *)
Lemma eliminate_valid validate votes : (forall bn, In bn votes -> validate (fst bn) = VOk) -> eliminate validate votes = EOk votes.
Proof.
  induction votes as [|[b n] votes IH]; intros H; cbn [eliminate]; [reflexivity|].
  assert (Hb := H (b, n) (or_introl eq_refl)). cbn [fst] in Hb. rewrite Hb, IH; [reflexivity|]. intros bn Hin. apply H. right. exact Hin.
Qed.

Lemma weight_app a b : weight (a ++ b) = weight a + weight b.
Proof. unfold weight. induction a as [|x a IH]; cbn [app fold_right]; [reflexivity|]. rewrite IH. ring. Qed.

(* the weight that comes out is the weight of the valid ballots *)
Lemma eliminate_weight validate votes kept : eliminate validate votes = EOk kept ->
  weight kept = weight (filter (passes validate) votes).
Proof. intros H. rewrite (eliminate_filter validate votes kept H). reflexivity. Qed.
