(* Kemeny-Young (Model/Condorcet.v: permutations, kemeny_score, kemeny):
   - the enumeration lists exactly the permutations of the candidate list, each once;
   - kemeny = the first n places on which ALL score-maximising permutations agree, refusal (CR_nie) exactly
     when two of them differ within the first n places;
   - a Condorcet winner heads every maximising permutation (moving it to the front gains votes), so it is
     elected for one seat. *)
From Coq Require Import ZArith List Bool Arith Lia Permutation.
From VL Require Import Prelude.PyDict Model.GetNBest Model.Condorcet Proofs.Condorcet_proofs.
Import ListNotations.
Open Scope Z_scope.

(* ================================================================ the enumeration *)
Lemma insert_all_spec x l p : In p (insert_all x l) <-> exists l1 l2, l = l1 ++ l2 /\ p = l1 ++ x :: l2.
Proof.
  revert p. induction l as [|y t IH]; intros p; simpl.
  - split.
    + intros [<-|[]]. exists [], []. split; reflexivity.
    + intros (l1 & l2 & H & ->). destruct l1; [|discriminate]. destruct l2; [|discriminate]. left. reflexivity.
  - split.
    + intros [<-|H].
      * exists [], (y :: t). split; reflexivity.
      * apply in_map_iff in H. destruct H as (q & <- & Hq). apply IH in Hq. destruct Hq as (l1 & l2 & -> & ->).
        exists (y :: l1), l2. split; reflexivity.
    + intros (l1 & l2 & H & ->). destruct l1 as [|a l1]; simpl in *.
      * subst l2. left. reflexivity.
      * injection H as <- ->. right. apply in_map_iff. exists (l1 ++ x :: l2). split; [reflexivity|].
        apply IH. exists l1, l2. split; reflexivity.
Qed.

Lemma permutations_sound l : forall p, In p (permutations l) -> Permutation p l.
Proof.
  induction l as [|x t IH]; simpl; intros p H.
  - destruct H as [<-|[]]. constructor.
  - apply in_flat_map in H. destruct H as (q & Hq & Hp). apply insert_all_spec in Hp.
    destruct Hp as (l1 & l2 & -> & ->).
    apply Permutation_sym, Permutation_cons_app, Permutation_sym, IH, Hq.
Qed.

Lemma permutations_complete l : forall p, Permutation p l -> In p (permutations l).
Proof.
  induction l as [|x t IH]; simpl; intros p H.
  - apply Permutation_sym, Permutation_nil in H. left. symmetry. exact H.
  - assert (Hx : In x p) by (apply (Permutation_in x (Permutation_sym H)); left; reflexivity).
    apply in_split in Hx. destruct Hx as (l1 & l2 & ->).
    apply in_flat_map. exists (l1 ++ l2). split.
    + apply IH. apply Permutation_sym. apply (Permutation_cons_app_inv l1 l2 (a := x)). apply Permutation_sym. exact H.
    + apply insert_all_spec. exists l1, l2. split; reflexivity.
Qed.

Theorem permutations_spec l p : In p (permutations l) <-> Permutation p l.
Proof. split; [apply permutations_sound|apply permutations_complete]. Qed.

(* each permutation is listed once *)
Lemma app_cons_unique (x : C) : forall l1 l2 m1 m2,
  ~ In x l1 -> ~ In x l2 -> ~ In x m1 -> ~ In x m2 ->
  l1 ++ x :: l2 = m1 ++ x :: m2 -> l1 = m1 /\ l2 = m2.
Proof.
  induction l1 as [|a l1 IH]; intros l2 m1 m2 H1 H2 H3 H4 E.
  - destruct m1 as [|b m1]; simpl in E.
    + injection E as ->. split; reflexivity.
    + injection E as -> _. exfalso. apply H3. left. reflexivity.
  - destruct m1 as [|b m1]; simpl in E.
    + injection E as -> _. exfalso. apply H1. left. reflexivity.
    + injection E as -> E. destruct (IH l2 m1 m2) as [-> ->]; try assumption.
      * intros H. apply H1. right. exact H.
      * intros H. apply H3. right. exact H.
      * split; reflexivity.
Qed.

Lemma insert_all_NoDup x l : ~ In x l -> NoDup (insert_all x l).
Proof.
  induction l as [|y t IH]; simpl; intros Hx.
  - constructor; [intros []|constructor].
  - constructor.
    + intros H. apply in_map_iff in H. destruct H as (q & Hq & _). injection Hq as Hq _. apply Hx. left. exact Hq.
    + apply FinFun.Injective_map_NoDup; [intros a b H; injection H as H; exact H|].
      apply IH. intros H. apply Hx. right. exact H.
Qed.

Lemma flat_map_NoDup {X Y} (f : X -> list Y) (l : list X) :
  NoDup l -> (forall a, In a l -> NoDup (f a)) ->
  (forall a b y, In a l -> In b l -> In y (f a) -> In y (f b) -> a = b) ->
  NoDup (flat_map f l).
Proof.
  induction l as [|a t IH]; simpl; intros Hn H1 H2; [constructor|].
  inversion Hn as [|? ? Ha Hn']; subst.
  apply Threshold_proofs.nodup_app_intro.
  - apply H1. left. reflexivity.
  - apply IH; [exact Hn'|intros b Hb; apply H1; right; exact Hb|].
    intros b c y Hb Hc. apply H2; right; assumption.
  - intros y Hy Hy'. apply in_flat_map in Hy'. destruct Hy' as (b & Hb & Hy').
    assert (a = b) by (apply (H2 a b y); [left; reflexivity|right; exact Hb|exact Hy|exact Hy']).
    subst b. exact (Ha Hb).
Qed.

Lemma permutations_NoDup l : NoDup l -> NoDup (permutations l).
Proof.
  induction l as [|x t IH]; simpl; intros Hn.
  - constructor; [intros []|constructor].
  - inversion Hn as [|? ? Hx Hn']; subst.
    assert (Hnot : forall q, In q (permutations t) -> ~ In x q).
    { intros q Hq H. apply Hx. apply (Permutation_in x (permutations_sound t q Hq)). exact H. }
    apply flat_map_NoDup.
    + apply IH, Hn'.
    + intros q Hq. apply insert_all_NoDup. apply Hnot, Hq.
    + intros q1 q2 p Hq1 Hq2 Hp1 Hp2.
      apply insert_all_spec in Hp1. destruct Hp1 as (l1 & l2 & -> & ->).
      apply insert_all_spec in Hp2. destruct Hp2 as (m1 & m2 & -> & E).
      pose proof (Hnot _ Hq1) as N1. pose proof (Hnot _ Hq2) as N2.
      rewrite in_app_iff in N1, N2.
      destruct (app_cons_unique x l1 l2 m1 m2) as [-> ->]; try tauto.
Qed.

(* ================================================================ the score *)
Definition row (v : pvotes) (u : C) (t : list C) : Z := fold_left (fun acc l => acc + pget0 v (u, l)) t 0.

Lemma fold_add_shift {X} (f : X -> Z) (t : list X) : forall a,
  fold_left (fun acc l => acc + f l) t a = a + fold_left (fun acc l => acc + f l) t 0.
Proof.
  induction t as [|x t IH]; intros a; cbn [fold_left]; [lia|]. rewrite (IH (a + f x)), (IH (0 + f x)). lia.
Qed.

Lemma row_cons v u a t : row v u (a :: t) = pget0 v (u, a) + row v u t.
Proof. unfold row. simpl. rewrite fold_add_shift. lia. Qed.

Lemma row_app v u l1 l2 : row v u (l1 ++ l2) = row v u l1 + row v u l2.
Proof.
  induction l1 as [|a l1 IH]; simpl; [reflexivity|]. rewrite !row_cons, IH. lia.
Qed.

Lemma kemeny_score_cons v u t : kemeny_score v (u :: t) = row v u t + kemeny_score v t.
Proof. reflexivity. Qed.

(* what a ranking gains when c is moved to its front *)
Fixpoint gain (v : pvotes) (c : C) (l : list C) : Z :=
  match l with
  | [] => 0
  | x :: t => (pget0 v (c, x) - pget0 v (x, c)) + gain v c t
  end.

Lemma score_move_front v c l2 : forall l1,
  kemeny_score v (c :: l1 ++ l2) = kemeny_score v (l1 ++ c :: l2) + gain v c l1.
Proof.
  induction l1 as [|a l1 IH]; [simpl gain; simpl app; lia|].
  change ((a :: l1) ++ c :: l2) with (a :: (l1 ++ c :: l2)).
  change ((a :: l1) ++ l2) with (a :: (l1 ++ l2)).
  rewrite (kemeny_score_cons v a (l1 ++ c :: l2)), (kemeny_score_cons v c (a :: l1 ++ l2)), (kemeny_score_cons v a (l1 ++ l2)).
  rewrite kemeny_score_cons in IH.
  rewrite row_cons. rewrite (row_app v a l1 (c :: l2)), row_cons, (row_app v a l1 l2).
  cbn [gain]. lia.
Qed.

Lemma gain_pos v c l : l <> [] -> (forall x, In x l -> beats v c x) -> 0 < gain v c l.
Proof.
  intros Hne Hb.
  assert (H : forall l, (forall x, In x l -> beats v c x) -> 0 <= gain v c l).
  { clear. induction l as [|x t IH]; intros Hb; cbn [gain]; [lia|].
    assert (B : beats v c x) by (apply Hb; left; reflexivity). unfold beats in B.
    assert (0 <= gain v c t) by (apply IH; intros y Hy; apply Hb; right; exact Hy). lia. }
  destruct l as [|x t]; [congruence|]. cbn [gain].
  assert (B : beats v c x) by (apply Hb; left; reflexivity). unfold beats in B.
  assert (0 <= gain v c t) by (apply H; intros y Hy; apply Hb; right; exact Hy). lia.
Qed.

Lemma row_nonneg v u t : (forall p, 0 <= pget0 v p) -> 0 <= row v u t.
Proof. intros H. induction t as [|a t IH]; [unfold row; simpl; lia|]. rewrite row_cons. specialize (H (u, a)). lia. Qed.

Lemma kemeny_score_nonneg v p : (forall q, 0 <= pget0 v q) -> 0 <= kemeny_score v p.
Proof.
  intros H. induction p as [|u t IH]; [simpl; lia|]. rewrite kemeny_score_cons. pose proof (row_nonneg v u t H). lia.
Qed.

(* ================================================================ the evaluator *)
Lemma fold_max_ge (scored : list (list C * Z)) : forall b,
  let best := fold_left (fun b ps => Z.max b (snd ps)) scored b in
  b <= best /\ (forall ps, In ps scored -> snd ps <= best) /\
  (best = b \/ exists ps, In ps scored /\ snd ps = best).
Proof.
  induction scored as [|x t IH]; intros b; simpl.
  - split; [lia|]. split; [intros ps []|left; reflexivity].
  - destruct (IH (Z.max b (snd x))) as (H1 & H2 & H3). split; [lia|]. split.
    + intros ps [<-|H]; [lia|apply H2, H].
    + destruct H3 as [H3|(ps & Hin & Hps)].
      * destruct (Z.max_spec b (snd x)) as [[_ E]|[_ E]].
        -- right. exists x. split; [left; reflexivity|]. lia.
        -- left. lia.
      * right. exists ps. split; [right; exact Hin|exact Hps].
Qed.

Lemma filter_unique {X} (f : X -> bool) (l : list X) a :
  NoDup l -> In a l -> f a = true -> (forall b, In b l -> f b = true -> b = a) -> filter f l = [a].
Proof.
  induction l as [|x t IH]; simpl; intros Hn Hin Ha Hu; [destruct Hin|].
  inversion Hn as [|? ? Hx Hn']; subst. destruct Hin as [->|Hin].
  - rewrite Ha. f_equal. apply GetNBest_proofs.filter_none. apply Forall_forall. intros y Hy.
    destruct (f y) eqn:E; [|reflexivity]. exfalso. apply Hx. rewrite <- (Hu y (or_intror Hy) E). exact Hy.
  - destruct (f x) eqn:E.
    + exfalso. apply Hx. rewrite (Hu x (or_introl eq_refl) E). exact Hin.
    + apply IH; [exact Hn'|exact Hin|exact Ha|]. intros b Hb. apply Hu. right. exact Hb.
Qed.

Lemma clist_eqb_eq a b : clist_eqb a b = true <-> a = b.
Proof.
  revert b. induction a as [|x a IH]; intros [|y b]; simpl; try (split; [discriminate|congruence]); [tauto|].
  rewrite andb_true_iff, IH. unfold ceqb. rewrite Pos.eqb_eq. split; [intros [-> ->]; reflexivity|intros [= -> ->]; tauto].
Qed.

Lemma forallb_false {X} (f : X -> bool) (l : list X) : forallb f l = false -> exists x, In x l /\ f x = false.
Proof.
  induction l as [|a t IH]; simpl; [discriminate|]. destruct (f a) eqn:E; simpl.
  - intros H. destruct (IH H) as (x & Hx & Hf). exists x. tauto.
  - intros _. exists a. tauto.
Qed.

Section KEM.
  Variable v : pvotes.
  Notation cs := (candidates v).
  Notation score := (kemeny_score v).

  (* p is a ranking of all candidates with the greatest Kemeny score *)
  Definition kemeny_max (p : list C) : Prop :=
    Permutation p cs /\ forall q, Permutation q cs -> score q <= score p.

  Definition k_scored : list (list C * Z) := map (fun p => (p, score p)) (permutations cs).
  Definition k_best : Z := fold_left (fun b ps => Z.max b (snd ps)) k_scored 0.
  (* best_variants *)
  Definition k_list : list (list C * Z) := filter (fun ps : list C * Z => snd ps =? k_best) k_scored.

  Lemma kemeny_unfold n : kemeny v n =
    match map (fun ps : list C * Z => firstn n (fst ps)) k_list with
    | [] => CR_nie
    | pre :: rest => if forallb (clist_eqb pre) rest then CR_ok (map Cand pre) else CR_nie
    end.
  Proof. reflexivity. Qed.

  Lemma k_scored_in q : Permutation q cs -> In (q, score q) k_scored.
  Proof. intros Hq. unfold k_scored. apply in_map_iff. exists q. split; [reflexivity|]. apply permutations_complete, Hq. Qed.

  Lemma k_list_sound p s : In (p, s) k_list -> kemeny_max p /\ s = score p /\ 0 <= score p.
  Proof.
    unfold k_list. intros H. apply filter_In in H. destruct H as [Hp Hs]. simpl in Hs. apply Z.eqb_eq in Hs.
    destruct (fold_max_ge k_scored 0) as (B0 & Bge & _). fold k_best in B0, Bge.
    unfold k_scored in Hp. apply in_map_iff in Hp. destruct Hp as (p' & Hpp & Hp). injection Hpp as -> Hsp.
    split; [|split; [congruence|lia]]. split; [apply permutations_sound, Hp|].
    intros q Hq. specialize (Bge _ (k_scored_in q Hq)). simpl in Bge. lia.
  Qed.

  Lemma k_list_complete p : kemeny_max p -> 0 <= score p -> In (p, score p) k_list.
  Proof.
    intros [Hp Hge] H0. unfold k_list. apply filter_In. split; [apply k_scored_in, Hp|]. simpl. apply Z.eqb_eq.
    destruct (fold_max_ge k_scored 0) as (B0 & Bge & Bex). fold k_best in B0, Bge, Bex.
    pose proof (Bge _ (k_scored_in p Hp)) as Hle. simpl in Hle.
    destruct Bex as [E|(ps & Hps & E)]; [lia|].
    unfold k_scored in Hps. apply in_map_iff in Hps. destruct Hps as (q & <- & Hq). simpl in E.
    specialize (Hge q (permutations_sound _ _ Hq)). lia.
  Qed.

  Lemma kemeny_max_score p q : kemeny_max p -> kemeny_max q -> score p = score q.
  Proof. intros [Hp Gp] [Hq Gq]. specialize (Gp q Hq). specialize (Gq p Hp). lia. Qed.

  (* defining computation: an answer is the first n places of a best ranking, and ALL best rankings agree on them *)
  Theorem kemeny_defining n r : kemeny v n = CR_ok r ->
    exists p, kemeny_max p /\ 0 <= score p /\ r = map Cand (firstn n p) /\
              forall q, kemeny_max q -> firstn n q = firstn n p.
  Proof.
    rewrite kemeny_unfold. destruct k_list as [|[p s] t] eqn:Eb; cbn [map fst]; [discriminate|].
    destruct (forallb _ _) eqn:Ef; [|discriminate]. intros [= <-].
    assert (Hp : In (p, s) k_list) by (rewrite Eb; left; reflexivity).
    apply k_list_sound in Hp. destruct Hp as (Hmax & _ & H0).
    exists p. split; [exact Hmax|]. split; [exact H0|]. split; [reflexivity|].
    intros q Hq. assert (Hin : In (q, score q) k_list).
    { apply k_list_complete; [exact Hq|]. rewrite (kemeny_max_score q p Hq Hmax). exact H0. }
    rewrite Eb in Hin. destruct Hin as [Hin|Hin]; [injection Hin as -> _; reflexivity|].
    rewrite forallb_forall in Ef. symmetry. apply clist_eqb_eq. apply Ef.
    apply in_map_iff. exists (q, score q). split; [reflexivity|exact Hin].
  Qed.

  (* conversely the evaluator answers whenever the best rankings (non-negative score: the scan starts from
     best_score = 0) agree on the first n places *)
  Theorem kemeny_complete n p : kemeny_max p -> 0 <= score p ->
    (forall q, kemeny_max q -> firstn n q = firstn n p) -> kemeny v n = CR_ok (map Cand (firstn n p)).
  Proof.
    intros Hmax H0 Hall. rewrite kemeny_unfold. pose proof (k_list_complete p Hmax H0) as Hin.
    assert (Hpre : forall q s, In (q, s) k_list -> firstn n q = firstn n p).
    { intros q s Hq. apply Hall. apply (k_list_sound q s Hq). }
    destruct k_list as [|[p0 s0] t]; [destruct Hin|]. cbn [map fst].
    rewrite (Hpre p0 s0 (or_introl eq_refl)).
    assert (Hf : forallb (clist_eqb (firstn n p)) (map (fun ps : list C * Z => firstn n (fst ps)) t) = true).
    { apply forallb_forall. intros x Hx. apply in_map_iff in Hx. destruct Hx as ([q s] & <- & Hq). simpl.
      apply clist_eqb_eq. symmetry. apply (Hpre q s). right. exact Hq. }
    rewrite Hf. reflexivity.
  Qed.

  Lemma kemeny_cases n : (exists p, kemeny_max p /\ kemeny v n = CR_ok (map Cand (firstn n p))) \/ kemeny v n = CR_nie.
  Proof.
    rewrite kemeny_unfold. destruct k_list as [|[p s] t] eqn:Eb; cbn [map fst]; [right; reflexivity|].
    destruct (forallb _ _); [left|right; reflexivity]. exists p. split; [|reflexivity].
    apply (k_list_sound p s). rewrite Eb. left. reflexivity.
  Qed.

  Lemma kemeny_max_exists : (forall q, 0 <= pget0 v q) -> exists p, kemeny_max p /\ 0 <= score p.
  Proof.
    intros Hnn. destruct (fold_max_ge k_scored 0) as (B0 & Bge & Bex). fold k_best in B0, Bge, Bex.
    destruct Bex as [E|(ps & Hps & E)].
    - exists cs. split; [|apply kemeny_score_nonneg, Hnn]. split; [apply Permutation_refl|].
      intros q Hq. specialize (Bge _ (k_scored_in q Hq)). simpl in Bge.
      pose proof (kemeny_score_nonneg v cs Hnn). lia.
    - unfold k_scored in Hps. apply in_map_iff in Hps. destruct Hps as (p & <- & Hp). simpl in E.
      exists p. split; [|apply kemeny_score_nonneg, Hnn]. split; [apply permutations_sound, Hp|].
      intros q Hq. specialize (Bge _ (k_scored_in q Hq)). simpl in Bge. lia.
  Qed.

  (* the refusal: exactly when two best rankings differ within the first n places *)
  Theorem kemeny_refuses_iff n : (forall q, 0 <= pget0 v q) ->
    (kemeny v n = CR_nie <-> exists p q, kemeny_max p /\ kemeny_max q /\ firstn n p <> firstn n q).
  Proof.
    intros Hnn. split.
    - rewrite kemeny_unfold. destruct k_list as [|[p s] t] eqn:Eb; cbn [map fst].
      + intros _. exfalso. destruct (kemeny_max_exists Hnn) as (p & Hp & H0).
        pose proof (k_list_complete p Hp H0) as Hin. rewrite Eb in Hin. destruct Hin.
      + destruct (forallb _ _) eqn:Ef; [discriminate|]. intros _.
        apply forallb_false in Ef. destruct Ef as (x & Hx & Hf). apply in_map_iff in Hx. destruct Hx as ([q s'] & <- & Hq).
        simpl in Hf. exists p, q. split; [apply (k_list_sound p s); rewrite Eb; left; reflexivity|].
        split; [apply (k_list_sound q s'); rewrite Eb; right; exact Hq|].
        intros E. apply clist_eqb_eq in E. congruence.
    - intros (p & q & Hp & Hq & Hne). destruct (kemeny_cases n) as [(p0 & _ & H)|H]; [exfalso|exact H].
      destruct (kemeny_defining n _ H) as (p1 & _ & _ & _ & Hall). apply Hne. rewrite (Hall p Hp), (Hall q Hq). reflexivity.
  Qed.

  (* a Condorcet winner heads every best ranking *)
  Lemma cw_heads_max c p : is_cw v c -> kemeny_max p -> exists t, p = c :: t.
  Proof.
    intros [Hc Hall] (Hp & Hge).
    assert (Hnd : NoDup p) by (apply (Permutation_NoDup (Permutation_sym Hp)), candidates_NoDup).
    assert (Hcp : In c p) by (apply (Permutation_in c (Permutation_sym Hp)), Hc).
    apply in_split in Hcp. destruct Hcp as (l1 & l2 & ->).
    destruct l1 as [|a l1]; [exists l2; reflexivity|exfalso].
    set (q := c :: (a :: l1) ++ l2).
    assert (Hq : Permutation q cs).
    { apply Permutation_trans with (2 := Hp). apply Permutation_cons_app. apply Permutation_refl. }
    specialize (Hge q Hq). unfold q in Hge. rewrite score_move_front in Hge.
    assert (0 < gain v c (a :: l1)); [|lia].
    apply gain_pos; [discriminate|]. intros x Hx. apply Hall.
    - apply (Permutation_in x Hp). apply in_or_app. left. exact Hx.
    - intros ->. apply NoDup_remove_2 in Hnd. apply Hnd. apply in_or_app. left. exact Hx.
  Qed.

  Theorem kemeny_elects_cw c : (forall q, 0 <= pget0 v q) -> is_cw v c -> kemeny v 1 = CR_ok [Cand c].
  Proof.
    intros Hnn Hcw. destruct (kemeny_max_exists Hnn) as (p & Hp & H0).
    destruct (cw_heads_max c p Hcw Hp) as (t & ->).
    rewrite (kemeny_complete 1 (c :: t) Hp H0); [reflexivity|].
    intros q Hq. destruct (cw_heads_max c q Hcw Hq) as (t' & ->). reflexivity.
  Qed.

  (* with as many seats as candidates the answer lists every candidate *)
  Theorem kemeny_nobody_dropped r x : kemeny v (length cs) = CR_ok r -> In x cs -> In (Cand x) r.
  Proof.
    intros H Hx. destruct (kemeny_defining _ _ H) as (p & (Hp & _) & _ & -> & _).
    rewrite <- (Permutation_length Hp), firstn_all. apply in_map. apply (Permutation_in x (Permutation_sym Hp)), Hx.
  Qed.
End KEM.
