(* Lemmas for property C07, part 4: the state in which BiproportionalEvaluator.evaluate enters its loop
   (_initial_solution + _initial_party_coefs, Model/BipropLoop.v [binit]) satisfies the loop invariant BInv of
   Proofs/BipropLoop_proofs.v.  Rests on the min-max characterisation of the HighestAverages model
   (Proofs/HAMinmax_proofs.v): every column of the initial solution is a divisor apportionment of the party's
   seats over the districts (a tie inside a column spread over the first tied districts), hence signposts
   lo <= hi exist for every party and the mid-point multiplier puts every cell between its signposts. *)
From Coq Require Import ZArith QArith List Bool Lia Lqa Permutation.
From VL Require Import Prelude.PyDict Model.Divisor Model.HighestAverages Model.Biprop Model.BipropLoop
     Proofs.Dict_proofs Proofs.Divisor_proofs Proofs.HA_proofs Proofs.Mono_proofs Proofs.HAUnique_proofs
     Proofs.Biprop_proofs Proofs.Biprop_steps Proofs.BipropRow_proofs Proofs.BipropLoop_proofs Proofs.HAMinmax_proofs.
Import ListNotations.
Open Scope Z_scope.

(* ------------------------------------------------------------------ sorted(...) is a permutation *)
Lemma ins_pos_perm x l : Permutation (ins_pos x l) (x :: l).
Proof.
  induction l as [|y l IH]; simpl; [reflexivity|]. destruct (Pos.leb x y); [reflexivity|].
  rewrite IH. apply perm_swap.
Qed.
Lemma sort_pos_perm l : Permutation (sort_pos l) l.
Proof. induction l as [|x l IH]; simpl; [reflexivity|]. rewrite ins_pos_perm, IH. reflexivity. Qed.

(* ------------------------------------------------------------------ the totals dict of the HighestAverages model *)
Lemma fold_incr_keys_nodup ks : forall t, NoDup (map fst t) -> NoDup (map fst (fold_left incr ks t)).
Proof.
  induction ks as [|c ks IH]; intros t H; simpl; [exact H|]. apply IH. unfold incr, incr_t. apply dset_keys_nodup, H.
Qed.
Lemma totals_nodup_step d votes caps n s : NoDup (map fst (st_totals s)) -> NoDup (map fst (st_totals (step d votes caps n s))).
Proof.
  intros H. unfold step. destruct (st_qs s) as [|[c0 m] qs']; [exact H|]. cbv zeta.
  destruct (_ <=? st_rem s); cbn [st_totals]; [apply fold_incr_keys_nodup, H|exact H].
Qed.
Lemma totals_nodup_loop d votes caps n fuel : forall s, NoDup (map fst (st_totals s)) ->
  NoDup (map fst (st_totals (loop d votes caps n fuel s))).
Proof.
  induction fuel as [|f IH]; intros s H; simpl; [exact H|].
  destruct (_ && _); [apply IH, totals_nodup_step, H|exact H].
Qed.

(* what evaluate returns, in terms of the final state *)
Lemma evaluate_ok d vs n g t : evaluate d vs n [] [] = HA_ok g t ->
  vs <> [] /\ g = st_totals (final_state d vs n [] []) /\ t = st_tie (final_state d vs n [] []) /\
  NoDup (map fst g) /\ all_pos g.
Proof.
  unfold evaluate. destruct (initial_quotients d vs [] [] n) as [|q0 qs0] eqn:Eq; [discriminate|]. cbv zeta.
  assert (Hap : all_pos (st_totals (final_state d vs n [] []))).
  { unfold final_state. apply all_pos_loop. unfold init_state. cbn [st_totals]. constructor. }
  rewrite (gains_of_pos _ Hap). intros [= <- <-]. split; [|split; [reflexivity|split; [reflexivity|split; [|exact Hap]]]].
  - intros E. subst vs. discriminate.
  - unfold final_state. apply totals_nodup_loop. unfold init_state. cbn [st_totals]. constructor.
Qed.

Lemma all_pos_in t c v : all_pos t -> In (c, v) t -> 0 < v.
Proof. unfold all_pos. rewrite Forall_forall. intros H Hin. apply (H (c, v) Hin). Qed.

(* ------------------------------------------------------------------ building the solution matrix *)
Lemma cell_set_mget m i j k m' : cell_set m i j k = Some m' ->
  forall i' j', mget m' i' j' = if ceqb i' i && ceqb j' j then k else mget m i' j'.
Proof.
  unfold cell_set. destruct (dget m i) as [row|] eqn:E; [|discriminate]. intros [= <-] i' j'.
  rewrite mget_dset_row. destruct (ceqb i' i) eqn:Ei; simpl; [|reflexivity].
  apply ceqb_eq in Ei. subst i'. rewrite dget_or_dset. unfold mget. rewrite E. reflexivity.
Qed.

Section Place.
  Variable ps : list C.
  Variable j : C.
  Hypothesis Hj : In j ps.
  Notation rwf := (fun m : mat => forall i row, dget m i = Some row -> NoDup (map fst row) /\ incl (map fst row) ps).

  Lemma cell_set_wf m i k m' : rwf m -> cell_set m i j k = Some m' -> rwf m'.
  Proof.
    unfold cell_set. intros W. destruct (dget m i) as [row|] eqn:E; [|discriminate]. intros [= <-] i' row' H'.
    rewrite dget_dset in H'. destruct (ceqb i' i) eqn:Ei; [|apply (W i' row' H')].
    injection H' as <-. destruct (W i row E) as [H1 H2]. split; [apply dset_keys_nodup, H1|].
    intros x Hx. apply dset_keys in Hx. destruct Hx as [->|Hx]; [exact Hj|apply H2, Hx].
  Qed.
  Lemma cell_incr_wf' m i m' : rwf m -> cell_incr m i j = Some m' -> rwf m'.
  Proof.
    unfold cell_incr. intros W. destruct (dget m i) as [row|] eqn:E; [|discriminate]. intros [= <-] i' row' H'.
    rewrite dget_dset in H'. destruct (ceqb i' i) eqn:Ei; [|apply (W i' row' H')].
    injection H' as <-. destruct (W i row E) as [H1 H2]. split; [apply dset_keys_nodup, H1|].
    intros x Hx. apply dset_keys in Hx. destruct Hx as [->|Hx]; [exact Hj|apply H2, Hx].
  Qed.

  Definition set_fold (gains : list (C * Z)) (acc : option mat) : option mat :=
    fold_left (fun acc ik => match acc with Some m => cell_set m (fst ik) j (snd ik) | None => None end) gains acc.
  Definition incr_fold (sel : list C) (acc : option mat) : option mat :=
    fold_left (fun acc i => match acc with Some m => cell_incr m i j | None => None end) sel acc.

  Lemma set_fold_none gains : set_fold gains None = None.
  Proof. induction gains as [|g gains IH]; simpl; [reflexivity|exact IH]. Qed.
  Lemma incr_fold_none sel : incr_fold sel None = None.
  Proof. induction sel as [|g sel IH]; simpl; [reflexivity|exact IH]. Qed.

  Lemma set_fold_spec : forall gains m m', NoDup (map fst gains) -> rwf m -> set_fold gains (Some m) = Some m' ->
    rwf m' /\ forall i j', mget m' i j' = if ceqb j' j then match dget gains i with Some k => k | None => mget m i j' end
                                          else mget m i j'.
  Proof.
    induction gains as [|[i0 k0] gains IH]; intros m m' Hnd W H.
    - simpl in H. injection H as <-. split; [exact W|]. intros i j'. simpl. destruct (ceqb j' j); reflexivity.
    - unfold set_fold in H. simpl in H. fold (set_fold gains (cell_set m i0 j k0)) in H.
      destruct (cell_set m i0 j k0) as [m1|] eqn:E1; [|rewrite set_fold_none in H; discriminate].
      inversion Hnd as [|? ? Hk Hnd']; subst.
      destruct (IH m1 m' Hnd' (cell_set_wf _ _ _ _ W E1) H) as [W' G]. split; [exact W'|].
      intros i j'. rewrite G. pose proof (cell_set_mget _ _ _ _ _ E1) as G1. simpl.
      destruct (ceqb j' j) eqn:Ej.
      + destruct (ceqb i i0) eqn:Ei.
        * apply ceqb_eq in Ei. subst i0. rewrite (notin_dget_none gains i Hk). rewrite G1, ceqb_refl, Ej. reflexivity.
        * destruct (dget gains i); [reflexivity|]. rewrite G1, Ei. reflexivity.
      + rewrite G1, Ej, andb_false_r. reflexivity.
  Qed.

  Lemma incr_fold_spec : forall sel m m', NoDup sel -> rwf m -> incr_fold sel (Some m) = Some m' ->
    rwf m' /\ forall i j', mget m' i j' = mget m i j' + (if ceqb j' j && cmem i sel then 1 else 0).
  Proof.
    induction sel as [|i0 sel IH]; intros m m' Hnd W H.
    - simpl in H. injection H as <-. split; [exact W|]. intros i j'. simpl. rewrite andb_false_r. lia.
    - unfold incr_fold in H. simpl in H. fold (incr_fold sel (cell_incr m i0 j)) in H.
      destruct (cell_incr m i0 j) as [m1|] eqn:E1; [|rewrite incr_fold_none in H; discriminate].
      inversion Hnd as [|? ? Hk Hnd']; subst.
      destruct (IH m1 m' Hnd' (cell_incr_wf' _ _ _ W E1) H) as [W' G]. split; [exact W'|].
      intros i j'. rewrite G, (cell_incr_mget _ _ _ _ E1). simpl.
      destruct (ceqb j' j) eqn:Ej; simpl; [|rewrite andb_false_r; lia].
      destruct (ceqb i i0) eqn:Ei; simpl; [|lia].
      apply ceqb_eq in Ei. subst i0.
      assert (cmem i sel = false) as -> by (destruct (cmem i sel) eqn:E; [apply cmem_In in E; contradiction|reflexivity]). lia.
  Qed.
End Place.

Lemma count_cmem c l : NoDup l -> count c l = if cmem c l then 1 else 0.
Proof.
  intros H. destruct (cmem c l) eqn:E.
  - apply count_nodup; [exact H|apply cmem_In, E].
  - apply count_notin. intros Hi. apply cmem_In in Hi. congruence.
Qed.

Definition tie_sel (t : option (list C * Z)) : list C :=
  match t with Some (T, r) => firstn (Z.to_nat r) (sort_pos T) | None => [] end.
Definition col_alloc (g : list (C * Z)) (t : option (list C * Z)) (i : C) : Z :=
  dget_or g i 0 + (if cmem i (tie_sel t) then 1 else 0).

Lemma place_column_folds sol j g t :
  place_column sol j g t = incr_fold j (tie_sel t) (set_fold j g (Some sol)).
Proof. unfold place_column, incr_fold, set_fold, tie_sel. destruct t as [[T r]|]; reflexivity. Qed.

(* ------------------------------------------------------------------ _initial_party_coefs: lo <= hi, the mid-point fits *)
Section Coef.
  Variable q : Q.
  Variable seats : mat.
  Variable j : C.
  Variable allrows : list (C * list (C * Z)).
  Notation vr r := (dget_or (snd r) j 0).
  Notation Lr r := (signpost q (mget seats (fst r) j) / inject_Z (dget_or (snd r) j 0%Z))%Q.
  Notation Ur r := ((signpost q (mget seats (fst r) j) + 1) / inject_Z (dget_or (snd r) j 0%Z))%Q.
  Hypothesis PAIR : forall r1 r2, In r1 allrows -> In r2 allrows -> vr r1 <> 0 -> vr r2 <> 0 -> (Lr r1 <= Ur r2)%Q.
  Hypothesis UPOS : forall r, In r allrows -> vr r <> 0 -> (0 < Ur r)%Q.

  Record CI (st : Q * option Q) : Prop := {
    ci_nn : (0 <= fst st)%Q;
    ci_A : forall r, In r allrows -> vr r <> 0 -> (fst st <= Ur r)%Q;
    ci_K : forall h, snd st = Some h -> exists r, In r allrows /\ vr r <> 0 /\ h = Ur r }.

  Lemma coef_scan_facts st r : In r allrows -> CI st ->
    CI (coef_scan q seats j st r) /\ (fst st <= fst (coef_scan q seats j st r))%Q /\
    (forall h, snd st = Some h -> exists h', snd (coef_scan q seats j st r) = Some h' /\ (h' <= h)%Q) /\
    (vr r <> 0 -> (Lr r <= fst (coef_scan q seats j st r))%Q /\
                  exists h', snd (coef_scan q seats j st r) = Some h' /\ (h' <= Ur r)%Q).
  Proof.
    intros Hr [Hnn HA HK]. unfold coef_scan. destruct (vr r =? 0) eqn:Ev.
    - apply Z.eqb_eq in Ev. split; [constructor; assumption|]. split; [lra|]. split; [intros h Hh; exists h; split; [exact Hh|lra]|].
      intros H. congruence.
    - apply Z.eqb_neq in Ev. cbv zeta. cbn [fst snd].
      assert (Hfst : (fst st <= (if Qpos_b (Lr r - fst st) then Lr r else fst st))%Q /\
                     (Lr r <= (if Qpos_b (Lr r - fst st) then Lr r else fst st))%Q).
      { destruct (Qpos_b (Lr r - fst st)) eqn:E; [apply Qpos_b_iff in E; split; lra|].
        apply Qpos_b_false in E. split; lra. }
      destruct Hfst as [Hf1 Hf2].
      split; [|split; [exact Hf1|split]].
      + constructor; cbn [fst snd].
        * lra.
        * intros r0 Hr0 Hv0. destruct (Qpos_b (Lr r - fst st)); [apply (PAIR r r0 Hr Hr0 Ev Hv0)|apply (HA r0 Hr0 Hv0)].
        * intros h Hh. destruct (snd st) as [h0|] eqn:Es.
          -- destruct (Qpos_b (h0 - Ur r)); injection Hh as <-; [exists r; auto|apply (HK h0 eq_refl)].
          -- injection Hh as <-. exists r. auto.
      + intros h Hh. rewrite Hh. destruct (Qpos_b (h - Ur r)) eqn:E; eexists; (split; [reflexivity|]).
        * apply Qpos_b_iff in E. lra.
        * lra.
      + intros _. split; [exact Hf2|]. destruct (snd st) as [h0|].
        * destruct (Qpos_b (h0 - Ur r)) eqn:E; eexists; (split; [reflexivity|]); [lra|]. apply Qpos_b_false in E. lra.
        * eexists. split; [reflexivity|lra].
  Qed.

  Lemma coef_fold : forall rows st, incl rows allrows -> CI st ->
    CI (fold_left (coef_scan q seats j) rows st) /\ (fst st <= fst (fold_left (coef_scan q seats j) rows st))%Q /\
    (forall h, snd st = Some h -> exists h', snd (fold_left (coef_scan q seats j) rows st) = Some h' /\ (h' <= h)%Q) /\
    (forall r, In r rows -> vr r <> 0 ->
       (Lr r <= fst (fold_left (coef_scan q seats j) rows st))%Q /\
       exists h', snd (fold_left (coef_scan q seats j) rows st) = Some h' /\ (h' <= Ur r)%Q).
  Proof.
    induction rows as [|r rows IH]; intros st Hincl HC; simpl.
    - split; [exact HC|]. split; [lra|]. split; [intros h Hh; exists h; split; [exact Hh|lra]|]. intros r [].
    - destruct (coef_scan_facts st r (Hincl r (or_introl eq_refl)) HC) as (C1 & F1 & S1 & P1).
      destruct (IH (coef_scan q seats j st r) (fun x Hx => Hincl x (or_intror Hx)) C1) as (C2 & F2 & S2 & P2).
      split; [exact C2|]. split; [lra|]. split.
      + intros h Hh. destruct (S1 h Hh) as (h1 & Hh1 & L1). destruct (S2 h1 Hh1) as (h2 & Hh2 & L2). exists h2. split; [exact Hh2|lra].
      + intros r0 [<-|Hr0] Hv0.
        * destruct (P1 Hv0) as (A1 & h1 & Hh1 & L1). destruct (S2 h1 Hh1) as (h2 & Hh2 & L2).
          split; [lra|]. exists h2. split; [exact Hh2|lra].
        * apply (P2 r0 Hr0 Hv0).
  Qed.
End Coef.

Lemma party_coef_ok q (votes seats : mat) j :
  (forall r1 r2, In r1 votes -> In r2 votes -> dget_or (snd r1) j 0 <> 0 -> dget_or (snd r2) j 0 <> 0 ->
     (signpost q (mget seats (fst r1) j) / inject_Z (dget_or (snd r1) j 0%Z)
      <= (signpost q (mget seats (fst r2) j) + 1) / inject_Z (dget_or (snd r2) j 0%Z))%Q) ->
  (forall r, In r votes -> dget_or (snd r) j 0 <> 0 ->
     (0 < (signpost q (mget seats (fst r) j) + 1) / inject_Z (dget_or (snd r) j 0%Z))%Q) ->
  (0 < party_coef q votes seats j)%Q /\
  forall r, In r votes -> dget_or (snd r) j 0 <> 0 ->
    (signpost q (mget seats (fst r) j) / inject_Z (dget_or (snd r) j 0%Z) <= party_coef q votes seats j)%Q /\
    (party_coef q votes seats j <= (signpost q (mget seats (fst r) j) + 1) / inject_Z (dget_or (snd r) j 0%Z))%Q.
Proof.
  intros PAIR UPOS. unfold party_coef.
  assert (C0 : CI q seats j votes (0%Q, None)).
  { constructor; cbn [fst snd]; [lra| |discriminate]. intros r Hr Hv. apply Qlt_le_weak, UPOS; assumption. }
  destruct (coef_fold q seats j votes PAIR votes (0%Q, None) (fun x Hx => Hx) C0) as (C & _ & _ & P).
  destruct (fold_left (coef_scan q seats j) votes (0%Q, None)) as [lo [hi|]] eqn:E; cbn [fst snd] in *.
  - destruct C as [Hnn HA HK]. cbn [fst snd] in *. destruct (HK hi eq_refl) as (r0 & Hr0 & Hv0 & Eh).
    pose proof (UPOS r0 Hr0 Hv0) as Hu. pose proof (HA r0 Hr0 Hv0) as Ha. rewrite <- Eh in Hu, Ha.
    assert (Eg : (Qred ((lo + hi) / 2) == (lo + hi) * (1 # 2))%Q) by (rewrite Qred_correct; field).
    split; [rewrite Eg; lra|]. intros r Hr Hv. destruct (P r Hr Hv) as (L1 & h' & Hh' & L2). injection Hh' as <-.
    rewrite Eg. split; lra.
  - split; [reflexivity|]. intros r Hr Hv. destruct (P r Hr Hv) as (_ & h' & Hh' & _). discriminate.
Qed.

Section Init.
  Variable d : Z -> Q.
  Variables q k : Q.
  Hypothesis Hq0 : (0 <= q)%Q.
  Hypothesis Hq1 : (q < 1)%Q.
  Hypothesis Hk : (0 < k)%Q.
  Hypothesis Hd : forall s, (d s == k * (inject_Z s + 1 - q))%Q.
  Variable votes : mat.
  Hypothesis Hwf : wf_votes votes.
  Hypothesis Hvnn : forall i j, 0 <= mget votes i j.
  Notation ds := (districts votes).
  Notation ps := (parties votes).

  Lemma Hdpos : forall s, 0 <= s -> (0 < d s)%Q.
  Proof. intros s Hs. rewrite Hd. pose proof (inj_le 0 s Hs) as H. change (inject_Z 0) with 0%Q in H. nra. Qed.
  Lemma Hdmono : forall s, 0 <= s -> (d s <= d (s + 1))%Q.
  Proof. intros s Hs. rewrite !Hd, inject_Z_plus. change (inject_Z 1) with 1%Q. nra. Qed.

  Notation V i j := (inject_Z (mget votes i j)).

  Lemma V_nonneg i j : (0 <= V i j)%Q.
  Proof. apply (inj_le 0 _ (Hvnn i j)). Qed.

  (* ---------------------------------------------------------------- the column handed to HighestAverages *)
  Lemma row_mget row j : In row votes -> dget_or (snd row) j 0 = mget votes (fst row) j.
  Proof.
    intros H. destruct row as [i r]. destruct Hwf as [Hnd _]. cbn [fst snd]. unfold mget. rewrite (In_dget votes i r Hnd H). reflexivity.
  Qed.
  Lemma column_keys j : map fst (column votes j) = ds.
  Proof. unfold column, districts. rewrite map_map. reflexivity. Qed.
  Lemma column_in j i v : In (i, v) (column votes j) -> In i ds /\ v = V i j.
  Proof.
    unfold column. intros H. apply in_map_iff in H. destruct H as (row & E & Hr). injection E as <- <-.
    split; [apply in_map, Hr|]. rewrite (row_mget row j Hr). reflexivity.
  Qed.
  Lemma column_has j i : In i ds -> In (i, V i j) (column votes j).
  Proof.
    unfold districts, column. intros H. apply in_map_iff in H. destruct H as (row & <- & Hr).
    apply in_map_iff. exists row. split; [|exact Hr]. rewrite (row_mget row j Hr). reflexivity.
  Qed.

  (* a column of the solution: non-negative, inside the districts, adds up to the party's seats, min-max *)
  Definition ColOK (j : C) (nj : Z) (col : C -> Z) : Prop :=
    (forall i, 0 <= col i) /\ (forall i, ~ In i ds -> col i = 0) /\ zsum (map col ds) = nj /\
    (forall i i', In i ds -> In i' ds -> 0 < col i' -> (V i j / d (col i) <= V i' j / d (col i' - 1))%Q).

  Lemma column_ok j nj g t : 0 < nj -> evaluate d (column votes j) nj [] [] = HA_ok g t ->
    ColOK j nj (col_alloc g t) /\ NoDup (map fst g) /\ NoDup (tie_sel t).
  Proof.
    intros Hn He. destruct (evaluate_ok _ _ _ _ _ He) as (Hne & Eg & Et & Hgn & _).
    set (cv := column votes j) in *.
    assert (Hvotes : forall c v, In (c, v) cv -> (0 <= v)%Q).
    { intros c v H. destruct (column_in j c v H) as [_ ->]. apply V_nonneg. }
    assert (Hnd : NoDup (map fst cv)) by (unfold cv; rewrite column_keys; apply (proj1 Hwf)).
    assert (Hn0 : 0 <= nj) by lia.
    set (fin := final_state d cv nj [] []) in *.
    assert (Htot : forall i, dget_or g i 0 = tot fin i) by (intros i; rewrite Eg; reflexivity).
    (* the districts that receive a tie seat *)
    assert (Hsel : NoDup (tie_sel t) /\ (forall i, In i (tie_sel t) -> In i ds /\ exists T r, st_tie fin = Some (T, r) /\ In i T) /\
                   Z.of_nat (length (tie_sel t)) = match st_tie fin with Some (_, r) => r | None => 0 end).
    { rewrite Et. destruct (st_tie fin) as [[T r]|] eqn:Etie; simpl; [|split; [constructor|split; [intros i []|reflexivity]]].
      destruct (mm_tie_nodup d cv nj Hdpos Hdmono Hvotes Hnd T r Etie) as (HT & HTk & Hr).
      pose proof (sort_pos_perm T) as Hp.
      split; [apply firstn_nodup, (Permutation_NoDup (Permutation_sym Hp)), HT|]. split.
      - intros i Hi. apply firstn_incl in Hi. apply (Permutation_in _ Hp) in Hi. split.
        + rewrite <- (column_keys j). apply HTk, Hi.
        + exists T, r. split; [reflexivity|exact Hi].
      - rewrite firstn_length_le; [lia|]. rewrite (Permutation_length Hp). lia. }
    destruct Hsel as (Hsnd & Hsin & Hslen).
    set (e := fun i => if cmem i (tie_sel t) then 1 else 0).
    assert (He01 : forall c, e c = 0 \/ e c = 1) by (intros c; unfold e; destruct (cmem c (tie_sel t)); auto).
    assert (HeT : forall c, e c = 1 -> exists T r, st_tie fin = Some (T, r) /\ In c T).
    { intros c Hc. unfold e in Hc. destruct (cmem c (tie_sel t)) eqn:E; [|discriminate]. apply cmem_In in E. apply (Hsin c E). }
    split; [|split; [exact Hgn|exact Hsnd]].
    assert (Hca : forall i, col_alloc g t i = tot fin i + e i) by (intros i; unfold col_alloc; rewrite Htot; reflexivity).
    unfold ColOK. split; [|split; [|split]].
    - intros i. rewrite Hca. pose proof (mm_t_nonneg d cv nj Hdpos Hdmono Hvotes Hnd i : 0 <= tot fin i). destruct (He01 i) as [E|E]; rewrite E; lia.
    - intros i Hi. rewrite Hca. assert (Ht0 : tot fin i = 0) by (apply (mm_t_outside d cv nj Hdpos Hdmono Hvotes Hnd i); unfold cv; rewrite column_keys; exact Hi). rewrite Ht0.
      unfold e. destruct (cmem i (tie_sel t)) eqn:E; [|reflexivity]. apply cmem_In in E. exfalso. apply Hi, (Hsin i E).
    - rewrite (zsum_map_ext (col_alloc g t) (fun i => tot fin i + e i) ds) by (intros; apply Hca).
      rewrite (zsum_map_plus (tot fin) e ds).
      pose proof (ha_all_seats d cv nj Hdpos Hdmono Hvotes Hnd Hn0 Hne) as Hall. unfold ksum in Hall.
      unfold cv in Hall at 2. rewrite column_keys in Hall. fold fin in Hall.
      assert (Hes : zsum (map e ds) = Z.of_nat (length (tie_sel t))).
      { rewrite <- (ksum_count (tie_sel t) ds (proj1 Hwf) (fun x Hx => proj1 (Hsin x Hx))). unfold ksum.
        apply zsum_map_ext. intros i _. unfold e. symmetry. apply count_cmem, Hsnd. }
      rewrite Hes, Hslen. exact Hall.
    - intros i i' Hi Hi' Hpos'. rewrite !Hca in *.
      apply (ha_minmax_ext d cv nj Hdpos Hdmono Hvotes Hnd Hn0 e He01 HeT i (V i j) i' (V i' j));
        [apply column_has, Hi|apply column_has, Hi'|exact Hpos'].
  Qed.

  Lemma ColOK_ext j nj col col' : (forall i, col i = col' i) -> ColOK j nj col -> ColOK j nj col'.
  Proof.
    intros E (H1 & H2 & H3 & H4). unfold ColOK. split; [|split; [|split]].
    - intros i. rewrite <- E. apply H1.
    - intros i Hi. rewrite <- E. apply H2, Hi.
    - rewrite <- H3. apply zsum_map_ext. intros i _. symmetry. apply E.
    - intros i i' Hi Hi'. rewrite <- !E. apply H4; assumption.
  Qed.

  (* ---------------------------------------------------------------- _initial_solution: the fold over the parties *)
  Variable pseats : list (C * Z).

  Definition FI (todo : list (C * Z)) (sol : mat) : Prop :=
    res_wf votes sol /\ forall j,
      (In j (map fst todo) -> forall i, mget sol i j = 0) /\
      (~ In j (map fst todo) -> ColOK j (dget_or pseats j 0) (fun i => mget sol i j)).

  Lemma init_fold_err todo : forall acc, (forall sol p, acc <> Init_ok sol p) ->
    fold_left (init_column d votes) todo acc = acc.
  Proof.
    induction todo as [|jn todo IH]; intros acc H; simpl; [reflexivity|].
    assert (E : init_column d votes acc jn = acc) by (destruct acc; [exfalso; apply (H sol pseats0); reflexivity|reflexivity..]).
    rewrite E. apply IH, H.
  Qed.

  Lemma init_fold : forall todo sol p0 sol' p1, NoDup (map fst todo) ->
    (forall j nj, In (j, nj) todo -> In j ps /\ 0 < nj /\ dget_or pseats j 0 = nj) ->
    FI todo sol -> fold_left (init_column d votes) todo (Init_ok sol p0) = Init_ok sol' p1 -> FI [] sol'.
  Proof.
    induction todo as [|[j nj] todo IH]; intros sol p0 sol' p1 Hnd Htodo HF H.
    - simpl in H. injection H as <- _. exact HF.
    - simpl in H. inversion Hnd as [|? ? Hjn Hnd']; subst.
      destruct (Htodo j nj (or_introl eq_refl)) as (Hj & Hnj & Hpj).
      destruct (evaluate d (column votes j) nj [] []) as [g t|] eqn:Ee.
      2:{ rewrite init_fold_err in H by (intros; discriminate). discriminate. }
      destruct (place_column sol j g t) as [sol1|] eqn:Ep.
      2:{ rewrite init_fold_err in H by (intros; discriminate). discriminate. }
      apply (IH sol1 p0 sol' p1 Hnd'); [intros j0 n0 H0; apply Htodo; right; exact H0| |exact H].
      destruct (column_ok j nj g t Hnj Ee) as (Hcol & Hgn & Hsn).
      rewrite place_column_folds in Ep.
      destruct (set_fold j g (Some sol)) as [m1|] eqn:Es; [|rewrite incr_fold_none in Ep; discriminate].
      destruct HF as [W HF].
      destruct (set_fold_spec ps j Hj g sol m1 Hgn W Es) as [W1 G1].
      destruct (incr_fold_spec ps j Hj (tie_sel t) m1 sol1 Hsn W1 Ep) as [W2 G2].
      split; [exact W2|]. intros j'. destruct (ceqb j' j) eqn:Ej.
      + apply ceqb_eq in Ej. subst j'. split; [intros Hin; contradiction|]. intros _.
        rewrite Hpj. apply (ColOK_ext j nj (col_alloc g t)); [|exact Hcol].
        intros i. rewrite G2, G1, ceqb_refl. cbn [andb]. unfold col_alloc, dget_or.
        destruct (HF j) as [Hz _]. rewrite (Hz (or_introl eq_refl) i). reflexivity.
      + assert (Hne : j' <> j) by (apply ceqb_neq; exact Ej).
        assert (Hsame : forall i, mget sol1 i j' = mget sol i j').
        { intros i. rewrite G2, G1, Ej. cbn [andb]. lia. }
        destruct (HF j') as [Hz Hc]. split.
        * intros Hin i. rewrite Hsame. apply Hz. right. exact Hin.
        * intros Hnin. apply (ColOK_ext j' _ (fun i => mget sol i j')); [intros i; symmetry; apply Hsame|].
          apply Hc. intros [Hh|Hh]; [simpl in Hh; congruence|contradiction].
  Qed.
End Init.

Lemma zsum_ge_elem {X} (f : X -> Z) l a : (forall x, In x l -> 0 <= f x) -> In a l -> f a <= zsum (map f l).
Proof.
  induction l as [|x l IH]; intros H Ha; [destruct Ha|]. simpl. rewrite zsum_cons.
  assert (0 <= zsum (map f l)) by (apply zsum_map_nonneg; intros y Hy; apply H; right; exact Hy).
  destruct Ha as [->|Ha]; [lia|]. assert (0 <= f x) by (apply H; left; reflexivity).
  assert (f a <= zsum (map f l)) by (apply IH; [intros y Hy; apply H; right; exact Hy|exact Ha]). lia.
Qed.

Lemma div_nonpos_num x dd : (0 < dd)%Q -> (x / dd <= 0)%Q -> (x <= 0)%Q.
Proof. intros Hd H. assert (E : (x == x / dd * dd)%Q) by (field; lra). rewrite E. nra. Qed.

Section InitFinal.
  Variable d : Z -> Q.
  Variables q k : Q.
  Hypothesis Hq0 : (0 <= q)%Q.
  Hypothesis Hq1 : (q < 1)%Q.
  Hypothesis Hk : (0 < k)%Q.
  Hypothesis Hd : forall s, (d s == k * (inject_Z s + 1 - q))%Q.
  Variable votes : mat.
  Hypothesis Hwf : wf_votes votes.
  Hypothesis Hvnn : forall i j, 0 <= mget votes i j.
  Hypothesis Hsome : exists i j, 0 < mget votes i j.
  Variable n : Z.
  Hypothesis Hn : 0 <= n.
  Notation ds := (districts votes).
  Notation ps := (parties votes).
  Notation V i j := (inject_Z (mget votes i j)).
  Notation T j := (inject_Z (colsum votes (districts votes) j)).

  Let Hp := Hdpos d q k Hq1 Hk Hd.
  Let Hm := Hdmono d q k Hk Hd.

  Lemma party_totals_keys : map fst (party_totals votes) = ps.
  Proof. unfold party_totals. rewrite map_map. simpl. apply map_id. Qed.

  Lemma empty_solution_cell i j : mget (empty_solution votes) i j = 0.
  Proof.
    unfold mget, empty_solution. rewrite (dget_map_keyed (fun _ (_ : list (C * Z)) => @nil (C * Z)) votes i).
    destruct (dget votes i); reflexivity.
  Qed.
  Lemma empty_solution_wf : res_wf votes (empty_solution votes).
  Proof.
    intros i row H. unfold empty_solution in H. rewrite (dget_map_keyed (fun _ (_ : list (C * Z)) => @nil (C * Z)) votes i) in H.
    destruct (dget votes i); [|discriminate]. injection H as <-. split; [constructor|intros x []].
  Qed.

  (* the signposts of two cells of a column with votes are compatible: the column is a divisor apportionment *)
  Lemma col_pair j col nj i1 i2 : ColOK d votes j nj col -> In i1 ds -> In i2 ds -> 0 < mget votes i1 j -> 0 < mget votes i2 j ->
    (signpost q (col i1) / V i1 j <= (signpost q (col i2) + 1) / V i2 j)%Q.
  Proof.
    intros (Hnn & _ & _ & Hmm) H1 H2 Hv1 Hv2. unfold signpost.
    pose proof (inj_lt 0 _ Hv1) as Hb. pose proof (inj_lt 0 _ Hv2) as Ha. change (inject_Z 0) with 0%Q in Hb, Ha.
    pose proof (inj_le 0 _ (Hnn i2)) as Hs2. change (inject_Z 0) with 0%Q in Hs2.
    assert (HU : (0 < (inject_Z (col i2) - q + 1) / V i2 j)%Q) by (apply Qlt_shift_div_l; [exact Ha|lra]).
    destruct (Z.eq_dec (col i1) 0) as [E0|E0].
    - rewrite E0. change (inject_Z 0) with 0%Q. apply (Qle_trans _ 0); [|lra].
      apply Qle_shift_div_r; [exact Hb|]. lra.
    - assert (Hs1 : 0 < col i1) by (pose proof (Hnn i1); lia).
      pose proof (Hmm i2 i1 H2 H1 Hs1) as H. rewrite !Hd in H.
      assert (E1 : (inject_Z (col i1 - 1) == inject_Z (col i1) - 1)%Q) by (unfold Z.sub; rewrite inject_Z_plus; reflexivity).
      rewrite E1 in H.
      assert (Hs1q : (1 <= inject_Z (col i1))%Q) by (apply (inj_le 1); lia).
      set (a := V i2 j) in *. set (b := V i1 j) in *. set (A := (inject_Z (col i2) + 1 - q)%Q) in *.
      set (B := (inject_Z (col i1) - 1 + 1 - q)%Q) in *.
      assert (HA : (0 < A)%Q) by (unfold A; lra). assert (HB : (0 < B)%Q) by (unfold B; lra).
      assert (Ea : (a == a / (k * A) * (k * A))%Q) by (field; split; lra).
      assert (Eb : (b == b / (k * B) * (k * B))%Q) by (field; split; lra).
      assert (Hcross : (a * B <= b * A)%Q).
      { rewrite Ea at 1. rewrite Eb at 1. set (x := (a / (k * A))%Q) in *. set (y := (b / (k * B))%Q) in *.
        assert (0 <= (y - x) * (k * A * B))%Q by (apply Qmult_le_0_compat; [lra|]; apply Qlt_le_weak; repeat apply Qmult_lt_0_compat; assumption).
        lra. }
      apply Qle_shift_div_l; [exact Ha|].
      assert (E2 : ((inject_Z (col i1) - q) / b * a == (inject_Z (col i1) - q) * a / b)%Q) by (field; lra).
      rewrite E2. apply Qle_shift_div_r; [exact Hb|]. unfold A, B in Hcross. lra.
  Qed.

  Theorem binit_inv s : binit d q votes n = inr s ->
    exists pseats, evaluate d (party_totals votes) n [] [] = HA_ok pseats None /\ BInv q votes pseats s.
  Proof.
    unfold binit, initial_solution.
    destruct (evaluate d (party_totals votes) n [] []) as [pseats [tie|]|] eqn:Ep; try discriminate.
    destruct (fold_left (init_column d votes) pseats (Init_ok (empty_solution votes) pseats)) as [sol p1| | |] eqn:Ef; try discriminate.
    intros [= <-]. exists pseats. split; [reflexivity|].
    destruct (evaluate_ok _ _ _ _ _ Ep) as (Hne & Eg & Et & Hgn & Hgp).
    set (pv := party_totals votes) in *.
    assert (Hpv : forall c v, In (c, v) pv -> (0 <= v)%Q).
    { intros c v H. unfold pv, party_totals in H. apply in_map_iff in H. destruct H as (j & E & _). injection E as _ <-.
      apply (inj_le 0). unfold colsum. apply zsum_map_nonneg. intros i _. apply Hvnn. }
    assert (Hpnd : NoDup (map fst pv)) by (unfold pv; rewrite party_totals_keys; apply parties_nodup).
    set (fin := final_state d pv n [] []) in *.
    assert (HS : forall j, dget_or pseats j 0 = tot fin j) by (intros j; rewrite Eg; reflexivity).
    assert (Hkeys : forall j nj, In (j, nj) pseats -> In j ps /\ 0 < nj /\ dget_or pseats j 0 = nj).
    { intros j nj Hin. pose proof (all_pos_in _ _ _ Hgp Hin) as Hpos.
      assert (E : dget_or pseats j 0 = nj) by (unfold dget_or; rewrite (In_dget _ _ _ Hgn Hin); reflexivity).
      split; [|split; [exact Hpos|exact E]].
      destruct (in_dec Pos.eq_dec j ps) as [Hi|Hni]; [exact Hi|exfalso].
      assert (tot fin j = 0) by (apply (mm_t_outside d pv n Hp Hm Hpv Hpnd j); unfold pv; rewrite party_totals_keys; exact Hni).
      rewrite <- HS in H. lia. }
    (* the fold over the parties *)
    assert (HF0 : FI d votes pseats pseats (empty_solution votes)).
    { split; [apply empty_solution_wf|]. intros j. split; [intros _ i; apply empty_solution_cell|].
      intros Hnin. rewrite (notin_dget_none pseats j Hnin) || (unfold dget_or; rewrite (notin_dget_none pseats j Hnin)).
      unfold ColOK. split; [intros i; rewrite empty_solution_cell; lia|]. split; [intros i _; apply empty_solution_cell|]. split.
      - rewrite (zsum_map_ext _ (fun _ => 0) ds) by (intros; apply empty_solution_cell). apply zsum_map_zero.
      - intros i i' _ _ H. rewrite empty_solution_cell in H. lia. }
    destruct (init_fold d q k Hq1 Hk Hd votes Hwf Hvnn pseats pseats _ _ _ _ Hgn Hkeys HF0 Ef) as [W HC].
    assert (Hcol : forall j, ColOK d votes j (dget_or pseats j 0) (fun i => mget sol i j)) by (intros j; apply (HC j); intros []).
    clear HC.
    (* the party level: tie-free min-max *)
    assert (PM : forall j j', In j ps -> In j' ps -> 0 < dget_or pseats j' 0 ->
              (T j / d (dget_or pseats j 0%Z) <= T j' / d (dget_or pseats j' 0%Z - 1)%Z)%Q).
    { intros j j' Hj Hj' Hpos. rewrite !HS in *.
      pose proof (ha_minmax_ext d pv n Hp Hm Hpv Hpnd Hn (fun _ => 0) (fun _ => or_introl eq_refl)
                   (fun c (H : 0 = 1) => ltac:(discriminate)) j (T j) j' (T j')) as H.
      rewrite !Z.add_0_r in H. apply H; [| |exact Hpos]; unfold pv, party_totals; apply in_map_iff; eexists; (split; [reflexivity|assumption]). }
    (* no seat without votes *)
    assert (Hzero : forall i j, mget votes i j = 0 -> mget sol i j = 0).
    { intros i j Hv. destruct (Hcol j) as (Hnn & Hout & Hsum & Hmm).
      destruct (in_dec Pos.eq_dec i ds) as [Hi|Hni]; [|apply Hout, Hni].
      destruct (Z.eq_dec (mget sol i j) 0) as [E|E]; [exact E|exfalso].
      assert (Hs : 0 < mget sol i j) by (pose proof (Hnn i); lia).
      (* the whole column j is without votes *)
      assert (Hcolz : forall i0, In i0 ds -> mget votes i0 j = 0).
      { intros i0 Hi0. pose proof (Hmm i0 i Hi0 Hi Hs) as H. rewrite Hv in H.
        assert (E0 : (inject_Z 0 / d (mget sol i j - 1) == 0)%Q) by (change (inject_Z 0) with 0%Q; unfold Qdiv; ring).
        rewrite E0 in H. apply div_nonpos_num in H; [|apply Hp; apply Hnn].
        pose proof (Hvnn i0 j). pose proof (inj_lt 0 (mget votes i0 j)) as Hl. change (inject_Z 0) with 0%Q in Hl.
        destruct (Z.eq_dec (mget votes i0 j) 0) as [Ez|Ez]; [exact Ez|]. specialize (Hl ltac:(lia)). lra. }
      assert (HTj : colsum votes ds j = 0).
      { unfold colsum. rewrite (zsum_map_ext _ (fun _ => 0) ds) by (intros; apply Hcolz; assumption). apply zsum_map_zero. }
      assert (Hnj : 0 < dget_or pseats j 0).
      { rewrite <- Hsum. pose proof (zsum_ge_elem (fun i => mget sol i j) ds i (fun x _ => Hnn x) Hi). cbv beta in H. lia. }
      assert (Hjps : In j ps).
      { unfold dget_or in Hnj. destruct (dget pseats j) as [nj|] eqn:Ed; [|lia]. apply (Hkeys j nj), dget_In, Ed. }
      destruct Hsome as (i1 & j1 & Hpos1).
      destruct (support_in_index votes i1 j1 ltac:(lia)) as [Hi1 Hj1].
      pose proof (PM j1 j Hj1 Hjps Hnj) as H. rewrite HTj in H.
      assert (E0 : (inject_Z 0 / d (dget_or pseats j 0%Z - 1)%Z == 0)%Q) by (change (inject_Z 0) with 0%Q; unfold Qdiv; ring).
      rewrite E0 in H. apply div_nonpos_num in H.
      2:{ apply Hp. rewrite HS. apply (mm_t_nonneg d pv n Hp Hm Hpv Hpnd). }
      pose proof (zsum_ge_elem (fun i => mget votes i j1) ds i1 (fun x _ => Hvnn x j1) Hi1) as Hge. cbv beta in Hge.
      fold (colsum votes ds j1) in Hge. pose proof (inj_lt 0 (colsum votes ds j1) ltac:(lia)) as Hl. change (inject_Z 0) with 0%Q in Hl. lra. }
    (* the party multipliers *)
    assert (Hcoef : forall j, In j ps ->
              (0 < party_coef q votes sol j)%Q /\
              forall i, In i ds -> 0 < mget votes i j ->
                (signpost q (mget sol i j) / V i j <= party_coef q votes sol j)%Q /\
                (party_coef q votes sol j <= (signpost q (mget sol i j) + 1) / V i j)%Q).
    { intros j Hj.
      assert (Hrow : forall r, In r votes -> dget_or (snd r) j 0 <> 0 -> In (fst r) ds /\ 0 < mget votes (fst r) j /\ dget_or (snd r) j 0 = mget votes (fst r) j).
      { intros r Hr Hv. pose proof (row_mget votes Hwf r j Hr) as E. rewrite E in Hv |- *. pose proof (Hvnn (fst r) j).
        split; [apply in_map, Hr|]. split; [lia|reflexivity]. }
      destruct (party_coef_ok q votes sol j) as [G1 G2].
      - intros r1 r2 Hr1 Hr2 Hv1 Hv2. destruct (Hrow r1 Hr1 Hv1) as (D1 & P1 & ->). destruct (Hrow r2 Hr2 Hv2) as (D2 & P2 & ->).
        apply (col_pair j (fun i => mget sol i j) _ (fst r1) (fst r2) (Hcol j) D1 D2 P1 P2).
      - intros r Hr Hv. destruct (Hrow r Hr Hv) as (D1 & P1 & ->). destruct (Hcol j) as (Hnn & _).
        pose proof (inj_lt 0 _ P1) as Hb. change (inject_Z 0) with 0%Q in Hb.
        pose proof (inj_le 0 _ (Hnn (fst r))) as Hs. change (inject_Z 0) with 0%Q in Hs. cbv beta in Hs.
        apply Qlt_shift_div_l; [exact Hb|]. unfold signpost. lra.
      - split; [exact G1|]. intros i Hi Hv. unfold districts in Hi. apply in_map_iff in Hi. destruct Hi as (r & <- & Hr).
        pose proof (row_mget votes Hwf r j Hr) as E. specialize (G2 r Hr). rewrite E in G2. apply G2. lia. }
    constructor; cbn [b_res b_rho b_gamma].
    - exact W.
    - intros j Hj. destruct (Hcol j) as (_ & _ & Hsum & _). exact Hsum.
    - intros i j. destruct (Hcol j) as (Hnn & _). apply Hnn.
    - exact Hzero.
    - intros i Hi. unfold mul, dget_or, initial_district_coefs.
      rewrite (dget_map_keyed (fun _ (_ : list (C * Z)) => 1%Q) votes i). destruct (dget votes i) eqn:E; simpl; [reflexivity|].
      exfalso. apply (dget_none_notin _ _ E Hi).
    - intros j Hj. change (initial_party_coefs q votes sol) with (tab (party_coef q votes sol) ps). rewrite (mul_tab (party_coef q votes sol) ps j Hj). apply (Hcoef j Hj).
    - intros i j Hi Hj. change (initial_party_coefs q votes sol) with (tab (party_coef q votes sol) ps). rewrite (mul_tab (party_coef q votes sol) ps j Hj).
      assert (E1 : mul (initial_district_coefs votes) i = 1%Q).
      { unfold mul, dget_or, initial_district_coefs.
        rewrite (dget_map_keyed (fun _ (_ : list (C * Z)) => 1%Q) votes i). destruct (dget votes i) eqn:E; simpl; [reflexivity|].
        exfalso. apply (dget_none_notin _ _ E Hi). }
      rewrite E1. destruct (Hcoef j Hj) as [G1 G2]. unfold within, quot.
      destruct (Z.eq_dec (mget votes i j) 0) as [Ev|Ev].
      + rewrite Ev, (Hzero i j Ev). unfold signpost. change (inject_Z 0) with 0%Q.
        assert (E0 : (0 * 1 * party_coef q votes sol j == 0)%Q) by ring. rewrite E0. repeat split; lra.
      + assert (Hv : 0 < mget votes i j) by (pose proof (Hvnn i j); lia).
        destruct (G2 i Hi Hv) as [L1 L2]. pose proof (inj_lt 0 _ Hv) as Hb. change (inject_Z 0) with 0%Q in Hb.
        set (g := party_coef q votes sol j) in *. set (b := V i j) in *. set (sg := signpost q (mget sol i j)) in *.
        assert (Es : (sg == sg / b * b)%Q) by (field; lra).
        assert (Es1 : (sg + 1 == (sg + 1) / b * b)%Q) by (field; lra).
        split; [nra|]. split.
        * rewrite Es. nra.
        * rewrite Es1. nra.
  Qed.
End InitFinal.

(* ------------------------------------------------------------------ the test that opens evaluate (fixes/C07-all-zero.diff) *)
Lemma has_votes_false votes : has_votes votes = false -> forall i j, mget votes i j = 0.
Proof.
  intros H i j. unfold mget, dget_or. destruct (dget votes i) as [row|] eqn:Ei; [|reflexivity].
  destruct (dget row j) as [v|] eqn:Ej; [|reflexivity].
  destruct (Z.eq_dec v 0) as [E|E]; [exact E|exfalso].
  assert (has_votes votes = true); [|congruence].
  unfold has_votes. apply existsb_exists. exists (i, row). split; [apply (dget_In _ _ _ Ei)|].
  apply existsb_exists. exists (j, v). split; [apply (dget_In _ _ _ Ej)|]. cbn [snd]. apply negb_true_iff, Z.eqb_neq, E.
Qed.
Lemma has_votes_true votes : wf_votes votes -> has_votes votes = true -> exists i j, mget votes i j <> 0.
Proof.
  intros [Hnd Hrows] H. unfold has_votes in H. apply existsb_exists in H. destruct H as ([i row] & Hr & H).
  apply existsb_exists in H. destruct H as ([j v] & Hkv & H). cbn [snd] in *. apply negb_true_iff, Z.eqb_neq in H.
  pose proof (Hrows _ Hr) as Hrow. cbn [snd] in Hrow.
  exists i, j. unfold mget, dget_or. rewrite (In_dget _ _ _ Hnd Hr), (In_dget _ _ _ Hrow Hkv). exact H.
Qed.

(* with no seat to fill nobody is eligible: HighestAverages.evaluate raises (zip of an empty list) *)
Lemma initial_quotients_nonpos d (vs : list (C * Q)) n : n <= 0 -> initial_quotients d vs [] [] n = [].
Proof.
  intros Hn. unfold initial_quotients.
  match goal with |- rev (_ _ ?l) = [] => assert (E : l = []) end.
  { induction vs as [|[c v] t IH]; [reflexivity|]. cbn [flat_map]. rewrite IH.
    unfold cap_of, dget_or. cbn [dget]. assert (0 <? n = false) as -> by (apply Z.ltb_ge; exact Hn).
    destruct (Qle_bool (d 0) 0); reflexivity. }
  rewrite E. reflexivity.
Qed.
Lemma initial_quotients_zero d (vs : list (C * Q)) : initial_quotients d vs [] [] 0 = [].
Proof. apply initial_quotients_nonpos. lia. Qed.
Lemma evaluate_nonpos d vs n : n <= 0 -> evaluate d vs n [] [] = HA_value_error.
Proof. intros Hn. unfold evaluate. rewrite (initial_quotients_nonpos d vs n Hn). reflexivity. Qed.

(* ------------------------------------------------------------------ the whole evaluate: partial correctness *)
Section Whole.
  Variable d : Z -> Q.
  Variables q k : Q.
  Hypothesis Hq0 : (0 <= q)%Q.
  Hypothesis Hq1 : (q < 1)%Q.
  Hypothesis Hk : (0 < k)%Q.
  Hypothesis Hd : forall s, (d s == k * (inject_Z s + 1 - q))%Q.
  Variable votes : mat.
  Hypothesis Hwf : wf_votes votes.
  Hypothesis Hvnn : forall i j, 0 <= mget votes i j.
  Variable n : Z.
  Hypothesis Hn : 0 <= n.
  Variable dorder : list C.
  Hypothesis Hdorder : incl (districts votes) dorder.

  (* the code as it stands ([strict] = true) refuses an election without votes, so "some vote is positive" is no longer a
     hypothesis; the pinned tree ([strict] = false) needs it (Props/C07.v C07_all_zero_refuted) *)
  Lemma not_refused_some strict : strict = true \/ (exists i j, 0 < mget votes i j) ->
    refuses_empty votes strict = false -> exists i j, 0 < mget votes i j.
  Proof.
    intros [->|H] Hr; [|exact H]. unfold refuses_empty in Hr. cbn [andb] in Hr. apply negb_false_iff in Hr.
    destruct (has_votes_true votes Hwf Hr) as (i & j & Hij). exists i, j. pose proof (Hvnn i j). lia.
  Qed.

  Theorem evaluate_core_partial strict tgt fuel res rho gamma : strict = true \/ (exists i j, 0 < mget votes i j) ->
    evaluate_core d q votes tgt dorder strict n fuel = BP_ok res rho gamma ->
    exists pseats, ha_marginal d (party_totals votes) n = Some pseats /\
      cert_ok d (districts votes) (parties votes) votes tgt pseats res (scale_k k rho) gamma = true.
  Proof.
    intros Hs. unfold evaluate_core. destruct (refuses_empty votes strict) eqn:Er; [discriminate|].
    pose proof (not_refused_some strict Hs Er) as Hsome.
    destruct (binit d q votes n) as [e|s] eqn:Ei; [intros ->; unfold binit in Ei;
      destruct (initial_solution d votes n); discriminate|].
    intros H. destruct (binit_inv d q k Hq0 Hq1 Hk Hd votes Hwf Hvnn Hsome n Hn s Ei) as (pseats & Ep & I).
    exists pseats. split; [unfold ha_marginal; rewrite Ep; reflexivity|].
    apply (bloop_partial d q k Hq0 Hq1 Hk Hd votes Hwf pseats tgt dorder Hdorder fuel s res rho gamma I H).
  Qed.

  Theorem evaluate_total_partial strict fuel res rho gamma : strict = true \/ (exists i j, 0 < mget votes i j) ->
    evaluate_total d q votes strict n dorder fuel = BP_ok res rho gamma ->
    exists pseats dseats, ha_marginal d (party_totals votes) n = Some pseats /\
      ha_marginal d (district_totals votes) n = Some dseats /\
      cert_ok d (districts votes) (parties votes) votes dseats pseats res (scale_k k rho) gamma = true.
  Proof.
    intros Hs. unfold evaluate_total. destruct (refuses_empty votes strict) eqn:Er; [discriminate|].
    destruct (binit d q votes n) as [e|s] eqn:Ei; [intros ->; unfold binit in Ei;
      destruct (initial_solution d votes n); discriminate|].
    destruct (evaluate d (district_totals votes) n [] []) as [tgt [t|]|] eqn:Et; try discriminate.
    intros H. destruct (evaluate_core_partial strict tgt fuel res rho gamma Hs H) as (pseats & Hp & Hc).
    exists pseats, tgt. split; [exact Hp|]. split; [unfold ha_marginal; rewrite Et; reflexivity|exact Hc].
  Qed.

  (* the refusal is justified: without a vote no seat matrix has the party marginal and empty cells where there are no
     votes (the party marginal hands out n >= 1 seats: with n = 0 HighestAverages raises, there is no marginal) *)
  Theorem no_votes_infeasible pseats : has_votes votes = false ->
    ha_marginal d (party_totals votes) n = Some pseats ->
    forall dseats res, ~ biprop_spec d (districts votes) (parties votes) votes dseats pseats res.
  Proof.
    intros Hz Hm dseats res (rho & gamma & S).
    pose proof (has_votes_false votes Hz) as Hzero.
    apply ha_marginal_spec in Hm.
    destruct (evaluate_ok _ _ _ _ _ Hm) as (Hne & Eg & Et & Hgn & Hgp).
    set (pv := party_totals votes) in *.
    pose proof (Hdpos d q k Hq1 Hk Hd) as Hp. pose proof (Hdmono d q k Hk Hd) as Hmo.
    assert (Hpv : forall c v, In (c, v) pv -> (0 <= v)%Q).
    { intros c v H. unfold pv, party_totals in H. apply in_map_iff in H. destruct H as (j & E & _). injection E as _ <-.
      apply (inj_le 0). unfold colsum. apply zsum_map_nonneg. intros i _. apply Hvnn. }
    assert (Hpnd : NoDup (map fst pv)) by (unfold pv; rewrite party_totals_keys; apply parties_nodup).
    pose proof (ha_all_seats d pv n Hp Hmo Hpv Hpnd Hn Hne) as Hall. rewrite <- Et in Hall.
    (* n >= 1: with n = 0 nobody is eligible *)
    assert (Hn1 : 0 < n).
    { destruct (Z.eq_dec n 0) as [E0|E0]; [|lia]. exfalso. subst n. unfold evaluate in Hm.
      rewrite initial_quotients_zero in Hm. discriminate. }
    (* every column of the matrix is empty, so every party total of the marginal is 0 *)
    assert (Hcol : forall j, In j (parties votes) -> tot (final_state d pv n [] []) j = 0).
    { intros j Hj. change (tot (final_state d pv n [] []) j) with (dget_or (st_totals (final_state d pv n [] [])) j 0).
      rewrite <- Eg. rewrite <- (sp_cols _ _ _ _ _ _ _ _ _ S j Hj). unfold colsum.
      rewrite (zsum_map_ext _ (fun _ => 0) (districts votes)); [apply zsum_map_zero|].
      intros i _. apply (sp_zero _ _ _ _ _ _ _ _ _ S i j (Hzero i j)). }
    unfold pv in Hall. rewrite party_totals_keys in Hall. unfold ksum in Hall.
    rewrite (zsum_map_ext _ (fun _ => 0) (parties votes)) in Hall by exact Hcol. rewrite zsum_map_zero in Hall. lia.
  Qed.
End Whole.

(* ------------------------------------------------------------------ BP_no_votes is only produced by the opening test *)
Lemma bstep_body_not_no_votes q votes s under over : bstep_body q votes s under over <> Stop BP_no_votes.
Proof.
  unfold bstep_body.
  destruct (labeled q (parties votes) (districts votes) _ (b_res s) under over) as [LD LP| |]; try discriminate.
  destruct (sort_pos (filter (fun i => dmem LD i) under)) as [|start rest].
  - destruct (adj_coef q _ (b_res s) (map fst LD) (map fst LP)) as [a|]; [|discriminate].
    destruct (Qeq_bool a 0 || Qle_bool 1 a); discriminate.
  - destruct (walk (S (length LD)) LD LP over start [] []) as [hops| |]; try discriminate.
    destruct (augment (b_res s) start hops); discriminate.
Qed.
Lemma bloop_not_no_votes q votes tgt dorder : forall fuel s, bloop q votes tgt dorder fuel s <> BP_no_votes.
Proof.
  induction fuel as [|f IH]; intros s; simpl; [discriminate|].
  destruct (bstep q votes tgt dorder s) as [|s'|r] eqn:E; [discriminate|apply IH|].
  intros ->. revert E. unfold bstep. cbv zeta.
  destruct (fst (unsat dorder (b_res s) tgt)); [destruct (snd (unsat dorder (b_res s) tgt)); [discriminate|]|];
    apply bstep_body_not_no_votes.
Qed.
Lemma evaluate_core_no_votes d q votes tgt dorder n fuel :
  evaluate_core d q votes tgt dorder true n fuel = BP_no_votes <-> has_votes votes = false.
Proof.
  unfold evaluate_core, refuses_empty. cbn [andb]. destruct (has_votes votes); cbn [negb]; [|tauto].
  split; [|discriminate]. intros H. exfalso. revert H.
  destruct (binit d q votes n) as [e|s] eqn:Ei; [|apply bloop_not_no_votes].
  intros ->. unfold binit in Ei. destruct (initial_solution d votes n); discriminate.
Qed.
Lemma evaluate_total_no_votes d q votes dorder n fuel :
  evaluate_total d q votes true n dorder fuel = BP_no_votes <-> has_votes votes = false.
Proof.
  unfold evaluate_total. pose proof (evaluate_core_no_votes d q votes) as Hc. unfold refuses_empty in *. cbn [andb].
  destruct (has_votes votes); cbn [negb]; [|tauto].
  split; [|discriminate]. intros H. exfalso. revert H.
  destruct (binit d q votes n) as [e|s] eqn:Ei.
  - intros ->. unfold binit in Ei. destruct (initial_solution d votes n); discriminate.
  - destruct (evaluate d (district_totals votes) n [] []) as [tgt [t|]|]; try discriminate.
    intros H. apply Hc in H. discriminate.
Qed.

(* the two divisor rules the evaluator knows the signpost constant of *)
Lemma d_hondt_signposts s : (d_hondt s == 1 * (inject_Z s + 1 - 0))%Q.
Proof. unfold d_hondt. rewrite inject_Z_plus. change (inject_Z 1) with 1%Q. ring. Qed.
Lemma sainte_lague_signposts s : (sainte_lague s == 2 * (inject_Z s + 1 - (1 # 2)))%Q.
Proof.
  unfold sainte_lague. rewrite inject_Z_plus, inject_Z_mult. change (inject_Z 1) with 1%Q. change (inject_Z 2) with 2%Q. field.
Qed.
