(* Scale invariance (C11) of proportional approval voting (PAV) and its sequential variant (SPAV), Model/Cardinal.v:
   multiplying every ballot weight by k > 0 multiplies every satisfaction sum / every round score by k (up to ==),
   so the set of maximisers (and the refusal when it is not a singleton), the order of the satisfaction drops,
   every round leader and every tie refusal of SPAV are unchanged. *)
From Coq Require Import ZArith QArith List Bool Lia Lqa Qfield.
From VL Require Import Prelude.PyDict Model.GetNBest Model.Convert Model.Cardinal
     Proofs.Dict_proofs Proofs.GetNBest_proofs Proofs.QOrd Proofs.LRScale_proofs Proofs.STVScale_proofs
     Proofs.Scale2Add_proofs Proofs.Scale2Bucklin_proofs.
Import ListNotations.
Open Scope Q_scope.

Section PAVScale.
  Variable k : Q.
  Hypothesis Hk : 0 < k.
  Notation qs := (qsc k).

  Definition aprel : aprofile -> aprofile -> Prop := lrel (K := list C) qs.
  Notation trel := (vrel k).

  Lemma aprel_keys v v' : aprel v v' -> map fst v' = map fst v.
  Proof. apply (lrel_keys qs). Qed.

  Lemma satisfaction_rel v v' alt : aprel v v' -> qs (satisfaction v alt) (satisfaction v' alt).
  Proof.
    intros H. unfold satisfaction.
    assert (H0 : qs 0 0) by (unfold qsc; ring). revert H0. generalize 0 at 1 3. generalize 0.
    induction H as [|y y' l l' [Hy Hw] Hl IH]; intros a' a Ha; cbn [fold_left]; [exact Ha|].
    apply IH. replace (fst y') with (fst y) by exact Hy. unfold qsc in *. rewrite Ha, Hw. ring.
  Qed.

  Lemma cands_rel v v' : aprel v v' -> canon_set (flat_map fst v') = canon_set (flat_map fst v).
  Proof.
    intros H. f_equal. induction H as [|y y' l l' [Hy _] Hl IH]; cbn [flat_map]; [reflexivity|].
    rewrite IH. f_equal. symmetry. exact Hy.
  Qed.

  Definition screl : list (list C * Q) -> list (list C * Q) -> Prop := lrel (K := list C) qs.

  Lemma scored_rel v v' alts : aprel v v' ->
    screl (map (fun a => (a, satisfaction v a)) alts) (map (fun a => (a, satisfaction v' a)) alts).
  Proof.
    intros H. induction alts as [|a alts IH]; cbn [map]; constructor; [|exact IH].
    split; [reflexivity|]. cbn [snd]. apply satisfaction_rel, H.
  Qed.

  Lemma fold_best_rel l l' : screl l l' -> forall b b', qs b b' ->
    qs (fold_left (fun b (sa : list C * Q) => if Qle_bool b (snd sa) then snd sa else b) l b)
       (fold_left (fun b (sa : list C * Q) => if Qle_bool b (snd sa) then snd sa else b) l' b').
  Proof.
    intros H. induction H as [|y y' l l' [_ Hy] Hl IH]; intros b b' Hb; cbn [fold_left]; [exact Hb|].
    apply IH. rewrite (qsc_le k Hk _ _ _ _ Hb Hy). destruct (Qle_bool b (snd y)); assumption.
  Qed.

  Lemma filter_best_rel b b' l l' : qs b b' -> screl l l' ->
    map fst (filter (fun sa : list C * Q => Qeq_bool (snd sa) b') l') = map fst (filter (fun sa : list C * Q => Qeq_bool (snd sa) b) l).
  Proof.
    intros Hb H. induction H as [|y y' l l' [Hy Hv] Hl IH]; cbn [filter]; [reflexivity|].
    rewrite (qsc_eq k Hk _ _ _ _ Hv Hb). destruct (Qeq_bool (snd y) b); cbn [map]; rewrite IH; [|reflexivity].
    f_equal. symmetry. exact Hy.
  Qed.

  Lemma pav_best_rel v v' cands n : aprel v v' -> pav_best v' cands n = pav_best v cands n.
  Proof.
    intros H. unfold pav_best. cbv zeta. pose proof (scored_rel v v' (combos cands n) H) as Hs.
    destruct Hs as [|[a s] [a' s'] l l' Hy Hl]; [reflexivity|].
    assert (Hyl : screl ((a, s) :: l) ((a', s') :: l')) by (constructor; assumption).
    apply filter_best_rel; [|exact Hyl]. apply fold_best_rel; [exact Hyl|exact (proj2 Hy)].
  Qed.

  Theorem pav_rel v v' n : aprel v v' -> pav v' n = pav v n.
  Proof.
    intros H. unfold pav. cbv zeta. rewrite (cands_rel v v' H), (pav_best_rel v v' _ n H).
    destruct (pav_best v (canon_set (flat_map fst v)) n) as [|alt [|? ?]]; try reflexivity.
    f_equal. apply (get_n_best_rel Qle_bool Qle_bool qs (qsc_le k Hk)).
    induction alt as [|c alt' IH] in |- * at 2 4; cbn [map]; constructor; [|exact IH].
    split; [reflexivity|]. cbn [snd]. pose proof (satisfaction_rel v v' (filter (fun x => negb (ceqb x c)) alt) H) as Hs.
    unfold qsc in *. rewrite Hs. ring.
  Qed.

  (* ---- SPAV *)
  Lemma spav_inner_rel (b : list C) x x' : qs x x' -> forall d d', trel d d' ->
    trel (fold_left (fun d c => dset d c (dget_or d c 0 + x)) b d) (fold_left (fun d c => dset d c (dget_or d c 0 + x')) b d').
  Proof.
    intros Hx. induction b as [|c b IH]; intros d d' Hd; cbn [fold_left]; [exact Hd|].
    apply IH. exact (tadd_rel k d d' c x x' Hd Hx).
  Qed.

  Lemma spav_round_rel v v' elected : aprel v v' -> trel (spav_round v elected) (spav_round v' elected).
  Proof.
    intros H. unfold spav_round. cbv zeta.
    apply (lrel_filter_fst qs (fun c => negb (cmem c elected))).
    assert (H0 : trel [] []) by constructor. revert H0. generalize (@nil (C * Q)) at 1 3. generalize (@nil (C * Q)).
    induction H as [|y y' l l' [Hy Hw] Hl IH]; intros d' d Hd; cbn [fold_left]; [exact Hd|].
    apply IH. replace (fst y') with (fst y) by exact Hy. apply spav_inner_rel; [|exact Hd].
    unfold qsc in *. rewrite Hw. unfold Qdiv. ring.
  Qed.

  Lemma spav_loop_rel v v' n : aprel v v' -> forall fuel elected, spav_loop fuel v' n elected = spav_loop fuel v n elected.
  Proof.
    intros H. induction fuel as [|f IH]; intros elected; cbn [spav_loop]; [reflexivity|].
    destruct (Nat.leb n (length elected)); [reflexivity|].
    rewrite (get_n_best_rel Qle_bool Qle_bool qs (qsc_le k Hk) _ _ 1%nat (spav_round_rel v v' elected H)).
    destruct (get_n_best Qle_bool (spav_round v elected) 1) as [|[c|T] r]; try reflexivity. apply IH.
  Qed.

  Theorem spav_rel v v' n : aprel v v' -> spav v' n = spav v n.
  Proof. intros H. apply spav_loop_rel, H. Qed.

  Lemma aprel_scale (votes : aprofile) : aprel votes (scale_w k votes).
  Proof.
    induction votes as [|y l IH]; cbn [scale_w map]; constructor; [|exact IH].
    split; [reflexivity|]. cbn [snd]. unfold qsc. reflexivity.
  Qed.

  Theorem pav_scale votes n : pav (scale_w k votes) n = pav votes n.
  Proof. apply pav_rel, aprel_scale. Qed.

  Theorem pav_best_scale votes cands n : pav_best (scale_w k votes) cands n = pav_best votes cands n.
  Proof. apply pav_best_rel, aprel_scale. Qed.

  Theorem spav_scale votes n : spav (scale_w k votes) n = spav votes n.
  Proof. apply spav_rel, aprel_scale. Qed.
End PAVScale.
