(* More fold and dictionary lemmas for the translator ties of the converters (nothing about generated code): a profile split
   into one-key ballots, dictionaries of permuted profiles. *)
From Coq Require Import ZArith QArith List Bool Lia Arith Permutation.
From VL Require Import Prelude.Sx Prelude.PyDict Prelude.GDict Prelude.PyNum Prelude.PyList Prelude.PySeq Prelude.PyConv Model.GetNBest
     Model.Convert Model.Convert2 Proofs.Convert_proofs Proofs.Convert2_proofs Proofs.JR_proofs Proofs.ChainCands_proofs Proofs.GenConvert_proofs.
Import ListNotations.
Open Scope Q_scope.

Lemma fold_left_flat_map {X Y Z} (F : Z -> Y -> Z) (g : X -> list Y) (l : list X) : forall a,
  fold_left F (flat_map g l) a = fold_left (fun a x => fold_left F (g x) a) l a.
Proof. induction l as [|x l IH]; intros a; cbn [flat_map fold_left]; [reflexivity|]. rewrite fold_left_app. apply IH. Qed.

(* the profile of one-key ballots a profile splits into: converting it (every ballot to its own key) is converting the profile *)
Definition split_profile {B} (img : B -> list (sx * Q)) (votes : list (B * Q)) : list (sx * Q) :=
  flat_map (fun bw => map (fun kc => (fst kc, snd kc * snd bw)) (img (fst bw))) votes.

Lemma dconv_ballot_perm {B} (img : B -> list (sx * Q)) (a b : list (B * Q)) :
  Permutation a b -> dsim (dconv img a) (dconv img b).
Proof.
  intros H. repeat split; try apply nodup_conv.
  - unfold dconv, conv. rewrite !keys_conv_from. intros [I|(bw & I1 & I2)]; [left; exact I|right; exists bw; split; [|exact I2]].
    apply (Permutation_in _ H). exact I1.
  - unfold dconv, conv. rewrite !keys_conv_from. intros [I|(bw & I1 & I2)]; [left; exact I|right; exists bw; split; [|exact I2]].
    apply (Permutation_in _ (Permutation_sym H)). exact I1.
  - intros k. apply (conv_perm sx_eqb sx_eqb_spec img). exact H.
Qed.
