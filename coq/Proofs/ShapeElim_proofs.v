(* Result shape (C08), fourth part: the elimination rules.  Benham over Model/Hybrids.v (repaired elimination step, fx = true;
   repaired for a candidate that stands alone, sc = true): the answer is one plain candidate of the votes or one tie object of
   the last two, and the only other outcome is the declared refusal NotImplementedError; the possible outcomes of one tier of
   the Tideman alternative (the tiers together: Proofs/HybridTiers_proofs.v); Baldwin over Model/Elimination.v: always exactly
   n entries in shape, no refusal at all. *)
From Coq Require Import ZArith QArith List Bool Lia Permutation Arith.
From VL Require Import Prelude.PyDict Model.GetNBest Model.Convert Model.STV Model.Condorcet Model.Hybrids
     Proofs.GetNBest_proofs Proofs.QOrd Proofs.Condorcet_proofs Proofs.Smith_proofs Proofs.Shape_proofs Proofs.Shape2_proofs
     Proofs.Threshold_proofs Proofs.Hybrids_proofs.
Import ListNotations.
Close Scope Q_scope.
Close Scope Z_scope.
Open Scope nat_scope.

Notation Kc cur := (all_ranked_candidates (qv cur)).

(* ================================================================ eliminate_one: all but one, in normal form *)
Lemma elim_nform cur : wf_votes cur = true -> 2 <= length (Kc cur) ->
  exists rem, eliminate_one cur = Some rem /\ nform (Kc cur) (length (Kc cur) - 1) rem.
Proof.
  intros Hwf H2. unfold eliminate_one. pose proof (totals_keys cur Hwf) as Hk. pose proof (arc_nodup cur) as Hnd.
  set (K := all_ranked_candidates (qv cur)) in *. set (tot := some_totals (totals (initial_allocation (qv cur)))) in *.
  destruct (length K) as [|[|m]] eqn:El; [lia|lia|].
  exists (get_n_best Qle_bool tot (S m)). split; [reflexivity|].
  assert (Hlen : length tot = S (S m)) by (rewrite <- El, <- Hk, map_length; reflexivity).
  replace (S (S m) - 1) with (S m) by lia. rewrite <- Hk.
  apply (gnb_nform Qle_bool Qle_bool_total Qle_bool_trans); [lia|rewrite Hk; exact Hnd].
Qed.

Lemma nform_one cands (x : res C) : nform cands 1 [x] ->
  (exists c, x = Cand c /\ In c cands) \/ (exists T, x = TieR T /\ NoDup T /\ incl T cands /\ 1 < length T).
Proof.
  intros (e & T & k & Hr & Hl & Hk & Hd & Hi).
  destruct e as [|c [|c2 e]]; cbn [length] in Hl; [| |lia].
  - assert (k = 1) by lia. subst k. cbn in Hr. injection Hr as ->. right. exists T. split; [reflexivity|].
    cbn [app] in Hd, Hi. destruct Hk as [Hk|Hk]; [discriminate|]. repeat split; assumption.
  - assert (k = 0) by lia. subst k. cbn in Hr. injection Hr as ->. left. exists c. split; [reflexivity|].
    apply Hi. left. reflexivity.
Qed.

(* ================================================================ Benham *)
Section BENHAM_SHAPE.
  Variable votes : rvotes.
  Hypothesis Hwf : wf_votes votes = true.

  Definition bgood (x : hres) : Prop := (exists r, x = H_ok r /\ nform (cands_of votes) 1 r) \/ x = H_nie \/ x = H_fuel.

  (* what the elimination loop keeps: a well-formed restriction of the profile to two or more of its candidates *)
  Definition winv (cur : rvotes) : Prop :=
    wf_votes cur = true /\ (forall x, In x (Kc cur) -> In x (cands_of votes)) /\ 2 <= length (Kc cur).

  Lemma cw_good cur c0 l : winv cur -> condorcet_winner (pairwise cur) = c0 :: l -> bgood (H_ok [Cand c0]).
  Proof.
    intros (Hwfc & HK & _) Ec. left. exists [Cand c0]. split; [reflexivity|].
    destruct (cw_head cur c0 l Hwfc Ec) as [Hc _].
    apply (nform_plain (cands_of votes) [c0]); [constructor; [intros []|constructor]|].
    intros x [<-|[]]. apply HK, arc_iff, candidates_pairwise_in, Hc.
  Qed.

  Lemma winv_next cur R : winv cur -> NoDup R -> incl R (Kc cur) -> 2 <= length R -> winv (subset_votes R votes).
  Proof.
    intros (_ & HK & _) Hn Hi H2. split; [apply subset_wf, Hwf|]. split.
    - intros x Hx. apply arc_iff, subset_cands in Hx. tauto.
    - etransitivity; [exact H2|]. apply NoDup_incl_length; [exact Hn|]. intros x Hx. apply arc_iff, subset_cands.
      split; [exact Hx|apply HK, Hi, Hx].
  Qed.

  Lemma benham_shape_loop sc : forall fuel cur, winv cur -> bgood (benham_loop true sc fuel votes cur).
  Proof.
    induction fuel as [|f IH]; intros cur Hb; pose proof Hb as (Hwfc & HK & HlenK).
    - rewrite benham_loop_0, (benham_cw_two sc cur HlenK). destruct (condorcet_winner (pairwise cur)) as [|c0 l] eqn:Ec; [right; right; reflexivity|].
      exact (cw_good cur c0 l Hb Ec).
    - rewrite benham_loop_S, (benham_cw_two sc cur HlenK).
      destruct (condorcet_winner (pairwise cur)) as [|c0 l] eqn:Ec; [|exact (cw_good cur c0 l Hb Ec)].
      destruct (elim_nform cur Hwfc HlenK) as (rem & Ee & Hnf). rewrite Ee.
      pose proof (nform_length _ _ _ Hnf) as Hlr.
      destruct rem as [|r [|r2 rr]].
      + cbn [length] in Hlr. lia.
      + left. exists [r]. split; [reflexivity|]. cbn [length] in Hlr. rewrite <- Hlr in Hnf.
        eapply nform_incl; [|exact Hnf]. intros x Hx. apply HK, Hx.
      + cbn [andb]. destruct (has_tie (r :: r2 :: rr)) eqn:Et; [right; left; reflexivity|].
        destruct (elim_spec cur _ Hwfc Ee Et) as (R & E1 & E2 & E3 & E4). rewrite E1, plain_map_cand.
        assert (H2 : 2 <= length R).
        { assert (El : length (r :: r2 :: rr) = length R) by (rewrite E1, map_length; reflexivity). cbn [length] in El. lia. }
        apply IH. exact (winv_next cur R Hb E2 E3 H2).
  Qed.

  (* with two or more candidates (in particular with a pairwise contest), repaired for a single candidate or not: one plain
     candidate of the votes, or one tie object of (the last) two or more of them; otherwise the declared refusal *)
  Theorem benham_shape_two sc : 2 <= length (Kc votes) ->
    (exists r, benham true sc votes = H_ok r /\ nform (cands_of votes) 1 r) \/ benham true sc votes = H_nie.
  Proof.
    intros H2.
    assert (Hs : winv votes) by (split; [exact Hwf|split; [intros x Hx; apply arc_iff, Hx|exact H2]]).
    destruct (benham_shape_loop sc (S (S (length (Kc votes)))) votes Hs) as [H|[H|H]].
    - left. exact H.
    - right. exact H.
    - exfalso. exact (benham_fuel true sc votes Hwf H).
  Qed.

  (* the repaired Benham on EVERY profile on which somebody stands: a single candidate is elected *)
  Theorem benham_shape : cands_of votes <> [] ->
    (exists r, benham true true votes = H_ok r /\ nform (cands_of votes) 1 r) \/ benham true true votes = H_nie.
  Proof.
    intros Hne. destruct (Kc votes) as [|c [|c2 t]] eqn:EK.
    - exfalso. destruct (cands_of votes) as [|x l] eqn:Ec; [congruence|].
      assert (Hx : In x (Kc votes)) by (apply arc_iff; rewrite Ec; left; reflexivity). rewrite EK in Hx. exact Hx.
    - left. exists [Cand c]. split.
      + unfold benham. cbn [benham_loop]. unfold benham_cw. rewrite EK. reflexivity.
      + apply (nform_plain (cands_of votes) [c]); [constructor; [intros []|constructor]|].
        intros x [<-|[]]. apply arc_iff. rewrite EK. left. reflexivity.
    - apply benham_shape_two. rewrite EK. cbn [length]. lia.
  Qed.
End BENHAM_SHAPE.

Theorem benham_single sc votes c : Kc votes = [c] -> benham true sc votes = if sc then H_ok [Cand c] else benham true false votes.
Proof. intros EK. destruct sc; [|reflexivity]. unfold benham. cbn [benham_loop]. unfold benham_cw. rewrite EK. reflexivity. Qed.

(* ================================================================ Tideman alternative, one tier *)
Lemma has_tie_one_cand (r : res C) : has_tie [r] = false -> exists w, r = Cand w.
Proof. destruct r as [w|l]; [intros _; exists w; reflexivity|discriminate]. Qed.

(* the tier loop hands back a plain candidate, or stops with NotImplementedError / IndexError (/ the model's fuel) *)
Lemma tier_outcome sc : forall fuel round,
  (exists w, tideman_tier true sc fuel round = inl (Cand w)) \/
  tideman_tier true sc fuel round = inr H_nie \/ tideman_tier true sc fuel round = inr H_index \/ tideman_tier true sc fuel round = inr H_fuel.
Proof.
  induction fuel as [|f IH]; intros round.
  - destruct round; [right; left; reflexivity|right; right; right; reflexivity].
  - destruct round as [|bw t]; [right; left; reflexivity|]. rewrite tideman_tier_unfold by discriminate.
    set (round := bw :: t) in *. clearbody round.
    assert (Hgen : forall sset,
      let x := match eliminate_one (subset_votes sset round) with
               | None => inr H_index
               | Some rem => if true && has_tie rem then inr H_nie
                             else match rem with [r0] => inl r0 | _ => tideman_tier true sc f (subset_votes (plain rem) (subset_votes sset round)) end
               end in
      (exists w, x = inl (Cand w)) \/ x = inr H_nie \/ x = inr H_index \/ x = @inr (res C) hres H_fuel).
    { intros sset. cbv zeta. destruct (eliminate_one (subset_votes sset round)) as [rem|]; [|right; right; left; reflexivity].
      cbn [andb]. destruct (has_tie rem) eqn:Et; [right; left; reflexivity|].
      destruct rem as [|r0 [|r1 rr]]; [apply IH| |apply IH].
      destruct (has_tie_one_cand r0 Et) as (w & ->). left. exists w. reflexivity. }
    destruct (winner_set sc round) as [|s [|s2 ss]]; [apply Hgen|left; exists s; reflexivity|apply Hgen].
Qed.

Lemma forallb_false {X} (f : X -> bool) l : forallb f l = false -> exists x, In x l /\ f x = false.
Proof.
  induction l as [|y l IH]; simpl; [discriminate|]. destruct (f y) eqn:E; simpl.
  - intros H. destruct (IH H) as (x & Hx & Hf). exists x. split; [right; exact Hx|exact Hf].
  - intros _. exists y. split; [left; reflexivity|exact E].
Qed.

Definition one_candidate (votes : rvotes) (w : C) : Prop := forall c, In c (cands_of votes) -> c = w.

(* ================================================================ Baldwin (Model/Elimination.v) *)
From VL Require Import Model.Elimination.
Close Scope Q_scope.
Close Scope Z_scope.
Open Scope nat_scope.

(* no candidate twice on a ballot, no empty shared rank (a ballot then has at most as many ranks as candidates stand:
   the rank scorer never raises); the weights are arbitrary integers *)
Definition ranks_ok (votes : rvotes) : bool :=
  forallb (fun bw : ranked * Z => Hybrids_proofs.nodupb (flatten (fst bw)) &&
                                   forallb (fun i => match members i with [] => false | _ => true end) (fst bw)) votes.

Lemma ranks_ok_spec votes : ranks_ok votes = true <->
  forall r w, In (r, w) votes -> NoDup (flatten r) /\ forall i, In i r -> members i <> [].
Proof.
  unfold ranks_ok. rewrite forallb_forall. split.
  - intros H r w Hin. specialize (H _ Hin). cbn [fst snd] in H. apply andb_true_iff in H. destruct H as [H1 H2].
    apply nodupb_iff in H1. split; [exact H1|]. intros i Hi. rewrite forallb_forall in H2. specialize (H2 i Hi).
    destruct (members i); [discriminate|discriminate].
  - intros H [r w] Hin. destruct (H r w Hin) as [H1 H2]. cbn [fst snd]. apply andb_true_iff. split; [apply nodupb_iff, H1|].
    apply forallb_forall. intros i Hi. specialize (H2 i Hi). destruct (members i); [congruence|reflexivity].
Qed.

Lemma sub_ranked_nonempty S r i : In i (sub_ranked S r) -> members i <> [].
Proof.
  unfold sub_ranked. intros H. apply in_flat_map in H. destruct H as (j & _ & H). destruct j as [c|l].
  - destruct (cmem c S); [destruct H as [<-|[]]; discriminate|destruct H].
  - destruct (filter (fun c => cmem c S) l) as [|x [|y t]]; [destruct H|destruct H as [<-|[]]; discriminate|destruct H as [<-|[]]; discriminate].
Qed.

Lemma subset_ranks_ok S votes : ranks_ok votes = true -> ranks_ok (subset_votes S votes) = true.
Proof.
  intros Hr. apply ranks_ok_spec. intros k w' Hin. pose proof (proj1 (ranks_ok_spec votes) Hr) as Hv.
  assert (Hk : In k (map fst (subset_votes S votes))) by (apply in_map_iff; exists (k, w'); auto).
  rewrite subset_votes_unfold in Hk. destruct (sub_from_keys _ _ _ _ Hk) as [[]|(r & w & Hin' & ->)]. split.
  - rewrite flatten_sub. apply nodup_filter. apply (Hv r w Hin').
  - intros i Hi. exact (sub_ranked_nonempty S r i Hi).
Qed.

Lemma rank_scores_some sc k n : n <= k -> exists l, rank_scores sc k n = Some l.
Proof.
  intros H. destruct sc; cbn [rank_scores]; try (eexists; reflexivity).
  assert (E : Nat.ltb k n = false) by (apply Nat.ltb_ge; exact H). rewrite E. eexists. reflexivity.
Qed.

Lemma length_le_flatten r : (forall i, In i r -> members i <> []) -> length r <= length (flatten r).
Proof.
  induction r as [|i t IH]; intros H; [simpl; lia|]. rewrite flatten_cons, app_length. cbn [length].
  assert (Hi : members i <> []) by (apply H; left; reflexivity).
  assert (Ht : length t <= length (flatten t)) by (apply IH; intros j Hj; apply H; right; exact Hj).
  destruct (members i); [congruence|]. cbn [length]. lia.
Qed.

(* qadd on a key that is there keeps the keys *)
Lemma qadd_keys (d : list (C * Q)) c x : NoDup (map fst d) -> In c (map fst d) ->
  NoDup (map fst (qadd d c x)) /\ forall y, In y (map fst (qadd d c x)) <-> In y (map fst d).
Proof.
  intros Hn Hc. unfold qadd. destruct (dset_keys d c (dget_or d c 0 + x)%Q Hn) as [N K]. split; [exact N|].
  intros y. rewrite K. split; [intros [->|H]; assumption|intros H; right; exact H].
Qed.

Lemma qadd_fold_keys (cs : list C) (x : Q) : forall d, NoDup (map fst d) -> incl cs (map fst d) ->
  let d' := fold_left (fun d c => qadd d c x) cs d in
  NoDup (map fst d') /\ forall y, In y (map fst d') <-> In y (map fst d).
Proof.
  induction cs as [|c cs IH]; intros d Hn Hi; cbn [fold_left]; [split; [exact Hn|intros y; reflexivity]|].
  destruct (qadd_keys d c x Hn (Hi c (or_introl eq_refl))) as [N K].
  destruct (IH (qadd d c x) N) as [N' K']; [intros y Hy; apply K, Hi; right; exact Hy|]. cbv zeta in N', K'.
  split; [exact N'|]. intros y. rewrite K'. apply K.
Qed.

Lemma pos_items_keys (w : Z) (l : list (item * Q)) : forall d, NoDup (map fst d) ->
  (forall isc c, In isc l -> In c (members (fst isc)) -> In c (map fst d)) ->
  let d' := fold_left (fun d (isc : item * Q) => fold_left (fun d c => qadd d c (snd isc * inject_Z w)%Q) (members (fst isc)) d) l d in
  NoDup (map fst d') /\ forall y, In y (map fst d') <-> In y (map fst d).
Proof.
  induction l as [|isc l IH]; intros d Hn Hi; cbn [fold_left]; [split; [exact Hn|intros y; reflexivity]|].
  destruct (qadd_fold_keys (members (fst isc)) (snd isc * inject_Z w)%Q d Hn) as [N K].
  { intros c Hc. apply (Hi isc c (or_introl eq_refl) Hc). }
  cbv zeta in N, K.
  destruct (IH _ N) as [N' K']; [intros isc' c Hin Hc; apply K, (Hi isc' c (or_intror Hin) Hc)|]. cbv zeta in N', K'.
  split; [exact N'|]. intros y. rewrite K'. apply K.
Qed.

Lemma pos_ballot_keys sc k d (r : ranked) (w : Z) : length r <= k -> NoDup (map fst d) -> incl (flatten r) (map fst d) ->
  exists d', pos_ballot sc k d (r, w) = Some d' /\ NoDup (map fst d') /\ forall y, In y (map fst d') <-> In y (map fst d).
Proof.
  intros Hl Hn Hi. unfold pos_ballot. cbn [fst snd]. destruct (rank_scores_some sc k (length r) Hl) as (scs & ->).
  eexists. split; [reflexivity|]. apply pos_items_keys; [exact Hn|].
  intros [i s] c Hin Hc. apply in_combine_l in Hin. apply Hi. unfold flatten. apply in_flat_map. exists i. split; assumption.
Qed.

Lemma neg_scores_keys sc votes : ranks_ok votes = true ->
  exists ns, neg_scores sc votes = Some ns /\ NoDup (map fst ns) /\ (forall x, In x (map fst ns) <-> In x (Kc votes)).
Proof.
  intros Hr. pose proof (proj1 (ranks_ok_spec votes) Hr) as Hv. unfold neg_scores, positional.
  set (K := Kc votes).
  assert (HK : forall r w c, In (r, w) votes -> In c (flatten r) -> In c K).
  { intros r w c Hin Hc. apply arc_iff, cands_of_spec. exists r, w. split; assumption. }
  assert (Hlen : forall r w, In (r, w) votes -> length r <= length K).
  { intros r w Hin. destruct (Hv r w Hin) as [Hnd Hne]. etransitivity; [apply length_le_flatten, Hne|].
    apply NoDup_incl_length; [exact Hnd|]. intros c Hc. exact (HK r w c Hin Hc). }
  assert (G : forall (vs : rvotes) d, incl vs votes -> NoDup (map fst d) -> (forall y, In y (map fst d) <-> In y K) ->
     exists d', fold_left (fun acc bw => match acc with None => None | Some d => pos_ballot sc (length K) d bw end) vs (Some d) = Some d' /\
                NoDup (map fst d') /\ forall y, In y (map fst d') <-> In y K).
  { induction vs as [|[r w] vs IH]; intros d Hi Hn Hk; cbn [fold_left]; [exists d; auto|].
    assert (Hin : In (r, w) votes) by (apply Hi; left; reflexivity).
    destruct (pos_ballot_keys sc (length K) d r w (Hlen r w Hin) Hn) as (d1 & -> & N1 & K1).
    { intros c Hc. apply Hk. exact (HK r w c Hin Hc). }
    apply IH; [intros y Hy; apply Hi; right; exact Hy|exact N1|]. intros y. rewrite K1. apply Hk. }
  destruct (G votes (map (fun c => (c, 0%Q)) K)) as (d' & -> & N & Kk).
  - apply incl_refl.
  - rewrite map_map. cbn [fst]. rewrite map_id. apply arc_nodup.
  - intros y. rewrite map_map. cbn [fst]. rewrite map_id. reflexivity.
  - eexists. split; [reflexivity|]. rewrite map_map. cbn [fst].
    assert (Hp : Permutation (map (fun x : C * Q => fst x) (sort_desc Qle_bool d')) (map fst d')) by (apply Permutation_map, sort_desc_perm).
    split; [eapply Permutation_NoDup; [apply Permutation_sym, Hp|exact N]|].
    intros x. rewrite <- Kk. split; intros H; [apply (Permutation_in _ Hp H)|apply (Permutation_in _ (Permutation_sym Hp) H)].
Qed.

Lemma same_keys_length (a b : list C) : NoDup a -> NoDup b -> (forall x, In x a <-> In x b) -> length a = length b.
Proof. intros Ha Hb H. apply Permutation_length, NoDup_Permutation; assumption. Qed.

(* the candidates of the restricted profile: those of the subset that stood before *)
Lemma subset_K S cur (L : list C) : NoDup L -> (forall x, In x L <-> In x S /\ In x (Kc cur)) ->
  length (Kc (subset_votes S cur)) = length L /\ forall x, In x (Kc (subset_votes S cur)) <-> In x L.
Proof.
  intros HL H. assert (E : forall x, In x (Kc (subset_votes S cur)) <-> In x L).
  { intros x. rewrite arc_iff, subset_cands, H, arc_iff. reflexivity. }
  split; [apply same_keys_length; [apply arc_nodup|exact HL|exact E]|exact E].
Qed.

Lemma filter_out_length (T keys : list C) : NoDup T -> NoDup keys -> incl T keys ->
  length (filter (fun c => negb (cmem c T)) keys) = length keys - length T.
Proof.
  intros HT Hk Hi. pose proof (Threshold_proofs.filter_split_length (fun c => cmem c T) keys) as Hs.
  rewrite (Threshold_proofs.filter_mem_length T keys HT Hk Hi) in Hs. lia.
Qed.

Lemma gnb_zero {V} (leb : V -> V -> bool) : @get_n_best C V leb [] 0 = [].
Proof. reflexivity. Qed.

Section BALDWIN_SHAPE.
  Variable sc : Convert.scorer.
  Variable C0 : list C.
  Variable n : nat.
  Hypothesis Hn1 : 1 <= n.

  Lemma baldwin_loop_nform : forall fuel cur, ranks_ok cur = true -> incl (Kc cur) C0 -> n <= length (Kc cur) ->
    length (Kc cur) < fuel -> exists r, baldwin_loop sc fuel cur n = B_ok r /\ nform C0 n r.
  Proof.
    induction fuel as [|f IH]; intros cur Hr Hinc Hge Hfuel; [lia|].
    destruct (neg_scores_keys sc cur Hr) as (ns & Ens & Nns & Kns).
    assert (Hlen : length ns = length (Kc cur)).
    { rewrite <- (map_length fst ns). apply same_keys_length; [exact Nns|apply arc_nodup|exact Kns]. }
    cbn [baldwin_loop]. rewrite Ens. destruct (Nat.ltb n (length ns)) eqn:Elt.
    2:{ apply Nat.ltb_ge in Elt. eexists. split; [reflexivity|].
        apply (nform_incl (map fst ns)); [intros x Hx; apply Hinc, Kns, Hx|].
        apply (gnb_nform Qle_bool Qle_bool_total Qle_bool_trans); [lia|exact Nns]. }
    apply Nat.ltb_lt in Elt.
    pose proof (gnb_nform Qle_bool Qle_bool_total Qle_bool_trans ns 1 ltac:(lia) Nns) as H1.
    pose proof (nform_length _ _ _ H1) as Hl1.
    destruct (get_n_best Qle_bool ns 1) as [|x [|x2 xs]] eqn:Eg; cbn [length] in Hl1; [lia| |lia].
    destruct (nform_one _ x H1) as [(l & -> & Hl)|(T & -> & HT & HTi & HT2)].
    - (* one loser *)
      set (remaining := filter (fun c => negb (ceqb c l)) (map fst ns)).
      assert (Hrem : forall y, In y remaining <-> In y (map fst ns) /\ y <> l).
      { intros y. unfold remaining. rewrite filter_In, negb_true_iff. split; intros [H1' H2']; (split; [exact H1'|]).
        - intros ->. rewrite Hybrids_proofs.ceqb_refl in H2'. discriminate.
        - apply not_true_iff_false. intros E. apply Hybrids_proofs.ceqb_eq in E. exact (H2' E). }
      assert (Hrn : NoDup remaining) by (apply NoDup_filter, Nns).
      assert (Hrl : length remaining = length ns - 1).
      { pose proof (filter_out_length [l] (map fst ns)) as Hf. cbn [length] in Hf. rewrite map_length in Hf.
        rewrite <- Hf; [|constructor; [intros []|constructor]|exact Nns|intros y [<-|[]]; exact Hl].
        unfold remaining. apply f_equal. apply filter_ext. intros c. cbn [cmem]. rewrite orb_false_r. reflexivity. }
      destruct (subset_K remaining cur remaining Hrn) as [SK1 SK2].
      { intros y. rewrite Hrem, Kns. tauto. }
      apply IH; [apply subset_ranks_ok, Hr| | |].
      + intros y Hy. apply Hinc, Kns. apply SK2, Hrem in Hy. tauto.
      + rewrite SK1. lia.
      + rewrite SK1. lia.
    - (* tied losers *)
      set (remaining := filter (fun c => negb (cmem c T)) (map fst ns)).
      assert (Hrem : forall y, In y remaining <-> In y (map fst ns) /\ ~ In y T).
      { intros y. unfold remaining. rewrite filter_In, negb_true_iff, cmem_false. reflexivity. }
      assert (Hrn : NoDup remaining) by (apply NoDup_filter, Nns).
      assert (Hrl : length remaining = length ns - length T).
      { unfold remaining. rewrite (filter_out_length T (map fst ns) HT Nns HTi), map_length. reflexivity. }
      assert (HTl : length T <= length ns).
      { rewrite <- (map_length fst ns). apply NoDup_incl_length; assumption. }
      destruct (subset_K remaining cur remaining Hrn) as [SK1 SK2].
      { intros y. rewrite Hrem, Kns. tauto. }
      destruct (Nat.ltb (length ns - length T) n) eqn:Er.
      + apply Nat.ltb_lt in Er.
        destruct (neg_scores_keys sc (subset_votes remaining cur) (subset_ranks_ok remaining cur Hr)) as (rs & -> & Nrs & Krs).
        assert (Hrsl : length rs = length ns - length T).
        { rewrite <- Hrl, <- SK1, <- (map_length fst rs). apply same_keys_length; [exact Nrs|apply arc_nodup|exact Krs]. }
        replace (n - (n - (length ns - length T))) with (length ns - length T) by lia.
        eexists. split; [reflexivity|].
        assert (Hbest : exists e, get_n_best Qle_bool rs (length ns - length T) = map Cand e /\ Permutation e (map fst rs)).
        { destruct (Nat.eq_dec (length ns - length T) 0) as [E0|E0].
          - rewrite E0 in *. destruct rs; [|discriminate]. exists []. split; [reflexivity|constructor].
          - destruct (gnb_all Qle_bool Qle_bool_total Qle_bool_trans rs (length ns - length T) ltac:(lia) ltac:(lia)) as (s & Hp & ->).
            exists (map fst s). split; [reflexivity|apply Permutation_map, Hp]. }
        destruct Hbest as (e & -> & Hpe).
        assert (He : forall y, In y e <-> In y remaining).
        { intros y. rewrite <- SK2, <- Krs. split; intros H; [apply (Permutation_in _ Hpe H)|apply (Permutation_in _ (Permutation_sym Hpe) H)]. }
        exists e, T, (n - (length ns - length T)). split; [reflexivity|].
        split; [rewrite (Permutation_length Hpe), map_length, Hrsl; lia|]. split; [right; lia|]. split.
        * apply Threshold_proofs.nodup_app_intro; [eapply Permutation_NoDup; [apply Permutation_sym, Hpe|exact Nrs]|exact HT|].
          intros y Hy HyT. apply He, Hrem in Hy. tauto.
        * intros y Hy. apply in_app_or in Hy. destruct Hy as [Hy|Hy]; [apply He, Hrem in Hy; apply Hinc, Kns; tauto|apply Hinc, Kns, HTi, Hy].
      + apply Nat.ltb_ge in Er. apply IH; [apply subset_ranks_ok, Hr| | |].
        * intros y Hy. apply Hinc, Kns. apply SK2, Hrem in Hy. tauto.
        * rewrite SK1. lia.
        * rewrite SK1. lia.
  Qed.
End BALDWIN_SHAPE.

(* Baldwin always answers, with exactly n entries in normal form: plain winners, then ONE tie object (the tied losers of the
   decisive round) repeated for the open seats, with more members than those seats *)
Theorem baldwin_nform sc votes n : ranks_ok votes = true -> 1 <= n <= length (Kc votes) ->
  exists r, baldwin sc votes n = B_ok r /\ nform (Kc votes) n r.
Proof.
  intros Hr [H1 H2]. unfold baldwin. apply baldwin_loop_nform; [exact H1|exact Hr|apply incl_refl|exact H2|lia].
Qed.

(* ================================================================ positional selectors: RankedToPositionalVotes in front of plurality *)
Lemma positional_keys sc votes : ranks_ok votes = true ->
  exists d, positional sc votes = Some d /\ NoDup (map fst d) /\ (forall x, In x (map fst d) <-> In x (Kc votes)).
Proof.
  intros Hr. destruct (neg_scores_keys sc votes Hr) as (ns & E & N & K). unfold neg_scores in E.
  destruct (positional sc votes) as [d|]; [|discriminate]. injection E as <-. exists d. split; [reflexivity|].
  rewrite map_map in N, K. cbn [fst] in N, K. split; [exact N|exact K].
Qed.

(* Borda, Dowdall, ... = the positional scores handed to get_n_best: exactly n entries in normal form over the candidates *)
Theorem positional_nform sc votes n : ranks_ok votes = true -> 1 <= n <= length (Kc votes) ->
  exists d, positional sc votes = Some d /\ nform (Kc votes) n (get_n_best Qle_bool d n).
Proof.
  intros Hr Hn. destruct (positional_keys sc votes Hr) as (d & E & N & K). exists d. split; [exact E|].
  apply (gnb_nform_perm Qle_bool Qle_bool_total Qle_bool_trans d (Kc votes) n Hn N (arc_nodup votes) K).
Qed.
