(* Highest averages commutes with every injective renaming of the parties (C10): the run on renamed votes, previous
   gains and caps is the renamed run, step by step (exact equality of states). *)
From Coq Require Import ZArith QArith List Bool Lia.
From VL Require Import Prelude.PyDict Model.GetNBest Model.HighestAverages Proofs.Dict_proofs.
Import ListNotations.
Open Scope Z_scope.

Section REN.
  Variable f : C -> C.
  Hypothesis f_inj : forall a b, f a = f b -> a = b.

  Definition renl {X} (l : list (C * X)) : list (C * X) := map (fun cv => (f (fst cv), snd cv)) l.

  Lemma ceqb_f a b : ceqb (f a) (f b) = ceqb a b.
  Proof.
    destruct (ceqb a b) eqn:E.
    - apply ceqb_eq in E. subst. apply ceqb_refl.
    - apply ceqb_neq. apply ceqb_neq in E. intros H. apply E, f_inj, H.
  Qed.

  Lemma dget_ren {X} (l : list (C * X)) c : dget (renl l) (f c) = dget l c.
  Proof. unfold renl. induction l as [|[k x] l IH]; simpl; [reflexivity|]. rewrite ceqb_f. destruct (ceqb c k); [reflexivity|exact IH]. Qed.
  Lemma dget_or_ren {X} (l : list (C * X)) c (dflt : X) : dget_or (renl l) (f c) dflt = dget_or l c dflt.
  Proof. unfold dget_or. rewrite dget_ren. reflexivity. Qed.
  Lemma dset_ren {X} (l : list (C * X)) c (x : X) : dset (renl l) (f c) x = renl (dset l c x).
  Proof. unfold renl. induction l as [|[k y] l IH]; simpl; [reflexivity|]. rewrite ceqb_f. destruct (ceqb c k); simpl; [reflexivity|]. rewrite IH. reflexivity. Qed.
  Lemma incr_ren t c : incr_t (renl t) (f c) = renl (incr_t t c).
  Proof. unfold incr_t. rewrite dget_or_ren. apply dset_ren. Qed.
  Lemma fold_incr_ren ks : forall t, fold_left incr_t (map f ks) (renl t) = renl (fold_left incr_t ks t).
  Proof. induction ks as [|k ks IH]; intros t; simpl; [reflexivity|]. rewrite incr_ren. apply IH. Qed.

  Lemma renl_app {X} (a b : list (C * X)) : renl (a ++ b) = renl a ++ renl b.
  Proof. unfold renl. apply map_app. Qed.
  Lemma renl_rev {X} (a : list (C * X)) : renl (rev a) = rev (renl a).
  Proof. unfold renl. apply map_rev. Qed.
  Lemma renl_firstn {X} k (a : list (C * X)) : renl (firstn k a) = firstn k (renl a).
  Proof. unfold renl. symmetry. apply firstn_map. Qed.
  Lemma renl_keys {X} (a : list (C * X)) : map fst (renl a) = map f (map fst a).
  Proof. unfold renl. rewrite !map_map. reflexivity. Qed.

  Variable d : Z -> Q.

  Lemma insert_after_ge_ren (x : qitem) l : insert_after_ge (f (fst x), snd x) (renl l) = renl (insert_after_ge x l).
  Proof.
    induction l as [|y l IH]; simpl; [reflexivity|]. destruct (Qle_bool (snd x) (snd y)); simpl; [rewrite IH|]; reflexivity.
  Qed.
  Lemma insert_asc_ren (x : qitem) l : insert_asc Qle_bool (f (fst x), snd x) (renl l) = renl (insert_asc Qle_bool x l).
  Proof.
    induction l as [|y l IH]; simpl; [reflexivity|]. destruct (Qle_bool (snd x) (snd y)); simpl; [|rewrite IH]; reflexivity.
  Qed.
  Lemma sort_asc_ren (l : list qitem) : sort_asc Qle_bool (renl l) = renl (sort_asc Qle_bool l).
  Proof. induction l as [|x l IH]; simpl; [reflexivity|]. rewrite IH. apply insert_asc_ren. Qed.
  Lemma run_length_ren m (l : list qitem) : run_length m (renl l) = run_length m l.
  Proof. induction l as [|y l IH]; simpl; [reflexivity|]. destruct (Qeq_bool (snd y) m); [rewrite IH|]; reflexivity. Qed.

  Variables votes : list (C * Q).
  Variables caps : list (C * Z).
  Variable n : Z.

  Lemma cap_ren c : cap_of (renl caps) n (f c) = cap_of caps n c.
  Proof. unfold cap_of. apply dget_or_ren. Qed.

  Lemma pop_reinsert_ren totals : forall k qs,
    pop_reinsert d (renl votes) (renl caps) n (renl totals) k (renl qs) = renl (pop_reinsert d votes caps n totals k qs).
  Proof.
    induction k as [|k IH]; intros qs; simpl; [reflexivity|].
    destruct qs as [|[c x] rest]; simpl; [reflexivity|].
    rewrite dget_or_ren, cap_ren, dget_ren.
    destruct (dget_or totals c 0 <? cap_of caps n c); [|apply IH].
    destruct (dget votes c) as [v|]; [|apply IH].
    rewrite <- IH. f_equal. apply (insert_after_ge_ren (c, (v / d (dget_or totals c 0%Z))%Q) rest).
  Qed.

  Definition ren_state (s : state) : state :=
    mk_state (renl (st_qs s)) (renl (st_totals s)) (st_rem s)
             (match st_tie s with Some (T, r) => Some (map f T, r) | None => None end) (renl (st_awards s)).

  Lemma step_cons vs cp (s : state) c0 m qs' : st_qs s = (c0, m) :: qs' ->
    step d vs cp n s =
      let k := run_length m (st_qs s) in
      let batch := firstn k (st_qs s) in
      if Z.of_nat k <=? st_rem s then
        let totals' := fold_left incr_t (map fst (rev batch)) (st_totals s) in
        mk_state (pop_reinsert d vs cp n totals' k (st_qs s)) totals' (st_rem s - Z.of_nat k) None (st_awards s ++ rev batch)
      else
        mk_state (pop_reinsert d vs cp n (st_totals s) k (st_qs s)) (st_totals s) 0 (Some (map fst (rev batch), st_rem s)) (st_awards s).
  Proof. intros H. unfold step. rewrite H. reflexivity. Qed.

  Lemma step_ren s : step d (renl votes) (renl caps) n (ren_state s) = ren_state (step d votes caps n s).
  Proof.
    destruct (st_qs s) as [|[c0 m] qs'] eqn:E.
    - unfold step, ren_state. cbn [st_qs]. rewrite E. cbn [renl map]. rewrite E. reflexivity.
    - assert (E' : st_qs (ren_state s) = (f c0, m) :: renl qs') by (unfold ren_state; cbn [st_qs]; rewrite E; reflexivity).
      rewrite (step_cons (renl votes) (renl caps) (ren_state s) (f c0) m (renl qs') E'), (step_cons votes caps s c0 m qs' E).
      cbv zeta.
      change (st_qs (ren_state s)) with (renl (st_qs s)). change (st_totals (ren_state s)) with (renl (st_totals s)).
      change (st_rem (ren_state s)) with (st_rem s). change (st_awards (ren_state s)) with (renl (st_awards s)).
      unfold qitem in *. rewrite run_length_ren. set (k := run_length m (st_qs s)).
      rewrite <- (renl_firstn k (st_qs s)). rewrite <- !renl_rev. rewrite !renl_keys. rewrite fold_incr_ren.
      destruct (Z.of_nat k <=? st_rem s); unfold ren_state; cbn [st_qs st_totals st_rem st_tie st_awards].
      + rewrite pop_reinsert_ren, renl_app. reflexivity.
      + rewrite pop_reinsert_ren. reflexivity.
  Qed.

  Lemma loop_ren fuel : forall s, loop d (renl votes) (renl caps) n fuel (ren_state s) = ren_state (loop d votes caps n fuel s).
  Proof.
    induction fuel as [|fu IH]; intros s; cbn [loop]; [reflexivity|].
    change (st_rem (ren_state s)) with (st_rem s). change (st_qs (ren_state s)) with (renl (st_qs s)).
    destruct (0 <? st_rem s); cbn [andb]; [|reflexivity].
    destruct (st_qs s) as [|x l] eqn:Eq; cbn [renl map negb]; [reflexivity|].
    rewrite step_ren. apply IH.
  Qed.

  Lemma zsum_ren (l : list (C * Z)) : zsum (map snd (renl l)) = zsum (map snd l).
  Proof. unfold renl. rewrite map_map. reflexivity. Qed.

  Lemma initial_ren prev : initial_quotients d (renl votes) (renl prev) (renl caps) n = renl (initial_quotients d votes prev caps n).
  Proof.
    unfold initial_quotients. rewrite renl_rev, <- sort_asc_ren. f_equal. f_equal.
    unfold renl at 1 4. induction votes as [|[c v] vs IH]; simpl; [reflexivity|].
    rewrite dget_or_ren, cap_ren. fold (@renl Z prev). rewrite (dget_or_ren prev c 0).
    destruct (Qle_bool (d (dget_or prev c 0)) 0); [exact IH|].
    destruct (dget_or prev c 0 <? cap_of caps n c); simpl; [f_equal|]; exact IH.
  Qed.

  Theorem final_ren prev : final_state d (renl votes) n (renl prev) (renl caps) = ren_state (final_state d votes n prev caps).
  Proof.
    unfold final_state, init_state. cbn [st_rem]. rewrite zsum_ren, initial_ren.
    change (mk_state (renl (initial_quotients d votes prev caps n)) (renl prev) (n - zsum (map snd prev)) None [])
      with (ren_state (mk_state (initial_quotients d votes prev caps n) prev (n - zsum (map snd prev)) None [])).
    apply loop_ren.
  Qed.

  Definition ren_result (r : ha_result) : ha_result :=
    match r with
    | HA_ok gains tie => HA_ok (renl gains) (match tie with Some (T, r) => Some (map f T, r) | None => None end)
    | HA_value_error => HA_value_error
    end.

  Theorem evaluate_ren prev : evaluate d (renl votes) n (renl prev) (renl caps) = ren_result (evaluate d votes n prev caps).
  Proof.
    unfold evaluate. rewrite initial_ren, final_ren.
    destruct (initial_quotients d votes prev caps n) as [|x l]; [reflexivity|]. cbn [renl map ren_result ren_state st_totals st_tie].
    f_equal. set (t := st_totals (final_state d votes n prev caps)).
    unfold renl. induction t as [|[c x0] t IH]; simpl; [reflexivity|].
    fold (@renl Z prev). rewrite (dget_or_ren prev c 0). destruct (0 <? x0 - dget_or prev c 0); simpl; [f_equal|]; exact IH.
  Qed.
End REN.
