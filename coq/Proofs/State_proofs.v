(* Lemmas for Props/C18.v, part 1: history-freedom of the instance state machines of Model/State.v. *)
From Coq Require Import ZArith QArith List Bool Arith Lia.
From VL Require Import Prelude.Sx Prelude.PyDict Prelude.GDict Model.GetNBest Model.Convert Model.Cardinal Model.State.
Import ListNotations.
Open Scope nat_scope.

(* ================================================================ generic: invariant => history-free *)
Section Generic.
  Context {St Call Out : Type}.
  Variable step : St -> Call -> St * Out.
  Variable init : St.
  Variable Inv : St -> Prop.
  Variable probe : Call -> Prop.
  Hypothesis Hinit : Inv init.
  Hypothesis Hstep : forall s c, Inv s -> Inv (fst (step s c)).
  Hypothesis Hout : forall s c, Inv s -> probe c -> snd (step s c) = snd (step init c).

  Lemma run_inv_from : forall cs s, Inv s -> Inv (run step s cs).
  Proof.
    induction cs as [|c cs IH]; intros s Hs; simpl; [exact Hs|].
    apply IH. apply Hstep. exact Hs.
  Qed.

  Lemma history_free_generic : forall cs c, probe c -> out_after step init cs c = out_after step init [] c.
  Proof.
    intros cs c Hc. unfold out_after. simpl. apply Hout; [|exact Hc].
    apply run_inv_from. exact Hinit.
  Qed.

  (* the whole output sequence on a shared object = each call on its own fresh object *)
  Lemma outs_fresh : forall cs s, Inv s -> Forall probe cs ->
    outs step s cs = map (fun c => snd (step init c)) cs.
  Proof.
    induction cs as [|c cs IH]; intros s Hs Hp; simpl; [reflexivity|].
    inversion Hp as [|? ? Hc Hcs]; subst.
    rewrite (Hout s c Hs Hc). f_equal. apply IH; [apply Hstep; exact Hs|exact Hcs].
  Qed.
End Generic.

(* ================================================================ list helpers *)
Lemma filter_len : forall {X} (f : X -> bool) (l : list X), length (filter f l) <= length l.
Proof. induction l as [|x l IH]; simpl; [lia|]. destruct (f x); simpl; lia. Qed.

Lemma omap_ext_in : forall {X Y} (f g : X -> option Y) (l : list X),
  (forall x, In x l -> f x = g x) -> omap f l = omap g l.
Proof.
  induction l as [|x l IH]; intros H; simpl; [reflexivity|].
  rewrite (H x (or_introl eq_refl)). rewrite IH; [reflexivity|].
  intros y Hy. apply H. right. exact Hy.
Qed.

Lemma omap_pair_fst : forall {X Y} (g : X -> option Y) (l : list X) (r : list (X * Y)),
  omap (fun a => match g a with Some s => Some (a, s) | None => None end) l = Some r -> map fst r = l.
Proof.
  induction l as [|x l IH]; intros r H; simpl in H.
  - inversion H. reflexivity.
  - destruct (g x) as [s|]; [|discriminate].
    destruct (omap _ l) as [ys|] eqn:E; [|discriminate].
    inversion H; subst. simpl. f_equal. apply IH. reflexivity.
Qed.

Lemma in_map_fst_filter : forall {X Y} (p : X * Y -> bool) (l : list (X * Y)) (a : X),
  In a (map fst (filter p l)) -> In a (map fst l).
Proof.
  intros X Y p l a H. apply in_map_iff in H. destruct H as [[x y] [Hx Hin]].
  apply filter_In in Hin. destruct Hin as [Hin _]. apply in_map_iff. exists (x, y). split; assumption.
Qed.

Lemma combos_length : forall (l : list C) (n : nat) (a : list C), In a (combos l n) -> length a = n.
Proof.
  induction l as [|x l IH]; intros n a H; destruct n as [|n]; simpl in H.
  - destruct H as [H|[]]. subst. reflexivity.
  - destruct H.
  - destruct H as [H|[]]. subst. reflexivity.
  - apply in_app_or in H. destruct H as [H|H].
    + apply in_map_iff in H. destruct H as [b [Hb Hin]]. subst. simpl. f_equal. apply IH. exact Hin.
    + apply IH. exact H.
Qed.

Lemma nth_error_seq_lt : forall m a k, k < m -> nth_error (seq a m) k = Some (a + k).
Proof.
  induction m as [|m IH]; intros a k H; [lia|].
  destruct k as [|k]; simpl; [f_equal; lia|].
  rewrite IH by lia. f_equal. lia.
Qed.

(* ================================================================ ProportionalApproval *)
Definition harm_prefix (coefs : list Q) : Prop := exists m, 1 <= m /\ coefs = map harm (seq 0 m).

Lemma harm_prefix_init : harm_prefix pav_init.
Proof. exists 1. split; [lia|reflexivity]. Qed.

Lemma harm_prefix_look : forall m k, k < m -> nth_error (map harm (seq 0 m)) k = Some (harm k).
Proof. intros m k H. rewrite nth_error_map, nth_error_seq_lt by exact H. reflexivity. Qed.

(* after the (repaired) extension the table is the harmonic prefix of some length > n *)
Lemma extend_harm : forall coefs n, harm_prefix coefs ->
  exists m, n + 1 <= m /\ pav_extend false coefs n = map harm (seq 0 m).
Proof.
  intros coefs n [m [Hm Hc]]. unfold pav_extend. subst coefs. rewrite map_length, seq_length.
  destruct (Nat.leb m n) eqn:E.
  - apply Nat.leb_le in E. exists (n + 1). split; [lia|].
    rewrite <- map_app. f_equal.
    replace (n + 1) with (m + (n + 1 - m)) at 2 by lia. rewrite seq_app. reflexivity.
  - apply Nat.leb_gt in E. exists m. split; [lia|reflexivity].
Qed.

Lemma extend_keeps_prefix : forall coefs n, harm_prefix coefs -> harm_prefix (pav_extend false coefs n).
Proof.
  intros coefs n H. destruct (extend_harm coefs n H) as [m [Hm He]]. exists m. split; [lia|exact He].
Qed.

Lemma isect_le : forall alt b, isect alt b <= length alt.
Proof. intros. unfold isect. apply filter_len. Qed.

Lemma sat_tbl_ext : forall (l1 l2 : nat -> option Q) votes alt,
  (forall k, k <= length alt -> l1 k = l2 k) -> sat_tbl l1 votes alt = sat_tbl l2 votes alt.
Proof.
  intros l1 l2 votes alt H. unfold sat_tbl. generalize (Some 0%Q).
  induction votes as [|bw votes IH]; intros acc; simpl; [reflexivity|].
  rewrite (H (isect alt (fst bw)) (isect_le _ _)). apply IH.
Qed.

(* the outcome reads the table only at indices 0..n *)
Lemma pav_look_ext : forall (l1 l2 : nat -> option Q) votes n,
  (forall k, k <= n -> l1 k = l2 k) -> pav_look l1 votes n = pav_look l2 votes n.
Proof.
  intros l1 l2 votes n H. unfold pav_look.
  set (cands := canon_set (flat_map fst votes)).
  assert (Hsat : forall a, length a <= n -> sat_tbl l1 votes a = sat_tbl l2 votes a).
  { intros a Ha. apply sat_tbl_ext. intros k Hk. apply H. lia. }
  rewrite (omap_ext_in
             (fun a => match sat_tbl l1 votes a with Some s => Some (a, s) | None => None end)
             (fun a => match sat_tbl l2 votes a with Some s => Some (a, s) | None => None end)).
  2:{ intros a Ha. rewrite Hsat; [reflexivity|]. rewrite (combos_length _ _ _ Ha). lia. }
  destruct (omap _ (combos cands n)) as [scored|] eqn:Escored; [|reflexivity].
  pose proof (omap_pair_fst _ _ _ Escored) as Hfst.
  set (best_alts := match scored with
                    | [] => []
                    | (_, s0) :: _ =>
                        map fst (filter (fun sa => Qeq_bool (snd sa)
                          (fold_left (fun b sa0 => if Qle_bool b (snd sa0) then snd sa0 else b) scored s0)) scored)
                    end).
  assert (Hin : forall a, In a best_alts -> length a = n).
  { intros a Ha. apply (combos_length cands). rewrite <- Hfst. unfold best_alts in Ha.
    destruct scored as [|[a0 s0] sc]; [destruct Ha|]. eapply in_map_fst_filter. exact Ha. }
  fold best_alts.
  destruct best_alts as [|alt [|alt2 rest]]; try reflexivity.
  assert (Ha : length alt = n) by (apply Hin; left; reflexivity).
  rewrite (omap_ext_in
             (fun c => match sat_tbl l1 votes (filter (fun x => negb (ceqb x c)) alt) with
                       | Some s => Some (c, (- s)%Q) | None => None end)
             (fun c => match sat_tbl l2 votes (filter (fun x => negb (ceqb x c)) alt) with
                       | Some s => Some (c, (- s)%Q) | None => None end)); [reflexivity|].
  intros c _. rewrite Hsat; [reflexivity|].
  pose proof (filter_len (fun x => negb (ceqb x c)) alt). lia.
Qed.

Lemma pav_out_fresh : forall coefs c, harm_prefix coefs ->
  snd (pav_step false coefs c) = snd (pav_step false pav_init c).
Proof.
  intros coefs [votes n] H. unfold pav_step. simpl.
  destruct (extend_harm coefs n H) as [m1 [Hm1 E1]].
  destruct (extend_harm pav_init n harm_prefix_init) as [m2 [Hm2 E2]].
  rewrite E1, E2. apply pav_look_ext. intros k Hk.
  rewrite !harm_prefix_look by lia. reflexivity.
Qed.

Lemma pav_history_free : forall cs c,
  out_after (pav_step false) pav_init cs c = out_after (pav_step false) pav_init [] c.
Proof.
  intros cs c.
  apply (history_free_generic (pav_step false) pav_init harm_prefix (fun _ => True)); auto.
  - exact harm_prefix_init.
  - intros s [v n] Hs. simpl. apply extend_keeps_prefix. exact Hs.
  - intros s c0 Hs _. apply pav_out_fresh. exact Hs.
Qed.

(* the table never loses an entry and stays the harmonic table whatever was asked before *)
Lemma pav_state_inv : forall cs, harm_prefix (run (pav_step false) pav_init cs).
Proof.
  intros cs. apply (run_inv_from (pav_step false) harm_prefix).
  - intros s [v n] Hs. simpl. apply extend_keeps_prefix. exact Hs.
  - exact harm_prefix_init.
Qed.

(* pinned tree (strict comparison): one seat on a fresh object raises IndexError, after a two-seat
   call the same input is answered *)
Lemma pav_pinned_history_dependent :
  exists cs c, out_after (pav_step true) pav_init cs c <> out_after (pav_step true) pav_init [] c.
Proof.
  exists [([([1%positive], 1%Q)], 2)], ([([1%positive], 1%Q)], 1).
  vm_compute. discriminate.
Qed.

(* ================================================================ Borda *)
Lemma borda_convert_reset : forall base s votes,
  borda_step base s (BConvert votes) = borda_step base borda_init (BConvert votes).
Proof. reflexivity. Qed.

Lemma borda_history_free : forall base cs c, is_convert c = true ->
  out_after (borda_step base) borda_init cs c = out_after (borda_step base) borda_init [] c.
Proof.
  intros base cs c Hc. destruct c; try discriminate. unfold out_after. simpl. reflexivity.
Qed.

(* the stored table read back by scores() is the closed form the C13 converter model uses *)
Lemma borda_scores_closed_form : forall base k n,
  borda_scores_st (borda_set_n base k) n =
  match rank_scores (Borda base) k n with Some l => inl l | None => inr BE_value end.
Proof. intros. unfold borda_scores_st, rank_scores. simpl. destruct (Nat.ltb k n); reflexivity. Qed.

Lemma img_positional_st_closed : forall base k r,
  img_positional_st (borda_set_n base k) r = img_positional (Borda base) k r.
Proof.
  intros. unfold img_positional_st, img_positional. rewrite borda_scores_closed_form.
  destruct (rank_scores _ _ _); reflexivity.
Qed.

Lemma conv_fold_ext : forall {B} (f g : B -> list (sx * Q)) (votes : list (B * Q)) (acc : list (sx * Q)),
  (forall b, f b = g b) ->
  fold_left (fun acc bw => fold_left (fun acc kc => gadd sx_eqb acc (fst kc) (snd kc * snd bw)%Q) (f (fst bw)) acc) votes acc =
  fold_left (fun acc bw => fold_left (fun acc kc => gadd sx_eqb acc (fst kc) (snd kc * snd bw)%Q) (g (fst bw)) acc) votes acc.
Proof.
  intros B f g votes acc H. revert acc.
  induction votes as [|bw votes IH]; intros acc; simpl; [reflexivity|].
  rewrite H. apply IH.
Qed.

Lemma oconv_ext : forall {B} (f g : B -> option (list (sx * Q))) (votes : list (B * Q)),
  (forall b, f b = g b) -> oconv f votes = oconv g votes.
Proof.
  intros B f g votes H. unfold oconv.
  assert (E1 : forallb (fun bw => match f (fst bw) with Some _ => true | None => false end) votes =
               forallb (fun bw => match g (fst bw) with Some _ => true | None => false end) votes).
  { induction votes as [|bw votes IH]; simpl; [reflexivity|]. rewrite H, IH. reflexivity. }
  rewrite E1.
  destruct (forallb (fun bw => match g (fst bw) with Some _ => true | None => false end) votes); [|reflexivity].
  f_equal. unfold dconv, conv. apply (conv_fold_ext (fun b => match f b with Some l => l | None => [] end)
                         (fun b => match g b with Some l => l | None => [] end)).
  intros b. rewrite H. reflexivity.
Qed.

(* the shared-scorer conversion is the pure converter model the C13 theorems are about *)
Lemma borda_convert_is_C13_model : forall base s votes,
  snd (borda_step base s (BConvert votes)) =
  BO_conv (oconv (img_positional (Borda base) (length (cands_ranked votes))) votes).
Proof.
  intros. simpl. f_equal. apply oconv_ext. intros b. apply img_positional_st_closed.
Qed.

(* ================================================================ seeded random components *)
Section SeededProofs.
  Variable G : Type.
  Variable seedf : Z -> G.
  Variable entropy : G -> G.
  Context {In Out : Type}.
  Variable body : G -> In -> Out * G.

  (* whatever happened to the process-wide generator before (other seeds, unseeded components,
     foreign users), a seeded component answers as in a fresh process *)
  Lemma seeded_history_free : forall (g0 g1 : G) cs c, is_seeded G c = true ->
    out_after (rstep G seedf entropy body) g0 cs c = out_after (rstep G seedf entropy body) g1 [] c.
  Proof.
    intros g0 g1 cs c Hc. destruct c as [s i|i|f]; try discriminate.
    unfold out_after. simpl. destruct (body (seedf s) i). reflexivity.
  Qed.

  (* same seed, same input => same choice, at any two positions of any two histories *)
  Lemma seeded_repeats : forall g0 g1 cs1 cs2 s i,
    out_after (rstep G seedf entropy body) g0 cs1 (RSeeded G s i) =
    out_after (rstep G seedf entropy body) g1 cs2 (RSeeded G s i).
  Proof.
    intros. unfold out_after. simpl. destruct (body (seedf s) i). reflexivity.
  Qed.
End SeededProofs.
